(** C06 — critical points and spinodals (feos-core/src/state/critical_point.rs), read as exact real formulas.

    Part 1 (one component, abstract equation of state).  [Ar V N] is the reduced residual Helmholtz energy
    beta A^res(T,V,N) at a fixed temperature; the only structural hypothesis is first-order homogeneity in (V,N)
    (property C02, proved for the traced programs there) and three-fold differentiability of the density function
    f(rho) = Ar 1 rho on an open set of densities.  [q11], [c3] are the two entries of [critical_point_objective]
    exactly as coded ([eps1eps2 * sqrt(N*N) + 1]; third derivative in s of A^res + N(ln(N/V) - 1) along
    N + s * evec * sqrt N with evec = 1), [press], [dp_dv], [d2p_dv2] are -dA/dV and its volume derivatives.
      [dp_dv_q11], [d2p_dv2_c3], [crit_pure_equiv], [spinodal_pure_equiv].
    Part 2 (two components).  [eig2] is one Jacobi rotation of num_dual::linalg::jacobi_eigenvalue followed by the
    sort ([smallest_ev]); [crit_obj], [crit_obj_t], [crit_obj_p] the objective vectors; [eig2_correct],
    [crit_obj_scale], [crit_obj_p_third], [ig_third].
    Part 3.  The Newton loops return only what passed the stopping test: [newton_loop_accept], [hkm_accept]. *)
From Coq Require Import Reals Lra Lia Psatz Nsatz.
From Coquelicot Require Import Coquelicot.
From Interval Require Import Tactic.
From FeosVerif Require Import ProgSem.
Open Scope R_scope.


Lemma loc_comp (h : R -> R) (x : R) (P : R -> Prop) :
  ex_derive h x -> locally (h x) P -> locally x (fun t => P (h t)).
Proof.
  intros Hd HP. apply ex_derive_continuous in Hd. exact (Hd P HP).
Qed.

Lemma Derive_loc (g g1 : R -> R) x :
  locally x (fun t => is_derive g t (g1 t)) -> locally x (fun t => Derive g t = g1 t).
Proof. apply filter_imp. intros t Ht. now apply is_derive_unique. Qed.

Lemma Derive_n2_of (g g1 : R -> R) x g2 :
  locally x (fun t => is_derive g t (g1 t)) -> is_derive g1 x g2 -> Derive_n g 2 x = g2.
Proof.
  intros H1 H2. change (Derive_n g 2 x) with (Derive (Derive g) x).
  transitivity (Derive g1 x); [apply Derive_ext_loc, Derive_loc, H1|].
  now apply is_derive_unique.
Qed.

Lemma Derive_n3_of (g g1 g2 : R -> R) x g3 :
  locally x (fun t => is_derive g t (g1 t)) -> locally x (fun t => is_derive g1 t (g2 t)) ->
  is_derive g2 x g3 -> Derive_n g 3 x = g3.
Proof.
  intros H1 H2 H3.
  change (Derive_n g 3 x) with (Derive (fun t => Derive_n g 2 t) x).
  transitivity (Derive g2 x); [apply Derive_ext_loc|now apply is_derive_unique].
  apply locally_locally in H1. generalize (filter_and _ _ H1 H2). apply filter_imp.
  intros t [Ha Hb]. now apply Derive_n2_of with g1.
Qed.



(** * Formulas used by the correspondence check: the objective entries from the public derivatives of the pressure *)
Definition q11_of_dpdv (T V N dpdv : R) : R := - dpdv * V / (T * (N / V)).
Definition c3_of_d2pdv2 (T V N dpdv d2p : R) : R :=
  (d2p * (V * V) / (T * (N / V)) - 3 * q11_of_dpdv T V N dpdv) / sqrt N.

Ltac dside :=
  repeat split; try lra; try (eexists; eassumption);
  try (apply Rmult_lt_0_compat; [lra|apply Rinv_0_lt_compat; lra]).

Section PureCriticality.
  Variable T : R.
  Hypothesis T_pos : 0 < T.
  Variable Ar : R -> R -> R.
  Variable Dom : R -> Prop.
  Hypothesis Dom_open : open Dom.
  Hypothesis Dom_pos : forall rho, Dom rho -> 0 < rho.
  Hypothesis C02_homogeneous :
    forall lam V N, 0 < lam -> 0 < V -> Dom (N / V) -> Ar (lam * V) (lam * N) = lam * Ar V N.
  Definition fres (rho : R) : R := Ar 1 rho.
  Hypothesis f_smooth : forall rho k, Dom rho -> (1 <= k <= 3)%nat -> ex_derive_n fres k rho.

  Let f1 := Derive fres.
  Let f2 := Derive f1.
  Let f3 := Derive f2.

  Lemma f_d1 rho : Dom rho -> is_derive fres rho (f1 rho).
  Proof. intros H. apply Derive_correct. apply (f_smooth rho 1%nat H). lia. Qed.
  Lemma f_d2 rho : Dom rho -> is_derive f1 rho (f2 rho).
  Proof. intros H. apply Derive_correct. apply (f_smooth rho 2%nat H). lia. Qed.
  Lemma f_d3 rho : Dom rho -> is_derive f2 rho (f3 rho).
  Proof. intros H. apply Derive_correct. apply (f_smooth rho 3%nat H). lia. Qed.

  Lemma Ar_density V N : 0 < V -> Dom (N / V) -> Ar V N = V * fres (N / V).
  Proof.
    intros HV HD. unfold fres.
    rewrite <- (C02_homogeneous V 1 (N / V) HV Rlt_0_1).
    - f_equal; field; lra.
    - replace (N / V / 1) with (N / V) by (field; lra). exact HD.
  Qed.

  (** as coded *)
  Definition ig (V n : R) : R := n * (ln (n / V) - 1).
  Definition q11 (V N : R) : R := Derive_n (fun n => Ar V n) 2 N * sqrt (N * N) + 1.
  Definition c3 (V N : R) : R :=
    Derive_n (fun s => Ar V (N + s * (1 * sqrt N)) + ig V (N + s * (1 * sqrt N))) 3 0.
  Definition Atot (V N : R) : R := T * (Ar V N + ig V N).
  Definition press (N V : R) : R := - Derive (fun v => Atot v N) V.
  Definition dp_dv (V N : R) : R := Derive (press N) V.
  Definition d2p_dv2 (V N : R) : R := Derive_n (press N) 2 V.

  Lemma loc_N V N : 0 < V -> Dom (N / V) -> locally N (fun n => Dom (n / V)).
  Proof.
    intros HV HD. apply (loc_comp (fun n => n / V) N Dom); [|now apply Dom_open].
    auto_derive. lra.
  Qed.

  Lemma q11_value V N : 0 < V -> Dom (N / V) -> q11 V N = N / V * f2 (N / V) + 1.
  Proof.
    intros HV HD. pose proof (Dom_pos _ HD) as Hr.
    assert (HN : 0 < N). { apply Rmult_lt_reg_r with (/ V). now apply Rinv_0_lt_compat. unfold Rdiv in Hr. lra. }
    unfold q11. rewrite sqrt_square by lra.
    rewrite (Derive_n2_of _ (fun n => f1 (n / V)) N (f2 (N / V) / V)).
    - field. lra.
    - generalize (loc_N V N HV HD). apply filter_imp. intros n Hn.
      apply is_derive_ext_loc with (fun n => V * fres (n / V)).
      + generalize (loc_N V n HV Hn). apply filter_imp. intros m Hm. symmetry. now apply Ar_density.
      + pose proof (f_d1 _ Hn) as H1. auto_derive.
        * exists (f1 (n / V)). exact H1.
        * change (Derive (fun x => fres x) (n * / V)) with (f1 (n / V)). field. lra.
    - pose proof (f_d2 _ HD) as H2. auto_derive.
      + exists (f2 (N / V)). exact H2.
      + change (Derive (fun x => f1 x) (N * / V)) with (f2 (N / V)). field. lra.
  Qed.

  Lemma pos_N V N : 0 < V -> Dom (N / V) -> 0 < N.
  Proof.
    intros HV HD. pose proof (Dom_pos _ HD) as Hr.
    apply Rmult_lt_reg_r with (/ V). now apply Rinv_0_lt_compat. unfold Rdiv in Hr. lra.
  Qed.

  (** the direction of the third derivative: s |-> N + s * sqrt N stays in the domain near s = 0 *)
  Lemma loc_s V N a : 0 < V -> Dom (N / V) ->
    locally 0 (fun s => Dom ((N + s * a) / V) /\ 0 < N + s * a).
  Proof.
    intros HV HD. pose proof (pos_N V N HV HD) as HN.
    apply filter_and.
    - apply (loc_comp (fun s => (N + s * a) / V) 0 Dom).
      + auto_derive. exact I.
      + replace ((N + 0 * a) / V) with (N / V) by (field; lra). now apply Dom_open.
    - apply (loc_comp (fun s => N + s * a) 0 (fun x => 0 < x)).
      + auto_derive. exact I.
      + replace (N + 0 * a) with N by ring. apply (open_gt 0). exact HN.
  Qed.

  Lemma c3_value V N : 0 < V -> Dom (N / V) ->
    c3 V N = (N / V * (N / V) * f3 (N / V) - 1) / sqrt N.
  Proof.
    intros HV HD. pose proof (pos_N V N HV HD) as HN.
    assert (Ha : 0 < sqrt N) by now apply sqrt_lt_R0.
    assert (Haa : sqrt N * sqrt N = N) by (apply sqrt_sqrt; lra).
    unfold c3. rewrite Rmult_1_l. set (a := sqrt N) in *.
    assert (Hloc := loc_s V N a HV HD).
    assert (Hloc2 : locally 0 (fun s => locally s (fun u => Dom ((N + u * a) / V) /\ 0 < N + u * a)))
      by now apply locally_locally.
    rewrite (Derive_n3_of _
      (fun s => a * f1 ((N + s * a) / V) + a * ln ((N + s * a) / V))
      (fun s => a * a * f2 ((N + s * a) / V) / V + a * a / (N + s * a))
      0 (a * a * a * f3 (N / V) / (V * V) - a * a * a / (N * N))).
    - replace (N / V * (N / V) * f3 (N / V)) with (N * N * f3 (N / V) / (V * V)) by (field; lra).
      clearbody a. rewrite <- Haa. field. split; lra.
    - generalize Hloc2. apply filter_imp. intros s Hs.
      pose proof (locally_singleton _ _ Hs) as [HsD Hsp].
      apply is_derive_ext_loc with (fun s => V * fres ((N + s * a) / V) + ig V (N + s * a)).
      + generalize Hs. apply filter_imp. intros u [HuD Hup]. f_equal. symmetry. now apply Ar_density.
      + pose proof (f_d1 _ HsD) as H1. unfold ig. auto_derive.
        * split; [exists (f1 ((N + s * a) / V)); exact H1|].
          split; [|exact I]. apply Rdiv_lt_0_compat; lra.
        * change (Derive (fun x => fres x) ((N + s * a) * / V)) with (f1 ((N + s * a) / V)).
          unfold Rdiv. field. split; lra.
    - generalize Hloc. apply filter_imp. intros s [HsD Hsp].
      pose proof (f_d2 _ HsD) as H2. auto_derive.
      + split; [exists (f2 ((N + s * a) / V)); exact H2|].
        split; [|exact I]. apply Rdiv_lt_0_compat; lra.
      + change (Derive (fun x => f1 x) ((N + s * a) * / V)) with (f2 ((N + s * a) / V)).
        field. split; lra.
    - assert (HD0 : Dom ((N + 0 * a) / V)) by (replace ((N + 0 * a) / V) with (N / V) by (field; lra); exact HD).
      pose proof (f_d3 _ HD0) as H3. auto_derive.
      + split; [exists (f3 ((N + 0 * a) / V)); exact H3|]. lra.
      + change (Derive (fun x => f2 x) ((N + 0 * a) * / V)) with (f3 ((N + 0 * a) / V)).
        replace ((N + 0 * a) / V) with (N / V) by (field; lra).
        field. split; lra.
  Qed.

  Lemma loc_V V N : 0 < V -> Dom (N / V) -> locally V (fun v => 0 < v /\ Dom (N / v)).
  Proof.
    intros HV HD. apply filter_and.
    - apply (open_gt 0). exact HV.
    - apply (loc_comp (fun v => N / v) V Dom); [|now apply Dom_open].
      auto_derive. lra.
  Qed.

  Definition P0 (N v : R) : R := - T * (fres (N / v) - N / v * f1 (N / v) - N / v).
  Definition P1 (N v : R) : R := - T * (N / v) / v * (N / v * f2 (N / v) + 1).
  Definition P2 (N v : R) : R :=
    T * (N / v) / (v * v) * (2 + 3 * (N / v * f2 (N / v)) + N / v * (N / v) * f3 (N / v)).

  Lemma press_value V N : 0 < V -> Dom (N / V) -> press N V = P0 N V.
  Proof.
    intros HV HD. pose proof (pos_N V N HV HD) as HN. unfold press, P0.
    replace (- T * (fres (N / V) - N / V * f1 (N / V) - N / V))
      with (- (T * (fres (N / V) - N / V * f1 (N / V) - N / V))) by ring.
    f_equal. apply is_derive_unique.
    apply is_derive_ext_loc with (fun v => T * (v * fres (N / v) + ig v N)).
    - generalize (loc_V V N HV HD). apply filter_imp. intros v [Hv HvD]. unfold Atot.
      f_equal. f_equal. symmetry. now apply Ar_density.
    - pose proof (f_d1 _ HD) as H1. unfold ig. auto_derive.
      + dside.
      + change (Derive (fun x => fres x) (N * / V)) with (f1 (N / V)). unfold Rdiv. field. lra.
  Qed.

  Lemma dp_dv_value V N : 0 < V -> Dom (N / V) -> dp_dv V N = P1 N V.
  Proof.
    intros HV HD. pose proof (pos_N V N HV HD) as HN. unfold dp_dv.
    apply is_derive_unique. apply is_derive_ext_loc with (P0 N).
    - generalize (loc_V V N HV HD). apply filter_imp. intros v [Hv HvD]. symmetry. now apply press_value.
    - pose proof (f_d1 _ HD) as H1. pose proof (f_d2 _ HD) as H2. unfold P0, P1. auto_derive.
      + dside.
      + change (Derive (fun x => fres x) (N * / V)) with (f1 (N / V)).
        change (Derive (fun x => f1 x) (N * / V)) with (f2 (N / V)). unfold Rdiv. field. lra.
  Qed.

  Lemma d2p_dv2_value V N : 0 < V -> Dom (N / V) -> d2p_dv2 V N = P2 N V.
  Proof.
    intros HV HD. pose proof (pos_N V N HV HD) as HN. unfold d2p_dv2.
    change (Derive_n (press N) 2 V) with (Derive (Derive (press N)) V).
    apply is_derive_unique. apply is_derive_ext_loc with (P1 N).
    - generalize (loc_V V N HV HD). apply filter_imp. intros v [Hv HvD]. symmetry.
      now apply (dp_dv_value v N).
    - pose proof (f_d2 _ HD) as H2. pose proof (f_d3 _ HD) as H3. unfold P1, P2. auto_derive.
      + dside.
      + change (Derive (fun x => f1 x) (N * / V)) with (f2 (N / V)).
        change (Derive (fun x => f2 x) (N * / V)) with (f3 (N / V)). unfold Rdiv. field. lra.
  Qed.

  (** the objective functions are the volume derivatives of the pressure, rescaled *)
  Theorem dp_dv_q11 V N : 0 < V -> Dom (N / V) -> dp_dv V N = - T * (N / V) / V * q11 V N.
  Proof. intros HV HD. rewrite dp_dv_value, q11_value by assumption. reflexivity. Qed.

  Theorem d2p_dv2_c3 V N : 0 < V -> Dom (N / V) ->
    d2p_dv2 V N = T * (N / V) / (V * V) * (3 * q11 V N + sqrt N * c3 V N).
  Proof.
    intros HV HD. pose proof (pos_N V N HV HD) as HN.
    rewrite d2p_dv2_value, q11_value, c3_value by assumption. unfold P2.
    assert (0 < sqrt N) by now apply sqrt_lt_R0. field. split; lra.
  Qed.

  Theorem spinodal_pure_equiv V N : 0 < V -> Dom (N / V) -> (q11 V N = 0 <-> dp_dv V N = 0).
  Proof.
    intros HV HD. pose proof (Dom_pos _ HD) as Hr. rewrite dp_dv_q11 by assumption.
    assert (Hc : - T * (N / V) / V <> 0).
    { unfold Rdiv at 1. apply Rmult_integral_contrapositive_currified; [nra|]. apply Rinv_neq_0_compat; lra. }
    split; intros H.
    - rewrite H. ring.
    - apply Rmult_integral in H. tauto.
  Qed.

  Theorem crit_pure_equiv V N : 0 < V -> Dom (N / V) ->
    (q11 V N = 0 /\ c3 V N = 0 <-> dp_dv V N = 0 /\ d2p_dv2 V N = 0).
  Proof.
    intros HV HD. pose proof (Dom_pos _ HD) as Hr. pose proof (pos_N V N HV HD) as HN.
    assert (Hs : 0 < sqrt N) by now apply sqrt_lt_R0.
    rewrite <- (spinodal_pure_equiv V N HV HD). rewrite d2p_dv2_c3 by assumption.
    assert (Hc : T * (N / V) / (V * V) <> 0).
    { unfold Rdiv at 1. apply Rmult_integral_contrapositive_currified; [nra|]. apply Rinv_neq_0_compat; nra. }
    split; intros [Hq H].
    - split; [exact Hq|]. rewrite Hq, H. ring.
    - split; [exact Hq|]. rewrite Hq in H. apply Rmult_integral in H. destruct H as [H|H]; [tauto|].
      replace (3 * 0 + sqrt N * c3 V N) with (sqrt N * c3 V N) in H by ring.
      apply Rmult_integral in H. destruct H; lra.
  Qed.
  Theorem q11_tie V N : 0 < V -> Dom (N / V) -> q11 V N = q11_of_dpdv T V N (dp_dv V N).
  Proof.
    intros HV HD. pose proof (pos_N V N HV HD) as HN. rewrite dp_dv_q11 by assumption.
    unfold q11_of_dpdv. field. repeat split; lra.
  Qed.

  Theorem c3_tie V N : 0 < V -> Dom (N / V) -> c3 V N = c3_of_d2pdv2 T V N (dp_dv V N) (d2p_dv2 V N).
  Proof.
    intros HV HD. pose proof (Dom_pos _ HD) as Hr. pose proof (pos_N V N HV HD) as HN.
    assert (Hs : 0 < sqrt N) by now apply sqrt_lt_R0.
    unfold c3_of_d2pdv2. rewrite <- q11_tie by assumption. rewrite d2p_dv2_c3 by assumption.
    field. repeat split; lra.
  Qed.
End PureCriticality.

(** * The hypotheses are satisfiable and the equivalence is not vacuous: beta A^res = -N^2/V + N^3/(6 V^2)
      (f = -rho^2 + rho^3/6) has its critical point at rho = 1, at positive pressure *)
Section Example.
  Definition ArEx (V N : R) : R := - (N * N) / V + N * N * N / (6 * (V * V)).
  Definition DomEx (rho : R) : Prop := 0 < rho.

  Lemma ArEx_d1 x : Derive (fres ArEx) x = - 2 * x + x * x / 2.
  Proof. apply is_derive_unique. unfold fres, ArEx. auto_derive; [exact I|field]. Qed.
  Lemma ArEx_d2 x : Derive (Derive (fres ArEx)) x = - 2 + x.
  Proof. rewrite (Derive_ext _ _ x ArEx_d1). apply is_derive_unique. auto_derive; [exact I|field]. Qed.
  Lemma ArEx_d3 x : Derive (Derive (Derive (fres ArEx))) x = 1.
  Proof. rewrite (Derive_ext _ _ x ArEx_d2). apply is_derive_unique. auto_derive; [exact I|ring]. Qed.

  Lemma ArEx_smooth rho k : DomEx rho -> (1 <= k <= 3)%nat -> ex_derive_n (fres ArEx) k rho.
  Proof.
    intros _ Hk. assert (Hc : (k = 1 \/ k = 2 \/ k = 3)%nat) by lia. destruct Hc as [ -> | [ -> | -> ] ].
    - cbn. unfold fres, ArEx. auto_derive. exact I.
    - change (ex_derive (Derive (fres ArEx)) rho).
      apply ex_derive_ext with (fun x => - 2 * x + x * x / 2); [intros t; symmetry; apply ArEx_d1|]. auto_derive. exact I.
    - change (ex_derive (Derive (Derive (fres ArEx))) rho).
      apply ex_derive_ext with (fun x => - 2 + x); [intros t; symmetry; apply ArEx_d2|]. auto_derive. exact I.
  Qed.

  Lemma ArEx_homogeneous lam V N : 0 < lam -> 0 < V -> DomEx (N / V) -> ArEx (lam * V) (lam * N) = lam * ArEx V N.
  Proof. intros Hl HV _. unfold ArEx. field. split; lra. Qed.

  Example crit_pure_example :
    q11 ArEx 1 1 = 0 /\ c3 ArEx 1 1 = 0 /\ dp_dv 1 ArEx 1 1 = 0 /\ d2p_dv2 1 ArEx 1 1 = 0 /\ 0 < press 1 ArEx 1 1.
  Proof.
    assert (Hop : open DomEx) by apply (open_gt 0).
    assert (Hpos : forall rho, DomEx rho -> 0 < rho) by (intros rho H; exact H).
    assert (HD : DomEx (1 / 1)) by (unfold DomEx; lra).
    assert (Hq : q11 ArEx 1 1 = 0).
    { rewrite (q11_value ArEx DomEx Hop Hpos ArEx_homogeneous ArEx_smooth 1 1 Rlt_0_1 HD).
      replace (1 / 1) with 1 by field. rewrite ArEx_d2. ring. }
    assert (Hc : c3 ArEx 1 1 = 0).
    { rewrite (c3_value ArEx DomEx Hop Hpos ArEx_homogeneous ArEx_smooth 1 1 Rlt_0_1 HD).
      replace (1 / 1) with 1 by field. rewrite ArEx_d3. rewrite sqrt_1. field. }
    pose proof (crit_pure_equiv 1 Rlt_0_1 ArEx DomEx Hop Hpos ArEx_homogeneous ArEx_smooth 1 1 Rlt_0_1 HD) as [He _].
    destruct (He (conj Hq Hc)) as [H1 H2].
    repeat split; try assumption.
    rewrite (press_value 1 ArEx DomEx Hop Hpos ArEx_homogeneous ArEx_smooth 1 1 Rlt_0_1 HD).
    unfold P0. replace (1 / 1) with 1 by field. rewrite ArEx_d1. unfold fres, ArEx. lra.
  Qed.
End Example.



(** one Jacobi rotation of num_dual::linalg::jacobi_eigenvalue for n = 2, Q = [[a,b],[b,c]] *)
Definition jac_t (a b c : R) : R :=
  let th := (c - a) / 2 / b in
  let t0 := / (Rabs th + sqrt (th * th + 1)) in
  if Rlt_dec th 0 then - t0 else t0.

Definition eig2 (a b c : R) : R * (R * R) :=
  if Req_EM_T b 0 then (if Rlt_dec c a then (c, (0, 1)) else (a, (1, 0)))
  else
    let t := jac_t a b c in
    let cs := / sqrt (t * t + 1) in
    let s := t * cs in
    let d0 := a - t * b in
    let d1 := c + t * b in
    if Rlt_dec d1 d0 then (d1, (s, cs)) else (d0, (cs, - s)).

Lemma jac_t_eq a b c : b <> 0 -> let t := jac_t a b c in b * (t * t) + (c - a) * t - b = 0.
Proof.
  intros Hb. unfold jac_t. set (th := (c - a) / 2 / b).
  assert (Hca : c - a = 2 * b * th) by (unfold th; field; exact Hb).
  assert (Hs : 0 <= th * th + 1) by nra.
  pose proof (sqrt_sqrt _ Hs) as Hq. pose proof (sqrt_pos (th * th + 1)) as Hp.
  set (r := sqrt (th * th + 1)) in *.
  assert (Hr : Rabs th < r).
  { apply Rsqr_incrst_0; [|apply Rabs_pos|exact Hp]. rewrite <- Rsqr_abs. unfold Rsqr. nra. }
  cbv zeta. rewrite Hca.
  destruct (Rlt_dec th 0) as [Hn|Hn].
  - rewrite Rabs_left in * by lra.
    assert (Hi : / (- th + r) = r + th) by (apply Rmult_eq_reg_l with (- th + r); [rewrite Rinv_r by lra; nra|lra]).
    rewrite Hi. nra.
  - rewrite Rabs_right in * by lra.
    assert (Hi : / (th + r) = r - th) by (apply Rmult_eq_reg_l with (th + r); [rewrite Rinv_r by lra; nra|lra]).
    rewrite Hi. nra.
Qed.

Definition quad (a b c w1 w2 : R) : R := a * (w1 * w1) + 2 * b * (w1 * w2) + c * (w2 * w2).

Theorem eig2_correct a b c :
  let '(l, (u1, u2)) := eig2 a b c in
  a * u1 + b * u2 = l * u1 /\ b * u1 + c * u2 = l * u2 /\ u1 * u1 + u2 * u2 = 1 /\
  forall w1 w2, l * (w1 * w1 + w2 * w2) <= quad a b c w1 w2.
Proof.
  unfold eig2. destruct (Req_EM_T b 0) as [Hb|Hb].
  - subst b. destruct (Rlt_dec c a) as [H|H]; (repeat split; try ring; intros w1 w2; unfold quad; nra).
  - pose proof (jac_t_eq a b c Hb) as Ht. cbv zeta in *. set (t := jac_t a b c) in *.
    assert (Hs : 0 < t * t + 1) by nra.
    pose proof (sqrt_sqrt (t * t + 1) (Rlt_le _ _ Hs)) as Hq.
    pose proof (sqrt_lt_R0 _ Hs) as Hp.
    set (r := sqrt (t * t + 1)) in *.
    assert (Hc : / r * / r * (t * t + 1) = 1) by (rewrite <- Hq; field; lra).
    set (cs := / r) in *.
    assert (Hrot : forall w1 w2, quad a b c w1 w2 =
                     (a - t * b) * ((cs * w1 - t * cs * w2) * (cs * w1 - t * cs * w2)) +
                     (c + t * b) * ((t * cs * w1 + cs * w2) * (t * cs * w1 + cs * w2))).
    { intros w1 w2. unfold quad. clearbody cs t. clear - Hc Ht. nsatz. }
    assert (Hnorm : forall w1 w2, w1 * w1 + w2 * w2 =
                     (cs * w1 - t * cs * w2) * (cs * w1 - t * cs * w2) +
                     (t * cs * w1 + cs * w2) * (t * cs * w1 + cs * w2)).
    { intros w1 w2. transitivity ((cs * cs * (t * t + 1)) * (w1 * w1 + w2 * w2)); [rewrite Hc; ring|ring]. }
    assert (Hcs : cs * cs * (t * t + 1) = 1) by exact Hc.
    clearbody cs t. clear Hc Hq Hp r.
    destruct (Rlt_dec (c + t * b) (a - t * b)) as [H|H]; cbv beta iota.
    + split; [clear - Ht Hcs; nsatz|]. split; [clear - Ht Hcs; nsatz|]. split; [clear - Ht Hcs; nsatz|].
      intros w1 w2. rewrite Hrot. rewrite (Hnorm w1 w2) at 1.
      set (al := (cs * w1 - t * cs * w2) * (cs * w1 - t * cs * w2)).
      set (be := (t * cs * w1 + cs * w2) * (t * cs * w1 + cs * w2)).
      assert (0 <= al) by (unfold al; apply Rle_0_sqr). clearbody al be.
      assert ((c + t * b) * al <= (a - t * b) * al) by (apply Rmult_le_compat_r; lra). lra.
    + split; [clear - Ht Hcs; nsatz|]. split; [clear - Ht Hcs; nsatz|]. split; [clear - Ht Hcs; nsatz|].
      intros w1 w2. rewrite Hrot. rewrite (Hnorm w1 w2) at 1.
      set (al := (cs * w1 - t * cs * w2) * (cs * w1 - t * cs * w2)).
      set (be := (t * cs * w1 + cs * w2) * (t * cs * w1 + cs * w2)).
      assert (0 <= be) by (unfold be; apply Rle_0_sqr). clearbody al be.
      assert ((a - t * b) * be <= (c + t * b) * be) by (apply Rmult_le_compat_r; lra). lra.
Qed.

(** * The criticality objective for two components, as coded
    Data of the residual reduced Helmholtz energy beta A^res(T,V,N1,N2) at the state:
    H_ij = d2/dNi dNj, T_ijk = d3/dNi dNj dNk (symmetric), dAdV = d/dV. *)
Record jet2 := { H11 : R; H12 : R; H22 : R; T111 : R; T112 : R; T122 : R; T222 : R }.

Definition Qa (N1 N2 : R) (J : jet2) : R := H11 J * sqrt (N1 * N1) + 1.
Definition Qb (N1 N2 : R) (J : jet2) : R := H12 J * sqrt (N1 * N2) + 0.
Definition Qc (N1 N2 : R) (J : jet2) : R := H22 J * sqrt (N2 * N2) + 1.

(** third derivative in s of  A^res(N + s w) + sum_i (N_i + s w_i)(ln((N_i + s w_i)/V) - 1)  at s = 0 *)
Definition cubic (J : jet2) (w1 w2 : R) : R :=
  T111 J * (w1 * w1 * w1) + 3 * T112 J * (w1 * w1 * w2) + 3 * T122 J * (w1 * w2 * w2) + T222 J * (w2 * w2 * w2).
Definition c3_bin (N1 N2 : R) (J : jet2) (u1 u2 : R) : R :=
  let w1 := u1 * sqrt N1 in
  let w2 := u2 * sqrt N2 in
  cubic J w1 w2 - (w1 * w1 * w1 / (N1 * N1) + w2 * w2 * w2 / (N2 * N2)).

Definition crit_obj (N1 N2 : R) (J : jet2) : R * R :=
  let '(l, (u1, u2)) := eig2 (Qa N1 N2 J) (Qb N1 N2 J) (Qc N1 N2 J) in (l, c3_bin N1 N2 J u1 u2).

(** (T)-variant: unknowns are the partial densities, the state is (T, V = 1, N = rho) *)
Definition crit_obj_t (rho1 rho2 : R) (J_at_V1 : jet2) : R * R := crit_obj rho1 rho2 J_at_V1.

(** (p)-variant: additionally  (dAres/dV - (rho1 + rho2)) * T + p_spec *)
Definition crit_obj_p (pspec T rho1 rho2 : R) (J_at_V1 : jet2) (dAdV : R) : R * R * R :=
  (crit_obj rho1 rho2 J_at_V1, (dAdV - (rho1 + rho2)) * T + pspec).

(** the ideal part of the third directional derivative, as coded: sum_i n_i (ln (n_i / V) - 1) along N + s w *)
Lemma ig_third (V N w : R) : 0 < V -> 0 < N ->
  Derive_n (fun s => (N + s * w) * (ln ((N + s * w) / V) - 1)) 3 0 = - (w * w * w / (N * N)).
Proof.
  intros HV HN.
  assert (Hloc : locally 0 (fun s => 0 < N + s * w)).
  { apply (ex_derive_continuous (fun s => N + s * w) 0); [auto_derive; exact I|].
    replace (N + 0 * w) with N by ring. apply (open_gt 0). exact HN. }
  change (Derive_n (fun s => (N + s * w) * (ln ((N + s * w) / V) - 1)) 3 0)
    with (Derive (Derive (Derive (fun s => (N + s * w) * (ln ((N + s * w) / V) - 1)))) 0).
  assert (H1 : locally 0 (fun s => Derive (fun s => (N + s * w) * (ln ((N + s * w) / V) - 1)) s = w * ln ((N + s * w) / V))).
  { generalize Hloc. apply filter_imp. intros s Hs. apply is_derive_unique. auto_derive.
    - dside.
    - unfold Rdiv. field. split; lra. }
  assert (H2 : locally 0 (fun s => Derive (Derive (fun s => (N + s * w) * (ln ((N + s * w) / V) - 1))) s = w * w / (N + s * w))).
  { apply locally_locally in H1. generalize (filter_and _ _ H1 Hloc). apply filter_imp. intros s [Hs Hp].
    rewrite (Derive_ext_loc _ _ s Hs). apply is_derive_unique. auto_derive.
    - dside.
    - unfold Rdiv. field. split; lra. }
  rewrite (Derive_ext_loc _ _ 0 H2). apply is_derive_unique. auto_derive.
  - lra.
  - field. lra.
Qed.

(** the cubic form is what four third directional derivatives determine (how the harness obtains T_ijk) *)
Lemma polarisation (J : jet2) :
  T111 J = cubic J 1 0 /\ T222 J = cubic J 0 1 /\
  T112 J = (cubic J 1 1 - cubic J 1 (-1) - 2 * cubic J 0 1) / 6 /\
  T122 J = (cubic J 1 1 + cubic J 1 (-1) - 2 * cubic J 1 0) / 6.
Proof. unfold cubic. repeat split; field. Qed.

(** C02 (first-order homogeneity of A^res in (V,N)) makes H_ij homogeneous of degree -1 and T_ijk of degree -2;
    the objective at (lam V, lam N) is then the objective at (V, N) with the second entry divided by sqrt lam:
    the partial densities at V = 1 of the (T)- and (p)-variants decide criticality of every state with these densities. *)
Definition scale_jet (lam : R) (J : jet2) : jet2 :=
  {| H11 := H11 J / lam; H12 := H12 J / lam; H22 := H22 J / lam;
     T111 := T111 J / (lam * lam); T112 := T112 J / (lam * lam); T122 := T122 J / (lam * lam); T222 := T222 J / (lam * lam) |}.

Theorem crit_obj_scale (lam N1 N2 : R) (J : jet2) : 0 < lam -> 0 < N1 -> 0 < N2 ->
  crit_obj (lam * N1) (lam * N2) (scale_jet lam J) =
  (fst (crit_obj N1 N2 J), snd (crit_obj N1 N2 J) / sqrt lam).
Proof.
  intros Hl H1 H2. unfold crit_obj.
  assert (Hs : 0 < sqrt lam) by now apply sqrt_lt_R0.
  assert (Hss : sqrt lam * sqrt lam = lam) by (apply sqrt_sqrt; lra).
  assert (Ha : Qa (lam * N1) (lam * N2) (scale_jet lam J) = Qa N1 N2 J).
  { unfold Qa, scale_jet; cbn. rewrite !sqrt_square by nra. field. lra. }
  assert (Hb : Qb (lam * N1) (lam * N2) (scale_jet lam J) = Qb N1 N2 J).
  { unfold Qb, scale_jet; cbn. replace (lam * N1 * (lam * N2)) with (lam * lam * (N1 * N2)) by ring.
    rewrite sqrt_mult by nra. rewrite sqrt_square by lra. field. lra. }
  assert (Hc : Qc (lam * N1) (lam * N2) (scale_jet lam J) = Qc N1 N2 J).
  { unfold Qc, scale_jet; cbn. rewrite !sqrt_square by nra. field. lra. }
  rewrite Ha, Hb, Hc. destruct (eig2 (Qa N1 N2 J) (Qb N1 N2 J) (Qc N1 N2 J)) as [l [u1 u2]]. cbn [fst snd].
  f_equal. unfold c3_bin, cubic, scale_jet; cbn.
  rewrite !sqrt_mult by lra.
  assert (0 < sqrt N1) by now apply sqrt_lt_R0. assert (0 < sqrt N2) by now apply sqrt_lt_R0.
  assert (Hs1 : sqrt N1 * sqrt N1 = N1) by (apply sqrt_sqrt; lra).
  assert (Hs2 : sqrt N2 * sqrt N2 = N2) by (apply sqrt_sqrt; lra).
  set (sl := sqrt lam) in *. set (s1 := sqrt N1) in *. set (s2 := sqrt N2) in *.
  clearbody sl s1 s2. clear Ha Hb Hc.
  assert (El : lam = sl * sl) by lra. assert (E1 : N1 = s1 * s1) by lra. assert (E2 : N2 = s2 * s2) by lra.
  clear Hss Hs1 Hs2 Hl H1 H2. subst lam N1 N2. field. repeat split; lra.
Qed.

(** the (p)-variant's third entry is p_spec - p(T, rho) with p = - dA/dV of A = T (A^res + sum_i N_i (ln (N_i/V) - 1)) at V = 1 *)
Section PressureResidual.
  Variables (T rho1 rho2 pspec dAdV : R) (AresV : R -> R).
  Hypothesis rho1_pos : 0 < rho1.
  Hypothesis rho2_pos : 0 < rho2.
  Hypothesis AresV_derive : is_derive AresV 1 dAdV.
  Definition Atot2 (v : R) : R := T * (AresV v + rho1 * (ln (rho1 / v) - 1) + rho2 * (ln (rho2 / v) - 1)).
  Definition p_state : R := - Derive Atot2 1.

  Theorem crit_obj_p_third (J : jet2) :
    snd (crit_obj_p pspec T rho1 rho2 J dAdV) = pspec - p_state.
  Proof.
    unfold crit_obj_p, p_state; cbn [snd].
    rewrite (is_derive_unique Atot2 1 (T * (dAdV - (rho1 + rho2)))); [ring|].
    unfold Atot2. auto_derive.
    - dside.
    - change (Derive (fun x : R => AresV x) 1) with (Derive AresV 1). rewrite (is_derive_unique _ _ _ AresV_derive). field. split; lra.
  Qed.
End PressureResidual.

(** * The Newton loops: what is returned has passed the stopping test one step earlier *)
Section NewtonLoop.
  Variable X : Type.
  Variable advance : X -> option X.      (* Newton step incl. LU solve (None = failure), step limiter and density floor *)
  Variable resnorm : X -> R.             (* norm of the objective at the iterate *)
  Variable tol : R.

  Fixpoint newton_loop (fuel : nat) (x : X) : option X :=
    match fuel with
    | O => None
    | S k => match advance x with
             | None => None
             | Some x' => if Rlt_dec (resnorm x) tol then Some x' else newton_loop k x'
             end
    end.

  Theorem newton_loop_accept fuel x0 y :
    newton_loop fuel x0 = Some y -> exists x, resnorm x < tol /\ advance x = Some y.
  Proof.
    revert x0. induction fuel as [|k IH]; intros x0 H; cbn in H; [discriminate|].
    destruct (advance x0) as [x'|] eqn:E; [|discriminate].
    destruct (Rlt_dec (resnorm x0) tol) as [Hl|Hl].
    - injection H as <-. exists x0. split; assumption.
    - exact (IH _ H).
  Qed.
End NewtonLoop.

(** the step of [critical_point_hkm]: objective (eval, c3) at (t, rho), limited Newton step *)
Definition norm_2 (r : R * R) : R := sqrt (fst r * fst r + snd r * snd r).

Lemma norm_2_bound r tol : norm_2 r < tol -> Rabs (fst r) < tol /\ Rabs (snd r) < tol.
Proof.
  intros H. unfold norm_2 in H. split; (apply Rle_lt_trans with (2 := H)); rewrite <- sqrt_Rsqr_abs;
    apply sqrt_le_1_alt; unfold Rsqr; nra.
Qed.

Definition scale2 (k : R) (d : R * R) : R * R := (k * fst d, k * snd d).
Definition hkm_limit (t maxdens : R) (d : R * R) : R * R :=
  let d1 := if Rlt_dec (0.25 * t) (Rabs (fst d)) then scale2 (0.25 * t / Rabs (fst d)) d else d in
  if Rlt_dec (0.03 * maxdens) (Rabs (snd d1)) then scale2 (0.03 * maxdens / Rabs (snd d1)) d1 else d1.
Definition hkm_apply (maxdens : R) (x d : R * R) : R * R :=
  (fst x - fst d, Rmax (snd x - snd d) (1e-4 * maxdens)).
Definition hkm_advance (delta : R * R -> option (R * R)) (maxdens : R) (x : R * R) : option (R * R) :=
  match delta x with
  | None => None
  | Some d => Some (hkm_apply maxdens x (hkm_limit (fst x) maxdens d))
  end.
Definition hkm (obj : R * R -> R * R) (delta : R * R -> option (R * R)) (maxdens tol : R) :=
  newton_loop (R * R) (hkm_advance delta maxdens) (fun x => norm_2 (obj x)) tol.

Lemma hkm_limit_bound t maxdens d : 0 < t -> 0 < maxdens ->
  Rabs (fst (hkm_limit t maxdens d)) <= 0.25 * t /\ Rabs (snd (hkm_limit t maxdens d)) <= 0.03 * maxdens.
Proof.
  intros Ht Hm. unfold hkm_limit.
  set (d1 := if Rlt_dec (0.25 * t) (Rabs (fst d)) then scale2 (0.25 * t / Rabs (fst d)) d else d).
  assert (H1 : Rabs (fst d1) <= 0.25 * t).
  { unfold d1. destruct (Rlt_dec (0.25 * t) (Rabs (fst d))) as [H|H]; [|lra].
    cbn. rewrite Rabs_mult. rewrite (Rabs_right (0.25 * t / Rabs (fst d))).
    - right. field. lra.
    - apply Rle_ge. apply Rlt_le. apply Rdiv_lt_0_compat; lra. }
  destruct (Rlt_dec (0.03 * maxdens) (Rabs (snd d1))) as [H|H]; [|split; lra].
  assert (Hk : 0 < 0.03 * maxdens / Rabs (snd d1) < 1).
  { split; [apply Rdiv_lt_0_compat; lra|]. apply Rmult_lt_reg_r with (Rabs (snd d1)); [lra|].
    unfold Rdiv. rewrite Rmult_assoc, Rinv_l by lra. lra. }
  cbn. rewrite !Rabs_mult. rewrite (Rabs_right (0.03 * maxdens / Rabs (snd d1))) by lra. split.
  - pose proof (Rabs_pos (fst d1)). nra.
  - right. field. lra.
Qed.

Theorem hkm_accept obj delta maxdens tol fuel x0 y :
  hkm obj delta maxdens tol fuel x0 = Some y ->
  exists x d, Rabs (fst (obj x)) < tol /\ Rabs (snd (obj x)) < tol /\ delta x = Some d /\
              y = hkm_apply maxdens x (hkm_limit (fst x) maxdens d).
Proof.
  intros H. apply newton_loop_accept in H. destruct H as [x [Hn Ha]].
  unfold hkm_advance in Ha. destruct (delta x) as [d|] eqn:E; [|discriminate].
  injection Ha as <-. exists x, d. apply norm_2_bound in Hn. tauto.
Qed.

(** * Tactics of the generated correspondence goals *)
Ltac pure_interval :=
  unfold q11_of_dpdv, c3_of_d2pdv2, dy_R; cbn [fst snd]; interval with (i_prec 100).

(* enclose a subterm with the verified interval evaluator and forget its definition (generalisation: the goal is then
   proved for every value in the enclosure) *)
Ltac encl e :=
  let H := fresh "B" in let x := fresh "x" in
  interval_intro e with (i_prec 100) as H; set (x := e) in *; clearbody x.

Ltac decide_lt0 :=
  match goal with
  | |- context [Rlt_dec ?x 0] =>
      let HL := fresh "HL" in
      destruct (Rlt_dec x 0) as [HL|HL];
      [ try (exfalso; apply (Rlt_not_le _ _ HL); interval with (i_prec 100))
      | try (exfalso; apply HL; interval with (i_prec 100)) ]; clear HL
  end.

Ltac decide_lt :=
  match goal with
  | |- context [Rlt_dec ?x ?y] =>
      let HL := fresh "HL" in
      destruct (Rlt_dec x y) as [HL|HL];
      [ try (exfalso; apply (Rlt_not_le _ _ HL); apply Rminus_le; interval with (i_prec 100))
      | try (exfalso; apply HL; apply Rminus_lt; interval with (i_prec 100)) ]; clear HL
  end.

(* follows [eig2] step by step: Q entries, theta, the branch on its sign, t, c, the branch d1 < d0 *)
Ltac crit_interval :=
  cbv zeta; unfold crit_obj_p, crit_obj_t, crit_obj, Qa, Qb, Qc, dy_R;
  cbn [fst snd H11 H12 H22 T111 T112 T122 T222];
  match goal with |- context [eig2 ?a ?b ?c] => encl a; encl b; encl c end;
  unfold eig2;
  match goal with
  | |- context [Req_EM_T ?x ?y] =>
      let HE := fresh "HE" in
      destruct (Req_EM_T x y) as [HE|HE];
      [ exfalso; revert HE;
        first [ apply Rlt_not_eq; interval with (i_prec 100) | apply Rgt_not_eq; interval with (i_prec 100) ]
      | clear HE ]
  end;
  unfold jac_t; cbv zeta;
  match goal with |- context [Rlt_dec ?th 0] => encl th end;
  decide_lt0;
  match goal with |- context [/ (Rabs ?th + ?r)] => encl (/ (Rabs th + r)) end;
  match goal with |- context [/ sqrt (?e + 1)] => encl (/ sqrt (e + 1)) end;
  decide_lt;
  cbv beta iota zeta; unfold c3_bin, cubic; cbv zeta; cbn [fst snd H11 H12 H22 T111 T112 T122 T222];
  repeat split; interval with (i_prec 100).
