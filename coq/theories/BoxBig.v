(** * BoxBig: interval evaluation over a box of inputs proves definedness for every point of the box,
    and the box used for the density axis of the virial programs. *)
From Coq Require Import Reals List ZArith Lia Lra.
From Interval Require Import Float.Basic Float.Specific_ops Float.Specific_bigint Interval.Interval Interval.Float_full.
From Interval Require Import Eval.Prog Eval.Tree Real.Xreal Eval.Eval.
From FeosVerif Require Import ProgSem ProgSemBig AD.
Import ListNotations.
Local Open Scope R_scope.

Definition pm1 : IB.type := IB.bnd (IB.F.fromZ (-1)) (IB.F.fromZ 1).

Lemma pm1_correct s : -1 <= s <= 1 -> contains (IB.convert pm1) (Xreal s).
Proof.
  intros H. unfold pm1. rewrite IB.bnd_correct.
  - rewrite !IB.F.fromZ_correct by (cbn; lia). cbn. lra.
  - vm_compute. reflexivity.
  - vm_compute. reflexivity.
Qed.

(** input specification: a dyadic point, or the symmetric interval [-m 2^e, m 2^e] *)
Inductive ispec := Pt (me : Z * Z) | Sym (me : Z * Z).
Definition spec_I (prec : IB.precision) (s : ispec) : IB.type :=
  match s with Pt me => dy_IB prec me | Sym me => IB.mul prec (dy_IB prec me) pm1 end.
Definition spec_R (s : ispec) (r : R) : Prop :=
  match s with Pt me => r = dy_R me | Sym me => Rabs r <= dy_R me end.

Lemma spec_contains prec s r : spec_R s r -> contains (IB.convert (spec_I prec s)) (Xreal r).
Proof.
  destruct s as [me|me]; cbn [spec_R spec_I]; intros H.
  - subst r. apply dy_IB_correct.
  - destruct (Req_dec (dy_R me) 0) as [E|E].
    + rewrite E in H. assert (r = 0) by (pose proof (Rabs_pos r); apply Rabs_eq_0 || (destruct (Req_dec r 0); [assumption|exfalso; pose proof (Rabs_pos_lt r H1); lra])).
      subst r. replace (Xreal 0) with (Xmul (Xreal (dy_R me)) (Xreal 0)) by (cbn; f_equal; ring).
      apply IB.mul_correct; [apply dy_IB_correct|apply pm1_correct; lra].
    + assert (Hp : 0 < dy_R me) by (pose proof (Rabs_pos r); lra).
      replace (Xreal r) with (Xmul (Xreal (dy_R me)) (Xreal (r / dy_R me))) by (cbn; f_equal; field; exact E).
      apply IB.mul_correct; [apply dy_IB_correct|apply pm1_correct].
      assert (Hr1 : r <= dy_R me) by (pose proof (Rle_abs r); lra).
      assert (Hr2 : - dy_R me <= r) by (pose proof (Rle_abs (- r)) as Q; rewrite Rabs_Ropp in Q; lra).
      split; apply Rmult_le_reg_r with (dy_R me); try exact Hp; unfold Rdiv; rewrite ?Rmult_assoc, Rinv_l by exact E; lra.
Qed.

Definition evalIB_box (prec : Z) (P : list term) (specs : list ispec) : list IB.type :=
  AB.BndValuator.eval (prec_of prec) P (map (spec_I (prec_of prec)) specs).

Lemma specs_contain prec specs env : Forall2 spec_R specs env ->
  AB.contains_all (map (spec_I prec) specs) env.
Proof.
  intros H. split.
  - rewrite map_length. induction H; cbn; [reflexivity|now f_equal].
  - induction H as [|s r specs env Hs H IH]; intros k.
    + destruct k; cbn [nth map]; rewrite IB.nai_correct; exact I.
    + destruct k as [|k]; cbn [nth map]; [now apply spec_contains|apply IH].
Qed.

(** a bounded (non-NaI) enclosure over the box proves that the output is defined at every point of the box *)
Theorem evalIB_box_wf prec P specs env k :
  Forall2 spec_R specs env -> is_bndB (nth k (evalIB_box prec P specs) IB.nai) = true ->
  nth k (eval_ext P (map Xreal env)) Xnan <> Xnan.
Proof.
  intros H Hb. eapply is_bndB_not_nan; [exact Hb|].
  apply AB.BndValuator.eval_correct. now apply specs_contain.
Qed.

(** *** the density box of the virial programs: inputs [T; rho; consts], rho in [-eps, eps];
    the first-derivative program takes (point ++ direction) with direction = unit vector of rho *)
Definition unitZ (n k : nat) : list (Z * Z) := map (fun j => if Nat.eqb j k then (1, 0)%Z else (0, 0)%Z) (seq 0 n).

Definition rho_box (T : Z * Z) (eps : Z * Z) (cs : list (Z * Z)) : list ispec :=
  (Pt T :: Sym eps :: map Pt cs) ++ map Pt (unitZ (2 + length cs) 1).

Lemma line_pt_rho T cs t :
  line_pt (inputs_R (T :: (0, 0)%Z :: cs)) (inputs_R (unitZ (2 + length cs) 1)) t
  = dy_R T :: t :: inputs_R cs.
Proof.
  unfold unitZ. change (2 + length cs)%nat with (S (S (length cs))). cbn [seq map Nat.eqb].
  unfold inputs_R, line_pt. cbn [map combine fst snd].
  f_equal; [unfold dy_R; cbn; ring|]. f_equal; [unfold dy_R; cbn; ring|].
  assert (G : forall k, (2 <= k)%nat ->
    map (fun ad : R * R => fst ad + snd ad * t)
      (combine (map dy_R cs) (map dy_R (map (fun j : nat => if Nat.eqb j 1 then (1, 0)%Z else (0, 0)%Z) (seq k (length cs)))))
    = map dy_R cs).
  { induction cs as [|c cs IH]; intros k Hk; cbn [length seq map combine fst snd]; [reflexivity|].
    destruct (Nat.eqb_spec k 1); [lia|]. f_equal; [unfold dy_R; cbn; ring|]. apply IH. lia. }
  apply G. lia.
Qed.

Lemma rho_box_spec T eps cs t : Rabs t <= dy_R eps ->
  Forall2 spec_R (rho_box T eps cs)
    (line_pt (inputs_R (T :: (0, 0)%Z :: cs)) (inputs_R (unitZ (2 + length cs) 1)) t
       ++ inputs_R (unitZ (2 + length cs) 1)).
Proof.
  intros Ht. rewrite line_pt_rho. unfold rho_box. apply Forall2_app.
  - constructor; [reflexivity|]. constructor; [exact Ht|].
    unfold inputs_R. induction cs; cbn; constructor; auto. reflexivity.
  - unfold inputs_R. generalize (unitZ (2 + length cs) 1). induction l; cbn; constructor; auto. reflexivity.
Qed.

(** an enclosure inside [0,0] pins the value to zero *)
Definition is_zeroB (i : IB.type) : bool := IB.subset i IB.zero.
Lemma is_zeroB_correct i x : is_zeroB i = true -> contains (IB.convert i) x -> x = Xreal 0.
Proof.
  intros H Hc. pose proof (IB.subset_correct i IB.zero x Hc H) as Hz.
  rewrite IB.zero_correct in Hz. destruct x as [|r]; cbn in Hz; [contradiction|]. f_equal. lra.
Qed.
