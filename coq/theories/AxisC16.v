(** * AxisC16: the discretisation of one axis of a DFT grid (feos-dft/src/geometry.rs) over R.

    Faithful real-valued model of [Axis::new_cartesian], [Axis::new_spherical], [Axis::new_polar]
    (grid, edges, integration weights), of [Axis::volume], of [Grid::functional_determinant] and of the way
    [DFTProfile::integrate] / [DFTProfile::volume] combine the axes of a 1-3 dimensional grid.

    Proved for ALL numbers of grid points and ALL lengths:
      the integration weights of every axis type sum to the volume [Axis::volume] reports
      (Cartesian: l (+ potential offset), spherical: 4/3 pi l^3, polar (log grid): pi l^2 for every alpha, k0),
      and the integral of the constant 1 over every grid type equals [DFTProfile::volume].
    Floating-point round-off is not modelled (real semantics); the tie to the code is the per-run
    correspondence check (coq/gen/C16, `interval` goals against the real [Axis::new_*]). *)
From Coq Require Import Reals List Lia Lra Arith.
Import ListNotations.
Open Scope R_scope.

(** ** Finite sums  [rsum f n = f 0 + ... + f (n-1)] *)

Fixpoint rsum (f : nat -> R) (n : nat) : R :=
  match n with O => 0 | S k => rsum f k + f k end.

Lemma rsum_ext f g n : (forall k, (k < n)%nat -> f k = g k) -> rsum f n = rsum g n.
Proof.
  induction n as [|n IH]; intros H; cbn; [reflexivity|].
  rewrite IH by (intros; apply H; lia). now rewrite H by lia.
Qed.

Lemma rsum_const c n : rsum (fun _ => c) n = INR n * c.
Proof. induction n as [|n IH]; [cbn; ring|]. cbn [rsum]. rewrite IH, S_INR. ring. Qed.

Lemma rsum_scal_l c f n : rsum (fun k => c * f k) n = c * rsum f n.
Proof. induction n as [|n IH]; cbn; [ring|]. rewrite IH. ring. Qed.

Lemma rsum_scal_r c f n : rsum (fun k => f k * c) n = rsum f n * c.
Proof. induction n as [|n IH]; cbn; [ring|]. rewrite IH. ring. Qed.

Lemma rsum_plus f g n : rsum (fun k => f k + g k) n = rsum f n + rsum g n.
Proof. induction n as [|n IH]; cbn; [ring|]. rewrite IH. ring. Qed.

Lemma rsum_zero n : rsum (fun _ => 0) n = 0.
Proof. rewrite rsum_const. ring. Qed.

(** telescoping *)
Lemma rsum_telescope g n : rsum (fun k => g (S k) - g k) n = g n - g O.
Proof. induction n as [|n IH]; cbn; [ring|]. rewrite IH. ring. Qed.

Lemma rsum_shift f n : rsum f (S n) = f O + rsum (fun k => f (S k)) n.
Proof. induction n as [|n IH]; [cbn; ring|]. cbn [rsum] in *. rewrite IH. ring. Qed.

Lemma rsum_nonneg f n : (forall k, (k < n)%nat -> 0 <= f k) -> 0 <= rsum f n.
Proof.
  induction n as [|n IH]; intros H; cbn; [lra|].
  assert (0 <= rsum f n) by (apply IH; intros; apply H; lia).
  assert (0 <= f n) by (apply H; lia). lra.
Qed.

(** ** [ndarray::Array1::linspace(a, b, n)]: element k is [a + step * k], step = (b-a)/(n-1) for n > 1, else 0 *)

Definition linspace (a b : R) (n k : nat) : R :=
  a + (if (1 <? n)%nat then (b - a) / INR (n - 1) else 0) * INR k.

Lemma INR_pos_nz n : (1 <= n)%nat -> INR n <> 0.
Proof. intros H. apply not_0_INR. lia. Qed.

(** ** Geometry of an axis *)

Inductive geometry := Cartesian | Cylindrical | Spherical.

(** [Geometry::dimension] *)
Definition dimension (g : geometry) : nat :=
  match g with Cartesian => 1 | Cylindrical => 2 | Spherical => 3 end.

(** the prefactor of [Axis::volume]: [1.0], [PI] (after the repair; [4.0 * PI] before), [4.0 * FRAC_PI_3] *)
Definition volume_prefactor (g : geometry) : R :=
  match g with Cartesian => 1 | Cylindrical => PI | Spherical => 4 * (PI / 3) end.

(** the prefactor the code used before the `fix:` commit (geometry.rs:203 had [4.0 * PI] for the polar axis) *)
Definition volume_prefactor_old (g : geometry) : R :=
  match g with Cartesian => 1 | Cylindrical => 4 * PI | Spherical => 4 * (PI / 3) end.

Record axis := mkAxis {
  ax_geometry : geometry;
  ax_points : nat;
  ax_grid : nat -> R;
  ax_edges : nat -> R;                 (* points + 1 entries *)
  ax_weights : nat -> R;               (* integration_weights *)
  ax_offset : R                        (* potential_offset *)
}.

(** [Axis::length] *)
Definition axis_length (a : axis) : R := ax_edges a (ax_points a) - ax_edges a O.

(** [Axis::volume] with a given prefactor table *)
Definition axis_volume_with (pref : geometry -> R) (a : axis) : R :=
  pref (ax_geometry a) * (ax_edges a (ax_points a) - ax_offset a - ax_edges a O) ^ dimension (ax_geometry a).

Definition axis_volume := axis_volume_with volume_prefactor.
Definition axis_volume_old := axis_volume_with volume_prefactor_old.

(** the integral of the constant one over the axis with the axis' own integration weights *)
Definition axis_weight_sum (a : axis) : R := rsum (ax_weights a) (ax_points a).

(** ** [Axis::new_cartesian(points, length, potential_offset)] *)

Definition new_cartesian (n : nat) (len off : R) : axis :=
  let l := len + off in
  let h := l / INR n in
  mkAxis Cartesian n
    (linspace ((1/2) * h) (l - (1/2) * h) n)
    (linspace 0 l (n + 1))
    (fun _ => h)
    off.

(** ** [Axis::new_spherical(points, length)] *)

Definition new_spherical (n : nat) (l : R) : axis :=
  let h := l / INR n in
  mkAxis Spherical n
    (linspace ((1/2) * h) (l - (1/2) * h) n)
    (linspace 0 l (n + 1))
    (fun k => 4 * (PI / 3) * h ^ 3 * INR (3 * k * k + 3 * k + 1))
    0.

(** ** [Axis::new_polar(points, length)]  (logarithmic grid) *)

(** one step of the fixed-point iteration for alpha *)
Definition alpha_step (n : nat) (a : R) : R := - ln (1 - exp (- a)) / INR (n - 1).

Fixpoint iter_alpha (n : nat) (steps : nat) (a : R) : R :=
  match steps with O => a | S s => iter_alpha n s (alpha_step n a) end.

(** the alpha the code computes: 20 steps from (2/1000) *)
Definition polar_alpha (n : nat) : R := iter_alpha n 20 (2/1000).

Definition polar_k0 (a : R) : R :=
  exp (2 * a) * (2 * exp a + exp (2 * a) - 1) / ((1 + exp a) ^ 2 * (exp (2 * a) - 1)).

(** the weight formula with the two constants left free: the sum does not depend on them *)
Definition polar_weight (n : nat) (l a k0 : R) (k : nat) : R :=
  (match k with
   | O => k0 * exp (2 * a)
   | S O => (exp (2 * a) - k0) * exp (2 * a)
   | _ => exp (2 * a * INR k) * (exp (2 * a) - 1)
   end) * (exp (- 2 * a * INR n) * PI * l * l).

Definition polar_x0 (n : nat) (a : R) : R := (1/2) * (exp (- a * INR n) + exp (- a * INR (n - 1))).

Definition new_polar_with (n : nat) (l a : R) : axis :=
  mkAxis Cylindrical n
    (fun i => l * polar_x0 n a * exp (a * INR i))
    (fun i => match i with O => 0 | _ => l * exp (- a * INR (n - i)) end)
    (polar_weight n l a (polar_k0 a))
    0.

Definition new_polar (n : nat) (l : R) : axis := new_polar_with n l (polar_alpha n).

(** ** Grid and edge formulas *)

Lemma linspace_edges l n k : (1 <= n)%nat -> linspace 0 l (n + 1) k = INR k * (l / INR n).
Proof.
  intros Hn. unfold linspace.
  replace (1 <? n + 1)%nat with true by (symmetry; apply Nat.ltb_lt; lia).
  replace (n + 1 - 1)%nat with n by lia. field. now apply INR_pos_nz.
Qed.

Lemma linspace_centres l n k : (1 <= n)%nat -> (k < n)%nat ->
  linspace ((1/2) * (l / INR n)) (l - (1/2) * (l / INR n)) n k = (INR k + (1/2)) * (l / INR n).
Proof.
  intros Hn Hk. unfold linspace.
  destruct (1 <? n)%nat eqn:E.
  - apply Nat.ltb_lt in E.
    assert (Hn1 : INR (n - 1) <> 0) by (apply not_0_INR; lia).
    assert (Hn0 : INR n <> 0) by now apply INR_pos_nz.
    assert (HS : INR n = INR (n - 1) + 1) by (rewrite <- S_INR; f_equal; lia).
    rewrite HS in *. field. split; assumption.
  - apply Nat.ltb_ge in E. assert (n = 1)%nat by lia. subst n.
    assert (k = 0)%nat by lia. subst k. cbn. field.
Qed.

(** Cartesian and spherical axes: edge k = k h, grid point k = (k + 1/2) h, so every grid point is the
    centre of its cell *)
Lemma cartesian_edges n len off k : (1 <= n)%nat ->
  ax_edges (new_cartesian n len off) k = INR k * ((len + off) / INR n).
Proof. intros. cbn. now apply linspace_edges. Qed.

Lemma cartesian_grid n len off k : (1 <= n)%nat -> (k < n)%nat ->
  ax_grid (new_cartesian n len off) k = (INR k + (1/2)) * ((len + off) / INR n).
Proof. intros. cbn. now apply linspace_centres. Qed.

Lemma spherical_edges n l k : (1 <= n)%nat -> ax_edges (new_spherical n l) k = INR k * (l / INR n).
Proof. intros. cbn. now apply linspace_edges. Qed.

Lemma spherical_grid n l k : (1 <= n)%nat -> (k < n)%nat ->
  ax_grid (new_spherical n l) k = (INR k + (1/2)) * (l / INR n).
Proof. intros. cbn. now apply linspace_centres. Qed.

Lemma grid_in_cell_uniform h k : 0 < h -> INR k * h < (INR k + (1/2)) * h < INR (S k) * h.
Proof. intros Hh. rewrite S_INR. split; nra. Qed.

Lemma cartesian_grid_in_cell n len off k : (1 <= n)%nat -> (k < n)%nat -> 0 < len + off ->
  ax_edges (new_cartesian n len off) k < ax_grid (new_cartesian n len off) k < ax_edges (new_cartesian n len off) (S k).
Proof.
  intros Hn Hk Hl. rewrite !cartesian_edges, cartesian_grid by assumption.
  apply grid_in_cell_uniform. apply Rdiv_lt_0_compat; [assumption|]. apply lt_0_INR. lia.
Qed.

Lemma spherical_grid_in_cell n l k : (1 <= n)%nat -> (k < n)%nat -> 0 < l ->
  ax_edges (new_spherical n l) k < ax_grid (new_spherical n l) k < ax_edges (new_spherical n l) (S k).
Proof.
  intros Hn Hk Hl. rewrite !spherical_edges, spherical_grid by assumption.
  apply grid_in_cell_uniform. apply Rdiv_lt_0_compat; [assumption|]. apply lt_0_INR. lia.
Qed.

Lemma cartesian_length n len off : (1 <= n)%nat -> axis_length (new_cartesian n len off) = len + off.
Proof.
  intros Hn. unfold axis_length. rewrite !cartesian_edges by assumption. cbn [ax_points new_cartesian].
  cbn [INR]. field. now apply INR_pos_nz.
Qed.

Lemma spherical_length n l : (1 <= n)%nat -> axis_length (new_spherical n l) = l.
Proof.
  intros Hn. unfold axis_length. rewrite !spherical_edges by assumption. cbn [ax_points new_spherical].
  cbn [INR]. field. now apply INR_pos_nz.
Qed.

(** polar axis: the last edge is l, the first is 0; for alpha > 0 the grid points lie strictly inside
    their cells (for k >= 1 they are the arithmetic mean of the two edges) *)
Lemma polar_length n l a : (1 <= n)%nat -> axis_length (new_polar_with n l a) = l.
Proof.
  intros Hn. unfold axis_length. cbn. destruct n as [|n]; [lia|].
  replace (S n - S n)%nat with O by lia. cbn [INR]. rewrite Rmult_0_r, exp_0. ring.
Qed.

Lemma polar_grid_midpoint n l a k : (1 <= k)%nat -> (k < n)%nat ->
  ax_grid (new_polar_with n l a) k =
  (ax_edges (new_polar_with n l a) k + ax_edges (new_polar_with n l a) (S k)) / 2.
Proof.
  intros Hk Hn. cbn [ax_grid ax_edges new_polar_with]. destruct k as [|k]; [lia|].
  unfold polar_x0.
  replace (- a * INR n) with (- a * INR (n - S k) + - (a * INR (S k)))
    by (rewrite minus_INR by lia; ring).
  replace (- a * INR (n - 1)) with (- a * INR (n - S (S k)) + - (a * INR (S k)))
    by (rewrite !minus_INR by lia; rewrite (S_INR (S k)); cbn [INR]; ring).
  rewrite !exp_plus.
  assert (E : exp (- (a * INR (S k))) * exp (a * INR (S k)) = 1)
    by (rewrite <- exp_plus; replace (- (a * INR (S k)) + a * INR (S k)) with 0 by ring; apply exp_0).
  set (u := exp (- a * INR (n - S k))). set (v := exp (- a * INR (n - S (S k)))).
  transitivity (l * (1/2) * (u + v) * (exp (- (a * INR (S k))) * exp (a * INR (S k)))); [ring|].
  rewrite E. field.
Qed.

Lemma polar_grid_in_cell n l a k : (k < n)%nat -> 0 < l -> 0 < a ->
  ax_edges (new_polar_with n l a) k < ax_grid (new_polar_with n l a) k < ax_edges (new_polar_with n l a) (S k).
Proof.
  intros Hk Hl Ha.
  destruct k as [|k].
  - cbn [ax_grid ax_edges new_polar_with]. unfold polar_x0. cbn [INR]. rewrite Rmult_0_r, exp_0, Rmult_1_r.
    replace (- a * INR n) with (- a * INR (n - 1) + - a)
      by (rewrite minus_INR by lia; cbn [INR]; ring).
    rewrite exp_plus.
    pose proof (exp_pos (- a * INR (n - 1))) as Hu. set (u := exp (- a * INR (n - 1))) in *.
    assert (Hea : 0 < exp (- a) < 1).
    { split; [apply exp_pos|]. rewrite <- exp_0. apply exp_increasing. lra. }
    assert (Hlu : 0 < l * u) by now apply Rmult_lt_0_compat.
    replace (l * (1 / 2 * (u * exp (- a) + u))) with ((l * u) * (1 / 2 * (exp (- a) + 1))) by ring.
    set (w := l * u) in *. split; nra.
  - rewrite polar_grid_midpoint by lia.
    cbn [ax_edges new_polar_with].
    assert (Hlt : exp (- a * INR (n - S k)) < exp (- a * INR (n - S (S k)))).
    { apply exp_increasing. rewrite !minus_INR by lia. rewrite (S_INR (S k)). nra. }
    pose proof (exp_pos (- a * INR (n - S k))).
    split; nra.
Qed.

(** ** Sums of the integration weights *)

Theorem weights_cartesian_sum n len off : (1 <= n)%nat ->
  axis_weight_sum (new_cartesian n len off) = len + off.
Proof.
  intros Hn. unfold axis_weight_sum. cbn. rewrite rsum_const. field. now apply INR_pos_nz.
Qed.

Lemma cube_diff k : INR (3 * k * k + 3 * k + 1) = INR (S k) ^ 3 - INR k ^ 3.
Proof.
  rewrite !plus_INR, !mult_INR, (S_INR k).
  change (INR 3) with (1 + 1 + 1). change (INR 1) with 1. ring.
Qed.

Theorem weights_spherical_sum n l : (1 <= n)%nat ->
  axis_weight_sum (new_spherical n l) = 4 * PI / 3 * l ^ 3.
Proof.
  intros Hn. unfold axis_weight_sum. cbn [ax_weights ax_points new_spherical].
  rewrite rsum_scal_l.
  rewrite (rsum_ext _ (fun k => INR (S k) ^ 3 - INR k ^ 3)) by (intros; apply cube_diff).
  rewrite (rsum_telescope (fun k => INR k ^ 3)). cbn [INR].
  field. now apply INR_pos_nz.
Qed.

Lemma exp_2a_step a k : exp (2 * a * INR k) * exp (2 * a) = exp (2 * a * INR (S k)).
Proof. rewrite <- exp_plus. f_equal. rewrite S_INR. ring. Qed.

(** the polar weights sum to pi l^2 for every alpha and every k0, for every n >= 2
    (for n = 1 the code divides by [points - 1 = 0]: alpha is NaN and the axis is unusable) *)
Theorem weights_polar_sum_gen n l a k0 : (2 <= n)%nat ->
  rsum (polar_weight n l a k0) n = PI * l ^ 2.
Proof.
  intros Hn. destruct n as [|[|m]]; try lia.
  rewrite rsum_shift, rsum_shift.
  set (C := exp (- 2 * a * INR (S (S m))) * PI * l * l).
  assert (Hrest : rsum (fun k => polar_weight (S (S m)) l a k0 (S (S k))) m
                  = (exp (2 * a * INR (S (S m))) - exp (2 * a * INR 2)) * C).
  { unfold polar_weight. fold C. rewrite rsum_scal_r. f_equal.
    rewrite (rsum_ext _ (fun k => exp (2 * a * INR (S (S (S k)))) - exp (2 * a * INR (S (S k))))).
    - now rewrite (rsum_telescope (fun k => exp (2 * a * INR (S (S k))))).
    - intros k _. cbv beta iota. rewrite <- (exp_2a_step a (S (S k))). ring. }
  rewrite Hrest. unfold polar_weight. fold C.
  assert (E2 : exp (2 * a * INR 2) = exp (2 * a) * exp (2 * a)).
  { rewrite <- exp_plus. f_equal. cbn [INR]. ring. }
  rewrite E2.
  transitivity (exp (2 * a * INR (S (S m))) * C); [ring|].
  unfold C.
  assert (E : exp (2 * a * INR (S (S m))) * exp (- 2 * a * INR (S (S m))) = 1).
  { rewrite <- exp_plus. replace (2 * a * INR (S (S m)) + - 2 * a * INR (S (S m))) with 0 by ring. apply exp_0. }
  transitivity ((exp (2 * a * INR (S (S m))) * exp (- 2 * a * INR (S (S m)))) * (PI * l * l)); [ring|].
  rewrite E. ring.
Qed.

Theorem weights_polar_sum_with n l a : (2 <= n)%nat ->
  axis_weight_sum (new_polar_with n l a) = PI * l ^ 2.
Proof. intros Hn. unfold axis_weight_sum. cbn. now apply weights_polar_sum_gen. Qed.

Theorem weights_polar_sum n l : (2 <= n)%nat -> axis_weight_sum (new_polar n l) = PI * l ^ 2.
Proof. intros. unfold new_polar. now apply weights_polar_sum_with. Qed.

(** ** [Axis::volume] *)

Lemma cartesian_volume n len off : (1 <= n)%nat -> axis_volume (new_cartesian n len off) = len.
Proof.
  intros Hn. unfold axis_volume, axis_volume_with.
  rewrite !cartesian_edges by assumption. cbn [ax_geometry ax_points ax_offset new_cartesian dimension volume_prefactor].
  cbn [INR]. field. now apply INR_pos_nz.
Qed.

Lemma spherical_volume n l : (1 <= n)%nat -> axis_volume (new_spherical n l) = 4 * PI / 3 * l ^ 3.
Proof.
  intros Hn. unfold axis_volume, axis_volume_with.
  rewrite !spherical_edges by assumption. cbn [ax_geometry ax_points ax_offset new_spherical dimension volume_prefactor].
  cbn [INR]. field. now apply INR_pos_nz.
Qed.

Lemma polar_volume_with_pref pref n l a : (1 <= n)%nat ->
  axis_volume_with pref (new_polar_with n l a) = pref Cylindrical * l ^ 2.
Proof.
  intros Hn. unfold axis_volume_with. cbn [ax_geometry ax_points ax_offset ax_edges new_polar_with dimension].
  destruct n as [|n]; [lia|]. replace (S n - S n)%nat with O by lia. cbn [INR].
  rewrite Rmult_0_r, exp_0. f_equal. ring.
Qed.

Lemma polar_volume n l a : (1 <= n)%nat -> axis_volume (new_polar_with n l a) = PI * l ^ 2.
Proof. intros. unfold axis_volume. now rewrite polar_volume_with_pref. Qed.

(** ** volume = sum of the integration weights, per geometry *)

(** Cartesian: the weights also cover the potential offset, which [volume] excludes by design *)
Theorem volume_eq_sum_weights_cartesian n len off : (1 <= n)%nat ->
  axis_weight_sum (new_cartesian n len off) = axis_volume (new_cartesian n len off) + off.
Proof. intros. rewrite weights_cartesian_sum, cartesian_volume by assumption. ring. Qed.

Theorem volume_eq_sum_weights_cartesian0 n len : (1 <= n)%nat ->
  axis_volume (new_cartesian n len 0) = axis_weight_sum (new_cartesian n len 0).
Proof. intros. rewrite weights_cartesian_sum, cartesian_volume by assumption. ring. Qed.

Theorem volume_eq_sum_weights_spherical n l : (1 <= n)%nat ->
  axis_volume (new_spherical n l) = axis_weight_sum (new_spherical n l).
Proof. intros. now rewrite weights_spherical_sum, spherical_volume. Qed.

Theorem volume_eq_sum_weights_polar n l : (2 <= n)%nat ->
  axis_volume (new_polar n l) = axis_weight_sum (new_polar n l).
Proof. intros. unfold new_polar. rewrite weights_polar_sum_with, polar_volume by lia. reflexivity. Qed.

(** the prefactor [4.0 * PI] the polar axis had before the repair is refuted: the reported volume was four
    times the integral of one (witness: any n >= 2, any l <> 0, e.g. n = 2, l = 1) *)
Theorem volume_polar_old_is_4x n l : (2 <= n)%nat ->
  axis_volume_old (new_polar n l) = 4 * axis_weight_sum (new_polar n l).
Proof.
  intros. unfold new_polar, axis_volume_old. rewrite weights_polar_sum_with, polar_volume_with_pref by lia.
  cbn. ring.
Qed.

Theorem volume_polar_old_refuted :
  exists n l, (2 <= n)%nat /\ 0 < l /\ axis_volume_old (new_polar n l) <> axis_weight_sum (new_polar n l).
Proof.
  exists 2%nat, 1. repeat split; [lia|lra|].
  rewrite volume_polar_old_is_4x by lia. rewrite weights_polar_sum by lia.
  pose proof PI_RGT_0. nra.
Qed.

(** an axis is *consistent* when the volume it reports is the integral of one with its own weights *)
Definition axis_consistent (a : axis) : Prop := axis_volume a = axis_weight_sum a.

(** every axis the library constructs for a system without wall offset is consistent *)
Inductive constructed_axis : axis -> Prop :=
| CA_cart n len : (1 <= n)%nat -> constructed_axis (new_cartesian n len 0)
| CA_sph n l : (1 <= n)%nat -> constructed_axis (new_spherical n l)
| CA_pol n l : (2 <= n)%nat -> constructed_axis (new_polar n l).

Theorem constructed_axis_consistent a : constructed_axis a -> axis_consistent a.
Proof.
  intros [n len H|n l H|n l H]; unfold axis_consistent.
  - now apply volume_eq_sum_weights_cartesian0.
  - now apply volume_eq_sum_weights_spherical.
  - now apply volume_eq_sum_weights_polar.
Qed.

(** ** Grids: products of axes ([Grid], [DFTProfile::integrate], [DFTProfile::volume]) *)

Inductive grid :=
| Cartesian1 (x : axis)
| Cartesian2 (x y : axis)
| Periodical2 (x y : axis) (alpha : R)
| Cartesian3 (x y z : axis)
| Periodical3 (x y z : axis) (alpha beta gamma : R)
| SphericalG (r : axis)
| PolarG (r : axis)
| CylindricalG (r z : axis).

(** [Grid::axes] *)
Definition axes (g : grid) : list axis :=
  match g with
  | Cartesian1 x => [x]
  | Cartesian2 x y | Periodical2 x y _ => [x; y]
  | Cartesian3 x y z | Periodical3 x y z _ _ _ => [x; y; z]
  | SphericalG r | PolarG r => [r]
  | CylindricalG r z => [r; z]
  end.

(** [Grid::functional_determinant] *)
Definition functional_determinant (g : grid) : R :=
  match g with
  | Periodical2 _ _ alpha => sin alpha
  | Periodical3 _ _ _ alpha beta gamma =>
      let xi := (cos alpha - cos gamma * cos beta) / sin gamma in
      sin gamma * sqrt (1 - cos beta ^ 2 - xi * xi)
  | _ => 1
  end.

(** [Grid::new_1d] *)
Definition new_1d (a : axis) : grid :=
  match ax_geometry a with Cartesian => Cartesian1 a | Cylindrical => PolarG a | Spherical => SphericalG a end.

(** a profile on a product grid is a function of the multi-index (one index per axis);
    [integrate_axes] multiplies every lane by the weights of its axis and sums everything *)
Fixpoint integrate_axes (axs : list axis) (f : list nat -> R) : R :=
  match axs with
  | [] => f []
  | a :: rest => rsum (fun i => ax_weights a i * integrate_axes rest (fun idx => f (i :: idx))) (ax_points a)
  end.

(** [DFTProfile::integrate] (reduced units) *)
Definition integrate (g : grid) (f : list nat -> R) : R :=
  functional_determinant g * integrate_axes (axes g) f.

(** [DFTProfile::volume] (reduced units) *)
Definition grid_volume (g : grid) : R :=
  fold_right Rmult 1 (map axis_volume (axes g)) * functional_determinant g.

Definition weight_product (axs : list axis) : R := fold_right Rmult 1 (map axis_weight_sum axs).

Lemma integrate_axes_ext axs f g : (forall idx, f idx = g idx) -> integrate_axes axs f = integrate_axes axs g.
Proof.
  revert f g. induction axs as [|a r IH]; intros f g H; cbn; [apply H|].
  apply rsum_ext. intros i _. f_equal. apply IH. intros; apply H.
Qed.

Lemma integrate_axes_const axs c : integrate_axes axs (fun _ => c) = c * weight_product axs.
Proof.
  unfold weight_product. induction axs as [|a r IH]; cbn; [ring|].
  rewrite (rsum_ext _ (fun i => ax_weights a i * (c * fold_right Rmult 1 (map axis_weight_sum r)))).
  - rewrite rsum_scal_r. unfold axis_weight_sum. ring.
  - intros i _. f_equal. apply IH.
Qed.

Lemma integrate_axes_scal axs c f :
  integrate_axes axs (fun idx => c * f idx) = c * integrate_axes axs f.
Proof.
  revert f. induction axs as [|a r IH]; intros f; cbn; [ring|].
  rewrite <- rsum_scal_l. apply rsum_ext. intros i _. rewrite IH. ring.
Qed.

Lemma integrate_axes_plus axs f g :
  integrate_axes axs (fun idx => f idx + g idx) = integrate_axes axs f + integrate_axes axs g.
Proof.
  revert f g. induction axs as [|a r IH]; intros f g; cbn; [ring|].
  rewrite <- rsum_plus. apply rsum_ext. intros i _. rewrite IH. ring.
Qed.

(** the integral of a constant over any grid *)
Theorem integrate_const g c : integrate g (fun _ => c) = c * (functional_determinant g * weight_product (axes g)).
Proof. unfold integrate. rewrite integrate_axes_const. ring. Qed.

Definition grid_consistent (g : grid) : Prop := Forall axis_consistent (axes g).

(** the reported system volume is the integral of one over the grid with the grid's own weights *)
Theorem grid_volume_eq_integral_of_one g : grid_consistent g -> grid_volume g = integrate g (fun _ => 1).
Proof.
  intros H. rewrite integrate_const. unfold grid_volume, weight_product, grid_consistent in *.
  assert (E : map axis_volume (axes g) = map axis_weight_sum (axes g)).
  { induction H as [|a r Ha _ IH]; cbn; [reflexivity|]. now rewrite Ha, IH. }
  rewrite E. ring.
Qed.

(** in general the difference is carried by the inconsistent axes *)
Lemma grid_volume_general g :
  grid_volume g - integrate g (fun _ => 1) =
  functional_determinant g * (fold_right Rmult 1 (map axis_volume (axes g)) - weight_product (axes g)).
Proof. rewrite integrate_const. unfold grid_volume. ring. Qed.

(** all grids assembled from constructed axes (every variant of [Grid]) *)
Definition constructed_grid (g : grid) : Prop := Forall constructed_axis (axes g).

Theorem constructed_grid_volume g : constructed_grid g -> grid_volume g = integrate g (fun _ => 1).
Proof.
  intros H. apply grid_volume_eq_integral_of_one. unfold grid_consistent, constructed_grid in *.
  eapply Forall_impl; [|exact H]. apply constructed_axis_consistent.
Qed.

(** ** Non-vacuity examples *)

Example ex_spherical_16 : axis_weight_sum (new_spherical 16 5) = 4 * PI / 3 * 5 ^ 3.
Proof. apply weights_spherical_sum. lia. Qed.

Example ex_polar_grid : constructed_grid (CylindricalG (new_polar 64 10) (new_cartesian 32 20 0)).
Proof. repeat constructor; lia. Qed.

Example ex_cyl_volume :
  grid_volume (CylindricalG (new_polar 64 10) (new_cartesian 32 20 0)) = PI * 10 ^ 2 * 20.
Proof.
  unfold grid_volume. cbn [axes map fold_right functional_determinant].
  unfold new_polar. rewrite polar_volume, cartesian_volume by lia. ring.
Qed.
