(** * C20 — entropy-scaling transport properties

    State layer ([feos-core/src/state/residual_properties.rs], [impl<E: Residual + EntropyScaling> State<E>]):
      viscosity = viscosity_reference(T, V, N) * exp (viscosity_correlation (s_res, x)),  ln_viscosity_reduced = the correlation,
    and the same for diffusion and thermal conductivity.
    PC-SAFT ([src/pcsaft/eos/mod.rs], [impl EntropyScaling for PcSaft]; the SAFT-VRQ Mie implementation has the same
    correlation functions and mixing rule): collision integrals, Chapman-Enskog references (SI values), Wilke mixing
    rule, correlation polynomials with the mixing rule x_i m_i / m_bar of the coefficients.  All over the reals. *)
From Coq Require Import Reals Lra Lia List.
From Interval Require Import Tactic.
From FeosVerif Require Import EstimatorC20.
Import ListNotations.
Open Scope R_scope.

(** ** State layer *)

Definition entropy_scaling (reference correlation : R) : R := reference * exp correlation.

Theorem entropy_scaling_pos reference correlation : 0 < reference -> 0 < entropy_scaling reference correlation.
Proof. intros H. unfold entropy_scaling. apply Rmult_lt_0_compat; [exact H|apply exp_pos]. Qed.

(** the reduced quantity that is reported separately ([ln_viscosity_reduced], ...) is ln (value / reference) *)
Theorem entropy_scaling_reduced reference correlation :
  0 < reference -> ln (entropy_scaling reference correlation / reference) = correlation.
Proof.
  intros H. unfold entropy_scaling.
  replace (reference * exp correlation / reference) with (exp correlation) by (field; lra).
  apply ln_exp.
Qed.

(** ** collision integrals *)

Definition omega11 (t : R) : R :=
  1.06036 * Rpower t (-0.15610) + 0.19300 * exp (-0.47635 * t) + 1.03587 * exp (-1.52996 * t)
  + 1.76474 * exp (-3.89411 * t).

Definition omega22 (t : R) : R :=
  1.16145 * Rpower t (-0.14874) + 0.52487 * exp (-0.77320 * t) + 2.16178 * exp (-2.43787 * t)
  - 6.435e-4 * Rpower t 0.14874 * sin (18.0323 * Rpower t (-0.76830) - 7.27371).

Lemma Rpower_pos x y : 0 < Rpower x y.
Proof. unfold Rpower. apply exp_pos. Qed.

Theorem omega11_pos t : 0 < omega11 t.
Proof.
  unfold omega11.
  pose proof (Rpower_pos t (-0.15610)). pose proof (exp_pos (-0.47635 * t)).
  pose proof (exp_pos (-1.52996 * t)). pose proof (exp_pos (-3.89411 * t)). nra.
Qed.

(** on the box that contains every fluid state (T* = T / epsilon between 0.05 and 500) by interval bisection ... *)
Theorem omega22_pos_box t : 0.05 <= t <= 500 -> 0.4 < omega22 t.
Proof. intros Ht. unfold omega22. interval with (i_bisect t, i_prec 40). Qed.

Theorem omega11_lower_box t : 0.05 <= t <= 500 -> 0.4 < omega11 t.
Proof. intros Ht. unfold omega11. interval with (i_bisect t, i_prec 40). Qed.

(** ... and analytically (no interval arithmetic) for every 0 < T* <= 1e6: the sine term is dominated *)
Lemma exp_INR_mult n x : exp (INR n * x) = exp x ^ n.
Proof.
  induction n as [|n IH].
  - simpl. rewrite Rmult_0_l. apply exp_0.
  - rewrite S_INR, Rmult_plus_distr_r, Rmult_1_l, exp_plus, IH. simpl. ring.
Qed.

Lemma exp_le x y : x <= y -> exp x <= exp y.
Proof. intros [H| ->]; [left; now apply exp_increasing|right; reflexivity]. Qed.

Lemma Rpower_1e6_bound : Rpower 1e6 0.14874 <= 27.
Proof.
  unfold Rpower.
  assert (H2 : 2 < exp 1) by (assert (1 <> 0) as Hn by lra; pose proof (exp_ineq1 1 Hn); lra).
  assert (H20 : 1e6 <= exp 20).
  { replace 20 with (INR 20 * 1) by (simpl; ring). rewrite exp_INR_mult.
    apply Rle_trans with (2 ^ 20); [simpl; lra|]. apply pow_incr. lra. }
  assert (Hln : ln 1e6 <= 20).
  { rewrite <- (ln_exp 20). destruct H20 as [H| <-]; [left; apply ln_increasing; lra|right; reflexivity]. }
  apply Rle_trans with (exp 3).
  - apply exp_le. lra.
  - replace 3 with (INR 3 * 1) by (simpl; ring). rewrite exp_INR_mult.
    apply Rle_trans with (3 ^ 3); [|simpl; lra]. apply pow_incr. split; [lra|apply exp_le_3].
Qed.

Theorem omega22_pos t : 0 < t <= 1e6 -> 0 < omega22 t.
Proof.
  intros [Ht0 Ht1]. unfold omega22.
  set (u := Rpower t 0.14874).
  assert (Hu : 0 < u) by apply Rpower_pos.
  assert (Hinv : Rpower t (-0.14874) = / u).
  { unfold u. replace (-0.14874) with (Ropp 0.14874) by lra. apply Rpower_Ropp. }
  assert (Hub : u <= 27).
  { apply Rle_trans with (Rpower 1e6 0.14874).
    - unfold u. apply Rle_Rpower_l; lra.
    - exact Rpower_1e6_bound. }
  rewrite Hinv.
  pose proof (exp_pos (-0.77320 * t)). pose proof (exp_pos (-2.43787 * t)).
  pose proof (SIN_bound (18.0323 * Rpower t (-0.76830) - 7.27371)) as [_ Hs].
  assert (H1 : 6.435e-4 * u * sin (18.0323 * Rpower t (-0.76830) - 7.27371) <= 6.435e-4 * u) by nra.
  assert (H2 : 6.435e-4 * u < 1.16145 * / u).
  { apply Rmult_lt_reg_r with u; [exact Hu|].
    replace (1.16145 * / u * u) with 1.16145 by (field; lra). nra. }
  lra.
Qed.

(** ** Chapman-Enskog references of PC-SAFT, SI values
    (T in K, molar weight in g/mol, sigma in Angstrom, epsilon in K, density in mol/m^3) *)

Definition KB : R := 1.380649e-23.
Definition NAV : R := 6.02214076e23.
Definition RGAS : R := 8.31446261815324.

(** viscosity of component i, Pa s *)
Definition ce_visc (T mw sigma eps : R) : R :=
  5 / 16 * sqrt (mw * 1e-3 * KB / NAV * T / PI) / omega22 (T / eps) / ((sigma * 1e-10) ^ 2).

(** Wilke's mixing rule as coded; a component is (ce_i, mw_i) *)
Definition phi (ci cj : R * R) : R :=
  (1 + sqrt (fst ci / fst cj) * Rpower (snd cj / snd ci) (1 / 4)) ^ 2 / sqrt (8 * (1 + snd ci / snd cj)).

Definition wilke_denom (x : list R) (cs : list (R * R)) (ci : R * R) : R :=
  sumf (zipw (fun xj cj => xj * phi ci cj) x cs).

Definition wilke (x : list R) (cs : list (R * R)) : R :=
  sumf (zipw (fun xi ci => fst ci * xi / wilke_denom x cs ci) x cs).

(** a PC-SAFT component for the viscosity reference: (mw, sigma, eps) *)
Definition visc_comp (T : R) (p : R * R * R) : R * R :=
  let '(mw, sigma, eps) := p in (ce_visc T mw sigma eps, mw).

Definition visc_ref (T : R) (x : list R) (ps : list (R * R * R)) : R := wilke x (map (visc_comp T) ps).

(** self-diffusion reference (pure component), m^2/s *)
Definition diff_ref (T rho mw m sigma eps : R) : R :=
  3 / 8 / ((sigma * 1e-10) ^ 2) / omega11 (T / eps) / (rho * NAV) * sqrt (T * RGAS / PI / (mw * 1e-3) / m).

(** thermal-conductivity reference (pure component), W/m/K; [sres] is the reduced residual molar entropy of the state *)
Definition tc_ref (T mw m sigma eps sres : R) : R :=
  let tr := T / eps in
  let s := sres / m in
  0.083235 * sqrt (T * m / mw) / sigma ^ 2 / omega22 (T / eps)
  + (-0.0167141 * tr / m + 0.0470581 * (tr / m) ^ 2) * (m * m * sigma ^ 3 * eps) * 1e-5 * exp (- s / - 0.5).

(** ** correlation functions with their mixing rule *)

Definition dot (a b : list R) : R := sumf (zipw Rmult a b).
Definition mbar (x m : list R) : R := dot x m.
Definition pref (x m : list R) : list R := map (fun v => v / mbar x m) (zipw Rmult x m).

Definition visc_corr (m A B C D : list R) (sres : R) (x : list R) : R :=
  let s := sres / mbar x m in
  dot A x + dot B (pref x m) * s + dot C (pref x m) * s ^ 2 + dot D (pref x m) * s ^ 3.

Definition diff_corr (m A B C D E : list R) (sres : R) (x : list R) : R :=
  let s := sres / mbar x m in
  dot A x + dot B (pref x m) * s - dot C (pref x m) * (1 - exp s) * s ^ 2 - dot D (pref x m) * s ^ 4
  - dot E (pref x m) * s ^ 8.

Definition tc_corr (m A B C D : list R) (sres : R) (x : list R) : R :=
  let s := sres / mbar x m in
  dot A x + dot B (pref x m) * s + dot C (pref x m) * (1 - exp s) + dot D (pref x m) * s ^ 2.

(** the pure-component functions *)
Definition visc_corr_pure (m a b c d sres : R) : R :=
  let s := sres / m in a + b * s + c * s ^ 2 + d * s ^ 3.
Definition diff_corr_pure (m a b c d e sres : R) : R :=
  let s := sres / m in a + b * s - c * (1 - exp s) * s ^ 2 - d * s ^ 4 - e * s ^ 8.
Definition tc_corr_pure (m a b c d sres : R) : R :=
  let s := sres / m in a + b * s + c * (1 - exp s) + d * s ^ 2.

(** ** pure limit: composition e_k (component k alone) *)

Fixpoint unit (k n : nat) : list R :=
  match n with
  | O => []
  | S n' => match k with O => 1 :: repeat 0 n' | S k' => 0 :: unit k' n' end
  end.

Lemma zipw_repeat0 {B} (f : R -> B -> R) (cs : list B) n :
  (forall c, f 0 c = 0) -> sumf (zipw f (repeat 0 n) cs) = 0.
Proof.
  intros Hf. revert cs. induction n as [|n IH]; intros [|c cs]; simpl; try reflexivity.
  rewrite Hf, IH. ring.
Qed.

Lemma sum_zipw_unit {B} (f : R -> B -> R) (d : B) (cs : list B) k :
  (forall c, f 0 c = 0) -> (k < length cs)%nat ->
  sumf (zipw f (unit k (length cs)) cs) = f 1 (nth k cs d).
Proof.
  intros Hf. revert k. induction cs as [|c cs IH]; intros k Hk; simpl in Hk; [lia|].
  destruct k as [|k]; simpl.
  - rewrite zipw_repeat0 by exact Hf. ring.
  - rewrite Hf, IH by lia. ring.
Qed.

Lemma dot_unit_l v k : (k < length v)%nat -> dot (unit k (length v)) v = nth k v 0.
Proof.
  intros Hk. unfold dot. rewrite (sum_zipw_unit Rmult 0) by (try exact Hk; intros; ring). ring.
Qed.

Lemma zipw_comm (a b : list R) : zipw Rmult a b = zipw Rmult b a.
Proof. revert b; induction a as [|x a IH]; intros [|y b]; simpl; try reflexivity. now rewrite IH, Rmult_comm. Qed.

Lemma dot_comm a b : dot a b = dot b a.
Proof. unfold dot. now rewrite zipw_comm. Qed.

Lemma dot_pref_unit (c : R) (B m : list R) k :
  length B = length m -> (k < length m)%nat ->
  dot B (map (fun v => v / c) (zipw Rmult (unit k (length m)) m)) = nth k B 0 * (nth k m 0 / c).
Proof.
  unfold dot. revert B k. induction m as [|mi m IH]; intros [|bi B] k HL Hk; simpl in *; try lia.
  destruct k as [|k]; simpl.
  - assert (Z : forall (B m : list R) n,
        sumf (zipw Rmult B (map (fun v => v / c) (zipw Rmult (repeat 0 n) m))) = 0).
    { clear. intros B m n. revert B m. induction n as [|n IH]; intros [|b B] [|mi m]; simpl; try reflexivity.
      rewrite IH. unfold Rdiv. ring. }
    rewrite Z. unfold Rdiv. ring.
  - rewrite IH by lia. unfold Rdiv. ring.
Qed.

Section PureLimit.
  Variables (m A B C D E : list R) (k : nat).
  Hypothesis HA : length A = length m.
  Hypothesis HB : length B = length m.
  Hypothesis HC : length C = length m.
  Hypothesis HD : length D = length m.
  Hypothesis HE : length E = length m.
  Hypothesis Hk : (k < length m)%nat.
  Hypothesis Hm : nth k m 0 <> 0.

  Let x := unit k (length m).

  Lemma mbar_unit : mbar x m = nth k m 0.
  Proof. unfold mbar, x. now apply dot_unit_l. Qed.

  Lemma dot_coef_unit (R0 : list R) : length R0 = length m -> dot R0 x = nth k R0 0.
  Proof. intros H. unfold x. rewrite <- H, dot_comm. apply dot_unit_l. now rewrite H. Qed.

  Lemma dot_pref_coef (R0 : list R) : length R0 = length m -> dot R0 (pref x m) = nth k R0 0.
  Proof.
    intros H. unfold pref. rewrite mbar_unit. unfold x. rewrite dot_pref_unit by assumption.
    field. exact Hm.
  Qed.

  Theorem visc_corr_pure_limit sres :
    visc_corr m A B C D sres x = visc_corr_pure (nth k m 0) (nth k A 0) (nth k B 0) (nth k C 0) (nth k D 0) sres.
  Proof.
    unfold visc_corr, visc_corr_pure. cbv zeta.
    now rewrite mbar_unit, !dot_pref_coef, dot_coef_unit by assumption.
  Qed.

  Theorem diff_corr_pure_limit sres :
    diff_corr m A B C D E sres x
    = diff_corr_pure (nth k m 0) (nth k A 0) (nth k B 0) (nth k C 0) (nth k D 0) (nth k E 0) sres.
  Proof.
    unfold diff_corr, diff_corr_pure. cbv zeta.
    now rewrite mbar_unit, !dot_pref_coef, dot_coef_unit by assumption.
  Qed.

  Theorem tc_corr_pure_limit sres :
    tc_corr m A B C D sres x = tc_corr_pure (nth k m 0) (nth k A 0) (nth k B 0) (nth k C 0) (nth k D 0) sres.
  Proof.
    unfold tc_corr, tc_corr_pure. cbv zeta.
    now rewrite mbar_unit, !dot_pref_coef, dot_coef_unit by assumption.
  Qed.
End PureLimit.

(** Wilke: phi_ii = 1, hence the reference of the mixture at composition e_k is the reference of component k *)
Lemma phi_self c : 0 < fst c -> 0 < snd c -> phi c c = 1.
Proof.
  intros Hc Hm. unfold phi.
  replace (fst c / fst c) with 1 by (field; lra).
  replace (snd c / snd c) with 1 by (field; lra).
  rewrite sqrt_1. unfold Rpower. rewrite ln_1, Rmult_0_r, exp_0.
  replace (8 * (1 + 1)) with (4 * 4) by ring. rewrite sqrt_square by lra. field.
Qed.

Theorem wilke_pure_limit cs k :
  (k < length cs)%nat -> 0 < fst (nth k cs (1, 1)) -> 0 < snd (nth k cs (1, 1)) ->
  wilke (unit k (length cs)) cs = fst (nth k cs (1, 1)).
Proof.
  intros Hk Hc Hm. unfold wilke.
  rewrite (sum_zipw_unit _ (1, 1)) by (try exact Hk; intros; unfold Rdiv; ring).
  unfold wilke_denom.
  rewrite (sum_zipw_unit _ (1, 1)) by (try exact Hk; intros; ring).
  rewrite phi_self by assumption. field.
Qed.

Theorem visc_ref_pure_limit T ps k :
  (k < length ps)%nat ->
  0 < fst (visc_comp T (nth k ps (1, 1, 1))) -> 0 < snd (visc_comp T (nth k ps (1, 1, 1))) ->
  visc_ref T (unit k (length ps)) ps = fst (visc_comp T (nth k ps (1, 1, 1))).
Proof.
  intros Hk Hc Hm. unfold visc_ref.
  assert (E : forall d, nth k (map (visc_comp T) ps) d = visc_comp T (nth k ps (1, 1, 1))).
  { intros d. rewrite (nth_indep _ d (visc_comp T (1, 1, 1))) by now rewrite map_length. apply map_nth. }
  rewrite <- (map_length (visc_comp T) ps).
  rewrite wilke_pure_limit.
  - now rewrite E.
  - now rewrite map_length.
  - now rewrite E.
  - now rewrite E.
Qed.

(** ** positivity of the references *)

Theorem ce_visc_pos T mw sigma eps :
  0 < T -> 0 < mw -> 0 < sigma -> 0 < eps -> T / eps <= 1e6 -> 0 < ce_visc T mw sigma eps.
Proof.
  intros HT Hmw Hs He Hbox. unfold ce_visc.
  assert (Hte : 0 < T / eps) by (apply Rdiv_lt_0_compat; lra).
  pose proof (omega22_pos (T / eps) (conj Hte Hbox)) as Ho.
  assert (Hq : 0 < sqrt (mw * 1e-3 * KB / NAV * T / PI)).
  { apply sqrt_lt_R0. unfold KB, NAV. pose proof PI_RGT_0.
    apply Rdiv_lt_0_compat; [|lra]. apply Rmult_lt_0_compat; [|lra].
    apply Rdiv_lt_0_compat; [|lra]. nra. }
  assert (Hs2 : 0 < (sigma * 1e-10) ^ 2) by (simpl; nra).
  apply Rdiv_lt_0_compat; [|exact Hs2]. apply Rdiv_lt_0_compat; [|exact Ho]. lra.
Qed.

Definition comp_ok (c : R * R) : Prop := 0 < fst c /\ 0 < snd c.

Lemma phi_pos ci cj : comp_ok ci -> comp_ok cj -> 0 < phi ci cj.
Proof.
  intros [Hci Hmi] [Hcj Hmj]. unfold phi. apply Rdiv_lt_0_compat.
  - pose proof (sqrt_pos (fst ci / fst cj)). pose proof (Rpower_pos (snd cj / snd ci) (1 / 4)).
    assert (0 <= sqrt (fst ci / fst cj) * Rpower (snd cj / snd ci) (1 / 4)) by nra.
    simpl. nra.
  - apply sqrt_lt_R0. assert (0 < snd ci / snd cj) by (apply Rdiv_lt_0_compat; lra). lra.
Qed.

Lemma sum_zipw_nonneg {B} (f : R -> B -> R) (P : B -> Prop) x cs :
  (forall a c, 0 <= a -> P c -> 0 <= f a c) ->
  Forall (fun a => 0 <= a) x -> Forall P cs -> 0 <= sumf (zipw f x cs).
Proof.
  intros Hf Hx. revert cs. induction Hx as [|a x Ha _ IH]; intros [|c cs] Hcs; simpl; try lra.
  inversion Hcs; subst. pose proof (Hf a c Ha H1). pose proof (IH cs H2). lra.
Qed.

Lemma sum_zipw_pos {B} (f : R -> B -> R) (P : B -> Prop) x cs :
  (forall a c, 0 <= a -> P c -> 0 <= f a c) ->
  (forall a c, 0 < a -> P c -> 0 < f a c) ->
  Forall (fun a => 0 <= a) x -> Forall P cs -> length x = length cs -> 0 < sumf x ->
  0 < sumf (zipw f x cs).
Proof.
  intros Hf0 Hf Hx. revert cs. induction Hx as [|a x Ha Hx IH]; intros [|c cs] Hcs HL Hsum; simpl in *; try lra; try lia.
  inversion Hcs; subst.
  destruct Ha as [Ha| <-].
  - pose proof (Hf a c Ha H1). pose proof (sum_zipw_nonneg f P x cs Hf0 Hx H2). lra.
  - pose proof (Hf0 0 c (Rle_refl 0) H1). assert (0 < sumf (zipw f x cs)) by (apply IH; try assumption; try lia; lra). lra.
Qed.

Theorem wilke_pos x cs :
  Forall (fun a => 0 <= a) x -> Forall comp_ok cs -> length x = length cs -> 0 < sumf x -> 0 < wilke x cs.
Proof.
  intros Hx Hcs HL Hsum. unfold wilke.
  assert (Hden : forall ci, comp_ok ci -> 0 < wilke_denom x cs ci).
  { intros ci Hci. unfold wilke_denom. apply (sum_zipw_pos _ comp_ok); try assumption.
    - intros a c Ha Hc. pose proof (phi_pos ci c Hci Hc). nra.
    - intros a c Ha Hc. pose proof (phi_pos ci c Hci Hc). nra. }
  apply (sum_zipw_pos _ comp_ok); try assumption.
  - intros a c Ha Hc. pose proof (Hden c Hc). destruct Hc as [Hc _].
    unfold Rdiv. apply Rmult_le_pos; [nra|]. left. now apply Rinv_0_lt_compat.
  - intros a c Ha Hc. pose proof (Hden c Hc). destruct Hc as [Hc _].
    apply Rdiv_lt_0_compat; [nra|assumption].
Qed.

Definition pcsaft_comp_ok (T : R) (p : R * R * R) : Prop :=
  let '(mw, sigma, eps) := p in 0 < mw /\ 0 < sigma /\ 0 < eps /\ T / eps <= 1e6.

Theorem visc_ref_pos T x ps :
  0 < T -> Forall (fun a => 0 <= a) x -> Forall (pcsaft_comp_ok T) ps -> length x = length ps -> 0 < sumf x ->
  0 < visc_ref T x ps.
Proof.
  intros HT Hx Hps HL Hsum. unfold visc_ref. apply wilke_pos; try assumption.
  - apply Forall_forall. intros c Hc. apply in_map_iff in Hc. destruct Hc as (p & <- & Hp).
    rewrite Forall_forall in Hps. specialize (Hps p Hp). destruct p as [[mw sigma] eps].
    destruct Hps as (Hmw & Hs & He & Hb). split; simpl; [now apply ce_visc_pos|exact Hmw].
  - now rewrite map_length.
Qed.

Theorem diff_ref_pos T rho mw m sigma eps :
  0 < T -> 0 < rho -> 0 < mw -> 0 < m -> 0 < sigma -> 0 < eps -> 0 < diff_ref T rho mw m sigma eps.
Proof.
  intros HT Hr Hmw Hm Hs He. unfold diff_ref.
  pose proof (omega11_pos (T / eps)) as Ho.
  assert (Hs2 : 0 < (sigma * 1e-10) ^ 2) by (simpl; nra).
  assert (Hq : 0 < sqrt (T * RGAS / PI / (mw * 1e-3) / m)).
  { apply sqrt_lt_R0. unfold RGAS. pose proof PI_RGT_0.
    apply Rdiv_lt_0_compat; [|lra]. apply Rdiv_lt_0_compat; [|lra]. apply Rdiv_lt_0_compat; [|lra]. nra. }
  apply Rmult_lt_0_compat; [|exact Hq].
  apply Rdiv_lt_0_compat; [|unfold NAV; nra].
  apply Rdiv_lt_0_compat; [|exact Ho]. apply Rdiv_lt_0_compat; [lra|exact Hs2].
Qed.

(** thermal conductivity: the second term of the reference is non-negative iff T*/m >= 0.0167141/0.0470581 (0.3552);
    below that the sign of the reference is not decided by a theorem (see notes/C20.md, partial) *)
Theorem tc_ref_pos T mw m sigma eps sres :
  0 < T -> 0 < mw -> 0 < m -> 0 < sigma -> 0 < eps -> T / eps <= 1e6 -> 0.3552 <= T / eps / m ->
  0 < tc_ref T mw m sigma eps sres.
Proof.
  intros HT Hmw Hm Hs He Hbox Hlow. unfold tc_ref. cbv zeta.
  assert (Hte : 0 < T / eps) by (apply Rdiv_lt_0_compat; lra).
  pose proof (omega22_pos (T / eps) (conj Hte Hbox)) as Ho.
  assert (H1 : 0 < 0.083235 * sqrt (T * m / mw) / sigma ^ 2 / omega22 (T / eps)).
  { apply Rdiv_lt_0_compat; [|exact Ho]. apply Rdiv_lt_0_compat; [|simpl; nra].
    assert (0 < sqrt (T * m / mw)) by (apply sqrt_lt_R0; apply Rdiv_lt_0_compat; nra). lra. }
  set (y := T / eps / m) in *.
  assert (H2 : 0 <= -0.0167141 * (T / eps) / m + 0.0470581 * y ^ 2).
  { replace (-0.0167141 * (T / eps) / m) with (-0.0167141 * y) by (unfold y; field; lra). simpl. nra. }
  assert (H3 : 0 <= m * m * sigma ^ 3 * eps) by (simpl; apply Rmult_le_pos; [|lra]; apply Rmult_le_pos; nra).
  pose proof (exp_pos (- (sres / m) / - 0.5)).
  assert (0 <= (-0.0167141 * (T / eps) / m + 0.0470581 * y ^ 2) * (m * m * sigma ^ 3 * eps) * 1e-5 * exp (- (sres / m) / - 0.5)).
  { apply Rmult_le_pos; [|lra]. apply Rmult_le_pos; [|lra]. now apply Rmult_le_pos. }
  lra.
Qed.

(** ** the transport property follows the residual entropy: same s_res (same T, x) => same value;
    the reduced property is the same for ANY two states with the same s_res and composition *)

Definition viscosity_model (ps : list (R * R * R)) (m A B C D : list R) (T : R) (x : list R) (sres : R) : R :=
  entropy_scaling (visc_ref T x ps) (visc_corr m A B C D sres x).

Theorem viscosity_same_sres ps m A B C D T x (sres_of : R -> R) rho1 rho2 :
  sres_of rho1 = sres_of rho2 ->
  viscosity_model ps m A B C D T x (sres_of rho1) = viscosity_model ps m A B C D T x (sres_of rho2).
Proof. now intros ->. Qed.

Theorem viscosity_model_pos ps m A B C D T x sres :
  0 < T -> Forall (fun a => 0 <= a) x -> Forall (pcsaft_comp_ok T) ps -> length x = length ps -> 0 < sumf x ->
  0 < viscosity_model ps m A B C D T x sres.
Proof. intros. apply entropy_scaling_pos. now apply visc_ref_pos. Qed.

(** mixture with a vanishing second component = the pure component *)
Theorem viscosity_pure_limit ps m A B C D T sres k :
  length ps = length m -> length A = length m -> length B = length m -> length C = length m -> length D = length m ->
  (k < length m)%nat -> nth k m 0 <> 0 ->
  0 < fst (visc_comp T (nth k ps (1, 1, 1))) -> 0 < snd (visc_comp T (nth k ps (1, 1, 1))) ->
  viscosity_model ps m A B C D T (unit k (length m)) sres
  = entropy_scaling (fst (visc_comp T (nth k ps (1, 1, 1))))
      (visc_corr_pure (nth k m 0) (nth k A 0) (nth k B 0) (nth k C 0) (nth k D 0) sres).
Proof.
  intros Hps HA HB HC HD Hk Hm Hc Hw. unfold viscosity_model.
  rewrite visc_corr_pure_limit by assumption.
  rewrite <- Hps. rewrite visc_ref_pure_limit; try assumption; try reflexivity. now rewrite Hps.
Qed.

(** non-vacuity *)
Example unit_example : unit 0 2 = [1; 0] /\ unit 1 2 = [0; 1].
Proof. split; reflexivity. Qed.

Example binary_pure_limit_example a1 a2 b1 b2 c1 c2 d1 d2 sres :
  visc_corr [2; 3] [a1; a2] [b1; b2] [c1; c2] [d1; d2] sres [1; 0] = visc_corr_pure 2 a1 b1 c1 d1 sres.
Proof.
  change [1; 0] with (unit 0 (length [2; 3])).
  rewrite visc_corr_pure_limit; simpl; try reflexivity; try lia; lra.
Qed.

Example pcsaft_comp_ok_example : pcsaft_comp_ok 300 (44.0962, 3.618353, 208.1101).
Proof. unfold pcsaft_comp_ok. repeat split; lra. Qed.
