(** * C20 — tactics used by the generated correspondence goals (coq/gen/C20/*.v)

    Every generated goal has the shape [Rabs (model (dy_R ..) .. - dy_R impl) <= tol] where [model] is one of the
    executable definitions of [LossC20], [EstimatorC20], [TransportC20] applied to the exact (dyadic) inputs that
    the implementation received, and [dy_R impl] is the exact f64 the implementation returned. *)
From Coq Require Import Reals List ZArith Lra.
From Interval Require Import Tactic.
From FeosVerif Require Import ProgSem LossC20 EstimatorC20 TransportC20.
Import ListNotations.
Open Scope R_scope.

(** decide the Huber branch of every [loss_apply Huber s r] in the goal by interval arithmetic on the branch test *)
Ltac c20_huber_branches :=
  repeat match goal with
  | |- context [loss_apply Huber ?s ?r] =>
      first [ rewrite (apply_huber_inlier s r) by (cbv [dy_R fst snd]; interval with (i_prec 80))
            | rewrite (apply_huber_outlier s r) by (cbv [dy_R fst snd]; interval with (i_prec 80)) ]
  end.

Ltac c20_loss := c20_huber_branches; cbv [loss_apply dy_R fst snd]; interval with (i_prec 80).

Ltac c20_lists :=
  cbv [est_cost_st est_run est_add est_new fst snd est_cost est_cost_with normalise ds_cost_of ds_cost reldiff zipw map concat app sumf fold_right nth length INR
       ds_loss ds_s ds_pred ds_target mard mard_fold mard_step finite_part fold_left Nat.add].

Ltac c20_est := c20_lists; c20_loss.

Ltac c20_transport :=
  cbv [visc_ref wilke wilke_denom visc_comp phi ce_visc omega22 omega11 diff_ref tc_ref visc_corr diff_corr tc_corr
       visc_corr_pure diff_corr_pure tc_corr_pure viscosity_model
       dot mbar pref zipw map sumf fold_right fst snd dy_R KB NAV RGAS entropy_scaling];
  interval with (i_prec 64).

(** self-test of the tactics (also non-vacuity of the goal shapes) *)
Example tie_loss_example : Rabs (loss_apply Huber (dy_R (1,0)%Z) (dy_R (-1,-1)%Z) - dy_R (1, -1)%Z) <= 1e-12.
Proof. c20_loss. Qed.

Example tie_est_example :
  Rabs (nth 2 (est_cost (map dy_R [(1,0); (3,0)]%Z)
                 [mkds Huber (dy_R (1,-1)%Z) (map dy_R [(2,0)]%Z) (map dy_R [(1,0)]%Z);
                  mkds Cauchy (dy_R (1,0)%Z) (map dy_R [(3,0); (3,0)]%Z) (map dy_R [(2,0);(4,0)]%Z)]) 0 - 0.09233) <= 1e-5.
Proof. c20_est. Qed.

Example tie_est_state_example :
  Rabs (nth 2 (est_cost_st (est_run (est_new (map dy_R [(1,0)]%Z) [mkds Huber (dy_R (1,-1)%Z) (map dy_R [(2,0)]%Z) (map dy_R [(1,0)]%Z)])
                 [(dy_R (3,0)%Z, mkds Cauchy (dy_R (1,0)%Z) (map dy_R [(3,0); (3,0)]%Z) (map dy_R [(2,0);(4,0)]%Z))])) 0 - 0.09233) <= 1e-5.
Proof. c20_est. Qed.

Example tie_transport_example :
  Rabs (visc_corr [2.0; 2.3] [-0.8; -0.9] [-1.99; -2.0] [-0.29; -0.3] [-0.04; -0.05] (-1.5) [dy_R (1,-1)%Z; dy_R (1,-1)%Z] - 0.4) <= 0.5.
Proof. c20_transport. Qed.
