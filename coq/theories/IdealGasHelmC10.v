(** Model of [IdealGas::ideal_gas_helmholtz_energy] (feos-core/src/equation_of_state/ideal_gas.rs, route H):
      A^ig/(k_B T) = sum_i N_i (ln Lambda_i^3(T) + ln rho_i - 1), with the code's guard for rho_i = 0,
    and its calculus: ideal pressure and the other hard-coded ideal parts, entropy / heat capacities from
    ln Lambda^3, mole-fraction averages, ideal mixing, zero-density limit of residual quantities. *)
From Coq Require Import Reals Lra Lia List.
From Coquelicot Require Import Coquelicot.
Import ListNotations.
Open Scope R_scope.

Definition rho_term (rho : R) : R := if Req_EM_T rho 0 then 0 else ln rho - 1.
Definition comp_term (lam rho n : R) : R := (lam + rho_term rho) * n.

Record icomp := mk_icomp { ic_n : R; ic_lam : R -> R; ic_lam1 : R -> R; ic_lam2 : R -> R }.
Definition ic_ok (c : icomp) : Prop :=
  forall t, 0 < t -> is_derive (ic_lam c) t (ic_lam1 c t) /\ is_derive (ic_lam1 c) t (ic_lam2 c t).
Definition with_n (c : icomp) (n : R) : icomp := mk_icomp n (ic_lam c) (ic_lam1 c) (ic_lam2 c).

Definition sumf (f : icomp -> R) (cs : list icomp) : R := fold_right (fun c acc => f c + acc) 0 cs.
Definition beta_A (T V : R) (cs : list icomp) : R :=
  sumf (fun c => comp_term (ic_lam c T) (ic_n c / V) (ic_n c)) cs.
Definition A_ig (T V : R) (cs : list icomp) : R := beta_A T V cs * T.
Definition Ntot (cs : list icomp) : R := sumf ic_n cs.

Lemma sumf_app f l1 l2 : sumf f (l1 ++ l2) = sumf f l1 + sumf f l2.
Proof. induction l1 as [|c l IH]; simpl; [lra | rewrite IH; lra]. Qed.

Lemma sumf_ext f g cs : (forall c, In c cs -> f c = g c) -> sumf f cs = sumf g cs.
Proof.
  induction cs as [|c l IH]; simpl; intros H; [reflexivity|].
  rewrite (H c) by now left. rewrite IH; [reflexivity|]. intros; apply H; now right.
Qed.

Lemma sumf_scal k f cs : sumf (fun c => k * f c) cs = k * sumf f cs.
Proof. induction cs as [|c l IH]; simpl; [lra | rewrite IH; lra]. Qed.

Lemma sumf_plus f g cs : sumf (fun c => f c + g c) cs = sumf f cs + sumf g cs.
Proof. induction cs as [|c l IH]; simpl; [lra | rewrite IH; lra]. Qed.

(* derivative of a finite sum of functions of one real variable *)
Lemma is_derive_sumf (F : icomp -> R -> R) (dF : icomp -> R) cs x :
  (forall c, In c cs -> is_derive (F c) x (dF c)) ->
  is_derive (fun t => sumf (fun c => F c t) cs) x (sumf dF cs).
Proof.
  induction cs as [|c l IH]; intros H; simpl.
  - apply (is_derive_const (K:=R_AbsRing) (V:=R_NormedModule) 0 x).
  - apply (is_derive_plus (F c) (fun t => sumf (fun c0 => F c0 t) l)).
    + apply H; now left.
    + apply IH; intros; apply H; now right.
Qed.

Lemma comp_term_guard lam n v : v <> 0 -> 0 <= n ->
  comp_term lam (n / v) n = (lam + ln (n / v) - 1) * n.
Proof.
  intros Hv Hn. unfold comp_term, rho_term.
  destruct (Req_EM_T (n / v) 0) as [E|E]; [|ring].
  assert (n = 0). { unfold Rdiv in E. apply Rmult_integral in E. destruct E as [E|E]; [exact E|].
    exfalso. revert E. now apply Rinv_neq_0_compat. }
  subst n. ring.
Qed.

Lemma comp_term_zero lam v : comp_term lam (0 / v) 0 = 0.
Proof. unfold comp_term. ring. Qed.

(** * Volume derivative: ideal-gas pressure *)
Definition nonneg (cs : list icomp) : Prop := List.Forall (fun c => 0 <= ic_n c) cs.
Definition p_ig (T V : R) (cs : list icomp) : R := Ntot cs / V * T.

Ltac ad_side := repeat match goal with |- _ /\ _ => split end; try exact I; try lra;
  try (eexists; eassumption); try (apply Rdiv_lt_0_compat; lra);
  try (repeat apply Rmult_integral_contrapositive_currified; lra).

Ltac derive_rw H := match type of H with is_derive ?f ?x ?l =>
  let E := fresh "E" in
  assert (E : Derive (fun t : R => f t) x = l) by (apply is_derive_unique; exact H);
  rewrite E; clear E end.

Lemma is_derive_mult_const (f : R -> R) x l k : is_derive f x l -> is_derive (fun t => f t * k) x (l * k).
Proof.
  intros H. auto_derive.
  - ad_side.
  - derive_rw H. ring.
Qed.

Lemma locally_pos x : 0 < x -> locally x (fun u => 0 < u).
Proof. intros H. now apply (open_gt 0). Qed.

Lemma comp_term_dV lam n V : 0 < V -> 0 <= n ->
  is_derive (fun v => comp_term lam (n / v) n) V (- / V * n).
Proof.
  intros HV Hn. destruct (Req_dec n 0) as [->|Hn0].
  - apply is_derive_ext with (fun _ => 0).
    + intros; symmetry; apply comp_term_zero.
    + replace (- / V * 0) with 0 by ring. apply (is_derive_const (K:=R_AbsRing) (V:=R_NormedModule) 0 V).
  - apply is_derive_ext_loc with (fun v => (lam + ln (n / v) - 1) * n).
    + apply filter_imp with (2 := locally_pos V HV). intros v Hv.
      symmetry; apply comp_term_guard; lra.
    + auto_derive.
      * ad_side.
      * field. lra.
Qed.

Theorem ideal_pressure T V cs : 0 < V -> nonneg cs ->
  is_derive (fun v => A_ig T v cs) V (- p_ig T V cs).
Proof.
  intros HV Hn. unfold A_ig, p_ig.
  replace (- (Ntot cs / V * T)) with (sumf (fun c => - / V * ic_n c) cs * T).
  2:{ unfold Ntot. rewrite sumf_scal. field; lra. }
  apply (is_derive_mult_const (fun v => beta_A T v cs)).
  unfold beta_A.
  apply (is_derive_sumf (fun c v => comp_term (ic_lam c T) (ic_n c / v) (ic_n c))).
  intros c Hc. apply comp_term_dV; [exact HV|].
  unfold nonneg in Hn. rewrite Forall_forall in Hn. now apply Hn.
Qed.

Theorem ideal_dp_dv T V cs : 0 < V ->
  is_derive (fun v => p_ig T v cs) V (- (Ntot cs / V) * T / V).
Proof. intros HV. unfold p_ig. auto_derive; [ad_side | field; lra]. Qed.

Theorem ideal_dp_dt T V cs : is_derive (fun t => p_ig t V cs) T (Ntot cs / V).
Proof. unfold p_ig. auto_derive; [ad_side | ring]. Qed.

Theorem ideal_d2p_dv2 T V cs : 0 < V ->
  is_derive (fun v => - (Ntot cs / v) * T / v) V (2 * (Ntot cs / V) * T / (V * V)).
Proof. intros HV. auto_derive; [ad_side | field; lra]. Qed.

(** * Temperature derivatives: entropy and heat capacity *)
Lemma term_dT f f1 r n T : is_derive f T f1 ->
  is_derive (fun t => (f t + r) * n * t) T (f1 * n * T + (f T + r) * n).
Proof.
  intros H. auto_derive.
  - ad_side.
  - derive_rw H. ring.
Qed.

Lemma term_dT2 f f1 f2 r n T : is_derive f T (f1 T) -> is_derive f1 T f2 ->
  is_derive (fun t => f1 t * n * t + (f t + r) * n) T ((2 * f1 T + T * f2) * n).
Proof.
  intros H H1. auto_derive.
  - ad_side.
  - derive_rw H; derive_rw H1. ring.
Qed.

Definition all_ok (cs : list icomp) : Prop := forall c, In c cs -> ic_ok c.
Definition dA_dT (T V : R) (cs : list icomp) : R :=
  sumf (fun c => ic_lam1 c T * ic_n c * T + comp_term (ic_lam c T) (ic_n c / V) (ic_n c)) cs.
Definition d2A_dT2 (T : R) (cs : list icomp) : R :=
  sumf (fun c => (2 * ic_lam1 c T + T * ic_lam2 c T) * ic_n c) cs.

Theorem ideal_dA_dT T V cs : 0 < T -> all_ok cs ->
  is_derive (fun t => A_ig t V cs) T (dA_dT T V cs).
Proof.
  intros HT Hok. unfold A_ig, beta_A, dA_dT.
  apply is_derive_ext with (fun t => sumf (fun c => (ic_lam c t + rho_term (ic_n c / V)) * ic_n c * t) cs).
  - intros t. rewrite Rmult_comm, <- sumf_scal. apply sumf_ext. intros; unfold comp_term; ring.
  - apply (is_derive_sumf (fun c t => (ic_lam c t + rho_term (ic_n c / V)) * ic_n c * t)).
    intros c Hc. unfold comp_term. apply term_dT. now apply (Hok c Hc T HT).
Qed.

Theorem ideal_d2A_dT2 T V cs : 0 < T -> all_ok cs ->
  is_derive (fun t => dA_dT t V cs) T (d2A_dT2 T cs).
Proof.
  intros HT Hok. unfold dA_dT, d2A_dT2.
  apply (is_derive_sumf (fun c t => ic_lam1 c t * ic_n c * t + comp_term (ic_lam c t) (ic_n c / V) (ic_n c))).
  intros c Hc. unfold comp_term. destruct (Hok c Hc T HT) as [H0 H1]. now apply term_dT2.
Qed.

(** the code's heat capacities (state/properties.rs) on the ideal-gas jet, reduced units (RGAS = 1) *)
Definition cv_mix (T : R) (cs : list icomp) : R := T * (- d2A_dT2 T cs) / Ntot cs.
Definition cp_mix (T V : R) (cs : list icomp) : R :=
  T / Ntot cs * (- d2A_dT2 T cs - (Ntot cs / V) ^ 2 / (- (Ntot cs / V) * T / V)).
Definition cv_pure (c : icomp) (T : R) : R := - T * (2 * ic_lam1 c T + T * ic_lam2 c T).
Definition cp_pure (c : icomp) (T : R) : R := 1 + cv_pure c T.

Theorem cv_mole_fraction_average T cs : Ntot cs <> 0 ->
  cv_mix T cs = sumf (fun c => ic_n c / Ntot cs * cv_pure c T) cs.
Proof.
  intros HN. unfold cv_mix, d2A_dT2, cv_pure.
  replace (T * - sumf (fun c => (2 * ic_lam1 c T + T * ic_lam2 c T) * ic_n c) cs / Ntot cs)
    with ((- T / Ntot cs) * sumf (fun c => (2 * ic_lam1 c T + T * ic_lam2 c T) * ic_n c) cs) by (field; exact HN).
  rewrite <- sumf_scal. apply sumf_ext. intros c _. field; exact HN.
Qed.

Theorem cp_is_cv_plus_R T V cs : 0 < T -> 0 < V -> Ntot cs <> 0 -> cp_mix T V cs = cv_mix T cs + 1.
Proof. intros HT HV HN. unfold cp_mix, cv_mix. field. repeat split; lra. Qed.

Theorem cp_mole_fraction_average T V cs : 0 < T -> 0 < V -> Ntot cs <> 0 ->
  cp_mix T V cs = sumf (fun c => ic_n c / Ntot cs * cp_pure c T) cs.
Proof.
  intros HT HV HN. rewrite cp_is_cv_plus_R by assumption. rewrite cv_mole_fraction_average by assumption.
  unfold cp_pure.
  transitivity (sumf (fun c => ic_n c / Ntot cs * cv_pure c T) cs + sumf (fun c => / Ntot cs * ic_n c) cs).
  - rewrite sumf_scal. fold (Ntot cs). field; exact HN.
  - rewrite <- sumf_plus. apply sumf_ext. intros; field; exact HN.
Qed.

Theorem cp_pure_is_single T V c : 0 < T -> 0 < V -> ic_n c <> 0 -> cp_mix T V [c] = cp_pure c T.
Proof.
  intros HT HV HN. rewrite cp_mole_fraction_average; try assumption.
  - unfold Ntot, sumf; simpl. field. lra.
  - unfold Ntot, sumf; simpl. lra.
Qed.

(** * Mole-number derivatives: chemical potential, ideal mixing *)
Definition mu_ig (T V : R) (c : icomp) (N : R) : R := T * (ic_lam c T + ln (N / V)).

Lemma beta_A_split T V pre c post :
  beta_A T V (pre ++ c :: post) = beta_A T V pre + comp_term (ic_lam c T) (ic_n c / V) (ic_n c) + beta_A T V post.
Proof. unfold beta_A. rewrite sumf_app. simpl. ring. Qed.

Theorem ideal_chemical_potential T V pre c post N : 0 < V -> 0 < N ->
  is_derive (fun n => A_ig T V (pre ++ with_n c n :: post)) N (mu_ig T V c N).
Proof.
  intros HV HN. unfold A_ig, mu_ig.
  apply is_derive_ext_loc with
    (fun n => (beta_A T V pre + (ic_lam c T + ln (n / V) - 1) * n + beta_A T V post) * T).
  - apply filter_imp with (2 := locally_pos N HN). intros n Hn.
    rewrite beta_A_split. simpl. rewrite comp_term_guard; [reflexivity | lra | lra].
  - auto_derive.
    + ad_side.
    + unfold Rdiv; field; lra.
Qed.

Lemma mu_ig_mixing T V c N Nt : 0 < V -> 0 < N -> 0 < Nt ->
  mu_ig T V c N - mu_ig T V c Nt = T * ln (N / Nt).
Proof.
  intros HV HN HNt. unfold mu_ig.
  assert (E : ln (N / V) - ln (Nt / V) = ln (N / Nt)).
  { unfold Rdiv. rewrite !ln_mult, !ln_Rinv; try lra; try (apply Rinv_0_lt_compat; lra). }
  rewrite <- E. ring.
Qed.

(** ideal mixing, stated on the derivatives themselves: whatever the chemical potentials of
    component c in the mixture and as a pure fluid at the same T, V and total particle number are,
    they differ by T ln x_c. *)
Theorem ideal_mixing T V pre c post N mu_mix mu_pure :
  0 < V -> 0 < N -> 0 < Ntot (pre ++ with_n c N :: post) ->
  is_derive (fun n => A_ig T V (pre ++ with_n c n :: post)) N mu_mix ->
  is_derive (fun n => A_ig T V [with_n c n]) (Ntot (pre ++ with_n c N :: post)) mu_pure ->
  mu_mix - mu_pure = T * ln (N / Ntot (pre ++ with_n c N :: post)).
Proof.
  intros HV HN HNt Hm Hp.
  pose proof (ideal_chemical_potential T V pre c post N HV HN) as Hm'.
  pose proof (ideal_chemical_potential T V [] c [] _ HV HNt) as Hp'. simpl in Hp'.
  assert (E1 : mu_mix = mu_ig T V c N).
  { rewrite <- (is_derive_unique _ _ _ Hm). apply is_derive_unique. exact Hm'. }
  assert (E2 : mu_pure = mu_ig T V c (Ntot (pre ++ with_n c N :: post))).
  { rewrite <- (is_derive_unique _ _ _ Hp). apply is_derive_unique. exact Hp'. }
  rewrite E1, E2. now apply mu_ig_mixing.
Qed.

Theorem ideal_dmu_dni T V c N : 0 < V -> 0 < N -> is_derive (fun n => mu_ig T V c n) N (T / N).
Proof.
  intros HV HN. unfold mu_ig. auto_derive.
  - ad_side.
  - field; lra.
Qed.

Theorem ideal_dmu_dt T V c N : 0 < T ->  ic_ok c ->
  is_derive (fun t => mu_ig t V c N) T (ic_lam c T + ln (N / V) + T * ic_lam1 c T).
Proof.
  intros HT Hok. destruct (Hok T HT) as [H _]. unfold mu_ig. auto_derive.
  - ad_side.
  - derive_rw H. ring.
Qed.

Lemma Ntot_split pre c post : Ntot (pre ++ c :: post) = Ntot pre + ic_n c + Ntot post.
Proof. unfold Ntot. rewrite sumf_app. simpl. ring. Qed.

Theorem ideal_dp_dni T V pre c post N :
  is_derive (fun n => p_ig T V (pre ++ with_n c n :: post)) N (T / V).
Proof.
  unfold p_ig.
  apply is_derive_ext with (fun n => (Ntot pre + n + Ntot post) / V * T).
  - intros n. now rewrite Ntot_split.
  - auto_derive; [ad_side | unfold Rdiv; ring].
Qed.

(** * Zero-density limit of residual quantities (conditional: virial form) *)
(** [a rho] = reduced residual Helmholtz energy per particle A^res/(N k T) at fixed T and composition.
    If it is differentiable around rho = 0 with a continuous derivative and vanishes at rho = 0, then
    a^res, the residual compressibility factor Z - 1 = rho a'(rho) (= p^res / p^ig) and hence every
    first-order residual property tend to 0 as rho -> 0. *)
Theorem residual_zero_density (a a' : R -> R) :
  (forall r, is_derive a r (a' r)) -> continuous a' 0 -> a 0 = 0 ->
  is_lim a 0 0 /\ is_lim (fun r => r * a' r) 0 0 /\ is_lim (fun r => a r / r) 0 (a' 0).
Proof.
  intros Hd Hc H0. split; [|split].
  - rewrite <- H0 at 2. apply is_lim_continuity. apply continuity_pt_filterlim.
    apply (ex_derive_continuous (V:=R_NormedModule)). exists (a' 0). apply Hd.
  - replace (Finite 0) with (Rbar_mult (Finite 0) (Finite (a' 0))) at 2 by (simpl; f_equal; ring).
    apply (is_lim_mult (fun r => r) a' 0 0 (a' 0)).
    + apply is_lim_id.
    + apply is_lim_continuity. apply continuity_pt_filterlim. exact Hc.
    + exact I.
  - apply is_lim_spec. intros eps.
    pose proof (proj1 (is_derive_Reals a 0 (a' 0)) (Hd 0)) as Hl.
    destruct (Hl eps (cond_pos eps)) as [delta Hdelta].
    exists delta. intros y Hy Hne.
    specialize (Hdelta y Hne).
    replace (a y / y) with ((a (0 + y) - a 0) / y) by (rewrite H0, Rplus_0_l; unfold Rdiv; ring).
    apply Hdelta.
    unfold ball in Hy; simpl in Hy; unfold AbsRing_ball, abs, minus, plus, opp in Hy; simpl in Hy.
    now rewrite Ropp_0, Rplus_0_r in Hy.
Qed.

(** * ln Lambda^3 built from enthalpy / entropy integrals of a heat-capacity correlation *)
Section LamFromIntegrals.
  Variables (H S cp : R -> R) (Rg H0 S0 k : R).
  Hypothesis HRg : Rg <> 0.
  Hypothesis HH : forall t, 0 < t -> is_derive H t (cp t).
  Hypothesis HS : forall t, 0 < t -> is_derive S t (cp t / t).

  Definition lamI (t : R) : R := (H t - H0 - t * (S t - S0)) / (t * Rg) + ln t + k.
  Definition lamI1 (t : R) : R := - (H t - H0) / (Rg * t ^ 2) + / t.
  Definition lamI2 (t : R) : R := - cp t / (Rg * t ^ 2) + 2 * (H t - H0) / (Rg * t ^ 3) - / t ^ 2.

  Lemma lamI_d1 t : 0 < t -> is_derive lamI t (lamI1 t).
  Proof.
    intros Ht. pose proof (HH t Ht) as h. pose proof (HS t Ht) as s.
    unfold lamI, lamI1. auto_derive.
    - ad_side.
    - derive_rw h. derive_rw s. field. split; lra.
  Qed.

  Lemma lamI_d2 t : 0 < t -> is_derive lamI1 t (lamI2 t).
  Proof.
    intros Ht. pose proof (HH t Ht) as h.
    unfold lamI1, lamI2. auto_derive.
    - ad_side.
    - derive_rw h. field. split; lra.
  Qed.

  Lemma lamI_cp t : 0 < t -> 1 - t * (2 * lamI1 t + t * lamI2 t) = cp t / Rg.
  Proof. intros Ht. unfold lamI1, lamI2. field. split; lra. Qed.
End LamFromIntegrals.

(** * mixtures of components whose pure heat capacity is a known correlation *)
Theorem cp_mix_correlation T V cs (corr : icomp -> R) : 0 < T -> 0 < V -> Ntot cs <> 0 ->
  (forall c, In c cs -> cp_pure c T = corr c) ->
  cp_mix T V cs = sumf (fun c => ic_n c / Ntot cs * corr c) cs.
Proof.
  intros HT HV HN Hc. rewrite cp_mole_fraction_average by assumption.
  apply sumf_ext. intros c Hin. now rewrite Hc.
Qed.

Lemma sumf_map {A} (g : A -> icomp) (f : icomp -> R) (l : list A) :
  sumf f (map g l) = fold_right (fun r acc => f (g r) + acc) 0 l.
Proof. induction l as [|r l IH]; simpl; [reflexivity | now rewrite IH]. Qed.

Lemma fold_right_ext_in {A} (f g : A -> R) (l : list A) :
  (forall r, In r l -> f r = g r) ->
  fold_right (fun r acc => f r + acc) 0 l = fold_right (fun r acc => g r + acc) 0 l.
Proof.
  induction l as [|r l IH]; simpl; intros H; [reflexivity|].
  rewrite (H r) by now left. rewrite IH; [reflexivity|]. intros; apply H; now right.
Qed.

(** non-vacuity: a constant ln Lambda^3 gives the monatomic ideal gas c_v = 0, c_p = 1 (in units of k_B),
    and the hypotheses of the mixture theorems are satisfiable *)
Example ideal_gas_example :
  let c := mk_icomp 2 (fun _ => 3) (fun _ => 0) (fun _ => 0) in
  ic_ok c /\ nonneg [c; c] /\ cp_mix 300 1000 [c; c] = 1 /\ p_ig 300 1000 [c; c] = 4 / 1000 * 300.
Proof.
  intros c. split; [|split; [|split]].
  - intros t Ht. unfold c; simpl. split; apply (is_derive_const (K:=R_AbsRing) (V:=R_NormedModule)).
  - repeat constructor; simpl; lra.
  - unfold cp_mix, d2A_dT2, Ntot, sumf, c; simpl. field.
  - unfold p_ig, Ntot, sumf, c; simpl. field.
Qed.

Theorem cp_from_integrals (H S cp : R -> R) (Rg H0 S0 k : R) : Rg <> 0 ->
  (forall t, 0 < t -> is_derive H t (cp t)) -> (forall t, 0 < t -> is_derive S t (cp t / t)) ->
  forall t, 0 < t ->
  is_derive (lamI H S Rg H0 S0 k) t (lamI1 H Rg H0 t) /\
  is_derive (lamI1 H Rg H0) t (lamI2 H cp Rg H0 t) /\
  1 - t * (2 * lamI1 H Rg H0 t + t * lamI2 H cp Rg H0 t) = cp t / Rg.
Proof.
  intros HR HH HS t Ht. split; [|split].
  - now apply lamI_d1 with (cp := cp).
  - now apply lamI_d2.
  - now apply lamI_cp.
Qed.

(** * the local ideal-gas Helmholtz energy density of a DFT profile
    (feos-dft/src/profile/properties.rs, [ideal_gas_contribution_dual]): at a grid point with partial densities rho_i > 0
    the code adds  T * sum_i rho_i (ln Lambda_i^3 + ln rho_i - 1)  — per component, no guard. *)
Definition dft_ideal_density (T : R) (cs : list icomp) : R :=
  sumf (fun c => (ic_lam c T + ln (ic_n c) - 1) * ic_n c) cs * T.
Definition positive (cs : list icomp) : Prop := forall c, In c cs -> 0 < ic_n c.

Lemma positive_nonneg cs : positive cs -> nonneg cs.
Proof. intros H. unfold nonneg. apply List.Forall_forall. intros c Hc. apply Rlt_le. now apply H. Qed.

(** it is the bulk ideal-gas Helmholtz energy of the particle numbers rho_i in the unit volume *)
Theorem dft_ideal_is_bulk T cs : positive cs -> dft_ideal_density T cs = A_ig T 1 cs.
Proof.
  intros Hp. unfold dft_ideal_density, A_ig, beta_A. f_equal. apply sumf_ext. intros c Hc.
  rewrite comp_term_guard; [ | lra | apply Rlt_le; now apply Hp ].
  replace (ic_n c / 1) with (ic_n c) by field. reflexivity.
Qed.

(** hence the ideal-gas entropy density that entropy_density(Total) adds to the residual one is -dA_dT(T, 1, rho) *)
Theorem dft_ideal_entropy_density T cs : 0 < T -> all_ok cs -> positive cs ->
  is_derive (fun t => dft_ideal_density t cs) T (dA_dT T 1 cs).
Proof.
  intros HT Hok Hp.
  apply is_derive_ext with (fun t => A_ig t 1 cs).
  - intros t. symmetry. now apply dft_ideal_is_bulk.
  - now apply ideal_dA_dT.
Qed.

(** extensivity of the bulk model: scaling V and all N_i by k > 0 scales A_ig by k, so a density (A/V) depends on
    the partial densities only — the bulk State of the same T and rho_i is the right reference for a profile *)
Definition scale_n (k : R) (c : icomp) : icomp := with_n c (k * ic_n c).

Theorem A_ig_extensive T V k cs : 0 < V -> 0 < k -> nonneg cs ->
  A_ig T (k * V) (map (scale_n k) cs) = k * A_ig T V cs.
Proof.
  intros HV Hk Hn. unfold A_ig, beta_A.
  replace (k * (sumf (fun c => comp_term (ic_lam c T) (ic_n c / V) (ic_n c)) cs * T))
    with (sumf (fun c => k * comp_term (ic_lam c T) (ic_n c / V) (ic_n c)) cs * T) by (rewrite sumf_scal; ring).
  f_equal. rewrite sumf_map. unfold sumf. apply fold_right_ext_in. intros c Hc.
  unfold nonneg in Hn. rewrite List.Forall_forall in Hn. specialize (Hn c Hc).
  unfold scale_n, with_n; simpl.
  replace (k * ic_n c / (k * V)) with (ic_n c / V) by (field; lra).
  unfold comp_term. ring.
Qed.

(** the ideal entropy of mixing is what a "total density" shortcut would lose: the per-component form minus the form with a
    single logarithm of the total density is T sum_i rho_i ln x_i *)
Theorem dft_ideal_mixing_term T cs : positive cs -> 0 < Ntot cs ->
  dft_ideal_density T cs
  - (sumf (fun c => ic_lam c T * ic_n c) cs + Ntot cs * (ln (Ntot cs) - 1)) * T
  = T * sumf (fun c => ic_n c * ln (ic_n c / Ntot cs)) cs.
Proof.
  intros Hp HN. unfold dft_ideal_density.
  assert (E : sumf (fun c => (ic_lam c T + ln (ic_n c) - 1) * ic_n c) cs
              = sumf (fun c => ic_lam c T * ic_n c) cs + Ntot cs * (ln (Ntot cs) - 1)
                + sumf (fun c => ic_n c * ln (ic_n c / Ntot cs)) cs).
  { replace (Ntot cs * (ln (Ntot cs) - 1)) with (sumf (fun c => (ln (Ntot cs) - 1) * ic_n c) cs)
      by (rewrite sumf_scal; unfold Ntot; ring).
    rewrite <- !sumf_plus. apply sumf_ext. intros c Hc.
    unfold Rdiv. rewrite ln_mult; [ | now apply Hp | apply Rinv_0_lt_compat; exact HN ].
    rewrite ln_Rinv by exact HN. ring. }
  rewrite E. ring.
Qed.
