(** * Canon: a verified equivalence checker for straight-line real programs modulo
    associativity/commutativity of + and *, x - y = x + (-y), x / y = x * /y, x^2 = x * x, the unit/annihilator laws of a
    literal zero, and sharing (hash-consing).  [canon_sound]: if the checker assigns the same identifier to an
    output of program [A] and an output of program [B] — [B]'s inputs being a selection [pi] of [A]'s inputs (a
    permutation of the variables, constants identified by value) — then the two outputs are EQUAL for every value of the
    inputs, in the total real semantics [eval_real] (no definedness side conditions: every rewrite is an identity of the
    total functions on R).  Used for C09 (permutation, zero-mole padding) and C08 (two code paths for one model). *)
From Coq Require Import Reals List ZArith Lia Lra Bool Permutation.
From Interval Require Import Eval.Prog Eval.Tree Real.Xreal Eval.Eval.
From FeosVerif Require Import ProgSem.
Import ListNotations.
Local Open Scope R_scope.

(** ** descriptors *)
Inductive desc :=
| DIn (k : nat)                       (* k-th shared input *)
| DZero                               (* the literal zero *)
| DUn (o : unary_op) (i : nat)        (* uninterpreted unary operation of an earlier identifier *)
| DSum (l : list nat)                 (* sorted list of summands *)
| DProd (l : list nat).               (* sorted list of factors *)

Fixpoint list_eqb (l1 l2 : list nat) : bool :=
  match l1, l2 with
  | [], [] => true
  | x :: l1, y :: l2 => Nat.eqb x y && list_eqb l1 l2
  | _, _ => false
  end.
Lemma list_eqb_eq l1 l2 : list_eqb l1 l2 = true -> l1 = l2.
Proof.
  revert l2. induction l1 as [|x l1 IH]; intros [|y l2]; cbn; try discriminate; auto.
  intros H. apply andb_prop in H as [H1 H2]. apply Nat.eqb_eq in H1. subst. f_equal. now apply IH.
Qed.

Definition desc_eqb (a b : desc) : bool :=
  match a, b with
  | DIn k, DIn k' => Nat.eqb k k'
  | DZero, DZero => true
  | DUn o i, DUn o' i' => unop_eqb o o' && Nat.eqb i i'
  | DSum l, DSum l' => list_eqb l l'
  | DProd l, DProd l' => list_eqb l l'
  | _, _ => false
  end.
Lemma desc_eqb_eq a b : desc_eqb a b = true -> a = b.
Proof.
  destruct a, b; cbn; try discriminate; intros H.
  - apply Nat.eqb_eq in H. now subst.
  - reflexivity.
  - apply andb_prop in H as [H1 H2]. apply unop_eqb_eq in H1. apply Nat.eqb_eq in H2. now subst.
  - apply list_eqb_eq in H. now subst.
  - apply list_eqb_eq in H. now subst.
Qed.

(** ** insertion sort and permutation invariance of sums and products *)
Fixpoint ins (x : nat) (l : list nat) : list nat :=
  match l with
  | [] => [x]
  | y :: l' => if Nat.leb x y then x :: l else y :: ins x l'
  end.
Fixpoint isort (l : list nat) : list nat :=
  match l with [] => [] | x :: l' => ins x (isort l') end.
Lemma ins_perm x l : Permutation (x :: l) (ins x l).
Proof.
  induction l as [|y l IH]; cbn; [reflexivity|].
  destruct (Nat.leb x y); [reflexivity|]. rewrite perm_swap. now constructor.
Qed.
Lemma isort_perm l : Permutation l (isort l).
Proof. induction l as [|x l IH]; cbn; [constructor|]. rewrite <- ins_perm. now constructor. Qed.

Definition sumf (f : nat -> R) (l : list nat) : R := fold_right (fun i acc => f i + acc) 0 l.
Definition prodf (f : nat -> R) (l : list nat) : R := fold_right (fun i acc => f i * acc) 1 l.
Lemma sumf_perm f l l' : Permutation l l' -> sumf f l = sumf f l'.
Proof.
  unfold sumf. induction 1 as [|x l l' H IH|x y l|l l' l'' H1 IH1 H2 IH2]; cbn.
  - reflexivity.
  - now rewrite IH.
  - lra.
  - now rewrite IH1.
Qed.
Lemma prodf_perm f l l' : Permutation l l' -> prodf f l = prodf f l'.
Proof.
  unfold prodf. induction 1 as [|x l l' H IH|x y l|l l' l'' H1 IH1 H2 IH2]; cbn.
  - reflexivity.
  - now rewrite IH.
  - ring.
  - now rewrite IH1.
Qed.
Lemma sumf_app f l l' : sumf f (l ++ l') = sumf f l + sumf f l'.
Proof. unfold sumf. induction l; cbn; lra. Qed.
Lemma prodf_app f l l' : prodf f (l ++ l') = prodf f l * prodf f l'.
Proof. unfold prodf. induction l as [|x l IH]; cbn; [ring|rewrite IH; ring]. Qed.
Lemma sumf_ext f g l : (forall i, In i l -> f i = g i) -> sumf f l = sumf g l.
Proof. unfold sumf. induction l as [|x l IH]; cbn; intros H; [reflexivity|]. rewrite H, IH; auto. Qed.
Lemma prodf_ext f g l : (forall i, In i l -> f i = g i) -> prodf f l = prodf g l.
Proof. unfold prodf. induction l as [|x l IH]; cbn; intros H; [reflexivity|]. rewrite H, IH; auto. Qed.

(** ** level-indexed access: identifier [i] of a newest-first list is the element at distance [i] from the end *)
Definition lev {A} (l : list A) (d : A) (i : nat) : A := nth (length l - 1 - i) l d.
Lemma lev_app {A} (l1 l : list A) d i : (i < length l)%nat -> lev (l1 ++ l) d i = lev l d i.
Proof. intros H. unfold lev. rewrite app_length, app_nth2 by lia. f_equal. lia. Qed.
Lemma lev_cons {A} (x : A) l d i : (i < length l)%nat -> lev (x :: l) d i = lev l d i.
Proof. apply (lev_app [x]). Qed.
Lemma lev_new {A} (x : A) l d : lev (x :: l) d (length l) = x.
Proof. unfold lev. cbn [length]. replace (S (length l) - 1 - length l)%nat with 0%nat by lia. reflexivity. Qed.

(** ** the checker (values never appear in it) *)
Fixpoint find (l : list desc) (d : desc) : option nat :=
  match l with
  | [] => None
  | x :: l' => if desc_eqb x d then Some (length l') else find l' d
  end.
Definition intern (ds : list desc) (d : desc) : list desc * nat :=
  match find ds d with Some i => (ds, i) | None => (d :: ds, length ds) end.

Definition flat_sum (ds : list desc) (i : nat) : list nat :=
  match lev ds DZero i with DSum l => l | DZero => [] | _ => [i] end.
Definition flat_prod (ds : list desc) (i : nat) : list nat :=
  match lev ds DZero i with DProd l => l | _ => [i] end.
Definition is_zero (ds : list desc) (i : nat) : bool :=
  match lev ds DZero i with DZero => true | _ => false end.

Definition mk_sum (ds : list desc) (l : list nat) : list desc * nat :=
  match l with [] => intern ds DZero | [x] => (ds, x) | _ => intern ds (DSum l) end.
Definition mk_prod (ds : list desc) (l : list nat) : list desc * nat :=
  match l with [x] => (ds, x) | _ => intern ds (DProd l) end.
Definition c_add ds a b := mk_sum ds (isort (flat_sum ds a ++ flat_sum ds b)).
Definition c_mul ds a b :=
  if is_zero ds a || is_zero ds b then intern ds DZero
  else mk_prod ds (isort (flat_prod ds a ++ flat_prod ds b)).
Definition c_un (ds : list desc) (o : unary_op) (a : nat) : list desc * nat :=
  match o with
  | Neg => if is_zero ds a then (ds, a) else intern ds (DUn Neg a)
  | Sqr => c_mul ds a a
  | _ => intern ds (DUn o a)
  end.
Definition c_bin (ds : list desc) (o : binary_op) (a b : nat) : list desc * nat :=
  match o with
  | Add => c_add ds a b
  | Mul => c_mul ds a b
  | Sub => let '(ds1, nb) := c_un ds Neg b in c_add ds1 a nb
  | Div => let '(ds1, ib) := intern ds (DUn Inv b) in c_mul ds1 a ib
  end.
Definition c_step (s : list desc * list nat) (t : term) : list desc * list nat :=
  let '(ds, pids) := s in
  let g u := nth u pids 0%nat in
  match t with
  | Forward u => (ds, g u :: pids)
  | Unary o u => let '(ds', i) := c_un ds o (g u) in (ds', i :: pids)
  | Binary o u v => let '(ds', i) := c_bin ds o (g u) (g v) in (ds', i :: pids)
  end.
Definition c_run (P : list term) (s : list desc * list nat) : list desc * list nat := fold_left c_step P s.

(** inputs: [zs] flags the inputs that are literally zero *)
Fixpoint c_inputs (ds : list desc) (zs : list bool) (k : nat) : list desc * list nat :=
  match zs with
  | [] => (ds, [])
  | z :: zs' =>
      let '(ds1, i) := intern ds (if z then DZero else DIn k) in
      let '(ds2, ids) := c_inputs ds1 zs' (S k) in
      (ds2, i :: ids)
  end.

(** the whole check: both programs read selections [piA], [piB] of one shared environment (variables permuted,
    constants identified by value); run A, then B, on the same descriptor table and compare two outputs *)
Definition sel {X} (d : X) (pi : list nat) (l : list X) : list X := map (fun j => nth j l d) pi.
Definition canon_eqb (A B : list term) (zs : list bool) (piA piB : list nat) (oa ob : nat) : bool :=
  let '(ds0, ids) := c_inputs [DZero] zs 0 in
  let '(ds1, pidsA) := c_run A (ds0, sel 0%nat piA ids) in
  let '(ds2, pidsB) := c_run B (ds1, sel 0%nat piB ids) in
  Nat.ltb oa (length A + length piA) && Nat.ltb ob (length B + length piB)
  && forallb (fun j => Nat.ltb j (length zs)) piA && forallb (fun j => Nat.ltb j (length zs)) piB
  && Nat.eqb (nth oa pidsA 0%nat) (nth ob pidsB 0%nat).
(** several output pairs with one run of the tables *)
Definition canon_eqbs (A B : list term) (zs : list bool) (piA piB : list nat) (outs : list (nat * nat)) : list bool :=
  let '(ds0, ids) := c_inputs [DZero] zs 0 in
  let '(ds1, pidsA) := c_run A (ds0, sel 0%nat piA ids) in
  let '(ds2, pidsB) := c_run B (ds1, sel 0%nat piB ids) in
  map (fun o => Nat.ltb (fst o) (length A + length piA) && Nat.ltb (snd o) (length B + length piB)
    && forallb (fun j => Nat.ltb j (length zs)) piA && forallb (fun j => Nat.ltb j (length zs)) piB
    && Nat.eqb (nth (fst o) pidsA 0%nat) (nth (snd o) pidsB 0%nat)) outs.

Lemma canon_eqbs_nth A B zs piA piB outs k : (k < length outs)%nat ->
  nth k (canon_eqbs A B zs piA piB outs) false = true ->
  canon_eqb A B zs piA piB (fst (nth k outs (0, 0)%nat)) (snd (nth k outs (0, 0)%nat)) = true.
Proof.
  unfold canon_eqbs, canon_eqb. intros Hk.
  destruct (c_inputs [DZero] zs 0) as [ds0 ids].
  destruct (c_run A (ds0, sel 0%nat piA ids)) as [ds1 pidsA].
  destruct (c_run B (ds1, sel 0%nat piB ids)) as [ds2 pidsB].
  match goal with |- nth k (map ?f outs) false = true -> _ =>
    rewrite (nth_indep (map f outs) false (f (0, 0)%nat)) by (now rewrite map_length);
    rewrite (map_nth f outs (0, 0)%nat k) end.
  exact (fun H => H).
Qed.

(** ** Soundness *)
Section Sound.
Variable env : list R.

Definition den (vs : list R) (i : nat) : R := lev vs 0 i.
Definition eval_desc (vs : list R) (d : desc) : R :=
  match d with
  | DIn k => nth k env 0
  | DZero => 0
  | DUn o i => unary real_operations o (den vs i)
  | DSum l => sumf (den vs) l
  | DProd l => prodf (den vs) l
  end.
Definition refs_ok (n : nat) (d : desc) : Prop :=
  match d with
  | DIn _ | DZero => True
  | DUn _ i => (i < n)%nat
  | DSum l | DProd l => Forall (fun i => (i < n)%nat) l
  end.

(** the invariant: identifier 0 is the literal zero; every descriptor refers to earlier identifiers only and
    denotes the value stored for its identifier *)
Definition J (ds : list desc) (vs : list R) : Prop :=
  length ds = length vs /\ (0 < length ds)%nat /\ lev ds DZero 0 = DZero /\
  forall i, (i < length ds)%nat -> refs_ok i (lev ds DZero i) /\ eval_desc vs (lev ds DZero i) = den vs i.

(** [ds', vs'] extend [ds, vs] *)
Definition Ext (ds : list desc) (vs : list R) (ds' : list desc) (vs' : list R) : Prop :=
  exists l1 l2, ds' = l1 ++ ds /\ vs' = l2 ++ vs.

Lemma Ext_refl ds vs : Ext ds vs ds vs.
Proof. now exists [], []. Qed.
Lemma Ext_trans ds vs ds1 vs1 ds2 vs2 : Ext ds vs ds1 vs1 -> Ext ds1 vs1 ds2 vs2 -> Ext ds vs ds2 vs2.
Proof. intros (a & b & -> & ->) (c & d & -> & ->). exists (c ++ a), (d ++ b). now rewrite !app_assoc. Qed.
Lemma Ext_den ds vs ds' vs' i : Ext ds vs ds' vs' -> (i < length vs)%nat -> den vs' i = den vs i.
Proof. intros (a & b & -> & ->) H. unfold den. now apply lev_app. Qed.
Lemma Ext_len ds vs ds' vs' : Ext ds vs ds' vs' -> (length ds <= length ds')%nat.
Proof. intros (a & b & -> & ->). rewrite app_length. lia. Qed.

Lemma refs_ok_mono n m d : (n <= m)%nat -> refs_ok n d -> refs_ok m d.
Proof.
  intros H. destruct d as [k| |o i|l|l]; cbn; auto.
  - lia.
  - intros F. eapply Forall_impl; [|exact F]. cbn. intros. lia.
  - intros F. eapply Forall_impl; [|exact F]. cbn. intros. lia.
Qed.

Lemma eval_desc_ext l vs d : refs_ok (length vs) d -> eval_desc (l ++ vs) d = eval_desc vs d.
Proof.
  destruct d as [k| |o i|sl|pl]; cbn; intros H; auto.
  - unfold den. now rewrite lev_app.
  - apply sumf_ext. intros i Hi. rewrite Forall_forall in H. unfold den. rewrite lev_app; auto.
  - apply prodf_ext. intros i Hi. rewrite Forall_forall in H. unfold den. rewrite lev_app; auto.
Qed.

Lemma J_cons ds vs d v : J ds vs -> refs_ok (length ds) d -> eval_desc vs d = v -> J (d :: ds) (v :: vs).
Proof.
  intros (Hl & Hp & Hz & H) Hr He. repeat split; cbn [length] in *; try lia.
  - rewrite lev_cons by lia. exact Hz.
  - destruct (Nat.eq_dec i (length ds)) as [->|Hne].
    + rewrite lev_new. exact Hr.
    + rewrite lev_cons by lia. apply H. lia.
  - destruct (Nat.eq_dec i (length ds)) as [->|Hne].
    + rewrite lev_new. change (v :: vs) with ([v] ++ vs). rewrite eval_desc_ext by (now rewrite <- Hl).
      unfold den. rewrite Hl. cbn [app]. now rewrite lev_new.
    + assert (Hi : (i < length ds)%nat) by lia. destruct (H i Hi) as [R E].
      rewrite lev_cons by lia. change (v :: vs) with ([v] ++ vs).
      rewrite eval_desc_ext by (eapply refs_ok_mono; [|exact R]; lia).
      unfold den. rewrite lev_app by lia. exact E.
Qed.

Lemma find_sound ds d i : find ds d = Some i -> (i < length ds)%nat /\ lev ds DZero i = d.
Proof.
  induction ds as [|x ds IH]; cbn [find]; [discriminate|].
  destruct (desc_eqb x d) eqn:E.
  - intros [= <-]. apply desc_eqb_eq in E. subst. split; [cbn; lia|apply lev_new].
  - intros Hf. destruct (IH Hf) as [Hi Hv]. split; [cbn; lia|]. now rewrite lev_cons.
Qed.

(** the result of an operation of the checker: an identifier of the extended tables whose value is [v] *)
Definition Res (ds : list desc) (vs : list R) (r : list desc * nat) (v : R) : Prop :=
  exists vs', Ext ds vs (fst r) vs' /\ J (fst r) vs' /\ (snd r < length (fst r))%nat /\ den vs' (snd r) = v.

Lemma Res_same ds vs i v : J ds vs -> (i < length ds)%nat -> den vs i = v -> Res ds vs (ds, i) v.
Proof. intros HJ Hi Hv. exists vs. cbn [fst snd]. split; [apply Ext_refl|]. split; [exact HJ|]. now split. Qed.

Lemma intern_sound ds vs d v : J ds vs -> refs_ok (length ds) d -> eval_desc vs d = v -> Res ds vs (intern ds d) v.
Proof.
  intros HJ Hr He. unfold intern. destruct (find ds d) as [i|] eqn:F.
  - destruct (find_sound _ _ _ F) as [Hi Hd]. exists vs. cbn [fst snd].
    split; [apply Ext_refl|]. split; [exact HJ|]. split; [exact Hi|].
    destruct HJ as (_ & _ & _ & H). destruct (H i Hi) as [_ E]. rewrite Hd in E. now rewrite <- E.
  - pose proof (J_cons ds vs d v HJ Hr He) as HJ'. exists (v :: vs). cbn [fst snd].
    split; [now exists [d], [v]|]. split; [exact HJ'|]. split; [cbn; lia|].
    destruct HJ as (Hl & _). unfold den. rewrite Hl. apply lev_new.
Qed.

Lemma flat_sum_sound ds vs a : J ds vs -> (a < length ds)%nat ->
  Forall (fun i => (i < length ds)%nat) (flat_sum ds a) /\ sumf (den vs) (flat_sum ds a) = den vs a.
Proof.
  intros (Hl & Hp & Hz & H) Ha. destruct (H a Ha) as [R E]. unfold flat_sum.
  destruct (lev ds DZero a) as [k| |o i|sl|pl]; cbn in *.
  - split; [constructor; auto|]. lra.
  - split; [constructor|]. exact E.
  - split; [constructor; auto|]. lra.
  - split; [eapply Forall_impl; [|exact R]; cbn; intros; lia|exact E].
  - split; [constructor; auto|]. lra.
Qed.

Lemma flat_prod_sound ds vs a : J ds vs -> (a < length ds)%nat ->
  Forall (fun i => (i < length ds)%nat) (flat_prod ds a) /\ prodf (den vs) (flat_prod ds a) = den vs a.
Proof.
  intros (Hl & Hp & Hz & H) Ha. destruct (H a Ha) as [R E]. unfold flat_prod.
  destruct (lev ds DZero a) as [k| |o i|sl|pl]; cbn in *; try (split; [constructor; auto|]; lra).
  split; [eapply Forall_impl; [|exact R]; cbn; intros; lia|exact E].
Qed.

Lemma is_zero_sound ds vs a : J ds vs -> (a < length ds)%nat -> is_zero ds a = true -> den vs a = 0.
Proof.
  intros (Hl & Hp & Hz & H) Ha. destruct (H a Ha) as [R E]. unfold is_zero.
  destruct (lev ds DZero a); try discriminate. intros _. now rewrite <- E.
Qed.

Lemma Forall_perm (Pp : nat -> Prop) l l' : Permutation l l' -> Forall Pp l -> Forall Pp l'.
Proof. intros Hp. rewrite !Forall_forall. intros H x Hx. apply H. eapply Permutation_in; [symmetry; exact Hp|exact Hx]. Qed.

Lemma mk_sum_sound ds vs l : J ds vs -> Forall (fun i => (i < length ds)%nat) l ->
  Res ds vs (mk_sum ds l) (sumf (den vs) l).
Proof.
  intros HJ Hf. unfold mk_sum. destruct l as [|x [|y l]].
  - apply intern_sound; cbn; auto.
  - inversion Hf; subst. apply Res_same; auto. unfold sumf. cbn. lra.
  - apply intern_sound; cbn; auto.
Qed.

Lemma mk_prod_sound ds vs l : J ds vs -> Forall (fun i => (i < length ds)%nat) l ->
  Res ds vs (mk_prod ds l) (prodf (den vs) l).
Proof.
  intros HJ Hf. unfold mk_prod. destruct l as [|x [|y l]].
  - apply intern_sound; cbn; auto.
  - inversion Hf; subst. apply Res_same; auto. unfold prodf. cbn. lra.
  - apply intern_sound; cbn; auto.
Qed.

Lemma c_add_sound ds vs a b : J ds vs -> (a < length ds)%nat -> (b < length ds)%nat ->
  Res ds vs (c_add ds a b) (den vs a + den vs b).
Proof.
  intros HJ Ha Hb. destruct (flat_sum_sound ds vs a HJ Ha) as [Fa Ea]. destruct (flat_sum_sound ds vs b HJ Hb) as [Fb Eb].
  unfold c_add. rewrite <- Ea, <- Eb, <- sumf_app.
  rewrite (sumf_perm _ _ _ (isort_perm (flat_sum ds a ++ flat_sum ds b))).
  apply mk_sum_sound; [exact HJ|]. eapply Forall_perm; [apply isort_perm|]. apply Forall_app. now split.
Qed.

Lemma c_mul_sound ds vs a b : J ds vs -> (a < length ds)%nat -> (b < length ds)%nat ->
  Res ds vs (c_mul ds a b) (den vs a * den vs b).
Proof.
  intros HJ Ha Hb. unfold c_mul. destruct (is_zero ds a) eqn:Za; [|destruct (is_zero ds b) eqn:Zb]; cbn [orb].
  - rewrite (is_zero_sound ds vs a HJ Ha Za), Rmult_0_l. apply intern_sound; cbn; auto.
  - rewrite (is_zero_sound ds vs b HJ Hb Zb), Rmult_0_r. apply intern_sound; cbn; auto.
  - destruct (flat_prod_sound ds vs a HJ Ha) as [Fa Ea]. destruct (flat_prod_sound ds vs b HJ Hb) as [Fb Eb].
    rewrite <- Ea, <- Eb, <- prodf_app.
    rewrite (prodf_perm _ _ _ (isort_perm (flat_prod ds a ++ flat_prod ds b))).
    apply mk_prod_sound; [exact HJ|]. eapply Forall_perm; [apply isort_perm|]. apply Forall_app. now split.
Qed.

Lemma c_un_sound ds vs o a : J ds vs -> (a < length ds)%nat ->
  Res ds vs (c_un ds o a) (unary real_operations o (den vs a)).
Proof.
  intros HJ Ha. destruct o; cbn [c_un]; try (apply intern_sound; cbn; auto).
  - (* Neg *) destruct (is_zero ds a) eqn:Z.
    + apply Res_same; auto. rewrite (is_zero_sound ds vs a HJ Ha Z). cbn. lra.
    + apply intern_sound; cbn; auto.
  - (* Sqr *) apply (c_mul_sound ds vs a a HJ Ha Ha).
Qed.

Lemma Res_weaken ds vs ds1 vs1 r v : Ext ds vs ds1 vs1 -> Res ds1 vs1 r v -> Res ds vs r v.
Proof.
  intros HE (vs' & E & HJ & Hi & Hv). exists vs'. split; [eapply Ext_trans; eauto|]. split; [exact HJ|]. now split.
Qed.

Lemma c_bin_sound ds vs o a b : J ds vs -> (a < length ds)%nat -> (b < length ds)%nat ->
  Res ds vs (c_bin ds o a b) (binary real_operations o (den vs a) (den vs b)).
Proof.
  intros HJ Ha Hb. destruct o; cbn [c_bin binary real_operations binary_real].
  - now apply c_add_sound.
  - (* Sub *) destruct (c_un_sound ds vs Neg b HJ Hb) as (vs1 & E1 & J1 & Hn & Vn).
    destruct (c_un ds Neg b) as [ds1 nb]. cbn [fst snd] in *.
    assert (Hl : length ds = length vs) by apply HJ.
    assert (Ha1 : (a < length ds1)%nat) by (pose proof (Ext_len _ _ _ _ E1); lia).
    eapply Res_weaken; [exact E1|].
    replace (den vs a - den vs b) with (den vs1 a + den vs1 nb).
    + now apply c_add_sound.
    + rewrite Vn, (Ext_den _ _ _ _ a E1) by lia. cbn. lra.
  - now apply c_mul_sound.
  - (* Div *) destruct (intern_sound ds vs (DUn Inv b) (/ den vs b) HJ Hb eq_refl) as (vs1 & E1 & J1 & Hn & Vn).
    destruct (intern ds (DUn Inv b)) as [ds1 ib]. cbn [fst snd] in *.
    assert (Hl : length ds = length vs) by apply HJ.
    assert (Ha1 : (a < length ds1)%nat) by (pose proof (Ext_len _ _ _ _ E1); lia).
    eapply Res_weaken; [exact E1|].
    replace (den vs a / den vs b) with (den vs1 a * den vs1 ib).
    + now apply c_mul_sound.
    + rewrite Vn, (Ext_den _ _ _ _ a E1) by lia. reflexivity.
Qed.

(** link between the identifiers of a program's values and the values themselves *)
Definition K (ds : list desc) (vs : list R) (pids : list nat) (pv : list R) : Prop :=
  length pids = length pv /\ forall k, (nth k pids 0 < length ds)%nat /\ den vs (nth k pids 0%nat) = nth k pv 0.

Lemma K_ext ds vs ds' vs' pids pv : J ds vs -> Ext ds vs ds' vs' -> K ds vs pids pv -> K ds' vs' pids pv.
Proof.
  intros HJ HE [Hl H]. split; [exact Hl|]. intros k. destruct (H k) as [Hi Hv].
  pose proof (Ext_len _ _ _ _ HE). split; [lia|]. rewrite (Ext_den _ _ _ _ _ HE); [exact Hv|].
  destruct HJ as (Hlen & _). lia.
Qed.

Lemma K_cons ds vs pids pv i v : K ds vs pids pv -> (i < length ds)%nat -> den vs i = v -> K ds vs (i :: pids) (v :: pv).
Proof.
  intros [Hl H] Hi Hv. split; [cbn; lia|]. intros [|k]; cbn; [now split|apply H].
Qed.

Lemma c_step_sound ds vs pids pv t : J ds vs -> K ds vs pids pv ->
  let s := c_step (ds, pids) t in
  exists vs', Ext ds vs (fst s) vs' /\ J (fst s) vs' /\ K (fst s) vs' (snd s) (eval_generic_body 0 real_operations pv t).
Proof.
  intros HJ HK. destruct t as [u|o u|o u v]; unfold eval_generic_body; cbn [c_step unary binary real_operations].
  - exists vs. cbn [fst snd]. split; [apply Ext_refl|]. split; [exact HJ|].
    apply K_cons; [exact HK|apply (proj1 (proj2 HK u))|apply (proj2 (proj2 HK u))].
  - destruct HK as [Hl H]. destruct (H u) as [Hu Vu].
    destruct (c_un_sound ds vs o (nth u pids 0%nat) HJ Hu) as (vs' & E & J' & Hi & Hv).
    destruct (c_un ds o (nth u pids 0%nat)) as [ds' i]. cbn [fst snd] in *.
    exists vs'. split; [exact E|]. split; [exact J'|].
    apply K_cons; [apply (K_ext ds vs ds' vs' pids pv HJ E); now split|exact Hi|]. now rewrite Hv, Vu.
  - destruct HK as [Hl H]. destruct (H u) as [Hu Vu]. destruct (H v) as [Hv' Vv].
    destruct (c_bin_sound ds vs o _ _ HJ Hu Hv') as (vs' & E & J' & Hi & Hv).
    destruct (c_bin ds o (nth u pids 0%nat) (nth v pids 0%nat)) as [ds' i]. cbn [fst snd] in *.
    exists vs'. split; [exact E|]. split; [exact J'|].
    apply K_cons; [apply (K_ext ds vs ds' vs' pids pv HJ E); now split|exact Hi|]. now rewrite Hv, Vu, Vv.
Qed.

Lemma c_run_sound P : forall ds vs pids pv, J ds vs -> K ds vs pids pv ->
  let s := c_run P (ds, pids) in
  exists vs', Ext ds vs (fst s) vs' /\ J (fst s) vs' /\ K (fst s) vs' (snd s) (eval_generic 0 real_operations P pv).
Proof.
  induction P as [|t P IH]; intros ds vs pids pv HJ HK; cbn [c_run fold_left eval_generic].
  - exists vs. cbn [fst snd]. split; [apply Ext_refl|]. split; [exact HJ|exact HK].
  - destruct (c_step_sound ds vs pids pv t HJ HK) as (vs1 & E1 & J1 & K1).
    destruct (c_step (ds, pids) t) as [ds1 pids1]. cbn [fst snd] in *.
    destruct (IH ds1 vs1 pids1 _ J1 K1) as (vs2 & E2 & J2 & K2).
    exists vs2. split; [eapply Ext_trans; eauto|]. split; [exact J2|exact K2].
Qed.

Lemma J_zero ds vs : J ds vs -> den vs 0%nat = 0.
Proof. intros (Hl & Hp & Hz & H). destruct (H 0%nat Hp) as [_ E]. rewrite Hz in E. now rewrite <- E. Qed.

Lemma c_inputs_sound zs : forall ds vs k, J ds vs ->
  (forall j, (j < length zs)%nat -> nth j zs false = true -> nth (k + j) env 0 = 0) ->
  let r := c_inputs ds zs k in
  exists vs', Ext ds vs (fst r) vs' /\ J (fst r) vs' /\
    K (fst r) vs' (snd r) (map (fun j => nth j env 0) (seq k (length zs))).
Proof.
  induction zs as [|z zs IH]; intros ds vs k HJ Hz; cbn [c_inputs length seq map].
  - exists vs. cbn [fst snd]. split; [apply Ext_refl|]. split; [exact HJ|].
    split; [reflexivity|]. intros j. destruct j; cbn [nth]; (split; [destruct HJ as (_ & Hp & _); exact Hp|now apply J_zero with ds]).
  - assert (Hd : eval_desc vs (if z then DZero else DIn k) = nth k env 0).
    { destruct z; cbn [eval_desc]; [|reflexivity]. symmetry. specialize (Hz 0%nat). rewrite Nat.add_0_r in Hz.
      apply Hz; [cbn; lia|reflexivity]. }
    assert (Hr : refs_ok (length ds) (if z then DZero else DIn k)) by (destruct z; exact I).
    destruct (intern_sound ds vs _ _ HJ Hr Hd) as (vs1 & E1 & J1 & Hi & Hv).
    destruct (intern ds (if z then DZero else DIn k)) as [ds1 i]. cbn [fst snd] in *.
    destruct (IH ds1 vs1 (S k) J1) as (vs2 & E2 & J2 & K2).
    { intros j Hj Hn. replace (S k + j)%nat with (k + S j)%nat by lia. apply Hz; [cbn; lia|exact Hn]. }
    destruct (c_inputs ds1 zs (S k)) as [ds2 ids]. cbn [fst snd] in *.
    exists vs2. split; [eapply Ext_trans; eauto|]. split; [exact J2|].
    apply K_cons; [exact K2|pose proof (Ext_len _ _ _ _ E2); lia|].
    rewrite (Ext_den _ _ _ _ _ E2); [exact Hv|]. destruct J1 as (Hl1 & _). lia.
Qed.

(** selecting inputs of [A] for [B] *)
Lemma K_select ds vs ids pv (pi : list nat) : J ds vs -> K ds vs ids pv ->
  K ds vs (sel 0%nat pi ids) (sel 0 pi pv).
Proof.
  intros HJ [Hl H]. unfold sel. split; [now rewrite !map_length|]. intros k.
  destruct (Nat.lt_ge_cases k (length pi)) as [Hk|Hk].
  - rewrite (nth_indep _ 0%nat (nth 0%nat ids 0%nat)) by (now rewrite map_length).
    rewrite (nth_indep _ 0 (nth 0%nat pv 0)) by (now rewrite map_length).
    rewrite (map_nth (fun j => nth j ids 0%nat) pi 0%nat k), (map_nth (fun j => nth j pv 0) pi 0%nat k). apply H.
  - rewrite !nth_overflow by (now rewrite map_length).
    split; [destruct HJ as (_ & Hp & _); exact Hp|now apply J_zero with ds].
Qed.

Lemma K_nth ds vs pids pv a b : K ds vs pids pv -> nth a pids 0%nat = b -> den vs b = nth a pv 0.
Proof. intros [_ H] <-. apply H. Qed.
End Sound.


(** ** The theorem *)
Lemma map_nth_seq (env : list R) : map (fun j => nth j env 0) (seq 0 (length env)) = env.
Proof.
  apply nth_ext with (d := 0) (d' := 0); [now rewrite map_length, seq_length|].
  intros k Hk. rewrite map_length, seq_length in Hk.
  rewrite (nth_indep _ 0 (nth 0%nat env 0)) by (now rewrite map_length, seq_length).
  rewrite (map_nth (fun j => nth j env 0) (seq 0 (length env)) 0%nat k). now rewrite seq_nth.
Qed.

Theorem canon_sound A B zs piA piB oa ob (env : list R) :
  canon_eqb A B zs piA piB oa ob = true ->
  length env = length zs ->
  (forall j, (j < length zs)%nat -> nth j zs false = true -> nth j env 0 = 0) ->
  nth oa (eval_real A (sel 0 piA env)) 0 = nth ob (eval_real B (sel 0 piB env)) 0.
Proof.
  intros Hc Hlen Hz. unfold canon_eqb in Hc.
  assert (J0 : J env [DZero] [0]).
  { split; [reflexivity|]. split; [cbn; lia|]. split; [reflexivity|]. intros i Hi.
    assert (i = 0%nat) as -> by (cbn in Hi; lia). split; [exact I|reflexivity]. }
  destruct (c_inputs_sound env zs [DZero] [0] 0%nat J0 ltac:(intros j Hj Hn; cbn; now apply Hz)) as (vs0 & E0 & J0' & K0).
  destruct (c_inputs [DZero] zs 0) as [ds0 ids]. cbn [fst snd] in *.
  rewrite <- Hlen, map_nth_seq in K0.
  pose proof (K_select env ds0 vs0 ids env piA J0' K0) as KA0.
  destruct (c_run_sound env A ds0 vs0 _ _ J0' KA0) as (vs1 & E1 & J1 & K1).
  destruct (c_run A (ds0, sel 0%nat piA ids)) as [ds1 pidsA]. cbn [fst snd] in *.
  pose proof (K_select env ds1 vs1 ids env piB J1 (K_ext env _ _ _ _ _ _ J0' E1 K0)) as KB0.
  destruct (c_run_sound env B ds1 vs1 _ _ J1 KB0) as (vs2 & E2 & J2 & K2).
  destruct (c_run B (ds1, sel 0%nat piB ids)) as [ds2 pidsB]. cbn [fst snd] in *.
  apply andb_prop in Hc. destruct Hc as [_ Heq]. apply Nat.eqb_eq in Heq.
  pose proof (K_ext env _ _ _ _ _ _ J1 E2 K1) as K1'.
  unfold eval_real.
  rewrite <- (K_nth _ _ _ _ oa _ K1' eq_refl), <- (K_nth _ _ _ _ ob _ K2 eq_refl).
  now rewrite Heq.
Qed.

(** in the extended semantics: wherever both outputs are defined they are equal *)
Corollary canon_sound_ext A B zs piA piB oa ob (env : list R) :
  canon_eqb A B zs piA piB oa ob = true ->
  length env = length zs ->
  (forall j, (j < length zs)%nat -> nth j zs false = true -> nth j env 0 = 0) ->
  wf A (sel 0 piA env) oa -> wf B (sel 0 piB env) ob ->
  out_ext A (sel 0 piA env) oa = out_ext B (sel 0 piB env) ob.
Proof.
  intros Hc Hl Hz Ha Hb. rewrite (wf_real _ _ _ Ha), (wf_real _ _ _ Hb). f_equal.
  now apply canon_sound with zs.
Qed.
