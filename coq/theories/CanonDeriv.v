(** * CanonDeriv: programs identified by the canonicaliser have equal directional derivatives.
    If [canon_eqb A B zs piA piB oa ob = true], then along every straight line of the shared environment (that keeps the
    zero-flagged inputs at zero) the derivative programs [tan_outs A], [tan_outs B] of [AD.v] return the same number
    whenever both return a number: pressure, chemical potentials, entropy of a relabelled / padded model are those of the
    original one, for every state. *)
From Coq Require Import Reals List ZArith Lia Lra.
From Interval Require Import Real.Xreal Real.Xreal_derive Eval.Prog Eval.Tree Eval.Eval.
From FeosVerif Require Import ProgSem AD Canon Euler.
Import ListNotations.
Local Open Scope R_scope.

Lemma nth_line_pt a e t j : length a = length e -> nth j (line_pt a e t) 0 = nth j a 0 + nth j e 0 * t.
Proof.
  unfold line_pt. revert e j. induction a as [|x a IH]; intros [|y e] j H; cbn in *; try discriminate.
  - destruct j; ring.
  - destruct j as [|j]; cbn; [reflexivity|]. apply IH. lia.
Qed.

Lemma sel_length {X} (d : X) pi l : length (sel d pi l) = length pi.
Proof. unfold sel. apply map_length. Qed.

Lemma sel_line pi a e t : length a = length e ->
  line_pt (sel 0 pi a) (sel 0 pi e) t = sel 0 pi (line_pt a e t).
Proof.
  intros H. unfold sel, line_pt at 1. induction pi as [|j pi IH]; cbn; [reflexivity|].
  f_equal; [|exact IH]. now rewrite nth_line_pt.
Qed.

(** the function the derivative statement of [tan_line_real] is about *)
Definition outR (P : list term) (env : list R) (k : nat) (v : R) : R :=
  match nth k (eval_ext P (map Xreal env)) Xnan with Xreal y => y | Xnan => v end.

(** a derivative program that returns a number certifies that the program is defined on a neighbourhood *)
Lemma tan_defined_near P n k a e r d :
  length a = n -> length e = n -> wscoped P n = true -> (k < length P + n)%nat ->
  nth 0 (eval_ext (tan_outs P n [k]) (map Xreal (line_pt a e r ++ e))) Xnan = Xreal d ->
  exists delta, 0 < delta /\ forall t, Rabs (t - r) < delta ->
    nth k (eval_ext P (map Xreal (line_pt a e t))) Xnan <> Xnan.
Proof.
  intros Ha He Hs Hk Hd.
  assert (Hks : forall i, In i [k] -> (i < length P + n)%nat) by (intros i [<-|[]]; exact Hk).
  (* defined at r *)
  assert (Hr : nth k (eval_ext P (map Xreal (line_pt a e r))) Xnan <> Xnan).
  { pose proof (tan_line P n [k] a e r Ha He Hs Hks 0%nat ltac:(cbn; lia)) as H.
    cbn [length nth Nat.sub] in H. rewrite Hd in H. unfold Xderive_pt in H.
    rewrite (lineF_at a e r) in H by lia.
    destruct (nth k (eval_ext P (map Xreal (line_pt a e r))) Xnan); [contradiction|discriminate]. }
  pose proof (tan_line_real P n [k] a e r 0%nat d Ha He Hs Hks ltac:(cbn; lia) Hd) as HD.
  cbn [length nth Nat.sub] in HD.
  pose proof (HD 1) as H1. pose proof (HD 0) as H0.
  pose proof (derivable_pt_lim_minus _ _ _ _ _ H1 H0) as Hm.
  assert (Hc : continuity_pt
     ((fun t => match nth k (eval_ext P (map Xreal (line_pt a e t))) Xnan with Xreal y => y | Xnan => 1 end) -
      (fun t => match nth k (eval_ext P (map Xreal (line_pt a e t))) Xnan with Xreal y => y | Xnan => 0 end))%F r).
  { apply derivable_continuous_pt. exists (d - d). exact Hm. }
  destruct (Hc (1 / 2) ltac:(lra)) as (delta & Hdelta & Hcont).
  exists delta. split; [exact Hdelta|]. intros t Ht Hnan.
  destruct (Req_dec t r) as [->|Hne]; [contradiction|].
  specialize (Hcont t). unfold D_x, no_cond, dist in Hcont. cbn in Hcont. unfold R_dist, minus_fct in Hcont.
  specialize (Hcont ltac:(split; [split; [exact I|congruence]|exact Ht])).
  rewrite Hnan in Hcont.
  destruct (nth k (eval_ext P (map Xreal (line_pt a e r))) Xnan) as [|y]; [contradiction|].
  replace (1 - 0 - (y - y)) with 1 in Hcont by ring. rewrite Rabs_R1 in Hcont. lra.
Qed.

Section Deriv.
Variables (A B : list term) (zs : list bool) (piA piB : list nat) (oa ob : nat).
Hypothesis Hc : canon_eqb A B zs piA piB oa ob = true.

(** point [a] and direction [e] of the shared environment; zero-flagged inputs stay zero along the line *)
Variables (a e : list R).
Hypothesis Hla : length a = length zs.
Hypothesis Hle : length e = length zs.
Hypothesis Hza : forall j, (j < length zs)%nat -> nth j zs false = true -> nth j a 0 = 0.
Hypothesis Hze : forall j, (j < length zs)%nat -> nth j zs false = true -> nth j e 0 = 0.

Let nA := length piA.
Let nB := length piB.
Hypothesis HsA : wscoped A nA = true.
Hypothesis HsB : wscoped B nB = true.
Hypothesis HoA : (oa < length A + nA)%nat.
Hypothesis HoB : (ob < length B + nB)%nat.

Theorem canon_tangent_agree r da db :
  nth 0 (eval_ext (tan_outs A nA [oa]) (map Xreal (line_pt (sel 0 piA a) (sel 0 piA e) r ++ sel 0 piA e))) Xnan = Xreal da ->
  nth 0 (eval_ext (tan_outs B nB [ob]) (map Xreal (line_pt (sel 0 piB a) (sel 0 piB e) r ++ sel 0 piB e))) Xnan = Xreal db ->
  da = db.
Proof.
  intros HA HB.
  assert (LA : length (sel 0 piA a) = nA) by apply sel_length.
  assert (LAe : length (sel 0 piA e) = nA) by apply sel_length.
  assert (LB : length (sel 0 piB a) = nB) by apply sel_length.
  assert (LBe : length (sel 0 piB e) = nB) by apply sel_length.
  destruct (tan_defined_near A nA oa _ _ r da LA LAe HsA HoA HA) as (d1 & Hd1 & DA).
  destruct (tan_defined_near B nB ob _ _ r db LB LBe HsB HoB HB) as (d2 & Hd2 & DB).
  assert (HksA : forall i, In i [oa] -> (i < length A + nA)%nat) by (intros i [<-|[]]; exact HoA).
  assert (HksB : forall i, In i [ob] -> (i < length B + nB)%nat) by (intros i [<-|[]]; exact HoB).
  pose proof (tan_line_real A nA [oa] _ _ r 0%nat da LA LAe HsA HksA ltac:(cbn; lia) HA 0) as GA.
  pose proof (tan_line_real B nB [ob] _ _ r 0%nat db LB LBe HsB HksB ltac:(cbn; lia) HB 0) as GB.
  cbn [length nth Nat.sub] in GA, GB.
  (* the two line functions agree near r *)
  assert (Hm : 0 < Rmin d1 d2) by (apply Rmin_pos; assumption).
  assert (Heq : forall t, Rabs (t - r) < Rmin d1 d2 ->
    match nth oa (eval_ext A (map Xreal (line_pt (sel 0 piA a) (sel 0 piA e) t))) Xnan with Xreal y => y | Xnan => 0 end =
    match nth ob (eval_ext B (map Xreal (line_pt (sel 0 piB a) (sel 0 piB e) t))) Xnan with Xreal y => y | Xnan => 0 end).
  { intros t Ht.
    assert (T1 : Rabs (t - r) < d1) by (eapply Rlt_le_trans; [exact Ht|apply Rmin_l]).
    assert (T2 : Rabs (t - r) < d2) by (eapply Rlt_le_trans; [exact Ht|apply Rmin_r]).
    specialize (DA t T1). specialize (DB t T2).
    rewrite !sel_line in * by lia.
    set (env := line_pt a e t) in *.
    assert (Hl : length env = length zs) by (unfold env, line_pt; rewrite map_length, combine_length; lia).
    assert (Hz : forall j, (j < length zs)%nat -> nth j zs false = true -> nth j env 0 = 0).
    { intros j Hj Hf. unfold env. rewrite nth_line_pt by lia. rewrite (Hza j Hj Hf), (Hze j Hj Hf). ring. }
    pose proof (canon_sound_ext A B zs piA piB oa ob env Hc Hl Hz DA DB) as E.
    unfold out_ext in E. now rewrite E. }
  pose proof (derivable_pt_lim_local _ _ r da (Rmin d1 d2) Hm Heq GA) as GA'.
  exact (uniqueness_limite _ _ _ _ GA' GB).
Qed.
End Deriv.
