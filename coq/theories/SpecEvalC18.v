(** C18 — evaluation of the [SpecC18] model on concrete data (the correspondence goals regenerated on every
    run into coq/gen/C18/*.v are stated with these wrappers and closed by [interval]). *)
From Coq Require Import Reals List ZArith Lia.
From Interval Require Import Tactic.
From FeosVerif Require Import ProgSem SpecC18.
Import ListNotations.
Open Scope R_scope.

(** data given as lists *)
Definition lf (l : list R) : nat -> R := fun k => nth k l 0.
Definition lf2 (l : list (list R)) : nat -> nat -> R := fun i g => nth g (nth i l []) 0.

(** the Boltzmann factor reconstructed from the implementation's projected density: e = rho_projected / rho_b *)
Definition e_of (P : list (list R)) (RB : list R) : nat -> nat -> R := fun i g => lf2 P i g / lf RB i.

Definition mk_spec (kind : nat) (N : list R) : spec :=
  match kind with
  | O => ChemicalPotential
  | S O => Moles (lf N)
  | _ => TotalMoles (lf N 0%nat)
  end.

(** the specification an entry point of the library derives from a profile (kind as in [mk_spec]) *)
Definition from_profile_spec (kind S G : nat) (w : nat -> R) (rho0 : nat -> nat -> R) : spec :=
  match kind with
  | O => ChemicalPotential
  | Datatypes.S O => moles_from_profile G w rho0
  | _ => total_moles_from_profile S G w rho0
  end.

(** component index given as a list *)
Definition lfn (l : list nat) : nat -> nat := fun k => nth k l 0%nat.

(** the norm with the size as an integer literal (so that [interval] sees a constant) *)
Definition res_norm_z (S G : nat) w e rho rhob sp : R :=
  sqrt (sumsq S G w e rho rhob sp) / sqrt (IZR (Z.of_nat (S * G + S))).

Lemma res_norm_z_eq S G w e rho rhob sp : res_norm_z S G w e rho rhob sp = res_norm S G w e rho rhob sp.
Proof. unfold res_norm_z, res_norm. now rewrite INR_IZR_INZ. Qed.

(** a tagged correspondence goal: on failure the tag is printed and the goal is left open (the file then fails
    at Qed and the check collects every failing tag) *)
Definition c18_tag (n : nat) (P : Prop) : Prop := P.

Ltac c18_reduce :=
  cbv -[Rplus Rminus Rmult Rdiv Rinv Ropp Rabs sqrt IZR powerRZ Rle exp ln].

Ltac c18_one :=
  match goal with
  | |- c18_tag ?n ?P =>
      first [ solve [ unfold c18_tag; c18_reduce; interval with (i_prec 100) ]
            | idtac "C18FAIL" n ]
  end.

Ltac c18_all := repeat (match goal with |- _ /\ _ => split end); c18_one.

(** sanity of the wrappers on a two-segment, two-point example:
    w = (1/2, 1/2), P = rho_b * e with e = ((2,4),(1,3)), rho_b = (1/2, 1/4), N = (3, 5) *)
Example eval_example_res_bulk :
  let W := [1/2; 1/2] in let P := [[1; 2]; [1/4; 3/4]] in let RB := [1/2; 1/4] in
  res_bulk 2 2 (lf W) (e_of P RB) (lf RB) (mk_spec 1 [3; 5]) 0 = 3 / 3 - 1 / 2 /\
  res_bulk 2 2 (lf W) (e_of P RB) (lf RB) (mk_spec 2 [3]) 1 = 1/4 * 3 / (1/2 * 3 + 1/4 * 2) - 1/4.
Proof.
  cbv -[Rplus Rminus Rmult Rdiv Rinv Ropp Rabs sqrt IZR powerRZ Rle]. split; field.
Qed.

Example eval_example_tagged :
  c18_tag 1 (Rabs (res_norm_z 1 2 (lf [1; 1]) (e_of [[1; 2]] [1]) (lf2 [[1; 4]]) (lf [1]) (mk_spec 0 []) - 2 / sqrt 3) <= 1 / 1000000).
Proof. c18_all. Qed.
