(** C07 — the gradient and Hessian used by [stability_newton_step] (stability_analysis.rs, lines 158-232)
    are derivatives of the objective  tm(W) = 1 + sum_i W_i (ln W_i + ln phi_i(W) - d_i - 1)  in the variables
    alpha_i = 2 sqrt W_i, given the partial derivatives  dphi i j = d ln phi_i / d N_j  (what [State::dln_phi_dnj] returns)
    and the Gibbs-Duhem relation  sum_i W_i dphi i j = 0  (ln phi is the derivative of a degree-1 homogeneous function; C02).

    Components are indexed 0..n.  A composition is a function nat -> R; [upd W j t] replaces entry j. *)
From Coq Require Import Reals Lra Lia Arith FunctionalExtensionality.
From Coquelicot Require Import Coquelicot.
Open Scope R_scope.

Definition upd (W : nat -> R) (j : nat) (t : R) : nat -> R := fun k => if Nat.eqb k j then t else W k.

Lemma upd_same W j : upd W j (W j) = W.
Proof.
  apply functional_extensionality. intros k. unfold upd. destruct (Nat.eqb_spec k j) as [->|]; reflexivity.
Qed.

Lemma upd_at W j t : upd W j t j = t.
Proof. unfold upd. now rewrite Nat.eqb_refl. Qed.

Lemma upd_other W j t i : i <> j -> upd W j t i = W i.
Proof. intros H. unfold upd. destruct (Nat.eqb_spec i j); [contradiction|reflexivity]. Qed.

Lemma sum_n_zero_loc (f : nat -> R) n : (forall k, (k <= n)%nat -> f k = 0) -> sum_n f n = 0.
Proof.
  induction n as [|n IH]; intros H.
  - rewrite sum_O. apply H. lia.
  - rewrite sum_Sn, IH by (intros; apply H; lia). rewrite (H (S n)) by lia. unfold plus; cbn. lra.
Qed.

Lemma sum_n_indicator (c : R) j n : (j <= n)%nat -> sum_n (fun i => if Nat.eqb i j then c else 0) n = c.
Proof.
  induction n as [|n IH]; intros Hj.
  - rewrite sum_O. assert (j = 0)%nat by lia. subst. reflexivity.
  - rewrite sum_Sn. destruct (Nat.eqb_spec (S n) j) as [E|E].
    + assert (Z : sum_n (fun i => if Nat.eqb i j then c else 0) n = 0).
      { apply sum_n_zero_loc. intros k Hk. destruct (Nat.eqb_spec k j); [lia|reflexivity]. }
      rewrite Z. unfold plus; cbn. lra.
    + rewrite IH by lia. unfold plus; cbn. lra.
Qed.

(** single-variable derivative rules used below (abstract inner function) *)
Lemma D_ln_plus (f : R -> R) x dj df : 0 < x -> is_derive f x df -> is_derive (fun t => ln t + f t - dj) x (df + / x).
Proof.
  intros Hx Hd. assert (Hex : ex_derive f x) by (eexists; exact Hd).
  assert (Hu : Derive (fun t : R => f t) x = df) by (apply is_derive_unique; exact Hd).
  auto_derive; [repeat split; auto|]. rewrite Hu. field. lra.
Qed.
Lemma D_const_plus (f : R -> R) x c dj df : is_derive f x df -> is_derive (fun t => c + f t - dj) x df.
Proof.
  intros Hd. assert (Hex : ex_derive f x) by (eexists; exact Hd).
  assert (Hu : Derive (fun t : R => f t) x = df) by (apply is_derive_unique; exact Hd).
  auto_derive; [repeat split; auto|]. rewrite Hu. ring.
Qed.
Lemma D_t_mul (f : R -> R) x df : is_derive f x df -> is_derive (fun t => t * (f t - 1)) x (x * df + (f x - 1)).
Proof.
  intros Hd. assert (Hex : ex_derive f x) by (eexists; exact Hd).
  assert (Hu : Derive (fun t : R => f t) x = df) by (apply is_derive_unique; exact Hd).
  auto_derive; [repeat split; auto|]. rewrite Hu. ring.
Qed.
Lemma D_c_mul (f : R -> R) x c df : is_derive f x df -> is_derive (fun t => c * (f t - 1)) x (c * df).
Proof.
  intros Hd. assert (Hex : ex_derive f x) by (eexists; exact Hd).
  assert (Hu : Derive (fun t : R => f t) x = df) by (apply is_derive_unique; exact Hd).
  auto_derive; [repeat split; auto|]. rewrite Hu. ring.
Qed.
Lemma D_c_mul0 (f : R -> R) x c df : is_derive f x df -> is_derive (fun t => c * f t) x (c * df).
Proof.
  intros Hd. assert (Hex : ex_derive f x) by (eexists; exact Hd).
  assert (Hu : Derive (fun t : R => f t) x = df) by (apply is_derive_unique; exact Hd).
  auto_derive; [repeat split; auto|]. rewrite Hu. ring.
Qed.
Lemma D_half_mul (h : R -> R) a dh : is_derive h a dh -> is_derive (fun a' => a' / 2 * h a') a (h a / 2 + a / 2 * dh).
Proof.
  intros Hd. assert (Hex : ex_derive h a) by (eexists; exact Hd).
  assert (Hu : Derive (fun t : R => h t) a = dh) by (apply is_derive_unique; exact Hd).
  auto_derive; [repeat split; auto|]. rewrite Hu. field.
Qed.
Lemma D_one_plus (f : R -> R) x df : is_derive f x df -> is_derive (fun t => 1 + f t) x df.
Proof.
  intros Hd. assert (Hex : ex_derive f x) by (eexists; exact Hd).
  assert (Hu : Derive (fun t : R => f t) x = df) by (apply is_derive_unique; exact Hd).
  auto_derive; [repeat split; auto|]. rewrite Hu. ring.
Qed.
Lemma D_sq4 a : is_derive (fun a' => a' ^ 2 / 4) a (a / 2).
Proof. auto_derive; [exact I|]. field. Qed.
Lemma D_comp_sq4 (f : R -> R) a df : is_derive f (a ^ 2 / 4) df -> is_derive (fun a' => f (a' ^ 2 / 4)) a (a / 2 * df).
Proof.
  intros Hd. replace (a / 2 * df) with (scal (a / 2) df) by (unfold scal; cbn; unfold mult; cbn; ring).
  apply (is_derive_comp f (fun a' => a' ^ 2 / 4)); [exact Hd|apply D_sq4].
Qed.

Section TmDeriv.
  Variable n : nat.
  Variable phi : nat -> (nat -> R) -> R.    (* ln phi_i as a function of the amounts *)
  Variable d : nat -> R.
  Variable dphi : nat -> nat -> R.
  Variable W : nat -> R.

  Definition g (V : nat -> R) (i : nat) : R := ln (V i) + phi i V - d i.
  Definition tmN (V : nat -> R) : R := 1 + sum_n (fun i => V i * (g V i - 1)) n.

  (** dphi i j is the partial derivative of ln phi_i with respect to amount j at W *)
  Hypothesis dphi_ok : forall i j, (i <= n)%nat -> (j <= n)%nat -> is_derive (fun t => phi i (upd W j t)) (W j) (dphi i j).
  (** Gibbs-Duhem *)
  Hypothesis gibbs_duhem : forall j, (j <= n)%nat -> sum_n (fun i => W i * dphi i j) n = 0.
  Hypothesis W_pos : forall i, (i <= n)%nat -> 0 < W i.

  (** partial derivative of g_i *)
  Lemma g_partial i j : (i <= n)%nat -> (j <= n)%nat ->
    is_derive (fun t => g (upd W j t) i) (W j) (dphi i j + (if Nat.eqb i j then / W j else 0)).
  Proof.
    intros Hi Hj. pose proof (dphi_ok i j Hi Hj) as Hd. unfold g.
    destruct (Nat.eqb_spec i j) as [->|Hne].
    - apply (is_derive_ext (fun t => ln t + phi j (upd W j t) - d j)).
      { intros t. now rewrite upd_at. }
      apply (D_ln_plus (fun t => phi j (upd W j t))); [apply W_pos; exact Hj|exact Hd].
    - apply (is_derive_ext (fun t => ln (W i) + phi i (upd W j t) - d i)).
      { intros t. now rewrite upd_other. }
      rewrite Rplus_0_r. apply (D_const_plus (fun t => phi i (upd W j t))). exact Hd.
  Qed.

  (** one term of the sum *)
  Lemma term_partial i j : (i <= n)%nat -> (j <= n)%nat ->
    is_derive (fun t => upd W j t i * (g (upd W j t) i - 1)) (W j) (W i * dphi i j + (if Nat.eqb i j then g W j else 0)).
  Proof.
    intros Hi Hj. pose proof (g_partial i j Hi Hj) as Hg.
    set (f := fun t => g (upd W j t) i) in *.
    assert (Ef : f (W j) = g W i) by (unfold f; now rewrite upd_same).
    destruct (Nat.eqb_spec i j) as [->|Hne].
    - apply (is_derive_ext (fun t => t * (f t - 1))).
      { intros t. now rewrite upd_at. }
      pose proof (W_pos j Hj).
      replace (W j * dphi j j + g W j) with (W j * (dphi j j + / W j) + (f (W j) - 1)) by (rewrite Ef; field; lra).
      apply D_t_mul. exact Hg.
    - apply (is_derive_ext (fun t => W i * (f t - 1))).
      { intros t. now rewrite upd_other. }
      replace (W i * dphi i j + 0) with (W i * (dphi i j + 0)) by ring.
      apply D_c_mul. exact Hg.
  Qed.

  (** [tm_gradient]: the partial derivative of the objective is  g_j = ln W_j + ln phi_j - d_j *)
  Theorem tm_partial j : (j <= n)%nat -> is_derive (fun t => tmN (upd W j t)) (W j) (g W j).
  Proof.
    intros Hj. unfold tmN.
    apply (D_one_plus (fun t => sum_n (fun i => upd W j t i * (g (upd W j t) i - 1)) n)).
    replace (g W j) with (sum_n (fun i => W i * dphi i j + (if Nat.eqb i j then g W j else 0)) n).
    - apply (is_derive_sum_n (fun i t => upd W j t i * (g (upd W j t) i - 1))). intros k Hk. apply term_partial; assumption.
    - rewrite (sum_n_plus (fun i => W i * dphi i j) (fun i => if Nat.eqb i j then g W j else 0)).
      rewrite gibbs_duhem, sum_n_indicator by assumption. unfold plus; cbn. lra.
  Qed.

  (** gradient in  alpha_j = 2 sqrt W_j  (W_j = alpha^2 / 4):  sqrt W_j * g_j  — `gradient` of line 168 *)
  Theorem newton_gradient j a : (j <= n)%nat -> 0 < a -> W j = a ^ 2 / 4 ->
    is_derive (fun a' => tmN (upd W j (a' ^ 2 / 4))) a (sqrt (W j) * g W j).
  Proof.
    intros Hj Ha HW. pose proof (tm_partial j Hj) as Ht. rewrite HW in Ht at 1.
    assert (Es : sqrt (W j) = a / 2).
    { rewrite HW. replace (a ^ 2 / 4) with ((a / 2) * (a / 2)) by field. apply sqrt_square. lra. }
    rewrite Es. apply (D_comp_sq4 (fun t => tmN (upd W j t))). exact Ht.
  Qed.

  (** the exact Hessian of the objective in the alpha variables *)
  Definition hess_true (i j : nat) : R := sqrt (W i) * sqrt (W j) * dphi i j + (if Nat.eqb i j then 1 + g W j / 2 else 0).
  (** the Hessian as coded (lines 163-178 and 192 with eta_h = 1):  hesse_ij * sqrt y_i sqrt y_j,  hesse_ii += g_i,  + eta_h * 1 *)
  Definition hess_code (eta : R) (i j : nat) : R := sqrt (W i) * sqrt (W j) * dphi i j + (if Nat.eqb i j then eta + g W j else 0).

  (** [newton_grad_hess]: derivative of the gradient component i with respect to alpha_j *)
  Theorem newton_hessian i j a : (i <= n)%nat -> (j <= n)%nat -> 0 < a -> W j = a ^ 2 / 4 ->
    is_derive (fun a' => sqrt (upd W j (a' ^ 2 / 4) i) * g (upd W j (a' ^ 2 / 4)) i) a (hess_true i j).
  Proof.
    intros Hi Hj Ha HW. pose proof (g_partial i j Hi Hj) as Hg. rewrite HW in Hg at 1.
    assert (Es : sqrt (W j) = a / 2).
    { rewrite HW. replace (a ^ 2 / 4) with ((a / 2) * (a / 2)) by field. apply sqrt_square. lra. }
    set (f := fun t => g (upd W j t) i) in *.
    pose proof (D_comp_sq4 f a _ Hg) as Hc.
    set (h := fun a' => f (a' ^ 2 / 4)) in *.
    assert (Eh : h a = g W i). { unfold h, f. rewrite <- HW. now rewrite upd_same. }
    unfold hess_true. destruct (Nat.eqb_spec i j) as [->|Hne].
    - apply (is_derive_ext_loc (fun a' => (a' / 2) * h a')).
      { exists (mkposreal a Ha). intros y Hy. unfold ball in Hy; cbn in Hy. unfold AbsRing_ball, abs, minus, plus, opp in Hy; cbn in Hy.
        apply Rabs_def2 in Hy. rewrite upd_at.
        assert (E : sqrt (y ^ 2 / 4) = y / 2).
        { replace (y ^ 2 / 4) with ((y / 2) * (y / 2)) by field. apply sqrt_square. lra. }
        rewrite E. reflexivity. }
      replace (sqrt (W j) * sqrt (W j) * dphi j j + (1 + g W j / 2)) with (h a / 2 + a / 2 * (a / 2 * (dphi j j + / W j))).
      + apply D_half_mul. exact Hc.
      + rewrite Eh, Es, HW. field. lra.
    - apply (is_derive_ext (fun a' => sqrt (W i) * h a')).
      { intros t. now rewrite upd_other. }
      replace (sqrt (W i) * sqrt (W j) * dphi i j + 0) with (sqrt (W i) * (a / 2 * (dphi i j + 0))) by (rewrite Es; ring).
      apply D_c_mul0. exact Hc.
  Qed.

  (** the coded Hessian (eta_h = 1) differs from the exact one by  delta_ij g_i / 2: the diagonal term of line 176 is
      g_i where the second derivative has g_i / 2 *)
  Theorem hess_code_vs_true i j : hess_code 1 i j = hess_true i j + (if Nat.eqb i j then g W j / 2 else 0).
  Proof. unfold hess_code, hess_true. destruct (Nat.eqb i j); field. Qed.

  (** ... so both agree at every stationary point (g = 0), where the Newton iteration is heading *)
  Corollary hess_code_at_stationary i j : g W j = 0 -> hess_code 1 i j = hess_true i j.
  Proof. intros H. rewrite hess_code_vs_true, H. destruct (Nat.eqb i j); field. Qed.
End TmDeriv.

(** a fixed point of the Newton update is a stationary point whatever (invertible or not) matrix is used:
    delta = 0  solves  H delta = gradient  only if the gradient vanishes; with sqrt W_i > 0 this is g_i = 0,
    i.e.  W_i = exp (d_i - ln phi_i(W)),  the fixed point of direct substitution *)
Lemma newton_fixed_point_stationary (sq gi : R) : 0 < sq -> sq * gi = 0 -> gi = 0.
Proof. intros H E. apply Rmult_integral in E. destruct E; lra. Qed.

Lemma g_zero_iff_substitution (w p d : R) : 0 < w -> (ln w + p - d = 0 <-> w = exp (d - p)).
Proof.
  intros Hw. split; intros H.
  - replace (d - p) with (ln w) by lra. now rewrite exp_ln.
  - rewrite H, ln_exp. ring.
Qed.

(** non-vacuity: one component, ln phi constant (ideal gas): hypotheses hold with dphi = 0 *)
Example tm_partial_ideal (W0 : R) : 0 < W0 ->
  is_derive (fun t => tmN 0 (fun _ _ => 0) (fun _ => 0) (upd (fun _ => W0) 0 t)) W0 (g (fun _ _ => 0) (fun _ => 0) (fun _ => W0) 0%nat).
Proof.
  intros H. apply (tm_partial 0 (fun _ _ => 0) (fun _ => 0) (fun _ _ => 0) (fun _ => W0)).
  - intros. cbn beta. auto_derive; [exact I|ring].
  - intros. rewrite sum_O. apply Rmult_0_r.
  - intros. exact H.
  - lia.
Qed.
