(** * VirialBox: everything needed to instantiate [virial_program] on a regenerated program by computation:
    well-scopedness (boolean), one interval evaluation of the first-derivative program over the density box,
    point evaluations of the second-derivative program and of g(0), g'(0). *)
From Coq Require Import Reals List ZArith Lia Lra.
From Interval Require Import Float.Basic Interval.Interval Eval.Prog Eval.Tree Real.Xreal Eval.Eval.
From FeosVerif Require Import ProgSem ProgSemBig AD Virial VirialProg BoxBig.
Import ListNotations.
Local Open Scope R_scope.

Section Inst.
Variables (P : list term) (T eps : Z * Z) (cs : list (Z * Z)) (prec : Z).
Let n := (2 + length cs)%nat.
Let st := T :: (0, 0)%Z :: cs.
Let u := unitZ n 1.
Let z := repeat (0, 0)%Z n.
Let D1 := tan_outs P n [0%nat].
Let D2 := tan_outs D1 (2 * n)%nat [0%nat].

(** the boolean obligations, all closed by [vm_compute] in the generated files *)
Definition virial_obligations : bool :=
  wscoped P n && wscoped D1 (2 * n)%nat
  && is_bndB (nth 0 (evalIB_box prec D1 (rho_box T eps cs)) IB.nai)
  && is_bndB (nth 0 (evalIB prec D2 ((st ++ u) ++ (u ++ z))) IB.nai)
  && is_zeroB (nth 0 (evalIB prec P st) IB.nai)
  && is_zeroB (nth 0 (evalIB prec D1 (st ++ u)) IB.nai)
  && Z.ltb 0 (fst eps).

Lemma inputs_R_app l1 l2 : inputs_R (l1 ++ l2) = inputs_R l1 ++ inputs_R l2.
Proof. unfold inputs_R. apply map_app. Qed.

Lemma inputs_R_zeros k : inputs_R (repeat (0, 0)%Z k) = map (fun _ => 0) (inputs_R (unitZ k 1)).
Proof.
  unfold inputs_R, unitZ. rewrite !map_map. generalize 0%nat.
  induction k as [|k IH]; intros j; cbn; [reflexivity|]. f_equal; [unfold dy_R; cbn; ring|apply IH].
Qed.

Theorem virial_from_obligations : virial_obligations = true ->
  forall x, 0 < x -> exists delta, 0 < delta /\
    forall rho, rho <> 0 -> Rabs rho < delta ->
      Rabs ((rho * vp_g1 P n (inputs_R st) (inputs_R u) rho - vp_g P (inputs_R st) (inputs_R u) rho) / rho ^ 2
            - vp_c P n (inputs_R st) (inputs_R u) / 2) < x.
Proof.
  unfold virial_obligations. intros H.
  repeat (apply andb_prop in H; destruct H as [H ?]).
  match goal with Hz : Z.ltb 0 (fst eps) = true |- _ => apply Z.ltb_lt in Hz; rename Hz into Heps end.
  set (a := inputs_R st). set (e := inputs_R u).
  assert (Hla : length a = n) by (unfold a, st, inputs_R, n; cbn; now rewrite map_length).
  assert (Hle : length e = n) by (unfold e, u, inputs_R, unitZ; now rewrite !map_length, seq_length).
  assert (Hd0 : 0 < dy_R eps).
  { unfold dy_R. apply Rmult_lt_0_compat; [now apply IZR_lt|apply powerRZ_lt; lra]. }
  apply (virial_program P n a e (dy_R eps) Hla Hle).
  - unfold n. lia.
  - assumption.
  - assumption.
  - unfold n. lia.
  - exact Hd0.
  - (* the first derivative program is defined on the whole box *)
    intros t Ht. unfold a, e, st, u, n.
    eapply (evalIB_box_wf prec _ (rho_box T eps cs)); [apply rho_box_spec; lra|].
    fold n. fold D1. assumption.
  - (* second derivative program defined at the point *)
    unfold a, e, u. rewrite <- inputs_R_zeros. fold z. fold u.
    rewrite <- !inputs_R_app. fold D1 D2.
    apply (evalIB_wf prec D2 ((st ++ u) ++ (u ++ z)) 0). assumption.
  - (* g(0) = 0 *)
    unfold vp_g.
    assert (Hl0 : line_pt a e 0 = a).
    { assert (G : forall (l m : list R), length l = length m -> line_pt l m 0 = l).
      { induction l as [|y l IH]; intros [|w m] Hlm; cbn in *; try reflexivity; try discriminate.
        unfold line_pt in *. cbn. f_equal; [ring|]. apply IH. lia. }
      apply G. lia. }
    rewrite Hl0. unfold a.
    assert (Hz : is_zeroB (nth 0 (evalIB prec P st) IB.nai) = true) by assumption.
    pose proof (is_zeroB_correct _ _ Hz (evalIB_correct prec P st 0)) as Hv. unfold out_ext in Hv.
    rewrite Hv. reflexivity.
  - (* g'(0) = 0 *)
    unfold vp_g1.
    assert (Hl0 : line_pt a e 0 = a).
    { assert (G : forall (l m : list R), length l = length m -> line_pt l m 0 = l).
      { induction l as [|y l IH]; intros [|w m] Hlm; cbn in *; try reflexivity; try discriminate.
        unfold line_pt in *. cbn. f_equal; [ring|]. apply IH. lia. }
      apply G. lia. }
    rewrite Hl0. unfold a, e. rewrite <- inputs_R_app. fold D1.
    assert (Hz : is_zeroB (nth 0 (evalIB prec D1 (st ++ u)) IB.nai) = true) by assumption.
    pose proof (is_zeroB_correct _ _ Hz (evalIB_correct prec D1 (st ++ u) 0)) as Hv. unfold out_ext in Hv.
    rewrite Hv. reflexivity.
Qed.
End Inst.
