(** C07 — tangent-plane-distance algebra behind [State::stability_analysis]
    (feos-core/src/phase_equilibria/stability_analysis.rs), read as exact real formulas.

    One entry per component:  (W_i, P_i, d_i)
      W_i  amount (mole number) of the trial phase,
      P_i  the value of  ln phi_i  the formula uses,
      d_i = ln z_i + ln phi_i(z)  of the analysed state.
    [tm]   modified tangent-plane distance   1 + sum W_i (ln W_i + P_i - d_i - 1)   (the objective of the code)
    [tpd]  tangent-plane distance            sum w_i (ln w_i + P_i - d_i)           (the quantity of the property)
    The successive-substitution map is  W_i <- exp (d_i - P_i).

    The code evaluates its objective with the fugacity coefficients of the PREVIOUS iterate ("frozen" P):
      direct substitution:  y = exp (d - ln phi(trial));  tpd = 1 - sum y;     trial <- y      (lines 111-122)
      Newton step:          tpd = 1 + sum y (ln y + lnphi_old - d - 1);          trial <- y      (line 215)
    so both values are [tm] of the list  (y_i, ln phi_i(previous iterate), d_i). *)
From Coq Require Import Reals List Lra Lia ZArith QArith Qabs Qminmax Qround Bool Psatz.
From Interval Require Import Tactic.
From FeosVerif Require Import ProgSem.
Import ListNotations.
Open Scope R_scope.

Definition comp : Type := (R * R * R)%type.
Definition cw (c : comp) : R := fst (fst c).
Definition cp (c : comp) : R := snd (fst c).
Definition cd (c : comp) : R := snd c.

Lemma Rabs_le_inv' x a : Rabs x <= a -> - a <= x <= a.
Proof. intros H. unfold Rabs in H. destruct (Rcase_abs x); lra. Qed.

Fixpoint rsum (l : list R) : R := match l with [] => 0 | a :: t => a + rsum t end.

(** g_i = ln W_i + P_i - d_i : the partial derivative of [tm] (see TpdDerivC07.v) *)
Definition gent (c : comp) : R := ln (cw c) + cp c - cd c.
Definition amounts (l : list comp) : list R := map cw l.
Definition total (l : list comp) : R := rsum (amounts l).
Definition tm (l : list comp) : R := 1 + rsum (map (fun c => cw c * (gent c - 1)) l).
Definition tpd (l : list comp) : R := rsum (map (fun c => cw c * gent c) l).
(** the composition  w = W / S *)
Definition scale (S : R) (l : list comp) : list comp := map (fun c => (cw c / S, cp c, cd c)) l.
Definition normalized (l : list comp) : list comp := scale (total l) l.

Definition positive (l : list comp) : Prop := Forall (fun c => 0 < cw c) l.
(** fixed point of the substitution map with the P of the entries *)
Definition stationary (l : list comp) : Prop := Forall (fun c => cw c = exp (cd c - cp c)) l.

Lemma total_cons c l : total (c :: l) = cw c + total l.
Proof. reflexivity. Qed.

Lemma total_pos l : positive l -> l <> [] -> 0 < total l.
Proof.
  intros Hp Hne. destruct l as [|c l]; [congruence|]. clear Hne.
  revert c Hp. induction l as [|c' l IH]; intros c Hp.
  - inversion Hp; subst. rewrite total_cons. cbn. lra.
  - inversion Hp as [|? ? Hc Hl]; subst. rewrite total_cons. specialize (IH c' Hl). lra.
Qed.

Lemma stationary_positive l : stationary l -> positive l.
Proof. unfold stationary, positive. intros H. eapply Forall_impl; [|exact H]. cbn. intros c ->. apply exp_pos. Qed.

(** * the value the code accepts on *)
Lemma tm_sum l : tm l = 1 + tpd l - total l.
Proof.
  unfold tm, tpd, total, amounts. induction l as [|c l IH]; cbn [map rsum]; [lra|].
  assert (E : forall a b a' b' t : R, 1 + a = 1 + a' - t -> b = b' - cw c -> 1 + (b + a) = 1 + (b' + a') - (cw c + t)) by (intros; lra).
  apply E; [exact IH|ring].
Qed.

Lemma tpd_stationary l : stationary l -> tpd l = 0.
Proof.
  unfold tpd. induction 1 as [|c l Hc _ IH]; cbn [map rsum]; [reflexivity|].
  rewrite IH. unfold gent. rewrite Hc at 2. rewrite ln_exp. ring.
Qed.

(** [tm_stationary]: with  W_i = exp (d_i - P_i)  (the substitution step the code performs, P frozen or not),
    the objective is  1 - sum W — the value `tpd = 1.0 - y.sum()` of line 113. *)
Theorem tm_stationary l : stationary l -> tm l = 1 - total l.
Proof. intros H. rewrite tm_sum, tpd_stationary by exact H. ring. Qed.

(** * from the objective in amounts to the tangent-plane distance of the composition *)
Lemma ln_quot a S : 0 < a -> 0 < S -> ln (a / S) = ln a - ln S.
Proof.
  intros Ha HS. unfold Rdiv. rewrite ln_mult by (try assumption; apply Rinv_0_lt_compat; assumption).
  rewrite ln_Rinv by assumption. ring.
Qed.

Lemma scale_entry S c : 0 < S -> 0 < cw c ->
  cw (cw c / S, cp c, cd c) * gent (cw c / S, cp c, cd c) = cw c * gent c / S - cw c / S * ln S.
Proof.
  intros HS Hc. unfold gent. change (cw (cw c / S, cp c, cd c)) with (cw c / S).
  change (cp (cw c / S, cp c, cd c)) with (cp c). change (cd (cw c / S, cp c, cd c)) with (cd c).
  rewrite ln_quot by assumption. field. lra.
Qed.

Lemma tpd_scale S l : 0 < S -> positive l -> tpd (scale S l) = tpd l / S - (total l / S) * ln S.
Proof.
  intros HS Hp. unfold tpd, total, amounts, scale. induction Hp as [|c l Hc _ IH]; cbn [map rsum]; [field; lra|].
  rewrite IH, scale_entry by assumption. field. lra.
Qed.

(** general identity (no stationarity needed):  tpd (W/S) = (tm W - 1 + S)/S - ln S  with S = sum W *)
Theorem tpd_normalized l : positive l -> l <> [] -> tpd (normalized l) = (tm l - 1 + total l) / total l - ln (total l).
Proof.
  intros Hp Hne. pose proof (total_pos l Hp Hne) as HS. unfold normalized.
  rewrite tpd_scale by assumption. rewrite tm_sum. field. lra.
Qed.

Lemma tm_of_tpd l : positive l -> l <> [] -> tm l = 1 + total l * (tpd (normalized l) + ln (total l) - 1).
Proof. intros Hp Hne. pose proof (total_pos l Hp Hne). rewrite tpd_normalized by assumption. field. lra. Qed.

(** [tm_tpd_sign]: at a stationary point  tpd (W / sum W) = - ln (sum W),  hence  tm < 0 <-> tpd < 0. *)
Theorem tpd_at_stationary l : stationary l -> l <> [] -> tpd (normalized l) = - ln (total l).
Proof.
  intros Hs Hne. pose proof (stationary_positive l Hs) as Hp. pose proof (total_pos l Hp Hne).
  rewrite tpd_normalized, tm_stationary by assumption. field. lra.
Qed.

Theorem tm_tpd_sign l : stationary l -> l <> [] -> (tm l < 0 <-> tpd (normalized l) < 0).
Proof.
  intros Hs Hne. pose proof (stationary_positive l Hs) as Hp. pose proof (total_pos l Hp Hne) as HS.
  rewrite tpd_at_stationary, tm_stationary by assumption. split; intros H.
  - assert (H1 : 1 < total l) by lra. apply ln_increasing in H1; [|lra]. rewrite ln_1 in H1. lra.
  - assert (H1 : 0 < ln (total l)) by lra. destruct (Rlt_dec 1 (total l)); [lra|].
    assert (ln (total l) <= ln 1) by (destruct (Req_dec (total l) 1) as [->|]; [lra|left; apply ln_increasing; lra]).
    rewrite ln_1 in *. lra.
Qed.

(** * away from stationarity:  tm >= 1 - exp (- tpd)  for every positive W *)
Lemma xlnx_ge r : 0 < r -> 0 <= r * ln r - r + 1.
Proof.
  intros Hr. pose proof (exp_ineq1_le (- ln r)) as H. rewrite exp_Ropp, exp_ln in H by assumption.
  assert (H1 : r * (1 + - ln r) <= r * / r) by (apply Rmult_le_compat_l; lra).
  rewrite Rinv_r in H1 by lra. lra.
Qed.

Theorem tm_lower_bound l : positive l -> l <> [] -> 1 - exp (- tpd (normalized l)) <= tm l.
Proof.
  intros Hp Hne. pose proof (total_pos l Hp Hne) as HS. rewrite (tm_of_tpd l) by assumption.
  set (t := tpd (normalized l)). set (S := total l) in *.
  (* S = exp (-t) * r *)
  set (r := S * exp t). assert (Hr : 0 < r) by (apply Rmult_lt_0_compat; [assumption|apply exp_pos]).
  assert (ES : S = exp (- t) * r). { unfold r. rewrite exp_Ropp. field. apply Rgt_not_eq, exp_pos. }
  assert (El : ln S = - t + ln r). { rewrite ES at 1. rewrite ln_mult by (try apply exp_pos; assumption). now rewrite ln_exp. }
  rewrite El. rewrite ES at 1. pose proof (xlnx_ge r Hr). pose proof (exp_pos (- t)).
  replace (1 + exp (- t) * r * (t + (- t + ln r) - 1)) with (1 - exp (- t) + exp (- t) * (r * ln r - r + 1)) by ring.
  nra.
Qed.

(** a negative objective in amounts gives a negative tangent-plane distance of the normalised composition,
    for the SAME fugacity coefficients, with the explicit size  tpd <= - ln (1 - tm) *)
Theorem tm_neg_tpd_bound l : positive l -> l <> [] -> tm l < 1 -> tpd (normalized l) <= - ln (1 - tm l).
Proof.
  intros Hp Hne H1. pose proof (tm_lower_bound l Hp Hne) as H.
  assert (H2 : 1 - tm l <= exp (- tpd (normalized l))) by lra.
  assert (H3 : ln (1 - tm l) <= - tpd (normalized l)).
  { rewrite <- (ln_exp (- tpd (normalized l))). destruct H2 as [H2|H2]; [left; apply ln_increasing; lra|rewrite H2; lra]. }
  lra.
Qed.

Theorem tm_neg_tpd_neg l : positive l -> l <> [] -> tm l < 0 -> tpd (normalized l) < 0.
Proof.
  intros Hp Hne H. pose proof (tm_neg_tpd_bound l Hp Hne ltac:(lra)).
  assert (0 < ln (1 - tm l)) by (rewrite <- ln_1; apply ln_increasing; lra). lra.
Qed.

(** * frozen versus re-evaluated fugacity coefficients: the first-order bound *)
(** [drift delta lo lr]: same amounts and d, the P entries differ by at most delta
    (lo: the list the code evaluated, with ln phi of the previous iterate;  lr: with ln phi of the returned state) *)
Definition drift (delta : R) (lo lr : list comp) : Prop :=
  Forall2 (fun a b => cw a = cw b /\ cd a = cd b /\ Rabs (cp b - cp a) <= delta) lo lr.

Lemma drift_total delta lo lr : drift delta lo lr -> total lr = total lo.
Proof. induction 1 as [|a b lo lr (Hw & _) _ IH]; [reflexivity|]. rewrite !total_cons, IH, Hw. reflexivity. Qed.

Lemma drift_positive delta lo lr : drift delta lo lr -> positive lo -> positive lr.
Proof.
  induction 1 as [|a b lo lr (Hw & _) _ IH]; intros Hp; [constructor|].
  inversion Hp as [|? ? Ha Hl]; subst. constructor; [rewrite <- Hw; exact Ha|exact (IH Hl)].
Qed.

Lemma drift_tpd delta lo lr : drift delta lo lr -> positive lo -> tpd lr <= tpd lo + delta * total lo.
Proof.
  unfold tpd. induction 1 as [|a b lo lr (Hw & Hd & Hp) _ IH]; intros Hpos; cbn [map rsum]; [unfold total; cbn; lra|].
  inversion Hpos as [|? ? Ha Hl]; subst. specialize (IH Hl). rewrite total_cons.
  unfold gent in *. rewrite <- Hw, <- Hd. apply Rabs_le_inv' in Hp.
  assert (cw a * (ln (cw a) + cp b - cd a) <= cw a * (ln (cw a) + cp a - cd a) + delta * cw a) by nra.
  lra.
Qed.

Lemma drift_scale S delta lo lr : drift delta lo lr -> drift delta (scale S lo) (scale S lr).
Proof.
  unfold scale. induction 1 as [|a b lo lr (Hw & Hd & Hp) _ IH]; cbn [map]; constructor; [|exact IH].
  cbn [cw cp cd fst snd]. rewrite Hw. auto.
Qed.

Lemma total_scale S l : S <> 0 -> total (scale S l) = total l / S.
Proof.
  intros HS. unfold total, amounts, scale. induction l as [|c l IH]; cbn [map rsum]; [field; assumption|].
  rewrite IH. cbn [cw fst]. field. assumption.
Qed.

Lemma positive_scale S l : 0 < S -> positive l -> positive (scale S l).
Proof.
  intros HS. unfold positive, scale. induction 1 as [|c l Hc _ IH]; cbn [map]; constructor; [|exact IH].
  cbn [cw fst]. apply Rdiv_lt_0_compat; assumption.
Qed.

(** [accept_recomputed_bound] — the "recomputed independently" clause away from exact stationarity.
    The code accepted the value  tm lo  (fugacity coefficients of the previous iterate); the tangent-plane distance of
    the returned composition with its OWN fugacity coefficients (list lr) satisfies
        tpd <= - ln (1 - tm_code) + delta,     delta = max_i |ln phi_i(returned) - ln phi_i(previous)|.  *)
Theorem accept_recomputed_bound delta lo lr :
  drift delta lo lr -> positive lo -> lo <> [] -> tm lo < 1 ->
  tpd (normalized lr) <= - ln (1 - tm lo) + delta.
Proof.
  intros Hd Hp Hne H1. pose proof (total_pos lo Hp Hne) as HS.
  unfold normalized. rewrite (drift_total _ _ _ Hd).
  pose proof (drift_tpd delta _ _ (drift_scale (total lo) _ _ _ Hd) (positive_scale _ _ HS Hp)) as H.
  rewrite total_scale in H by lra. replace (total lo / total lo) with 1 in H by (field; lra).
  pose proof (tm_neg_tpd_bound lo Hp Hne H1) as H2. unfold normalized in H2. lra.
Qed.

(** with the acceptance threshold of the code: accepted value below -theta and drift below ln (1 + theta)
    give a strictly negative recomputed tangent-plane distance *)
Corollary accept_sound_small_drift theta delta lo lr :
  drift delta lo lr -> positive lo -> lo <> [] -> 0 < theta -> tm lo < - theta -> delta < ln (1 + theta) ->
  tpd (normalized lr) < 0.
Proof.
  intros Hd Hp Hne Hth Ht Hdl. pose proof (accept_recomputed_bound delta lo lr Hd Hp Hne ltac:(lra)) as H.
  assert (ln (1 + theta) < ln (1 - tm lo)) by (apply ln_increasing; lra). lra.
Qed.

(** Lipschitz form: if ln phi is L-Lipschitz in the 1-norm of the composition, delta <= L * err where
    err = || y / sum y - w_previous ||_1 is exactly the `error` the direct-substitution branch tests (line 114) *)
Definition norm1_diff (a b : list R) : R := rsum (map (fun p => Rabs (fst p - snd p)) (combine a b)).

Section Lipschitz.
  Variable lnphi : list R -> list R.
  Variable L : R.
  Hypothesis lnphi_lipschitz : forall u v, Forall2 (fun a b => Rabs (b - a) <= L * norm1_diff v u) (lnphi u) (lnphi v).

  Definition with_lnphi (W d p : list R) : list comp := combine (combine W p) d.

  Lemma drift_of_lipschitz W d u v :
    length W = length (lnphi u) -> length d = length W ->
    drift (L * norm1_diff v u) (with_lnphi W d (lnphi u)) (with_lnphi W d (lnphi v)).
  Proof.
    intros H1 H2. pose proof (lnphi_lipschitz u v) as HF. unfold with_lnphi, drift.
    revert W d H1 H2. induction HF as [|a b pu pv Hab _ IH]; intros W d H1 H2.
    - destruct W; [|discriminate]. destruct d; [|discriminate]. constructor.
    - destruct W as [|w W]; [discriminate|]. destruct d as [|d0 d]; [discriminate|]. cbn [combine]. constructor.
      + cbn. auto.
      + apply IH; cbn in *; lia.
  Qed.

  (** [ss_accept_bound]: the explicit first-order bound in the substitution error the code tests *)
  Theorem ss_accept_bound Y d u v err :
    length Y = length (lnphi u) -> length d = length Y ->
    positive (with_lnphi Y d (lnphi u)) -> Y <> [] -> lnphi u <> [] ->
    tm (with_lnphi Y d (lnphi u)) < 1 -> 0 <= L -> norm1_diff v u <= err ->
    tpd (normalized (with_lnphi Y d (lnphi v))) <= - ln (1 - tm (with_lnphi Y d (lnphi u))) + L * err.
  Proof.
    intros H1 H2 Hp HY Hu Ht HL He.
    assert (Hne : with_lnphi Y d (lnphi u) <> []).
    { unfold with_lnphi. destruct Y; [congruence|]. destruct (lnphi u); [congruence|]. destruct d; [discriminate|]. discriminate. }
    pose proof (accept_recomputed_bound _ _ _ (drift_of_lipschitz Y d u v H1 H2) Hp Hne Ht) as H.
    assert (L * norm1_diff v u <= L * err) by (apply Rmult_le_compat_l; assumption). lra.
  Qed.
End Lipschitz.

(** * converged equilibrium phases sit on the tangent plane *)
(** if every fugacity of the trial composition matches the analysed state within eps (what a converged flash /
    bubble / dew calculation delivers, see BubbleDewC05.flash_res_bound) the tangent-plane distance is within eps *)
Theorem tpd_equilibrium_bound eps l :
  Forall (fun c => 0 <= cw c /\ Rabs (gent c) <= eps) l -> Rabs (tpd l) <= eps * total l.
Proof.
  intros H. assert (H2 : - (eps * total l) <= tpd l <= eps * total l).
  { unfold tpd, total, amounts. induction H as [|c l (Hw & Hg) _ IH]; cbn [map rsum]; [lra|].
    apply Rabs_le_inv' in Hg. nra. }
  apply Rabs_le. lra.
Qed.

Corollary equilibrium_phase_not_accepted eps l :
  Forall (fun c => 0 <= cw c /\ Rabs (gent c) <= eps) l -> total l = 1 -> eps < 1e-8 -> - 1e-8 < tpd l.
Proof.
  intros H Ht He. pose proof (tpd_equilibrium_bound eps l H) as Hb. rewrite Ht, Rmult_1_r in Hb.
  apply Rabs_le_inv' in Hb. lra.
Qed.

(** * list interface used by the generated goals *)
Fixpoint zip3 (a b c : list R) : list comp :=
  match a, b, c with
  | x :: a', y :: b', z :: c' => (x, y, z) :: zip3 a' b' c'
  | _, _, _ => []
  end.
Fixpoint map2 (f : R -> R -> R) (a b : list R) : list R :=
  match a, b with x :: a', y :: b' => f x y :: map2 f a' b' | _, _ => [] end.

(** d_i = ln z_i + ln phi_i(z)  (line 103) *)
Definition dvec (z pz : list R) : list R := map2 (fun z p => ln z + p) z pz.
(** the quantity of the property, from mole fractions and fugacity coefficients of the two states *)
Definition tpd_of (w pw z pz : list R) : R := tpd (zip3 w pw (dvec z pz)).
(** the objective of the code *)
Definition tm_of (W P d : list R) : R := tm (zip3 W P d).
(** successive substitution (line 111) *)
Definition ss_map (d p : list R) : list R := map2 (fun d p => exp (d - p)) d p.
Definition ss_tpd (d p : list R) : R := 1 - rsum (ss_map d p).
(** error of the direct-substitution branch (line 114) *)
Definition ss_err (d p w : list R) : R :=
  let y := ss_map d p in let s := rsum y in rsum (map2 (fun y w => Rabs (y / s - w)) y w).

(** * trial phases of [define_trial_state] (lines 63-92) *)
(** X_DOMINANT *)
Definition x_dominant : R := 99 / 100.
Fixpoint trial_liquid_from (i k : nat) (f : R) (z : list R) : list R :=
  match z with
  | [] => []
  | zi :: z' => (if Nat.eqb i k then x_dominant else zi * f) :: trial_liquid_from (S i) k f z'
  end.
(** nearly pure component k (created LIQUID-like): x_k = 0.99, the others share 0.01 in the proportions of the feed *)
Definition trial_liquid (z : list R) (k : nat) : list R :=
  trial_liquid_from 0 k ((1 - x_dominant) / (rsum z - nth k z 0)) z.
(** ideal-vapour estimate (created VAPOUR-like): x_i proportional to z_i phi_i(z) *)
Definition trial_vapor_amounts (z pz : list R) : list R := map2 (fun z p => exp p * z) z pz.
Definition trial_vapor (z pz : list R) : list R :=
  let y := trial_vapor_amounts z pz in map (fun v => v / rsum y) y.

(** the vapour-like trial is one substitution step from an ideal gas (ln phi = 0): W = exp (d - 0) *)
Lemma trial_vapor_is_substitution z pz :
  Forall (fun v => 0 < v) z -> length pz = length z ->
  trial_vapor_amounts z pz = ss_map (dvec z pz) (map (fun _ => 0) z).
Proof.
  intros Hz. revert pz. induction Hz as [|z0 z Hz0 _ IH]; intros [|p0 pz] Hl; try discriminate; [reflexivity|].
  cbn [trial_vapor_amounts ss_map dvec map2 map]. f_equal.
  - replace (ln z0 + p0 - 0) with (p0 + ln z0) by ring. rewrite exp_plus, exp_ln by assumption. reflexivity.
  - apply IH. cbn in Hl. lia.
Qed.

Lemma trial_liquid_from_sum f k z : forall i,
  rsum (trial_liquid_from i k f z) =
  if andb (Nat.leb i k) (Nat.ltb k (i + length z)) then x_dominant + f * (rsum z - nth (k - i) z 0) else f * rsum z.
Proof.
  induction z as [|z0 z IH]; intros i.
  - cbn [trial_liquid_from rsum length]. rewrite Nat.add_0_r.
    destruct (Nat.leb i k) eqn:E1; destruct (Nat.ltb k i) eqn:E2; cbn [andb]; try ring.
    exfalso. apply Nat.leb_le in E1. apply Nat.ltb_lt in E2. lia.
  - cbn [trial_liquid_from rsum length]. rewrite IH. destruct (Nat.eqb_spec i k) as [->|Hne].
    + replace (k - k)%nat with 0%nat by lia. cbn [nth].
      rewrite Nat.leb_refl. destruct (Nat.leb_spec (S k) k); [lia|]. cbn [andb].
      destruct (Nat.ltb_spec k (k + S (length z))); [|lia]. ring.
    + destruct (Nat.leb_spec i k), (Nat.leb_spec (S i) k); try lia; cbn [andb].
      * replace (i + S (length z))%nat with (S i + length z)%nat by lia.
        destruct (Nat.ltb_spec k (S i + length z)).
        -- replace (k - i)%nat with (S (k - S i)) by lia. cbn [nth]. ring.
        -- ring.
      * ring.
Qed.

(** the nearly pure trial composition is normalised *)
Lemma trial_liquid_normalized z k : (k < length z)%nat -> rsum z - nth k z 0 <> 0 -> rsum (trial_liquid z k) = 1.
Proof.
  intros Hk Hne. unfold trial_liquid. rewrite trial_liquid_from_sum. cbn [Nat.leb].
  destruct (Nat.ltb_spec k (0 + length z)); [|lia]. cbn [andb]. rewrite Nat.sub_0_r. unfold x_dominant. field. exact Hne.
Qed.

Lemma ss_map_stationary d p : length d = length p -> stationary (zip3 (ss_map d p) p d).
Proof.
  revert p. induction d as [|d0 d IH]; intros [|p0 p] H; try discriminate; cbn; constructor.
  - reflexivity.
  - apply IH. cbn in H. lia.
Qed.

Lemma total_zip3_ss d p : length d = length p -> total (zip3 (ss_map d p) p d) = rsum (ss_map d p).
Proof.
  revert p. induction d as [|d0 d IH]; intros [|p0 p] H; try discriminate; [reflexivity|].
  cbn [ss_map map2 zip3]. rewrite total_cons. cbn [cw fst rsum]. f_equal. apply IH. cbn in H. lia.
Qed.

(** the code's `tpd = 1 - y.sum()` IS the objective at the new amounts with the old fugacity coefficients *)
Theorem ss_tpd_is_tm d p : length d = length p -> ss_tpd d p = tm_of (ss_map d p) p d.
Proof.
  intros H. unfold ss_tpd, tm_of. rewrite tm_stationary by (apply ss_map_stationary; exact H).
  now rewrite total_zip3_ss.
Qed.

(** * Newton step (stability_newton_step): gradient, Hessian as coded, step equation *)
(** gradient in alpha_i = 2 sqrt W_i :  sqrt W_i * (ln W_i + ln phi_i - d_i)  (line 168) *)
Definition newton_grad (W P d : list R) : list R := map (fun c => sqrt (cw c) * gent c) (zip3 W P d).
(** returned error: sum |gradient_i| (line 231) *)
Definition newton_err (W P d : list R) : R := rsum (map Rabs (newton_grad W P d)).
(** Hessian row i as coded (lines 170-178, 192):
      sqrt W_i sqrt W_j dlnphi_i/dn_j + delta_ij (g_i + eta)      — note: g_i, not g_i / 2 (see TpdDerivC07.hess_code_vs_true) *)
Fixpoint hess_row_from (j : nat) (eta sqi gi : R) (i : nat) (sqW drow : list R) : list R :=
  match sqW, drow with
  | sj :: sq', dij :: dr' => (sqi * sj * dij + (if Nat.eqb i j then gi + eta else 0)) :: hess_row_from (S j) eta sqi gi i sq' dr'
  | _, _ => []
  end.
Definition hess_row (eta : R) (sqW : list R) (sqi gi : R) (i : nat) (drow : list R) : list R :=
  hess_row_from 0 eta sqi gi i sqW drow.
Definition dot (a b : list R) : R := rsum (map2 Rmult a b).
(** delta from old and new amounts:  sqrt y_new = sqrt y - delta / 2  (line 213) *)
Definition newton_delta (W Y : list R) : list R := map2 (fun w y => 2 * (sqrt w - sqrt y)) W Y.
(** residual of the linear system  (H + (eta - 1) I) delta = gradient  in row i *)
Definition newton_residual (eta : R) (W P d Y : list R) (dphi : list (list R)) (i : nat) : R :=
  let sqW := map sqrt W in
  let g := map gent (zip3 W P d) in
  dot (hess_row eta sqW (nth i sqW 0) (nth i g 0) i (nth i dphi [])) (newton_delta W Y) - nth i (newton_grad W P d) 0.

Ltac tpd_interval :=
  unfold tpd_of, tm_of, ss_tpd, ss_err, newton_err, newton_residual, trial_vapor, trial_liquid;
  unfold ss_map, newton_grad, newton_delta, hess_row, dot, dvec, tpd, tm, total, amounts, trial_vapor_amounts, x_dominant;
  unfold gent, dy_R;
  cbn [zip3 map2 map rsum cw cp cd fst snd nth hess_row_from trial_liquid_from Nat.eqb];
  interval with (i_prec 90).

(** * executable models of the discrete logic (over Q) *)
Open Scope Q_scope.

Definition dyQ (me : Z * Z) : Q := Qred (inject_Z (fst me) * Qpower 2 (snd me)).
Definition Qltb (a b : Q) : bool := negb (Qle_bool b a).

Lemma Qltb_lt a b : Qltb a b = true <-> a < b.
Proof.
  unfold Qltb. rewrite negb_true_iff. split; intros H.
  - apply Qnot_le_lt. intros Hle. apply Qle_bool_iff in Hle. congruence.
  - destruct (Qle_bool b a) eqn:E; [|reflexivity]. apply Qle_bool_iff in E. exfalso. exact (Qlt_not_le _ _ H E).
Qed.

(** [PhaseEquilibrium::is_trivial_solution]: max_i |rho2_i / rho1_i - 1| < 1e-5 *)
Fixpoint maxdev (r1 r2 : list Q) : Q :=
  match r1, r2 with
  | a :: r1', b :: r2' => Qmax (Qabs (b / a - 1)) (maxdev r1' r2')
  | _, _ => 0
  end.
Definition trivial_rel : Q := 1 # 100000.
Definition is_trivial (r1 r2 : list Q) : bool := Qltb (maxdev r1 r2) trivial_rel.

(** ZERO_TPD *)
Definition zero_tpd : Q := - (1 # 100000000).

(** outcome of one trial phase inside [stability_analysis] *)
Inductive trial_res : Type :=
| TSkip                                   (* define_trial_state failed: the trial is skipped (if let Ok) *)
| TFail                                   (* minimize_tpd returned Err: propagated by `?` *)
| TDone (tpd : option Q) (rho : list Q).  (* Ok((tpd, _)); None = trivial solution; rho = partial densities of the trial *)

Definition cand : Type := (nat * list Q)%type.

(** the loop of [stability_analysis]; [acc] holds the accepted candidates, newest first *)
Fixpoint stab_rev (acc : list cand) (i : nat) (ts : list trial_res) : option (list cand) :=
  match ts with
  | [] => Some acc
  | TSkip :: r => stab_rev acc (S i) r
  | TFail :: _ => None
  | TDone None _ :: r => stab_rev acc (S i) r
  | TDone (Some t) rho :: r =>
      if Qltb t zero_tpd then
        if existsb (fun a => is_trivial (snd a) rho) acc then stab_rev acc (S i) r
        else stab_rev ((i, rho) :: acc) (S i) r
      else stab_rev acc (S i) r
  end.
Definition stability (ts : list trial_res) : option (list cand) := option_map (@rev cand) (stab_rev [] 0 ts).
Definition is_stable (ts : list trial_res) : option bool :=
  option_map (fun l => match l with [] => true | _ => false end) (stability ts).

(** a candidate is admissible: it is a converged trial with tpd below the threshold *)
Definition admissible (ts : list trial_res) (k : nat) (rho : list Q) : Prop :=
  exists t, nth_error ts k = Some (TDone (Some t) rho) /\ t < zero_tpd.

(** newest-first list: every element is non-trivial with respect to all OLDER (= earlier accepted) ones, indices decrease *)
Inductive well_formed : list cand -> Prop :=
| wf_nil : well_formed []
| wf_cons c l : Forall (fun a => is_trivial (snd a) (snd c) = false /\ (fst a < fst c)%nat) l -> well_formed l -> well_formed (c :: l).

Lemma stab_rev_spec ts : forall acc i res (full : list trial_res),
  stab_rev acc i ts = Some res ->
  (forall k, nth_error ts k = nth_error full (i + k)) ->
  well_formed acc -> Forall (fun a => (fst a < i)%nat /\ admissible full (fst a) (snd a)) acc ->
  well_formed res
  /\ Forall (fun a => admissible full (fst a) (snd a)) res
  /\ (exists new, res = new ++ acc)
  /\ (forall k t rho, nth_error ts k = Some (TDone (Some t) rho) -> t < zero_tpd ->
        In ((i + k)%nat, rho) res \/ exists a, In a res /\ (fst a < i + k)%nat /\ is_trivial (snd a) rho = true)
  /\ ~ In TFail ts.
Proof.
  induction ts as [|x ts IH]; intros acc i res full Hrun Hnth Hwf Hacc.
  - cbn in Hrun. inversion Hrun; subst. split; [|split; [|split; [|split]]].
    + exact Hwf.
    + eapply Forall_impl; [|exact Hacc]. cbn. tauto.
    + exists []. reflexivity.
    + intros k t rho Hk. destruct k; discriminate.
    + intros [].
  - assert (Hnth' : forall k, nth_error ts k = nth_error full (S i + k)).
    { intros k. specialize (Hnth (S k)). cbn in Hnth. rewrite Hnth. f_equal. lia. }
    assert (Hacc' : Forall (fun a => (fst a < S i)%nat /\ admissible full (fst a) (snd a)) acc).
    { eapply Forall_impl; [|exact Hacc]. cbn. intros a [? ?]. split; [lia|assumption]. }
    assert (Hx : nth_error full i = Some x) by (specialize (Hnth 0%nat); cbn in Hnth; rewrite Nat.add_0_r in Hnth; auto).
    (* the cases in which the accumulator is unchanged *)
    assert (Hsame : stab_rev acc (S i) ts = Some res ->
                    (forall t rho, x = TDone (Some t) rho -> t < zero_tpd -> exists a, In a acc /\ is_trivial (snd a) rho = true) ->
                    x <> TFail ->
      well_formed res /\ Forall (fun a => admissible full (fst a) (snd a)) res /\ (exists new, res = new ++ acc) /\
      (forall k t rho, nth_error (x :: ts) k = Some (TDone (Some t) rho) -> t < zero_tpd ->
        In ((i + k)%nat, rho) res \/ exists a, In a res /\ (fst a < i + k)%nat /\ is_trivial (snd a) rho = true) /\ ~ In TFail (x :: ts)).
    { intros Hr Hdup Hnf. destruct (IH acc (S i) res full Hr Hnth' Hwf Hacc') as (W1 & W2 & (new & W3) & W4 & W5).
      split; [|split; [|split; [|split]]]; auto.
      - exists new. exact W3.
      - intros [|k] t rho Hk Ht.
        + cbn in Hk. injection Hk as Ex. destruct (Hdup t rho Ex Ht) as (a & Ha & Htr). right. exists a. split; [|split].
          * rewrite W3. apply in_or_app. now right.
          * rewrite Forall_forall in Hacc. destruct (Hacc a Ha). lia.
          * exact Htr.
        + cbn in Hk. destruct (W4 k t rho Hk Ht) as [Hin|(a & Ha & Hlt & Htr)].
          * left. replace (i + S k)%nat with (S i + k)%nat by lia. exact Hin.
          * right. exists a. split; [|split]; auto. lia.
      - intros [He|Hin]; [congruence|contradiction]. }
    destruct x as [| |[t|] rho]; cbn [stab_rev] in Hrun.
    + apply Hsame; [exact Hrun| discriminate | discriminate].
    + discriminate.
    + destruct (Qltb t zero_tpd) eqn:Et.
      * destruct (existsb (fun a => is_trivial (snd a) rho) acc) eqn:Ex.
        -- apply Hsame; [exact Hrun| |discriminate]. intros t' rho' E _. inversion E; subst.
           apply existsb_exists in Ex. exact Ex.
        -- (* accepted *)
           assert (Hwf2 : well_formed ((i, rho) :: acc)).
           { constructor; [|exact Hwf]. apply Forall_forall. intros a Ha. cbn [fst snd]. split.
             - destruct (is_trivial (snd a) rho) eqn:E; [|reflexivity].
               assert (existsb (fun a => is_trivial (snd a) rho) acc = true) by (apply existsb_exists; eauto). congruence.
             - rewrite Forall_forall in Hacc. apply (Hacc a Ha). }
           assert (Hacc2 : Forall (fun a => (fst a < S i)%nat /\ admissible full (fst a) (snd a)) ((i, rho) :: acc)).
           { constructor; [|exact Hacc']. cbn [fst snd]. split; [lia|]. exists t. split; [exact Hx|]. now apply Qltb_lt. }
           destruct (IH ((i, rho) :: acc) (S i) res full Hrun Hnth' Hwf2 Hacc2) as (W1 & W2 & (new & W3) & W4 & W5).
           split; [|split; [|split; [|split]]]; auto.
           ++ exists (new ++ [(i, rho)]). rewrite W3, <- app_assoc. reflexivity.
           ++ intros [|k] t' rho' Hk Ht'.
              ** cbn in Hk. injection Hk as E1 E2. subst t' rho'. left. rewrite Nat.add_0_r, W3. apply in_or_app. right. now left.
              ** cbn in Hk. destruct (W4 k t' rho' Hk Ht') as [Hin|(a & Ha & Hlt & Htr)].
                 --- left. replace (i + S k)%nat with (S i + k)%nat by lia. exact Hin.
                 --- right. exists a. split; [|split]; auto. lia.
           ++ intros [He|Hin]; [discriminate|contradiction].
      * apply Hsame; [exact Hrun| |discriminate]. intros t' rho' E Ht'. inversion E; subst.
        apply Qltb_lt in Ht'. congruence.
    + apply Hsame; [exact Hrun|discriminate|discriminate].
Qed.

Lemma stab_rev_none ts : forall acc i, stab_rev acc i ts = None <-> In TFail ts.
Proof.
  induction ts as [|x ts IH]; intros acc i; cbn [stab_rev].
  - split; [discriminate|intros []].
  - destruct x as [| |[t|] rho].
    + rewrite IH. cbn. split; [auto|intros [H|H]; [discriminate|auto]].
    + cbn. split; auto.
    + destruct (Qltb t zero_tpd); [destruct (existsb (fun a => is_trivial (snd a) rho) acc)|]; rewrite IH; cbn; (split; [auto|intros [H|H]; [discriminate|auto]]).
    + rewrite IH. cbn. split; [auto|intros [H|H]; [discriminate|auto]].
Qed.

(** [accept_dedup] *)
Theorem accept_dedup ts res :
  stab_rev [] 0 ts = Some res ->
  well_formed res
  /\ Forall (fun a => admissible ts (fst a) (snd a)) res
  /\ (forall k t rho, nth_error ts k = Some (TDone (Some t) rho) -> t < zero_tpd ->
        In (k, rho) res \/ exists a, In a res /\ (fst a < k)%nat /\ is_trivial (snd a) rho = true)
  /\ ~ In TFail ts.
Proof.
  intros H. destruct (stab_rev_spec ts [] 0%nat res ts H (fun k => eq_refl) wf_nil (Forall_nil _)) as (W1 & W2 & _ & W4 & W5).
  repeat split; auto.
Qed.

(** verdict: the state is reported stable iff no trial failed and no converged trial reached tpd < ZERO_TPD *)
Theorem stable_verdict_iff ts :
  stab_rev [] 0 ts = Some [] <-> (~ In TFail ts /\ forall k t rho, nth_error ts k = Some (TDone (Some t) rho) -> ~ t < zero_tpd).
Proof.
  split.
  - intros H. destruct (accept_dedup ts [] H) as (_ & _ & W & Hf). split; [exact Hf|].
    intros k t rho Hk Ht. destruct (W k t rho Hk Ht) as [[]|(a & [] & _)].
  - intros (Hf & Hno). destruct (stab_rev [] 0 ts) as [res|] eqn:E.
    + destruct (accept_dedup ts res E) as (_ & W & _). destruct res as [|a res]; [reflexivity|].
      inversion W as [|? ? (t & Ht & Hlt) _]; subst. exfalso. exact (Hno _ _ _ Ht Hlt).
    + apply stab_rev_none in E. contradiction.
Qed.

(** * control skeleton of [minimize_tpd] *)
(** what one iteration produced: (error, tpd, is_trivial_solution (feed, trial)) *)
Definition iter_data : Type := (Q * Q * bool)%type.
Inductive outcome : Type :=
| OTrivial (i : nat)            (* Ok((None, i)) *)
| OConverged (tpd : Q) (i : nat)   (* Ok((Some(tpd), i)) *)
| ONotConverged.                (* Err(NotConverged) *)

(** scaled tolerance after the three `if tpd < ..` updates (lines 142-150) *)
Definition next_stol (tol stol tpd : Q) (i : nat) : Q :=
  if Qltb tpd (- (1 # 10)) then (if Nat.ltb 5 i then tol * 1000 else tol * 100)
  else if Qltb tpd (- (1 # 100)) then tol * 10 else stol.
(** switch to Newton (line 123), evaluated only in the direct-substitution branch, with the tolerance BEFORE the update *)
Definition next_newton (newton : bool) (stol err tpd tpd_old : Q) (i : nat) : bool :=
  if newton then true
  else (Nat.ltb 4 i && Qltb stol err) || (Qltb (tpd_old + (1 # 100000)) tpd && Nat.ltb 2 i).

(** [fuel] = iterations left; returns the outcome and, per iteration performed, whether it was a Newton step *)
Fixpoint ctrl (tol : Q) (i : nat) (newton : bool) (stol tpd_old : Q) (tr : list iter_data) (fuel : nat) : outcome * list bool :=
  match fuel, tr with
  | O, _ => (ONotConverged, [])
  | S fuel', [] => (ONotConverged, [])     (* trace exhausted: not reachable when the trace comes from a full run *)
  | S fuel', (err, tpd, triv) :: tr' =>
      let newton' := next_newton newton stol err tpd tpd_old i in
      if triv then (OTrivial i, [newton])
      else
        let stol' := next_stol tol stol tpd i in
        if Qltb err stol' then (OConverged tpd i, [newton])
        else let (o, ks) := ctrl tol (S i) newton' stol' tpd tr' fuel' in (o, newton :: ks)
  end.
Definition minimize_ctrl (tol : Q) (max_iter : nat) (tr : list iter_data) : outcome * list bool :=
  ctrl tol 1 false tol (10000000000 # 1) tr max_iter.

Definition stol_ok (tol stol : Q) : Prop := stol == tol \/ stol == tol * 10 \/ stol == tol * 100 \/ stol == tol * 1000.

Lemma next_stol_ok tol stol tpd i : stol_ok tol stol -> stol_ok tol (next_stol tol stol tpd i).
Proof.
  intros H. unfold next_stol, stol_ok. destruct (Qltb tpd (- (1 # 10))); [destruct (Nat.ltb 5 i)|destruct (Qltb tpd (- (1 # 100)))];
    try tauto; right; [right; right|right; left|left]; reflexivity.
Qed.

Lemma stol_ok_bounds tol stol : 0 < tol -> stol_ok tol stol -> tol <= stol /\ stol <= tol * 1000.
Proof. intros Ht [H|[H|[H|H]]]; rewrite H; split; nra. Qed.

Ltac splits := repeat match goal with |- _ /\ _ => split end.

(** [minimize_ok_implies]: what `Ok((Some(tpd), i))` means *)
Theorem ctrl_converged tol : forall tr fuel i newton stol tpd_old t n ks,
  0 < tol -> stol_ok tol stol ->
  ctrl tol i newton stol tpd_old tr fuel = (OConverged t n, ks) ->
  exists k err stol_n,
    n = (i + k)%nat /\ (k < fuel)%nat /\ length ks = S k /\
    nth_error tr k = Some (err, t, false) /\
    stol_ok tol stol_n /\ err < stol_n /\ stol_n <= tol * 1000 /\
    (forall j, (j < k)%nat -> exists e' t', nth_error tr j = Some (e', t', false)).
Proof.
  induction tr as [|[[err tpd] triv] tr IH]; intros fuel i newton stol tpd_old t n ks Htol Hst Hrun.
  - destruct fuel; cbn in Hrun; discriminate.
  - destruct fuel as [|fuel]; [cbn in Hrun; discriminate|]. cbn [ctrl] in Hrun.
    destruct triv; [discriminate|].
    pose proof (next_stol_ok tol stol tpd i Hst) as Hst'.
    destruct (Qltb err (next_stol tol stol tpd i)) eqn:Ec.
    + inversion Hrun; subst. exists 0%nat, err, (next_stol tol stol t n).
      split; [lia|]. split; [lia|]. split; [reflexivity|]. split; [reflexivity|]. split; [exact Hst'|].
      split; [now apply Qltb_lt|]. split; [apply (stol_ok_bounds tol _ Htol Hst')|]. intros j Hj. lia.
    + destruct (ctrl tol (S i) (next_newton newton stol err tpd tpd_old i) (next_stol tol stol tpd i) tpd tr fuel) as [o ks'] eqn:Er.
      inversion Hrun; subst. destruct (IH _ _ _ _ _ _ _ _ Htol Hst' Er) as (k & e & sn & H1 & H2 & H3 & H4 & H5 & H6 & H7 & H8).
      exists (S k), e, sn.
      split; [lia|]. split; [lia|]. split; [cbn; lia|]. split; [exact H4|]. split; [exact H5|]. split; [exact H6|]. split; [exact H7|].
      intros [|j] Hj; [exists err, tpd; reflexivity|]. cbn. apply H8. lia.
Qed.

Theorem minimize_ok_implies tol max_iter tr t n ks :
  0 < tol -> minimize_ctrl tol max_iter tr = (OConverged t n, ks) ->
  (1 <= n <= max_iter)%nat /\ length ks = n /\
  exists err stol_n, nth_error tr (n - 1) = Some (err, t, false) /\ err < stol_n /\ stol_n <= tol * 1000 /\
    (forall j, (j < n - 1)%nat -> exists e' t', nth_error tr j = Some (e', t', false)).
Proof.
  intros Htol H. unfold minimize_ctrl in H.
  destruct (ctrl_converged tol tr max_iter 1 false tol _ t n ks Htol (or_introl (Qeq_refl _)) H) as (k & e & sn & H1 & H2 & H3 & H4 & H5 & H6 & H7 & H8).
  subst n. replace (1 + k - 1)%nat with k by lia. splits; try lia. exists e, sn. auto.
Qed.

(** the first four iterations are always direct substitution unless the objective increased after iteration 2 *)
Lemma first_steps_substitution tol tr max_iter o ks :
  minimize_ctrl tol max_iter tr = (o, ks) -> nth 0 ks false = false.
Proof.
  unfold minimize_ctrl. destruct tr as [|[[e t] tv] tr]; destruct max_iter as [|m]; cbn [ctrl];
    try (intros H; inversion H; subst; reflexivity).
  destruct tv; [intros H; inversion H; subst; reflexivity|].
  match goal with |- context [Qltb e ?x] => destruct (Qltb e x) end; [intros H; inversion H; subst; reflexivity|].
  match goal with |- context [ctrl ?a ?b ?c ?d ?e0 ?f ?g] => destruct (ctrl a b c d e0 f g) end.
  intros H; inversion H; subst. reflexivity.
Qed.

(** runners for the generated correspondence files (dyadic inputs) *)
Definition dy_trial (x : option (option (Z * Z) * list (Z * Z))) (failed : bool) : trial_res :=
  match x with
  | None => if failed then TFail else TSkip
  | Some (t, rho) => TDone (option_map dyQ t) (map dyQ rho)
  end.
Definition run_stab (c : list (option (option (Z * Z) * list (Z * Z)) * bool)) : option (list nat) :=
  option_map (map fst) (stability (map (fun x => dy_trial (fst x) (snd x)) c)).
Definition scaleZ : Q := inject_Z (2 ^ 70).
Definition outcome_code (o : outcome) : Z * Z * Z :=
  match o with
  | OTrivial i => (0, Z.of_nat i, 0)
  | OConverged t i => (1, Z.of_nat i, Qfloor (t * scaleZ))
  | ONotConverged => (2, 0, 0)
  end%Z.
Definition run_ctrl (c : (Z * Z) * nat * list ((Z * Z) * (Z * Z) * bool)) : (Z * Z * Z) * list bool :=
  let '(tol, max_iter, tr) := c in
  let (o, ks) := minimize_ctrl (dyQ tol) max_iter (map (fun x => (dyQ (fst (fst x)), dyQ (snd (fst x)), snd x)) tr) in
  (outcome_code o, ks).
Definition run_trivial (c : list (Z * Z) * list (Z * Z)) : bool * Z :=
  let '(r1, r2) := c in (is_trivial (map dyQ r1) (map dyQ r2), Qfloor (maxdev (map dyQ r1) (map dyQ r2) * scaleZ)).

(** non-vacuity *)
Example stab_example :
  stability [TDone (Some (- (1 # 10))) [1; 2]; TDone (Some (- (1 # 10))) [1; 2 + (1 # 1000000)]; TSkip;
             TDone (Some (- (1 # 1000000000))) [5; 5]; TDone None [3; 3]; TDone (Some (- (1 # 5))) [2; 1]]
  = Some [(0%nat, [1; 2]); (5%nat, [2; 1])].
Proof. vm_compute. reflexivity. Qed.

Example ctrl_example :
  minimize_ctrl (1 # 1000000) 100 [(1 # 10, - (1 # 2), false); (1 # 100, - (3 # 5), false); (1 # 100000, - (3 # 5), false)]
  = (OConverged (- (3 # 5)) 3, [false; false; false]).
Proof. vm_compute. reflexivity. Qed.
Close Scope Q_scope.

Example stationary_example : stationary [(exp (2 - 1), 1, 2)] /\ tm [(exp (2 - 1), 1, 2)] < 0.
Proof.
  split; [repeat constructor|]. rewrite tm_stationary by repeat constructor. unfold total. cbn.
  replace (2 - 1) with 1 by ring. pose proof exp_ineq1 1. lra.
Qed.
