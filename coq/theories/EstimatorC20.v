(** * C20 — [DataSet::{relative_difference, cost, mean_absolute_relative_difference}] and [Estimator::cost]
    ([src/estimator/dataset.rs], [src/estimator/estimator.rs]) over the reals.

    A data set is (loss, scaling factor, prediction, target); [predict] itself (the library call a data-set type
    wraps) is not modelled here — see notes/C20.md (support search). *)
From Coq Require Import Reals Lra Lia List.
From FeosVerif Require Import LossC20.
Import ListNotations.
Open Scope R_scope.

Fixpoint zipw {A B C} (f : A -> B -> C) (a : list A) (b : list B) : list C :=
  match a, b with
  | x :: a', y :: b' => f x y :: zipw f a' b'
  | _, _ => []
  end.

Definition sumf (l : list R) : R := fold_right Rplus 0 l.

(** [(prediction - target) / target] *)
Definition reldiff (p t : list R) : list R := zipw (fun pi ti => (pi - ti) / ti) p t.

(** [DataSet::cost]: loss applied to the relative differences, divided by the number of data points *)
Definition ds_cost (l : loss) (s : R) (p t : list R) : list R :=
  let rd := reldiff p t in map (fun r => loss_apply l s r / INR (length rd)) rd.

Record dataset := mkds { ds_loss : loss; ds_s : R; ds_pred : list R; ds_target : list R }.

Definition ds_cost_of (d : dataset) := ds_cost (ds_loss d) (ds_s d) (ds_pred d) (ds_target d).

(** [Estimator::cost]: w = weights / sum(weights); concatenation of cost_i * w_i *)
Definition est_cost_with (nw : list R) (ds : list dataset) : list R :=
  concat (zipw (fun w d => map (fun c => c * w) (ds_cost_of d)) nw ds).

Definition normalise (ws : list R) : list R := map (fun w => w / sumf ws) ws.

Definition est_cost (ws : list R) (ds : list dataset) : list R := est_cost_with (normalise ws) ds.

(** [mean_absolute_relative_difference]: running mean over the finite entries ([None] = NaN / infinite) *)
Fixpoint finite_part (l : list (option R)) : list R :=
  match l with
  | [] => []
  | Some x :: l' => x :: finite_part l'
  | None :: l' => finite_part l'
  end.

Definition mard_step (acc : R * nat) (x : R) : R * nat :=
  (fst acc + (Rabs x - fst acc) / INR (snd acc + 1), S (snd acc)).

Definition mard_fold (l : list R) (acc : R * nat) : R * nat := fold_left mard_step l acc.

Definition mard (l : list (option R)) : R := fst (mard_fold (finite_part l) (0, O)).

(** ** lengths / structure *)

Lemma zipw_length {A B C} (f : A -> B -> C) a b : length (zipw f a b) = Nat.min (length a) (length b).
Proof. revert b; induction a as [|x a IH]; intros [|y b]; simpl; auto. Qed.

Lemma ds_cost_length l s p t : length (ds_cost l s p t) = Nat.min (length p) (length t).
Proof. unfold ds_cost, reldiff. now rewrite map_length, zipw_length. Qed.

Lemma est_cost_with_length nw ds :
  length nw = length ds ->
  length (est_cost_with nw ds) = fold_right Nat.add O (map (fun d => length (ds_cost_of d)) ds).
Proof.
  unfold est_cost_with. revert ds. induction nw as [|w nw IH]; intros [|d ds] H; simpl in *; try discriminate; auto.
  rewrite app_length, map_length. f_equal. apply IH. lia.
Qed.

Theorem est_cost_length ws ds :
  length ws = length ds ->
  length (est_cost ws ds) = fold_right Nat.add O (map (fun d => Nat.min (length (ds_pred d)) (length (ds_target d))) ds).
Proof.
  intros H. unfold est_cost. rewrite est_cost_with_length by (unfold normalise; now rewrite map_length).
  f_equal. apply map_ext. intros d. apply ds_cost_length.
Qed.

(** ** normalised weights *)

Lemma sumf_map_div ws c : sumf (map (fun w => w / c) ws) = sumf ws / c.
Proof. induction ws as [|w ws IH]; simpl; [unfold Rdiv; ring|]. rewrite IH. unfold Rdiv. ring. Qed.

Theorem normalise_sum ws : sumf ws <> 0 -> sumf (normalise ws) = 1.
Proof. intros H. unfold normalise. rewrite sumf_map_div. now field. Qed.

Lemma sumf_scale c ws : sumf (map (Rmult c) ws) = c * sumf ws.
Proof. induction ws as [|w ws IH]; simpl; [ring|]. rewrite IH. ring. Qed.

Theorem normalise_scale c ws : c <> 0 -> sumf ws <> 0 -> normalise (map (Rmult c) ws) = normalise ws.
Proof.
  intros Hc Hs. unfold normalise. rewrite map_map, sumf_scale.
  apply map_ext. intros w. now field.
Qed.

(** costs scale with the NORMALISED weights: multiplying all weights by the same factor changes nothing *)
Theorem est_cost_scale_invariant c ws ds :
  c <> 0 -> sumf ws <> 0 -> est_cost (map (Rmult c) ws) ds = est_cost ws ds.
Proof. intros Hc Hs. unfold est_cost. now rewrite normalise_scale. Qed.

(** each block of the cost vector is the data set's own cost times its normalised weight *)
Theorem est_cost_cons w ws' d ds' :
  est_cost (w :: ws') (d :: ds') =
  map (fun c => c * (w / sumf (w :: ws'))) (ds_cost_of d)
  ++ est_cost_with (map (fun w' => w' / sumf (w :: ws')) ws') ds'.
Proof. reflexivity. Qed.

Theorem est_cost_with_nth_block nw ds k :
  length nw = length ds -> (k < length ds)%nat ->
  exists pre post,
    est_cost_with nw ds = pre ++ map (fun c => c * nth k nw 0) (ds_cost_of (nth k ds (mkds Linear 1 [] []))) ++ post
    /\ length pre = fold_right Nat.add O (map (fun d => length (ds_cost_of d)) (firstn k ds)).
Proof.
  unfold est_cost_with. revert ds k. induction nw as [|w nw IH]; intros [|d ds] k Hl Hk; simpl in *; try lia.
  destruct k as [|k].
  - exists [], (concat (zipw (fun w d => map (fun c => c * w) (ds_cost_of d)) nw ds)). split; reflexivity.
  - destruct (IH ds k) as (pre & post & E & L); [lia|lia|].
    exists (map (fun c => c * w) (ds_cost_of d) ++ pre), post. split.
    + rewrite E. now rewrite app_assoc.
    + simpl. rewrite app_length, map_length. now rewrite L.
Qed.

(** a data set with a single weight: the weight cancels *)
Theorem est_cost_single w d : w <> 0 -> est_cost [w] [d] = ds_cost_of d.
Proof.
  intros Hw. unfold est_cost, est_cost_with, normalise. simpl. rewrite app_nil_r.
  rewrite <- (map_id (ds_cost_of d)) at 2. apply map_ext. intros c. field. lra.
Qed.

(** ** model-generated data: zero relative difference and zero cost for every loss *)

Lemma reldiff_self t : Forall (fun ti => ti <> 0) t -> reldiff t t = map (fun _ => 0) t.
Proof.
  induction 1 as [|ti t Hti _ IH]; simpl; [reflexivity|]. unfold reldiff in *. simpl. rewrite IH. f_equal.
  now field.
Qed.

Theorem ds_cost_zero_on_model_data l s t :
  s <> 0 -> Forall (fun ti => ti <> 0) t -> ds_cost l s t t = map (fun _ => 0) t.
Proof.
  intros Hs Ht. unfold ds_cost. rewrite (reldiff_self t Ht), map_map.
  apply map_ext. intros _. rewrite apply_zero by exact Hs. unfold Rdiv. ring.
Qed.

Definition model_generated (d : dataset) : Prop :=
  ds_pred d = ds_target d /\ ds_s d <> 0 /\ Forall (fun ti => ti <> 0) (ds_target d).

Lemma est_cost_with_zero nw ds :
  Forall model_generated ds -> Forall (fun c => c = 0) (est_cost_with nw ds).
Proof.
  unfold est_cost_with. revert ds. induction nw as [|w nw IH]; intros [|d ds] H; simpl; try constructor.
  inversion H as [|? ? (Hp & Hs & Ht) Hds]; subst.
  apply Forall_app. split; [|now apply IH].
  unfold ds_cost_of. rewrite Hp, ds_cost_zero_on_model_data by assumption.
  rewrite map_map. apply Forall_forall. intros c Hc. apply in_map_iff in Hc. destruct Hc as (? & <- & _). ring.
Qed.

Theorem est_cost_zero_on_model_data ws ds :
  Forall model_generated ds -> Forall (fun c => c = 0) (est_cost ws ds).
Proof. apply est_cost_with_zero. Qed.

(** ** the running mean is the mean *)

Lemma mard_fold_cons x l acc : mard_fold (x :: l) acc = mard_fold l (mard_step acc x).
Proof. reflexivity. Qed.

Lemma mard_fold_invariant l : forall m n,
  snd (mard_fold l (m, n)) = (n + length l)%nat /\
  fst (mard_fold l (m, n)) * INR (n + length l) = m * INR n + sumf (map Rabs l).
Proof.
  induction l as [|x l IH]; intros m n.
  - simpl. rewrite Nat.add_0_r. split; [reflexivity|ring].
  - rewrite mard_fold_cons. unfold mard_step. cbn [fst snd].
    destruct (IH (m + (Rabs x - m) / INR (n + 1)) (S n)) as [H1 H2].
    replace (n + length (x :: l))%nat with (S n + length l)%nat by (simpl; lia).
    split; [exact H1|]. rewrite H2. change (sumf (map Rabs (x :: l))) with (Rabs x + sumf (map Rabs l)).
    replace (n + 1)%nat with (S n) by lia.
    assert (INR (S n) <> 0) by (apply not_0_INR; lia).
    rewrite S_INR in *. field. lra.
Qed.

Theorem mard_is_mean l :
  finite_part l <> [] ->
  mard l = sumf (map Rabs (finite_part l)) / INR (length (finite_part l)).
Proof.
  intros Hne. unfold mard.
  destruct (mard_fold_invariant (finite_part l) 0 O) as [_ H2].
  simpl in H2. rewrite Rmult_0_l, Rplus_0_l in H2. rewrite <- H2.
  assert (INR (length (finite_part l)) <> 0).
  { apply not_0_INR. destruct (finite_part l); [contradiction|simpl; lia]. }
  now field.
Qed.

Theorem mard_zero_on_model_data l : Forall (fun x => x = Some 0) l -> mard l = 0.
Proof.
  intros H. unfold mard.
  assert (G : forall n, fst (mard_fold (finite_part l) (0, n)) = 0).
  { induction H as [|x l Hx _ IH]; intros n; [reflexivity|]. subst x.
    cbn [finite_part]. rewrite mard_fold_cons. unfold mard_step. cbn [fst snd].
    rewrite Rabs_R0.
    replace (0 + (0 - 0) / INR (n + 1)) with 0 by (unfold Rdiv; ring). apply IH. }
  apply G.
Qed.

(** ** the Estimator as a state machine ([src/estimator/estimator.rs]: the only public mutators are [new] and [add_data];
    [cost], [predict], [relative_difference], [mean_absolute_relative_difference], [datasets] only read)

    state = the parallel vectors (weights, data sets with their losses); [new] stores them as given, [add_data] pushes
    one weight / data set / loss at the end; [cost] normalises the STORED weights by their sum. *)
From Coq Require Import Permutation.

Definition est_state : Type := (list R * list dataset)%type.

Definition est_new (ws : list R) (ds : list dataset) : est_state := (ws, ds).
Definition est_add (st : est_state) (wd : R * dataset) : est_state := (fst st ++ [fst wd], snd st ++ [snd wd]).
Definition est_run (st : est_state) (adds : list (R * dataset)) : est_state := fold_left est_add adds st.
Definition est_cost_st (st : est_state) : list R := est_cost (fst st) (snd st).

(** history independence: [new] followed by any sequence of [add_data] is the same estimator as a single [new] with all
    weights / data sets (in particular building everything by [add_data] from the empty estimator) *)
Theorem est_run_as_new ws ds adds :
  est_run (est_new ws ds) adds = est_new (ws ++ map fst adds) (ds ++ map snd adds).
Proof.
  unfold est_run, est_new. revert ws ds. induction adds as [|[w d] adds IH]; intros ws ds; simpl.
  - now rewrite !app_nil_r.
  - unfold est_add at 2. simpl. rewrite IH, <- !app_assoc. reflexivity.
Qed.

Theorem est_cost_history_independent ws ds k :
  length ws = length ds ->
  est_cost_st (est_run (est_new (firstn k ws) (firstn k ds)) (combine (skipn k ws) (skipn k ds))) = est_cost ws ds.
Proof.
  intros HL.
  rewrite est_run_as_new. unfold est_cost_st, est_new. simpl.
  assert (HL' : length (skipn k ws) = length (skipn k ds)) by (rewrite !skipn_length; lia).
  assert (E1 : map fst (combine (skipn k ws) (skipn k ds)) = skipn k ws).
  { revert HL'. generalize (skipn k ws) (skipn k ds). induction l as [|a l IH]; intros [|b l'] H; simpl in *; try discriminate; auto.
    f_equal. apply IH. lia. }
  assert (E2 : map snd (combine (skipn k ws) (skipn k ds)) = skipn k ds).
  { revert HL'. generalize (skipn k ws) (skipn k ds). induction l as [|a l IH]; intros [|b l'] H; simpl in *; try discriminate; auto.
    f_equal. apply IH. lia. }
  now rewrite E1, E2, !firstn_skipn.
Qed.

(** the cost depends only on the multiset of (weight, data set) pairs: the blocks of the cost vector of a permuted
    estimator are the permuted blocks (each block = cost of its data set times w / (sum of ALL weights)) *)
Definition est_blocks (pairs : list (R * dataset)) : list (list R) :=
  map (fun wd => map (fun c => c * (fst wd / sumf (map fst pairs))) (ds_cost_of (snd wd))) pairs.

Lemma sumf_perm l l' : Permutation l l' -> sumf l = sumf l'.
Proof. induction 1; simpl; try lra; congruence. Qed.

Theorem est_blocks_perm p q : Permutation p q -> Permutation (est_blocks p) (est_blocks q).
Proof.
  intros H. unfold est_blocks.
  rewrite (sumf_perm (map fst p) (map fst q)) by now apply Permutation_map.
  now apply Permutation_map.
Qed.

Theorem est_cost_blocks pairs :
  est_cost (map fst pairs) (map snd pairs) = concat (est_blocks pairs).
Proof.
  unfold est_cost, est_cost_with, normalise, est_blocks. f_equal.
  generalize (sumf (map fst pairs)). intros c.
  induction pairs as [|[w d] pairs IH]; simpl; [reflexivity|]. now rewrite IH.
Qed.

Theorem est_state_cost_blocks pairs0 adds :
  est_cost_st (est_run (est_new (map fst pairs0) (map snd pairs0)) adds) = concat (est_blocks (pairs0 ++ adds)).
Proof.
  rewrite est_run_as_new. unfold est_cost_st, est_new. simpl.
  rewrite <- !map_app. apply est_cost_blocks.
Qed.

Example est_run_example w1 w2 d1 d2 :
  est_cost_st (est_run (est_new [w1] [d1]) [(w2, d2)]) = est_cost [w1; w2] [d1; d2].
Proof. reflexivity. Qed.

(** ** [VaporPressure::predict] ([src/estimator/vapor_pressure.rs]): the decision structure of the wrapper.
    [vle T] is [PhaseEquilibrium::vapor_pressure(eos, T)[0]] ([None] = no VLE found), [a], [b] the coefficients of the
    fallback ln p = a + b/T (computed from the critical point found with the start value [max_temperature], i.e. the
    [critical_temperature] option or the largest data temperature); [None] models NaN.  The start value enters the
    prediction ONLY through (a, b), and (a, b) only where the model has no VLE. *)
Definition vp_predict (vle : R -> option R) (extrapolate : bool) (a b T : R) : option R :=
  match vle T with
  | Some p => Some p
  | None => if extrapolate then Some (exp (a + b / T)) else None
  end.

Theorem vp_predict_wraps_vle vle extrapolate a b T p :
  vle T = Some p -> vp_predict vle extrapolate a b T = Some p.
Proof. intros H. unfold vp_predict. now rewrite H. Qed.

Theorem vp_predict_options_irrelevant vle e1 e2 a1 b1 a2 b2 T p :
  vle T = Some p -> vp_predict vle e1 a1 b1 T = vp_predict vle e2 a2 b2 T.
Proof. intros H. now rewrite !(vp_predict_wraps_vle vle _ _ _ T p H). Qed.

Theorem vp_predict_no_vle vle a b T :
  vle T = None -> vp_predict vle false a b T = None /\ vp_predict vle true a b T = Some (exp (a + b / T)).
Proof. intros H. unfold vp_predict. now rewrite H. Qed.

(** non-vacuity *)
Example est_cost_example :
  est_cost [1; 3] [mkds Linear 1 [2] [1]; mkds Linear 1 [3; 3] [2; 4]] = [1 / 1 * (1 / (1 + (3 + 0))); (3 - 2) / 2 / (1 + 1) * (3 / (1 + (3 + 0))); (3 - 4) / 4 / (1 + 1) * (3 / (1 + (3 + 0)))].
Proof.
  unfold est_cost, est_cost_with, normalise, ds_cost_of, ds_cost, reldiff. simpl.
  repeat f_equal; field.
Qed.

Example model_generated_example : model_generated (mkds Cauchy 2 [1; 5] [1; 5]).
Proof. repeat split; simpl; try lra. repeat constructor; lra. Qed.
