(** * AD: forward-mode differentiation as a program transformation, and its soundness.

    [tan_prog P n] maps a straight-line program [P] over [n] inputs to a program over [2n] inputs
    (values ++ tangents) that computes, next to every value of [P], its directional derivative.
    Because the result is again a program, higher orders are iterations of the same transformation
    and the one soundness theorem [tan_sound] covers every order: each application says
    "this output is the derivative of that lower-order output", which is the form in which the
    properties C01/C10/C13 are stated.

    Semantics: Interval's [eval_ext] over extended reals ([Xnan] = undefined) and its notion of
    derivative [Xderive_pt] (derivability of the real function in a neighbourhood, or [Xnan]). *)
From Coq Require Import Reals List ZArith Lia Lra Bool.
From Interval Require Import Real.Xreal Real.Xreal_derive Eval.Prog Eval.Tree Eval.Eval.
From FeosVerif Require Import ProgSem.
Import ListNotations.

(** ** Function-level semantics *)
Definition XF := ExtendedR -> ExtendedR.
Definition fun_ops : operations XF :=
  {| constant := fun z _ => Xreal (IZR z);
     unary := fun o f t => unary ext_operations o (f t);
     binary := fun o f g t => binary ext_operations o (f t) (g t);
     sign := fun _ => Xund |}.
Definition dflt : XF := fun _ => Xnan.
Definition eval_fun (P : list term) (xs : list XF) : list XF := eval_generic dflt fun_ops P xs.

Lemma eval_fun_pt P xs t : map (fun f : XF => f t) (eval_fun P xs) = eval_ext P (map (fun f : XF => f t) xs).
Proof.
  unfold eval_fun, eval_ext, eval_generic. revert xs.
  induction P as [|a P IH]; intros xs; cbn [fold_left]; [reflexivity|].
  rewrite IH. f_equal. unfold eval_generic_body. cbn [map]. f_equal.
  assert (Hn : forall n, nth n (map (fun f : XF => f t) xs) Xnan = nth n xs dflt t).
  { intros n. change Xnan with ((fun f : XF => f t) dflt). now rewrite map_nth. }
  destruct a; cbn; now rewrite ?Hn.
Qed.

Lemma eval_fun_nth P xs t k : nth k (eval_fun P xs) dflt t = nth k (eval_ext P (map (fun f : XF => f t) xs)) Xnan.
Proof.
  rewrite <- eval_fun_pt. change Xnan with ((fun f : XF => f t) dflt). now rewrite map_nth.
Qed.

(** ** Blocks with absolute references *)
Inductive ref := RA (a : nat) | RT (k : nat).
Inductive aterm := AF (r : ref) | AU (o : unary_op) (r : ref) | AB (o : binary_op) (r1 r2 : ref).

(** bottom-relative access: position [a] counted from the end of the value list *)
Definition getb (tv : list ExtendedR) (a : nat) : ExtendedR := nth (length tv - 1 - a) tv Xnan.

Definition rget (tv vals : list ExtendedR) (r : ref) : ExtendedR :=
  match r with RA a => getb tv a | RT k => nth k vals Xnan end.
Definition aeval1 (tv vals : list ExtendedR) (t : aterm) : ExtendedR :=
  match t with
  | AF r => rget tv vals r
  | AU o r => unary ext_operations o (rget tv vals r)
  | AB o r1 r2 => binary ext_operations o (rget tv vals r1) (rget tv vals r2)
  end.
Fixpoint aeval (tv vals : list ExtendedR) (blk : list aterm) : list ExtendedR :=
  match blk with
  | [] => vals
  | t :: blk => aeval tv (vals ++ [aeval1 tv vals t]) blk
  end.

Definition lref (len k : nat) (r : ref) : nat :=
  match r with RA a => len + k - 1 - a | RT j => k - 1 - j end.
Definition lterm (len k : nat) (t : aterm) : term :=
  match t with
  | AF r => Forward (lref len k r)
  | AU o r => Unary o (lref len k r)
  | AB o r1 r2 => Binary o (lref len k r1) (lref len k r2)
  end.
Fixpoint lower (len k : nat) (blk : list aterm) : list term :=
  match blk with
  | [] => []
  | t :: blk => lterm len k t :: lower len (S k) blk
  end.

Definition ref_ok (len k : nat) (r : ref) : Prop :=
  match r with RA a => a < len | RT j => j < k end.
Definition aterm_ok (len k : nat) (t : aterm) : Prop :=
  match t with
  | AF r | AU _ r => ref_ok len k r
  | AB _ r1 r2 => ref_ok len k r1 /\ ref_ok len k r2
  end.
Fixpoint blk_ok (len k : nat) (blk : list aterm) : Prop :=
  match blk with
  | [] => True
  | t :: blk => aterm_ok len k t /\ blk_ok len (S k) blk
  end.

Lemma lref_correct tv vals r : ref_ok (length tv) (length vals) r ->
  nth (lref (length tv) (length vals) r) (rev vals ++ tv) Xnan = rget tv vals r.
Proof.
  destruct r as [a|j]; cbn; intros H.
  - rewrite app_nth2 by (rewrite rev_length; lia). rewrite rev_length. unfold getb. f_equal. lia.
  - rewrite app_nth1 by (rewrite rev_length; lia).
    rewrite rev_nth by lia. f_equal. lia.
Qed.

Lemma lower_correct tv blk : forall vals, blk_ok (length tv) (length vals) blk ->
  fold_left (eval_generic_body Xnan ext_operations) (lower (length tv) (length vals) blk) (rev vals ++ tv)
  = rev (aeval tv vals blk) ++ tv.
Proof.
  induction blk as [|t blk IH]; intros vals Hok; cbn [lower fold_left aeval]; [reflexivity|].
  destruct Hok as [Ht Hb].
  assert (E : eval_generic_body Xnan ext_operations (rev vals ++ tv) (lterm (length tv) (length vals) t)
              = rev (vals ++ [aeval1 tv vals t]) ++ tv).
  { rewrite rev_app_distr. cbn [rev app]. unfold eval_generic_body.
    destruct t as [r|o r|o r1 r2]; cbn [lterm aeval1 aterm_ok] in *.
    - now rewrite lref_correct.
    - now rewrite lref_correct.
    - destruct Ht. now rewrite !lref_correct. }
  rewrite E. specialize (IH (vals ++ [aeval1 tv vals t])).
  rewrite app_length in IH. cbn [length] in IH. rewrite Nat.add_1_r in IH.
  now apply IH.
Qed.

Lemma aeval_length tv blk : forall vals, length (aeval tv vals blk) = length vals + length blk.
Proof.
  induction blk as [|t blk IH]; intros vals; cbn [aeval length]; [lia|].
  rewrite IH, app_length. cbn. lia.
Qed.

(** ** The derivative block of each operation.  [vu tu] ([vv tv]): absolute positions of the value
    and tangent of the operand(s).  Result: the block, and where its value and tangent are. *)
Definition nan_tail : list aterm := [AB Sub (RT 0) (RT 0); AU Inv (RT 1)].

Definition dblock_un (o : unary_op) (vu tu : nat) : list aterm * ref * ref :=
  match o with
  | Neg => ([AU Neg (RA vu); AU Neg (RA tu)], RT 0, RT 1)
  | Abs => ([AU Abs (RA vu); AB Div (RA vu) (RT 0); AB Mul (RA tu) (RT 1)], RT 0, RT 2)
  | Inv => ([AU Inv (RA vu); AU Sqr (RA vu); AB Div (RA tu) (RT 1); AU Neg (RT 2)], RT 0, RT 3)
  | Sqr => ([AU Sqr (RA vu); AB Add (RA vu) (RA vu); AB Mul (RT 1) (RA tu)], RT 0, RT 2)
  | Sqrt => ([AU Sqrt (RA vu); AB Add (RT 0) (RT 0); AB Div (RA tu) (RT 1)], RT 0, RT 2)
  | Cos => ([AU Cos (RA vu); AU Sin (RA vu); AB Mul (RA tu) (RT 1); AU Neg (RT 2)], RT 0, RT 3)
  | Sin => ([AU Sin (RA vu); AU Cos (RA vu); AB Mul (RA tu) (RT 1)], RT 0, RT 2)
  | Tan => ([AU Tan (RA vu); AU Sqr (RT 0); AB Mul (RA tu) (RT 1); AB Add (RA tu) (RT 2)], RT 0, RT 3)
  | Exp => ([AU Exp (RA vu); AB Mul (RA tu) (RT 0)], RT 0, RT 1)
  | Ln => ([AU Ln (RA vu); AB Div (RA tu) (RA vu); AB Sub (RT 0) (RT 0); AB Add (RT 1) (RT 2)], RT 0, RT 3)
  | _ => (AU o (RA vu) :: nan_tail, RT 0, RT 2)
  end.

Definition dblock_bin (o : binary_op) (vu tu vv tv : nat) : list aterm * ref * ref :=
  match o with
  | Add => ([AB Add (RA vu) (RA vv); AB Add (RA tu) (RA tv)], RT 0, RT 1)
  | Sub => ([AB Sub (RA vu) (RA vv); AB Sub (RA tu) (RA tv)], RT 0, RT 1)
  | Mul => ([AB Mul (RA vu) (RA vv); AB Mul (RA tu) (RA vv); AB Mul (RA tv) (RA vu); AB Add (RT 1) (RT 2)], RT 0, RT 3)
  | Div => ([AB Div (RA vu) (RA vv); AB Mul (RT 0) (RA tv); AB Sub (RA tu) (RT 1); AB Div (RT 2) (RA vv)], RT 0, RT 3)
  end.

Definition dblock (t : term) (m : list (nat * nat)) : list aterm * ref * ref :=
  match t with
  | Forward u => let p := nth u m (0, 0) in ([], RA (fst p), RA (snd p))
  | Unary o u => let p := nth u m (0, 0) in dblock_un o (fst p) (snd p)
  | Binary o u v => let p := nth u m (0, 0) in let q := nth v m (0, 0) in
                    dblock_bin o (fst p) (snd p) (fst q) (snd q)
  end.

Definition absr (len : nat) (r : ref) : nat := match r with RA a => a | RT j => len + j end.

Fixpoint tan_aux (P : list term) (m : list (nat * nat)) (len : nat) : list term * list (nat * nat) :=
  match P with
  | [] => ([], m)
  | t :: P' =>
      let '(blk, rv, rt) := dblock t m in
      let '(Q, mf) := tan_aux P' ((absr len rv, absr len rt) :: m) (len + length blk) in
      (lower len 0 blk ++ Q, mf)
  end.

(** initial map: new inputs are [values ++ tangents] *)
Definition init_map (n : nat) : list (nat * nat) := map (fun j => (2 * n - 1 - j, n - 1 - j)) (seq 0 n).

Definition tan_prog (P : list term) (n : nat) : list term * list (nat * nat) := tan_aux P (init_map n) (2 * n).

(** every reference of [P] is in scope ([n] inputs) *)
Fixpoint wscoped (P : list term) (n : nat) : bool :=
  match P with
  | [] => true
  | t :: P' =>
      (match t with
       | Forward u | Unary _ u => Nat.ltb u n
       | Binary _ u v => Nat.ltb u n && Nat.ltb v n
       end) && wscoped P' (S n)
  end.

(** ** Soundness *)

Lemma Xderive_pt_weaken f x y y' : Xderive_pt f x y -> (y' = Xnan \/ y' = y) -> Xderive_pt f x y'.
Proof. intros H [-> | ->]; [|exact H]. unfold Xderive_pt. now destruct x. Qed.

Lemma getb_app l tv a : a < length tv -> getb (l ++ tv) a = getb tv a.
Proof.
  intros H. unfold getb. rewrite app_length.
  rewrite app_nth2 by lia. f_equal. lia.
Qed.

Lemma getb_new vals tv j : j < length vals -> getb (rev vals ++ tv) (length tv + j) = nth j vals Xnan.
Proof.
  intros H. unfold getb. rewrite app_length, rev_length.
  rewrite app_nth1 by (rewrite rev_length; lia).
  rewrite rev_nth by lia. f_equal. lia.
Qed.

Lemma getb_absr vals tv r : ref_ok (length tv) (length vals) r ->
  getb (rev vals ++ tv) (absr (length tv) r) = rget tv vals r.
Proof.
  destruct r as [a|j]; cbn; intros H; [now apply getb_app|now apply getb_new].
Qed.

Section Sound.
Variable t0 : ExtendedR.

(** value/tangent pair [(v, d)] represents function [f] at [t0] *)
Definition Rep (f : XF) (v d : ExtendedR) : Prop := v = f t0 /\ Xderive_pt f t0 d.

Lemma Xmul_1_r_or x : x = Xnan \/ Xmul x (Xreal 1) = x.
Proof. destruct x; [now left|right]. cbn. now rewrite Rmult_1_r. Qed.

(** unary blocks *)
Lemma dblock_un_sound o vu tu tv (f : XF) :
  Rep f (getb tv vu) (getb tv tu) ->
  let '(blk, rv, rt) := dblock_un o vu tu in
  let vals := aeval tv [] blk in
  Rep (fun t => unary ext_operations o (f t)) (rget tv vals rv) (rget tv vals rt).
Proof.
  intros [Hv Hd].
  destruct o; cbn [dblock_un nan_tail aeval aeval1 rget app nth unary ext_operations]; split; try (now rewrite Hv);
    rewrite ?Hv.
  - (* Neg *) now apply Xderive_pt_neg.
  - (* Abs *) eapply Xderive_pt_weaken; [apply Xderive_pt_abs, Hd|].
    destruct (f t0) as [|r]; [left; now destruct (getb tv tu)|]. cbn.
    destruct (getb tv tu) as [|d]; [now left|]. cbn.
    unfold Xdiv'. destruct (is_zero_spec (Rabs r)) as [E|E]; [now left|]. cbn.
    destruct (Raux.Rcompare_spec r 0) as [Hr|Hr|Hr].
    + right. f_equal. rewrite Rabs_left by exact Hr. field. lra.
    + subst r. rewrite Rabs_R0 in E. now elim E.
    + right. f_equal. rewrite Rabs_right by lra. field. lra.
  - (* Inv *) now apply Xderive_pt_inv.
  - (* Sqr *) eapply Xderive_pt_weaken;
      [apply (Xderive_pt_eq_fun (fun x => Xmul (f x) (f x))); [|apply Xderive_pt_mul; exact Hd]|].
    + intros x. now destruct (f x).
    + destruct (f t0) as [|r]; [now left|]. destruct (getb tv tu) as [|d]; [now left|]. right. cbn. f_equal. ring.
  - (* Sqrt *) now apply Xderive_pt_sqrt.
  - (* Cos *) eapply Xderive_pt_weaken; [apply Xderive_pt_cos, Hd|].
    destruct (f t0) as [|r]; [left; now destruct (getb tv tu)|]. destruct (getb tv tu) as [|d]; [now left|]. right. cbn. f_equal. ring.
  - (* Sin *) now apply Xderive_pt_sin.
  - (* Tan *) eapply Xderive_pt_weaken; [apply Xderive_pt_tan, Hd|].
    destruct (f t0) as [|r]; [left; now destruct (getb tv tu)|]. cbn. unfold Xtan'.
    destruct (is_zero (cos r)); [left; now destruct (getb tv tu)|].
    destruct (getb tv tu) as [|d]; [now left|]. right. cbn. f_equal. ring.
  - (* Atan *) destruct (Xatan (f t0)); cbn; [now destruct t0|]. rewrite Rminus_diag_eq by reflexivity.
    unfold Xinv'. destruct (is_zero_spec 0); [now destruct t0|lra].
  - (* Exp *) now apply Xderive_pt_exp.
  - (* Ln *) eapply Xderive_pt_weaken; [apply Xderive_pt_ln, Hd|].
    destruct (f t0) as [|r]; [left; now destruct (getb tv tu)|]. cbn. unfold Xln', Xdiv'.
    destruct (is_positive_spec r) as [Hr|Hr].
    + rewrite Raux.Rcompare_Gt by exact Hr.
      destruct (getb tv tu) as [|d]; [now left|]. cbn. unfold Xdiv'.
      destruct (is_zero_spec r); [lra|]. right. cbn. f_equal. ring.
    + left. now destruct (getb tv tu) as [|d]; cbn; [|unfold Xdiv'; destruct (is_zero r)].
  - (* PowerInt *) destruct (Xpower_int (f t0) n); cbn; [now destruct t0|]. rewrite Rminus_diag_eq by reflexivity.
    unfold Xinv'. destruct (is_zero_spec 0); [now destruct t0|lra].
  - (* Nearbyint *) destruct (Xlift (Basic.Rnearbyint m) (f t0)); cbn; [now destruct t0|]. rewrite Rminus_diag_eq by reflexivity.
    unfold Xinv'. destruct (is_zero_spec 0); [now destruct t0|lra].
  - (* Round *) destruct (Basic.Xround_flt m emin prec (f t0)); cbn; [now destruct t0|]. rewrite Rminus_diag_eq by reflexivity.
    unfold Xinv'. destruct (is_zero_spec 0); [now destruct t0|lra].
Qed.

Lemma dblock_bin_sound o vu tu vv tvv tv (f g : XF) :
  Rep f (getb tv vu) (getb tv tu) -> Rep g (getb tv vv) (getb tv tvv) ->
  let '(blk, rv, rt) := dblock_bin o vu tu vv tvv in
  let vals := aeval tv [] blk in
  Rep (fun t => binary ext_operations o (f t) (g t)) (rget tv vals rv) (rget tv vals rt).
Proof.
  intros [Hv Hd] [Hv' Hd'].
  destruct o; cbn [dblock_bin aeval aeval1 rget app nth binary ext_operations]; split; try (now rewrite Hv, Hv');
    rewrite ?Hv, ?Hv'.
  - now apply Xderive_pt_add.
  - now apply Xderive_pt_sub.
  - now apply Xderive_pt_mul.
  - eapply Xderive_pt_weaken; [apply Xderive_pt_div; [exact Hd|exact Hd']|].
    destruct (f t0) as [|r]; [left; now destruct (getb tv tu)|].
    destruct (g t0) as [|s]; [left; now destruct (getb tv tu)|]. cbn. unfold Xdiv'.
    destruct (is_zero_spec s) as [Hs|Hs]; [left; now destruct (getb tv tu)|].
    destruct (getb tv tvv) as [|d']; [left; now destruct (getb tv tu)|].
    destruct (getb tv tu) as [|d]; [now left|]. cbn. unfold Xdiv'.
    destruct (is_zero_spec s); [lra|].
    destruct (is_zero_spec (s * s)) as [E|E]; [apply Rmult_integral in E; lra|].
    right. f_equal. field. exact Hs.
Qed.

(** the block of every operation is well formed *)
Lemma dblock_un_ok o vu tu len : vu < len -> tu < len ->
  let '(blk, rv, rt) := dblock_un o vu tu in
  blk_ok len 0 blk /\ ref_ok len (length blk) rv /\ ref_ok len (length blk) rt.
Proof. intros. destruct o; cbn; repeat split; lia. Qed.

Lemma dblock_bin_ok o vu tu vv tvv len : vu < len -> tu < len -> vv < len -> tvv < len ->
  let '(blk, rv, rt) := dblock_bin o vu tu vv tvv in
  blk_ok len 0 blk /\ ref_ok len (length blk) rv /\ ref_ok len (length blk) rt.
Proof. intros. destruct o; cbn; repeat split; lia. Qed.

(** invariant relating the function-level environment [fs] of the original program, the map [m]
    and the value list [tv] of the transformed program *)
Definition TInv (fs : list XF) (m : list (nat * nat)) (tv : list ExtendedR) : Prop :=
  length m = length fs /\
  forall i, i < length fs ->
    fst (nth i m (0, 0)) < length tv /\ snd (nth i m (0, 0)) < length tv /\
    Rep (nth i fs dflt) (getb tv (fst (nth i m (0, 0)))) (getb tv (snd (nth i m (0, 0)))).

Lemma TInv_push fs m tv vals (F : XF) rv rt :
  TInv fs m tv ->
  ref_ok (length tv) (length vals) rv -> ref_ok (length tv) (length vals) rt ->
  Rep F (rget tv vals rv) (rget tv vals rt) ->
  TInv (F :: fs) ((absr (length tv) rv, absr (length tv) rt) :: m) (rev vals ++ tv).
Proof.
  intros [Hl H] Hrv Hrt HF. split; [cbn; now rewrite Hl|].
  intros [|i] Hi; cbn [nth fst snd].
  - rewrite !getb_absr by assumption. rewrite app_length, rev_length.
    repeat split; try apply HF.
    + destruct rv; cbn in *; lia.
    + destruct rt; cbn in *; lia.
  - cbn in Hi. destruct (H i ltac:(lia)) as (Ha & Hb & HR).
    rewrite app_length. repeat split; try lia.
    + rewrite !getb_app by assumption. apply HR.
    + rewrite !getb_app by assumption. apply HR.
Qed.

Lemma tan_step fs m tv t :
  TInv fs m tv ->
  wscoped [t] (length fs) = true ->
  let '(blk, rv, rt) := dblock t m in
  TInv (eval_generic_body dflt fun_ops fs t) ((absr (length tv) rv, absr (length tv) rt) :: m)
      (fold_left (eval_generic_body Xnan ext_operations) (lower (length tv) 0 blk) tv)
  /\ length (fold_left (eval_generic_body Xnan ext_operations) (lower (length tv) 0 blk) tv) = length tv + length blk.
Proof.
  intros HI Hs. pose proof HI as [Hl H]. cbn [wscoped] in Hs. rewrite andb_true_r in Hs.
  destruct t as [u|o u|o u v]; cbn [dblock].
  - (* Forward *) apply Nat.ltb_lt in Hs. destruct (H u Hs) as (Ha & Hb & HR).
    cbn [lower fold_left length]. split; [|lia].
    apply (TInv_push fs m tv [] (nth u fs dflt)); cbn; auto.
  - apply Nat.ltb_lt in Hs. destruct (H u Hs) as (Ha & Hb & HR).
    pose proof (dblock_un_ok o _ _ (length tv) Ha Hb) as Hok.
    pose proof (dblock_un_sound o _ _ tv _ HR) as Hsd.
    destruct (dblock_un o (fst (nth u m (0, 0))) (snd (nth u m (0, 0)))) as [[blk rv] rt].
    destruct Hok as (Hb1 & Hb2 & Hb3).
    pose proof (lower_correct tv blk [] Hb1) as E. cbn [rev app length] in E. rewrite E.
    split; [|rewrite app_length, rev_length, aeval_length; cbn; lia].
    apply (TInv_push fs m tv (aeval tv [] blk) (fun t => unary ext_operations o (nth u fs dflt t)));
      rewrite ?aeval_length; cbn [length plus]; auto.
  - apply andb_prop in Hs as [Hs1 Hs2]. apply Nat.ltb_lt in Hs1, Hs2.
    destruct (H u Hs1) as (Ha & Hb & HR). destruct (H v Hs2) as (Ha' & Hb' & HR').
    pose proof (dblock_bin_ok o _ _ _ _ (length tv) Ha Hb Ha' Hb') as Hok.
    pose proof (dblock_bin_sound o _ _ _ _ tv _ _ HR HR') as Hsd.
    destruct (dblock_bin o (fst (nth u m (0, 0))) (snd (nth u m (0, 0))) (fst (nth v m (0, 0))) (snd (nth v m (0, 0)))) as [[blk rv] rt].
    destruct Hok as (Hb1 & Hb2 & Hb3).
    pose proof (lower_correct tv blk [] Hb1) as E. cbn [rev app length] in E. rewrite E.
    split; [|rewrite app_length, rev_length, aeval_length; cbn; lia].
    apply (TInv_push fs m tv (aeval tv [] blk) (fun t => binary ext_operations o (nth u fs dflt t) (nth v fs dflt t)));
      rewrite ?aeval_length; cbn [length plus]; auto.
Qed.

Lemma tan_aux_sound P : forall fs m tv,
  TInv fs m tv -> wscoped P (length fs) = true ->
  let '(Q, mf) := tan_aux P m (length tv) in
  TInv (eval_fun P fs) mf (eval_ext Q tv).
Proof.
  induction P as [|t P IH]; intros fs m tv HI Hs; cbn [tan_aux].
  - exact HI.
  - cbn [wscoped] in Hs. apply andb_prop in Hs as [Hs1 Hs2].
    assert (Hs1' : wscoped [t] (length fs) = true) by (cbn [wscoped]; now rewrite Hs1).
    pose proof (tan_step fs m tv t HI Hs1') as Hstep.
    destruct (dblock t m) as [[blk rv] rt]. destruct Hstep as [HI' Hlen].
    specialize (IH (eval_generic_body dflt fun_ops fs t) _ _ HI').
    assert (Hlf : length (eval_generic_body dflt fun_ops fs t) = S (length fs)) by (destruct t; reflexivity).
    rewrite Hlf in IH. specialize (IH Hs2). rewrite Hlen in IH.
    destruct (tan_aux P ((absr (length tv) rv, absr (length tv) rt) :: m) (length tv + length blk)) as [Q mf].
    unfold eval_ext, eval_generic. rewrite fold_left_app. exact IH.
Qed.

End Sound.

Lemma nth_map_lt {A B} (f : A -> B) l i d d' : i < length l -> nth i (map f l) d = f (nth i l d').
Proof. revert i. induction l as [|x l IH]; intros [|i]; cbn; try lia; auto. intros H. apply IH. lia. Qed.

Lemma init_map_nth n i : i < n -> nth i (init_map n) (0, 0) = (2 * n - 1 - i, n - 1 - i).
Proof.
  intros H. unfold init_map.
  rewrite (nth_map_lt _ _ _ _ 0) by (rewrite seq_length; exact H).
  rewrite seq_nth by exact H. reflexivity.
Qed.

Lemma init_map_length n : length (init_map n) = n.
Proof. unfold init_map. now rewrite map_length, seq_length. Qed.

Lemma TInv_init t0 n (xs : list XF) (dx : list ExtendedR) :
  length xs = n -> length dx = n ->
  (forall j, j < n -> Xderive_pt (nth j xs dflt) t0 (nth j dx Xnan)) ->
  TInv t0 xs (init_map n) (map (fun f : XF => f t0) xs ++ dx).
Proof.
  intros Hx Hd H. split; [now rewrite init_map_length|].
  intros i Hi. rewrite Hx in Hi. rewrite init_map_nth by exact Hi. cbn [fst snd].
  rewrite app_length, map_length, Hx, Hd.
  repeat split; try lia.
  - unfold getb. rewrite app_length, map_length, Hx, Hd.
    replace (n + n - 1 - (2 * n - 1 - i)) with i by lia.
    rewrite app_nth1 by (rewrite map_length; lia).
    change Xnan with ((fun f : XF => f t0) dflt). now rewrite map_nth.
  - unfold getb. rewrite app_length, map_length, Hx, Hd.
    replace (n + n - 1 - (n - 1 - i)) with (n + i) by lia.
    rewrite app_nth2 by (rewrite map_length; lia). rewrite map_length, Hx.
    replace (n + i - n) with i by lia. now apply H.
Qed.

Lemma eval_fun_length P : forall fs, length (eval_fun P fs) = length P + length fs.
Proof.
  unfold eval_fun, eval_generic.
  induction P as [|t P IH]; intros fs; cbn [fold_left length]; [reflexivity|].
  rewrite IH. destruct t; cbn; lia.
Qed.

Lemma eval_ext_length P : forall env, length (eval_ext P env) = length P + length env.
Proof.
  unfold eval_ext, eval_generic.
  induction P as [|t P IH]; intros fs; cbn [fold_left length]; [reflexivity|].
  rewrite IH. destruct t; cbn; lia.
Qed.

(** *** Soundness of the transformation, position form *)
Theorem tan_prog_sound P n (xs : list XF) (dx : list ExtendedR) t0 :
  length xs = n -> length dx = n -> wscoped P n = true ->
  (forall j, j < n -> Xderive_pt (nth j xs dflt) t0 (nth j dx Xnan)) ->
  let '(Q, mf) := tan_prog P n in
  let tv := eval_ext Q (map (fun f : XF => f t0) xs ++ dx) in
  forall k, k < length P + n ->
    fst (nth k mf (0, 0)) < length tv /\ snd (nth k mf (0, 0)) < length tv /\
    getb tv (fst (nth k mf (0, 0))) = nth k (eval_ext P (map (fun f : XF => f t0) xs)) Xnan /\
    Xderive_pt (fun t => nth k (eval_ext P (map (fun f : XF => f t) xs)) Xnan) t0 (getb tv (snd (nth k mf (0, 0)))).
Proof.
  intros Hx Hd Hs H. unfold tan_prog.
  pose proof (tan_aux_sound t0 P xs (init_map n) _ (TInv_init t0 n xs dx Hx Hd H)) as HS.
  assert (Hs' : wscoped P (length xs) = true) by now rewrite Hx.
  specialize (HS Hs').
  rewrite app_length, map_length, Hx, Hd in HS. replace (n + n) with (2 * n) in HS by lia.
  destruct (tan_aux P (init_map n) (2 * n)) as [Q mf].
  intros k Hk. destruct HS as [_ HS]. rewrite eval_fun_length, Hx in HS.
  destruct (HS k Hk) as (Ha & Hb & Hv & Hder).
  repeat split; try assumption.
  - rewrite Hv. apply eval_fun_nth.
  - eapply Xderive_pt_eq_fun; [|exact Hder]. intros x. cbn beta. symmetry. apply eval_fun_nth.
Qed.

(** *** Output form: [tan_outs P n ks] ends with one [Forward] per requested original index
    [k] in [ks]; afterwards the tangent of [ks_j] is output [length ks - 1 - j]. *)
Definition tan_outs (P : list term) (n : nat) (ks : list nat) : list term :=
  let '(Q, mf) := tan_prog P n in
  Q ++ lower (2 * n + length Q) 0 (map (fun k => AF (RA (snd (nth k mf (0, 0))))) ks).

Lemma aeval_forwards tv (az : list nat) : forall vals,
  aeval tv vals (map (fun a => AF (RA a)) az) = vals ++ map (getb tv) az.
Proof.
  induction az as [|a az IH]; intros vals; cbn [map aeval]; [now rewrite app_nil_r|].
  rewrite IH. cbn. now rewrite <- app_assoc.
Qed.

Lemma blk_ok_forwards len (az : list nat) : (forall a, In a az -> a < len) ->
  forall k, blk_ok len k (map (fun a => AF (RA a)) az).
Proof.
  induction az as [|a az IH]; intros H k; cbn; [exact I|].
  split; [apply H; now left|]. apply IH. intros b Hb. apply H. now right.
Qed.

Theorem tan_outs_sound P n ks (xs : list XF) (dx : list ExtendedR) t0 :
  length xs = n -> length dx = n -> wscoped P n = true ->
  (forall j, j < n -> Xderive_pt (nth j xs dflt) t0 (nth j dx Xnan)) ->
  (forall k, In k ks -> k < length P + n) ->
  forall j, j < length ks ->
    Xderive_pt (fun t => nth (nth j ks 0) (eval_ext P (map (fun f : XF => f t) xs)) Xnan) t0
               (nth (length ks - 1 - j) (eval_ext (tan_outs P n ks) (map (fun f : XF => f t0) xs ++ dx)) Xnan).
Proof.
  intros Hx Hd Hs H Hks j Hj.
  pose proof (tan_prog_sound P n xs dx t0 Hx Hd Hs H) as HS. unfold tan_outs.
  destruct (tan_prog P n) as [Q mf]. cbn zeta in HS.
  set (env := map (fun f : XF => f t0) xs ++ dx) in *.
  set (tv := eval_ext Q env) in *.
  assert (Hlen : length tv = 2 * n + length Q).
  { unfold tv, env. rewrite eval_ext_length, app_length, map_length, Hx, Hd. lia. }
  unfold eval_ext, eval_generic. rewrite fold_left_app. fold (eval_generic Xnan ext_operations Q env). fold (eval_ext Q env). fold tv.
  rewrite <- Hlen.
  rewrite (map_map (fun k => snd (nth k mf (0, 0))) (fun a => AF (RA a)) ks) at 1 || idtac.
  replace (map (fun k : nat => AF (RA (snd (nth k mf (0, 0))))) ks)
    with (map (fun a => AF (RA a)) (map (fun k => snd (nth k mf (0, 0))) ks)) by now rewrite map_map.
  pose proof (lower_correct tv (map (fun a => AF (RA a)) (map (fun k => snd (nth k mf (0, 0))) ks)) []) as E.
  cbn [rev app length] in E. rewrite E.
  2:{ apply blk_ok_forwards. intros a Ha. apply in_map_iff in Ha as (k & <- & Hk). now apply (HS k (Hks k Hk)). }
  rewrite aeval_forwards. cbn [app].
  rewrite app_nth1 by (rewrite rev_length, !map_length; lia).
  rewrite rev_nth by (rewrite !map_length; lia). rewrite !map_length.
  replace (length ks - S (length ks - 1 - j)) with j by lia.
  rewrite map_map.
  rewrite (nth_map_lt _ _ _ _ 0) by exact Hj.
  apply HS. apply Hks. now apply nth_In.
Qed.

(** ** Straight lines through a point: the inputs along which a directional derivative is taken *)
Definition line1 (a d : R) : XF := fun t => Xadd (Xreal a) (Xmul (Xreal d) t).
Definition lineF (a e : list R) : list XF := map (fun ad => line1 (fst ad) (snd ad)) (combine a e).
(** the point reached at parameter [r] *)
Definition line_pt (a e : list R) (r : R) : list R := map (fun ad => (fst ad + snd ad * r)%R) (combine a e).

Lemma line1_derive a d r : Xderive_pt (line1 a d) (Xreal r) (Xreal d).
Proof.
  unfold Xderive_pt, line1. cbn. intros v.
  unfold proj_fun. cbn.
  intros eps Heps. exists (mkposreal 1 Rlt_0_1). intros h Hh _.
  replace ((a + d * (r + h) - (a + d * r)) / h - d)%R with 0%R by (field; exact Hh).
  now rewrite Rabs_R0.
Qed.

Lemma lineF_at a e r : length a = length e ->
  map (fun f : XF => f (Xreal r)) (lineF a e) = map Xreal (line_pt a e r).
Proof.
  intros _. unfold lineF, line_pt. rewrite !map_map. apply map_ext. intros [x d]. reflexivity.
Qed.

Lemma lineF_length a e : length a = length e -> length (lineF a e) = length a.
Proof. intros H. unfold lineF. rewrite map_length, combine_length, <- H. apply Nat.min_id. Qed.

Lemma lineF_derive a e r j : length a = length e -> j < length a ->
  Xderive_pt (nth j (lineF a e) dflt) (Xreal r) (nth j (map Xreal e) Xnan).
Proof.
  intros Hl Hj. unfold lineF.
  rewrite (nth_map_lt _ _ _ _ (0%R, 0%R)) by (rewrite combine_length, <- Hl, Nat.min_id; exact Hj).
  rewrite combine_nth by exact Hl. cbn [fst snd].
  rewrite (nth_map_lt _ _ _ _ 0%R) by (rewrite <- Hl; exact Hj).
  apply line1_derive.
Qed.

(** *** The theorem the properties use: along the straight line [a + t e], at parameter [r], the
    selected outputs of [tan_outs P n ks] evaluated on [(a + r e) ++ e] are the derivatives with
    respect to [t] of the corresponding outputs of [P]. *)
Theorem tan_line P n ks (a e : list R) (r : R) :
  length a = n -> length e = n -> wscoped P n = true ->
  (forall k, In k ks -> k < length P + n) ->
  forall j, j < length ks ->
    Xderive_pt (fun t => nth (nth j ks 0) (eval_ext P (map (fun f : XF => f t) (lineF a e))) Xnan) (Xreal r)
               (nth (length ks - 1 - j) (eval_ext (tan_outs P n ks) (map Xreal (line_pt a e r ++ e))) Xnan).
Proof.
  intros Ha He Hs Hks j Hj.
  assert (Hae : length a = length e) by lia.
  rewrite map_app, <- (lineF_at a e r Hae).
  apply tan_outs_sound; try assumption.
  - rewrite lineF_length; assumption.
  - now rewrite map_length.
  - intros i Hi. apply lineF_derive; [exact Hae|lia].
Qed.

(** real-valued reading: when the tangent output is a real number [d], the real function
    [t |-> output of P at a + t e] is derivable at [r] with derivative [d]. *)
Corollary tan_line_real P n ks a e r j d :
  length a = n -> length e = n -> wscoped P n = true ->
  (forall k, In k ks -> k < length P + n) -> j < length ks ->
  nth (length ks - 1 - j) (eval_ext (tan_outs P n ks) (map Xreal (line_pt a e r ++ e))) Xnan = Xreal d ->
  forall v, derivable_pt_lim
    (fun t => match nth (nth j ks 0) (eval_ext P (map Xreal (line_pt a e t))) Xnan with Xreal y => y | Xnan => v end) r d.
Proof.
  intros Ha He Hs Hks Hj Hd v.
  pose proof (tan_line P n ks a e r Ha He Hs Hks j Hj) as H. rewrite Hd in H.
  unfold Xderive_pt in H.
  destruct (nth (nth j ks 0) (eval_ext P (map (fun f : XF => f (Xreal r)) (lineF a e))) Xnan); [contradiction|].
  specialize (H v). unfold proj_fun in H.
  eapply derivable_pt_lim_ext; [|exact H]. intros t. cbn beta.
  now rewrite (lineF_at a e t) by lia.
Qed.
