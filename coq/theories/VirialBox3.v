(** * VirialBox3: the third-virial limit instantiated on a regenerated program by computation: well-scopedness of P, D1, D2,
    interval evaluations of D1 and D2 over the density box, point evaluations of D3 and of g(0), g'(0). *)
From Coq Require Import Reals List ZArith Lia Lra.
From Interval Require Import Float.Basic Interval.Interval Eval.Prog Eval.Tree Real.Xreal Eval.Eval.
From FeosVerif Require Import ProgSem ProgSemBig AD Virial VirialProg VirialProg3 BoxBig VirialBox.
Import ListNotations.
Local Open Scope R_scope.

(** the box of the second-derivative program: ((point ++ u) ++ (u ++ 0)), density in [-eps, eps] *)
Definition rho_box2 (T : Z * Z) (eps : Z * Z) (cs : list (Z * Z)) : list ispec :=
  rho_box T eps cs ++ map Pt (unitZ (2 + length cs) 1 ++ repeat (0, 0)%Z (2 + length cs)).

Lemma Forall2_pts l : Forall2 spec_R (map Pt l) (inputs_R l).
Proof. unfold inputs_R. induction l; cbn; constructor; auto. reflexivity. Qed.

Lemma rho_box2_spec T eps cs t : Rabs t <= dy_R eps ->
  Forall2 spec_R (rho_box2 T eps cs)
    ((line_pt (inputs_R (T :: (0, 0)%Z :: cs)) (inputs_R (unitZ (2 + length cs) 1)) t
       ++ inputs_R (unitZ (2 + length cs) 1))
     ++ inputs_R (unitZ (2 + length cs) 1 ++ repeat (0, 0)%Z (2 + length cs))).
Proof.
  intros Ht. unfold rho_box2. apply Forall2_app; [now apply rho_box_spec|apply Forall2_pts].
Qed.

Section Inst3.
Variables (P : list term) (T eps : Z * Z) (cs : list (Z * Z)) (prec : Z).
Let n := (2 + length cs)%nat.
Let st := T :: (0, 0)%Z :: cs.
Let u := unitZ n 1.
Let z := repeat (0, 0)%Z n.
Let D1 := tan_outs P n [0%nat].
Let D2 := tan_outs D1 (2 * n)%nat [0%nat].
Let D3 := tan_outs D2 (4 * n)%nat [0%nat].

Definition virial_obligations3 : bool :=
  wscoped P n && wscoped D1 (2 * n)%nat && wscoped D2 (4 * n)%nat
  && is_bndB (nth 0 (evalIB_box prec D1 (rho_box T eps cs)) IB.nai)
  && is_bndB (nth 0 (evalIB_box prec D2 (rho_box2 T eps cs)) IB.nai)
  && is_bndB (nth 0 (evalIB prec D3 (((st ++ u) ++ (u ++ z)) ++ ((u ++ z) ++ (z ++ z)))) IB.nai)
  && is_zeroB (nth 0 (evalIB prec P st) IB.nai)
  && is_zeroB (nth 0 (evalIB prec D1 (st ++ u)) IB.nai)
  && Z.ltb 0 (fst eps).

Let a := inputs_R st.
Let e := inputs_R u.

Lemma zR : inputs_R z = map (fun _ => 0) e.
Proof. unfold z, e, u. apply inputs_R_zeros. Qed.

Theorem virial3_from_obligations : virial_obligations3 = true ->
  forall x, 0 < x -> exists delta, 0 < delta /\
    forall rho, rho <> 0 -> Rabs rho < delta ->
      Rabs (((rho * vp_g1 P n a e rho - vp_g P a e rho) / rho ^ 2 - vp_g2 P n a e 0 / 2) / rho - vp_k P n a e / 3) < x.
Proof.
  unfold virial_obligations3. intros H.
  repeat (apply andb_prop in H; destruct H as [H ?]).
  match goal with Hz : Z.ltb 0 (fst eps) = true |- _ => apply Z.ltb_lt in Hz; rename Hz into Heps end.
  assert (Hla : length a = n) by (unfold a, st, inputs_R, n; cbn; now rewrite map_length).
  assert (Hle : length e = n) by (unfold e, u, inputs_R, unitZ; now rewrite !map_length, seq_length).
  assert (Hd0 : 0 < dy_R eps).
  { unfold dy_R. apply Rmult_lt_0_compat; [now apply IZR_lt|apply powerRZ_lt; lra]. }
  assert (Hl0 : line_pt a e 0 = a).
  { assert (G : forall (l m : list R), length l = length m -> line_pt l m 0 = l).
    { induction l as [|y l IH]; intros [|w m] Hlm; cbn in *; try reflexivity; try discriminate.
      unfold line_pt in *. cbn. f_equal; [ring|]. apply IH. lia. }
    apply G. lia. }
  apply (virial_program3 P n a e (dy_R eps) Hla Hle).
  - unfold n. lia.
  - assumption.
  - assumption.
  - unfold n. lia.
  - assumption.
  - unfold n. lia.
  - exact Hd0.
  - intros t Ht. unfold a, e, st, u, n.
    eapply (evalIB_box_wf prec _ (rho_box T eps cs)); [apply rho_box_spec; lra|].
    fold n. fold D1. assumption.
  - intros t Ht. rewrite <- zR. unfold a, e. rewrite <- (inputs_R_app u z). unfold st, u, z, n.
    eapply (evalIB_box_wf prec _ (rho_box2 T eps cs)); [apply rho_box2_spec; lra|].
    fold n. fold D1. fold D2. assumption.
  - rewrite <- zR. unfold a, e. rewrite <- !inputs_R_app. fold D1 D2 D3.
    apply (evalIB_wf prec D3 _ 0). assumption.
  - unfold vp_g. rewrite Hl0. unfold a.
    assert (Hz : is_zeroB (nth 0 (evalIB prec P st) IB.nai) = true) by assumption.
    pose proof (is_zeroB_correct _ _ Hz (evalIB_correct prec P st 0)) as Hv. unfold out_ext in Hv.
    rewrite Hv. reflexivity.
  - unfold vp_g1. rewrite Hl0. unfold a, e. rewrite <- inputs_R_app. fold D1.
    assert (Hz : is_zeroB (nth 0 (evalIB prec D1 (st ++ u)) IB.nai) = true) by assumption.
    pose proof (is_zeroB_correct _ _ Hz (evalIB_correct prec D1 (st ++ u) 0)) as Hv. unfold out_ext in Hv.
    rewrite Hv. reflexivity.
Qed.
End Inst3.
