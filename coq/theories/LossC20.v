(** * C20 — the robust loss functions of the estimator ([src/estimator/loss.rs])

    [loss_apply l s r] is [Loss::apply] for one residual [r], written exactly as coded (same
    operations, same branch test), over the reals.  [closed_form l s r = sqrt (s^2 * rho_l (r^2 / s^2))]
    is the documented closed form of the property.  Everything is stated for all residuals [r]
    and all scaling factors [s <> 0] (the code only uses [s*s], [1/(s*s)] and [|r/s|]). *)
From Coq Require Import Reals Lra Lia.
Open Scope R_scope.

Inductive loss := Linear | SoftL1 | Huber | Cauchy | Arctan.

(** the documented rho functions (doc comment of [enum Loss]) *)
Definition rho (l : loss) (z : R) : R :=
  match l with
  | Linear => z
  | SoftL1 => 2 * (sqrt (1 + z) - 1)
  | Huber => if Rle_dec z 1 then z else 2 * sqrt z - 1
  | Cauchy => ln (1 + z)
  | Arctan => atan z
  end.

Definition closed_form (l : loss) (s r : R) : R := sqrt (s * s * rho l (r * r / (s * s))).

(** [Loss::apply], one element ([Linear] ignores the scaling factor: it is a unit variant) *)
Definition loss_apply (l : loss) (s r : R) : R :=
  match l with
  | Linear => r
  | SoftL1 => sqrt (s * s * (2 * (sqrt (r * r * (1 / (s * s)) + 1) - 1)))
  | Huber => if Rle_dec (r * r * (1 / (s * s))) 1 then Rabs r
             else sqrt (s * s * (2 * Rabs (r / s) - 1))
  | Cauchy => sqrt (s * s * ln (1 + r * r * (1 / (s * s))))
  | Arctan => sqrt (s * s * atan (r * r * (1 / (s * s))))
  end.

(** the Huber inlier branch as it was before the repair ([ri] instead of [ri.abs()]) *)
Definition loss_apply_huber_signed (s r : R) : R :=
  if Rle_dec (r * r * (1 / (s * s))) 1 then r else sqrt (s * s * (2 * Rabs (r / s) - 1)).

(** ** small facts *)

Lemma ss_pos s : s <> 0 -> 0 < s * s.
Proof. intros Hs. destruct (Rtotal_order s 0) as [H|[H|H]]; [nra|contradiction|nra]. Qed.

Lemma z_eq s r : s <> 0 -> r * r * (1 / (s * s)) = r * r / (s * s).
Proof. intros Hs. pose proof (ss_pos s Hs). field. nra. Qed.

Lemma z_nonneg s r : s <> 0 -> 0 <= r * r / (s * s).
Proof.
  intros Hs. pose proof (ss_pos s Hs) as H. unfold Rdiv.
  apply Rmult_le_pos; [nra|]. left. now apply Rinv_0_lt_compat.
Qed.

Lemma sqrt_sq_abs x : sqrt (x * x) = Rabs x.
Proof. now rewrite <- sqrt_Rsqr_abs. Qed.

Lemma z_sqrt s r : s <> 0 -> sqrt (r * r / (s * s)) = Rabs (r / s).
Proof.
  intros Hs. rewrite <- sqrt_sq_abs. f_equal. field. exact Hs.
Qed.

Lemma atan_nonneg z : 0 <= z -> 0 <= atan z.
Proof.
  intros [Hz| <-].
  - left. rewrite <- atan_0. now apply atan_increasing.
  - rewrite atan_0. lra.
Qed.

Lemma ln_1p_nonneg z : 0 <= z -> 0 <= ln (1 + z).
Proof.
  intros [Hz| <-].
  - left. rewrite <- ln_1. apply ln_increasing; lra.
  - rewrite Rplus_0_r, ln_1. lra.
Qed.

Lemma sqrt_1p_ge z : 0 <= z -> 1 <= sqrt (1 + z).
Proof. intros Hz. rewrite <- sqrt_1 at 1. apply sqrt_le_1; lra. Qed.

Lemma rho_nonneg l z : 0 <= z -> 0 <= rho l z.
Proof.
  intros Hz. destruct l; simpl.
  - exact Hz.
  - pose proof (sqrt_1p_ge z Hz). lra.
  - destruct (Rle_dec z 1) as [H|H]; [exact Hz|].
    assert (1 <= sqrt z). { rewrite <- sqrt_1. apply sqrt_le_1; lra. } lra.
  - now apply ln_1p_nonneg.
  - now apply atan_nonneg.
Qed.

(** ** the branches of Huber as rewrite rules (used by the generated correspondence goals) *)

Lemma apply_huber_inlier s r :
  r * r * (1 / (s * s)) <= 1 -> loss_apply Huber s r = Rabs r.
Proof. intros H. unfold loss_apply. destruct (Rle_dec _ 1); [reflexivity|contradiction]. Qed.

Lemma apply_huber_outlier s r :
  1 < r * r * (1 / (s * s)) -> loss_apply Huber s r = sqrt (s * s * (2 * Rabs (r / s) - 1)).
Proof. intros H. unfold loss_apply. destruct (Rle_dec _ 1); [lra|reflexivity]. Qed.

(** ** the closed form *)

Lemma apply_closed_form_robust l s r :
  s <> 0 -> l <> Linear -> loss_apply l s r = closed_form l s r.
Proof.
  intros Hs Hl. unfold closed_form. pose proof (ss_pos s Hs) as Hss.
  destruct l; [contradiction| | | |]; unfold loss_apply, rho; rewrite (z_eq s r Hs).
  - (* SoftL1 *) f_equal. f_equal. f_equal. f_equal. f_equal. ring.
  - (* Huber *)
    destruct (Rle_dec (r * r / (s * s)) 1) as [H|H].
    + replace (s * s * (r * r / (s * s))) with (r * r) by (field; exact Hs).
      now rewrite sqrt_sq_abs.
    + now rewrite z_sqrt.
  - reflexivity.
  - reflexivity.
Qed.

Lemma closed_form_linear s r : s <> 0 -> closed_form Linear s r = Rabs r.
Proof.
  intros Hs. unfold closed_form, rho.
  replace (s * s * (r * r / (s * s))) with (r * r) by (field; exact Hs).
  apply sqrt_sq_abs.
Qed.

(** The class of inputs on which the code deviates from the documented closed form (open known finding):
    [Loss::Linear] returns the signed residual. *)
Definition linear_negative (l : loss) (r : R) : Prop := l = Linear /\ r < 0.

Theorem apply_closed_form l s r :
  s <> 0 -> ~ linear_negative l r -> loss_apply l s r = closed_form l s r.
Proof.
  intros Hs Hk. destruct l.
  - rewrite closed_form_linear by exact Hs. simpl.
    rewrite Rabs_right; [reflexivity|]. apply Rle_ge. apply Rnot_lt_le. intros H. apply Hk. now split.
  - apply apply_closed_form_robust; [exact Hs|discriminate].
  - apply apply_closed_form_robust; [exact Hs|discriminate].
  - apply apply_closed_form_robust; [exact Hs|discriminate].
  - apply apply_closed_form_robust; [exact Hs|discriminate].
Qed.

Theorem linear_negative_refuted :
  exists s r, s <> 0 /\ linear_negative Linear r /\ loss_apply Linear s r <> closed_form Linear s r.
Proof.
  exists 1, (-1). split; [lra|]. split; [split; [reflexivity|lra]|].
  rewrite closed_form_linear by lra. simpl. rewrite Rabs_left; lra.
Qed.

(** on the excluded class the deviation is the sign only *)
Theorem apply_linear_abs s r : s <> 0 -> Rabs (loss_apply Linear s r) = closed_form Linear s r.
Proof. intros Hs. now rewrite closed_form_linear. Qed.

(** what a least-squares optimiser consumes: the square of the cost is s^2 rho(r^2/s^2) for EVERY loss and residual *)
Theorem apply_sq l s r :
  s <> 0 -> loss_apply l s r * loss_apply l s r = s * s * rho l (r * r / (s * s)).
Proof.
  intros Hs. destruct l.
  - simpl. field. exact Hs.
  - rewrite apply_closed_form_robust by (try exact Hs; discriminate). unfold closed_form.
    apply sqrt_sqrt. apply Rmult_le_pos; [pose proof (ss_pos s Hs); lra|]. apply rho_nonneg. now apply z_nonneg.
  - rewrite apply_closed_form_robust by (try exact Hs; discriminate). unfold closed_form.
    apply sqrt_sqrt. apply Rmult_le_pos; [pose proof (ss_pos s Hs); lra|]. apply rho_nonneg. now apply z_nonneg.
  - rewrite apply_closed_form_robust by (try exact Hs; discriminate). unfold closed_form.
    apply sqrt_sqrt. apply Rmult_le_pos; [pose proof (ss_pos s Hs); lra|]. apply rho_nonneg. now apply z_nonneg.
  - rewrite apply_closed_form_robust by (try exact Hs; discriminate). unfold closed_form.
    apply sqrt_sqrt. apply Rmult_le_pos; [pose proof (ss_pos s Hs); lra|]. apply rho_nonneg. now apply z_nonneg.
Qed.

Theorem apply_zero l s : s <> 0 -> loss_apply l s 0 = 0.
Proof.
  intros Hs. destruct l.
  - reflexivity.
  - rewrite apply_closed_form_robust by (try exact Hs; discriminate). unfold closed_form, rho.
    replace (0 * 0 / (s * s)) with 0 by (field; exact Hs).
    rewrite Rplus_0_r, sqrt_1. replace (s * s * (2 * (1 - 1))) with 0 by ring. apply sqrt_0.
  - rewrite apply_huber_inlier.
    + apply Rabs_R0.
    + rewrite z_eq by exact Hs. replace (0 * 0 / (s * s)) with 0 by (field; exact Hs). lra.
  - rewrite apply_closed_form_robust by (try exact Hs; discriminate). unfold closed_form, rho.
    replace (0 * 0 / (s * s)) with 0 by (field; exact Hs).
    rewrite Rplus_0_r, ln_1, Rmult_0_r. apply sqrt_0.
  - rewrite apply_closed_form_robust by (try exact Hs; discriminate). unfold closed_form, rho.
    replace (0 * 0 / (s * s)) with 0 by (field; exact Hs).
    rewrite atan_0, Rmult_0_r. apply sqrt_0.
Qed.

Theorem apply_nonneg l s r : s <> 0 -> l <> Linear -> 0 <= loss_apply l s r.
Proof.
  intros Hs Hl. rewrite apply_closed_form_robust by assumption. apply sqrt_pos.
Qed.

(** robust losses do not see the sign of the residual nor of the scaling factor *)
Theorem apply_even l s r : s <> 0 -> l <> Linear -> loss_apply l s (- r) = loss_apply l s r.
Proof.
  intros Hs Hl. rewrite !apply_closed_form_robust by assumption. unfold closed_form.
  now replace (- r * - r) with (r * r) by ring.
Qed.

Theorem apply_scale_sign l s r : s <> 0 -> l <> Linear -> loss_apply l (- s) r = loss_apply l s r.
Proof.
  intros Hs Hl. rewrite !apply_closed_form_robust; try assumption.
  - unfold closed_form. now replace (- s * - s) with (s * s) by ring.
  - lra.
Qed.

(** Huber: both branches coincide at the threshold |r| = |s| (the cost is continuous there) *)
Theorem huber_threshold_agree s r :
  s <> 0 -> r * r = s * s -> Rabs r = sqrt (s * s * (2 * Rabs (r / s) - 1)).
Proof.
  intros Hs H.
  assert (Hz : r * r / (s * s) = 1) by (rewrite H; field; exact Hs).
  rewrite <- (z_sqrt s r Hs), Hz, sqrt_1.
  replace (s * s * (2 * 1 - 1)) with (r * r) by (rewrite H; ring).
  symmetry. apply sqrt_sq_abs.
Qed.

(** the pre-repair Huber: refuted against the closed form on every negative inlier, with the sign jump at the threshold *)
Theorem huber_signed_inlier_refuted :
  forall s r, s <> 0 -> r < 0 -> r * r * (1 / (s * s)) <= 1 ->
  loss_apply_huber_signed s r <> closed_form Huber s r.
Proof.
  intros s r Hs Hr Hz. rewrite <- apply_closed_form_robust by (try exact Hs; discriminate).
  rewrite apply_huber_inlier by exact Hz. unfold loss_apply_huber_signed.
  destruct (Rle_dec _ 1); [|contradiction]. rewrite Rabs_left by exact Hr. lra.
Qed.

Theorem huber_signed_jump s : 0 < s ->
  loss_apply_huber_signed s (- s) = - s /\
  sqrt (s * s * (2 * Rabs (- s / s) - 1)) = s.
Proof.
  intros Hs. split.
  - unfold loss_apply_huber_signed. destruct (Rle_dec _ 1) as [H|H]; [reflexivity|].
    exfalso. apply H. right. field. lra.
  - replace (- s / s) with (-1) by (field; lra). rewrite Rabs_left by lra.
    replace (s * s * (2 * - -1 - 1)) with (s * s) by ring.
    rewrite sqrt_sq_abs. apply Rabs_right. lra.
Qed.

(** non-vacuity *)
Example closed_form_example : loss_apply Huber 1 (-3) = sqrt 5.
Proof.
  rewrite apply_huber_outlier by lra. f_equal.
  replace (-3 / 1) with (-3) by field. rewrite Rabs_left by lra. ring.
Qed.

Example not_linear_negative_example : ~ linear_negative Huber (-3).
Proof. intros [H _]. discriminate. Qed.
