(** * PRTextbookC08: the residual Helmholtz energy coded in feos-core/src/cubic.rs differentiates to the textbook
    Peng-Robinson pressure.  Reduced units of the code: beta A^res(T, V, N) with a = ak_mix (K A^3), b (A^3), n = sum N. *)
From Coq Require Import Reals Lra.
From Coquelicot Require Import Coquelicot.
Local Open Scope R_scope.

(** the expression of [PengRobinson::residual_helmholtz_energy] *)
Definition pr_A (T ak b n v : R) : R :=
  n * (ln (v / (v - b * n)) - ak / (b * sqrt 2 * 2 * T) * ln ((v + b * n * (1 + sqrt 2)) / (v + b * n * (1 - sqrt 2)))).

(** textbook Peng-Robinson pressure for n molecules in volume v (k_B = 1):  n T/(v - n b) - n^2 a/(v^2 + 2 n b v - n^2 b^2) *)
Definition pr_p_textbook (T ak b n v : R) : R :=
  n * T / (v - n * b) - n * n * ak / (v * v + 2 * n * b * v - n * b * (n * b)).

Lemma sqrt2_sq : sqrt 2 * sqrt 2 = 2. Proof. apply sqrt_sqrt. lra. Qed.
Lemma sqrt2_bounds : 1.41 < sqrt 2 < 1.42.
Proof.
  split.
  - apply Rsqr_incrst_0; [|lra|apply sqrt_pos]. unfold Rsqr. rewrite sqrt2_sq. lra.
  - apply Rsqr_incrst_0; [|apply sqrt_pos|lra]. unfold Rsqr. rewrite sqrt2_sq. lra.
Qed.

(** -k T d(beta A^res)/dV = p_textbook - n T / v  for every state with v > n b > 0 *)
Theorem pr_pressure_textbook T ak b n v : 0 < T -> 0 < b -> 0 < n -> n * b < v ->
  is_derive (pr_A T ak b n) v (- (pr_p_textbook T ak b n v - n * T / v) / T).
Proof.
  intros HT Hb Hn Hv. pose proof sqrt2_bounds as [S1 S2]. pose proof sqrt2_sq as S.
  assert (Hnb : 0 < n * b) by (apply Rmult_lt_0_compat; lra).
  assert (H1 : 0 < v - b * n) by lra.
  assert (H2 : 0 < v + b * n * (1 + sqrt 2)) by nra.
  assert (H3 : 0 < v + b * n * (1 - sqrt 2)) by nra.
  assert (Hv0 : 0 < v) by lra.
  unfold pr_A, pr_p_textbook. auto_derive.
  - repeat split; try lra; try (apply Rgt_not_eq; lra).
    + apply Rdiv_lt_0_compat; lra.
    + apply Rdiv_lt_0_compat; lra.
  - set (s := sqrt 2) in *.
    assert (D : v * v + 2 * n * b * v - n * b * (n * b) = (v + b * n * (1 + s)) * (v + b * n * (1 - s))) by (ring_simplify; nra).
    assert (S2' : s ^ 2 = 2) by (simpl; rewrite Rmult_1_r; exact S).
    assert (S3 : s ^ 3 = 2 * s) by (simpl; rewrite Rmult_1_r, S; ring).
    assert (Dpos : 0 < (v + b * n * (1 + s)) * (v + b * n * (1 - s))) by (apply Rmult_lt_0_compat; assumption).
    rewrite D.
    assert (E : forall p q r t : R, q <> 0 -> t <> 0 -> p * t = r * q -> p / q = r / t).
    { intros p q r t Hq Ht Heq. apply Rmult_eq_reg_r with (q * t); [|now apply Rmult_integral_contrapositive_currified].
      field_simplify; [|exact Ht|exact Hq]. lra. }
    assert (N1 : 2 * b * s * T * v * (v - b * n) * (v * v + 2 * n * b * v - n * b * (n * b)) <> 0).
    { rewrite D. repeat apply Rmult_integral_contrapositive_currified; apply Rgt_not_eq; lra. }
    assert (N2 : T * v * (v - b * n) * (v * v + 2 * n * b * v - n * b * (n * b)) <> 0).
    { rewrite D. repeat apply Rmult_integral_contrapositive_currified; apply Rgt_not_eq; lra. }
    field_simplify; [ | repeat split; apply Rgt_not_eq; (assumption || lra) .. ].
    rewrite ?S3, ?S2'.
    apply E; [ | | ring ].
    + intros Q; apply N1; rewrite <- Q; ring.
    + intros Q; apply N2; rewrite <- Q; ring.
Qed.

(** the same in terms of the pressure the State layer reports: p_res = - k T dA/dV, p = p_res + n k T / v *)
Corollary pr_total_pressure_textbook T ak b n v d : 0 < T -> 0 < b -> 0 < n -> n * b < v ->
  is_derive (pr_A T ak b n) v d -> - T * d + n * T / v = pr_p_textbook T ak b n v.
Proof.
  intros HT Hb Hn Hv Hd.
  pose proof (pr_pressure_textbook T ak b n v HT Hb Hn Hv) as H.
  assert (E : d = - (pr_p_textbook T ak b n v - n * T / v) / T).
  { rewrite <- (is_derive_unique _ _ _ Hd). apply is_derive_unique. exact H. }
  assert (Hv0 : 0 < v) by (assert (0 < n * b) by (apply Rmult_lt_0_compat; lra); lra).
  rewrite E. field. repeat split; apply Rgt_not_eq; lra.
Qed.
