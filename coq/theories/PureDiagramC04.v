(** C04 — the discrete logic around the pure-component solvers of feos-core, as executable list functions over Q:

    - [from_states]      (phase_equilibria/mod.rs)  orders two states by density: vapor first;
    - [pure_t_cascade]   (vle_pure.rs, [pure_t])    given state -> ideal gas -> spinodal, first success wins;
    - [diagram_temps], [diagram]  (phase_diagram_pure.rs, [PhaseDiagram::pure])  the temperatures solved for, the
      continuation loop that drops failed points, and the critical point appended last.
    ([par_pure]'s chunk/concat order is property C11's.) *)
From Coq Require Import List Lia ZArith QArith Qround Sorted.
Import ListNotations.
Open Scope Q_scope.

(** exact value of an f64 given as (m, e): m * 2^e *)
Definition dyQ (me : Z * Z) : Q := Qred (inject_Z (fst me) * Qpower 2 (snd me)).

(** * from_states *)
(** [if state1.density < state2.density { (state1, state2) } else { (state2, state1) }] *)
Definition from_states {A : Type} (rho : A -> Q) (s1 s2 : A) : A * A :=
  if Qlt_le_dec (rho s1) (rho s2) then (s1, s2) else (s2, s1).

Lemma from_states_ordered {A} (rho : A -> Q) s1 s2 :
  rho (fst (from_states rho s1 s2)) <= rho (snd (from_states rho s1 s2)).
Proof. unfold from_states. destruct (Qlt_le_dec (rho s1) (rho s2)); cbn; [apply Qlt_le_weak|]; assumption. Qed.

Lemma from_states_strict {A} (rho : A -> Q) s1 s2 : ~ rho s1 == rho s2 ->
  rho (fst (from_states rho s1 s2)) < rho (snd (from_states rho s1 s2)).
Proof.
  intros Hne. unfold from_states. destruct (Qlt_le_dec (rho s1) (rho s2)) as [H|H]; cbn; [exact H|].
  apply Qle_lteq in H. destruct H as [H|H]; [exact H|]. exfalso. apply Hne. symmetry. exact H.
Qed.

Lemma from_states_perm {A} (rho : A -> Q) s1 s2 :
  from_states rho s1 s2 = (s1, s2) \/ from_states rho s1 s2 = (s2, s1).
Proof. unfold from_states. destruct (Qlt_le_dec (rho s1) (rho s2)); auto. Qed.

(** * the start cascade of pure_t *)
Inductive res (S E : Type) := Ok (s : S) | Err (e : E).
Arguments Ok {S E}. Arguments Err {S E}.

(** [given]: result of iterating from the caller's initial state (None when no state was passed);
    [ig]: from the ideal-gas start; [sp]: from the spinodal start.  Errors of the first two are discarded ([.ok()]),
    the error of the last is what the caller sees. *)
Definition pure_t_cascade {S E} (given : option (res S E)) (ig sp : res S E) : res S E :=
  match given with
  | Some (Ok s) => Ok s
  | _ => match ig with Ok s => Ok s | Err _ => sp end
  end.

Definition is_ok {S E} (r : res S E) : bool := match r with Ok _ => true | Err _ => false end.

(** the attempts in order *)
Definition attempts {S E} (given : option (res S E)) (ig sp : res S E) : list (res S E) :=
  match given with Some g => [g; ig; sp] | None => [ig; sp] end.

Fixpoint first_ok {S E} (l : list (res S E)) (last : res S E) : res S E :=
  match l with
  | [] => last
  | r :: l' => if is_ok r then r else first_ok l' (match l' with [] => r | _ => last end)
  end.

(** the cascade returns the first successful attempt, and the error of the last attempt when none succeeds *)
Theorem cascade_first_ok {S E} (given : option (res S E)) ig sp :
  pure_t_cascade given ig sp = first_ok (attempts given ig sp) sp.
Proof. destruct given as [[s|e]|]; destruct ig as [s'|e']; destruct sp as [s''|e'']; reflexivity. Qed.

Lemma cascade_in {S E} (given : option (res S E)) ig sp : In (pure_t_cascade given ig sp) (attempts given ig sp).
Proof. destruct given as [[s|e]|]; destruct ig as [s'|e']; destruct sp as [s''|e'']; cbn; auto. Qed.

Theorem cascade_ok_iff {S E} (given : option (res S E)) ig sp :
  is_ok (pure_t_cascade given ig sp) = true <-> exists r, In r (attempts given ig sp) /\ is_ok r = true.
Proof.
  split.
  - intros H. exists (pure_t_cascade given ig sp). split; [apply cascade_in|exact H].
  - intros [r [Hin Hok]].
    destruct given as [[s|e]|]; destruct ig as [s'|e']; destruct sp as [s''|e'']; cbn in *; try reflexivity;
      repeat (destruct Hin as [<-|Hin]; [discriminate|]); try contradiction.
Qed.

(** * PhaseDiagram::pure *)
(** [Array1::linspace(a, b, n)]: a + i (b - a)/(n - 1), i < n  (n = 1 gives [a]) *)
Definition linspace (a b : Q) (n : nat) : list Q :=
  map (fun i => a + inject_Z (Z.of_nat i) * ((b - a) / inject_Z (Z.of_nat (n - 1)))) (seq 0 n).

(** [max_temperature = min + (tc - min) (npoints - 2)/(npoints - 1)]; [linspace(min, max, npoints - 1)] *)
Definition t_max (tmin tc : Q) (n : nat) : Q :=
  tmin + (tc - tmin) * (inject_Z (Z.of_nat (n - 2)) / inject_Z (Z.of_nat (n - 1))).
Definition diagram_temps (tmin tc : Q) (n : nat) : list Q := linspace tmin (t_max tmin tc n) (n - 1).

(** the loop: [vle = pure(eos, ti, vle.as_ref(), options).ok(); if let Some(vle) = vle { states.push(vle) }] *)
Fixpoint solve_loop {A} (solve : Q -> option A -> option A) (prev : option A) (ts : list Q) : list A :=
  match ts with
  | [] => []
  | t :: ts' => let r := solve t prev in
                (match r with Some x => [x] | None => [] end) ++ solve_loop solve r ts'
  end.

(** [states.push(from_states(sc.clone(), sc))] after the loop *)
Definition diagram {A} (solve : Q -> option A -> option A) (tmin tc : Q) (n : nat) (crit : A) : list A :=
  solve_loop solve None (diagram_temps tmin tc n) ++ [crit].

Lemma linspace_length a b n : length (linspace a b n) = n.
Proof. unfold linspace. rewrite map_length, seq_length. reflexivity. Qed.

Lemma diagram_temps_length tmin tc n : length (diagram_temps tmin tc n) = (n - 1)%nat.
Proof. apply linspace_length. Qed.

Lemma solve_loop_length_le {A} (solve : Q -> option A -> option A) prev ts :
  (length (solve_loop solve prev ts) <= length ts)%nat.
Proof.
  revert prev. induction ts as [|t ts IH]; intros prev; cbn; [lia|].
  rewrite app_length. specialize (IH (solve t prev)). destruct (solve t prev); cbn; lia.
Qed.

(** when every solve succeeds there is exactly one state per temperature, in order *)
Lemma solve_loop_all {A} (solve : Q -> option A -> option A) (temp : A -> Q) prev ts :
  (forall t p, exists x, solve t p = Some x /\ temp x = t) ->
  map temp (solve_loop solve prev ts) = ts.
Proof.
  intros Hs. revert prev. induction ts as [|t ts IH]; intros prev; cbn; [reflexivity|].
  destruct (Hs t prev) as [x [E Et]]. rewrite E. cbn. rewrite Et, IH. reflexivity.
Qed.

(** in general the states solved are a subsequence of the temperatures (failed points are dropped, order is kept) *)
Inductive subseq {B} : list B -> list B -> Prop :=
| sub_nil : subseq [] []
| sub_skip x l1 l2 : subseq l1 l2 -> subseq l1 (x :: l2)
| sub_take x l1 l2 : subseq l1 l2 -> subseq (x :: l1) (x :: l2).

Lemma solve_loop_subseq {A} (solve : Q -> option A -> option A) (temp : A -> Q) prev ts :
  (forall t p x, solve t p = Some x -> temp x = t) ->
  subseq (map temp (solve_loop solve prev ts)) ts.
Proof.
  intros Hs. revert prev. induction ts as [|t ts IH]; intros prev; cbn; [constructor|].
  destruct (solve t prev) as [x|] eqn:E; cbn.
  - rewrite (Hs _ _ _ E). apply sub_take. apply IH.
  - apply sub_skip. apply IH.
Qed.

Theorem diagram_last {A} (solve : Q -> option A -> option A) tmin tc n crit :
  last (diagram solve tmin tc n crit) crit = crit /\
  exists l, diagram solve tmin tc n crit = l ++ [crit].
Proof. unfold diagram. split; [apply last_last|eexists; reflexivity]. Qed.

Theorem diagram_length_le {A} (solve : Q -> option A -> option A) tmin tc n crit : (2 <= n)%nat ->
  (length (diagram solve tmin tc n crit) <= n)%nat.
Proof.
  intros Hn. unfold diagram. rewrite app_length. cbn.
  pose proof (solve_loop_length_le solve None (diagram_temps tmin tc n)) as H. rewrite diagram_temps_length in H. lia.
Qed.

(** all npoints: when every solve succeeds the diagram has exactly npoints states whose temperatures are the
    linspace followed by the critical temperature *)
Theorem diagram_all {A} (solve : Q -> option A -> option A) (temp : A -> Q) tmin tc n crit : (2 <= n)%nat ->
  (forall t p, exists x, solve t p = Some x /\ temp x = t) ->
  length (diagram solve tmin tc n crit) = n /\
  map temp (diagram solve tmin tc n crit) = diagram_temps tmin tc n ++ [temp crit].
Proof.
  intros Hn Hs. unfold diagram. rewrite app_length, map_app. cbn.
  pose proof (solve_loop_all solve temp None (diagram_temps tmin tc n) Hs) as E.
  split; [|rewrite E; reflexivity].
  rewrite <- (map_length temp), E, diagram_temps_length. lia.
Qed.

(** ** the temperatures are strictly increasing and stay below the critical temperature *)
Lemma linspace_nth a b n i : (i < n)%nat ->
  nth i (linspace a b n) 0 == a + inject_Z (Z.of_nat i) * ((b - a) / inject_Z (Z.of_nat (n - 1))).
Proof.
  intros Hi. unfold linspace.
  set (f := fun i : nat => a + inject_Z (Z.of_nat i) * ((b - a) / inject_Z (Z.of_nat (n - 1)))).
  rewrite (nth_indep _ 0 (f 0%nat)) by (rewrite map_length, seq_length; exact Hi).
  rewrite map_nth, seq_nth by exact Hi. reflexivity.
Qed.

Lemma inject_nat_pos k : (0 < k)%nat -> 0 < inject_Z (Z.of_nat k).
Proof. intros H. unfold Qlt. cbn. lia. Qed.

Lemma linspace_increasing a b n i j : a < b -> (i < j)%nat -> (j < n)%nat ->
  nth i (linspace a b n) 0 < nth j (linspace a b n) 0.
Proof.
  intros Hab Hij Hj. rewrite !linspace_nth by lia.
  assert (Hs : 0 < (b - a) / inject_Z (Z.of_nat (n - 1))).
  { apply Qlt_shift_div_l; [apply inject_nat_pos; lia|]. rewrite Qmult_0_l. unfold Qminus. rewrite <- Qlt_minus_iff. exact Hab. }
  apply Qplus_lt_r. apply Qmult_lt_compat_r; [exact Hs|]. unfold Qlt. cbn. lia.
Qed.

Lemma linspace_le_b a b n i : a <= b -> (i < n)%nat -> nth i (linspace a b n) 0 <= b.
Proof.
  intros Hab Hi. rewrite linspace_nth by exact Hi.
  destruct (Nat.eq_dec n 1) as [->|Hn1].
  - assert (i = 0)%nat by lia. subst. cbn. rewrite Qmult_0_l, Qplus_0_r. exact Hab.
  - assert (Hk : 0 < inject_Z (Z.of_nat (n - 1))) by (apply inject_nat_pos; lia).
    assert (Hi' : inject_Z (Z.of_nat i) <= inject_Z (Z.of_nat (n - 1))) by (unfold Qle; cbn; lia).
    assert (H0 : 0 <= b - a) by (unfold Qminus; rewrite <- Qle_minus_iff; exact Hab).
    setoid_replace b with (a + inject_Z (Z.of_nat (n - 1)) * ((b - a) / inject_Z (Z.of_nat (n - 1)))) at 2
      by (field; intros E; rewrite E in Hk; apply (Qlt_irrefl 0 Hk)).
    apply Qplus_le_r. apply Qmult_le_compat_r; [exact Hi'|].
    apply Qle_shift_div_l; [exact Hk|]. rewrite Qmult_0_l. exact H0.
Qed.

Lemma t_max_lt_tc tmin tc n : tmin < tc -> (3 <= n)%nat -> tmin < t_max tmin tc n /\ t_max tmin tc n < tc.
Proof.
  intros Ht Hn. unfold t_max.
  assert (Hk1 : 0 < inject_Z (Z.of_nat (n - 1))) by (apply inject_nat_pos; lia).
  assert (Hk2 : 0 < inject_Z (Z.of_nat (n - 2))) by (apply inject_nat_pos; lia).
  assert (Hd : 0 < tc - tmin) by (unfold Qminus; rewrite <- Qlt_minus_iff; exact Ht).
  assert (Hf0 : 0 < inject_Z (Z.of_nat (n - 2)) / inject_Z (Z.of_nat (n - 1))).
  { apply Qlt_shift_div_l; [exact Hk1|]. rewrite Qmult_0_l. exact Hk2. }
  assert (Hf1 : inject_Z (Z.of_nat (n - 2)) / inject_Z (Z.of_nat (n - 1)) < 1).
  { apply Qlt_shift_div_r; [exact Hk1|]. rewrite Qmult_1_l. unfold Qlt. cbn. lia. }
  split.
  - rewrite <- (Qplus_0_r tmin) at 1. apply Qplus_lt_r.
    rewrite <- (Qmult_0_l (inject_Z (Z.of_nat (n - 2)) / inject_Z (Z.of_nat (n - 1)))).
    apply Qmult_lt_compat_r; assumption.
  - setoid_replace tc with (tmin + (tc - tmin) * 1) at 2 by ring. apply Qplus_lt_r.
    rewrite !(Qmult_comm (tc - tmin)). apply Qmult_lt_compat_r; assumption.
Qed.

(** for every npoints >= 3 and tmin < tc: the temperatures of the diagram (linspace ++ [tc]) are strictly increasing,
    i.e. the critical point comes last also in temperature *)
Theorem diagram_temps_strict tmin tc n i j : tmin < tc -> (3 <= n)%nat -> (i < j)%nat -> (j < n)%nat ->
  nth i (diagram_temps tmin tc n ++ [tc]) 0 < nth j (diagram_temps tmin tc n ++ [tc]) 0.
Proof.
  intros Ht Hn Hij Hj.
  destruct (t_max_lt_tc tmin tc n Ht Hn) as [Hlo Hhi].
  pose proof (diagram_temps_length tmin tc n) as HL.
  destruct (Nat.lt_ge_cases j (n - 1)) as [Hj'|Hj'].
  - rewrite !app_nth1 by lia. unfold diagram_temps. apply linspace_increasing; [exact Hlo|lia|lia].
  - assert (j = (n - 1))%nat by lia. subst j.
    rewrite (app_nth2 (diagram_temps tmin tc n) [tc] 0 (n := (n - 1)%nat)) by lia.
    rewrite HL, Nat.sub_diag. cbn [nth]. rewrite app_nth1 by lia.
    eapply Qle_lt_trans; [|exact Hhi]. unfold diagram_temps. apply linspace_le_b; [apply Qlt_le_weak; exact Hlo|lia].
Qed.

(** ** the closing state and the success of the call do not depend on the VLE solver (hence not on its options) *)
(** [let sc = State::critical_point(eos, None, critical_temperature, SolverOptions::default())?;] is the only [?] of
    [PhaseDiagram::pure]: the call fails exactly when the critical point (computed with DEFAULT options) fails. *)
Definition diagram_res {A} (solve : Q -> option A -> option A) (tmin : Q) (n : nat) (temp : A -> Q) (crit : option A) : option (list A) :=
  match crit with
  | None => None
  | Some c => Some (diagram solve tmin (temp c) n c)
  end.

Theorem diagram_res_ok_iff {A} (solve : Q -> option A -> option A) tmin n temp (crit : option A) :
  diagram_res solve tmin n temp crit <> None <-> crit <> None.
Proof. destruct crit; cbn; split; intros H; try discriminate; try (exfalso; apply H; reflexivity); intros E; discriminate. Qed.

Theorem diagram_res_last_indep {A} (solve1 solve2 : Q -> option A -> option A) tmin n temp (c : A) l1 l2 :
  diagram_res solve1 tmin n temp (Some c) = Some l1 -> diagram_res solve2 tmin n temp (Some c) = Some l2 ->
  last l1 c = c /\ last l2 c = c.
Proof.
  cbn. intros E1 E2. injection E1 as <-. injection E2 as <-. split; apply diagram_last.
Qed.

(** * the per-component helpers [vapor_pressure], [boiling_temperature], [vle_pure_comps] (vle_pure.rs) *)
(** [(0..eos.components()).map(|i| { let pure_eos = eos.subset(&[i]); solve(pure_eos).ok() })]: entry i is the result of
    the pure solver on the sub-model of component i — of the SAME model (options included), which is what [subset] has to deliver *)
Definition per_component {M R} (subset : nat -> M) (solve : M -> option R) (ncomp : nat) : list (option R) :=
  map (fun i => solve (subset i)) (seq 0 ncomp).

Lemma per_component_length {M R} (subset : nat -> M) (solve : M -> option R) n : length (per_component subset solve n) = n.
Proof. unfold per_component. rewrite map_length, seq_length. reflexivity. Qed.

Lemma per_component_nth {M R} (subset : nat -> M) (solve : M -> option R) n i : (i < n)%nat ->
  nth i (per_component subset solve n) None = solve (subset i).
Proof.
  intros Hi. unfold per_component. set (f := fun i : nat => solve (subset i)).
  rewrite (nth_indep _ None (f 0%nat)) by (rewrite map_length, seq_length; exact Hi).
  rewrite map_nth, seq_nth by exact Hi. reflexivity.
Qed.

Theorem per_component_spec {M R} (subset : nat -> M) (solve : M -> option R) n i : (i < n)%nat ->
  length (per_component subset solve n) = n /\ nth i (per_component subset solve n) None = solve (subset i).
Proof. intros Hi. split; [apply per_component_length|apply per_component_nth; exact Hi]. Qed.

(** a one-component model whose [subset [0]] is the model itself: the helper returns what the pure solver returns *)
Lemma per_component_pure {M R} (subset : nat -> M) (solve : M -> option R) (m : M) :
  subset 0%nat = m -> per_component subset solve 1 = [solve m].
Proof. intros E. unfold per_component. cbn. rewrite E. reflexivity. Qed.

(** * Non-vacuity / executable examples *)
Example ex_temps : diagram_temps 100 200 5 = [100 + 0 * ((100 + (200 - 100) * (3 / 4) - 100) / 3);
                                               100 + 1 * ((100 + (200 - 100) * (3 / 4) - 100) / 3);
                                               100 + 2 * ((100 + (200 - 100) * (3 / 4) - 100) / 3);
                                               100 + 3 * ((100 + (200 - 100) * (3 / 4) - 100) / 3)].
Proof. reflexivity. Qed.

Example ex_temps_values : map Qred (diagram_temps 100 200 5) = [100; 125; 150; 175].
Proof. vm_compute. reflexivity. Qed.

(** a solver that fails at 150: the point is dropped, the order is kept, the critical point is last *)
Example ex_diagram_drop :
  map Qred (diagram (fun t _ => if Qeq_bool t 150 then None else Some t) 100 200 5 200) = [100; 125; 175; 200].
Proof. vm_compute. reflexivity. Qed.

Example ex_cascade : pure_t_cascade (Some (Err 1%nat)) (Err 2%nat) (Ok 7%nat) = (Ok 7%nat : res nat nat)
                     /\ pure_t_cascade None (Err 2%nat) (Err 3%nat) = (Err 3%nat : res nat nat)
                     /\ pure_t_cascade (Some (Ok 5%nat)) (Ok 6%nat) (Ok 7%nat) = (Ok 5%nat : res nat nat).
Proof. repeat split. Qed.

Example ex_from_states : from_states (fun x : Q => x) 5 3 = (3, 5) /\ from_states (fun x : Q => x) 3 3 = (3, 3).
Proof. split; reflexivity. Qed.
