(** C14 — executable model of feos' parameter construction from record lists / JSON files
    (feos-core/src/parameter/{mod,model_record,identifier}.rs), with the theorems of property C14
    about ordering, duplicate / missing rejection, identifier selection, binary-record lookup and subsets.

    Strings are interned as [N] by the harness; the payload of a pure record (molar weight + model record) and of a
    binary record are abstract ([A], [B]): the generic code of the [Parameter] trait never inspects them.
    HashMap/HashSet are modelled by their abstract behaviour (collect = last insert wins, take = remove the key). *)
From Coq Require Import List NArith ZArith Bool Arith Lia Permutation.
Import ListNotations.
Set Implicit Arguments.

(* ------------------------------------------------------------------------------------------------ *)
(** * Identifiers (identifier.rs) *)

Inductive idopt := Cas | Name | IupacName | Smiles | Inchi | Formula.

Record ident := mkId {
  id_cas : option N; id_name : option N; id_iupac : option N;
  id_smiles : option N; id_inchi : option N; id_formula : option N }.

(** [Identifier::as_string] *)
Definition as_key (o : idopt) (i : ident) : option N :=
  match o with
  | Cas => id_cas i | Name => id_name i | IupacName => id_iupac i
  | Smiles => id_smiles i | Inchi => id_inchi i | Formula => id_formula i
  end.

Definition okey_eqb (a : option N) (k : N) : bool :=
  match a with Some x => N.eqb x k | None => false end.

Lemma okey_eqb_true : forall a k, okey_eqb a k = true <-> a = Some k.
Proof.
  intros [x|] k; simpl; split; intro H; try discriminate.
  - apply N.eqb_eq in H; now subst.
  - inversion H; apply N.eqb_refl.
Qed.

(* ------------------------------------------------------------------------------------------------ *)
(** * Errors and results *)

Inductive perr :=
| EDup                      (* IncompatibleParameters("A substance was defined more than once.") *)
| EMissing (l : list N)     (* ComponentsNotFound(..) *)
| EFileIO                   (* FileIO *)
| ESerde                    (* Serde *)
| EIncompat                 (* IncompatibleParameters(other message) *)
| EPanic.                   (* an [unwrap]/[expect]/index panic *)

Inductive result (T : Type) := Ok (x : T) | Err (e : perr).
Arguments Err {T} e.

(** a JSON file as the loader sees it *)
Inductive file (T : Type) := FNoFile | FBadJson | FRecords (l : list T).
Arguments FNoFile {T}.
Arguments FBadJson {T}.

Fixpoint mem (k : N) (l : list N) : bool :=
  match l with [] => false | x :: r => N.eqb x k || mem k r end.

Lemma mem_In : forall k l, mem k l = true <-> In k l.
Proof.
  induction l as [|x r IH]; simpl; [split; [discriminate|tauto]|].
  rewrite orb_true_iff, IH, N.eqb_eq. tauto.
Qed.

Fixpoint has_dup (l : list N) : bool :=
  match l with [] => false | x :: r => mem x r || has_dup r end.

Lemma has_dup_false_NoDup : forall l, has_dup l = false <-> NoDup l.
Proof.
  induction l as [|x r IH]; simpl.
  - split; [constructor | reflexivity].
  - rewrite orb_false_iff, IH. split.
    + intros [Hm Hn]. constructor; [|assumption]. intro Hin. apply mem_In in Hin. congruence.
    + intro H; inversion H; subst. split; [|assumption].
      destruct (mem x r) eqn:E; [apply mem_In in E; contradiction | reflexivity].
Qed.

(** [HashSet::take]: remove the key *)
Definition remove_k (k : N) (l : list N) : list N := filter (fun y => negb (N.eqb y k)) l.

Fixpoint all_some {T} (l : list (option T)) : option (list T) :=
  match l with
  | [] => Some []
  | Some x :: r => match all_some r with Some r' => Some (x :: r') | None => None end
  | None :: _ => None
  end.

Lemma all_some_map_Some : forall T U (f : T -> U) (l : list T), all_some (map (fun x => Some (f x)) l) = Some (map f l).
Proof. induction l; simpl; [reflexivity | now rewrite IHl]. Qed.

(* ------------------------------------------------------------------------------------------------ *)
(** * Pure records: [PureRecord::from_json] and [Parameter::from_multiple_json] *)

Section Pure.
Variable A : Type.

Record prec := mkP { p_id : ident; p_val : A }.

Definition pkey (o : idopt) (r : prec) : option N := as_key o (p_id r).

(** one iteration of the loop "for record in file_records" of PureRecord::from_json; state = (queried, records) *)
Definition step (o : idopt) (st : list N * list (N * prec)) (r : prec) : list N * list (N * prec) :=
  match pkey o r with
  | Some k => if mem k (fst st) then (remove_k k (fst st), (k, r) :: snd st) else st
  | None => st
  end.

Definition scan (o : idopt) (q : list N) (recs : list prec) : list N * list (N * prec) :=
  fold_left (step o) recs (q, []).

Definition assoc_get (k : N) (m : list (N * prec)) : option prec :=
  match find (fun kr => N.eqb (fst kr) k) m with Some kr => Some (snd kr) | None => None end.

(** PureRecord::from_json *)
Definition from_json_one (o : idopt) (q : list N) (f : file prec) : result (list prec) :=
  if has_dup q then Err EDup else
  match f with
  | FNoFile => Err EFileIO
  | FBadJson => Err ESerde
  | FRecords recs =>
      let st := scan o q recs in
      match fst st with
      | [] => match all_some (map (fun k => assoc_get k (snd st)) q) with
              | Some rs => Ok rs
              | None => Err EPanic
              end
      | missing => Err (EMissing missing)
      end
  end.

(** specification: the first record of the file whose selected identifier equals the query *)
Definition first_match (o : idopt) (k : N) (recs : list prec) : option prec :=
  find (fun r => okey_eqb (pkey o r) k) recs.

Definition is_none {T} (x : option T) : bool := match x with None => true | Some _ => false end.

Lemma filter_remove_k : forall (P : N -> bool) k l,
  filter P (remove_k k l) = filter (fun y => P y && negb (N.eqb y k)) l.
Proof.
  intros P k l. unfold remove_k. induction l as [|x r IH]; simpl; [reflexivity|].
  destruct (N.eqb x k) eqn:E; simpl.
  - rewrite andb_false_r. exact IH.
  - rewrite andb_true_r. destruct (P x); simpl; now rewrite IH.
Qed.

Lemma mem_remove_k : forall k k' l, mem k (remove_k k' l) = mem k l && negb (N.eqb k k').
Proof.
  intros k k' l. unfold remove_k. induction l as [|x r IH]; simpl; [reflexivity|].
  destruct (N.eqb x k') eqn:E; simpl.
  - rewrite IH. destruct (N.eqb x k) eqn:E2; simpl; [|reflexivity].
    apply N.eqb_eq in E, E2. subst. rewrite N.eqb_refl. simpl. now rewrite andb_false_r.
  - rewrite IH. destruct (N.eqb x k) eqn:E2; simpl; [|reflexivity].
    apply N.eqb_eq in E2. subst. rewrite E. reflexivity.
Qed.

Lemma step_eq : forall o rem found r,
  step o (rem, found) r =
  match pkey o r with
  | Some k => if mem k rem then (remove_k k rem, (k, r) :: found) else (rem, found)
  | None => (rem, found)
  end.
Proof. reflexivity. Qed.

Lemma first_match_cons : forall o k r recs,
  first_match o k (r :: recs) = if okey_eqb (pkey o r) k then Some r else first_match o k recs.
Proof. reflexivity. Qed.

Lemma assoc_get_cons : forall k k0 r m,
  assoc_get k ((k0, r) :: m) = if N.eqb k0 k then Some r else assoc_get k m.
Proof. intros. unfold assoc_get. simpl. now destruct (N.eqb k0 k). Qed.

Lemma scan_gen : forall o recs rem found,
  fst (fold_left (step o) recs (rem, found)) = filter (fun k => is_none (first_match o k recs)) rem /\
  forall k, assoc_get k (snd (fold_left (step o) recs (rem, found))) =
            if mem k rem then match first_match o k recs with Some r => Some r | None => assoc_get k found end
            else assoc_get k found.
Proof.
  intros o recs. induction recs as [|r recs IH]; intros rem found.
  - simpl. split.
    + induction rem; simpl; [reflexivity | now f_equal].
    + intro k. now destruct (mem k rem).
  - simpl fold_left. rewrite step_eq.
    destruct (pkey o r) as [k0|] eqn:Ek.
    + destruct (mem k0 rem) eqn:Em.
      * destruct (IH (remove_k k0 rem) ((k0, r) :: found)) as [IH1 IH2]. split.
        -- rewrite IH1, filter_remove_k. apply filter_ext. intro k.
           rewrite first_match_cons, Ek. simpl.
           destruct (N.eqb k0 k) eqn:E.
           ++ apply N.eqb_eq in E; subst. rewrite N.eqb_refl. simpl. now rewrite andb_false_r.
           ++ rewrite N.eqb_sym, E. simpl. now rewrite andb_true_r.
        -- intro k. rewrite IH2, mem_remove_k, assoc_get_cons, first_match_cons, Ek. simpl.
           destruct (N.eqb k0 k) eqn:E.
           ++ apply N.eqb_eq in E; subst. rewrite Em, N.eqb_refl. reflexivity.
           ++ rewrite (N.eqb_sym k k0), E. simpl. rewrite andb_true_r. reflexivity.
      * destruct (IH rem found) as [IH1 IH2]. split.
        -- rewrite IH1. apply filter_ext_in. intros k Hk.
           rewrite first_match_cons, Ek. simpl.
           destruct (N.eqb k0 k) eqn:E; [|reflexivity].
           apply N.eqb_eq in E; subst. apply mem_In in Hk. congruence.
        -- intro k. rewrite IH2, first_match_cons, Ek. simpl. destruct (mem k rem) eqn:Emk; [|reflexivity].
           destruct (N.eqb k0 k) eqn:E; [|reflexivity].
           apply N.eqb_eq in E; subst. congruence.
    + destruct (IH rem found) as [IH1 IH2]. split.
      * rewrite IH1. apply filter_ext. intro k. now rewrite first_match_cons, Ek.
      * intro k. now rewrite IH2, first_match_cons, Ek.
Qed.

(** ** Closed form of [from_json_one] *)
Definition from_json_spec (o : idopt) (q : list N) (f : file prec) : result (list prec) :=
  if has_dup q then Err EDup else
  match f with
  | FNoFile => Err EFileIO
  | FBadJson => Err ESerde
  | FRecords recs =>
      match filter (fun k => is_none (first_match o k recs)) q with
      | [] => match all_some (map (fun k => first_match o k recs) q) with
              | Some rs => Ok rs | None => Err EPanic end
      | missing => Err (EMissing missing)
      end
  end.

Theorem from_json_one_spec : forall o q f, from_json_one o q f = from_json_spec o q f.
Proof.
  intros o q f. unfold from_json_one, from_json_spec.
  destruct (has_dup q); [reflexivity|]. destruct f as [| |recs]; try reflexivity.
  unfold scan. destruct (scan_gen o recs q []) as [H1 H2]. rewrite H1.
  destruct (filter _ q) eqn:Ef; [|reflexivity].
  replace (map (fun k => assoc_get k (snd (fold_left (step o) recs (q, [])))) q)
     with (map (fun k => first_match o k recs) q); [reflexivity|].
  apply map_ext_in. intros k Hk. rewrite H2. apply mem_In in Hk. rewrite Hk.
  destruct (first_match o k recs); reflexivity.
Qed.

Lemma first_match_key : forall o k recs r, first_match o k recs = Some r -> In r recs /\ pkey o r = Some k.
Proof.
  intros o k recs r H. unfold first_match in H. apply find_some in H. destruct H as [Hin Hk].
  split; [assumption | now apply okey_eqb_true].
Qed.

Lemma first_match_none : forall o k recs, first_match o k recs = None -> forall r, In r recs -> pkey o r <> Some k.
Proof.
  intros o k recs H r Hin Hk. unfold first_match in H.
  apply (find_none _ _ H) in Hin. apply okey_eqb_true in Hk. congruence.
Qed.

Lemma filter_nil_all : forall T (P : T -> bool) l, filter P l = [] -> forall x, In x l -> P x = false.
Proof.
  induction l as [|y r IH]; simpl; intros H x Hin; [contradiction|].
  destruct (P y) eqn:E; [discriminate|]. destruct Hin as [->|Hin]; auto.
Qed.

Lemma all_some_spec : forall T (l : list (option T)) rs, all_some l = Some rs -> l = map Some rs.
Proof.
  induction l as [|[x|] r IH]; simpl; intros rs H.
  - inversion H; reflexivity.
  - destruct (all_some r); [|discriminate]. inversion H; subst. simpl. f_equal. now apply IH.
  - discriminate.
Qed.

Lemma all_some_total : forall T (l : list (option T)), (forall x, In x l -> x <> None) -> exists rs, all_some l = Some rs.
Proof.
  induction l as [|[x|] r IH]; simpl; intros H.
  - eauto.
  - destruct IH as [rs Hrs]; [intros; apply H; auto|]. rewrite Hrs. eauto.
  - exfalso. apply (H None); auto.
Qed.

(** a successful result lists, for every query in query order, the first file record carrying that identifier *)
Theorem from_json_ok_inv : forall o q f rs, from_json_one o q f = Ok rs ->
  NoDup q /\ exists recs, f = FRecords recs /\ map Some rs = map (fun k => first_match o k recs) q.
Proof.
  intros o q f rs. rewrite from_json_one_spec. unfold from_json_spec.
  destruct (has_dup q) eqn:Ed; [discriminate|]. apply has_dup_false_NoDup in Ed.
  destruct f as [| |recs]; try discriminate.
  destruct (filter _ q); [|discriminate].
  destruct (all_some _) eqn:Ea; [|discriminate]. intro H; inversion H; subst.
  split; [assumption|]. exists recs. split; [reflexivity|]. symmetry. now apply all_some_spec.
Qed.

(** result identifiers = query, in query order — whatever the order of the file *)
Theorem from_json_order : forall o q f rs, from_json_one o q f = Ok rs -> map (pkey o) rs = map Some q.
Proof.
  intros o q f rs H. apply from_json_ok_inv in H. destruct H as [_ [recs [_ H]]].
  revert rs H. induction q as [|k q IH]; intros [|r rs] H; simpl in *; try discriminate; [reflexivity|].
  inversion H. f_equal; [|now apply IH].
  symmetry in H1. now apply first_match_key in H1.
Qed.

Theorem from_json_from_file : forall o q recs rs, from_json_one o q (FRecords recs) = Ok rs -> forall r, In r rs -> In r recs.
Proof.
  intros o q recs rs H r Hin. apply from_json_ok_inv in H. destruct H as [_ [recs' [E H]]]. inversion E; subst recs'.
  assert (Hs : In (Some r) (map Some rs)) by now apply in_map.
  rewrite H in Hs. apply in_map_iff in Hs. destruct Hs as [k [Hk _]]. now apply first_match_key in Hk.
Qed.

(** never panics: the final [records.get(s).unwrap()] always succeeds *)
Theorem from_json_no_panic : forall o q f, from_json_one o q f <> Err EPanic.
Proof.
  intros o q f. rewrite from_json_one_spec. unfold from_json_spec.
  destruct (has_dup q); [discriminate|]. destruct f as [| |recs]; try discriminate.
  destruct (filter _ q) eqn:Ef; [|discriminate].
  destruct (all_some_total (map (fun k => first_match o k recs) q)) as [rs Hrs].
  - intros x Hx. apply in_map_iff in Hx. destruct Hx as [k [<- Hk]].
    pose proof (filter_nil_all _ _ Ef k Hk) as Hn. simpl in Hn. now destruct (first_match o k recs).
  - rewrite Hrs. discriminate.
Qed.

(** duplicates in the query are rejected before the file is even opened *)
Theorem dup_rejected_one : forall o q f, ~ NoDup q -> from_json_one o q f = Err EDup.
Proof.
  intros o q f H. unfold from_json_one. destruct (has_dup q) eqn:E; [reflexivity|].
  apply has_dup_false_NoDup in E. contradiction.
Qed.

(** a queried substance that no record of the file carries (under the selected identifier) is reported *)
Theorem missing_rejected_one : forall o q recs k, NoDup q -> In k q ->
  (forall r, In r recs -> pkey o r <> Some k) ->
  exists l, from_json_one o q (FRecords recs) = Err (EMissing l) /\ In k l /\
            (forall k', In k' l <-> In k' q /\ forall r, In r recs -> pkey o r <> Some k').
Proof.
  intros o q recs k Hnd Hin Hno. rewrite from_json_one_spec. unfold from_json_spec.
  apply has_dup_false_NoDup in Hnd. rewrite Hnd.
  assert (Hk : In k (filter (fun k => is_none (first_match o k recs)) q)).
  { apply filter_In. split; [assumption|]. destruct (first_match o k recs) eqn:E; [|reflexivity].
    apply first_match_key in E. destruct E as [E1 E2]. exfalso. now apply (Hno p). }
  destruct (filter _ q) as [|x l] eqn:Ef; [contradiction|].
  exists (x :: l). split; [reflexivity|]. split; [assumption|].
  intro k'. rewrite <- Ef, filter_In. split; intros [H1 H2]; (split; [assumption|]).
  - destruct (first_match o k' recs) eqn:E; [discriminate|]. now apply first_match_none.
  - destruct (first_match o k' recs) eqn:E; [|reflexivity]. apply first_match_key in E. destruct E. exfalso. eapply H2; eauto.
Qed.

(** success exactly when the query is duplicate free and every queried key occurs in the file *)
Theorem from_json_success_iff : forall o q recs,
  (exists rs, from_json_one o q (FRecords recs) = Ok rs) <->
  NoDup q /\ forall k, In k q -> exists r, In r recs /\ pkey o r = Some k.
Proof.
  intros o q recs. split.
  - intros [rs H]. pose proof (from_json_ok_inv _ _ _ H) as [Hnd [recs' [E Hm]]]. inversion E; subst recs'.
    split; [assumption|]. intros k Hk.
    assert (In (first_match o k recs) (map Some rs)) as Hi by (rewrite Hm; now apply (in_map (fun k => first_match o k recs))).
    apply in_map_iff in Hi. destruct Hi as [r [Hr _]]. exists r. symmetry in Hr. now apply first_match_key in Hr.
  - intros [Hnd Hall]. rewrite from_json_one_spec. unfold from_json_spec.
    apply has_dup_false_NoDup in Hnd. rewrite Hnd.
    assert (Hf : forall k, In k q -> first_match o k recs <> None).
    { intros k Hk E. destruct (Hall k Hk) as [r [Hr1 Hr2]]. now apply (@first_match_none _ _ _ E r). }
    destruct (filter _ q) as [|x l] eqn:Ef.
    + destruct (all_some_total (map (fun k => first_match o k recs) q)) as [rs Hrs].
      * intros x Hx. apply in_map_iff in Hx. destruct Hx as [k [<- Hk]]. now apply Hf.
      * rewrite Hrs. eauto.
    + assert (In x (filter (fun k => is_none (first_match o k recs)) q)) as Hx by (rewrite Ef; now left).
      apply filter_In in Hx. destruct Hx as [Hx1 Hx2]. specialize (Hf x Hx1). now destruct (first_match o x recs).
Qed.

(** ** Independence of the order of the file *)

(** no two *different* records of the file carry the same selected identifier *)
Definition keys_unique (o : idopt) (recs : list prec) : Prop :=
  forall r1 r2 k, In r1 recs -> In r2 recs -> pkey o r1 = Some k -> pkey o r2 = Some k -> r1 = r2.

Lemma first_match_perm : forall o recs recs' k, keys_unique o recs -> Permutation recs recs' ->
  first_match o k recs = first_match o k recs'.
Proof.
  intros o recs recs' k Hu Hp.
  destruct (first_match o k recs) as [r|] eqn:E1; destruct (first_match o k recs') as [r'|] eqn:E2; try reflexivity.
  - apply first_match_key in E1, E2. destruct E1 as [I1 K1], E2 as [I2 K2].
    f_equal. apply (Hu r r' k); auto. eapply Permutation_in; [apply Permutation_sym; eassumption | assumption].
  - apply first_match_key in E1. destruct E1 as [I1 K1]. exfalso.
    apply (@first_match_none _ _ _ E2 r); auto. eapply Permutation_in; eassumption.
  - apply first_match_key in E2. destruct E2 as [I2 K2]. exfalso.
    apply (@first_match_none _ _ _ E1 r'); auto. eapply Permutation_in; [apply Permutation_sym; eassumption | assumption].
Qed.

(** permuting a file whose selected identifiers are unique changes nothing: same records, same order, same error *)
Theorem from_json_file_perm : forall o q recs recs', keys_unique o recs -> Permutation recs recs' ->
  from_json_one o q (FRecords recs) = from_json_one o q (FRecords recs').
Proof.
  intros o q recs recs' Hu Hp. rewrite !from_json_one_spec. unfold from_json_spec.
  destruct (has_dup q); [reflexivity|].
  rewrite (filter_ext _ (fun k => is_none (first_match o k recs')))
    by (intro k; now rewrite (first_match_perm k Hu Hp)).
  rewrite (map_ext _ (fun k => first_match o k recs')) by (intro k; now apply first_match_perm).
  reflexivity.
Qed.

(** ** Only the selected identifier field is consulted *)
Definition same_under (o : idopt) (r r' : prec) : Prop := pkey o r = pkey o r' /\ p_val r = p_val r'.

Definition res_map {T U} (f : T -> U) (r : result (list T)) : result (list U) :=
  match r with Ok l => Ok (map f l) | Err e => Err e end.

Lemma first_match_same_under : forall o k recs recs', Forall2 (same_under o) recs recs' ->
  option_map (@p_val) (first_match o k recs) = option_map (@p_val) (first_match o k recs') /\
  is_none (first_match o k recs) = is_none (first_match o k recs').
Proof.
  intros o k recs recs' H. induction H as [|r r' l l' [Hk Hv] _ IH]; [split; reflexivity|].
  rewrite !first_match_cons, <- Hk. destruct (okey_eqb (pkey o r) k); [|exact IH].
  simpl. split; [now f_equal | reflexivity].
Qed.

Theorem identifier_kind : forall o q recs recs', Forall2 (same_under o) recs recs' ->
  res_map (@p_val) (from_json_one o q (FRecords recs)) = res_map (@p_val) (from_json_one o q (FRecords recs')).
Proof.
  intros o q recs recs' H. rewrite !from_json_one_spec. unfold from_json_spec.
  destruct (has_dup q); [reflexivity|].
  rewrite (filter_ext _ (fun k => is_none (first_match o k recs')))
    by (intro k; apply (first_match_same_under k H)).
  destruct (filter _ q); [|reflexivity].
  assert (Hm : map (option_map (@p_val)) (map (fun k => first_match o k recs) q)
             = map (option_map (@p_val)) (map (fun k => first_match o k recs') q)).
  { rewrite !map_map. apply map_ext. intro k. apply (first_match_same_under k H). }
  revert Hm. generalize (map (fun k => first_match o k recs) q) (map (fun k => first_match o k recs') q).
  induction l as [|[x|] l IH]; intros [|[y|] l'] Hm; simpl in *; try discriminate; try reflexivity.
  inversion Hm. specialize (IH l' H2).
  destruct (all_some l), (all_some l'); simpl in *; try discriminate; try reflexivity.
  inversion IH. simpl. congruence.
Qed.

(** ** [Parameter::from_multiple_json] (pure part) *)
Fixpoint collect {T} (l : list (result (list T))) : result (list T) :=
  match l with
  | [] => Ok []
  | Ok x :: r => match collect r with Ok y => Ok (x ++ y) | Err e => Err e end
  | Err e :: _ => Err e
  end.

Definition from_multiple (o : idopt) (inp : list (list N * file prec)) : result (list prec) :=
  if has_dup (concat (map fst inp)) then Err EDup
  else collect (map (fun qf => from_json_one o (fst qf) (snd qf)) inp).

Theorem from_multiple_single : forall o q f, from_multiple o [(q, f)] = from_json_one o q f.
Proof.
  intros o q f. unfold from_multiple. simpl. rewrite app_nil_r.
  destruct (has_dup q) eqn:E.
  - unfold from_json_one. now rewrite E.
  - destruct (from_json_one o q f); [now rewrite app_nil_r | reflexivity].
Qed.

Theorem dup_rejected : forall o inp, ~ NoDup (concat (map fst inp)) -> from_multiple o inp = Err EDup.
Proof.
  intros o inp H. unfold from_multiple. destruct (has_dup _) eqn:E; [reflexivity|].
  apply has_dup_false_NoDup in E. contradiction.
Qed.

Lemma collect_order : forall o inp rs,
  collect (map (fun qf => from_json_one o (fst qf) (snd qf)) inp) = Ok rs ->
  map (pkey o) rs = map Some (concat (map fst inp)).
Proof.
  intros o inp. induction inp as [|[q f] inp IH]; simpl; intros rs H.
  - inversion H; reflexivity.
  - destruct (from_json_one o q f) as [x|] eqn:E1; [|discriminate].
    destruct (collect _) as [y|] eqn:E2; [|discriminate]. inversion H; subst.
    rewrite !map_app. f_equal; [eapply from_json_order; eassumption | now apply IH].
Qed.

(** result identifiers = concatenated queries, in the order the user wrote them *)
Theorem from_multiple_order : forall o inp rs, from_multiple o inp = Ok rs ->
  map (pkey o) rs = map Some (concat (map fst inp)).
Proof.
  intros o inp rs. unfold from_multiple. destruct (has_dup _); [discriminate|]. apply collect_order.
Qed.

Theorem from_multiple_no_panic : forall o inp, from_multiple o inp <> Err EPanic.
Proof.
  intros o inp. unfold from_multiple. destruct (has_dup _); [discriminate|].
  induction inp as [|[q f] inp IH]; simpl; [discriminate|].
  destruct (from_json_one o q f) eqn:E.
  - destruct (collect _); [discriminate | assumption].
  - intro H. inversion H; subst. now apply (from_json_no_panic o q f).
Qed.

Theorem from_multiple_file_perm : forall o (inp inp' : list (list N * file prec)),
  Forall2 (fun a b => fst a = fst b /\
             ((snd a = snd b) \/ exists r r', snd a = FRecords r /\ snd b = FRecords r' /\ keys_unique o r /\ Permutation r r'))
          inp inp' ->
  from_multiple o inp = from_multiple o inp'.
Proof.
  intros o inp inp' H. unfold from_multiple.
  assert (Hq : map fst inp = map fst inp').
  { induction H as [|a b l l' [Hq _] _ IH]; simpl; [reflexivity | now f_equal]. }
  rewrite Hq. destruct (has_dup _); [reflexivity|]. f_equal. clear Hq.
  induction H as [|[q f] [q' f'] l l' [Hq Hf] _ IH]; simpl in *; [reflexivity|]. subst q'. f_equal; [|assumption].
  destruct Hf as [->|[r [r' [-> [-> [Hu Hp]]]]]]; [reflexivity | now apply from_json_file_perm].
Qed.

End Pure.

Arguments mkP {A} p_id p_val.

(* ------------------------------------------------------------------------------------------------ *)
(** * Binary records: [Parameter::binary_matrix_from_records] *)

Section Binary.
Variable A B : Type.
Variable dflt : B.              (* [Self::Binary::default()] *)

Record brec := mkB { b_id1 : ident; b_id2 : ident; b_val : B }.

Definition bkey (o : idopt) (b : brec) : option (N * N) :=
  match as_key o (b_id1 b), as_key o (b_id2 b) with
  | Some x, Some y => Some (x, y)
  | _, _ => None
  end.

Definition bkey_is (o : idopt) (x y : N) (b : brec) : bool :=
  match bkey o b with Some (u, v) => N.eqb u x && N.eqb v y | None => false end.

Lemma bkey_is_true : forall o x y b, bkey_is o x y b = true <-> bkey o b = Some (x, y).
Proof.
  intros o x y b. unfold bkey_is. destruct (bkey o b) as [[u v]|]; [|split; discriminate].
  rewrite andb_true_iff, !N.eqb_eq. split; [intros [-> ->]; reflexivity | intro H; inversion H; auto].
Qed.

(** [binary_map.get(&(x, y))]: the map is collected from the records in file order, the last insert wins *)
Definition bmap_get (o : idopt) (bin : list brec) (x y : N) : option B :=
  option_map b_val (find (bkey_is o x y) (rev bin)).

(** [.get(&(id1,id2)).or_else(|| .get(&(id2,id1))).cloned().unwrap_or_default()] *)
Definition blookup (o : idopt) (bin : list brec) (x y : N) : B :=
  match bmap_get o bin x y with
  | Some v => v
  | None => match bmap_get o bin y x with Some v => v | None => dflt end
  end.

Definition binary_matrix (o : idopt) (pure : list (prec A)) (bin : list brec) : result (option (list (list B))) :=
  match bin with
  | [] => Ok None
  | _ => match all_some (map (pkey o) pure) with
         | None => Err EPanic       (* expect("No identifier for given identifier_option ...") *)
         | Some ks => Ok (Some (map (fun x => map (fun y => blookup o bin x y) ks) ks))
         end
  end.

(** the record [b] is stored for the unordered pair {x,y} *)
Definition ukey (o : idopt) (x y : N) (b : brec) : Prop := bkey o b = Some (x, y) \/ bkey o b = Some (y, x).

Lemma ukey_sym : forall o x y b, ukey o x y b <-> ukey o y x b.
Proof. unfold ukey; tauto. Qed.

Lemma bmap_get_some : forall o bin x y v, bmap_get o bin x y = Some v ->
  exists b, In b bin /\ bkey o b = Some (x, y) /\ b_val b = v.
Proof.
  intros o bin x y v H. unfold bmap_get in H. destruct (find _ _) as [b|] eqn:E; [|discriminate].
  apply find_some in E. destruct E as [E1 E2]. exists b. split; [now apply in_rev|].
  split; [now apply bkey_is_true | now inversion H].
Qed.

Lemma bmap_get_none : forall o bin x y, bmap_get o bin x y = None -> forall b, In b bin -> bkey o b <> Some (x, y).
Proof.
  intros o bin x y H b Hin Hk. unfold bmap_get in H. destruct (find _ _) eqn:E; [discriminate|].
  apply bkey_is_true in Hk. apply in_rev in Hin. pose proof (find_none _ _ E b Hin). congruence.
Qed.

(** what the lookup returns: the value of some record stored for the pair in either orientation, or the default
    exactly when there is none *)
Lemma blookup_cases : forall o bin x y,
  (exists b, In b bin /\ ukey o x y b /\ blookup o bin x y = b_val b) \/
  ((forall b, In b bin -> ~ ukey o x y b) /\ blookup o bin x y = dflt).
Proof.
  intros o bin x y. unfold blookup.
  destruct (bmap_get o bin x y) as [v|] eqn:E1.
  - left. apply bmap_get_some in E1. destruct E1 as [b [H1 [H2 H3]]]. exists b. unfold ukey. auto.
  - destruct (bmap_get o bin y x) as [v|] eqn:E2.
    + left. apply bmap_get_some in E2. destruct E2 as [b [H1 [H2 H3]]]. exists b. unfold ukey. auto.
    + right. split; [|reflexivity]. intros b Hin [H|H].
      * exact (@bmap_get_none o bin x y E1 b Hin H).
      * exact (@bmap_get_none o bin y x E2 b Hin H).
Qed.

(** all records stored for one unordered pair agree (in particular: at most one record per pair) *)
Definition pair_consistent (o : idopt) (bin : list brec) : Prop :=
  forall b1 b2 x y, In b1 bin -> In b2 bin -> ukey o x y b1 -> ukey o x y b2 -> b_val b1 = b_val b2.

(** a stored record is found whichever way round it is stored and whichever way round it is asked for *)
Theorem binary_found : forall o bin b x y, pair_consistent o bin -> In b bin -> ukey o x y b ->
  blookup o bin x y = b_val b /\ blookup o bin y x = b_val b.
Proof.
  intros o bin b x y Hc Hin Hu. split.
  - destruct (blookup_cases o bin x y) as [[b' [H1 [H2 H3]]]|[H1 _]].
    + rewrite H3. now apply (Hc b' b x y).
    + exfalso. now apply (H1 b).
  - destruct (blookup_cases o bin y x) as [[b' [H1 [H2 H3]]]|[H1 _]].
    + rewrite H3. apply (Hc b' b x y); auto. now apply ukey_sym.
    + exfalso. apply (H1 b); auto. now apply ukey_sym.
Qed.

Theorem binary_lookup_sym : forall o bin x y, pair_consistent o bin -> blookup o bin x y = blookup o bin y x.
Proof.
  intros o bin x y Hc.
  destruct (blookup_cases o bin x y) as [[b [H1 [H2 H3]]]|[H1 H2]].
  - rewrite H3. symmetry. now apply (binary_found Hc H1 H2).
  - rewrite H2. destruct (blookup_cases o bin y x) as [[b [H3 [H4 H5]]]|[_ H3]]; [|now rewrite H3].
    exfalso. apply (H1 b H3). now apply ukey_sym.
Qed.

(** the documented default when no record exists for the pair *)
Theorem binary_default : forall o bin x y, (forall b, In b bin -> ~ ukey o x y b) -> blookup o bin x y = dflt.
Proof.
  intros o bin x y H. destruct (blookup_cases o bin x y) as [[b [H1 [H2 _]]]|[_ H2]]; [|assumption].
  exfalso. now apply (H b).
Qed.

(** without consistency the matrix is NOT symmetric: a file that stores the pair in both orientations with different
    values yields k_xy <> k_yx (boundary of the property, see notes/C14.md) *)
Definition flip (b : brec) : brec := mkB (b_id2 b) (b_id1 b) (b_val b).

Lemma bkey_flip : forall o b, bkey o (flip b) = match bkey o b with Some (x, y) => Some (y, x) | None => None end.
Proof. intros o b. unfold bkey, flip. simpl. destruct (as_key o (b_id1 b)), (as_key o (b_id2 b)); reflexivity. Qed.

Lemma ukey_flip : forall o x y b, ukey o x y (flip b) <-> ukey o x y b.
Proof.
  intros o x y b. unfold ukey. rewrite bkey_flip. destruct (bkey o b) as [[u v]|]; [|tauto].
  split; intros [H|H]; inversion H; subst; auto.
Qed.

(** the lookup only depends on the set of (unordered pair, value) facts of a consistent file: hence storing any
    record the other way round, or permuting the file, changes nothing *)
Theorem binary_file_equiv : forall o bin bin' x y,
  pair_consistent o bin -> pair_consistent o bin' ->
  (forall u v w, (exists b, In b bin /\ ukey o u v b /\ b_val b = w) <-> (exists b, In b bin' /\ ukey o u v b /\ b_val b = w)) ->
  blookup o bin x y = blookup o bin' x y.
Proof.
  intros o bin bin' x y Hc Hc' He.
  destruct (blookup_cases o bin x y) as [[b [H1 [H2 H3]]]|[H1 H2]].
  - rewrite H3. destruct (proj1 (He x y (b_val b))) as [b' [I1 [I2 I3]]]; [eauto|].
    rewrite <- I3. symmetry. now apply (binary_found Hc' I1 I2).
  - rewrite H2. symmetry. apply binary_default. intros b' Hin Hu.
    destruct (proj2 (He x y (b_val b'))) as [b [I1 [I2 _]]]; [eauto|]. now apply (H1 b).
Qed.

Definition reoriented (bin bin' : list brec) : Prop := Forall2 (fun b b' => b' = b \/ b' = flip b) bin bin'.

Lemma reoriented_facts : forall o bin bin', reoriented bin bin' ->
  forall u v w, (exists b, In b bin /\ ukey o u v b /\ b_val b = w) <-> (exists b, In b bin' /\ ukey o u v b /\ b_val b = w).
Proof.
  intros o bin bin' H. induction H as [|b b' l l' Hb _ IH]; intros u v w.
  - split; intros [b [[] _]].
  - split; intros [c [[<-|Hin] [Hu Hv]]].
    + destruct Hb as [->| ->]; [exists b; simpl; auto|]. exists (flip b). simpl. split; [auto|]. split; [now apply ukey_flip | assumption].
    + destruct (proj1 (IH u v w)) as [c' [I1 I2]]; [eauto|]. exists c'. simpl; auto.
    + destruct Hb as [Hb|Hb]; subst b'; [exists b; simpl; auto|]. exists b. simpl. split; [auto|]. split; [now apply ukey_flip in Hu | assumption].
    + destruct (proj2 (IH u v w)) as [c' [I1 I2]]; [eauto|]. exists c'. simpl; auto.
Qed.

Lemma facts_consistent : forall o bin bin',
  (forall u v w, (exists b, In b bin /\ ukey o u v b /\ b_val b = w) <-> (exists b, In b bin' /\ ukey o u v b /\ b_val b = w)) ->
  pair_consistent o bin -> pair_consistent o bin'.
Proof.
  intros o bin bin' He Hc b1 b2 x y I1 I2 U1 U2.
  destruct (proj2 (He x y (b_val b1))) as [c1 [J1 [V1 W1]]]; [eauto|].
  destruct (proj2 (He x y (b_val b2))) as [c2 [J2 [V2 W2]]]; [eauto|].
  rewrite <- W1, <- W2. now apply (Hc c1 c2 x y).
Qed.

Theorem binary_orientation_irrelevant : forall o bin bin' x y, pair_consistent o bin -> reoriented bin bin' ->
  blookup o bin x y = blookup o bin' x y.
Proof.
  intros o bin bin' x y Hc Hr. pose proof (reoriented_facts o Hr) as He.
  apply binary_file_equiv; auto. eapply facts_consistent; eassumption.
Qed.

Theorem binary_file_perm : forall o bin bin' x y, pair_consistent o bin -> Permutation bin bin' ->
  blookup o bin x y = blookup o bin' x y.
Proof.
  intros o bin bin' x y Hc Hp.
  assert (He : forall u v w, (exists b, In b bin /\ ukey o u v b /\ b_val b = w) <-> (exists b, In b bin' /\ ukey o u v b /\ b_val b = w)).
  { intros u v w. split; intros [b [I1 I2]]; exists b; (split; [|assumption]).
    - eapply Permutation_in; eassumption.
    - eapply Permutation_in; [apply Permutation_sym|]; eassumption. }
  apply binary_file_equiv; auto. eapply facts_consistent; eassumption.
Qed.

(** shape and entries of the matrix *)
Theorem binary_matrix_entries : forall o pure bin m, binary_matrix o pure bin = Ok (Some m) ->
  exists ks, map (pkey o) pure = map Some ks /\ bin <> [] /\
             m = map (fun x => map (fun y => blookup o bin x y) ks) ks.
Proof.
  intros o pure bin m H. unfold binary_matrix in H. destruct bin as [|b bin]; [discriminate|].
  destruct (all_some _) as [ks|] eqn:E; [|discriminate]. inversion H; subst.
  exists ks. split; [now apply all_some_spec | split; [discriminate | reflexivity]].
Qed.

Theorem binary_matrix_none_iff : forall o pure bin, binary_matrix o pure bin = Ok None <-> bin = [].
Proof.
  intros o pure bin. unfold binary_matrix. destruct bin; [tauto|].
  destruct (all_some _); split; discriminate.
Qed.

(** no panic when every pure record carries the selected identifier — in particular for the output of [from_multiple] *)
Theorem binary_matrix_no_panic : forall o pure bin ks, map (pkey o) pure = map Some ks -> binary_matrix o pure bin <> Err EPanic.
Proof.
  intros o pure bin ks H. unfold binary_matrix. destruct bin; [discriminate|].
  rewrite H. rewrite (all_some_map_Some (fun x => x)). discriminate.
Qed.

(** ** [from_multiple_json] complete: pure part, then the binary file, then [from_records] (which stores both) *)
Definition from_json_full (o : idopt) (inp : list (list N * file (prec A))) (bf : option (file brec))
  : result (list (prec A) * option (list (list B))) :=
  match from_multiple o inp with
  | Err e => Err e
  | Ok recs =>
      match bf with
      | None => Ok (recs, None)
      | Some FNoFile => Err EFileIO
      | Some FBadJson => Err ESerde
      | Some (FRecords bin) =>
          match binary_matrix o recs bin with Ok m => Ok (recs, m) | Err e => Err e end
      end
  end.

Theorem from_json_full_no_panic : forall o inp bf, from_json_full o inp bf <> Err EPanic.
Proof.
  intros o inp bf. unfold from_json_full. destruct (from_multiple o inp) as [recs|e] eqn:E.
  - destruct bf as [[| |bin]|]; try discriminate.
    destruct (binary_matrix o recs bin) eqn:E2; [discriminate|].
    intro H; inversion H; subst. apply from_multiple_order in E. exact (@binary_matrix_no_panic o recs bin _ E E2).
  - intro H; inversion H; subst. exact (@from_multiple_no_panic A o inp E).
Qed.

(** the complete statement for a successful load: components in query order, and the (i,j) entry of the matrix is the
    lookup of the i-th and j-th queried names *)
Theorem from_json_full_ok : forall o inp bf recs m, from_json_full o inp bf = Ok (recs, m) ->
  let q := concat (map fst inp) in
  map (pkey o) recs = map Some q /\
  match m with
  | None => bf = None \/ bf = Some (FRecords [])
  | Some mat => exists bin, bf = Some (FRecords bin) /\ bin <> [] /\
                  mat = map (fun x => map (fun y => blookup o bin x y) q) q
  end.
Proof.
  intros o inp bf recs m H q. unfold from_json_full in H.
  destruct (from_multiple o inp) as [recs'|] eqn:E; [|discriminate].
  pose proof (from_multiple_order _ _ E) as Ho. fold q in Ho.
  destruct bf as [[| |bin]|]; try discriminate.
  - destruct (binary_matrix o recs' bin) as [m'|] eqn:E2; [|discriminate]. inversion H; subst. split; [assumption|].
    destruct m as [mat|].
    + apply binary_matrix_entries in E2. destruct E2 as [ks [K1 [K2 K3]]].
      exists bin. split; [reflexivity|]. split; [assumption|].
      rewrite Ho in K1. assert (ks = q).
      { clear -K1. revert ks K1. induction q as [|a q IH]; intros [|b ks] K; simpl in *; try discriminate; [reflexivity|].
        inversion K. f_equal. now apply IH. }
      now subst ks.
    + apply binary_matrix_none_iff in E2. subst. auto.
  - inversion H; subst. auto.
Qed.

End Binary.

Arguments mkB {B} b_id1 b_id2 b_val.

(* ------------------------------------------------------------------------------------------------ *)
(** * [new_binary] and [subset] *)

Section Subset.
Variable T B : Type.
Variable dT : T.
Variable dB : B.

(** [Parameter::new_binary]: the 2x2 matrix with the default on the diagonal *)
Definition new_binary_matrix (br : option B) : option (list (list B)) :=
  match br with None => None | Some b => Some [[dB; b]; [b; dB]] end.

Definition mat_get (m : list (list B)) (i j : nat) : B := nth j (nth i m []) dB.

Theorem new_binary_sym : forall b i j, (i < 2)%nat -> (j < 2)%nat ->
  mat_get [[dB; b]; [b; dB]] i j = if Nat.eqb i j then dB else b.
Proof.
  intros b i j Hi Hj. destruct i as [|[|i]]; destruct j as [|[|j]]; try lia; reflexivity.
Qed.

(** [Parameter::subset] on the retained records *)
Definition subset_pure (l : list T) (idx : list nat) : list T := map (fun i => nth i l dT) idx.
Definition subset_mat (m : list (list B)) (idx : list nat) : list (list B) :=
  map (fun i => map (fun j => mat_get m i j) idx) idx.
Definition subset (p : list T * option (list (list B))) (idx : list nat) : list T * option (list (list B)) :=
  (subset_pure (fst p) idx, option_map (fun m => subset_mat m idx) (snd p)).

Definition square (n : nat) (m : list (list B)) : Prop := length m = n /\ Forall (fun row => length row = n) m.

Lemma nth_map_lt : forall U V (f : U -> V) (l : list U) a d d0, (a < length l)%nat ->
  nth a (map f l) d = f (nth a l d0).
Proof.
  intros U V f l a d d0 H. rewrite (nth_indep _ d (f d0)) by (now rewrite map_length). apply map_nth.
Qed.

Lemma subset_mat_get : forall m idx a b, (a < length idx)%nat -> (b < length idx)%nat ->
  mat_get (subset_mat m idx) a b = mat_get m (nth a idx 0%nat) (nth b idx 0%nat).
Proof.
  intros m idx a b Ha Hb. unfold subset_mat, mat_get at 1.
  rewrite (nth_map_lt (fun i => map (fun j => mat_get m i j) idx) idx [] 0%nat Ha).
  now rewrite (nth_map_lt (fun j => mat_get m (nth a idx 0%nat) j) idx dB 0%nat Hb).
Qed.

(** entry (a,b) of the subset is entry (idx[a], idx[b]) of the original; component a is component idx[a] *)
Theorem subset_lookup : forall l m idx a b, (a < length idx)%nat -> (b < length idx)%nat ->
  nth a (subset_pure l idx) dT = nth (nth a idx 0%nat) l dT /\
  mat_get (subset_mat m idx) a b = mat_get m (nth a idx 0%nat) (nth b idx 0%nat).
Proof.
  intros l m idx a b Ha Hb. split; [|now apply subset_mat_get].
  unfold subset_pure. now rewrite (nth_map_lt (fun i => nth i l dT) idx dT 0%nat Ha).
Qed.

Lemma map_nth_seq : forall U (d : U) (l : list U), map (fun i => nth i l d) (seq 0 (length l)) = l.
Proof.
  intros U d l. apply (nth_ext _ _ d d); [now rewrite map_length, seq_length|].
  intros n Hn. rewrite map_length, seq_length in Hn.
  rewrite (nth_map_lt (fun i => nth i l d) (seq 0 (length l)) d 0%nat) by (now rewrite seq_length).
  now rewrite seq_nth.
Qed.

(** the identity index list gives the parameters back *)
Theorem subset_id : forall l m, square (length l) m ->
  subset (l, Some m) (seq 0 (length l)) = (l, Some m) /\ subset (l, None) (seq 0 (length l)) = (l, None).
Proof.
  intros l m [Hlen Hrows]. unfold subset. simpl. unfold subset_pure. rewrite map_nth_seq. split; [|reflexivity].
  f_equal. f_equal. unfold subset_mat. rewrite <- Hlen.
  rewrite <- (map_nth_seq [] m) at 2. apply map_ext_in. intros i Hi. apply in_seq in Hi.
  unfold mat_get. assert (Hr : length (nth i m []) = length m).
  { rewrite Hlen. rewrite Forall_forall in Hrows. apply Hrows. apply nth_In. lia. }
  rewrite <- Hr. apply map_nth_seq.
Qed.

(** taking a subset of a subset is the subset at the composed indices *)
Theorem subset_compose : forall p idx1 idx2, Forall (fun i => (i < length idx1)%nat) idx2 ->
  subset (subset p idx1) idx2 = subset p (map (fun i => nth i idx1 0%nat) idx2).
Proof.
  intros [l m] idx1 idx2 H. unfold subset. simpl. f_equal.
  - unfold subset_pure. rewrite map_map. apply map_ext_in. intros i Hi.
    rewrite Forall_forall in H. specialize (H i Hi).
    now rewrite (nth_map_lt (fun i => nth i l dT) idx1 dT 0%nat H).
  - destruct m as [m|]; [|reflexivity]. simpl. f_equal. unfold subset_mat at 1 3.
    rewrite map_map. apply map_ext_in. intros i Hi. rewrite map_map. apply map_ext_in. intros j Hj.
    rewrite Forall_forall in H. apply subset_mat_get; auto.
Qed.

End Subset.

(* ------------------------------------------------------------------------------------------------ *)
(** * Binary association records: how [from_records] hands the matrix of binary records to
      [AssociationParameters::new] (src/saftvrmie/parameters.rs + eos/association.rs, src/association/mod.rs)

    Every entry (i,j) of the n x n matrix that carries a cross-association value is applied, in row-major order, to the
    site pair A_i-B_j (if component i has A sites and j has B sites) and to the site pair A_j-B_i (if i has B sites and j
    has A sites); a later application overwrites an earlier one.  Site pairs that are never touched keep the combining rule. *)
Section AssocOverride.
Variable V : Type.

Definition npair_eqb (p q : nat * nat) : bool := Nat.eqb (fst p) (fst q) && Nat.eqb (snd p) (snd q).

Lemma npair_eqb_true : forall p q, npair_eqb p q = true <-> p = q.
Proof.
  intros [a b] [c d]. unfold npair_eqb. simpl. rewrite andb_true_iff, !Nat.eqb_eq.
  split; [intros [-> ->]; reflexivity | intro H; inversion H; auto].
Qed.

(** state: the overrides applied so far, newest first, keyed by (component of the A site, component of the B site) *)
Definition apply_rec (hasA hasB : nat -> bool) (acc : list ((nat * nat) * V)) (r : (nat * nat) * option V)
  : list ((nat * nat) * V) :=
  match snd r with
  | None => acc
  | Some v =>
      let i := fst (fst r) in let j := snd (fst r) in
      let acc1 := if hasA i && hasB j then ((i, j), v) :: acc else acc in
      if hasB i && hasA j then ((j, i), v) :: acc1 else acc1
  end.

Definition overrides_of (hasA hasB : nat -> bool) (recs : list ((nat * nat) * option V)) : list ((nat * nat) * V) :=
  fold_left (apply_rec hasA hasB) recs [].

(** the value a site pair ends up with: [None] = combining rule *)
Definition ov_get (acc : list ((nat * nat) * V)) (a b : nat) : option V :=
  match find (fun e => npair_eqb (fst e) (a, b)) acc with Some e => Some (snd e) | None => None end.

(** [binary_records.indexed_iter()]: row-major *)
Definition matrix_recs (n : nat) (m : nat -> nat -> option V) : list ((nat * nat) * option V) :=
  flat_map (fun i => map (fun j => ((i, j), m i j)) (seq 0 n)) (seq 0 n).

Definition entries_ok (m : nat -> nat -> option V) (acc : list ((nat * nat) * V)) : Prop :=
  forall a b v, In ((a, b), v) acc -> m a b = Some v.

Lemma apply_rec_ok : forall hasA hasB m acc r, (forall i j, m i j = m j i) ->
  snd r = m (fst (fst r)) (snd (fst r)) -> entries_ok m acc -> entries_ok m (apply_rec hasA hasB acc r).
Proof.
  intros hasA hasB m acc [[i j] ov] Hs Hr Hok. unfold apply_rec. simpl in *. destruct ov as [v|]; [|assumption].
  assert (H1 : entries_ok m (if hasA i && hasB j then ((i, j), v) :: acc else acc)).
  { destruct (hasA i && hasB j); [|assumption]. intros a b w [E|E]; [inversion E; subst; now symmetry | now apply Hok]. }
  destruct (hasB i && hasA j); [|assumption].
  intros a b w [E|E]; [inversion E; subst; rewrite Hs; now symmetry | now apply H1].
Qed.

Lemma fold_ok : forall hasA hasB m recs acc, (forall i j, m i j = m j i) ->
  (forall r, In r recs -> snd r = m (fst (fst r)) (snd (fst r))) -> entries_ok m acc ->
  entries_ok m (fold_left (apply_rec hasA hasB) recs acc).
Proof.
  intros hasA hasB m recs. induction recs as [|r recs IH]; intros acc Hs Hr Hok; simpl; [assumption|].
  apply IH; auto. - intros r' Hin. apply Hr. now right. - apply apply_rec_ok; auto. apply Hr. now left.
Qed.

Lemma apply_rec_mono : forall hasA hasB acc r e, In e acc -> In e (apply_rec hasA hasB acc r).
Proof.
  intros hasA hasB acc [[i j] [v|]] e H; unfold apply_rec; simpl; [|assumption].
  destruct (hasA i && hasB j); destruct (hasB i && hasA j); simpl; auto.
Qed.

Lemma fold_mono : forall hasA hasB recs acc e, In e acc -> In e (fold_left (apply_rec hasA hasB) recs acc).
Proof.
  intros hasA hasB recs. induction recs as [|r recs IH]; intros acc e H; simpl; [assumption|].
  apply IH. now apply apply_rec_mono.
Qed.

Lemma fold_touches : forall hasA hasB recs acc i j v, In ((i, j), Some v) recs -> hasA i = true -> hasB j = true ->
  In ((i, j), v) (fold_left (apply_rec hasA hasB) recs acc).
Proof.
  intros hasA hasB recs. induction recs as [|r recs IH]; intros acc i j v Hin HA HB; [contradiction|].
  simpl. destruct Hin as [->|Hin]; [|now apply IH].
  apply fold_mono. unfold apply_rec. simpl. rewrite HA, HB. simpl. destruct (hasB i && hasA j); simpl; auto.
Qed.

Lemma matrix_recs_In : forall n m i j, (i < n)%nat -> (j < n)%nat -> In ((i, j), m i j) (matrix_recs n m).
Proof.
  intros n m i j Hi Hj. unfold matrix_recs. apply in_flat_map. exists i. split; [apply in_seq; lia|].
  apply in_map_iff. exists j. split; [reflexivity | apply in_seq; lia].
Qed.

Lemma matrix_recs_consistent : forall n m r, In r (matrix_recs n m) -> snd r = m (fst (fst r)) (snd (fst r)).
Proof.
  intros n m r H. unfold matrix_recs in H. apply in_flat_map in H. destruct H as [i [_ H]].
  apply in_map_iff in H. destruct H as [j [<- _]]. reflexivity.
Qed.

(** For a symmetric matrix of binary records every site pair A_i-B_j ends up with exactly the cross-association value
    of the record of the pair (i,j) — or keeps the combining rule when that record has none — whichever of the two
    components comes first in the parameter set. *)
Theorem assoc_override_matrix : forall hasA hasB n m i j, (forall i j, m i j = m j i) ->
  (i < n)%nat -> (j < n)%nat -> hasA i = true -> hasB j = true ->
  ov_get (overrides_of hasA hasB (matrix_recs n m)) i j = m i j.
Proof.
  intros hasA hasB n m i j Hs Hi Hj HA HB. unfold overrides_of.
  assert (Hok : entries_ok m (fold_left (apply_rec hasA hasB) (matrix_recs n m) [])).
  { apply fold_ok; auto. - apply matrix_recs_consistent. - intros a b v []. }
  unfold ov_get. destruct (find _ _) as [[[a b] v]|] eqn:E.
  - apply find_some in E. destruct E as [E1 E2]. simpl in E2. apply npair_eqb_true in E2. inversion E2; subst.
    simpl. symmetry. now apply Hok.
  - destruct (m i j) as [v|] eqn:Em; [|reflexivity]. exfalso.
    assert (Hin : In ((i, j), v) (fold_left (apply_rec hasA hasB) (matrix_recs n m) [])).
    { apply fold_touches; auto. rewrite <- Em. now apply matrix_recs_In. }
    pose proof (find_none _ _ E _ Hin) as Hn. simpl in Hn.
    assert (npair_eqb (i, j) (i, j) = true) by now apply npair_eqb_true. congruence.
Qed.

(** in particular the two site pairs of a pair of components get the same value: A_i-B_j and A_j-B_i *)
Corollary assoc_override_sym : forall hasA hasB n m i j, (forall i j, m i j = m j i) ->
  (i < n)%nat -> (j < n)%nat -> hasA i = true -> hasB j = true -> hasA j = true -> hasB i = true ->
  ov_get (overrides_of hasA hasB (matrix_recs n m)) i j = ov_get (overrides_of hasA hasB (matrix_recs n m)) j i.
Proof. intros. rewrite !assoc_override_matrix; auto. Qed.

(** and the result does not depend on the order of the components: relabel them by any permutation [p] (inverse [q]) *)
Corollary assoc_override_relabel : forall hasA hasB n m (p q : nat -> nat) i j, (forall i j, m i j = m j i) ->
  (forall k, (k < n)%nat -> (p k < n)%nat) -> (forall k, q (p k) = k) ->
  (i < n)%nat -> (j < n)%nat -> hasA i = true -> hasB j = true ->
  ov_get (overrides_of (fun k => hasA (q k)) (fun k => hasB (q k)) (matrix_recs n (fun a b => m (q a) (q b)))) (p i) (p j)
  = ov_get (overrides_of hasA hasB (matrix_recs n m)) i j.
Proof.
  intros hasA hasB n m p q i j Hs Hp Hq Hi Hj HA HB.
  rewrite (assoc_override_matrix (fun k => hasA (q k)) (fun k => hasB (q k)) (n:=n) (fun a b => m (q a) (q b))); auto;
    rewrite ?Hq; auto.
  now rewrite assoc_override_matrix.
Qed.

End AssocOverride.

(* ------------------------------------------------------------------------------------------------ *)
(** * Non-vacuity *)

Definition idc (c : N) : ident := mkId (Some c) None None None None None.
Definition idn (c n : N) : ident := mkId (Some c) (Some n) None None None None.

Example ex_from_json_order :
  from_json_one Name [7; 5]%N (FRecords [mkP (idn 1 5) 50%N; mkP (idn 2 6) 60%N; mkP (idn 3 7) 70%N; mkP (idn 4 5) 51%N])
  = Ok [mkP (idn 3 7) 70%N; mkP (idn 1 5) 50%N].
Proof. reflexivity. Qed.

Example ex_missing :
  from_json_one Cas [1; 9; 8]%N (FRecords [mkP (idn 1 5) 50%N]) = Err (EMissing [9; 8]%N).
Proof. reflexivity. Qed.

Example ex_dup : from_json_one Cas [1; 1]%N (@FNoFile (prec N)) = Err EDup.
Proof. reflexivity. Qed.

Example ex_multi_dup_across_files :
  from_multiple Cas [([1]%N, FRecords [mkP (idc 1) 1%N]); ([1]%N, FRecords [mkP (idc 1) 1%N])] = Err EDup.
Proof. reflexivity. Qed.

Example ex_binary_either_orientation :
  let bin := [mkB (idc 2) (idc 1) 5%Z] in
  blookup 0%Z Cas bin 1%N 2%N = 5%Z /\ blookup 0%Z Cas bin 2%N 1%N = 5%Z /\ blookup 0%Z Cas bin 1%N 3%N = 0%Z.
Proof. repeat split. Qed.

(** boundary: a file storing the same pair in both orientations with different values gives an asymmetric matrix *)
Example ex_binary_inconsistent_file_asymmetric :
  let bin := [mkB (idc 1) (idc 2) 5%Z; mkB (idc 2) (idc 1) 7%Z] in
  blookup 0%Z Cas bin 1%N 2%N = 5%Z /\ blookup 0%Z Cas bin 2%N 1%N = 7%Z.
Proof. split; reflexivity. Qed.

Example ex_assoc_override :
  let m := fun i j => if Nat.eqb i j then None else Some 7%Z in
  let ov := overrides_of (fun _ => true) (fun _ => true) (matrix_recs 2 m) in
  ov_get ov 0 1 = Some 7%Z /\ ov_get ov 1 0 = Some 7%Z /\ ov_get ov 0 0 = None.
Proof. repeat split. Qed.

Example ex_keys_unique_satisfiable : keys_unique Cas [mkP (idc 1) 1%N; mkP (idc 2) 2%N].
Proof.
  intros r1 r2 k [<-|[<-|[]]] [<-|[<-|[]]] H1 H2; try reflexivity; compute in H1, H2; congruence.
Qed.
