(** C15 — the ideal-gas records (DIPPR equation 100 of poling2000.json, Joback groups of joback1987.json) yield a
    usable model: a polynomial heat capacity c_p(T) = sum_i c_i T^i that is positive on a temperature grid, and a
    thermal de Broglie wavelength whose exact value is

        ln Lambda^3 (T) = ig_rat R T0 cs T  +  ig_log R cs * ln (T / T0)  +  offset(T)

    with a RATIONAL part [ig_rat] and a rational coefficient [ig_log] of the logarithm.  Both are computed exactly
    here for every shipped record and compared with the implementation's [IdealGas::ln_lambda3] on every run (the
    logarithm and the model specific offset are applied by the comparator).  The formulas are total in the number of
    coefficients: a record with a single coefficient (constant heat capacity: the noble gases) is covered by
    [ig_rat_const]. *)
From Coq Require Import List String ZArith QArith Bool Lia Field.
From FeosVerif Require Import RecordsC15.
Import ListNotations.
Open Scope string_scope.

(** c_0 + t (c_1 + t (c_2 + ...)) *)
Fixpoint horner (cs : list Q) (t : Q) : Q :=
  match cs with
  | [] => 0
  | c :: r => c + t * horner r t
  end.

(** [c_0 / k; c_1 / (k+1); ...] *)
Fixpoint div_index (k : positive) (cs : list Q) : list Q :=
  match cs with
  | [] => []
  | c :: r => (c / inject_Z (Zpos k)) :: div_index (Pos.succ k) r
  end.

(** heat capacity, its integral  sum_i c_i T^(i+1)/(i+1),  the polynomial part  sum_{i>=1} c_i T^i / i  of the
    integral of c_p / T, and the coefficient c_0 of ln T in that integral *)
Definition cp (cs : list Q) (t : Q) : Q := horner cs t.
Definition enth (cs : list Q) (t : Q) : Q := t * horner (div_index 1 cs) t.
Definition entr_poly (cs : list Q) (t : Q) : Q :=
  match cs with
  | [] => 0
  | _ :: r => t * horner (div_index 1 r) t
  end.
Definition entr_log (cs : list Q) : Q := match cs with [] => 0 | c :: _ => c end.

Definition ig_rat (R t0 : Q) (cs : list Q) (t : Q) : Q :=
  (enth cs t - enth cs t0 - t * (entr_poly cs t - entr_poly cs t0)) / (t * R).
Definition ig_log (R : Q) (cs : list Q) : Q := - entr_log cs / R.

(** constant heat capacity (one coefficient): the textbook result  c (T - T0) / (T R)  - no division by the
    polynomial degree is involved *)
Lemma ig_rat_const : forall R t0 c t, ~ t == 0 -> ~ R == 0 ->
    ig_rat R t0 [c] t == c * (t - t0) / (t * R).
Proof.
  intros R t0 c t Ht HR. unfold ig_rat, enth, entr_poly, div_index, horner. simpl. field. split; assumption.
Qed.

Lemma cp_const : forall c t, cp [c] t == c.
Proof. intros. unfold cp, horner. ring. Qed.

Lemma ig_log_const : forall R c, ig_log R [c] == - c / R.
Proof. intros. unfold ig_log, entr_log. reflexivity. Qed.

Lemma ideal_gas_constant_cp : forall R t0 c t, ~ t == 0 -> ~ R == 0 ->
    ig_rat R t0 [c] t == c * (t - t0) / (t * R) /\ ig_log R [c] == - c / R /\ cp [c] t == c.
Proof.
  intros R t0 c t Ht HR. split; [now apply ig_rat_const|]. split; [apply ig_log_const|apply cp_const].
Qed.

(** at the reference temperature the rational part vanishes (Lambda is normalised there) *)
Lemma ig_rat_ref : forall R t0 cs, ~ t0 == 0 -> ~ R == 0 -> ig_rat R t0 cs t0 == 0.
Proof.
  intros R t0 cs Ht HR. unfold ig_rat.
  set (a := enth cs t0). set (b := entr_poly cs t0). field. split; assumption.
Qed.

(** linear heat capacity, as a second closed form (two coefficients) *)
Lemma ig_rat_linear : forall R t0 c0 c1 t, ~ t == 0 -> ~ R == 0 ->
    ig_rat R t0 [c0; c1] t == (c0 * (t - t0) - c1 * (t - t0) * (t - t0) / 2) / (t * R).
Proof.
  intros R t0 c0 c1 t Ht HR. unfold ig_rat, enth, entr_poly, div_index, horner. simpl. field. split; assumption.
Qed.

(** ** normalising evaluators (used for the values printed for the comparison with the implementation): the same
    functions with [Qred] after every step, so that numerators and denominators stay small; proved equal *)
Fixpoint hornerR (cs : list Q) (t : Q) : Q :=
  match cs with
  | [] => 0
  | c :: r => Qred (c + t * hornerR r t)
  end.

Lemma hornerR_eq : forall cs t, hornerR cs t == horner cs t.
Proof.
  induction cs as [|c r IH]; intro t.
  - cbn [hornerR horner]. reflexivity.
  - cbn [hornerR horner]. transitivity (c + t * hornerR r t); [apply Qred_correct|].
    rewrite IH. reflexivity.
Qed.

Definition cpR (cs : list Q) (t : Q) : Q := hornerR cs t.
Definition enthR (cs : list Q) (t : Q) : Q := Qred (t * hornerR (div_index 1 cs) t).
Definition entr_polyR (cs : list Q) (t : Q) : Q :=
  match cs with
  | [] => 0
  | _ :: r => Qred (t * hornerR (div_index 1 r) t)
  end.
Definition ig_ratR (R t0 : Q) (cs : list Q) (t : Q) : Q :=
  Qred ((enthR cs t - enthR cs t0 - t * (entr_polyR cs t - entr_polyR cs t0)) / (t * R)).

Lemma cpR_eq : forall cs t, cpR cs t == cp cs t.
Proof. intros. apply hornerR_eq. Qed.

Lemma enthR_eq : forall cs t, enthR cs t == enth cs t.
Proof.
  intros. unfold enthR, enth. transitivity (t * hornerR (div_index 1 cs) t); [apply Qred_correct|].
  rewrite hornerR_eq. reflexivity.
Qed.

Lemma entr_polyR_eq : forall cs t, entr_polyR cs t == entr_poly cs t.
Proof.
  intros [|c r] t; cbn [entr_polyR entr_poly]; [reflexivity|].
  transitivity (t * hornerR (div_index 1 r) t); [apply Qred_correct|].
  rewrite hornerR_eq. reflexivity.
Qed.

Lemma ig_ratR_eq : forall R t0 cs t, ig_ratR R t0 cs t == ig_rat R t0 cs t.
Proof.
  intros. unfold ig_ratR, ig_rat.
  transitivity ((enthR cs t - enthR cs t0 - t * (entr_polyR cs t - entr_polyR cs t0)) / (t * R)); [apply Qred_correct|].
  rewrite !enthR_eq, !entr_polyR_eq. reflexivity.
Qed.

Lemma ideal_gas_evaluator : forall R t0 cs t, ig_ratR R t0 cs t == ig_rat R t0 cs t /\ cpR cs t == cp cs t.
Proof. intros. split; [apply ig_ratR_eq|apply cpR_eq]. Qed.

(** heat capacity positive on a grid of temperatures *)
Definition cp_pos_onb (grid : list Q) (cs : list Q) : bool := forallb (fun t => Qltb 0 (cp cs t)) grid.

Lemma cp_pos_onb_sound : forall grid cs, cp_pos_onb grid cs = true -> Forall (fun t => 0 < cp cs t) grid.
Proof.
  intros grid cs H. apply Forall_forall. intros t Ht. apply Qltb_true.
  unfold cp_pos_onb in H. rewrite forallb_forall in H. now apply H.
Qed.

(* ------------------------------------------------------------------------------------------- *)
(** * DIPPR equation 100 records *)

(** the flattened model record is  DIPPR100.0, DIPPR100.1, ...  (in the order of the file) *)
Definition is_dippr100 (r : pure_rec) : bool :=
  negb (match p_fields r with [] => true | _ => false end)
  && forallb (fun kv => String.prefix "DIPPR100." (fst kv)) (p_fields r).

Definition dippr_coefs (r : pure_rec) : list Q := map (fun kv => dec_Q (snd kv)) (p_fields r).

Definition dippr_okb (grid : list Q) (r : pure_rec) : bool :=
  ideal_okb r && is_dippr100 r && cp_pos_onb grid (dippr_coefs r).

Definition dippr_ok (grid : list Q) (r : pure_rec) : Prop :=
  ideal_ok r /\ dippr_coefs r <> [] /\ Forall (fun t => 0 < cp (dippr_coefs r) t) grid.

Lemma dippr_okb_sound : forall grid r, dippr_okb grid r = true -> dippr_ok grid r.
Proof.
  intros grid r H. unfold dippr_okb in H.
  apply andb_true_iff in H. destruct H as [H H0]. apply andb_true_iff in H. destruct H as [H H1].
  split; [|split].
  - now apply ideal_okb_sound.
  - unfold is_dippr100 in H1. apply andb_true_iff in H1. destruct H1 as [N _].
    unfold dippr_coefs. destruct (p_fields r) as [|kv fs].
    + simpl in N. discriminate N.
    + simpl. intro E. inversion E.
  - now apply cp_pos_onb_sound.
Qed.

Lemma dippr_collection_sound : forall grid l,
    collection_okb (dippr_okb grid) l = true -> collection_ok (dippr_ok grid) l.
Proof. intro grid. exact (collection_okb_sound _ _ (dippr_okb_sound grid)). Qed.

(* ------------------------------------------------------------------------------------------- *)
(** * Joback: coefficients of a substance assembled from the group table ([FromSegments for JobackRecord]) *)

Definition joback_offsets : list Q := [-3793 # 100; 21 # 100; -391 # 1000000; 206 # 1000000000; 0].

Fixpoint add_coefs (a b : list Q) : list Q :=
  match a, b with
  | x :: a', y :: b' => (x + y) :: add_coefs a' b'
  | _, _ => []
  end.

Definition joback_seg_coefs (r : seg_rec) : option (list Q) :=
  match fieldQ "a" (s_fields r), fieldQ "b" (s_fields r), fieldQ "c" (s_fields r),
        fieldQ "d" (s_fields r), fieldQ "e" (s_fields r) with
  | Some a, Some b, Some c, Some d, Some e => Some [a; b; c; d; e]
  | _, _, _, _, _ => None
  end.

Fixpoint joback_from (table : list seg_rec) (segs : list string) (acc : list Q) : option (list Q) :=
  match segs with
  | [] => Some acc
  | s :: t => match find_seg s table with
              | Some r => match joback_seg_coefs r with
                          | Some cs => joback_from table t (add_coefs acc cs)
                          | None => None
                          end
              | None => None
              end
  end.

Definition joback_coefs (table : list seg_rec) (c : chem_rec) : option (list Q) :=
  joback_from table (c_segments c) joback_offsets.

Definition joback_gc_okb (grid : list Q) (table : list seg_rec) (c : chem_rec) : bool :=
  chem_okb (seg_ids table) c &&
  match joback_coefs table c with
  | Some cs => (List.length cs =? 5)%nat && cp_pos_onb grid cs
  | None => false
  end.

Definition joback_gc_ok (grid : list Q) (table : list seg_rec) (c : chem_rec) : Prop :=
  chem_ok (seg_ids table) c /\
  exists cs, joback_coefs table c = Some cs /\ List.length cs = 5%nat /\ Forall (fun t => 0 < cp cs t) grid.

Lemma joback_gc_okb_sound : forall grid table c, joback_gc_okb grid table c = true -> joback_gc_ok grid table c.
Proof.
  intros grid table c H. unfold joback_gc_okb in H. apply andb_true_iff in H. destruct H as [H1 H2].
  split; [now apply chem_okb_sound|].
  destruct (joback_coefs table c) as [cs|]; [|discriminate].
  apply andb_true_iff in H2. destruct H2 as [L P]. exists cs. repeat split; auto.
  - now apply Nat.eqb_eq.
  - now apply cp_pos_onb_sound.
Qed.

Theorem joback_gc_all_sound : forall grid table chems,
    forallb (joback_gc_okb grid table) chems = true -> Forall (joback_gc_ok grid table) chems.
Proof.
  intros grid table chems H. apply Forall_forall. intros c Hc. apply joback_gc_okb_sound.
  rewrite forallb_forall in H. now apply H.
Qed.

(* ------------------------------------------------------------------------------------------- *)
(** * non-vacuity *)

Definition ex_argon :=
  mk_pure (mk_ident (Some "7440-37-1") (Some "argon") None None None None) None [("DIPPR100.0", (207861565453831, -10)%Z)].

Example ex_argon_ok : dippr_okb [200; 300; 1000] ex_argon = true.
Proof. vm_compute. reflexivity. Qed.

Example ex_argon_rat : ig_rat (831446261815324 # 100000000000) (29815 # 100) (dippr_coefs ex_argon) 600
                       == (207861565453831 # 10000000000) * (600 - (29815 # 100)) / (600 * (831446261815324 # 100000000000)).
Proof. vm_compute. reflexivity. Qed.

Example ex_negative_cp_rejected :
  dippr_okb [200; 300] (mk_pure (mk_ident None (Some "x") None None None None) None [("DIPPR100.0", (1, 0)%Z); ("DIPPR100.1", (-1, -2)%Z)]) = false.
Proof. vm_compute. reflexivity. Qed.
