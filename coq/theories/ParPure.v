(** C11 — model of [PhaseDiagram::pure] and [PhaseDiagram::par_pure]
    (feos-core/src/phase_equilibria/phase_diagram_pure.rs:36-62 and 76-125).

    [solve t g] stands for [PhaseEquilibrium::pure(eos, t, g, options).ok()]: the point solver at
    temperature [t] started from the optional previous solution [g].
    * sequential: one loop over all temperatures, each point started from the previous result;
    * parallel: the temperature array is cut into chunks of [k] ([axis_chunks_iter]), every chunk runs
      the same loop starting without a guess, the per-chunk vectors are flattened in chunk order
      (rayon's indexed [collect]), and the critical point is pushed last in both variants. *)
From Coq Require Import List Arith Lia PeanoNat.
Import ListNotations.

Section ParPure.
Variables T St : Type.
Variable solve : T -> option St -> option St.

(** the loop of [pure] (l.52-58) and of [solve_temperatures] (l.83-92) *)
Fixpoint solve_seq (g : option St) (ts : list T) : list St :=
  match ts with
  | [] => []
  | t :: ts' => match solve t g with
                | Some s => s :: solve_seq (Some s) ts'
                | None => solve_seq None ts'
                end
  end.

(** [axis_chunks_iter(Axis(0), k)]: consecutive chunks of [k] elements, the last one may be shorter *)
Fixpoint chunks_fuel (fuel k : nat) (l : list T) : list (list T) :=
  match fuel with
  | 0 => []
  | S f => match l with
           | [] => []
           | _ => firstn k l :: chunks_fuel f k (skipn k l)
           end
  end.

Definition chunks (k : nat) (l : list T) : list (list T) := chunks_fuel (length l) k l.

Definition pure (ts : list T) (crit : St) : list St := solve_seq None ts ++ [crit].

(** [solve_temperatures] (l.76-95): the per-chunk worker returns a [Result]; in the code it is always [Ok]
    because a failing temperature is skipped inside the loop ([.ok()]), never propagated *)
Definition solve_temperatures (c : list T) : option (list St) := Some (solve_seq None c).

(** [filter_map(|t| worker(t).ok()).flatten().collect()] for an arbitrary chunk worker *)
Definition collect_chunks (worker : list T -> option (list St)) (cs : list (list T)) : list St :=
  flat_map (fun c => match worker c with Some l => l | None => [] end) cs.

Definition par_pure_with (worker : list T -> option (list St)) (k : nat) (ts : list T) (crit : St) : list St :=
  collect_chunks worker (chunks k ts) ++ [crit].

Definition par_pure (k : nat) (ts : list T) (crit : St) : list St := par_pure_with solve_temperatures k ts crit.

Lemma collect_chunks_total : forall cs,
  collect_chunks solve_temperatures cs = concat (map (solve_seq None) cs).
Proof.
  intros cs. unfold collect_chunks, solve_temperatures. induction cs as [|c cs IH]; simpl; auto.
  rewrite IH. reflexivity.
Qed.

(** a worker that propagates the failure of a point (returns [Err] as soon as one temperature fails)
    instead of skipping it: the chunk's converged neighbours are lost with it *)
Fixpoint solve_strict (g : option St) (ts : list T) : option (list St) :=
  match ts with
  | [] => Some []
  | t :: ts' => match solve t g with
                | Some s => match solve_strict (Some s) ts' with Some l => Some (s :: l) | None => None end
                | None => None
                end
  end.

(** the same with the chunks processed in any order but collected by chunk index is the same
    function: nothing in [par_pure] depends on when a chunk is processed, because chunks share no
    state — this is what makes the result schedule independent *)

Lemma chunks_fuel_concat : forall fuel k l, 1 <= k -> length l <= fuel -> concat (chunks_fuel fuel k l) = l.
Proof.
  induction fuel as [|f IH]; intros k l Hk Hl.
  - destruct l; simpl in *; auto; lia.
  - destruct l as [|x l]; simpl; auto.
    destruct k as [|k]; try lia. simpl.
    rewrite IH; try lia.
    + rewrite firstn_skipn. reflexivity.
    + rewrite skipn_length. simpl in Hl. lia.
Qed.

Lemma chunks_concat : forall k l, 1 <= k -> concat (chunks k l) = l.
Proof. intros. apply chunks_fuel_concat; auto. Qed.

Lemma chunks_fuel_sizes : forall fuel k l, 1 <= k ->
  Forall (fun c => 1 <= length c <= k) (chunks_fuel fuel k l).
Proof.
  induction fuel as [|f IH]; intros k l Hk; simpl; auto.
  destruct l as [|x l]; auto. constructor; auto.
  rewrite firstn_length. simpl. destruct k; simpl; lia.
Qed.

Lemma chunks_sizes : forall k l, 1 <= k -> Forall (fun c => 1 <= length c <= k) (chunks k l).
Proof. intros. apply chunks_fuel_sizes; auto. Qed.

Lemma chunks_partition : forall k l, 1 <= k ->
  concat (chunks k l) = l /\ Forall (fun c => 1 <= length c <= k) (chunks k l).
Proof. intros k l H. split; [apply chunks_concat|apply chunks_sizes]; assumption. Qed.

(** a guess-independent point solver (this is property C12) *)
Definition guess_independent : Prop := forall t g, solve t g = solve t None.

Lemma solve_seq_guess : guess_independent -> forall ts g, solve_seq g ts = solve_seq None ts.
Proof.
  intros HG ts. induction ts as [|t ts IH]; intros g; simpl; auto.
  rewrite (HG t g). destruct (solve t None); auto.
Qed.

Lemma solve_seq_app : guess_independent -> forall a b g,
  solve_seq g (a ++ b) = solve_seq g a ++ solve_seq None b.
Proof.
  intros HG a. induction a as [|t a IH]; intros b g; simpl.
  - apply solve_seq_guess. assumption.
  - destruct (solve t g); simpl; rewrite IH; reflexivity.
Qed.

Lemma solve_seq_concat : guess_independent -> forall cs,
  concat (map (solve_seq None) cs) = solve_seq None (concat cs).
Proof.
  intros HG cs. induction cs as [|c cs IH]; simpl; auto.
  rewrite solve_seq_app; auto. rewrite IH. reflexivity.
Qed.

(** [par_pure_order]: same states in the same order for every chunk size [k >= 1] and every number of
    points, the critical point last *)
Theorem par_pure_order : guess_independent ->
  forall k ts crit, 1 <= k -> par_pure k ts crit = pure ts crit.
Proof.
  intros HG k ts crit Hk. unfold par_pure, par_pure_with, pure. rewrite collect_chunks_total.
  rewrite solve_seq_concat; auto. rewrite chunks_concat; auto.
Qed.

Theorem critical_point_last : forall k ts crit d,
  last (par_pure k ts crit) d = crit /\ last (pure ts crit) d = crit.
Proof. intros. unfold par_pure, par_pure_with, pure. split; apply last_last. Qed.

(** without any hypothesis on the solver: one chunk (chunk size at least the number of temperatures)
    is the sequential algorithm *)
Theorem par_pure_single_chunk : forall k ts crit, 1 <= k -> length ts <= k -> par_pure k ts crit = pure ts crit.
Proof.
  intros k ts crit Hk Hl. unfold par_pure, par_pure_with, pure. rewrite collect_chunks_total. unfold chunks.
  destruct ts as [|t ts]; simpl; auto.
  rewrite firstn_all2 by (simpl in *; lia).
  rewrite skipn_all2 by (simpl in *; lia).
  destruct (length ts); simpl; rewrite app_nil_r; reflexivity.
Qed.

(** points where the solver FAILS are skipped by both variants: the result is exactly the list of
    solutions of the temperatures that have one, in grid order *)
Lemma solve_seq_filter : guess_independent -> forall ts,
  solve_seq None ts = flat_map (fun t => match solve t None with Some s => [s] | None => [] end) ts.
Proof.
  intros HG ts. induction ts as [|t ts IH]; simpl; auto.
  destruct (solve t None) eqn:E; simpl; [rewrite solve_seq_guess by assumption|]; rewrite IH; reflexivity.
Qed.

Theorem par_pure_skips_failures : guess_independent -> forall k ts crit, 1 <= k ->
  par_pure k ts crit = flat_map (fun t => match solve t None with Some s => [s] | None => [] end) ts ++ [crit].
Proof.
  intros HG k ts crit Hk. rewrite par_pure_order by assumption. unfold pure. rewrite solve_seq_filter by assumption.
  reflexivity.
Qed.
End ParPure.

(** * The two entry points as functions of the caller's arguments

    [PhaseDiagram::pure] and [PhaseDiagram::par_pure] both start with
    [State::critical_point(eos, None, critical_temperature, SolverOptions::default())?] — the critical point is
    computed with the DEFAULT options whatever [options] the caller passes — build the temperature grid from it
    and then run the point solver with the caller's options.  [cp o] is the critical-point solver under options [o]
    ([None] = error, propagated by [?]), [grid c] the temperatures below the critical state [c], [solve o] the point
    solver under options [o]. *)
Section Api.
Variables Opt T St : Type.
Variable default : Opt.
Variable cp : Opt -> option St.
Variable grid : St -> list T.
Variable solve : Opt -> T -> option St -> option St.

Definition pure_api (o : Opt) : option (list St) :=
  match cp default with
  | None => None
  | Some c => Some (pure T St (solve o) (grid c) c)
  end.

Definition par_pure_api (o : Opt) (k : nat) : option (list St) :=
  match cp default with
  | None => None
  | Some c => Some (par_pure T St (solve o) k (grid c) c)
  end.

(** same [Ok]/[Err], same states, same order, for every caller option [o] and every chunk size *)
Theorem par_pure_api_order : forall o, guess_independent T St (solve o) ->
  forall k, 1 <= k -> par_pure_api o k = pure_api o.
Proof.
  intros o HG k Hk. unfold par_pure_api, pure_api. destruct (cp default) as [c|]; auto.
  rewrite par_pure_order; auto.
Qed.

(** both succeed or fail together and end in the same critical state, without any hypothesis on the solver *)
Theorem api_same_critical_state : forall o k d,
  match pure_api o, par_pure_api o k with
  | Some a, Some b => last a d = last b d
  | None, None => True
  | _, _ => False
  end.
Proof.
  intros o k d. unfold pure_api, par_pure_api. destruct (cp default) as [c|]; auto.
  destruct (critical_point_last T St (solve o) k (grid c) c d) as [H1 H2]. congruence.
Qed.

(** a sequential variant that computes its critical point with the caller's options (not the code) *)
Definition pure_api_caller_options (o : Opt) : option (list St) :=
  match cp o with
  | None => None
  | Some c => Some (pure T St (solve o) (grid c) c)
  end.
End Api.

(** if the critical-point solver depends on its options, such a variant differs from [par_pure_api] *)
Example caller_options_for_critical_point_differ :
  let cp := fun o : nat => if Nat.eqb o 0 then Some 100 else if Nat.eqb o 1 then Some 101 else None in
  let grid := fun c : nat => [c - 2; c - 1] in
  let solve := fun (_ t : nat) (_ : option nat) => Some t in
  par_pure_api nat nat nat 0 cp grid solve 1 2 = Some [98; 99; 100]
  /\ pure_api nat nat nat 0 cp grid solve 1 = Some [98; 99; 100]
  /\ pure_api_caller_options nat nat nat cp grid solve 1 = Some [99; 100; 101]
  /\ pure_api_caller_options nat nat nat cp grid solve 2 = None.
Proof. vm_compute. auto. Qed.

(** a result is laid out on the grid: strictly increasing grid indices below [n], then the critical point *)
Fixpoint increasing_below (n : nat) (lo : nat) (l : list nat) (crit : nat) : bool :=
  match l with
  | [] => false
  | [c] => Nat.eqb c crit
  | i :: l' => Nat.leb lo i && Nat.ltb i n && increasing_below n (S i) l' crit
  end.

Definition on_grid (n crit : nat) (l : list nat) : bool := increasing_below n 0 l crit.

(** * Replay: the point solver given as a table (which grid temperatures have a converged equilibrium),
    states identified with the index of their temperature *)
Definition table_solver (ok : list bool) (t : nat) (g : option nat) : option nat :=
  if nth t ok false then Some t else None.

Lemma table_solver_guess_independent : forall ok, guess_independent nat nat (table_solver ok).
Proof. intros ok t g. reflexivity. Qed.

Fixpoint list_nat_eqb (a b : list nat) : bool :=
  match a, b with
  | [], [] => true
  | x :: a', y :: b' => Nat.eqb x y && list_nat_eqb a' b'
  | _, _ => false
  end.

(** observed: (chunk size, indices of the returned states, critical point = [crit]); returns the cases where
    the model's [par_pure] differs, with the model's list *)
Definition par_mismatches (ok : list bool) (crit : nat) (cases : list (nat * list nat)) : list (nat * list nat * list nat) :=
  flat_map (fun c => let m := par_pure nat nat (table_solver ok) (fst c) (seq 0 (length ok)) crit in
                     if list_nat_eqb m (snd c) then [] else [(fst c, snd c, m)]) cases.

Definition pure_model (ok : list bool) (crit : nat) : list nat := pure nat nat (table_solver ok) (seq 0 (length ok)) crit.

(** non-vacuity: a guess-independent solver exists, and for a guess-dependent one the two variants differ *)
Example guess_independent_exists : guess_independent nat nat (fun t _ => if Nat.even t then Some (t * 10) else None).
Proof. intros t g. reflexivity. Qed.

Example par_pure_demo :
  par_pure nat nat (fun t _ => if Nat.even t then Some (t * 10) else None) 2 [1; 2; 3; 4; 6] 999 = [20; 40; 60; 999]
  /\ chunks nat 2 [1; 2; 3; 4; 6] = [[1; 2]; [3; 4]; [6]].
Proof. vm_compute. auto. Qed.

(** a grid whose first temperature has no solution: the shipped worker skips it, a worker that propagates
    the failure loses the whole first chunk (here temperature 2 as well) *)
Example failing_point_skipped :
  let solve := fun (t : nat) (_ : option nat) => if Nat.eqb t 1 then None else Some t in
  par_pure nat nat solve 2 [1; 2; 3; 4; 5] 0 = [2; 3; 4; 5; 0] /\ pure nat nat solve [1; 2; 3; 4; 5] 0 = [2; 3; 4; 5; 0]
  /\ par_pure_with nat nat (solve_strict nat nat solve None) 2 [1; 2; 3; 4; 5] 0 = [3; 4; 5; 0].
Proof. vm_compute. auto. Qed.

Example guess_dependent_differs :
  let solve := fun (t : nat) (g : option nat) => match g with None => Some t | Some s => Some (s + t) end in
  par_pure nat nat solve 2 [1; 2; 3] 0 = [1; 3; 3; 0] /\ pure nat nat solve [1; 2; 3] 0 = [1; 3; 6; 0].
Proof. vm_compute. auto. Qed.
