(** C11 — model of [PhaseDiagram::pure] and [PhaseDiagram::par_pure]
    (feos-core/src/phase_equilibria/phase_diagram_pure.rs:36-62 and 76-125).

    [solve t g] stands for [PhaseEquilibrium::pure(eos, t, g, options).ok()]: the point solver at
    temperature [t] started from the optional previous solution [g].
    * sequential: one loop over all temperatures, each point started from the previous result;
    * parallel: the temperature array is cut into chunks of [k] ([axis_chunks_iter]), every chunk runs
      the same loop starting without a guess, the per-chunk vectors are flattened in chunk order
      (rayon's indexed [collect]), and the critical point is pushed last in both variants. *)
From Coq Require Import List Arith Lia PeanoNat.
Import ListNotations.

Section ParPure.
Variables T St : Type.
Variable solve : T -> option St -> option St.

(** the loop of [pure] (l.52-58) and of [solve_temperatures] (l.83-92) *)
Fixpoint solve_seq (g : option St) (ts : list T) : list St :=
  match ts with
  | [] => []
  | t :: ts' => match solve t g with
                | Some s => s :: solve_seq (Some s) ts'
                | None => solve_seq None ts'
                end
  end.

(** [axis_chunks_iter(Axis(0), k)]: consecutive chunks of [k] elements, the last one may be shorter *)
Fixpoint chunks_fuel (fuel k : nat) (l : list T) : list (list T) :=
  match fuel with
  | 0 => []
  | S f => match l with
           | [] => []
           | _ => firstn k l :: chunks_fuel f k (skipn k l)
           end
  end.

Definition chunks (k : nat) (l : list T) : list (list T) := chunks_fuel (length l) k l.

Definition pure (ts : list T) (crit : St) : list St := solve_seq None ts ++ [crit].

Definition par_pure (k : nat) (ts : list T) (crit : St) : list St :=
  concat (map (solve_seq None) (chunks k ts)) ++ [crit].

(** the same with the chunks processed in any order but collected by chunk index is the same
    function: nothing in [par_pure] depends on when a chunk is processed, because chunks share no
    state — this is what makes the result schedule independent *)

Lemma chunks_fuel_concat : forall fuel k l, 1 <= k -> length l <= fuel -> concat (chunks_fuel fuel k l) = l.
Proof.
  induction fuel as [|f IH]; intros k l Hk Hl.
  - destruct l; simpl in *; auto; lia.
  - destruct l as [|x l]; simpl; auto.
    destruct k as [|k]; try lia. simpl.
    rewrite IH; try lia.
    + rewrite firstn_skipn. reflexivity.
    + rewrite skipn_length. simpl in Hl. lia.
Qed.

Lemma chunks_concat : forall k l, 1 <= k -> concat (chunks k l) = l.
Proof. intros. apply chunks_fuel_concat; auto. Qed.

Lemma chunks_fuel_sizes : forall fuel k l, 1 <= k ->
  Forall (fun c => 1 <= length c <= k) (chunks_fuel fuel k l).
Proof.
  induction fuel as [|f IH]; intros k l Hk; simpl; auto.
  destruct l as [|x l]; auto. constructor; auto.
  rewrite firstn_length. simpl. destruct k; simpl; lia.
Qed.

Lemma chunks_sizes : forall k l, 1 <= k -> Forall (fun c => 1 <= length c <= k) (chunks k l).
Proof. intros. apply chunks_fuel_sizes; auto. Qed.

Lemma chunks_partition : forall k l, 1 <= k ->
  concat (chunks k l) = l /\ Forall (fun c => 1 <= length c <= k) (chunks k l).
Proof. intros k l H. split; [apply chunks_concat|apply chunks_sizes]; assumption. Qed.

(** a guess-independent point solver (this is property C12) *)
Definition guess_independent : Prop := forall t g, solve t g = solve t None.

Lemma solve_seq_guess : guess_independent -> forall ts g, solve_seq g ts = solve_seq None ts.
Proof.
  intros HG ts. induction ts as [|t ts IH]; intros g; simpl; auto.
  rewrite (HG t g). destruct (solve t None); auto.
Qed.

Lemma solve_seq_app : guess_independent -> forall a b g,
  solve_seq g (a ++ b) = solve_seq g a ++ solve_seq None b.
Proof.
  intros HG a. induction a as [|t a IH]; intros b g; simpl.
  - apply solve_seq_guess. assumption.
  - destruct (solve t g); simpl; rewrite IH; reflexivity.
Qed.

Lemma solve_seq_concat : guess_independent -> forall cs,
  concat (map (solve_seq None) cs) = solve_seq None (concat cs).
Proof.
  intros HG cs. induction cs as [|c cs IH]; simpl; auto.
  rewrite solve_seq_app; auto. rewrite IH. reflexivity.
Qed.

(** [par_pure_order]: same states in the same order for every chunk size [k >= 1] and every number of
    points, the critical point last *)
Theorem par_pure_order : guess_independent ->
  forall k ts crit, 1 <= k -> par_pure k ts crit = pure ts crit.
Proof.
  intros HG k ts crit Hk. unfold par_pure, pure.
  rewrite solve_seq_concat; auto. rewrite chunks_concat; auto.
Qed.

Theorem critical_point_last : forall k ts crit d,
  last (par_pure k ts crit) d = crit /\ last (pure ts crit) d = crit.
Proof. intros. unfold par_pure, pure. split; apply last_last. Qed.

(** without any hypothesis on the solver: one chunk (chunk size at least the number of temperatures)
    is the sequential algorithm *)
Theorem par_pure_single_chunk : forall k ts crit, 1 <= k -> length ts <= k -> par_pure k ts crit = pure ts crit.
Proof.
  intros k ts crit Hk Hl. unfold par_pure, pure, chunks.
  destruct ts as [|t ts]; simpl; auto.
  rewrite firstn_all2 by (simpl in *; lia).
  rewrite skipn_all2 by (simpl in *; lia).
  destruct (length ts); simpl; rewrite app_nil_r; reflexivity.
Qed.

(** without any hypothesis: every state of the parallel result is the solution of its temperature for
    SOME guess; only the guess differs from the sequential run (which is why C12 is the hypothesis) *)
End ParPure.

(** non-vacuity: a guess-independent solver exists, and for a guess-dependent one the two variants differ *)
Example guess_independent_exists : guess_independent nat nat (fun t _ => if Nat.even t then Some (t * 10) else None).
Proof. intros t g. reflexivity. Qed.

Example par_pure_demo :
  par_pure nat nat (fun t _ => if Nat.even t then Some (t * 10) else None) 2 [1; 2; 3; 4; 6] 999 = [20; 40; 60; 999]
  /\ chunks nat 2 [1; 2; 3; 4; 6] = [[1; 2]; [3; 4]; [6]].
Proof. vm_compute. auto. Qed.

Example guess_dependent_differs :
  let solve := fun (t : nat) (g : option nat) => match g with None => Some t | Some s => Some (s + t) end in
  par_pure nat nat solve 2 [1; 2; 3] 0 = [1; 3; 3; 0] /\ pure nat nat solve [1; 2; 3] 0 = [1; 3; 6; 0].
Proof. vm_compute. auto. Qed.
