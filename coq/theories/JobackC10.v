(** Model of src/ideal_gas/joback.rs (route H): ln Lambda^3 and the heat-capacity polynomial. *)
From Coq Require Import Reals Lra List.
From Coquelicot Require Import Coquelicot.
From Interval Require Import Tactic.
From FeosVerif Require Import IdealGasHelmC10.
Import ListNotations.
Open Scope R_scope.

(** constants of joback.rs *)
Definition J_RGAS : R := 6.022140857 * 1.38064852.
Definition J_T0 : R := 298.15.
Definition J_T0_2 : R := J_T0 * J_T0.
Definition J_T0_3 : R := J_T0 * J_T0_2.
Definition J_T0_4 : R := J_T0_2 * J_T0_2.
Definition J_T0_5 : R := J_T0 * J_T0_4.
Definition J_P0 : R := 1.0e5.
Definition J_A3 : R := 1e-30.
Definition J_KB : R := 1.38064852e-23.

(** the correlation the model is parameterised with: c_p in J/(mol K) *)
Definition joback_cp (a b c d e T : R) : R := a + b * T + c * T ^ 2 + d * T ^ 3 + e * T ^ 4.

(** [Joback::ln_lambda3] for one component, expression by expression *)
Definition joback_lam (a b c d e t : R) : R :=
  let t2 := t * t in
  let t4 := t2 * t2 in
  let f := ln (t * J_KB / (J_P0 * J_A3)) in
  let h := (t2 - J_T0_2) * 0.5 * b + (t * t2 - J_T0_3) * c / 3 + (t4 - J_T0_4) * d / 4
           + (t4 * t - J_T0_5) * e / 5 + (t - J_T0) * a in
  let s := (t - J_T0) * b + (t2 - J_T0_2) * 0.5 * c + (t2 * t - J_T0_3) * d / 3
           + (t4 - J_T0_4) * e / 4 + ln (t / J_T0) * a in
  (h - t * s) / (t * J_RGAS) + f.

Definition joback_H (a b c d e t : R) : R := a * t + b * t ^ 2 / 2 + c * t ^ 3 / 3 + d * t ^ 4 / 4 + e * t ^ 5 / 5.
Definition joback_S (a b c d e t : R) : R := a * ln t + b * t + c * t ^ 2 / 2 + d * t ^ 3 / 3 + e * t ^ 4 / 4.

Lemma J_RGAS_pos : 0 < J_RGAS. Proof. unfold J_RGAS. lra. Qed.

Lemma joback_H_deriv (a b c d e t : R) : is_derive (joback_H a b c d e) t (joback_cp a b c d e t).
Proof. unfold joback_H, joback_cp. auto_derive; [exact I | field]. Qed.

Lemma joback_S_deriv (a b c d e t : R) : 0 < t -> is_derive (joback_S a b c d e) t (joback_cp a b c d e t / t).
Proof. intros Ht. unfold joback_S, joback_cp. auto_derive; [ad_side | field; lra]. Qed.

(** the code's expression is the generic "integrals" form *)
Lemma joback_lam_form (a b c d e t : R) : 0 < t ->
  joback_lam a b c d e t =
  lamI (joback_H a b c d e) (joback_S a b c d e) J_RGAS (joback_H a b c d e J_T0) (joback_S a b c d e J_T0)
       (ln (J_KB / (J_P0 * J_A3))) t.
Proof.
  intros Ht. unfold joback_lam, lamI, joback_H, joback_S.
  assert (E1 : ln (t * J_KB / (J_P0 * J_A3)) = ln t + ln (J_KB / (J_P0 * J_A3))).
  { unfold Rdiv. rewrite Rmult_assoc. apply ln_mult; [exact Ht|]. unfold J_KB, J_P0, J_A3. lra. }
  assert (E2 : ln (t / J_T0) = ln t - ln J_T0).
  { unfold Rdiv. rewrite ln_mult, ln_Rinv; unfold J_T0; try lra; try (apply Rinv_0_lt_compat; lra). }
  rewrite E1, E2. unfold J_T0_5, J_T0_4, J_T0_3, J_T0_2. replace 0.5 with (/ 2) by lra. field.
  split; [unfold J_RGAS|]; lra.
Qed.

Definition joback_lam1 a b c d e := lamI1 (joback_H a b c d e) J_RGAS (joback_H a b c d e J_T0).
Definition joback_lam2 a b c d e := lamI2 (joback_H a b c d e) (joback_cp a b c d e) J_RGAS (joback_H a b c d e J_T0).

Theorem joback_lam_derivs (a b c d e t : R) : 0 < t ->
  is_derive (joback_lam a b c d e) t (joback_lam1 a b c d e t) /\
  is_derive (joback_lam1 a b c d e) t (joback_lam2 a b c d e t).
Proof.
  intros Ht. pose proof J_RGAS_pos as HR. split.
  - apply is_derive_ext_loc with (lamI (joback_H a b c d e) (joback_S a b c d e) J_RGAS (joback_H a b c d e J_T0)
       (joback_S a b c d e J_T0) (ln (J_KB / (J_P0 * J_A3)))).
    + apply filter_imp with (2 := locally_pos t Ht). intros u Hu. symmetry. now apply joback_lam_form.
    + apply lamI_d1 with (cp := joback_cp a b c d e); try lra.
      * intros; apply joback_H_deriv.
      * intros; now apply joback_S_deriv.
  - apply lamI_d2; try lra. intros; apply joback_H_deriv.
Qed.

Definition joback_comp (n a b c d e : R) : icomp :=
  mk_icomp n (joback_lam a b c d e) (joback_lam1 a b c d e) (joback_lam2 a b c d e).

Lemma joback_comp_ok n a b c d e : ic_ok (joback_comp n a b c d e).
Proof. intros t Ht. now apply joback_lam_derivs. Qed.

(** the heat capacity obtained from the Helmholtz energy is the Joback polynomial (in units of R) *)
Theorem joback_cp_identity (n a b c d e T : R) : 0 < T ->
  cp_pure (joback_comp n a b c d e) T = joback_cp a b c d e T / J_RGAS.
Proof.
  intros HT. unfold cp_pure, cv_pure, joback_comp; simpl. unfold joback_lam1, joback_lam2.
  rewrite <- (lamI_cp (joback_H a b c d e) (joback_cp a b c d e) J_RGAS (joback_H a b c d e J_T0));
    [ring | pose proof J_RGAS_pos; lra | exact HT].
Qed.

(** CODATA-2014 constants of joback.rs vs the CODATA-2019 gas constant of the SI layer (quantity::RGAS):
    the SI value of c_p^ig is the polynomial times this ratio, i.e. off by 3.4e-7 relative. *)
Definition Q_RGAS : R := 8.31446261815324.
Lemma joback_codata_ratio : Rabs (Q_RGAS / J_RGAS - 1) <= 3.5e-7.
Proof. unfold Q_RGAS, J_RGAS. interval. Qed.

(** * mixtures *)
Record jrec : Type := mk_jrec { jn : R; ja : R; jb : R; jc : R; jd : R; je : R }.
Definition joback_of (r : jrec) : icomp := joback_comp (jn r) (ja r) (jb r) (jc r) (jd r) (je r).
Definition jrec_cp (r : jrec) (T : R) : R := joback_cp (ja r) (jb r) (jc r) (jd r) (je r) T.
(** [Joback::molar_isobaric_heat_capacity] in units of R: sum_i x_i poly_i(T) / RGAS *)
Definition joback_mix_cp (T : R) (recs : list jrec) : R :=
  fold_right (fun r acc => jn r / Ntot (map joback_of recs) * (jrec_cp r T / J_RGAS) + acc) 0 recs.

Lemma joback_all_ok recs : all_ok (map joback_of recs).
Proof. intros c Hc. apply in_map_iff in Hc. destruct Hc as (r & <- & _). apply joback_comp_ok. Qed.

Theorem joback_mixture_cp (T V : R) recs : 0 < T -> 0 < V -> Ntot (map joback_of recs) <> 0 ->
  let cs := map joback_of recs in
  is_derive (fun t => A_ig t V cs) T (dA_dT T V cs) /\
  is_derive (fun t => dA_dT t V cs) T (d2A_dT2 T cs) /\
  cp_mix T V cs = joback_mix_cp T recs.
Proof.
  intros HT HV HN cs. split; [|split].
  - apply ideal_dA_dT; [exact HT | apply joback_all_ok].
  - apply ideal_d2A_dT2; [exact HT | apply joback_all_ok].
  - unfold cs. rewrite (cp_mix_correlation T V _ (fun c => cp_pure c T)) by auto.
    rewrite sumf_map. unfold joback_mix_cp. apply fold_right_ext_in. intros r _.
    unfold jrec_cp. unfold joback_of. rewrite joback_cp_identity by exact HT. reflexivity.
Qed.

(** reference state of the Joback model: the molar Gibbs energy mu (pure ideal gas) vanishes at
    T0 = 298.15 K and p0 = 1e5 Pa, i.e. at the number density p0 A^3 / (k_B T0); this pins the
    "- 1" of the ideal-gas Helmholtz energy and the constants KB, P0, A3. *)
Theorem joback_reference_state (n a b c d e V N : R) : 0 < V -> 0 < N ->
  N / V = J_P0 * J_A3 / (J_KB * J_T0) ->
  mu_ig J_T0 V (joback_comp n a b c d e) N = 0.
Proof.
  intros HV HN Hrho. unfold mu_ig. cbn [ic_lam joback_comp]. rewrite Hrho. unfold joback_lam.
  replace (J_T0 / J_T0) with 1 by (unfold Rdiv; rewrite Rinv_r; [reflexivity | unfold J_T0; lra]).
  rewrite ln_1. cbv zeta.
  assert (Hpos : 0 < J_T0 /\ 0 < J_KB /\ 0 < J_P0 /\ 0 < J_A3) by (unfold J_T0, J_KB, J_P0, J_A3; lra).
  assert (HR : J_RGAS <> 0) by (unfold J_RGAS; lra).
  destruct Hpos as (H0 & H1 & H2 & H3).
  assert (E : ln (J_T0 * J_KB / (J_P0 * J_A3)) + ln (J_P0 * J_A3 / (J_KB * J_T0)) = 0).
  { rewrite <- ln_mult.
    - replace (J_T0 * J_KB / (J_P0 * J_A3) * (J_P0 * J_A3 / (J_KB * J_T0))) with 1 by (field; lra).
      apply ln_1.
    - apply Rdiv_lt_0_compat; apply Rmult_lt_0_compat; assumption.
    - apply Rdiv_lt_0_compat; apply Rmult_lt_0_compat; assumption. }
  rewrite Rplus_assoc, E.
  unfold J_T0_5, J_T0_4, J_T0_3, J_T0_2. replace 0.5 with (/ 2) by lra. field. split; lra.
Qed.

Example joback_nonvacuous :
  let r := mk_jrec 1 19.5 (-0.00808) 0.000153 (-9.67e-08) 0 in
  Ntot (map joback_of [r; r]) <> 0 /\ jrec_cp r 300 = 19.5 + -0.00808 * 300 + 0.000153 * 300 ^ 2 + -9.67e-08 * 300 ^ 3 + 0 * 300 ^ 4.
Proof. intros r. split; [unfold Ntot, sumf; simpl; lra | reflexivity]. Qed.
