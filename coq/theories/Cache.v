(** C11 — executable model of the derivative cache of [State]
    (feos-core/src/state/cache.rs, the request dispatch of
    feos-core/src/state/residual_properties.rs:14-49 and [State::clone], mod.rs:166-183).

    * [deriv]  = the Rust enum [Derivative] with its derived [Ord]  (DV < DT < DN 0 < DN 1 < ...)
    * [pd]     = the Rust enum [PartialDerivative]: both the requests the getters issue and the keys of
                 the [HashMap]
    * [cache]  = finite map (association list without duplicate keys) + hit / miss counters
    * the five [get_or_insert_with_*] operations with their by-product insertions (which OVERWRITE
      existing bindings, exactly like [HashMap::insert])
    * [oracle] = what the closure handed to the cache returns (the dual-number tuple of the equation
      of state at this state); the model never looks inside it.

    Everything is parametric in the type [V] of values; the correspondence check instantiates [V := Z]
    (IEEE bit patterns) and replays, inside Coq, the histories run on the real [State]. *)
From Coq Require Import List Arith Bool Lia PeanoNat ZArith.
Import ListNotations.

(** * Keys *)

Inductive deriv : Type := DV | DT | DN (i : nat).

Inductive pd : Type :=
| Zeroth
| First (d : deriv)
| Second (d : deriv)
| SecondMixed (a b : deriv)
| Third (d : deriv).

Definition deriv_eqb (a b : deriv) : bool :=
  match a, b with
  | DV, DV => true
  | DT, DT => true
  | DN i, DN j => Nat.eqb i j
  | _, _ => false
  end.

(** the derived [Ord] of the Rust enum: discriminant first, then the field *)
Definition deriv_leb (a b : deriv) : bool :=
  match a, b with
  | DV, _ => true
  | DT, DV => false
  | DT, _ => true
  | DN i, DN j => Nat.leb i j
  | DN _, _ => false
  end.

(** [std::cmp::min(a, b)] returns [a] unless [a > b]; [std::cmp::max(a, b)] returns [b] unless [a > b] *)
Definition dmin (a b : deriv) : deriv := if deriv_leb a b then a else b.
Definition dmax (a b : deriv) : deriv := if deriv_leb a b then b else a.

Definition pd_eqb (x y : pd) : bool :=
  match x, y with
  | Zeroth, Zeroth => true
  | First a, First b => deriv_eqb a b
  | Second a, Second b => deriv_eqb a b
  | SecondMixed a b, SecondMixed c d => deriv_eqb a c && deriv_eqb b d
  | Third a, Third b => deriv_eqb a b
  | _, _ => false
  end.

Lemma deriv_eqb_spec : forall a b, reflect (a = b) (deriv_eqb a b).
Proof.
  intros [| |i] [| |j]; simpl; try (constructor; congruence).
  destruct (Nat.eqb_spec i j); constructor; congruence.
Qed.

Lemma deriv_eqb_refl : forall a, deriv_eqb a a = true.
Proof. intros a. destruct (deriv_eqb_spec a a); congruence. Qed.

Lemma pd_eqb_spec : forall x y, reflect (x = y) (pd_eqb x y).
Proof.
  intros [|a|a|a b|a] [|c|c|c d|c]; simpl; try (constructor; congruence).
  - destruct (deriv_eqb_spec a c); constructor; congruence.
  - destruct (deriv_eqb_spec a c); constructor; congruence.
  - destruct (deriv_eqb_spec a c); destruct (deriv_eqb_spec b d); simpl; constructor; congruence.
  - destruct (deriv_eqb_spec a c); constructor; congruence.
Qed.

Lemma pd_eqb_refl : forall x, pd_eqb x x = true.
Proof. intros x. destruct (pd_eqb_spec x x); congruence. Qed.

Lemma pd_eqb_neq : forall x y, x <> y -> pd_eqb x y = false.
Proof. intros x y H. destruct (pd_eqb_spec x y); congruence. Qed.

(** ** the order is a total order, [dmin]/[dmax] are symmetric *)

Lemma deriv_leb_refl : forall a, deriv_leb a a = true.
Proof. intros [| |i]; simpl; auto. apply Nat.leb_refl. Qed.

Lemma deriv_leb_total : forall a b, deriv_leb a b = true \/ deriv_leb b a = true.
Proof.
  intros [| |i] [| |j]; simpl; auto.
  destruct (Nat.leb_spec i j); [left; reflexivity|right]. apply Nat.leb_le. lia.
Qed.

Lemma deriv_leb_antisym : forall a b, deriv_leb a b = true -> deriv_leb b a = true -> a = b.
Proof.
  intros [| |i] [| |j]; simpl; try congruence; intros H1 H2.
  apply Nat.leb_le in H1. apply Nat.leb_le in H2. f_equal. lia.
Qed.

Lemma deriv_leb_trans : forall a b c, deriv_leb a b = true -> deriv_leb b c = true -> deriv_leb a c = true.
Proof.
  intros [| |i] [| |j] [| |k]; simpl; try congruence; intros H1 H2.
  apply Nat.leb_le in H1. apply Nat.leb_le in H2. apply Nat.leb_le. lia.
Qed.

Lemma dmin_comm : forall a b, dmin a b = dmin b a.
Proof.
  intros a b. unfold dmin.
  destruct (deriv_leb a b) eqn:E1; destruct (deriv_leb b a) eqn:E2; auto.
  - apply deriv_leb_antisym; assumption.
  - destruct (deriv_leb_total a b); congruence.
Qed.

Lemma dmax_comm : forall a b, dmax a b = dmax b a.
Proof.
  intros a b. unfold dmax.
  destruct (deriv_leb a b) eqn:E1; destruct (deriv_leb b a) eqn:E2; auto.
  - symmetry. apply deriv_leb_antisym; assumption.
  - destruct (deriv_leb_total a b); congruence.
Qed.

Lemma dmin_idem : forall a, dmin a a = a.
Proof. intros a. unfold dmin. destruct (deriv_leb a a); reflexivity. Qed.

Lemma dmax_idem : forall a, dmax a a = a.
Proof. intros a. unfold dmax. destruct (deriv_leb a a); reflexivity. Qed.

Lemma dmin_le_dmax : forall a b, deriv_leb (dmin a b) (dmax a b) = true.
Proof.
  intros a b. unfold dmin, dmax. destruct (deriv_leb a b) eqn:E; auto.
  destruct (deriv_leb_total a b); congruence.
Qed.

Lemma dmin_dmax_cases : forall a b, (dmin a b = a /\ dmax a b = b) \/ (dmin a b = b /\ dmax a b = a).
Proof. intros a b. unfold dmin, dmax. destruct (deriv_leb a b); auto. Qed.

Lemma dmin_dmax_sorted : forall x y, deriv_leb x y = true -> dmin x y = x /\ dmax x y = y.
Proof. intros x y H. unfold dmin, dmax. rewrite H. auto. Qed.

(** the key under which the answer to a request is stored *)
Definition ckey (r : pd) : pd :=
  match r with
  | Second d => SecondMixed d d
  | SecondMixed a b => SecondMixed (dmin a b) (dmax a b)
  | _ => r
  end.

(** keys that can occur in the map *)
Definition canonical (k : pd) : bool :=
  match k with
  | Second _ => false
  | SecondMixed a b => deriv_leb a b
  | _ => true
  end.

Lemma ckey_canonical : forall r, canonical (ckey r) = true.
Proof.
  intros [|d|d|a b|d]; simpl; auto.
  - apply deriv_leb_refl.
  - apply dmin_le_dmax.
Qed.

Lemma ckey_idem : forall r, ckey (ckey r) = ckey r.
Proof.
  intros [|d|d|a b|d]; simpl; auto.
  - rewrite dmin_idem, dmax_idem. reflexivity.
  - pose proof (dmin_le_dmax a b) as H.
    destruct (dmin_dmax_sorted _ _ H) as [E1 E2]. rewrite E1, E2. reflexivity.
Qed.

Lemma mixed_key_symmetric : forall a b, ckey (SecondMixed a b) = ckey (SecondMixed b a).
Proof. intros a b. simpl. rewrite (dmin_comm a b), (dmax_comm a b). reflexivity. Qed.

Lemma second_is_diagonal_mixed : forall d, ckey (Second d) = ckey (SecondMixed d d).
Proof. intros d. simpl. rewrite dmin_idem, dmax_idem. reflexivity. Qed.

(** * The cache *)

Section CacheModel.
Variable V : Type.

Definition cmap_t := list (pd * V).

Fixpoint lookup (k : pd) (m : cmap_t) : option V :=
  match m with
  | [] => None
  | (k', v) :: m' => if pd_eqb k k' then Some v else lookup k m'
  end.

Fixpoint remove_key (k : pd) (m : cmap_t) : cmap_t :=
  match m with
  | [] => []
  | (k', v) :: m' => if pd_eqb k k' then remove_key k m' else (k', v) :: remove_key k m'
  end.

(** [HashMap::insert]: replaces an existing binding *)
Definition insert (k : pd) (v : V) (m : cmap_t) : cmap_t := (k, v) :: remove_key k m.

Definition insert_all (ins : list (pd * V)) (m : cmap_t) : cmap_t :=
  fold_left (fun m kv => insert (fst kv) (snd kv) m) ins m.

Record cache : Type := mkCache { cmap : cmap_t; hits : nat; misses : nat }.

(** [Cache::with_capacity] *)
Definition fresh : cache := mkCache [] 0 0.

(** what the closures compute: [o0] the f64, [o1 d] the Dual64 (re, eps) of [derive1 d],
    [o2 d] the Dual2_64 (re, v1, v2) of [derive2 d], [oh a b] the HyperDual64 (re, eps1, eps2, eps1eps2)
    of [derive2_mixed a b], [o3 d] the Dual3_64 (re, v1, v2, v3) of [derive3 d] *)
Record oracle : Type := mkOracle {
  o0 : V;
  o1 : deriv -> V * V;
  o2 : deriv -> V * V * V;
  oh : deriv -> deriv -> V * V * V * V;
  o3 : deriv -> V * V * V * V
}.

Definition on_hit (c : cache) (v : V) : V * cache :=
  (v, mkCache (cmap c) (S (hits c)) (misses c)).

Definition on_miss (c : cache) (ins : list (pd * V)) (v : V) : V * cache :=
  (v, mkCache (insert_all ins (cmap c)) (hits c) (S (misses c))).

(** cache.rs:23-34 *)
Definition get_f64 (O : oracle) (c : cache) : V * cache :=
  match lookup Zeroth (cmap c) with
  | Some v => on_hit c v
  | None => let v := o0 O in on_miss c [(Zeroth, v)] v
  end.

(** cache.rs:36-52 *)
Definition get_d64 (O : oracle) (c : cache) (d : deriv) : V * cache :=
  match lookup (First d) (cmap c) with
  | Some v => on_hit c v
  | None => let '(re, eps) := o1 O d in on_miss c [(Zeroth, re); (First d, eps)] eps
  end.

(** cache.rs:54-78 *)
Definition get_d2_64 (O : oracle) (c : cache) (d : deriv) : V * cache :=
  match lookup (SecondMixed d d) (cmap c) with
  | Some v => on_hit c v
  | None => let '(re, v1, v2) := o2 O d in
            on_miss c [(Zeroth, re); (First d, v1); (SecondMixed d d, v2)] v2
  end.

(** cache.rs:80-103 *)
Definition get_hd64 (O : oracle) (c : cache) (a b : deriv) : V * cache :=
  let d1 := dmin a b in
  let d2 := dmax a b in
  match lookup (SecondMixed d1 d2) (cmap c) with
  | Some v => on_hit c v
  | None => let '(re, e1, e2, e12) := oh O a b in
            on_miss c [(Zeroth, re); (First a, e1); (First b, e2); (SecondMixed d1 d2, e12)] e12
  end.

(** cache.rs:105-127 *)
Definition get_hd364 (O : oracle) (c : cache) (d : deriv) : V * cache :=
  match lookup (Third d) (cmap c) with
  | Some v => on_hit c v
  | None => let '(re, v1, v2, v3) := o3 O d in
            on_miss c [(Zeroth, re); (First d, v1); (SecondMixed d d, v2); (Third d, v3)] v3
  end.

(** residual_properties.rs:14-49 ([get_or_compute_derivative_residual]) — one locked operation *)
Definition request (O : oracle) (c : cache) (r : pd) : V * cache :=
  match r with
  | Zeroth => get_f64 O c
  | First d => get_d64 O c d
  | Second d => get_d2_64 O c d
  | SecondMixed a b => get_hd64 O c a b
  | Third d => get_hd364 O c d
  end.

(** a history of requests on one state: final cache and the list of responses *)
Fixpoint run1 (O : oracle) (c : cache) (h : list pd) : cache * list V :=
  match h with
  | [] => (c, [])
  | r :: h' => let '(v, c') := request O c r in
               let '(c'', vs) := run1 O c' h' in (c'', v :: vs)
  end.

Definition fresh_response (O : oracle) (r : pd) : V := fst (request O fresh r).

(** * Consistency of the oracle: all tuples are projections of one jet [J] (indexed by canonical keys) *)

Record consistent (O : oracle) (J : pd -> V) : Prop := mkConsistent {
  c_o0 : o0 O = J Zeroth;
  c_o1 : forall d, o1 O d = (J Zeroth, J (First d));
  c_o2 : forall d, o2 O d = (J Zeroth, J (First d), J (SecondMixed d d));
  c_oh : forall a b, oh O a b = (J Zeroth, J (First a), J (First b), J (SecondMixed (dmin a b) (dmax a b)));
  c_o3 : forall d, o3 O d = (J Zeroth, J (First d), J (SecondMixed d d), J (Third d))
}.

(** the oracle that projects a given jet *)
Definition oracle_of_jet (J : pd -> V) : oracle :=
  mkOracle (J Zeroth)
           (fun d => (J Zeroth, J (First d)))
           (fun d => (J Zeroth, J (First d), J (SecondMixed d d)))
           (fun a b => (J Zeroth, J (First a), J (First b), J (SecondMixed (dmin a b) (dmax a b))))
           (fun d => (J Zeroth, J (First d), J (SecondMixed d d), J (Third d))).

Lemma oracle_of_jet_consistent : forall J, consistent (oracle_of_jet J) J.
Proof. intros J. constructor; reflexivity. Qed.

(** every binding of the map is the jet's value at its key *)
Definition sound (J : pd -> V) (m : cmap_t) : Prop :=
  forall k v, lookup k m = Some v -> v = J k.

(** every key of the map is canonical and keys are unique *)
Fixpoint keys_ok (m : cmap_t) : bool :=
  match m with
  | [] => true
  | (k, _) :: m' => canonical k && match lookup k m' with None => true | Some _ => false end && keys_ok m'
  end.

Lemma lookup_remove_same : forall k m, lookup k (remove_key k m) = None.
Proof.
  intros k m. induction m as [|[k' v] m IH]; simpl; auto.
  destruct (pd_eqb k k') eqn:E; auto. simpl. rewrite E. exact IH.
Qed.

Lemma lookup_remove_other : forall k k' m, k <> k' -> lookup k (remove_key k' m) = lookup k m.
Proof.
  intros k k' m Hne. induction m as [|[k2 v] m IH]; simpl; auto.
  destruct (pd_eqb k' k2) eqn:E.
  - destruct (pd_eqb_spec k' k2) as [->|]; try discriminate.
    rewrite (pd_eqb_neq _ _ Hne). exact IH.
  - simpl. destruct (pd_eqb k k2); auto.
Qed.

Lemma lookup_insert_same : forall k v m, lookup k (insert k v m) = Some v.
Proof. intros. unfold insert. simpl. rewrite pd_eqb_refl. reflexivity. Qed.

Lemma lookup_insert_other : forall k k' v m, k <> k' -> lookup k (insert k' v m) = lookup k m.
Proof.
  intros. unfold insert. simpl. rewrite (pd_eqb_neq _ _ H). apply lookup_remove_other. assumption.
Qed.

Lemma lookup_insert : forall k k' v m,
  lookup k (insert k' v m) = if pd_eqb k k' then Some v else lookup k m.
Proof.
  intros. destruct (pd_eqb_spec k k') as [->|Hne].
  - apply lookup_insert_same.
  - apply lookup_insert_other. assumption.
Qed.

Lemma sound_insert : forall J k v m, sound J m -> v = J k -> sound J (insert k v m).
Proof.
  intros J k v m Hs Hv k' v' Hl. rewrite lookup_insert in Hl.
  destruct (pd_eqb_spec k' k) as [->|Hne].
  - congruence.
  - apply Hs. assumption.
Qed.

Lemma sound_insert_all : forall J ins m,
  sound J m -> Forall (fun kv => snd kv = J (fst kv)) ins -> sound J (insert_all ins m).
Proof.
  intros J ins. induction ins as [|[k v] ins IH]; intros m Hs Hf; simpl; auto.
  inversion Hf; subst. apply IH; auto. apply sound_insert; auto.
Qed.

Lemma sound_nil : forall J, sound J [].
Proof. intros J k v H. discriminate. Qed.

(** ** one request: the response is the jet's value, soundness is preserved *)

Lemma request_sound : forall O J, consistent O J ->
  forall c r, sound J (cmap c) ->
  fst (request O c r) = J (ckey r) /\ sound J (cmap (snd (request O c r))).
Proof.
  intros O J HC c r Hs.
  destruct r as [|d|d|a b|d]; simpl.
  - unfold get_f64. destruct (lookup Zeroth (cmap c)) eqn:E; simpl.
    + split; auto.
    + rewrite (c_o0 _ _ HC). split; auto.
      apply (sound_insert_all J [(Zeroth, J Zeroth)]); auto.
  - unfold get_d64. destruct (lookup (First d) (cmap c)) eqn:E; simpl.
    + split; auto.
    + rewrite (c_o1 _ _ HC). simpl. split; auto.
      apply (sound_insert_all J [(Zeroth, J Zeroth); (First d, J (First d))]); auto.
  - unfold get_d2_64. destruct (lookup (SecondMixed d d) (cmap c)) eqn:E; simpl.
    + split; auto.
    + rewrite (c_o2 _ _ HC). simpl. split; auto.
      apply (sound_insert_all J [(Zeroth, J Zeroth); (First d, J (First d)); (SecondMixed d d, J (SecondMixed d d))]); auto.
  - unfold get_hd64. destruct (lookup (SecondMixed (dmin a b) (dmax a b)) (cmap c)) eqn:E; simpl.
    + split; auto.
    + rewrite (c_oh _ _ HC). simpl. split; auto.
      apply (sound_insert_all J [(Zeroth, J Zeroth); (First a, J (First a)); (First b, J (First b));
                                 (SecondMixed (dmin a b) (dmax a b), J (SecondMixed (dmin a b) (dmax a b)))]); auto.
  - unfold get_hd364. destruct (lookup (Third d) (cmap c)) eqn:E; simpl.
    + split; auto.
    + rewrite (c_o3 _ _ HC). simpl. split; auto.
      apply (sound_insert_all J [(Zeroth, J Zeroth); (First d, J (First d)); (SecondMixed d d, J (SecondMixed d d));
                                 (Third d, J (Third d))]); auto.
Qed.

Lemma fresh_response_jet : forall O J, consistent O J -> forall r, fresh_response O r = J (ckey r).
Proof.
  intros O J HC r. unfold fresh_response.
  destruct (request_sound O J HC fresh r (sound_nil J)) as [H _]. exact H.
Qed.

(** ** all histories (induction over the history, arbitrary sound start) *)

Lemma run1_sound : forall O J, consistent O J ->
  forall h c, sound J (cmap c) ->
  snd (run1 O c h) = map (fun r => J (ckey r)) h /\ sound J (cmap (fst (run1 O c h))).
Proof.
  intros O J HC h. induction h as [|r h IH]; intros c Hs; simpl.
  - split; auto.
  - destruct (request_sound O J HC c r Hs) as [Hv Hs'].
    destruct (request O c r) as [v c'] eqn:ER. simpl in Hv, Hs'.
    destruct (IH c' Hs') as [Hvs Hs''].
    destruct (run1 O c' h) as [c'' vs]. simpl in *. split; [congruence|assumption].
Qed.

(** [cache_refines_jet]: under a consistent oracle every response of every history is the jet's value
    at the request — i.e. the cache refines the (stateless) jet *)
Theorem cache_refines_jet : forall O J, consistent O J ->
  forall h, snd (run1 O fresh h) = map (fun r => J (ckey r)) h.
Proof. intros O J HC h. destruct (run1_sound O J HC h fresh (sound_nil J)) as [H _]. exact H. Qed.

Lemma run1_app : forall O h1 h2 c,
  run1 O c (h1 ++ h2) =
  let '(c1, v1) := run1 O c h1 in let '(c2, v2) := run1 O c1 h2 in (c2, v1 ++ v2).
Proof.
  intros O h1. induction h1 as [|r h1 IH]; intros h2 c; simpl.
  - destruct (run1 O c h2); reflexivity.
  - destruct (request O c r) as [v c']. rewrite IH.
    destruct (run1 O c' h1) as [c1 v1]. destruct (run1 O c1 h2) as [c2 v2]. reflexivity.
Qed.

Lemma run1_length : forall O h c, length (snd (run1 O c h)) = length h.
Proof.
  intros O h. induction h as [|r h IH]; intros c; simpl; auto.
  destruct (request O c r) as [v c']. specialize (IH c'). destruct (run1 O c' h). simpl in *. lia.
Qed.

(** history independence in the form of the property text: the value returned for [r] after any
    history [h] is the value a fresh state returns for [r] *)
Theorem history_independent : forall O, (exists J, consistent O J) ->
  forall h r, last (snd (run1 O fresh (h ++ [r]))) (fresh_response O r) = fresh_response O r
              /\ nth (length h) (snd (run1 O fresh (h ++ [r]))) (fresh_response O r) = fresh_response O r
              /\ snd (run1 O fresh (h ++ [r])) = map (fresh_response O) (h ++ [r]).
Proof.
  intros O [J HC] h r.
  assert (E : snd (run1 O fresh (h ++ [r])) = map (fresh_response O) (h ++ [r])).
  { rewrite (cache_refines_jet O J HC). apply map_ext. intros x. symmetry. apply fresh_response_jet. assumption. }
  split; [|split]; auto.
  - rewrite E, map_app. simpl. apply last_last.
  - rewrite E, map_app. rewrite app_nth2; rewrite map_length; auto. rewrite Nat.sub_diag. reflexivity.
Qed.

(** ** counters *)

Lemma request_counters : forall O c r,
  let c' := snd (request O c r) in
  (hits c' = S (hits c) /\ misses c' = misses c) \/ (hits c' = hits c /\ misses c' = S (misses c)).
Proof.
  intros O c r. destruct r as [|d|d|a b|d]; simpl.
  - unfold get_f64. destruct (lookup _ _); simpl; auto.
  - unfold get_d64. destruct (lookup _ _); simpl; auto. destruct (o1 O d); simpl; auto.
  - unfold get_d2_64. destruct (lookup _ _); simpl; auto. destruct (o2 O d) as [[? ?] ?]; simpl; auto.
  - unfold get_hd64. destruct (lookup _ _); simpl; auto. destruct (oh O a b) as [[[? ?] ?] ?]; simpl; auto.
  - unfold get_hd364. destruct (lookup _ _); simpl; auto. destruct (o3 O d) as [[[? ?] ?] ?]; simpl; auto.
Qed.

Lemma counters_total : forall O h c,
  hits (fst (run1 O c h)) + misses (fst (run1 O c h)) = hits c + misses c + length h.
Proof.
  intros O h. induction h as [|r h IH]; intros c; simpl; try lia.
  pose proof (request_counters O c r) as HC. destruct (request O c r) as [v c']. simpl in HC.
  specialize (IH c'). destruct (run1 O c' h) as [c'' vs]. simpl in *. lia.
Qed.

(** the key of the request is bound after the request (so that repeating it is a hit) *)
Lemma lookup_insert_all_last : forall ins k v m,
  lookup k (insert_all (ins ++ [(k, v)]) m) = Some v.
Proof.
  intros. unfold insert_all. rewrite fold_left_app. simpl. apply lookup_insert_same.
Qed.

Lemma request_binds : forall O c r,
  lookup (ckey r) (cmap (snd (request O c r))) = Some (fst (request O c r)).
Proof.
  intros O c r. destruct r as [|d|d|a b|d]; simpl.
  - unfold get_f64. destruct (lookup Zeroth (cmap c)) eqn:E; simpl; auto.
  - unfold get_d64. destruct (lookup (First d) (cmap c)) eqn:E; simpl; auto.
    destruct (o1 O d) as [re eps]. unfold on_miss; cbn [fst snd cmap]. apply (lookup_insert_all_last [(Zeroth, re)]).
  - unfold get_d2_64. destruct (lookup (SecondMixed d d) (cmap c)) eqn:E; simpl; auto.
    destruct (o2 O d) as [[re v1] v2]. unfold on_miss; cbn [fst snd cmap]. apply (lookup_insert_all_last [(Zeroth, re); (First d, v1)]).
  - unfold get_hd64. destruct (lookup (SecondMixed (dmin a b) (dmax a b)) (cmap c)) eqn:E; simpl; auto.
    destruct (oh O a b) as [[[re e1] e2] e12]. unfold on_miss; cbn [fst snd cmap].
    apply (lookup_insert_all_last [(Zeroth, re); (First a, e1); (First b, e2)]).
  - unfold get_hd364. destruct (lookup (Third d) (cmap c)) eqn:E; simpl; auto.
    destruct (o3 O d) as [[[re v1] v2] v3]. unfold on_miss; cbn [fst snd cmap].
    apply (lookup_insert_all_last [(Zeroth, re); (First d, v1); (SecondMixed d d, v2)]).
Qed.

(** a request whose key is bound is a hit: it returns the stored value, leaves the map alone and does
    not consult the oracle — for ANY oracle *)
Lemma request_hit : forall O c r v, lookup (ckey r) (cmap c) = Some v ->
  request O c r = (v, mkCache (cmap c) (S (hits c)) (misses c)).
Proof.
  intros O c r v H. destruct r as [|d|d|a b|d]; simpl in *.
  - unfold get_f64. rewrite H. reflexivity.
  - unfold get_d64. rewrite H. reflexivity.
  - unfold get_d2_64. rewrite H. reflexivity.
  - unfold get_hd64. rewrite H. reflexivity.
  - unfold get_hd364. rewrite H. reflexivity.
Qed.

(** [mixed_key_canonical] (oracle-free): after a request, any request with the same canonical key
    — the same mixed derivative with the arguments swapped, [Second d] vs [SecondMixed d d] — is a hit
    that returns the same value *)
Theorem same_key_hits : forall O c r r', ckey r' = ckey r ->
  let '(v, c1) := request O c r in
  request O c1 r' = (v, mkCache (cmap c1) (S (hits c1)) (misses c1)).
Proof.
  intros O c r r' Hk. pose proof (request_binds O c r) as Hb.
  destruct (request O c r) as [v c1]. simpl in Hb. apply request_hit. rewrite Hk. exact Hb.
Qed.

Theorem mixed_key_canonical : forall O c a b,
  let '(v, c1) := request O c (SecondMixed a b) in
  fst (request O c1 (SecondMixed b a)) = v /\ cmap (snd (request O c1 (SecondMixed b a))) = cmap c1.
Proof.
  intros O c a b. pose proof (same_key_hits O c (SecondMixed a b) (SecondMixed b a) (mixed_key_symmetric b a)) as H.
  destruct (request O c (SecondMixed a b)) as [v c1]. rewrite H. simpl. auto.
Qed.

(** ** keys of the map stay canonical and unique (the snapshot is a finite map on canonical keys) *)

Lemma lookup_none_remove : forall k k' m, lookup k m = None -> lookup k (remove_key k' m) = None.
Proof.
  intros k k' m. induction m as [|[k2 v] m IH]; simpl; auto.
  destruct (pd_eqb k k2) eqn:E; try discriminate. intros H.
  destruct (pd_eqb k' k2); auto. simpl. rewrite E. auto.
Qed.

Lemma keys_ok_remove : forall k m, keys_ok m = true -> keys_ok (remove_key k m) = true.
Proof.
  intros k m. induction m as [|[k2 v] m IH]; simpl; auto.
  intros H. apply andb_prop in H as [H H3]. apply andb_prop in H as [H1 H2].
  destruct (pd_eqb k k2); auto. simpl. rewrite H1, (IH H3). simpl.
  destruct (lookup k2 m) eqn:E; try discriminate. rewrite (lookup_none_remove _ _ _ E). reflexivity.
Qed.

Lemma keys_ok_insert : forall k v m, canonical k = true -> keys_ok m = true -> keys_ok (insert k v m) = true.
Proof.
  intros k v m Hc Hk. unfold insert. simpl. rewrite Hc, lookup_remove_same, (keys_ok_remove k m Hk). reflexivity.
Qed.

Lemma keys_ok_insert_all : forall ins m, Forall (fun kv => canonical (fst kv) = true) ins ->
  keys_ok m = true -> keys_ok (insert_all ins m) = true.
Proof.
  intros ins. induction ins as [|[k v] ins IH]; intros m Hf Hk; simpl; auto.
  inversion Hf; subst. apply IH; auto. apply keys_ok_insert; auto.
Qed.

Lemma request_keys_ok : forall O c r, keys_ok (cmap c) = true -> keys_ok (cmap (snd (request O c r))) = true.
Proof.
  intros O c r Hk. destruct r as [|d|d|a b|d]; simpl.
  - unfold get_f64. destruct (lookup _ _); simpl; auto.
    apply (keys_ok_insert_all [(Zeroth, o0 O)]); auto.
  - unfold get_d64. destruct (lookup _ _); simpl; auto. destruct (o1 O d) as [re eps]. simpl.
    apply (keys_ok_insert_all [(Zeroth, re); (First d, eps)]); auto.
  - unfold get_d2_64. destruct (lookup _ _); simpl; auto. destruct (o2 O d) as [[re v1] v2]. simpl.
    apply (keys_ok_insert_all [(Zeroth, re); (First d, v1); (SecondMixed d d, v2)]); auto.
    repeat constructor; simpl. apply deriv_leb_refl.
  - unfold get_hd64. destruct (lookup _ _); simpl; auto. destruct (oh O a b) as [[[re e1] e2] e12]. simpl.
    apply (keys_ok_insert_all [(Zeroth, re); (First a, e1); (First b, e2); (SecondMixed (dmin a b) (dmax a b), e12)]); auto.
    repeat constructor; simpl. apply dmin_le_dmax.
  - unfold get_hd364. destruct (lookup _ _); simpl; auto. destruct (o3 O d) as [[[re v1] v2] v3]. simpl.
    apply (keys_ok_insert_all [(Zeroth, re); (First d, v1); (SecondMixed d d, v2); (Third d, v3)]); auto.
    repeat constructor; simpl. apply deriv_leb_refl.
Qed.

Lemma run1_keys_ok : forall O h c, keys_ok (cmap c) = true -> keys_ok (cmap (fst (run1 O c h))) = true.
Proof.
  intros O h. induction h as [|r h IH]; intros c Hk; simpl; auto.
  pose proof (request_keys_ok O c r Hk) as Hk'. destruct (request O c r) as [v c']. simpl in Hk'.
  specialize (IH c' Hk'). destruct (run1 O c' h). exact IH.
Qed.

(** * A pool of states: requests on any state of the pool and [State::clone] *)

Inductive op : Type :=
| Req (s : nat) (r : pd)      (* a getter on state number [s] *)
| Clone (s : nat).            (* [State::clone]: the copy gets the next free number *)

Fixpoint update {A} (i : nat) (x : A) (l : list A) {struct l} : list A :=
  match l, i with
  | [], _ => []
  | _ :: t, 0 => x :: t
  | y :: t, S i' => y :: update i' x t
  end.

(** a step of the pool; the response is [None] for [Clone] and for an index outside the pool *)
Definition step (O : oracle) (p : list cache) (o : op) : list cache * option V :=
  match o with
  | Req s r => match nth_error p s with
               | Some c => let '(v, c') := request O c r in (update s c' p, Some v)
               | None => (p, None)
               end
  | Clone s => match nth_error p s with
               | Some c => (p ++ [c], None)    (* mod.rs:180: the cache is copied *)
               | None => (p, None)
               end
  end.

Fixpoint run (O : oracle) (p : list cache) (h : list op) : list cache * list (option V) :=
  match h with
  | [] => (p, [])
  | o :: h' => let '(p', v) := step O p o in
               let '(p'', vs) := run O p' h' in (p'', v :: vs)
  end.

(** the expected response of an operation: the jet's value for a request, nothing for a clone *)
Definition expected (J : pd -> V) (o : op) (resp : option V) : Prop :=
  match o, resp with
  | Req _ r, Some v => v = J (ckey r)
  | _, None => True
  | Clone _, Some _ => False
  end.

Definition pool_sound (J : pd -> V) (p : list cache) : Prop := Forall (fun c => sound J (cmap c)) p.

Lemma Forall_update : forall {A} (P : A -> Prop) i x l, Forall P l -> P x -> Forall P (update i x l).
Proof.
  intros A P i x l. revert i. induction l as [|y l IH]; intros i Hf Hx; simpl; auto.
  inversion Hf; subst. destruct i; constructor; auto.
Qed.

Lemma Forall_nth_error : forall {A} (P : A -> Prop) l i x, Forall P l -> nth_error l i = Some x -> P x.
Proof.
  intros A P l. induction l as [|y l IH]; intros i x Hf Hn; destruct i; simpl in Hn; try discriminate;
    inversion Hf; subst.
  - congruence.
  - eapply IH; eauto.
Qed.

Lemma step_sound : forall O J, consistent O J -> forall p o, pool_sound J p ->
  expected J o (snd (step O p o)) /\ pool_sound J (fst (step O p o)).
Proof.
  intros O J HC p o Hp. destruct o as [s r|s]; simpl.
  - destruct (nth_error p s) as [c|] eqn:E; simpl; auto.
    pose proof (Forall_nth_error _ _ _ _ Hp E) as Hs.
    destruct (request_sound O J HC c r Hs) as [Hv Hs'].
    destruct (request O c r) as [v c']. simpl in *. split; auto.
    apply Forall_update; auto.
  - destruct (nth_error p s) as [c|] eqn:E; simpl; auto. split; auto.
    apply Forall_app. split; auto. constructor; auto. apply (Forall_nth_error _ _ _ _ Hp E).
Qed.

Lemma run_sound : forall O J, consistent O J -> forall h p, pool_sound J p ->
  Forall2 (expected J) h (snd (run O p h)) /\ pool_sound J (fst (run O p h)).
Proof.
  intros O J HC h. induction h as [|o h IH]; intros p Hp; simpl.
  - split; auto.
  - destruct (step_sound O J HC p o Hp) as [He Hp']. destruct (step O p o) as [p' v]. simpl in *.
    destruct (IH p' Hp') as [Hf Hp'']. destruct (run O p' h) as [p'' vs]. simpl in *. split; auto.
Qed.

(** [cache_refines_jet] for pools with clones: whatever was evaluated before, on the state itself or
    on the state it was cloned from, every getter returns the jet's value *)
Theorem pool_refines_jet : forall O J, consistent O J ->
  forall h, Forall2 (expected J) h (snd (run O [fresh] h)).
Proof.
  intros O J HC h.
  assert (Hp : pool_sound J [fresh]) by (constructor; auto; apply sound_nil).
  destruct (run_sound O J HC h [fresh] Hp) as [H _]. exact H.
Qed.

(** [clone_preserves]: the clone starts with exactly the cache of the original, so it answers every
    request exactly as the original would (for ANY oracle) ... *)
Theorem clone_preserves : forall O p s c, nth_error p s = Some c ->
  fst (step O p (Clone s)) = p ++ [c] /\
  nth_error (fst (step O p (Clone s))) (length p) = Some c /\
  forall r, step O (p ++ [c]) (Req (length p) r) =
            (p ++ [snd (request O c r)], Some (fst (request O c r))).
Proof.
  intros O p s c E. simpl. rewrite E. simpl. split; [reflexivity|]. split.
  - rewrite nth_error_app2; auto. rewrite Nat.sub_diag. reflexivity.
  - intros r. simpl. rewrite nth_error_app2; auto. rewrite Nat.sub_diag. simpl.
    destruct (request O c r) as [v c']. simpl. f_equal.
    clear. induction p as [|y p IH]; simpl; auto. f_equal. exact IH.
Qed.

(** ... and the original is not affected by what is evaluated on the clone *)
Lemma update_nth_error_other : forall {A} i j (x : A) l, i <> j -> nth_error (update i x l) j = nth_error l j.
Proof.
  intros A i j x l. revert i j. induction l as [|y l IH]; intros i j Hne; simpl; auto.
  destruct i, j; simpl; auto; try congruence.
Qed.

Theorem request_isolated : forall O p s r j, j <> s ->
  nth_error (fst (step O p (Req s r))) j = nth_error p j.
Proof.
  intros O p s r j Hne. simpl. destruct (nth_error p s) as [c|]; simpl; auto.
  destruct (request O c r) as [v c']. simpl. apply update_nth_error_other. congruence.
Qed.

(** well-formed histories (every index exists when it is used) get a value for every request *)
Fixpoint wf_hist (n : nat) (h : list op) : bool :=
  match h with
  | [] => true
  | Req s _ :: h' => Nat.ltb s n && wf_hist n h'
  | Clone s :: h' => Nat.ltb s n && wf_hist (S n) h'
  end.

Lemma update_length : forall {A} i (x : A) l, length (update i x l) = length l.
Proof. intros A i x l. revert i. induction l; intros [|i]; simpl; auto. Qed.

Lemma run_wf_responses : forall O h p, wf_hist (length p) h = true ->
  Forall2 (fun o resp => match o with Req _ _ => resp <> None | Clone _ => resp = None end) h (snd (run O p h)).
Proof.
  intros O h. induction h as [|o h IH]; intros p Hw; simpl; auto.
  destruct o as [s r|s]; simpl in *; apply andb_prop in Hw as [H1 H2]; apply Nat.ltb_lt in H1.
  - destruct (nth_error p s) as [c|] eqn:E.
    + destruct (request O c r) as [v c'].
      specialize (IH (update s c' p)). rewrite update_length in IH. specialize (IH H2).
      destruct (run O (update s c' p) h) as [p'' vs]. simpl in *. constructor; auto. discriminate.
    + apply nth_error_None in E. lia.
  - destruct (nth_error p s) as [c|] eqn:E.
    + specialize (IH (p ++ [c])). rewrite app_length in IH. simpl in IH. rewrite Nat.add_1_r in IH.
      specialize (IH H2). destruct (run O (p ++ [c]) h) as [p'' vs]. simpl in *. constructor; auto.
    + apply nth_error_None in E. lia.
Qed.

(** * Thread schedules at the granularity of one locked operation

    Several threads share one state; thread [i] issues the requests [nth i ts []] in order.  A schedule
    is a list of (thread, request) pairs; it is an interleaving of [ts] iff its projection on every
    thread is that thread's request list.  The cache executes the schedule one (locked) request at a
    time. *)

Definition project (i : nat) {A} (s : list (nat * A)) : list A :=
  map snd (filter (fun x => Nat.eqb (fst x) i) s).

Definition is_interleaving (ts : list (list pd)) (s : list (nat * pd)) : Prop :=
  (forall i, project i s = nth i ts []) .

(** what thread [i] observes: the responses to its own requests, in its program order *)
Definition thread_view (O : oracle) (i : nat) (s : list (nat * pd)) : list V :=
  project i (combine (map fst s) (snd (run1 O fresh (map snd s)))).

Lemma project_combine_map : forall {A B} (f : A -> B) i (s : list (nat * A)),
  project i (combine (map fst s) (map f (map snd s))) = map f (project i s).
Proof.
  intros A B f i s. unfold project. induction s as [|[t a] s IH]; simpl; auto.
  destruct (Nat.eqb t i); simpl; rewrite IH; reflexivity.
Qed.

Theorem interleave_any : forall O, (exists J, consistent O J) ->
  forall ts s, is_interleaving ts s ->
  forall i, thread_view O i s = map (fresh_response O) (nth i ts []).
Proof.
  intros O [J HC] ts s Hs i. unfold thread_view.
  rewrite (cache_refines_jet O J HC).
  rewrite (map_ext (fun r => J (ckey r)) (fresh_response O)).
  - rewrite project_combine_map. rewrite (Hs i). reflexivity.
  - intros r. symmetry. apply fresh_response_jet. assumption.
Qed.

(** the inductive notion of a shuffle of the threads' lists is an interleaving in the sense above *)
Inductive shuffle {A} : list (list A) -> list (nat * A) -> Prop :=
| shuffle_nil : forall ts, Forall (fun t => t = []) ts -> shuffle ts []
| shuffle_cons : forall ts i x t s,
    nth_error ts i = Some (x :: t) -> shuffle (update i t ts) s -> shuffle ts ((i, x) :: s).

Lemma nth_update_same : forall {A} i (x : A) l d, i < length l -> nth i (update i x l) d = x.
Proof.
  intros A i x l d. revert i. induction l as [|y l IH]; intros [|i] H; simpl in *; try lia; auto.
  apply IH. lia.
Qed.

Lemma nth_update_other : forall {A} i j (x : A) l d, i <> j -> nth j (update i x l) d = nth j l d.
Proof.
  intros A i j x l d. revert i j. induction l as [|y l IH]; intros [|i] [|j] H; simpl; auto; try congruence.
  all: try (apply IH; congruence).
Qed.

Lemma Forall_nil_nth : forall {A} (ts : list (list A)) i, Forall (fun t => t = []) ts -> nth i ts [] = [].
Proof.
  intros A ts. induction ts as [|t ts IH]; intros [|i] H; simpl; auto; inversion H; subst; auto.
Qed.

Lemma shuffle_is_interleaving : forall ts s, shuffle ts s -> is_interleaving ts s.
Proof.
  intros ts s H. induction H as [ts Hf|ts i x t s Hn Hs IH]; intros j.
  - unfold project. simpl. symmetry. apply Forall_nil_nth. assumption.
  - specialize (IH j). unfold project in *. simpl. destruct (Nat.eqb_spec i j) as [->|Hne]; simpl.
    + rewrite IH. rewrite nth_update_same.
      * symmetry. apply nth_error_nth with (d := []) in Hn. exact Hn.
      * apply nth_error_Some. congruence.
    + rewrite IH. apply nth_update_other. assumption.
Qed.

Corollary shuffle_any : forall O, (exists J, consistent O J) ->
  forall ts s, shuffle ts s -> forall i, thread_view O i s = map (fresh_response O) (nth i ts []).
Proof. intros O HJ ts s H. apply interleave_any; auto. apply shuffle_is_interleaving. assumption. Qed.

(** * The consistency hypothesis is not superfluous: each by-product is observable (any oracle) *)

Section Observable.
Variable O : oracle.

Lemma fresh_first : forall d, fresh_response O (First d) = snd (o1 O d).
Proof.
  intros d. unfold fresh_response. cbn [request]. unfold get_d64. cbn [lookup cmap fresh].
  destruct (o1 O d) as [re eps]. reflexivity.
Qed.

Lemma fresh_zeroth : fresh_response O Zeroth = o0 O.
Proof. reflexivity. Qed.

Lemma byproduct_first_of_second_observable : forall d,
  snd (fst (o2 O d)) <> snd (o1 O d) ->
  nth 1 (snd (run1 O fresh [Second d; First d])) (o0 O) <> fresh_response O (First d).
Proof.
  intros d H. rewrite fresh_first. cbn [run1].
  destruct (request O fresh (Second d)) as [v c1] eqn:E.
  assert (L : lookup (ckey (First d)) (cmap c1) = Some (snd (fst (o2 O d)))).
  { cbn [request] in E. unfold get_d2_64 in E. cbn [lookup cmap fresh] in E.
    destruct (o2 O d) as [[re v1] v2]. inversion E; subst. cbn [cmap fst snd ckey].
    unfold insert_all. cbn [fold_left fst snd].
    rewrite lookup_insert_other by discriminate. apply lookup_insert_same. }
  rewrite (request_hit O c1 (First d) _ L). cbn. exact H.
Qed.

Lemma byproduct_zeroth_of_first_observable : forall d,
  fst (o1 O d) <> o0 O ->
  nth 1 (snd (run1 O fresh [First d; Zeroth])) (o0 O) <> fresh_response O Zeroth.
Proof.
  intros d H. rewrite fresh_zeroth. cbn [run1].
  destruct (request O fresh (First d)) as [v c1] eqn:E.
  assert (L : lookup (ckey Zeroth) (cmap c1) = Some (fst (o1 O d))).
  { cbn [request] in E. unfold get_d64 in E. cbn [lookup cmap fresh] in E.
    destruct (o1 O d) as [re eps]. inversion E; subst. cbn [cmap fst snd ckey].
    unfold insert_all. cbn [fold_left fst snd].
    rewrite lookup_insert_other by discriminate. apply lookup_insert_same. }
  rewrite (request_hit O c1 Zeroth _ L). cbn. exact H.
Qed.

Lemma byproduct_eps1_of_mixed_observable : forall a b, a <> b ->
  snd (fst (fst (oh O a b))) <> snd (o1 O a) ->
  nth 1 (snd (run1 O fresh [SecondMixed a b; First a])) (o0 O) <> fresh_response O (First a).
Proof.
  intros a b Hab H. rewrite fresh_first. cbn [run1].
  destruct (request O fresh (SecondMixed a b)) as [v c1] eqn:E.
  assert (L : lookup (ckey (First a)) (cmap c1) = Some (snd (fst (fst (oh O a b))))).
  { cbn [request] in E. unfold get_hd64 in E. cbn [lookup cmap fresh] in E.
    destruct (oh O a b) as [[[re e1] e2] e12]. inversion E; subst. cbn [cmap fst snd ckey].
    unfold insert_all. cbn [fold_left fst snd].
    rewrite lookup_insert_other by discriminate.
    rewrite lookup_insert_other by congruence. apply lookup_insert_same. }
  rewrite (request_hit O c1 (First a) _ L). cbn. exact H.
Qed.

(** the second by-product [eps2] of a mixed derivative *)
Lemma byproduct_eps2_of_mixed_observable : forall a b,
  snd (fst (oh O a b)) <> snd (o1 O b) ->
  nth 1 (snd (run1 O fresh [SecondMixed a b; First b])) (o0 O) <> fresh_response O (First b).
Proof.
  intros a b H. rewrite fresh_first. cbn [run1].
  destruct (request O fresh (SecondMixed a b)) as [v c1] eqn:E.
  assert (L : lookup (ckey (First b)) (cmap c1) = Some (snd (fst (oh O a b)))).
  { cbn [request] in E. unfold get_hd64 in E. cbn [lookup cmap fresh] in E.
    destruct (oh O a b) as [[[re e1] e2] e12]. inversion E; subst. cbn [cmap fst snd ckey].
    unfold insert_all. cbn [fold_left fst snd].
    rewrite lookup_insert_other by discriminate. apply lookup_insert_same. }
  rewrite (request_hit O c1 (First b) _ L). cbn. exact H.
Qed.
End Observable.

End CacheModel.

Arguments fresh {V}.
Arguments mkCache {V}.
Arguments mkOracle {V}.

(** * The public getters of [State] as bundles of requests (residual_properties.rs:66-296)

    [nc] is the number of components; array-valued getters issue one request per component, in index
    order ([Array1::from_shape_fn], [Quantity::from_shape_fn] iterate in logical order). *)

Inductive getter : Type :=
| GResidualHelmholtzEnergy | GResidualEntropy | GPressureResidual | GResidualChemicalPotential
| GDpDv | GDpDt | GDpDni | GD2pDv2 | GDmuDni | GDsResDt | GD2sResDt2 | GDmuResDt.

Definition getter_requests (nc : nat) (g : getter) : list pd :=
  match g with
  | GResidualHelmholtzEnergy => [Zeroth]
  | GResidualEntropy => [First DT]
  | GPressureResidual => [First DV]
  | GResidualChemicalPotential => map (fun i => First (DN i)) (seq 0 nc)
  | GDpDv => [Second DV]
  | GDpDt => [SecondMixed DV DT]
  | GDpDni => map (fun i => SecondMixed DV (DN i)) (seq 0 nc)
  | GD2pDv2 => [Third DV]
  | GDmuDni => flat_map (fun i => map (fun j => SecondMixed (DN i) (DN j)) (seq 0 nc)) (seq 0 nc)
  | GDsResDt => [Second DT]
  | GD2sResDt2 => [Third DT]
  | GDmuResDt => map (fun i => SecondMixed DT (DN i)) (seq 0 nc)
  end.

(** what a getter reads from the cache when it is called after the getters [gs] *)
Definition getter_after (V : Type) (O : oracle V) (nc : nat) (gs : list getter) (g : getter) : list V :=
  skipn (length (flat_map (getter_requests nc) gs))
        (snd (run1 V O fresh (flat_map (getter_requests nc) gs ++ getter_requests nc g))).

Theorem getters_history_independent : forall V (O : oracle V), (exists J, consistent V O J) ->
  forall nc gs g, getter_after V O nc gs g = getter_after V O nc [] g.
Proof.
  intros V O [J HC] nc gs g. unfold getter_after.
  rewrite !(cache_refines_jet V O J HC). simpl.
  rewrite map_app. rewrite <- (map_length (fun r => J (ckey r)) (flat_map (getter_requests nc) gs)).
  rewrite skipn_app, skipn_all, Nat.sub_diag. reflexivity.
Qed.

(** histories at the level of the public API: requests, clones and getters on a pool *)
Inductive gop : Type :=
| GReq (s : nat) (r : pd)
| GClone (s : nat)
| GGet (s : nat) (g : getter)
| GPure (s : nat).   (* a pure evaluator of the public API ([*_contributions], ideal-gas-only evaluations, ...):
                        per the source it never goes through [get_or_compute_derivative_residual] *)

Definition expand (nc : nat) (o : gop) : list op :=
  match o with
  | GReq s r => [Req s r]
  | GClone s => [Clone s]
  | GGet s g => map (Req s) (getter_requests nc g)
  | GPure _ => []
  end.

Definition is_pure (o : gop) : bool := match o with GPure _ => true | _ => false end.

(** pure evaluators are invisible: a history with them is, for the cache and for every later response, the history
    without them *)
Lemma pure_evaluators_invisible : forall nc (h : list gop),
  flat_map (expand nc) (filter (fun o => negb (is_pure o)) h) = flat_map (expand nc) h.
Proof.
  intros nc h. induction h as [|o h IH]; simpl; auto.
  destruct o; simpl; rewrite IH; reflexivity.
Qed.

(** * Replay of recorded histories ([V := Z], bit patterns) *)

Definition tbl_find {A B} (eqb : A -> A -> bool) (k : A) (t : list (A * B)) (dflt : B) : B :=
  match find (fun kv => eqb k (fst kv)) t with Some kv => snd kv | None => dflt end.

(** an oracle given as tables (as measured on the implementation through its public API) *)
Definition oracle_of_tables (t0 : Z) (t1 : list (deriv * (Z * Z))) (t2 : list (deriv * (Z * Z * Z)))
           (th : list (deriv * deriv * (Z * Z * Z * Z))) (t3 : list (deriv * (Z * Z * Z * Z))) : oracle Z :=
  mkOracle t0
           (fun d => tbl_find deriv_eqb d t1 (-1, -1)%Z)
           (fun d => tbl_find deriv_eqb d t2 (-1, -1, -1)%Z)
           (fun a b => tbl_find (fun x y => deriv_eqb (fst x) (fst y) && deriv_eqb (snd x) (snd y)) (a, b) th
                                (-1, -1, -1, -1)%Z)
           (fun d => tbl_find deriv_eqb d t3 (-1, -1, -1, -1)%Z).

Definition snapshot (c : cache Z) : list (pd * Z) * nat * nat := (cmap Z c, hits Z c, misses Z c).

(** replay a pool history from one fresh state: responses and the snapshot of every state of the pool *)
Definition replay (O : oracle Z) (h : list op) : list (option Z) * list (list (pd * Z) * nat * nat) :=
  let '(p, vs) := run Z O [fresh] h in (vs, map snapshot p).

(** replay a single-state history *)
Definition replay1 (O : oracle Z) (h : list pd) : list Z * (list (pd * Z) * nat * nat) :=
  let '(c, vs) := run1 Z O fresh h in (vs, snapshot c).

(** ** comparison with what the implementation did (run inside Coq on every check)

    An expected response is (bit pattern, tolerance in ulps); the tolerance is 0 for responses read
    through the request hook and a few ulps for responses read through a public getter (the SI unit
    round trip [x * F / F]).  For two doubles of equal sign the difference of the bit patterns is the
    distance in ulps.  Snapshots are compared as finite maps (the implementation lists its [HashMap]
    sorted by key text, the model in insertion order). *)

Definition snap_t : Type := list (pd * Z) * nat * nat.

Definition resp_ok1 (a : Z) (e : Z * Z) : bool := Z.leb (Z.abs (a - fst e)) (snd e).

Definition resp_ok (a : option Z) (e : option (Z * Z)) : bool :=
  match a, e with
  | None, None => true
  | Some x, Some y => resp_ok1 x y
  | _, _ => false
  end.

Fixpoint all2 {A B} (f : A -> B -> bool) (l1 : list A) (l2 : list B) : bool :=
  match l1, l2 with
  | [], [] => true
  | a :: l1', b :: l2' => f a b && all2 f l1' l2'
  | _, _ => false
  end.

Definition snap_ok (m e : snap_t) : bool :=
  let '(mm, mh, mmiss) := m in
  let '(em, eh, emiss) := e in
  Nat.eqb mh eh && Nat.eqb mmiss emiss && Nat.eqb (length mm) (length em) && keys_ok Z mm &&
  forallb (fun kv => match lookup Z (fst kv) mm with Some v => Z.eqb v (snd kv) | None => false end) em.

Definition mismatches {A B} (ok : A -> bool) (model : A -> B) (cases : list A) : list (nat * B) :=
  map (fun ic => (fst ic, model (snd ic)))
      (filter (fun ic => negb (ok (snd ic))) (combine (seq 0 (length cases)) cases)).

(** single-state histories: (history, expected responses, expected final snapshot);
    returns the indices of the cases where model and implementation differ, with the model's result *)
Definition check1 (O : oracle Z) (cases : list (list pd * (list (Z * Z) * snap_t)))
  : list (nat * (list Z * snap_t)) :=
  mismatches (fun c => let '(vs, sn) := replay1 O (fst c) in
                       all2 resp_ok1 vs (fst (snd c)) && snap_ok sn (snd (snd c)))
             (fun c => replay1 O (fst c)) cases.

(** pool histories: (history, expected responses, expected snapshots of all states of the pool) *)
Definition check (O : oracle Z) (cases : list (list op * (list (option (Z * Z)) * list snap_t)))
  : list (nat * (list (option Z) * list snap_t)) :=
  mismatches (fun c => let '(vs, sns) := replay O (fst c) in
                       all2 resp_ok vs (fst (snd c)) && all2 snap_ok sns (snd (snd c)))
             (fun c => replay O (fst c)) cases.

(** the same for histories that call public getters (expanded by the model, not by the harness) *)
Definition check_api (nc : nat) (O : oracle Z) (cases : list (list gop * (list (option (Z * Z)) * list snap_t)))
  : list (nat * (list (option Z) * list snap_t)) :=
  check O (map (fun c => (flat_map (expand nc) (fst c), snd c)) cases).

(** ** non-vacuity: a consistent oracle exists, and an inconsistent one shows history dependence *)

Definition demo_jet (k : pd) : Z :=
  match k with
  | Zeroth => 100
  | First DV => 1 | First DT => 2 | First (DN i) => 3 + Z.of_nat i
  | Second _ => 0
  | SecondMixed a b => 1000 + 10 * (match a with DV => 0 | DT => 1 | DN i => 2 + Z.of_nat i end)
                            + (match b with DV => 0 | DT => 1 | DN i => 2 + Z.of_nat i end)
  | Third DV => 31 | Third DT => 32 | Third (DN i) => 33 + Z.of_nat i
  end%Z.

Example consistent_oracle_exists : consistent Z (oracle_of_jet Z demo_jet) demo_jet.
Proof. apply oracle_of_jet_consistent. Qed.

Example demo_history :
  replay1 (oracle_of_jet Z demo_jet) [Third DT; First DT; SecondMixed (DN 1) DV; SecondMixed DV (DN 1); First (DN 1); Zeroth]
  = ([32; 2; 1003; 1003; 4; 100]%Z,
     ([(SecondMixed DV (DN 1), 1003); (First DV, 1); (First (DN 1), 4); (Zeroth, 100);
       (Third DT, 32); (SecondMixed DT DT, 1011); (First DT, 2)]%Z, 4, 2)).
Proof. vm_compute. reflexivity. Qed.

(** an oracle whose [Dual2_64] first derivative differs from its [Dual64] one: the answer to [First DT]
    depends on whether [Second DT] was asked before *)
Definition bad_oracle : oracle Z :=
  mkOracle 100%Z (fun _ => (100, 2)%Z) (fun _ => (100, 7, 50)%Z) (fun _ _ => (100, 2, 2, 60)%Z) (fun _ => (100, 2, 50, 70)%Z).

Example inconsistent_oracle_history_dependent :
  fst (replay1 bad_oracle [First DT]) = [2%Z] /\ fst (replay1 bad_oracle [Second DT; First DT]) = [50%Z; 7%Z].
Proof. vm_compute. auto. Qed.

Example demo_shuffle :
  shuffle [[First DV; Zeroth]; [Second DV]] [(0, First DV); (1, Second DV); (0, Zeroth)].
Proof.
  eapply (shuffle_cons _ 0); [reflexivity|]. eapply (shuffle_cons _ 1); [reflexivity|].
  eapply (shuffle_cons _ 0); [reflexivity|]. apply shuffle_nil. repeat constructor.
Qed.
