(** C05 — the stopping tests of the mixture phase-equilibrium solvers of feos-core
    (phase_equilibria/bubble_dew.rs, tp_flash.rs), read as exact real formulas, and what they imply:

    - [newton_res_T] / [newton_res_p]: the residual vector of [TemperatureOrPressure::newton_step]
      (reduced units: RGAS = 1, so [RGAS * T] is [T]);
    - [flash_res]: the residual of [successive_substitution] (tp_flash.rs);
    - [adjust_x2_err]: the outer-loop error of [adjust_x2];
    - [max_dev]: the quantity [is_trivial_solution] compares with 1e-5;
    - a state machine (over Q, executable) for the composition of the specified phase ("state1") under the
      three transitions of the outer loop of [bubble_dew].

    ln f_i (reduced) of a phase with partial densities rho_i, residual chemical potentials mu_i at T:
        ln f_i = mu_i / T + ln rho_i + ln T          ([lnf_mu])
    and, through fugacity coefficients,  ln f_i = ln x_i + ln phi_i + ln p   ([lnf_phi]). *)
From Coq Require Import Reals List Lra Lia ZArith QArith Qround.
From Interval Require Import Tactic.
From FeosVerif Require Import ProgSem RachfordRiceC05.
Import ListNotations.
Open Scope R_scope.

(** * Euclidean norm as computed by [num_dual::linalg::norm] *)
Definition sumsq (l : list R) : R := fold_right (fun r acc => r * r + acc) 0 l.
Definition norm2 (l : list R) : R := sqrt (sumsq l).

Lemma sumsq_nonneg l : 0 <= sumsq l.
Proof. induction l as [|a l IH]; cbn; [lra|]. fold (sumsq l). nra. Qed.

Lemma sumsq_ge_in l r : In r l -> r * r <= sumsq l.
Proof.
  induction l as [|a l IH]; intros Hin; [destruct Hin|]. cbn. fold (sumsq l).
  pose proof (sumsq_nonneg l). destruct Hin as [->|Hin]; [nra|]. specialize (IH Hin). nra.
Qed.

(** a bound on the norm bounds every entry *)
Lemma norm2_bound l tol : norm2 l < tol -> Forall (fun r => Rabs r < tol) l.
Proof.
  intros H. apply Forall_forall. intros r Hr.
  apply Rle_lt_trans with (2 := H). unfold norm2.
  rewrite <- sqrt_Rsqr_abs. apply sqrt_le_1_alt. unfold Rsqr. apply sumsq_ge_in. exact Hr.
Qed.

(** * fugacities *)
Definition lnf_mu (T mu rho : R) : R := mu / T + ln rho + ln T.
Definition lnf_phi (p x lnphi : R) : R := ln x + lnphi + ln p.

(** * Newton residual of bubble_dew.rs *)
(** one entry per component: ((mu1, mu2), (rho1, rho2)) *)
Definition comp_data (mu1 mu2 rho1 rho2 : list R) := combine (combine mu1 mu2) (combine rho1 rho2).
Definition res_mu_entry (T : R) (q : (R * R) * (R * R)) : R :=
  fst (fst q) - snd (fst q) + T * ln (fst (snd q) / snd (snd q)).
Definition res_mu (T : R) (mu1 mu2 rho1 rho2 : list R) : list R :=
  map (res_mu_entry T) (comp_data mu1 mu2 rho1 rho2).

(** temperature specified: [concatenate![mu_1_res - mu_2_res + dmu_ig, arr1(&[p_1 - p_2])]] *)
Definition newton_res_T T mu1 mu2 rho1 rho2 p1 p2 : list R := res_mu T mu1 mu2 rho1 rho2 ++ [p1 - p2].
Definition newton_err_T T mu1 mu2 rho1 rho2 p1 p2 : R := norm2 (newton_res_T T mu1 mu2 rho1 rho2 p1 p2).
(** pressure specified: [.., arr1(&[p_1 - p]), arr1(&[p_2 - p])] *)
Definition newton_res_p T mu1 mu2 rho1 rho2 p1 p2 p : list R := res_mu T mu1 mu2 rho1 rho2 ++ [p1 - p; p2 - p].
Definition newton_err_p T mu1 mu2 rho1 rho2 p1 p2 p : R := norm2 (newton_res_p T mu1 mu2 rho1 rho2 p1 p2 p).

Lemma res_mu_entry_lnf T q : 0 < T -> 0 < fst (snd q) -> 0 < snd (snd q) ->
  res_mu_entry T q = T * (lnf_mu T (fst (fst q)) (fst (snd q)) - lnf_mu T (snd (fst q)) (snd (snd q))).
Proof.
  intros HT H1 H2. unfold res_mu_entry, lnf_mu. unfold Rdiv at 1. rewrite ln_mult; [|lra|apply Rinv_0_lt_compat; lra].
  rewrite ln_Rinv by lra. field. lra.
Qed.

Definition isofugacity_within (T eps : R) (cd : list ((R * R) * (R * R))) : Prop :=
  Forall (fun q => Rabs (lnf_mu T (fst (fst q)) (fst (snd q)) - lnf_mu T (snd (fst q)) (snd (snd q))) < eps) cd.

Lemma res_mu_bound T tol cd : 0 < T ->
  Forall (fun q => 0 < fst (snd q) /\ 0 < snd (snd q)) cd ->
  Forall (fun r => Rabs r < tol) (map (res_mu_entry T) cd) ->
  isofugacity_within T (tol / T) cd.
Proof.
  intros HT Hpos Hres. unfold isofugacity_within. rewrite Forall_forall in *. intros q Hq.
  destruct (Hpos q Hq) as [H1 H2].
  assert (Rabs (res_mu_entry T q) < tol) as Hr by (apply Hres; apply in_map; exact Hq).
  rewrite (res_mu_entry_lnf T q HT H1 H2) in Hr. rewrite Rabs_mult, (Rabs_pos_eq T) in Hr by lra.
  apply Rmult_lt_reg_l with T; [exact HT|]. unfold Rdiv. replace (T * (tol * / T)) with tol by (field; lra). exact Hr.
Qed.

(** [newton_res_bound], temperature specified: the accepted iterate has fugacities equal within tol/(RT)
    and pressures equal within tol *)
Theorem newton_res_bound_T T mu1 mu2 rho1 rho2 p1 p2 tol : 0 < T ->
  Forall (fun q => 0 < fst (snd q) /\ 0 < snd (snd q)) (comp_data mu1 mu2 rho1 rho2) ->
  newton_err_T T mu1 mu2 rho1 rho2 p1 p2 < tol ->
  isofugacity_within T (tol / T) (comp_data mu1 mu2 rho1 rho2) /\ Rabs (p1 - p2) < tol.
Proof.
  intros HT Hpos H. apply norm2_bound in H. unfold newton_res_T in H. apply Forall_app in H. destruct H as [Hm Hp].
  split; [apply res_mu_bound; assumption|]. inversion Hp; assumption.
Qed.

(** pressure specified: additionally both phase pressures are the specified one within tol *)
Theorem newton_res_bound_p T mu1 mu2 rho1 rho2 p1 p2 p tol : 0 < T ->
  Forall (fun q => 0 < fst (snd q) /\ 0 < snd (snd q)) (comp_data mu1 mu2 rho1 rho2) ->
  newton_err_p T mu1 mu2 rho1 rho2 p1 p2 p < tol ->
  isofugacity_within T (tol / T) (comp_data mu1 mu2 rho1 rho2) /\
  Rabs (p1 - p) < tol /\ Rabs (p2 - p) < tol /\ Rabs (p1 - p2) < 2 * tol.
Proof.
  intros HT Hpos H. apply norm2_bound in H. unfold newton_res_p in H. apply Forall_app in H. destruct H as [Hm Hp].
  split; [apply res_mu_bound; assumption|].
  inversion Hp as [|a l Ha Hl]; subst. inversion Hl as [|b l' Hb Hl']; subst.
  repeat split; try assumption.
  replace (p1 - p2) with ((p1 - p) - (p2 - p)) by ring.
  eapply Rle_lt_trans; [apply Rabs_triang|]. rewrite Rabs_Ropp. lra.
Qed.

(** * heteroazeotrope (three-phase) Newton iteration of phase_diagram_binary.rs
    [heteroazeotrope_t]: res = (mu_l1 - mu_v + RT ln(rho_l1/rho_v), mu_l2 - mu_v + RT ln(rho_l2/rho_v), p_l1 - p_v, p_l2 - p_v);
    [heteroazeotrope_p]: the last entries are (p_l1 - p, p_l2 - p, p_v - p).  The state that is RETURNED is the state whose
    residual norm passed the test (the test precedes the linear solve and the update). *)
Definition hetero_res_T T mu1 mu2 muv rho1 rho2 rhov p1 p2 pv : list R :=
  res_mu T mu1 muv rho1 rhov ++ res_mu T mu2 muv rho2 rhov ++ [p1 - pv; p2 - pv].
Definition hetero_err_T T mu1 mu2 muv rho1 rho2 rhov p1 p2 pv : R :=
  norm2 (hetero_res_T T mu1 mu2 muv rho1 rho2 rhov p1 p2 pv).
Definition hetero_res_p T mu1 mu2 muv rho1 rho2 rhov p1 p2 pv p : list R :=
  res_mu T mu1 muv rho1 rhov ++ res_mu T mu2 muv rho2 rhov ++ [p1 - p; p2 - p; pv - p].
Definition hetero_err_p T mu1 mu2 muv rho1 rho2 rhov p1 p2 pv p : R :=
  norm2 (hetero_res_p T mu1 mu2 muv rho1 rho2 rhov p1 p2 pv p).

(** temperature specified: every component has the same fugacity in liquid 1 / vapor and liquid 2 / vapor within
    tol/(RT), and both liquid pressures are the vapor pressure within tol *)
Theorem hetero_res_bound_T T mu1 mu2 muv rho1 rho2 rhov p1 p2 pv tol : 0 < T ->
  Forall (fun q => 0 < fst (snd q) /\ 0 < snd (snd q)) (comp_data mu1 muv rho1 rhov) ->
  Forall (fun q => 0 < fst (snd q) /\ 0 < snd (snd q)) (comp_data mu2 muv rho2 rhov) ->
  hetero_err_T T mu1 mu2 muv rho1 rho2 rhov p1 p2 pv < tol ->
  isofugacity_within T (tol / T) (comp_data mu1 muv rho1 rhov) /\
  isofugacity_within T (tol / T) (comp_data mu2 muv rho2 rhov) /\
  Rabs (p1 - pv) < tol /\ Rabs (p2 - pv) < tol /\ Rabs (p1 - p2) < 2 * tol.
Proof.
  intros HT Hp1 Hp2 H. apply norm2_bound in H. unfold hetero_res_T in H.
  apply Forall_app in H. destruct H as [Hm1 H]. apply Forall_app in H. destruct H as [Hm2 Hp].
  inversion Hp as [|a l Ha Hl]; subst. inversion Hl as [|b l' Hb Hl']; subst.
  split; [apply res_mu_bound; assumption|]. split; [apply res_mu_bound; assumption|].
  repeat split; try assumption.
  replace (p1 - p2) with ((p1 - pv) - (p2 - pv)) by ring.
  eapply Rle_lt_trans; [apply Rabs_triang|]. rewrite Rabs_Ropp. lra.
Qed.

(** pressure specified: additionally all three pressures are the specified one within tol *)
Theorem hetero_res_bound_p T mu1 mu2 muv rho1 rho2 rhov p1 p2 pv p tol : 0 < T ->
  Forall (fun q => 0 < fst (snd q) /\ 0 < snd (snd q)) (comp_data mu1 muv rho1 rhov) ->
  Forall (fun q => 0 < fst (snd q) /\ 0 < snd (snd q)) (comp_data mu2 muv rho2 rhov) ->
  hetero_err_p T mu1 mu2 muv rho1 rho2 rhov p1 p2 pv p < tol ->
  isofugacity_within T (tol / T) (comp_data mu1 muv rho1 rhov) /\
  isofugacity_within T (tol / T) (comp_data mu2 muv rho2 rhov) /\
  Rabs (p1 - p) < tol /\ Rabs (p2 - p) < tol /\ Rabs (pv - p) < tol.
Proof.
  intros HT Hp1 Hp2 H. apply norm2_bound in H. unfold hetero_res_p in H.
  apply Forall_app in H. destruct H as [Hm1 H]. apply Forall_app in H. destruct H as [Hm2 Hp].
  inversion Hp as [|a l Ha Hl]; subst. inversion Hl as [|b l' Hb Hl']; subst. inversion Hl' as [|c l'' Hc Hl'']; subst.
  split; [apply res_mu_bound; assumption|]. split; [apply res_mu_bound; assumption|].
  repeat split; assumption.
Qed.

(** the temperatures of the three phases in [heteroazeotrope_p]: the start states sit at three different
    temperatures (two bubble temperatures and their mean); every Newton update rebuilds ALL phases at the one
    temperature [t = v.temperature - dx[6]].  (liquid 1, liquid 2, vapor) *)
Definition het_temps := (R * R * R)%type.
Definition het_step_p (s : het_temps) (dt : R) : het_temps :=
  let '(t1, t2, tv) := s in (tv - dt, tv - dt, tv - dt).
Definition het_common (s : het_temps) : Prop := let '(t1, t2, tv) := s in t1 = tv /\ t2 = tv.

Lemma het_step_common s dt : het_common (het_step_p s dt).
Proof. destruct s as [[t1 t2] tv]. cbn. split; reflexivity. Qed.

(** after at least one update — whatever the start temperatures and the steps — the three phases share one
    temperature; so do the returned phases whenever the start states do *)
Theorem hetero_p_common_temperature s dts : (dts <> [] \/ het_common s) -> het_common (fold_left het_step_p dts s).
Proof.
  revert s. induction dts as [|dt dts IH]; intros s H; cbn [fold_left].
  - destruct H as [H|H]; [congruence|exact H].
  - apply IH. right. apply het_step_common.
Qed.

(** * the acceptance test of the Tp flash (successive substitution) *)
(** one entry per component: ((lnphi_l, lnphi_v), (x, y)) *)
Definition flash_res_entry (q : (R * R) * (R * R)) : R :=
  fst (fst q) - snd (fst q) + ln (fst (snd q) / snd (snd q)).
Definition flash_res (lnphi_l lnphi_v x y : list R) : list R :=
  map flash_res_entry (comp_data lnphi_l lnphi_v x y).
Definition flash_res_norm lnphi_l lnphi_v x y : R := norm2 (flash_res lnphi_l lnphi_v x y).

Lemma flash_res_entry_lnf p q : 0 < p -> 0 < fst (snd q) -> 0 < snd (snd q) ->
  flash_res_entry q = lnf_phi p (fst (snd q)) (fst (fst q)) - lnf_phi p (snd (snd q)) (snd (fst q)).
Proof.
  intros Hp H1 H2. unfold flash_res_entry, lnf_phi. unfold Rdiv. rewrite ln_mult; [|lra|apply Rinv_0_lt_compat; lra].
  rewrite ln_Rinv by lra. ring.
Qed.

(** both phases are built at the feed pressure p: a residual norm below tol bounds every fugacity mismatch *)
Theorem flash_res_bound p lnphi_l lnphi_v x y tol : 0 < p ->
  Forall (fun q => 0 < fst (snd q) /\ 0 < snd (snd q)) (comp_data lnphi_l lnphi_v x y) ->
  flash_res_norm lnphi_l lnphi_v x y < tol ->
  Forall (fun q => Rabs (lnf_phi p (fst (snd q)) (fst (fst q)) - lnf_phi p (snd (snd q)) (snd (fst q))) < tol)
         (comp_data lnphi_l lnphi_v x y).
Proof.
  intros Hp Hpos H. apply norm2_bound in H. unfold flash_res in H. rewrite Forall_forall in *. intros q Hq.
  destruct (Hpos q Hq) as [H1 H2]. rewrite <- (flash_res_entry_lnf p q Hp H1 H2). apply H. apply in_map. exact Hq.
Qed.

(** * the outer-loop error of [adjust_x2] *)
(** entries ((lnphi1, lnphi2), (x1, x2));  K_i = exp(lnphi1_i - lnphi2_i) *)
Definition kx_entry (q : (R * R) * (R * R)) : R := exp (fst (fst q) - snd (fst q)) * fst (snd q).
Definition adjust_x2_terms (lnphi1 lnphi2 x1 x2 : list R) : list R :=
  map (fun q => Rabs (kx_entry q / snd (snd q) - 1)) (comp_data lnphi1 lnphi2 x1 x2).
Definition rsum (l : list R) : R := fold_right Rplus 0 l.
Definition adjust_x2_err lnphi1 lnphi2 x1 x2 : R := rsum (adjust_x2_terms lnphi1 lnphi2 x1 x2).
(** the new composition of the second phase:  x2 = x1 K / sum(x1 K) *)
Definition adjust_x2_new (lnphi1 lnphi2 x1 : list R) : list R :=
  let kx := map kx_entry (comp_data lnphi1 lnphi2 x1 x1) in
  map (fun v => v / rsum kx) kx.

Lemma rsum_abs_bound l tol : Forall (fun r => 0 <= r) l -> rsum l < tol -> Forall (fun r => r < tol) l.
Proof.
  assert (forall l', Forall (fun r => 0 <= r) l' -> 0 <= rsum l') as Hpos.
  { induction 1 as [|x l' Hx Hl' IH]; cbn; [lra|]. fold (rsum l'). lra. }
  induction l as [|a l IH]; intros Hn Hs; constructor; inversion Hn as [|a' l' Ha Hl]; subst;
    cbn in Hs; fold (rsum l) in Hs; pose proof (Hpos l Hl).
  - lra.
  - apply IH; [exact Hl|lra].
Qed.

Lemma exp_minus_one_bound d tol : tol < 1 -> Rabs (exp d - 1) < tol -> ln (1 - tol) < d < ln (1 + tol).
Proof.
  intros Ht H. apply Rabs_def2 in H. destruct H as [Hu Hl]. pose proof (exp_pos d).
  split.
  - apply exp_lt_inv. rewrite exp_ln by lra. lra.
  - apply exp_lt_inv. rewrite exp_ln by lra. lra.
Qed.

(** [adjust_x2_bound]: at equal pressure p, an outer-loop error below tol < 1 puts every fugacity mismatch
    ln f1_i - ln f2_i strictly between ln(1 - tol) and ln(1 + tol) *)
Theorem adjust_x2_bound p lnphi1 lnphi2 x1 x2 tol : 0 < p -> tol < 1 ->
  Forall (fun q => 0 < fst (snd q) /\ 0 < snd (snd q)) (comp_data lnphi1 lnphi2 x1 x2) ->
  adjust_x2_err lnphi1 lnphi2 x1 x2 < tol ->
  Forall (fun q => let d := lnf_phi p (fst (snd q)) (fst (fst q)) - lnf_phi p (snd (snd q)) (snd (fst q)) in
                   ln (1 - tol) < d < ln (1 + tol))
         (comp_data lnphi1 lnphi2 x1 x2).
Proof.
  intros Hp Ht Hpos H. unfold adjust_x2_err, adjust_x2_terms in H.
  apply rsum_abs_bound in H; [|apply Forall_forall; intros r Hr; apply in_map_iff in Hr; destruct Hr as (q & <- & _); apply Rabs_pos].
  rewrite Forall_forall in *. intros q Hq. destruct (Hpos q Hq) as [H1 H2]. cbv zeta.
  apply exp_minus_one_bound; [exact Ht|].
  assert (exp (lnf_phi p (fst (snd q)) (fst (fst q)) - lnf_phi p (snd (snd q)) (snd (fst q))) = kx_entry q / snd (snd q)) as ->.
  { unfold lnf_phi, kx_entry.
    replace (ln (fst (snd q)) + fst (fst q) + ln p - (ln (snd (snd q)) + snd (fst q) + ln p))
      with ((fst (fst q) - snd (fst q)) + (ln (fst (snd q)) - ln (snd (snd q)))) by ring.
    rewrite exp_plus. unfold Rminus at 2. rewrite exp_plus, exp_Ropp, !exp_ln by lra. field. lra. }
  apply H. apply in_map_iff. exists q. split; [reflexivity|exact Hq].
Qed.

(** numeric instance for the default outer tolerance of bubble_dew.rs (TOL_OUTER = 1e-10) *)
Lemma adjust_x2_bound_default d : ln (1 - 1e-10) < d < ln (1 + 1e-10) -> Rabs d < 1.0000000002e-10.
Proof.
  intros [H1 H2]. apply Rabs_def1.
  - eapply Rlt_trans; [exact H2|]. interval with (i_prec 80).
  - eapply Rlt_trans; [|exact H1]. interval with (i_prec 80).
Qed.

(** * phases that pass [is_trivial_solution] = false differ *)
(** entries (rho1_i, rho2_i); the code folds [(rho2 / rho1 - 1).abs().max(acc)] from 0 and compares with 1e-5 *)
Definition max_dev (rr : list (R * R)) : R := fold_right (fun q acc => Rmax (Rabs (snd q / fst q - 1)) acc) 0 rr.

Theorem nontrivial_distinct rr delta : 0 < delta -> Forall (fun q => fst q <> 0) rr -> ~ (max_dev rr < delta) ->
  exists q, In q rr /\ snd q <> fst q.
Proof.
  intros Hd. induction rr as [|q rr IH]; cbn [max_dev fold_right]; intros Hnz H; [lra|].
  fold (max_dev rr) in H. inversion Hnz as [|q' rr' Hq Hrr]; subst.
  destruct (Rlt_dec (max_dev rr) delta) as [Hlt|Hge].
  - exists q. split; [left; reflexivity|]. intros Heq. apply H.
    apply Rmax_case; [|exact Hlt].
    rewrite Heq. unfold Rdiv. rewrite Rinv_r by exact Hq. rewrite Rminus_diag_eq, Rabs_R0 by reflexivity. exact Hd.
  - destruct (IH Hrr Hge) as (q' & Hin & Hne). exists q'. split; [right; exact Hin|exact Hne].
Qed.

(* ------------------------------------------------------------------------------------------------ *)
(** * the composition of the specified phase in the outer loop of [bubble_dew]  (executable, over Q)

    [state1] is created by [starting_x2_bubble]/[starting_x2_dew] from [Moles::from_reduced(molefracs_spec)];
    [State::molefracs] is always [moles / moles.sum()].  The loop touches it in three ways:
    - [adjust_t_p] -> [adjust_states]: rebuilt by [State::new_npt(.., &state1.moles, ..)] (same mole vector);
    - [newton_step]: rebuilt by [StateBuilder .density(..).molefracs(&state1.molefracs)]: [State::new] sets
      n_i = x_i * n / sum(x) with n = 1 (reduced) and then normalises again;
    - [adjust_x2]: untouched. *)
Open Scope Q_scope.
Inductive bd_event := EvAdjustTP | EvNewton | EvAdjustX2.

Definition qnormalize (n : list Q) : list Q := let s := qsum n in map (fun v => v / s) n.
(** (moles of state1, mole fractions of state1) *)
Definition bd_state := (list Q * list Q)%type.
Definition bd_init (spec : list Q) : bd_state := (spec, qnormalize spec).
Definition bd_step (s : bd_state) (ev : bd_event) : bd_state :=
  let '(n1, x1) := s in
  match ev with
  | EvAdjustTP => (n1, qnormalize n1)
  | EvNewton => let n := map (fun x => x * 1 / qsum x1) x1 in (n, qnormalize n)
  | EvAdjustX2 => (n1, x1)
  end.
Definition bd_run (spec : list Q) (evs : list bd_event) : bd_state := fold_left bd_step evs (bd_init spec).

Definition leq (a b : list Q) : Prop := Forall2 Qeq a b.

Lemma leq_refl a : leq a a.
Proof. induction a; constructor; [reflexivity|assumption]. Qed.

Lemma leq_trans a b c : leq a b -> leq b c -> leq a c.
Proof.
  intros H. revert c. induction H as [|x y a b Hxy Hab IH]; intros c Hc; inversion Hc; subst; constructor.
  - etransitivity; eassumption.
  - apply IH. assumption.
Qed.

Lemma leq_sym a b : leq a b -> leq b a.
Proof. induction 1; constructor; [symmetry|]; assumption. Qed.

Lemma qsum_ext a b : leq a b -> qsum a == qsum b.
Proof. induction 1 as [|x y a b Hxy Hab IH]; cbn; [reflexivity|]. fold (qsum a). fold (qsum b). rewrite Hxy, IH. reflexivity. Qed.

Lemma map_div_ext a b s t : leq a b -> s == t -> leq (map (fun v => v / s) a) (map (fun v => v / t) b).
Proof. intros H Hs. induction H as [|x y a b Hxy Hab IH]; cbn; constructor; [|exact IH]. rewrite Hxy, Hs. reflexivity. Qed.

Lemma qnormalize_ext a b : leq a b -> leq (qnormalize a) (qnormalize b).
Proof. intros H. unfold qnormalize. apply map_div_ext; [exact H|apply qsum_ext; exact H]. Qed.

Lemma qsum_map_div a s : ~ s == 0 -> qsum (map (fun v => v / s) a) == qsum a / s.
Proof.
  intros Hs. induction a as [|x a IH]; cbn.
  - field. exact Hs.
  - fold (qsum (map (fun v => v / s) a)). fold (qsum a). rewrite IH. field. exact Hs.
Qed.

Lemma qsum_normalize a : ~ qsum a == 0 -> qsum (qnormalize a) == 1.
Proof. intros H. unfold qnormalize. rewrite qsum_map_div by exact H. field. exact H. Qed.

Lemma map_div_one a s : s == 1 -> leq (map (fun v => v / s) a) a.
Proof. intros Hs. induction a as [|x a IH]; cbn; constructor; [|exact IH]. rewrite Hs. field. Qed.

Lemma qnormalize_unit a : qsum a == 1 -> leq (qnormalize a) a.
Proof. intros H. unfold qnormalize. apply map_div_one. exact H. Qed.

Definition bd_inv (spec : list Q) (s : bd_state) : Prop :=
  leq (snd s) (qnormalize spec) /\ leq (qnormalize (fst s)) (qnormalize spec).

Lemma bd_step_inv spec s ev : ~ qsum spec == 0 -> bd_inv spec s -> bd_inv spec (bd_step s ev).
Proof.
  intros Hs. destruct s as [n1 x1]. unfold bd_inv. cbn [fst snd]. intros [Hx Hn].
  destruct ev; cbn [bd_step fst snd].
  - split; assumption.
  - assert (qsum x1 == 1) as Hx1 by (rewrite (qsum_ext _ _ Hx); apply qsum_normalize; exact Hs).
    assert (leq (map (fun x => x * 1 / qsum x1) x1) x1) as Hn'.
    { clear -Hx1. induction x1 as [|x l IH]; constructor.
      - rewrite Hx1. field.
      - clear IH. revert Hx1. generalize (qsum (x :: l)). intros s Hs1.
        induction l as [|y l IH]; constructor; [rewrite Hs1; field|exact IH]. }
    assert (leq (qnormalize (map (fun x => x * 1 / qsum x1) x1)) (qnormalize spec)) as Hgoal.
    { eapply leq_trans; [apply qnormalize_ext; exact Hn'|].
      eapply leq_trans; [apply qnormalize_unit; exact Hx1|exact Hx]. }
    split; exact Hgoal.
  - split; assumption.
Qed.

(** [spec_phase_invariant]: in every reachable iterate of the outer loop — any number and any order of
    inner T/p adjustments, Newton steps and x2 updates — the specified phase has the specified composition
    (the normalised specification vector; the vector itself when it sums to one) *)
Theorem spec_phase_invariant spec evs : ~ qsum spec == 0 ->
  leq (snd (bd_run spec evs)) (qnormalize spec).
Proof.
  intros Hs. unfold bd_run.
  assert (bd_inv spec (bd_init spec)) as H0 by (split; cbn [bd_init fst snd]; apply leq_refl).
  revert H0. generalize (bd_init spec). induction evs as [|ev evs IH]; intros s H0; cbn [fold_left].
  - exact (proj1 H0).
  - apply IH. apply bd_step_inv; assumption.
Qed.

Corollary spec_phase_invariant_unit spec evs : qsum spec == 1 -> leq (snd (bd_run spec evs)) spec.
Proof.
  intros H1. eapply leq_trans; [apply spec_phase_invariant; rewrite H1; discriminate|].
  apply qnormalize_unit. exact H1.
Qed.

(** ** the exits of the outer loop of [bubble_dew] and the construction of its result
    One entry per outer iteration: (err_out of that iteration, is_trivial_solution(state1, state2) after it).
    The code tests triviality after EVERY iteration, before the convergence test. *)
Inductive bd_outcome := BdConverged (step : Q * bool) | BdTrivial | BdNotConverged.
Fixpoint bd_outer (tol : Q) (steps : list (Q * bool)) : bd_outcome :=
  match steps with
  | [] => BdNotConverged
  | s :: r => if snd s then BdTrivial else if Qlt_b (fst s) tol then BdConverged s else bd_outer tol r
  end.

(** a result is only returned from an iteration after which the phases were NOT a trivial solution (and whose
    error is below the tolerance) — whatever the size of the error in that or any earlier iteration *)
Theorem bd_outer_nontrivial tol steps s : bd_outer tol steps = BdConverged s ->
  In s steps /\ snd s = false /\ fst s < tol.
Proof.
  induction steps as [|a r IH]; cbn [bd_outer]; [discriminate|].
  destruct (snd a) eqn:Ht; [discriminate|].
  destruct (Qlt_b (fst a) tol) eqn:El.
  - intros H. injection H as <-. split; [left; reflexivity|]. split; [exact Ht|apply Qlt_b_true; exact El].
  - intros H. destruct (IH H) as (Hin & H1 & H2). split; [right; exact Hin|]. split; assumption.
Qed.

(** ... and every earlier iteration was non-trivial as well *)
Theorem bd_outer_all_nontrivial tol steps s : bd_outer tol steps = BdConverged s ->
  exists pre post, steps = pre ++ s :: post /\ Forall (fun q => snd q = false) pre.
Proof.
  induction steps as [|a r IH]; cbn [bd_outer]; [discriminate|].
  destruct (snd a) eqn:Ht; [discriminate|].
  destruct (Qlt_b (fst a) tol) eqn:El.
  - intros H. injection H as <-. exists [], r. split; [reflexivity|constructor].
  - intros H. destruct (IH H) as (pre & post & -> & Hpre). exists (a :: pre), post. split; [reflexivity|].
    constructor; assumption.
Qed.

(** the result array [vapor(), liquid()]: a bubble point puts the specified phase (state1) into liquid(), a dew
    point into vapor() — independently of the densities of the two phases (liquid-liquid equilibria included) *)
Definition bd_result {A : Type} (bubble : bool) (state1 state2 : A) : A * A :=
  if bubble then (state2, state1) else (state1, state2).
Theorem bd_result_spec_slot {A : Type} (bubble : bool) (state1 state2 : A) :
  (bubble = true -> snd (bd_result bubble state1 state2) = state1) /\
  (bubble = false -> fst (bd_result bubble state1 state2) = state1).
Proof. split; intros ->; reflexivity. Qed.

Example bd_outer_example : bd_outer (1 # 10) [(1, false); ((1 # 100), true)] = BdTrivial.
Proof. reflexivity. Qed.

(** execution for the correspondence run: the mole fractions of state1 after every event, scaled by 2^70 *)
Definition spec_case := (list (Z * Z) * list bd_event)%type.
Fixpoint bd_trace (s : bd_state) (evs : list bd_event) : list (list Z) :=
  match evs with
  | [] => []
  | ev :: evs' => let s' := bd_step s ev in
                  let s'' := (map Qred (fst s'), map Qred (snd s')) in
                  map scale70 (snd s'') :: bd_trace s'' evs'
  end.
Definition run_spec_case (c : spec_case) : list (list Z) := bd_trace (bd_init (map dyQ (fst c))) (snd c).

Example spec_example :
  leq (snd (bd_run [1 # 4; 3 # 4] [EvAdjustTP; EvNewton; EvAdjustX2; EvNewton])) [1 # 4; 3 # 4].
Proof. apply spec_phase_invariant_unit. reflexivity. Qed.

Open Scope R_scope.
(** * non-vacuity of the residual bounds *)
Example newton_bound_example :
  newton_err_T 300 [1; 2] [1; 2] [3; 4] [3; 4] 5 5 < 1e-10.
Proof.
  unfold newton_err_T, norm2, newton_res_T, res_mu, comp_data, res_mu_entry, sumsq. cbn [combine map app fold_right fst snd].
  interval.
Qed.

(** tactic closing the generated correspondence goals *)
Ltac res_interval :=
  unfold hetero_err_T, hetero_err_p, hetero_res_T, hetero_res_p, newton_err_T, newton_err_p, newton_res_T, newton_res_p, res_mu, flash_res_norm, flash_res, norm2, sumsq,
         adjust_x2_err, adjust_x2_terms, adjust_x2_new, rsum, comp_data, res_mu_entry, flash_res_entry, kx_entry, dy_R;
  cbn [combine map app fold_right fst snd nth];
  interval with (i_prec 100).
