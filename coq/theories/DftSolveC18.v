(** C18 — control flow of the DFT solver (feos-dft/src/solver.rs, [call_solver] + the three stage loops)
    as executable Gallina over lists / bool / Q.

    What is modelled (read off solver.rs:216-483):
      - a solver is a list of stages (Picard / Anderson / Newton, each with [log], [max_iter], [tol]);
      - every stage is the loop
            for k in 0..max_iter { res_norm = euler_lagrange_equation(x)?;      (Err when the norm is not finite)
                                   if res_norm < tol { return Ok((true, k)) }
                                   x = update(x)?; }                            (line search / Anderson LU / GMRES may fail)
            Ok((false, max_iter))
        — the ONLY way to report convergence is the branch [res_norm < tol], taken on the state that is returned;
      - [call_solver]: [converged] is overwritten by every stage (so the LAST stage decides), iterations add up,
        and the result is Ok iff [converged || debug], Err(NotConverged) otherwise; an error inside a stage is
        propagated by [?].
    The state type [X], the residual norm [el : X -> option Q] (None = not finite) and the update
    [step : stage -> history -> X -> option X] are abstract: the theorems hold for every functional, grid,
    line search, Anderson history and GMRES behaviour. *)
From Coq Require Import List Bool Arith Lia QArith ZArith.
Import ListNotations.
Local Open Scope nat_scope.

Inductive kind := Picard | Anderson | Newton.

Record stage := mkStage { s_kind : kind; s_log : bool; s_max_iter : nat; s_tol : Q }.

(** [a < b] on Q as a boolean (the comparison [res_norm < tol]) *)
Definition Qltb (a b : Q) : bool := negb (Qle_bool b a).

Lemma Qltb_lt a b : Qltb a b = true <-> (a < b)%Q.
Proof.
  unfold Qltb. rewrite negb_true_iff. split.
  - intros H. apply Qnot_le_lt. intros Hle. apply Qle_bool_iff in Hle. congruence.
  - intros H. destruct (Qle_bool b a) eqn:E; auto. apply Qle_bool_iff in E. exfalso. apply (Qlt_not_le _ _ H E).
Qed.

Lemma Qltb_ge a b : Qltb a b = false <-> (b <= a)%Q.
Proof.
  unfold Qltb. rewrite negb_false_iff. apply Qle_bool_iff.
Qed.

(** result of [DFTProfile::call_solver] / [solve] *)
Inductive result (X : Type) :=
| Ok (x : X) (converged : bool) (iterations : nat)
| ErrNotConverged
| ErrIteration.
Arguments Ok {X}. Arguments ErrNotConverged {X}. Arguments ErrIteration {X}.

Section Solver.
  Variable X : Type.
  (** evaluation of the Euler-Lagrange equation: the residual norm and the state afterwards (in the
      implementation the density is untouched but the norm is appended to the solver log, which is part of
      the state); None = the norm is not finite (Err(IterationFailed)) *)
  Variable eval : X -> option (Q * X).
  Variable step : stage -> list X -> X -> option X.

  (** one stage: [fuel] remaining iterations, [k] the loop counter, [hist] the earlier iterates of this stage *)
  Fixpoint stage_loop (st : stage) (fuel k : nat) (hist : list X) (x : X) : option (bool * nat * X) :=
    match fuel with
    | O => Some (false, s_max_iter st, x)
    | S f =>
      match eval x with
      | None => None
      | Some (r, x1) =>
        if Qltb r (s_tol st) then Some (true, k, x1)
        else match step st hist x1 with
             | None => None
             | Some x' => stage_loop st f (S k) (x1 :: hist) x'
             end
      end
    end.

  Definition run_stage (st : stage) (x : X) : option (bool * nat * X) :=
    stage_loop st (s_max_iter st) 0 [] x.

  (** the [for algorithm in &solver.algorithms] loop; [outs] records the per-stage (flag, iterations) *)
  Fixpoint call_stages (stages : list stage) (x : X) (conv : bool) (iters : nat) (outs : list (bool * nat))
    : option (bool * nat * X * list (bool * nat)) :=
    match stages with
    | [] => Some (conv, iters, x, rev outs)
    | st :: rest =>
      match run_stage st x with
      | None => None
      | Some (c, k, x') => call_stages rest x' c (iters + k) ((c, k) :: outs)
      end
    end.

  Definition call_solver (stages : list stage) (debug : bool) (x : X) : result X :=
    match call_stages stages x false 0 [] with
    | None => ErrIteration
    | Some (c, it, x', _) => if c || debug then Ok x' c it else ErrNotConverged
    end.

  (** ** loop invariants of a stage *)

  Lemma stage_loop_converged st fuel k hist x k' x' :
    stage_loop st fuel k hist x = Some (true, k', x') ->
    exists xpre r, eval xpre = Some (r, x') /\ (r < s_tol st)%Q /\ k <= k' < k + fuel.
  Proof.
    revert k hist x. induction fuel as [|f IH]; intros k hist x H; simpl in H.
    - discriminate.
    - destruct (eval x) as [[r x1]|] eqn:E; [|discriminate].
      destruct (Qltb r (s_tol st)) eqn:L.
      + inversion H; subst. exists x, r. split; [assumption|]. split; [now apply Qltb_lt|lia].
      + destruct (step st hist x1) as [y|]; [|discriminate].
        destruct (IH _ _ _ H) as (xp & r' & E' & L' & Hk). exists xp, r'. repeat split; try assumption; lia.
  Qed.

  Lemma stage_loop_not_converged st fuel k hist x k' x' :
    stage_loop st fuel k hist x = Some (false, k', x') -> k' = s_max_iter st.
  Proof.
    revert k hist x. induction fuel as [|f IH]; intros k hist x H; simpl in H.
    - now inversion H.
    - destruct (eval x) as [[r x1]|]; [|discriminate].
      destruct (Qltb r (s_tol st)); [discriminate|].
      destruct (step st hist x1) as [y|]; [|discriminate]. eauto.
  Qed.

  (** a stage that is already below its tolerance returns after 0 iterations without any update *)
  Lemma run_stage_already_converged st x r x1 :
    s_max_iter st <> 0 -> eval x = Some (r, x1) -> (r < s_tol st)%Q -> run_stage st x = Some (true, 0, x1).
  Proof.
    intros Hm E L. unfold run_stage. destruct (s_max_iter st) as [|m]; [congruence|]. simpl. rewrite E.
    apply Qltb_lt in L. now rewrite L.
  Qed.

  (** a stage with max_iter = 0 never evaluates anything and reports non-convergence *)
  Lemma run_stage_zero_iter st x : s_max_iter st = 0 -> run_stage st x = Some (false, 0, x).
  Proof. intros H. unfold run_stage. rewrite H. simpl. now rewrite H. Qed.

  Theorem stage_converged_only_below_tol st x k x' :
    run_stage st x = Some (true, k, x') ->
    exists xpre r, eval xpre = Some (r, x') /\ (r < s_tol st)%Q /\ k < s_max_iter st.
  Proof.
    intros H. destruct (stage_loop_converged _ _ _ _ _ _ _ H) as (xp & r & E & L & Hk).
    exists xp, r. repeat split; try assumption. lia.
  Qed.

  Theorem stage_not_converged_uses_all_iterations st x k x' :
    run_stage st x = Some (false, k, x') -> k = s_max_iter st.
  Proof. apply stage_loop_not_converged. Qed.

  (** ** the flag returned by the chain is the flag of the last stage *)

  Lemma call_stages_last stages : forall x c0 i0 o0 c it x' outs,
    stages <> [] ->
    call_stages stages x c0 i0 o0 = Some (c, it, x', outs) ->
    exists st xin k, last stages st = st /\ In st stages /\ run_stage st xin = Some (c, k, x').
  Proof.
    induction stages as [|st rest IH]; intros x c0 i0 o0 c it x' outs Hne H; [congruence|].
    simpl in H. destruct (run_stage st x) as [[[c1 k1] x1]|] eqn:R; [|discriminate].
    destruct rest as [|st2 rest'].
    - simpl in H. inversion H; subst. exists st, x, k1. simpl. auto.
    - destruct (IH x1 c1 (i0 + k1) ((c1, k1) :: o0) c it x' outs ltac:(discriminate) H) as (s & xin & k & Hl & Hin & Hr).
      exists s, xin, k. split; [|split; [right; assumption|assumption]].
      change (last (st :: st2 :: rest') s) with (last (st2 :: rest') s). assumption.
  Qed.

  Lemma call_stages_nil x c0 i0 o0 : call_stages [] x c0 i0 o0 = Some (c0, i0, x, rev o0).
  Proof. reflexivity. Qed.

  (** ** what [solve] returns *)

  (** Ok is returned iff no stage failed and (the flag of the chain is true or [debug] is set) *)
  Theorem solve_ok_iff stages debug x x' c it :
    call_solver stages debug x = Ok x' c it <->
    exists outs, call_stages stages x false 0 [] = Some (c, it, x', outs) /\ (c = true \/ debug = true).
  Proof.
    unfold call_solver. destruct (call_stages stages x false 0 []) as [[[[c1 it1] x1] outs]|].
    - destruct (c1 || debug) eqn:B.
      + split.
        * intros H. inversion H; subst. exists outs. split; [reflexivity|]. now apply orb_true_iff in B.
        * intros (o & H & _). now inversion H.
      + split; [discriminate|]. intros (o & H & Hc). inversion H; subst.
        apply orb_false_iff in B. destruct B, Hc; congruence.
    - split; [discriminate|]. intros (o & H & _). discriminate.
  Qed.

  (** the flag is the flag of the LAST stage: with at least one stage, [c] is what the last stage returned *)
  Theorem solve_flag_is_last_stage stages debug x x' c it :
    call_solver stages debug x = Ok x' c it -> stages <> [] ->
    exists st xin k, last stages st = st /\ In st stages /\ run_stage st xin = Some (c, k, x').
  Proof.
    intros H Hne. apply solve_ok_iff in H. destruct H as (outs & H & _).
    eapply call_stages_last; eassumption.
  Qed.

  (** THE PROPERTY (flag logic): without [debug], a reported success means that the returned state is the
      state right after an evaluation of the Euler-Lagrange equation whose residual norm was strictly below
      the tolerance of the last stage of the chain. *)
  Theorem solve_ok_stationary stages x x' c it :
    call_solver stages false x = Ok x' c it ->
    c = true /\ exists st xpre r, In st stages /\ last stages st = st /\ eval xpre = Some (r, x') /\ (r < s_tol st)%Q.
  Proof.
    intros H. assert (Hc : c = true).
    { apply solve_ok_iff in H. destruct H as (_ & _ & [Hc|Hc]); [assumption|discriminate]. }
    split; [assumption|]. subst c.
    destruct stages as [|s0 rest].
    - unfold call_solver in H. simpl in H. discriminate.
    - destruct (solve_flag_is_last_stage _ _ _ _ _ _ H ltac:(discriminate)) as (st & xin & k & Hl & Hin & Hr).
      destruct (stage_converged_only_below_tol _ _ _ _ Hr) as (xp & r & E & L & _).
      exists st, xp, r. auto.
  Qed.

  (** without [debug] a chain whose last stage did not converge is an error (never Ok) *)
  Theorem solve_not_converged_is_err stages x it x' outs :
    call_stages stages x false 0 [] = Some (false, it, x', outs) -> call_solver stages false x = ErrNotConverged.
  Proof. intros H. unfold call_solver. now rewrite H. Qed.

  (** an empty solver never reports success without [debug] *)
  Theorem solve_empty_is_err x : call_solver [] false x = ErrNotConverged.
  Proof. reflexivity. Qed.

  (** with [debug] the only error left is a failure inside a stage *)
  Theorem solve_debug_never_not_converged stages x : call_solver stages true x <> ErrNotConverged.
  Proof.
    unfold call_solver. destruct (call_stages stages x false 0 []) as [[[[c it] x'] o]|]; [|discriminate].
    rewrite orb_true_r. discriminate.
  Qed.

  (** a failure inside any stage is propagated whatever [debug] says *)
  Theorem solve_stage_error_propagates stages debug x :
    call_stages stages x false 0 [] = None -> call_solver stages debug x = ErrIteration.
  Proof. intros H. unfold call_solver. now rewrite H. Qed.

  (** earlier stages do not matter for the flag: a converged early stage followed by a non-converged last stage
      is an error *)
  Theorem solve_early_convergence_does_not_count st1 st2 x x1 k1 x2 k2 :
    run_stage st1 x = Some (true, k1, x1) -> run_stage st2 x1 = Some (false, k2, x2) ->
    call_solver [st1; st2] false x = ErrNotConverged.
  Proof.
    intros H1 H2. unfold call_solver. simpl. rewrite H1. rewrite H2. reflexivity.
  Qed.
End Solver.

Arguments stage_loop {X}. Arguments run_stage {X}. Arguments call_stages {X}. Arguments call_solver {X}.

(** ** Invariants of the iterates

    A predicate that every update establishes (in the implementation: "the density and the bulk densities are
    non-negative" — Picard, Anderson mixing and Newton all end an update with [mapv_inplace(f64::abs)], the log
    variants with [exp]) and that evaluating the residual preserves, holds for whatever [solve] returns, provided
    it holds for the initial profile. *)
Section Invariant.
  Variable X : Type.
  Variable eval : X -> option (Q * X).
  Variable step : stage -> list X -> X -> option X.
  Variable Inv : X -> Prop.
  Hypothesis eval_inv : forall x r x1, eval x = Some (r, x1) -> Inv x -> Inv x1.
  Hypothesis step_inv : forall st hist x x', step st hist x = Some x' -> Inv x'.

  Lemma stage_loop_inv st fuel : forall k hist x c k' x',
    Inv x -> stage_loop eval step st fuel k hist x = Some (c, k', x') -> Inv x'.
  Proof.
    induction fuel as [|f IH]; intros k hist x c k' x' Hx H; simpl in H.
    - inversion H; subst. assumption.
    - destruct (eval x) as [[r x1]|] eqn:E; [|discriminate].
      pose proof (eval_inv _ _ _ E Hx) as H1.
      destruct (Qltb r (s_tol st)).
      + inversion H; subst. assumption.
      + destruct (step st hist x1) as [y|] eqn:S; [|discriminate].
        eapply IH; [|exact H]. eapply step_inv; exact S.
  Qed.

  Lemma call_stages_inv stages : forall x c0 i0 o0 c it x' outs,
    Inv x -> call_stages eval step stages x c0 i0 o0 = Some (c, it, x', outs) -> Inv x'.
  Proof.
    induction stages as [|st rest IH]; intros x c0 i0 o0 c it x' outs Hx H; simpl in H.
    - inversion H; subst. assumption.
    - destruct (run_stage eval step st x) as [[[c1 k1] x1]|] eqn:R; [|discriminate].
      eapply IH; [|exact H]. unfold run_stage in R. eapply stage_loop_inv; eassumption.
  Qed.

  Theorem solve_preserves_invariant stages debug x x' c it :
    Inv x -> call_solver eval step stages debug x = Ok x' c it -> Inv x'.
  Proof.
    intros Hx H. apply solve_ok_iff in H. destruct H as (outs & H & _). eapply call_stages_inv; eassumption.
  Qed.

  (** what is returned is the initial state (evaluated) or an evaluated update: if the initial profile does NOT
      satisfy the predicate it can survive only when no update is made at all *)
  Theorem stage_result_is_initial_or_update st x c k x' :
    run_stage eval step st x = Some (c, k, x') -> (k = 0 /\ (x' = x \/ exists r, eval x = Some (r, x'))) \/ Inv x'.
  Proof.
    unfold run_stage. destruct (s_max_iter st) as [|f] eqn:M; simpl.
    - intros H. inversion H; subst. left. rewrite M. auto.
    - destruct (eval x) as [[r x1]|] eqn:E; [|discriminate].
      destruct (Qltb r (s_tol st)).
      + intros H. inversion H; subst. left. split; [reflexivity|]. right. now exists r.
      + destruct (step st [] x1) as [y|] eqn:S; [|discriminate]. intros H. right.
        eapply stage_loop_inv; [|exact H]. eapply step_inv; exact S.
  Qed.
End Invariant.

(** ** The wrappers around [DFTProfile::solve] ([PoreProfile::solve_inplace], [PlanarInterface::solve_inplace])

    A wrapper holds the profile and optional observables (grand potential and interfacial tension Omega + p V of a
    pore; surface tension of an interface).  [solve_inplace] solves the profile and, on success, OVERWRITES the
    observables with those of the profile it now holds; an error leaves the call without a result ([?]).
    [obs1 / obs2] are arbitrary functions of the profile, [solve] is any solver (any chain, any debug flag). *)
Section Wrapper.
  Variable P : Type.
  Variable obs1 obs2 : P -> Q.
  Variable solve : P -> option P.

  Record wrapper := mkWrapper { w_profile : P; w_obs1 : option Q; w_obs2 : option Q }.

  Definition solve_inplace (w : wrapper) : option wrapper :=
    match solve (w_profile w) with
    | None => None
    | Some p' => Some (mkWrapper p' (Some (obs1 p')) (Some (obs2 p')))
    end.

  (** anything a user may do between two calls: replace the profile (density, specification, bulk state, external
      potential) and/or the stored observables ([update_bulk] resets them to None) *)
  Inductive action :=
  | ASolve
  | ASet (f : wrapper -> wrapper).

  Fixpoint run (acts : list action) (w : wrapper) : option wrapper :=
    match acts with
    | [] => Some w
    | ASolve :: rest => match solve_inplace w with None => None | Some w' => run rest w' end
    | ASet f :: rest => run rest (f w)
    end.

  Theorem solve_inplace_observables_belong_to_profile w w' :
    solve_inplace w = Some w' ->
    w_obs1 w' = Some (obs1 (w_profile w')) /\ w_obs2 w' = Some (obs2 (w_profile w')).
  Proof.
    unfold solve_inplace. destruct (solve (w_profile w)) as [p'|]; [|discriminate].
    intros H. inversion H; subst. simpl. auto.
  Qed.

  (** for every history of calls that ends with a successful [solve_inplace], whatever the wrapper held before *)
  Theorem history_observables_belong_to_profile acts w w' :
    run (acts ++ [ASolve]) w = Some w' ->
    w_obs1 w' = Some (obs1 (w_profile w')) /\ w_obs2 w' = Some (obs2 (w_profile w')).
  Proof.
    revert w. induction acts as [|a acts IH]; intros w H; simpl in H.
    - destruct (solve_inplace w) as [w1|] eqn:E; [|discriminate]. inversion H; subst.
      eapply solve_inplace_observables_belong_to_profile; eassumption.
    - destruct a as [|f].
      + destruct (solve_inplace w) as [w1|]; [|discriminate]. eapply IH; eassumption.
      + eapply IH; eassumption.
  Qed.

  (** keeping a value that is already present ([Option::get_or_insert]) instead of overwriting it is refuted by
      any second call that changes the observable *)
  Definition solve_inplace_keep (w : wrapper) : option wrapper :=
    match solve (w_profile w) with
    | None => None
    | Some p' => Some (mkWrapper p' (match w_obs1 w with Some v => Some v | None => Some (obs1 p') end)
                                   (match w_obs2 w with Some v => Some v | None => Some (obs2 p') end))
    end.
End Wrapper.

Example solve_inplace_keep_refuted :
  exists (obs : nat -> Q) (solve : nat -> option nat) (w w1 w2 : wrapper nat),
    solve_inplace_keep nat obs obs solve w = Some w1 /\ solve_inplace_keep nat obs obs solve w1 = Some w2 /\
    w_obs1 nat w2 <> Some (obs (w_profile nat w2)).
Proof.
  exists (fun n => inject_Z (Z.of_nat n)), (fun n => Some (S n)), (mkWrapper nat 0 None None).
  eexists. eexists. split; [reflexivity|]. split; [reflexivity|]. simpl. intros H. inversion H.
Qed.

(** ** The implementation's instance: evaluating does not change the profile.

    State = (profile, log); [el] is the residual norm of a profile; evaluation appends the norm to the log and
    leaves the profile alone; the update acts on the profile only.  Then a reported success (without debug)
    means: the residual norm of the RETURNED PROFILE is below the tolerance of the last stage. *)
Section PureEvaluation.
  Variable P : Type.
  Variable el : P -> option Q.
  Variable upd : stage -> list P -> P -> option P.

  Definition eval_log (x : P * list Q) : option (Q * (P * list Q)) :=
    match el (fst x) with
    | None => None
    | Some r => Some (r, (fst x, snd x ++ [r]))
    end.
  Definition step_log (st : stage) (hist : list (P * list Q)) (x : P * list Q) : option (P * list Q) :=
    match upd st (map fst hist) (fst x) with
    | None => None
    | Some p => Some (p, snd x)
    end.

  Theorem solve_ok_profile_stationary stages p0 p' log' c it :
    call_solver eval_log step_log stages false (p0, []) = Ok (p', log') c it ->
    exists st r, In st stages /\ last stages st = st /\ el p' = Some r /\ (r < s_tol st)%Q /\
                 exists l, log' = l ++ [r].
  Proof.
    intros H. apply solve_ok_stationary in H. destruct H as (_ & st & [pp lp] & r & Hin & Hl & E & L).
    unfold eval_log in E. simpl in E. destruct (el pp) as [r0|] eqn:E0; [|discriminate].
    inversion E; subst. exists st, r. repeat split; try assumption. now exists lp.
  Qed.
End PureEvaluation.

(** ** Replay of an observed solver log (the tie to the implementation)

    State = the remaining stream of residual norms the implementation logged (non-GMRES entries of
    [DFTSolverLog], as exact dyadic rationals, in the order of evaluation); evaluating the residual consumes
    the head, an update does nothing.  Running the model on the observed stream yields the result
    (Ok / NotConverged), the per-stage flags and iteration counts and what is left of the stream; the check
    compares all of it with what [solve] did (Ok / Err, the whole log consumed, the entry names per stage). *)
Definition eval_stream (x : list Q) : option (Q * list Q) :=
  match x with [] => None | r :: rest => Some (r, rest) end.
Definition step_stream (_ : stage) (_ : list (list Q)) (x : list Q) : option (list Q) := Some x.

Definition dyQ (me : Z * Z) : Q :=
  let (m, e) := me in
  match e with
  | Z0 => inject_Z m
  | Zpos p => inject_Z (m * 2 ^ Zpos p)
  | Zneg p => Qmake m (2 ^ p)
  end.

Inductive replay_result :=
| RInvalid                                   (* the stream ended although the model still needed a residual *)
| RErrNotConverged (outs : list (bool * nat)) (left : nat)
| ROk (converged : bool) (iterations : nat) (outs : list (bool * nat)) (left : nat).

Definition replay (stages : list stage) (debug : bool) (stream : list Q) : replay_result :=
  match call_stages eval_stream step_stream stages stream false 0 [] with
  | None => RInvalid
  | Some (c, it, rest, outs) =>
      if c || debug then ROk c it outs (length rest) else RErrNotConverged outs (length rest)
  end.

Lemma replay_ok_is_call_solver stages debug stream c it outs left :
  replay stages debug stream = ROk c it outs left ->
  exists rest, call_solver eval_stream step_stream stages debug stream = Ok rest c it /\ length rest = left.
Proof.
  unfold replay, call_solver.
  destruct (call_stages eval_stream step_stream stages stream false 0 []) as [[[[c1 it1] rest] o]|]; [|discriminate].
  destruct (c1 || debug); [|discriminate]. intros H. inversion H; subst. eauto.
Qed.

Lemma replay_err_is_call_solver stages debug stream outs left :
  replay stages debug stream = RErrNotConverged outs left ->
  call_solver eval_stream step_stream stages debug stream = ErrNotConverged.
Proof.
  unfold replay, call_solver.
  destruct (call_stages eval_stream step_stream stages stream false 0 []) as [[[[c1 it1] rest] o]|]; [|discriminate].
  destruct (c1 || debug); [discriminate|]. reflexivity.
Qed.

(** ** Non-vacuity *)

Definition ex_picard (n : nat) (tol : Q) := mkStage Picard false n tol.

(** a chain that converges in its last stage: Ok, with the residual of the returned state below that tolerance *)
Definition q (a : Z) (b : positive) : Q := Qmake a b.

Example ex_ok :
  replay [ex_picard 2 (q 1 10); ex_picard 5 (q 1 100)] false [q 1 1; q 1 2; q 1 4; q 1 20; q 1 200]
  = ROk true 4 [(false, 2); (true, 2)] 0.
Proof. vm_compute. reflexivity. Qed.

(** the first stage converges, the last one does not: Err(NotConverged) without debug ... *)
Example ex_early_only :
  replay [ex_picard 5 (q 1 1); ex_picard 2 (q 1 100)] false [q 1 2; q 1 4; q 1 8]
  = RErrNotConverged [(true, 0); (false, 2)] 0.
Proof. vm_compute. reflexivity. Qed.

(** ... and Ok with debug, although the residual of the returned state is NOT below the tolerance:
    with [debug = true] an Ok of [solve] carries no information about stationarity. *)
Example debug_ok_not_stationary :
  call_solver eval_stream step_stream [ex_picard 1 (q 1 100)] true [q 1 1; q 1 1] = Ok [q 1 1] false 1
  /\ ~ (q 1 1 < q 1 100)%Q.
Proof. split; [vm_compute; reflexivity|]. intros H. vm_compute in H. discriminate. Qed.

(** the stream is too short for what the model has to read: invalid (the check reports it) *)
Example ex_invalid : replay [ex_picard 3 (q 1 100)] false [q 1 1] = RInvalid.
Proof. vm_compute. reflexivity. Qed.

Example ex_dyQ : (dyQ (5, -3)%Z == q 5 8)%Q /\ (dyQ (3, 2)%Z == q 12 1)%Q.
Proof. split; vm_compute; reflexivity. Qed.
