(** C19 — the cached fields of [PoreProfile] (feos-dft/src/adsorption/pore.rs:88-139): [grand_potential] and
    [interfacial_tension] are stored by [solve_inplace] and read later by the drivers ([Adsorption::phase_equilibrium],
    [Adsorption::grand_potential], the equilibrium isotherm) and by users.  The Gibbs adsorption relation is a statement
    about Omega OF THE CURRENT PROFILE AND BULK STATE; a stored value only carries it if it is fresh.

    State machine of one [PoreProfile] object, for ANY profile type, solver behaviour and sequence of calls:
      Solve r          [solve_inplace]: [profile.solve] returned r (None = Err: early return through `?`, the object is
                       unchanged; Some x = the new profile); on success BOTH fields are recomputed from the new profile
      UpdateBulk b     [update_bulk]: the bulk state is replaced and BOTH fields are reset to None
      SetSpec s        assignment to the public field [profile.specification]: the fields are kept (the grand potential
                       is a function of density, temperature and bulk state only: hypothesis [spec_irrelevant])
    Invariant ([fresh]): a stored value, if any, is the value recomputed from the current profile. *)
From Coq Require Import List ZArith.
Import ListNotations.

Section Cache.
  Variables X B S Val : Type.
  Variable omega_of gamma_of : X -> Val.
  Variable set_bulk : B -> X -> X.
  Variable set_spec : S -> X -> X.
  Hypothesis spec_irrelevant : forall s x, omega_of (set_spec s x) = omega_of x /\ gamma_of (set_spec s x) = gamma_of x.

  Record pore := mkPore { prof : X; om : option Val; ga : option Val }.

  Inductive op :=
  | Solve (r : option X)
  | UpdateBulk (b : B)
  | SetSpec (s : S).

  Definition step (p : pore) (o : op) : pore :=
    match o with
    | Solve (Some x) => mkPore x (Some (omega_of x)) (Some (gamma_of x))
    | Solve None => p
    | UpdateBulk b => mkPore (set_bulk b (prof p)) None None
    | SetSpec s => mkPore (set_spec s (prof p)) (om p) (ga p)
    end.

  Definition run (p : pore) (ops : list op) : pore := fold_left step ops p.

  (** the states after every call (what the tie compares with the real object) *)
  Fixpoint trace (p : pore) (ops : list op) : list pore :=
    match ops with
    | [] => []
    | o :: r => let q := step p o in q :: trace q r
    end.

  (** [PoreSpecification::initialize] *)
  Definition initialize (x : X) : pore := mkPore x None None.

  Definition fresh (p : pore) : Prop :=
    (forall v, om p = Some v -> v = omega_of (prof p)) /\ (forall v, ga p = Some v -> v = gamma_of (prof p)).

  Lemma step_fresh p o : fresh p -> fresh (step p o).
  Proof.
    intros [Ho Hg]. destruct o as [[x|]|b|s]; simpl.
    - split; intros v E; inversion E; reflexivity.
    - split; assumption.
    - split; intros v E; discriminate E.
    - destruct (spec_irrelevant s (prof p)) as [E1 E2]. split; intros v E; simpl in *.
      + rewrite E1. apply Ho; exact E.
      + rewrite E2. apply Hg; exact E.
  Qed.

  (** the property: after ANY sequence of calls a stored grand potential / interfacial tension is that of the current
      profile and bulk state *)
  Theorem cache_fresh_always ops p : fresh p -> fresh (run p ops).
  Proof.
    revert p. induction ops as [|o r IH]; intros p F; simpl; [exact F|]. apply IH, step_fresh, F.
  Qed.

  Corollary cache_fresh_from_initialize x ops : fresh (run (initialize x) ops).
  Proof. apply cache_fresh_always. split; intros v E; discriminate E. Qed.

  (** every state of the trace is fresh as well (each intermediate object may be read, as the drivers do) *)
  Theorem trace_fresh ops p : fresh p -> Forall fresh (trace p ops).
  Proof.
    revert p. induction ops as [|o r IH]; intros p F; simpl; constructor.
    - apply step_fresh, F.
    - apply IH, step_fresh, F.
  Qed.

  (** a successful solve leaves both fields set (the drivers unwrap them), to the values of the profile it returned *)
  Theorem solve_ok_stores ops p x :
    let q := run p (ops ++ [Solve (Some x)]) in
    prof q = x /\ om q = Some (omega_of x) /\ ga q = Some (gamma_of x).
  Proof.
    unfold run. rewrite fold_left_app. simpl. auto.
  Qed.

  (** [update_bulk] leaves nothing stored until the next successful solve *)
  Theorem update_bulk_clears ops p b :
    let q := run p (ops ++ [UpdateBulk b]) in om q = None /\ ga q = None.
  Proof.
    unfold run. rewrite fold_left_app. simpl. auto.
  Qed.

  (** a failed solve changes nothing *)
  Theorem solve_err_unchanged ops p : run p (ops ++ [Solve None]) = run p ops.
  Proof. unfold run. rewrite fold_left_app. reflexivity. Qed.
End Cache.

(** ** the model run on an observed sequence of calls (tie; executed with vm_compute in coq/gen/C19/seq_<k>.v)

    profiles are numbered states; the values recomputed by the harness from the real object after each call
    ([profile.grand_potential()], that + p V) are the tables OM, GA (exact dyadics (m, e) = m 2^e). *)
Definition dyv := (Z * Z)%type.

Inductive rop :=
| RSolve (r : option nat)
| RUpdateBulk (b : nat)
| RSetSpec.

Definition rop_op (o : rop) : op nat nat unit :=
  match o with
  | RSolve r => Solve nat nat unit r
  | RUpdateBulk b => UpdateBulk nat nat unit b
  | RSetSpec => SetSpec nat nat unit tt
  end.

Definition replay (OM GA : list dyv) (ops : list rop) : list (option dyv * option dyv) :=
  let omega_of := fun x : nat => nth x OM (0, 0)%Z in
  let gamma_of := fun x : nat => nth x GA (0, 0)%Z in
  map (fun p => (om nat dyv p, ga nat dyv p))
      (trace nat nat unit dyv omega_of gamma_of (fun b _ => b) (fun _ x => x)
             (initialize nat dyv 0%nat) (map rop_op ops)).

(** the replay instance satisfies the hypothesis of the theorems, so every state it prints is fresh *)
Lemma replay_spec_irrelevant (OM GA : list dyv) :
  forall (s : unit) (x : nat),
    (fun x : nat => nth x OM (0, 0)%Z) ((fun _ x => x) s x) = (fun x : nat => nth x OM (0, 0)%Z) x /\
    (fun x : nat => nth x GA (0, 0)%Z) ((fun _ x => x) s x) = (fun x : nat => nth x GA (0, 0)%Z) x.
Proof. intros; split; reflexivity. Qed.

(** non-vacuity / sanity: solve, update_bulk, failed solve, solve, specification change *)
Example replay_example :
  replay [(1, 0); (2, 0); (3, 0); (4, 0)]%Z [(10, 0); (20, 0); (30, 0); (40, 0)]%Z
         [RSolve (Some 1%nat); RUpdateBulk 2%nat; RSolve None; RSolve (Some 3%nat); RSetSpec]
  = [(Some (2, 0), Some (20, 0)); (None, None); (None, None); (Some (4, 0), Some (40, 0)); (Some (4, 0), Some (40, 0))]%Z.
Proof. reflexivity. Qed.

(** what goes wrong when a stored value is reused across a change of state (the invariant is not a tautology): a
    machine whose solve keeps a stored Omega and whose update_bulk does not reset it reports the previous Omega *)
Example stale_cache_breaks_invariant :
  let step_reuse (p : pore nat Z) (o : op nat nat unit) : pore nat Z :=
    match o with
    | Solve _ _ _ (Some x) => mkPore nat Z x (match om nat Z p with Some v => Some v | None => Some (Z.of_nat x) end) (Some (Z.of_nat x))
    | Solve _ _ _ None => p
    | UpdateBulk _ _ _ b => mkPore nat Z b (om nat Z p) None
    | SetSpec _ _ _ _ => p
    end in
  let q := fold_left step_reuse [Solve nat nat unit (Some 1%nat); UpdateBulk nat nat unit 2%nat; Solve nat nat unit (Some 3%nat)] (initialize nat Z 0%nat) in
  ~ fresh nat Z Z.of_nat Z.of_nat q.
Proof.
  simpl. intros [Ho _]. specialize (Ho 1%Z eq_refl). discriminate Ho.
Qed.
