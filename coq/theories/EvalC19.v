(** C19 — evaluation of the [GibbsC19]/[HenryC19] model definitions on concrete data (the correspondence goals
    regenerated on every run into coq/gen/C19/*.v are stated with these wrappers and closed by [interval]), and
    non-vacuity examples of the theorems (concrete families satisfying every hypothesis). *)
From Coq Require Import Reals List ZArith Lia Lra.
From Coquelicot Require Import Coquelicot.
From Interval Require Import Tactic.
From FeosVerif Require Import ProgSem GibbsC19 HenryC19.
Import ListNotations.
Open Scope R_scope.

(** data given as lists *)
Definition lf (l : list R) : nat -> R := fun k => nth k l 0.

(** a tagged correspondence goal: on failure the tag is printed and the goal is left open (the file then fails at Qed
    and the check collects every failing tag) *)
Definition c19_tag (n : nat) (P : Prop) : Prop := P.

Ltac c19_reduce :=
  cbv -[Rplus Rminus Rmult Rdiv Rinv Ropp Rabs sqrt IZR powerRZ Rle exp ln].

Ltac c19_one :=
  match goal with
  | |- c19_tag ?n ?P =>
      first [ solve [ unfold c19_tag; c19_reduce; interval with (i_prec 100) ]
            | idtac "C19FAIL" n ]
  end.

Ltac c19_all := repeat (match goal with |- _ /\ _ => split end); c19_one.

(** sanity of the wrappers *)
Example eval_example_henry :
  c19_tag 0 (Rabs (henry_sph 2 (lf [1/2; 1/2]) (lf [0; 1]) 2 - (1 + exp (-1)) / 4) <= 1 / 1000000000) /\
  c19_tag 1 (Rabs (qst_sph 2 (lf [1/2; 1/2]) (lf [0; 1]) 2 - 2 * (1 - exp (-1) / (1 + exp (-1)))) <= 1 / 1000000000) /\
  c19_tag 2 (Rabs (ig_dn_dt 2 (lf [1/2; 1/2]) 3 (lf [0; 2]) 2 - (3 * exp (-2) - 3) / 4) <= 1 / 1000000000) /\
  c19_tag 3 (Rabs (lin_op 2 3 5 7 - 29) <= 1 / 1000000000) /\
  c19_tag 4 (Rabs (code_rhs_t 2 3 3 5 7 11 - (-15)) <= 1 / 1000000000) /\
  c19_tag 5 (Rabs (wsum 2 (lf [1/2; 1/2]) (lf [4; 6]) - 5) <= 1 / 1000000000).
Proof. c19_all. Qed.

(** ** non-vacuity: a concrete interacting family satisfying every hypothesis of [gibbs_adsorption] and
    [linearised_EL]

    n = 2 unknowns, weights (1, 2), m = (1, 2), V = (0, 1), local quadratic functional F(r) = a/2 sum_i w_i r_i^2 with
    D_i(r) = a r_i, H x = a x; family rho_i(t) = exp t (so the chemical potentials that make it stationary are
    mu_i(t) = m_i t + a exp t + V_i). *)
Section Witness.
  Let a : R := 3.
  Let w : nat -> R := fun i => match i with O => 1 | _ => 2 end.
  Let m : nat -> R := fun i => match i with O => 1 | _ => 2 end.
  Let V : nat -> R := fun i => match i with O => 0 | _ => 1 end.
  Let F : (nat -> R) -> R := fun r => a / 2 * sumn 2 (fun i => w i * (r i * r i)).
  Let D : (nat -> R) -> nat -> R := fun r i => a * r i.
  Let rho : nat -> R -> R := fun _ t => exp t.
  Let drho : nat -> R -> R := fun _ t => exp t.
  Let mu : nat -> R -> R := fun i t => m i * t + a * exp t + V i.
  Let dmu : nat -> R -> R := fun i t => m i + a * exp t.

  Example gibbs_adsorption_inhabited t :
    is_derive (Omega 2 w m V F rho mu) t (- sumn 2 (fun i => w i * rho i t * dmu i t)).
  Proof.
    apply (gibbs_adsorption 2 w m V F D rho drho mu dmu).
    - intros i s _. unfold rho, drho. auto_derive; [auto|ring].
    - intros i s _. apply exp_pos.
    - intros i s _. unfold mu, dmu. auto_derive; [auto|ring].
    - intros s. unfold F, prof, rho, drho, D, w, a. simpl. auto_derive; [auto|field].
    - intros i Hi. unfold prof, rho, mu, D. rewrite ln_exp. ring.
  Qed.

  Example omega_code_inhabited t : Omega_code 2 w m F D rho t = Omega 2 w m V F rho mu t.
  Proof.
    apply omega_code_is_omega. intros i Hi. unfold prof, rho, mu, D. rewrite ln_exp. ring.
  Qed.

  Example linearised_EL_inhabited t i : (i < 2)%nat ->
    lin_op (m i) (rho i t) (a * drho i t) (drho i t) = rho i t * (dmu i t - 0 - 0).
  Proof.
    intros Hi.
    apply (linearised_EL 2 m (fun _ r i => a * r i) (fun _ _ _ => 0) (fun _ _ x i => a * x i)
             rho drho (fun i _ => V i) (fun _ _ => 0) mu dmu); auto.
    - intros j s _. unfold rho, drho. auto_derive; [auto|ring].
    - intros j s _. apply exp_pos.
    - intros j s _. auto_derive; [auto|ring].
    - intros j s _. unfold mu, dmu. auto_derive; [auto|ring].
    - intros j s _. unfold profL, dprofL, rho, drho. auto_derive; [auto|ring].
    - intros s j Hj. unfold profL, rho, mu. rewrite ln_exp. ring.
  Qed.
End Witness.

(** the operator of the witness is injective (m + a rho > 0), so [linear_solution_unique] applies to it *)
Example linear_solution_unique_inhabited (x y : nat -> R) :
  (forall i, (i < 2)%nat -> lin_op 1 (exp 0) (3 * x i) (x i) = exp 0) ->
  (forall i, (i < 2)%nat -> lin_op 1 (exp 0) (3 * y i) (y i) = exp 0) ->
  forall i, (i < 2)%nat -> x i = y i.
Proof.
  intros Hx Hy.
  apply (linear_solution_unique 2 (fun _ => 1) (fun _ _ x i => 3 * x i) (fun _ t => exp t)
           (fun _ _ _ _ _ => ltac:(simpl; ring)) 0 (fun _ => exp 0) x y); auto.
  intros z Hz i Hi. specialize (Hz i Hi). unfold lin_op in Hz. rewrite exp_0 in Hz. lra.
Qed.

(** [code_rhs_t_correct] is not vacuous: rho = rho_b exp(-G) satisfies its hypothesis *)
Example code_rhs_t_inhabited :
  let G := (2 + 3 - 1) / 2 in
  code_rhs_t 2 (5 * exp (- G)) 5 7 (G + 7 * ((1 - 3 / 7 - 4) / 2)) 11
  = 5 * exp (- G) * ((4 - 11 / 7) - (- 3 / 7) - 1).
Proof.
  intros G. apply (code_rhs_t_correct 2 (5 * exp (- G)) 5 7 2 3 1 1 4 11); try lra.
  unfold G. replace (5 * exp (- ((2 + 3 - 1) / 2)) / 5) with (exp (- ((2 + 3 - 1) / 2))) by (field; lra).
  apply ln_exp.
Qed.

(** Gibbs-Duhem witness: ideal gas f = rho (ln rho - 1), mu = ln rho, p = rho: along rho_b(s) = p0 + s, dmu/dp = 1/rho *)
Example dmu_dp_inhabited (p0 s : R) : (forall s', 0 < p0 + s') ->
  is_derive (fun s' => ln (p0 + s')) s (1 / (p0 + s)).
Proof.
  intros Hpos. pose proof (Hpos s). auto_derive; [lra|]. field. lra.
Qed.

(** the Henry sandwich is attained with equality by the ideal gas (delta = eps = 0) *)
Example henry_sandwich_inhabited :
  let N := sumn 2 (fun j => lf [1/2; 1/2] j * (3 * exp (- lf [0; 1] j - 0))) in
  henry_sph 2 (lf [1/2; 1/2]) (lf [0; 1]) 2 * (exp (- 0) / (1 + 0)) <= N / (3 * 2 * 1)
  <= henry_sph 2 (lf [1/2; 1/2]) (lf [0; 1]) 2 * (exp 0 / (1 - 0)).
Proof.
  intros N. apply (henry_sandwich 2 (lf [1/2; 1/2]) (lf [0; 1]) (fun _ => 0) 3 2 1 0 0); try lra.
  - intros j Hj. destruct j as [|[|j]]; [unfold lf; simpl; lra | unfold lf; simpl; lra | lia].
  - intros j _. rewrite Rabs_R0. lra.
  - replace (1 - 1) with 0 by ring. rewrite Rabs_R0. lra.
Qed.
