(** * AssocC08: the closed-form monomer fractions used by the analytic association paths are the
    (unique positive) solution of the site-balance equations that the iterative
    cross-association solver solves. *)
From Coq Require Import Reals Lra Lia Psatz.
Local Open Scope R_scope.

Section AB.
Variables (D ra rb : R).
Hypothesis HD : 0 <= D.
Hypothesis Hra : 0 <= ra.
Hypothesis Hrb : 0 <= rb.

Let u := D * (ra - rb).
Let rad := (u + 1) ^ 2 + D * rb * 4.
Let s := sqrt rad.
(** as coded in [helmholtz_energy_ab_analytic] *)
Definition xa_ab := / (s + (D * (rb - ra) + 1)) * 2.
Definition xb_ab := / (s + (D * (ra - rb) + 1)) * 2.

Lemma rad_nonneg : 0 <= rad.
Proof.
  unfold rad. assert (0 <= D * rb) by (apply Rmult_le_pos; assumption).
  assert (0 <= (u + 1) ^ 2) by apply pow2_ge_0. lra.
Qed.

Lemma s_sq : s * s = rad.
Proof. unfold s. apply sqrt_sqrt, rad_nonneg. Qed.

Lemma s_nonneg : 0 <= s.
Proof. unfold s. apply sqrt_pos. Qed.

Lemma s_ge_abs : Rabs (u + 1) <= s.
Proof.
  unfold s. rewrite <- sqrt_Rsqr_abs. apply sqrt_le_1_alt. unfold rad, Rsqr. nra.
Qed.

Lemma den_a_pos : 0 < s + (D * (rb - ra) + 1).
Proof.
  pose proof s_ge_abs as H. pose proof s_nonneg as Hs. fold u in H.
  replace (D * (rb - ra)) with (- u) by (unfold u; ring).
  unfold Rabs in H. destruct (Rcase_abs (u + 1)) as [Hn|Hp]; [lra|].
  (* u + 1 >= 0 : s >= u + 1; need s + 1 - u > 0 *)
  destruct (Rle_or_lt u 1); [lra|].
  lra.
Qed.

Lemma den_b_pos : 0 < s + (D * (ra - rb) + 1).
Proof.
  pose proof s_ge_abs as H. pose proof s_nonneg as Hs. pose proof s_sq as Hq. fold u.
  unfold Rabs in H. destruct (Rcase_abs (u + 1)) as [Hn|Hp]; [|destruct (Req_dec (u + 1) 0); [|lra]].
  - (* u + 1 < 0 : s >= -(u+1); equality would need D rb = 0, impossible with u < -1 *)
    destruct (Req_dec (s + (u + 1)) 0) as [E|E]; [|lra].
    exfalso. assert (Hs2 : s = - (u + 1)) by lra.
    rewrite Hs2 in Hq. unfold rad in Hq.
    assert (D * rb = 0) by nra.
    unfold u in Hn. nra.
  - (* u + 1 = 0 : then s^2 = 4 D rb and u = D(ra - rb) = -1 forces D rb > 0 *)
    assert (0 < D * rb) by (unfold u in *; nra).
    assert (0 < s * s) by (rewrite Hq; unfold rad; nra).
    assert (0 < s) by nra. lra.
Qed.

(** the closed form solves both site-balance equations  1/X_A = 1 + rho_B D X_B,  1/X_B = 1 + rho_A D X_A *)
Theorem ab_closed_form_is_root :
  xa_ab * (1 + rb * D * xb_ab) = 1 /\ xb_ab * (1 + ra * D * xa_ab) = 1.
Proof.
  pose proof den_a_pos as Ha. pose proof den_b_pos as Hb. pose proof s_sq as Hq.
  unfold xa_ab, xb_ab. unfold rad, u in Hq.
  split; field_simplify_eq; try lra; nra.
Qed.

Theorem ab_closed_form_in_unit_interval : 0 < xa_ab <= 1 /\ 0 < xb_ab <= 1.
Proof.
  pose proof den_a_pos as Ha. pose proof den_b_pos as Hb. pose proof s_ge_abs as H. fold u in H.
  unfold xa_ab, xb_ab.
  assert (A : 2 <= s + (D * (rb - ra) + 1)).
  { replace (D * (rb - ra)) with (- u) by (unfold u; ring).
    pose proof s_sq as Hq. pose proof s_nonneg as Hs. unfold rad in Hq.
    (* (s + 1 - u) >= 2  <=>  s >= u + 1, true since s >= |u+1| *)
    unfold Rabs in H. destruct (Rcase_abs (u + 1)); lra. }
  assert (B : 2 <= s + (D * (ra - rb) + 1)).
  { fold u. pose proof s_sq as Hq. pose proof s_nonneg as Hs. unfold rad in Hq.
    (* s + 1 + u >= 2 <=> s >= 1 - u : s^2 = (u+1)^2 + 4 D rb >= (1-u)^2 <=> 4u + 4 D rb >= 0 <=> D ra >= 0 *)
    destruct (Rle_or_lt (1 - u) 0); [lra|].
    assert ((1 - u) * (1 - u) <= s * s) by (rewrite Hq; unfold u; nra).
    nra. }
  repeat split.
  - apply Rmult_lt_0_compat; [now apply Rinv_0_lt_compat|lra].
  - apply Rmult_le_reg_l with (s + (D * (rb - ra) + 1)); [exact Ha|]. field_simplify; lra.
  - apply Rmult_lt_0_compat; [now apply Rinv_0_lt_compat|lra].
  - apply Rmult_le_reg_l with (s + (D * (ra - rb) + 1)); [exact Hb|]. field_simplify; lra.
Qed.

End AB.

Section CC.
Variables (D rc : R).
Hypothesis HD : 0 <= D.
Hypothesis Hrc : 0 <= rc.
(** as coded in [helmholtz_energy_cc_analytic] *)
Definition xc_cc := / (sqrt (D * 4 * rc + 1) + 1) * 2.

Theorem cc_closed_form_is_root : xc_cc * (1 + rc * D * xc_cc) = 1.
Proof.
  unfold xc_cc. set (s := sqrt (D * 4 * rc + 1)).
  assert (Hq : s * s = D * 4 * rc + 1) by (apply sqrt_sqrt; nra).
  assert (Hs : 0 <= s) by apply sqrt_pos.
  field_simplify_eq; [nra|lra].
Qed.

Theorem cc_closed_form_in_unit_interval : 0 < xc_cc <= 1.
Proof.
  unfold xc_cc. set (s := sqrt (D * 4 * rc + 1)).
  assert (Hq : s * s = D * 4 * rc + 1) by (apply sqrt_sqrt; nra).
  assert (Hs : 0 <= s) by apply sqrt_pos.
  assert (1 <= s) by nra.
  split.
  - apply Rmult_lt_0_compat; [apply Rinv_0_lt_compat|]; lra.
  - apply Rmult_le_reg_l with (s + 1); [lra|]. field_simplify; lra.
Qed.

Theorem cc_root_unique x : 0 < x -> x * (1 + rc * D * x) = 1 -> x = xc_cc.
Proof.
  intros Hx E. pose proof cc_closed_form_is_root as F. pose proof cc_closed_form_in_unit_interval as [P _].
  set (y := xc_cc) in *.
  assert (H0 : (x - y) * (1 + rc * D * (x + y)) = 0).
  { transitivity (x * (1 + rc * D * x) - y * (1 + rc * D * y)); [ring|rewrite E, F; ring]. }
  assert (Hrd : 0 <= rc * D) by (apply Rmult_le_pos; assumption).
  assert (Hxy : 0 < x + y) by lra.
  assert (0 <= rc * D * (x + y)) by (apply Rmult_le_pos; lra).
  apply Rmult_integral in H0. destruct H0; lra.
Qed.
End CC.
