(** C14 — evaluation wrappers: run the models of ParamLookup / Segments / ParamSerde on the cases the harness
    generated (coq/gen/C14/*.v) and print canonical results for the comparison with the implementation. *)
From Coq Require Import String List NArith ZArith QArith Bool.
From FeosVerif Require Import ParamLookup Segments ParamSerde.
Import ListNotations.

Definition code_of (e : perr) : N * list N :=
  match e with
  | EDup => (1%N, []) | EMissing l => (2%N, l) | EFileIO => (3%N, []) | ESerde => (4%N, [])
  | EIncompat => (5%N, []) | EPanic => (6%N, [])
  end.

Definition nthf {T} (fs : list (file T)) (i : N) : file T := nth (N.to_nat i) fs FNoFile.

(* ---------------------------------------------------------------------------------------------- *)
(** from_json / from_multiple_json / records / subset / new_binary *)
Record load_case := mkLoad { l_opt : idopt; l_inputs : list (list N * N); l_bin : option N }.

Inductive lres := LOk (tags : list N) (m : option (list (list Z))) | LErr (code : N) (missing : list N).

Definition load_model (pfiles : list (file (prec N))) (bfiles : list (file (brec Z))) (c : load_case) :=
  from_json_full 0%Z (l_opt c) (map (fun qi => (fst qi, nthf pfiles (snd qi))) (l_inputs c)) (option_map (nthf bfiles) (l_bin c)).

Definition to_lres (r : result (list (prec N) * option (list (list Z)))) : lres :=
  match r with
  | Ok (recs, m) => LOk (map (@p_val N) recs) m
  | Err e => LErr (fst (code_of e)) (snd (code_of e))
  end.

Definition run_load pfiles bfiles (c : load_case) : lres := to_lres (load_model pfiles bfiles c).

Definition dprec : prec N := mkP (mkId None None None None None None) 0%N.

(** subset of a loaded parameter set, and a subset of that subset *)
Definition run_subset pfiles bfiles (c : load_case * list N * list N) : lres * lres :=
  let '(lc, idx, idx2) := c in
  match load_model pfiles bfiles lc with
  | Ok p => let p1 := subset dprec 0%Z p (map N.to_nat idx) in
            (to_lres (Ok p1), to_lres (Ok (subset dprec 0%Z p1 (map N.to_nat idx2))))
  | Err e => (to_lres (Err e), to_lres (Err e))
  end.

Definition run_new_binary (k : option Z) : option (list (list Z)) := new_binary_matrix 0%Z k.

(* ---------------------------------------------------------------------------------------------- *)
(** from_json_segments (homosegmented, PC-SAFT) *)
Record chem := mkChem { ch_ident : ident; ch_segs : list N; ch_bnds : option (list (nat * nat)) }.

Fixpoint dedup (l : list N) : list N :=      (* IndexSet: first occurrence, insertion order *)
  match l with [] => [] | x :: r => x :: filter (fun y => negb (N.eqb y x)) (dedup r) end.

(** [record_map]: HashMap / IndexMap collected from the file: the last record with that identifier wins *)
Definition chem_get (o : idopt) (k : N) (chems : list chem) : option chem :=
  find (fun c => okey_eqb (as_key o (ch_ident c)) k) (rev chems).

Fixpoint collect1 {T} (l : list (result T)) : result (list T) :=
  match l with
  | [] => Ok []
  | Ok x :: r => match collect1 r with Ok y => Ok (x :: y) | Err e => Err e end
  | Err e :: _ => Err e
  end.

(** [dup_check]: whether [from_json_segments] rejects a duplicated query (false: the IndexSet silently merges it) *)
Definition chem_lookup (dup_check : bool) (o : idopt) (q : list N) (chems : list chem) : result (list chem) :=
  if dup_check && has_dup q then Err EDup else
  let qd := dedup q in
  match filter (fun k => is_none (chem_get o k chems)) qd with
  | [] => match all_some (map (fun k => chem_get o k chems) qd) with Some l => Ok l | None => Err EPanic end
  | missing => Err (EMissing missing)
  end.

Definition kij_matrix (segss : list (list N)) (sbin : list (N * N * Q)) : list (list Q) :=
  let n := List.length segss in
  map (fun i => map (fun j =>
        if Nat.eqb i j then 0%Q
        else if Nat.ltb i j then Qred (kij (nth i segss []) (nth j segss []) sbin)
        else Qred (kij (nth j segss []) (nth i segss []) sbin)) (seq 0 n)) (seq 0 n).

Record seg_case := mkSegCase {
  sc_opt : idopt; sc_query : list N; sc_chems : list chem; sc_srecs : list (N * seg); sc_mus : list (N * Q);
  sc_sbin : option (list (N * N * Q)) }.

Definition qpair (q : Q) : Z * positive := (Qnum (Qred q), Qden (Qred q)).

Inductive sres :=
| SOk (comps : list ((Z * positive) * (Z * positive) * (Z * positive) * (Z * positive))) (k : list (list (Z * positive)))
| SErr (code : N) (missing : list N).

Definition run_segments (dup_check : bool) (c : seg_case) : sres :=
  match chem_lookup dup_check (sc_opt c) (sc_query c) (sc_chems c) with
  | Err e => SErr (fst (code_of e)) (snd (code_of e))
  | Ok crs =>
      match collect1 (map (fun cr => from_segments_one (ch_segs cr) (sc_srecs c)) crs) with
      | Err e => SErr (fst (code_of e)) (snd (code_of e))
      | Ok cs =>
          SOk (map (fun c => (qpair (c_mw c), qpair (c_m c), qpair (c_sigma3 c), qpair (c_eps c))) cs)
              (map (map qpair) (kij_matrix (map ch_segs crs) (match sc_sbin c with Some b => b | None => [] end)))
      end
  end.

(* ---------------------------------------------------------------------------------------------- *)
(** heterosegmented gc-PC-SAFT: counts, bonds, molar weight, segment-pair k *)
Definition chem_bonds (c : chem) : list (nat * nat) :=
  match ch_bnds c with Some b => b | None => default_bonds (List.length (ch_segs c)) end.

Inductive hres :=
| HOk (comps : list (list (N * nat) * list ((N * N) * nat) * (Z * positive) * (Z * positive) * (Z * positive) * (Z * positive) * (Z * positive)))
      (k : list (N * N * (Z * positive)))
| HErr (code : N) (missing : list N).

Definition all_pairs (l : list N) : list (N * N) := flat_map (fun a => map (fun b => (a, b)) l) l.

Definition run_hetero (dup_check : bool) (c : seg_case) : hres :=
  match chem_lookup dup_check (sc_opt c) (sc_query c) (sc_chems c) with
  | Err e => HErr (fst (code_of e)) (snd (code_of e))
  | Ok crs =>
      match collect1 (map (fun cr => match missing_of (ch_segs cr) (sc_srecs c) with [] => Ok tt | l => Err (EMissing l) end) crs) with
      | Err e => HErr (fst (code_of e)) (snd (code_of e))
      | Ok _ =>
          let kinds := dedup (concat (map ch_segs crs)) in
          HOk (map (fun cr => (segment_count (ch_segs cr), bond_count (ch_segs cr) (chem_bonds cr),
                               qpair (raw_sum f_mw (sc_srecs c) (ch_segs cr)),
                               (* dipole: mu^2, and m, m sigma^3, m epsilon sums of the molecule *)
                               qpair (hetero_mu2 (sc_mus c) (ch_segs cr)),
                               qpair (raw_sum f_m (sc_srecs c) (ch_segs cr)),
                               qpair (raw_sum f_s3 (sc_srecs c) (ch_segs cr)),
                               qpair (raw_sum f_eps (sc_srecs c) (ch_segs cr)))) crs)
              (map (fun ab => (fst ab, snd ab, qpair (hetero_k (match sc_sbin c with Some b => b | None => [] end) (fst ab) (snd ab))))
                   (all_pairs kinds))
      end
  end.

(* ---------------------------------------------------------------------------------------------- *)
(** binary association records -> cross-association parameters of the site pairs (SAFT-VR Mie) *)
Record assoc_case := mkAC { ac_hasA : list bool; ac_hasB : list bool; ac_eps : list (list (option Z)); ac_rc : list (list (option Z)) }.

Definition mat_fun (m : list (list (option Z))) (i j : nat) : option Z := nth j (nth i m []) None.

Definition run_assoc (c : assoc_case) : list (nat * nat * option Z * option Z) :=
  let n := List.length (ac_hasA c) in
  let hA := fun i => nth i (ac_hasA c) false in
  let hB := fun i => nth i (ac_hasB c) false in
  let oe := overrides_of hA hB (matrix_recs n (mat_fun (ac_eps c))) in
  let orc := overrides_of hA hB (matrix_recs n (mat_fun (ac_rc c))) in
  flat_map (fun i => flat_map (fun j => if hA i && hB j then [(i, j, ov_get oe i j, ov_get orc i j)] else []) (seq 0 n)) (seq 0 n).

(* ---------------------------------------------------------------------------------------------- *)
(** serde shape *)
Definition run_serde_pcsaft (r : spcsaft) : jobj * option (jobj * bool) :=
  (print_pcsaft r,
   match parse_pcsaft (print_pcsaft r) with
   | Some r' => Some (print_pcsaft r', match r_assoc r' with Some _ => true | None => false end)
   | None => None end).

Definition run_serde_binary (b : sbinary) : jobj * option (jobj * bool) :=
  (print_binary b,
   match parse_binary (print_binary b) with
   | Some b' => Some (print_binary b', match b_assoc b' with Some _ => true | None => false end)
   | None => None end).

Definition run_serde_ebinary (b : sebinary) : jobj * option (jobj * list Z) :=
  (print_ebinary b,
   match parse_ebinary (print_ebinary b) with
   | Some b' => Some (print_ebinary b', eb_kij b')
   | None => None end).

Definition run_serde_chem (o : jobj) : option jobj :=
  match parse_chem o with Some c => Some (print_chem c) | None => None end.
