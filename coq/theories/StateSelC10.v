(** Model of the contribution selector of feos-core/src/state/{properties,residual_properties}.rs (route H).
    Every getter that takes a [Contributions] argument is written as the code writes it, over an abstract
    pair of derivative jets (ideal gas / residual) of the Helmholtz energy A(T,V,N). *)
From Coq Require Import Reals Lra List Arith.
From FeosVerif Require Import IdealGasHelmC10.
Import ListNotations.
Open Scope R_scope.

Inductive contrib : Type := IdealGas | Residual | Total.
Inductive dvar : Type := DT | DV | DN (i : nat).
Inductive pderiv : Type :=
| Zeroth | First (v : dvar) | Second (v : dvar) | SecondMixed (v1 v2 : dvar) | Third (v : dvar).
Definition jet : Type := pderiv -> R.

Record state : Type := mk_state { st_T : R; st_V : R; st_N : list R; st_MW : R }.
Definition total_moles (s : state) : R := fold_right Rplus 0 (st_N s).
Definition density (s : state) : R := total_moles s / st_V s.

(** [State::contributions] (residual_properties.rs) *)
Definition contributions (c : contrib) (ideal_gas residual : R) : R :=
  match c with IdealGas => ideal_gas | Total => ideal_gas + residual | Residual => residual end.

(** [State::get_or_compute_derivative] (properties.rs): two optional parts, then the four-way match *)
Definition get_or_compute_derivative (ig res : jet) (d : pderiv) (c : contrib) : R :=
  let residual := match c with IdealGas => None | _ => Some (res d) end in
  let ideal_gas := match c with Residual => None | _ => Some (ig d) end in
  match ideal_gas, residual with
  | Some i, Some r => i + r
  | Some i, None => i
  | None, Some r => r
  | None, None => 0
  end.

Section Getters.
  Variable RG : R.            (* gas constant of the unit system: 1 in reduced units, quantity::RGAS in SI *)
  Variable s : state.
  Variables ig res : jet.
  Let T := st_T s.
  Let V := st_V s.
  Let N := total_moles s.
  Let rho := density s.
  Let gcd := get_or_compute_derivative ig res.

  (* residual_properties.rs: ideal part hard-coded *)
  Definition pressure c := contributions c (rho * RG * T) (- res (First DV)).
  Definition compressibility c := pressure c / (rho * T * RG).
  Definition dp_dv c := contributions c (- rho * RG * T / V) (- res (Second DV)).
  Definition dp_drho c := - V / rho * dp_dv c.
  Definition dp_dt c := contributions c (rho * RG) (- res (SecondMixed DV DT)).
  Definition dp_dni i c := contributions c (RG * T / V) (- res (SecondMixed DV (DN i))).
  Definition d2p_dv2 c := contributions c (2 * rho * RG * T / (V * V)) (- res (Third DV)).
  Definition d2p_drho2 c := V / (rho * rho) * (V * d2p_dv2 c + 2 * dp_dv c).
  Definition dmu_dni i j c :=
    contributions c (if Nat.eqb i j then RG * T / nth i (st_N s) 0 else 0) (res (SecondMixed (DN i) (DN j))).
  Definition ds_res_dt := - res (Second DT).
  (* properties.rs: ideal part by differentiating IdealGas::ideal_gas_helmholtz_energy *)
  Definition chemical_potential i c := gcd (First (DN i)) c.
  Definition dmu_dt i c := gcd (SecondMixed DT (DN i)) c.
  Definition entropy c := - gcd (First DT) c.
  Definition ds_dt c := - gcd (Second DT) c.
  Definition d2s_dt2 c := - gcd (Third DT) c.
  Definition helmholtz_energy c := gcd Zeroth c.
  Definition molar_isochoric_heat_capacity c := T * ds_dt c / N.
  Definition dc_v_dt c := (T * d2s_dt2 c + ds_dt c) / N.
  Definition residual_molar_isobaric_heat_capacity :=
    T / N * (ds_res_dt - (dp_dt Total) ^ 2 / dp_dv Total) - RG.
  Definition molar_isobaric_heat_capacity c :=
    match c with
    | Residual => residual_molar_isobaric_heat_capacity
    | _ => T / N * (ds_dt c - (dp_dt c) ^ 2 / dp_dv c)
    end.
  Definition enthalpy c := T * entropy c + helmholtz_energy c + pressure c * V.
  Definition internal_energy c := T * entropy c + helmholtz_energy c.
  Definition gibbs_energy c := pressure c * V + helmholtz_energy c.

  Inductive getter : Type :=
  | G_pressure | G_compressibility | G_dp_dv | G_dp_drho | G_dp_dt | G_dp_dni (i : nat) | G_d2p_dv2 | G_d2p_drho2
  | G_dmu_dni (i j : nat) | G_chemical_potential (i : nat) | G_dmu_dt (i : nat)
  | G_entropy | G_molar_entropy | G_specific_entropy | G_ds_dt | G_d2s_dt2
  | G_helmholtz_energy | G_molar_helmholtz_energy | G_specific_helmholtz_energy
  | G_c_v | G_specific_c_v | G_dc_v_dt | G_c_p | G_specific_c_p
  | G_enthalpy | G_molar_enthalpy | G_specific_enthalpy
  | G_internal_energy | G_molar_internal_energy | G_specific_internal_energy
  | G_gibbs_energy | G_molar_gibbs_energy | G_specific_gibbs_energy.

  Definition value (g : getter) (c : contrib) : R :=
    match g with
    | G_pressure => pressure c
    | G_compressibility => compressibility c
    | G_dp_dv => dp_dv c
    | G_dp_drho => dp_drho c
    | G_dp_dt => dp_dt c
    | G_dp_dni i => dp_dni i c
    | G_d2p_dv2 => d2p_dv2 c
    | G_d2p_drho2 => d2p_drho2 c
    | G_dmu_dni i j => dmu_dni i j c
    | G_chemical_potential i => chemical_potential i c
    | G_dmu_dt i => dmu_dt i c
    | G_entropy => entropy c
    | G_molar_entropy => entropy c / N
    | G_specific_entropy => entropy c / N / st_MW s
    | G_ds_dt => ds_dt c
    | G_d2s_dt2 => d2s_dt2 c
    | G_helmholtz_energy => helmholtz_energy c
    | G_molar_helmholtz_energy => helmholtz_energy c / N
    | G_specific_helmholtz_energy => helmholtz_energy c / N / st_MW s
    | G_c_v => molar_isochoric_heat_capacity c
    | G_specific_c_v => molar_isochoric_heat_capacity c / st_MW s
    | G_dc_v_dt => dc_v_dt c
    | G_c_p => molar_isobaric_heat_capacity c
    | G_specific_c_p => molar_isobaric_heat_capacity c / st_MW s
    | G_enthalpy => enthalpy c
    | G_molar_enthalpy => enthalpy c / N
    | G_specific_enthalpy => enthalpy c / N / st_MW s
    | G_internal_energy => internal_energy c
    | G_molar_internal_energy => internal_energy c / N
    | G_specific_internal_energy => internal_energy c / N / st_MW s
    | G_gibbs_energy => gibbs_energy c
    | G_molar_gibbs_energy => gibbs_energy c / N
    | G_specific_gibbs_energy => gibbs_energy c / N / st_MW s
    end.

  Definition is_cp (g : getter) : bool :=
    match g with G_c_p | G_specific_c_p => true | _ => false end.

  Lemma gcd_total d : gcd d Total = gcd d IdealGas + gcd d Residual.
  Proof. reflexivity. Qed.

  (** every getter except the isobaric heat capacity is linear in the pair of jets: no side condition *)
  Theorem total_is_sum_linear g : is_cp g = false ->
    value g Total = value g IdealGas + value g Residual.
  Proof.
    destruct g; simpl; intros Hg; try discriminate;
      unfold compressibility, dp_drho, d2p_drho2, molar_isochoric_heat_capacity, dc_v_dt, enthalpy,
        internal_energy, gibbs_energy, pressure, dp_dv, dp_dt, dp_dni, d2p_dv2, dmu_dni, chemical_potential,
        dmu_dt, entropy, ds_dt, d2s_dt2, helmholtz_energy, gcd, get_or_compute_derivative, contributions, Rdiv;
      ring.
  Qed.

  (** c_p: Residual is a separate formula (with Total pressure derivatives, minus R); the sum rule needs
      rho = N/V and non-degenerate T, V, N, R *)
  Theorem total_is_sum_cp : T <> 0 -> V <> 0 -> N <> 0 -> RG <> 0 ->
    molar_isobaric_heat_capacity Total =
    molar_isobaric_heat_capacity IdealGas + molar_isobaric_heat_capacity Residual.
  Proof.
    intros HT HV HN HR.
    unfold molar_isobaric_heat_capacity, residual_molar_isobaric_heat_capacity.
    set (X := dp_dt Total ^ 2 / dp_dv Total).
    unfold ds_res_dt, ds_dt, dp_dt, dp_dv, gcd, get_or_compute_derivative, contributions, rho, density.
    fold N V T. field. repeat split; assumption.
  Qed.

  Theorem total_is_sum g : T <> 0 -> V <> 0 -> N <> 0 -> RG <> 0 ->
    value g Total = value g IdealGas + value g Residual.
  Proof.
    intros HT HV HN HR. destruct (is_cp g) eqn:E.
    - destruct g; try discriminate; unfold value.
      + now apply total_is_sum_cp.
      + rewrite total_is_sum_cp by assumption. unfold Rdiv; ring.
    - now apply total_is_sum_linear.
  Qed.

  (** a selector that dropped the ideal part in the Total arm would violate the theorem: non-vacuity *)
End Getters.

Example total_is_sum_nonvacuous :
  let s := mk_state 300 1000 [2; 3] 44 in
  let ig := fun d : pderiv => match d with Second DT => -1 | _ => 7 end in
  let res := fun d : pderiv => match d with Second DV => 1 | _ => 1 end in
  value 1 s ig res G_c_p Total = value 1 s ig res G_c_p IdealGas + value 1 s ig res G_c_p Residual
  /\ value 1 s ig res G_pressure IdealGas = 5 / 1000 * 1 * 300.
Proof.
  intros s ig res. split.
  - apply total_is_sum; unfold s, total_moles; simpl; lra.
  - unfold value, pressure, contributions, density, total_moles, s; simpl. lra.
Qed.

(** * the hard-coded ideal-gas parts of residual_properties.rs, reduced units (RGAS = 1), on the state of a
      list of ideal-gas components: they are the expressions whose derivative facts are proved in
      IdealGasHelmC10 ([ideal_pressure], [ideal_dp_dv], [ideal_dp_dt], [ideal_dp_dni], [ideal_d2p_dv2],
      [ideal_dmu_dni]) *)

Definition state_of (T V : R) (cs : list icomp) (MW : R) : state := mk_state T V (map ic_n cs) MW.

Lemma total_moles_Ntot T V cs MW : total_moles (state_of T V cs MW) = Ntot cs.
Proof. unfold total_moles, state_of, Ntot, sumf; simpl. induction cs as [|c l IH]; simpl; [reflexivity | now rewrite IH]. Qed.

Theorem hardcoded_ideal_parts T V cs MW (res : jet) i :
  let s := state_of T V cs MW in
  pressure 1 s res IdealGas = p_ig T V cs /\
  dp_dv 1 s res IdealGas = - (Ntot cs / V) * T / V /\
  dp_dt 1 s res IdealGas = Ntot cs / V /\
  dp_dni 1 s res i IdealGas = T / V /\
  d2p_dv2 1 s res IdealGas = 2 * (Ntot cs / V) * T / (V * V) /\
  dmu_dni 1 s res i i IdealGas = T / nth i (map ic_n cs) 0.
Proof.
  intros s. unfold pressure, dp_dv, dp_dt, dp_dni, d2p_dv2, dmu_dni, contributions, density, p_ig.
  unfold s. rewrite total_moles_Ntot. rewrite Nat.eqb_refl. simpl. unfold Rdiv. repeat split; ring.
Qed.
