(** * HenryIdxC09: the index bookkeeping of [State::henrys_law_constant] (feos-core/src/state/residual_properties.rs).

    The function receives the mole fractions x of ALL components; the components with x_i = 0 are the solutes ("Henry components"),
    the others form the (possibly mixed) solvent.  It
      1. collects the solvent indices and the solvent mole fractions           ([solvent_idx], [solvent_vals]),
      2. solves the bubble point of the sub-model [eos.subset(solvent_idx)]     (not modelled: an oracle returning one value per solvent component),
      3. writes the vapour mole fractions y of the solvent back into a full-length vector: for (i, y) in zip(solvent_idx, ys): v[i] = y   ([scatter]),
      4. evaluates ln phi of liquid and vapour for all components and returns the entries of the solutes only   ([select_solutes]).
    The theorems say that steps 1, 3, 4 are position-independent: with every component carrying a label, the written-back vector and the
    selected results are given by a [map] / [filter] over the labelled list — so they commute with every reordering of the components. *)
From Coq Require Import List Arith Lia Bool Permutation.
Import ListNotations.

Section Henry.
Context {A : Type} (isz : A -> bool).

Fixpoint solvent_idx_from (i : nat) (x : list A) : list nat :=
  match x with
  | [] => []
  | a :: r => if isz a then solvent_idx_from (S i) r else i :: solvent_idx_from (S i) r
  end.
Definition solvent_idx (x : list A) : list nat := solvent_idx_from 0 x.
Definition solvent_vals (x : list A) : list A := filter (fun a => negb (isz a)) x.

Fixpoint upd (l : list A) (i : nat) (v : A) : list A :=
  match l, i with
  | [], _ => []
  | _ :: r, 0 => v :: r
  | a :: r, S j => a :: upd r j v
  end.

(** the loop  [solvent_comps.into_iter().zip(&vle.vapor().molefracs).for_each(|(i, &y)| molefracs_vapor[i] = y)] *)
Definition scatter (x : list A) (idx : list nat) (ys : list A) : list A :=
  fold_left (fun v p => upd v (fst p) (snd p)) (combine idx ys) x.

(** its order-free description: walk through x, keep the zeros, replace the k-th non-zero entry by the k-th value *)
Fixpoint merge (x ys : list A) : list A :=
  match x with
  | [] => []
  | a :: r => if isz a then a :: merge r ys
              else match ys with [] => a :: merge r [] | y :: ys' => y :: merge r ys' end
  end.

Lemma merge_nil x : merge x [] = x.
Proof. induction x as [|a r IH]; cbn; [reflexivity|]. destruct (isz a); now rewrite IH. Qed.

Lemma upd_app_here pre a r v : upd (pre ++ a :: r) (length pre) v = pre ++ v :: r.
Proof. induction pre as [|p pre IH]; cbn; [reflexivity|]. now rewrite IH. Qed.

Lemma scatter_merge_from pre x ys :
  scatter (pre ++ x) (solvent_idx_from (length pre) x) ys = pre ++ merge x ys.
Proof.
  revert pre ys. induction x as [|a r IH]; intros pre ys; cbn [solvent_idx_from merge].
  - unfold scatter. cbn. reflexivity.
  - destruct (isz a) eqn:Ea.
    + replace (pre ++ a :: r) with ((pre ++ [a]) ++ r) by (rewrite <- app_assoc; reflexivity).
      replace (S (length pre)) with (length (pre ++ [a])) by (rewrite app_length; cbn; lia).
      rewrite IH. rewrite <- app_assoc. reflexivity.
    + destruct ys as [|y ys'].
      * unfold scatter. cbn. rewrite merge_nil. reflexivity.
      * unfold scatter. cbn [combine fold_left fst snd]. rewrite upd_app_here.
        replace (pre ++ y :: r) with ((pre ++ [y]) ++ r) by (rewrite <- app_assoc; reflexivity).
        replace (S (length pre)) with (length (pre ++ [y])) by (rewrite app_length; cbn; lia).
        fold (scatter ((pre ++ [y]) ++ r) (solvent_idx_from (length (pre ++ [y])) r) ys').
        rewrite IH. rewrite <- app_assoc. reflexivity.
Qed.

Theorem scatter_merge x ys : scatter x (solvent_idx x) ys = merge x ys.
Proof. exact (scatter_merge_from [] x ys). Qed.

(** the solvent indices are exactly the positions of the non-zero entries, in ascending order, and the values taken there are [solvent_vals] *)
Lemma solvent_idx_from_spec d i x :
  map (fun j => nth (j - i) x d) (solvent_idx_from i x) = solvent_vals x /\
  (forall j, In j (solvent_idx_from i x) <-> i <= j < i + length x /\ isz (nth (j - i) x d) = false).
Proof.
  revert i. induction x as [|a r IH]; intros i; cbn [solvent_idx_from solvent_vals filter length].
  - split; [reflexivity|]. intros j; cbn; split; [tauto|lia].
  - destruct (IH (S i)) as [IH1 IH2]. fold (solvent_vals r).
    assert (Hshift : forall j, S i <= j -> nth (j - i) (a :: r) d = nth (j - S i) r d).
    { intros j Hj. replace (j - i) with (S (j - S i)) by lia. reflexivity. }
    assert (Hmap : map (fun j => nth (j - i) (a :: r) d) (solvent_idx_from (S i) r) = solvent_vals r).
    { rewrite <- IH1. apply map_ext_in. intros j Hj. apply Hshift. apply IH2 in Hj. lia. }
    destruct (isz a) eqn:Ea; cbn [negb map].
    + split; [exact Hmap|].
      intros j. rewrite IH2. split.
      * intros [Hr Hz]. split; [lia|]. rewrite Hshift by lia. exact Hz.
      * intros [Hr Hz]. destruct (Nat.eq_dec j i) as [->|Hne].
        -- rewrite Nat.sub_diag in Hz. cbn in Hz. congruence.
        -- split; [lia|]. rewrite <- Hshift by lia. exact Hz.
    + split.
      * rewrite Nat.sub_diag. cbn [nth]. f_equal. exact Hmap.
      * intros j. cbn [In]. rewrite IH2. split.
        -- intros [<-|[Hr Hz]].
           ++ split; [lia|]. rewrite Nat.sub_diag. exact Ea.
           ++ split; [lia|]. rewrite Hshift by lia. exact Hz.
        -- intros [Hr Hz]. destruct (Nat.eq_dec j i) as [->|Hne]; [now left|].
           right. split; [lia|]. rewrite <- Hshift by lia. exact Hz.
Qed.

Theorem solvent_idx_spec d x :
  map (fun j => nth j x d) (solvent_idx x) = solvent_vals x /\
  (forall j, In j (solvent_idx x) <-> j < length x /\ isz (nth j x d) = false).
Proof.
  destruct (solvent_idx_from_spec d 0 x) as [H1 H2]. split.
  - rewrite <- H1. apply map_ext. intros j. now rewrite Nat.sub_0_r.
  - intros j. unfold solvent_idx. rewrite H2. rewrite Nat.sub_0_r. split; intros [Ha Hb]; (split; [lia|exact Hb]).
Qed.

(** the result filter  [h.into_iter().zip(molefracs).filter_map(|(h, &x)| (x == 0.0).then_some(h))] *)
Definition select_solutes {B : Type} (h : list B) (x : list A) : list B :=
  map fst (filter (fun p => isz (snd p)) (combine h x)).

(** ** Labelled components: everything is a [map]/[filter] over the list of (label, mole fraction) *)
Context {L : Type}.
Definition is_solute (c : L * A) : bool := isz (snd c).
Definition solvents (cs : list (L * A)) : list (L * A) := filter (fun c => negb (is_solute c)) cs.

(** if the bubble-point solver returns, for the solvent listed in ANY order, the value [yv l] for the component labelled l, then the
    full-length vapour composition built by the code is  x_i for the solutes (zero) and yv(label_i) for the solvents — whatever the order *)
Theorem writeback_by_label (yv : L -> A) (cs : list (L * A)) :
  scatter (map snd cs) (solvent_idx (map snd cs)) (map (fun c => yv (fst c)) (solvents cs))
  = map (fun c => if is_solute c then snd c else yv (fst c)) cs.
Proof.
  rewrite scatter_merge. unfold solvents, is_solute.
  induction cs as [|c cs IH]; cbn [map merge filter]; [reflexivity|].
  destruct (isz (snd c)) eqn:Ec; cbn [negb map]; now rewrite IH.
Qed.

(** the solvent sub-model is built from the labels of the solvents, in the order in which they are listed *)
Theorem solvent_labels_by_label (d : L * A) (cs : list (L * A)) :
  map (fun j => fst (nth j cs d)) (solvent_idx (map snd cs)) = map fst (solvents cs).
Proof.
  unfold solvents, is_solute, solvent_idx.
  assert (G : forall i, map (fun j => fst (nth (j - i) cs d)) (solvent_idx_from i (map snd cs))
                        = map fst (filter (fun c => negb (isz (snd c))) cs)).
  { induction cs as [|c cs IH]; intros i; cbn [map solvent_idx_from filter]; [reflexivity|].
    assert (Hs : map (fun j => fst (nth (j - i) (c :: cs) d)) (solvent_idx_from (S i) (map snd cs))
                 = map fst (filter (fun c0 => negb (isz (snd c0))) cs)).
    { rewrite <- (IH (S i)). apply map_ext_in. intros j Hj.
      destruct (solvent_idx_from_spec (snd d) (S i) (map snd cs)) as [_ H2]. apply H2 in Hj.
      replace (j - i) with (S (j - S i)) by lia. reflexivity. }
    destruct (isz (snd c)); cbn [negb map]; [exact Hs|].
    rewrite Nat.sub_diag. cbn [nth]. f_equal. exact Hs. }
  rewrite <- (G 0). apply map_ext. intros j. now rewrite Nat.sub_0_r.
Qed.

(** the returned Henry constants are those of the solutes, in the order in which the solutes are listed *)
Theorem select_by_label {B : Type} (hv : L -> B) (cs : list (L * A)) :
  select_solutes (map (fun c => hv (fst c)) cs) (map snd cs) = map (fun c => hv (fst c)) (filter is_solute cs).
Proof.
  unfold select_solutes, is_solute.
  induction cs as [|c cs IH]; cbn [map combine filter]; [reflexivity|].
  cbn [snd]. destruct (isz (snd c)); cbn [map fst]; now rewrite IH.
Qed.

(** consequence: relabelling invariance.  For two listings of the same labelled components the written-back vapour compositions and the
    selected results are permutations of each other that pair equal labels with equal values. *)
Corollary writeback_permutation (yv : L -> A) (cs cs' : list (L * A)) :
  Permutation cs cs' ->
  Permutation
    (combine (map fst cs) (scatter (map snd cs) (solvent_idx (map snd cs)) (map (fun c => yv (fst c)) (solvents cs))))
    (combine (map fst cs') (scatter (map snd cs') (solvent_idx (map snd cs')) (map (fun c => yv (fst c)) (solvents cs')))).
Proof.
  intros HP. rewrite !writeback_by_label.
  assert (E : forall l : list (L * A), combine (map fst l) (map (fun c => if is_solute c then snd c else yv (fst c)) l)
                                     = map (fun c => (fst c, if is_solute c then snd c else yv (fst c))) l).
  { induction l as [|c l IH]; cbn; [reflexivity|]. now rewrite IH. }
  rewrite !E. apply Permutation_map. exact HP.
Qed.
End Henry.

(** ** Non-vacuity and the defect the model excludes *)
Example writeback_example :
  scatter [0; 4; 6] (solvent_idx (Nat.eqb 0) [0; 4; 6]) [17; 19] = [0; 17; 19].
Proof. reflexivity. Qed.

(** writing the solvent vapour composition back BY POSITION (the k-th value into slot k) is a different function as soon as a solute
    precedes a solvent *)
Definition scatter_by_position (x ys : list nat) : list nat := scatter x (seq 0 (length ys)) ys.
Example positional_writeback_differs :
  scatter_by_position [0; 4; 6] [17; 19] <> scatter [0; 4; 6] (solvent_idx (Nat.eqb 0) [0; 4; 6]) [17; 19].
Proof. cbv. discriminate. Qed.
