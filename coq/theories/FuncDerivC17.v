(** C17, part 2 (route H): the assembled functional derivative is the gradient of the discretised functional.

    Model of [HelmholtzEnergyFunctional::functional_derivative] (feos-dft/src/functional.rs) over the reals with finite sums:
      - the density has [J] degrees of freedom (segments x grid points, flattened), degree [j] carries the integration
        weight [wj j] of its grid point; the grid has [G] points with weights [w k];
      - contribution [c < C] has [A c] weighted densities, [W c rho a k] is weighted density [a] at grid point [k]
        ([Convolver::weighted_densities], linear in [rho]), [phi c n] its Helmholtz energy density as a function of the
        weighted densities at one grid point and [dphi c n a] the partial derivative the code obtains with dual numbers
        (part 1: [C17_partial_derivative] for the regenerated programs);
      - [B c psi j] is the back-convolution of the partial-derivative profiles of contribution [c]
        ([Convolver::functional_derivative]; the code sums the contributions in Fourier space and transforms back once —
        by linearity the sum of the back-convolutions, which is what [grad] writes down);
      - F rho = sum_k w_k sum_c phi_c((W_c rho)(.,k))  is the discretised functional (the integrated energy density that
        [functional_derivative] returns next to the derivative).
    Under adjointness of [W c] and [B c] with respect to the grid weights the returned profile is the gradient of [F];
    the operator [B (H (W delta))] of the Newton solver ([delta_functional_derivative]) is the derivative of the functional
    derivative.  Adjointness itself (FFT / curvilinear convolvers) is numerical: hypothesis [H_adj], supported by a search on
    the real convolvers; [adjoint_of_matrix_identity] reduces it to the entry-wise identity the harness checks. *)
From Coq Require Import Reals List Lra Lia.
From Coquelicot Require Import Coquelicot.
Import ListNotations.
Local Open Scope R_scope.

(** finite sums  sum_{i<n} f i *)
Fixpoint sumn (n : nat) (f : nat -> R) : R :=
  match n with O => 0 | S m => sumn m f + f m end.

Lemma sumn_ext n f g : (forall i, (i < n)%nat -> f i = g i) -> sumn n f = sumn n g.
Proof.
  induction n as [|n IH]; intros H; simpl; [reflexivity|].
  rewrite IH, H; auto.
Qed.

Lemma sumn_plus n f g : sumn n (fun i => f i + g i) = sumn n f + sumn n g.
Proof. induction n as [|n IH]; simpl; [lra | rewrite IH; lra]. Qed.

Lemma sumn_scal n c f : sumn n (fun i => c * f i) = c * sumn n f.
Proof. induction n as [|n IH]; simpl; [lra | rewrite IH; lra]. Qed.

Lemma sumn_zero n f : (forall i, (i < n)%nat -> f i = 0) -> sumn n f = 0.
Proof.
  induction n as [|n IH]; intros H; simpl; [reflexivity|].
  rewrite IH, H; auto; lra.
Qed.

Lemma sumn_swap n m (a : nat -> nat -> R) :
  sumn n (fun i => sumn m (fun j => a i j)) = sumn m (fun j => sumn n (fun i => a i j)).
Proof.
  induction n as [|n IH]; simpl.
  - symmetry; apply sumn_zero; reflexivity.
  - rewrite IH, <- sumn_plus. reflexivity.
Qed.

Lemma is_derive_sumn n (f : nat -> R -> R) (d : nat -> R) x :
  (forall i, (i < n)%nat -> is_derive (f i) x (d i)) ->
  is_derive (fun t => sumn n (fun i => f i t)) x (sumn n d).
Proof.
  induction n as [|n IH]; intros H; simpl.
  - apply @is_derive_const.
  - apply @is_derive_plus; [apply IH; intros; apply H; lia | apply H; lia].
Qed.

Lemma is_derive_Rscal (f : R -> R) x c d : is_derive f x d -> is_derive (fun t => c * f t) x (c * d).
Proof.
  intros H.
  apply (is_derive_ext (fun t => scal c (f t))); [intros; reflexivity|].
  apply (is_derive_scal f x c d H).
Qed.

Section Functional.
  Variables (G J C : nat) (A : nat -> nat).
  Variables (w wj : nat -> R).
  Variable W : nat -> (nat -> R) -> nat -> nat -> R.
  Variable B : nat -> (nat -> nat -> R) -> nat -> R.
  Variable phi : nat -> (nat -> R) -> R.
  Variable dphi : nat -> (nat -> R) -> nat -> R.

  (** [weighted_densities] is linear in the density *)
  Hypothesis W_linear : forall c rho delta t a k,
    W c (fun j => rho j + t * delta j) a k = W c rho a k + t * W c delta a k.
  (** phi_c only looks at its own [A c] weighted densities *)
  Hypothesis phi_ext : forall c n n', (forall a, (a < A c)%nat -> n a = n' a) -> phi c n = phi c n'.
  (** phi_c is differentiable along every line and the derivative is the contraction of the partial derivatives with the
      direction (what part 1 proves for unit directions; the contraction = linearity of the tangent in its seed) *)
  Hypothesis phi_diff : forall c n m, (c < C)%nat ->
    is_derive (fun t => phi c (fun a => n a + t * m a)) 0 (sumn (A c) (fun a => dphi c n a * m a)).

  (** the discretised functional: integrated Helmholtz energy density *)
  Definition F (rho : nat -> R) : R :=
    sumn G (fun k => w k * sumn C (fun c => phi c (fun a => W c rho a k))).

  (** partial-derivative profiles and the assembled functional derivative, as [functional_derivative] builds them *)
  Definition psi (c : nat) (rho : nat -> R) : nat -> nat -> R := fun a k => dphi c (fun a' => W c rho a' k) a.
  Definition grad (rho : nat -> R) (j : nat) : R := sumn C (fun c => B c (psi c rho) j).

  (** adjointness of [W c] and [B c] against the perturbation [delta], weighted with the integration weights *)
  Definition adjoint_on (delta : nat -> R) : Prop :=
    forall c (ps : nat -> nat -> R), (c < C)%nat ->
      sumn G (fun k => w k * sumn (A c) (fun a => ps a k * W c delta a k)) =
      sumn J (fun j => wj j * delta j * B c ps j).

  Lemma F_line rho delta t :
    F (fun j => rho j + t * delta j) =
    sumn G (fun k => w k * sumn C (fun c => phi c (fun a => W c rho a k + t * W c delta a k))).
  Proof.
    unfold F. apply sumn_ext; intros k _. f_equal. apply sumn_ext; intros c _.
    apply phi_ext; intros a _. apply W_linear.
  Qed.

  (** chain rule along a line: the first variation of the discretised functional *)
  Lemma first_variation rho delta :
    is_derive (fun t => F (fun j => rho j + t * delta j)) 0
      (sumn G (fun k => w k * sumn C (fun c => sumn (A c) (fun a => psi c rho a k * W c delta a k)))).
  Proof.
    apply (is_derive_ext (fun t => sumn G (fun k => w k * sumn C (fun c => phi c (fun a => W c rho a k + t * W c delta a k))))).
    - intros t; symmetry; apply F_line.
    - apply is_derive_sumn; intros k _. apply is_derive_Rscal.
      apply is_derive_sumn; intros c Hc. unfold psi. apply (phi_diff c (fun a => W c rho a k) (fun a => W c delta a k) Hc).
  Qed.

  (** THE GRADIENT THEOREM: if the convolutions are adjoint against [delta], the change of the integrated energy density
      under the perturbation is the weighted inner product of [delta] with the assembled functional derivative *)
  Theorem gradient_along rho delta : adjoint_on delta ->
    is_derive (fun t => F (fun j => rho j + t * delta j)) 0 (sumn J (fun j => wj j * delta j * grad rho j)).
  Proof.
    intros Hadj.
    replace (sumn J (fun j => wj j * delta j * grad rho j))
      with (sumn G (fun k => w k * sumn C (fun c => sumn (A c) (fun a => psi c rho a k * W c delta a k)))).
    { apply first_variation. }
    transitivity (sumn C (fun c => sumn G (fun k => w k * sumn (A c) (fun a => psi c rho a k * W c delta a k)))).
    { rewrite sumn_swap. apply sumn_ext; intros k _. rewrite <- sumn_scal. reflexivity. }
    transitivity (sumn C (fun c => sumn J (fun j => wj j * delta j * B c (psi c rho) j))).
    { apply sumn_ext; intros c Hc. apply Hadj, Hc. }
    rewrite sumn_swap. apply sumn_ext; intros j _. unfold grad. rewrite <- sumn_scal. reflexivity.
  Qed.

  Corollary gradient rho : (forall delta, adjoint_on delta) ->
    forall delta, is_derive (fun t => F (fun j => rho j + t * delta j)) 0 (sumn J (fun j => wj j * delta j * grad rho j)).
  Proof. intros H delta. apply gradient_along, H. Qed.

  (** --------------------------------------------------------------------------------------------------------
      The second-derivative operator of the Newton solver / implicit derivatives ([second_partial_derivatives] +
      [delta_functional_derivative]):  delta (dF/drho) = B ( H (W delta) ),  H = d2phi/dn dn. *)
  Variable d2phi : nat -> (nat -> R) -> nat -> nat -> R.
  Variable Bm : nat -> nat -> nat -> nat -> R.
  Hypothesis B_matrix : forall c ps j, B c ps j = sumn (A c) (fun a => sumn G (fun k => Bm c j a k * ps a k)).
  Hypothesis dphi_ext : forall c n n' a, (forall b, (b < A c)%nat -> n b = n' b) -> dphi c n a = dphi c n' a.
  Hypothesis dphi_diff : forall c n m a, (c < C)%nat -> (a < A c)%nat ->
    is_derive (fun t => dphi c (fun b => n b + t * m b) a) 0 (sumn (A c) (fun b => d2phi c n a b * m b)).

  (** what [delta_functional_derivative] computes *)
  Definition delta_psi (c : nat) (rho delta : nat -> R) : nat -> nat -> R :=
    fun a k => sumn (A c) (fun b => d2phi c (fun a' => W c rho a' k) a b * W c delta b k).
  Definition delta_grad (rho delta : nat -> R) (j : nat) : R := sumn C (fun c => B c (delta_psi c rho delta) j).

  Theorem second_variation rho delta j :
    is_derive (fun t => grad (fun i => rho i + t * delta i) j) 0 (delta_grad rho delta j).
  Proof.
    unfold grad, delta_grad.
    apply is_derive_sumn; intros c Hc.
    apply (is_derive_ext (fun t => sumn (A c) (fun a => sumn G (fun k => Bm c j a k * psi c (fun i => rho i + t * delta i) a k)))).
    { intros t; symmetry; apply B_matrix. }
    rewrite B_matrix.
    apply is_derive_sumn; intros a Ha. apply is_derive_sumn; intros k _. apply is_derive_Rscal.
    unfold psi, delta_psi.
    apply (is_derive_ext (fun t => dphi c (fun a' => W c rho a' k + t * W c delta a' k) a)).
    { intros t. apply dphi_ext; intros b _. symmetry; apply W_linear. }
    apply (dphi_diff c (fun a' => W c rho a' k) (fun b => W c delta b k) a Hc Ha).
  Qed.
End Functional.

Lemma adjoint_on_unfold : forall G J C A w wj W B delta,
  adjoint_on G J C A w wj W B delta <->
  (forall c (ps : nat -> nat -> R), (c < C)%nat ->
     sumn G (fun k => w k * sumn (A c) (fun a => ps a k * W c delta a k)) = sumn J (fun j => wj j * delta j * B c ps j)).
Proof. intros. unfold adjoint_on. tauto. Qed.

(** adjointness from the entry-wise identity  w_k Wm[(a,k), j] = wj_j Bm[j, (a,k)]  on the support of the perturbation —
    the identity the harness checks on the real Cartesian convolvers for every entry of the interior columns *)
Section MatrixAdjoint.
  Variables (G J C : nat) (A : nat -> nat) (w wj : nat -> R).
  Variable Wm : nat -> nat -> nat -> nat -> R.   (* Wm c a k j *)
  Variable Bm : nat -> nat -> nat -> nat -> R.   (* Bm c j a k *)
  Definition Wmat c (rho : nat -> R) a k := sumn J (fun j => Wm c a k j * rho j).
  Definition Bmat c (ps : nat -> nat -> R) j := sumn (A c) (fun a => sumn G (fun k => Bm c j a k * ps a k)).

  Lemma Wmat_linear c rho delta t a k :
    Wmat c (fun j => rho j + t * delta j) a k = Wmat c rho a k + t * Wmat c delta a k.
  Proof. unfold Wmat. rewrite <- sumn_scal, <- sumn_plus. apply sumn_ext; intros; ring. Qed.

  Theorem adjoint_of_matrix_identity (delta : nat -> R) :
    (forall c a k j, (c < C)%nat -> (a < A c)%nat -> (k < G)%nat -> (j < J)%nat -> delta j <> 0 ->
       w k * Wm c a k j = wj j * Bm c j a k) ->
    adjoint_on G J C A w wj Wmat Bmat delta.
  Proof.
    intros Hid c ps Hc. unfold Wmat, Bmat.
    transitivity (sumn G (fun k => sumn (A c) (fun a => sumn J (fun j => w k * ps a k * Wm c a k j * delta j)))).
    { apply sumn_ext; intros k _. rewrite <- sumn_scal. apply sumn_ext; intros a _.
      rewrite <- !sumn_scal. apply sumn_ext; intros j _. ring. }
    transitivity (sumn J (fun j => sumn (A c) (fun a => sumn G (fun k => wj j * delta j * Bm c j a k * ps a k)))).
    2:{ apply sumn_ext; intros j _. rewrite <- sumn_scal. apply sumn_ext; intros a _.
        rewrite <- sumn_scal. apply sumn_ext; intros k _. ring. }
    transitivity (sumn G (fun k => sumn J (fun j => sumn (A c) (fun a => w k * ps a k * Wm c a k j * delta j)))).
    { apply sumn_ext; intros k _. apply sumn_swap. }
    rewrite sumn_swap. apply sumn_ext; intros j Hj.
    rewrite sumn_swap. apply sumn_ext; intros a Ha. apply sumn_ext; intros k Hk.
    destruct (Req_dec (delta j) 0) as [Hz | Hnz].
    - rewrite Hz; ring.
    - transitivity (ps a k * delta j * (w k * Wm c a k j)); [ring|].
      rewrite (Hid c a k j Hc Ha Hk Hj Hnz). ring.
  Qed.
End MatrixAdjoint.

(** non-vacuity: one grid point, one contribution with one weighted density n = 2 rho, phi(n) = n^2, w = 1/2:
    F(rho) = 2 rho^2, the back-convolution is the same factor 2, and the assembled derivative at rho = 3 is
    (in the weighted inner product  wj * delta * grad) the derivative of F: 4 rho delta = 12 delta. *)
Definition ex_A : nat -> nat := fun _ => 1%nat.
Definition ex_w : nat -> R := fun _ => / 2.
Definition ex_W : nat -> (nat -> R) -> nat -> nat -> R := fun _ rho _ _ => 2 * rho 0%nat.
Definition ex_B : nat -> (nat -> nat -> R) -> nat -> R := fun _ ps _ => 2 * ps 0%nat 0%nat.
Definition ex_phi : nat -> (nat -> R) -> R := fun _ n => n 0%nat * n 0%nat.
Definition ex_dphi : nat -> (nat -> R) -> nat -> R := fun _ n _ => 2 * n 0%nat.

Example gradient_instance (delta : R) :
  is_derive (fun t => F 1 1 ex_w ex_W ex_phi (fun _ => 3 + t * delta)) 0
            (sumn 1 (fun j => ex_w j * delta * grad 1 ex_W ex_B ex_dphi (fun _ => 3) j)).
Proof.
  apply (gradient_along 1 1 1 ex_A ex_w ex_w ex_W ex_B ex_phi ex_dphi).
  - intros; unfold ex_W; ring.
  - intros c n n' H. unfold ex_phi. rewrite (H 0%nat); [reflexivity | unfold ex_A; lia].
  - intros c n m _. unfold ex_phi, ex_dphi, ex_A. simpl. auto_derive; [exact I | ring].
  - intros c ps _. unfold ex_A, ex_w, ex_W, ex_B. simpl. ring.
Qed.

(** the value of that derivative: 4 * 3 * delta / ... spelled out: wj * delta * B(dphi(W rho)) = 1/2 * delta * 2 * (2 * 6) *)
Example gradient_instance_value (delta : R) :
  sumn 1 (fun j => ex_w j * delta * grad 1 ex_W ex_B ex_dphi (fun _ => 3) j) = 12 * delta.
Proof. unfold grad, psi, ex_w, ex_W, ex_B, ex_dphi. simpl. field. Qed.
