(** C04 — pure-component vapor-liquid equilibria of feos-core
    (phase_equilibria/vle_pure.rs, phase_diagram_pure.rs, mod.rs), route H.

    Everything is in reduced units (RGAS = 1, so [RGAS * T] is [kt]).  At a fixed temperature a pure model is a
    residual molar Helmholtz energy [ares rho] (smooth in the density); the total one adds the ideal-gas part
    [kt (ln rho - 1)] (the de Broglie term is common to both phases and cancels everywhere below).

      f(rho)  = rho * atot rho                 Helmholtz energy density
      MU rho  = d f / d rho                    chemical potential            ([MU_is_df_drho])
      P rho   = rho * MU rho - f rho           pressure                      ([P_legendre]),  = rho^2 * d atot / d rho
      MU rho  = atot rho + P rho / rho         molar Gibbs energy            ([MU_gibbs])

    The solver steps are modelled on the *numbers* the code reads from its two [State]s (record [sv]: density,
    pressure, dp/drho, residual molar Helmholtz energy; for the p-specified variant also dp/dT and the residual
    molar entropy), exactly as coded:

      [pt_*]   one pass of the loop body of [iterate_pure_t]  (pressure estimate from the equal-area condition,
               ideal-gas fallback for a negative estimate, the inner <= 20-step Newton iteration on its objective,
               Newton steps of both densities, the acceptance test);
      [pp_*]   one pass of the loop body of [pure_p];
      [from_states], [pure_t_cascade], [diagram] : the ordering of the phases, the start cascade of [pure_t] and the
               assembly of [PhaseDiagram::pure] as executable list functions. *)
From Coq Require Import Reals List Lra Lia ZArith QArith Qround Psatz.
From Interval Require Import Tactic.
From FeosVerif Require Import ProgSem.
Import ListNotations.
Open Scope R_scope.

(** * 1. Thermodynamics of a pure fluid at fixed temperature *)
Section Thermo.
  Variable kt : R.
  Variables ares dares : R -> R.
  Hypothesis dares_ok : forall r, 0 < r -> derivable_pt_lim ares r (dares r).

  Definition atot (r : R) : R := ares r + kt * (ln r - 1).
  Definition datot (r : R) : R := dares r + kt / r.
  Definition P (r : R) : R := r * r * datot r.
  Definition MU (r : R) : R := atot r + r * datot r.

  Lemma atot_deriv r : 0 < r -> derivable_pt_lim atot r (datot r).
  Proof.
    intros Hr. unfold atot, datot.
    apply derivable_pt_lim_plus; [apply dares_ok; exact Hr|].
    replace (kt / r) with (kt * (/ r - 0)) by (field; lra).
    apply derivable_pt_lim_scal. apply derivable_pt_lim_minus; [apply derivable_pt_lim_ln; exact Hr|apply derivable_pt_lim_const].
  Qed.

  (** the chemical potential is the density derivative of the Helmholtz energy density *)
  Lemma MU_is_df_drho r : 0 < r -> derivable_pt_lim (fun x => x * atot x) r (MU r).
  Proof.
    intros Hr. unfold MU.
    replace (atot r + r * datot r) with (1 * atot r + r * datot r) by ring.
    apply (derivable_pt_lim_mult (fun x => x) atot); [apply derivable_pt_lim_id|apply atot_deriv; exact Hr].
  Qed.

  Lemma P_legendre r : P r = r * MU r - r * atot r.
  Proof. unfold P, MU. ring. Qed.

  Lemma MU_gibbs r : 0 < r -> MU r = atot r + P r / r.
  Proof. intros Hr. unfold MU, P. field. lra. Qed.

  (** ideal + residual split of the pressure, as feos evaluates it *)
  Lemma P_split r : 0 < r -> P r = kt * r + r * r * dares r.
  Proof. intros Hr. unfold P, datot. field. lra. Qed.

  (** difference of the chemical potentials of two phases = "equal-area" expression *)
  Lemma MU_diff rv rl : 0 < rv -> 0 < rl ->
    MU rv - MU rl = (ares rv - ares rl + kt * ln (rv / rl)) + P rv / rv - P rl / rl.
  Proof.
    intros Hv Hl. rewrite (MU_gibbs rv Hv), (MU_gibbs rl Hl). unfold atot.
    assert (E : ln (rv / rl) = ln rv - ln rl).
    { unfold Rdiv. rewrite ln_mult; [|lra|apply Rinv_0_lt_compat; lra]. rewrite ln_Rinv by lra. ring. }
    rewrite E. ring.
  Qed.
End Thermo.

(** * 2. What the solver reads from a state *)
Record sv := mkSv { s_rho : R; s_p : R; s_prho : R; s_ares : R }.

(** the numbers are the model's: pressure and residual Helmholtz energy at the density (dp/drho enters only as the
    slope of the Newton step; the theorems need it non-zero, the Taylor bound needs it to be the derivative) *)
Definition consistent (kt : R) (ares dares : R -> R) (s : sv) : Prop :=
  0 < s_rho s /\ s_p s = P kt dares (s_rho s) /\ s_ares s = ares (s_rho s).

(** * 3. The step of [iterate_pure_t] *)
Section PureT.
  Variable kt : R.
  Variable tol : R.

  Definition dv (v l : sv) : R := 1 / s_rho v - 1 / s_rho l.
  Definition da (v l : sv) : R := s_ares v - s_ares l + kt * ln (s_rho v / s_rho l).
  (** [-delta_a / delta_v] *)
  Definition p_est0 (v l : sv) : R := - da v l / dv v l.
  (** ideal-gas estimate used when the first one is negative: [p_v exp((-delta_a - p_v V_v/N_v)/kT)] *)
  Definition p_est_ig (v l : sv) : R := s_p v * exp ((- da v l - s_p v * (1 / s_rho v)) / kt).
  Definition p_est (v l : sv) : R := if Rlt_dec (p_est0 v l) 0 then p_est_ig v l else p_est0 v l.

  Section Inner.
    Variables dV dA pold : R.
    (** objective and derivative of the inner Newton iteration *)
    Definition fobj (p : R) : R := p * dV + dA + (ln (p / pold) + 1 - p / pold) * kt.
    Definition dfobj (p : R) : R := dV + (1 / p - 1 / pold) * kt.
    Definition nstep (p : R) : R := p - fobj p / dfobj p.
    Definition ntol : R := pold * dV * tol.
    (** [for _ in 0..n { f = ..; p_new -= f/df; if |f| < newton_tol { break } }] *)
    Fixpoint inner (n : nat) (p : R) : R :=
      match n with
      | O => p
      | S n' => if Rlt_dec (Rabs (fobj p)) ntol then nstep p else inner n' (nstep p)
      end.

    Lemma inner_break n p : Rabs (fobj p) < ntol -> inner (S n) p = nstep p.
    Proof. intros H. cbn. destruct (Rlt_dec (Rabs (fobj p)) ntol); [reflexivity|contradiction]. Qed.
    Lemma inner_cont n p : ntol <= Rabs (fobj p) -> inner (S n) p = inner n (nstep p).
    Proof. intros H. cbn. destruct (Rlt_dec (Rabs (fobj p)) ntol); [lra|reflexivity]. Qed.

    (** the loop either stopped on its test (at some iterate [pk]) or used up its budget *)
    Lemma inner_cases n p :
      (exists pk, inner n p = nstep pk /\ Rabs (fobj pk) < ntol) \/ inner n p = Nat.iter n nstep p.
    Proof.
      revert p. induction n as [|n IH]; intros p; [right; reflexivity|].
      cbn [inner]. destruct (Rlt_dec (Rabs (fobj p)) ntol) as [H|H].
      - left. exists p. split; [reflexivity|exact H].
      - destruct (IH (nstep p)) as [[pk [E1 E2]]|E].
        + left. exists pk. split; assumption.
        + right. rewrite E. clear. revert p. induction n as [|n IHn]; intros p; [reflexivity|].
          cbn [Nat.iter nat_rect]. change (nat_rect (fun _ => R) (nstep p) (fun _ => nstep) n) with (Nat.iter n nstep (nstep p)).
          rewrite IHn. reflexivity.
    Qed.
  End Inner.

  (** the new pressure and the new densities of one pass *)
  Definition pt_pnew (v l : sv) (pold : R) : R := inner (dv v l) (da v l) pold 20 (p_est v l).
  Definition newton_rho (s : sv) (pn : R) : R := s_rho s + (pn - s_p s) / s_prho s.
  (** [if res < p_old * tol] *)
  Definition pt_accept (pn pold : R) : Prop := Rabs (pn - pold) < pold * tol.

  (** ** fixed point *)
  Variables ares dares : R -> R.

  Theorem pure_t_fixed_point (v l : sv) (pold : R) :
    consistent kt ares dares v -> consistent kt ares dares l ->
    0 < pold -> s_prho v <> 0 -> s_prho l <> 0 ->
    let pn := pt_pnew v l pold in
    pn = pold ->                                   (* the pressure estimate is reproduced *)
    newton_rho v pn = s_rho v ->                   (* both densities are reproduced *)
    newton_rho l pn = s_rho l ->
    fobj (dv v l) (da v l) pold pn = 0 ->          (* zero inner residual *)
    P kt dares (s_rho v) = pold /\ P kt dares (s_rho l) = pold /\
    MU kt ares dares (s_rho v) = MU kt ares dares (s_rho l).
  Proof.
    intros [Hrv [Hpv Hav]] [Hrl [Hpl Hal]] Hp Hsv Hsl pn Epn Ev El Hf.
    assert (Epv : s_p v = pold).
    { unfold newton_rho in Ev. rewrite Epn in Ev.
      assert ((pold - s_p v) / s_prho v = 0) as H0 by lra.
      unfold Rdiv in H0. apply Rmult_integral in H0. destruct H0 as [H0|H0]; [lra|].
      exfalso. apply (Rinv_neq_0_compat _ Hsv). exact H0. }
    assert (Epl : s_p l = pold).
    { unfold newton_rho in El. rewrite Epn in El.
      assert ((pold - s_p l) / s_prho l = 0) as H0 by lra.
      unfold Rdiv in H0. apply Rmult_integral in H0. destruct H0 as [H0|H0]; [lra|].
      exfalso. apply (Rinv_neq_0_compat _ Hsl). exact H0. }
    split; [rewrite <- Hpv; exact Epv|]. split; [rewrite <- Hpl; exact Epl|].
    assert (Hd : MU kt ares dares (s_rho v) - MU kt ares dares (s_rho l) = 0); [|lra].
    rewrite (MU_diff kt ares dares (s_rho v) (s_rho l) Hrv Hrl). rewrite <- Hpv, <- Hpl, Epv, Epl, <- Hav, <- Hal.
    unfold fobj in Hf. rewrite Epn in Hf.
    replace (pold / pold) with 1 in Hf by (field; lra). rewrite ln_1 in Hf.
    unfold dv, da in Hf. lra.
  Qed.

  (** ** what the acceptance test gives *)
  (** ln x + 1 - x  lies in [-(x-1)^2/x, 0] *)
  Lemma phi_bound x : 0 < x -> Rabs (ln x + 1 - x) <= (x - 1) * (x - 1) / x.
  Proof.
    intros Hx.
    assert (H1 : ln x <= x - 1).
    { destruct (Req_dec x 1) as [->|Hne]; [rewrite ln_1; lra|].
      pose proof (exp_ineq1 (x - 1) ltac:(lra)) as H. replace (1 + (x - 1)) with x in H by ring.
      apply ln_increasing in H; [|exact Hx]. rewrite ln_exp in H. lra. }
    assert (H2 : 1 - / x <= ln x).
    { assert (0 < / x) by (apply Rinv_0_lt_compat; exact Hx).
      destruct (Req_dec (/ x) 1) as [E|Hne].
      - assert (x = 1) by (rewrite <- (Rinv_inv x), E; lra). subst. rewrite ln_1. lra.
      - pose proof (exp_ineq1 (/ x - 1) ltac:(lra)) as H'. replace (1 + (/ x - 1)) with (/ x) in H' by ring.
        apply ln_increasing in H'; [|assumption]. rewrite ln_exp, ln_Rinv in H' by exact Hx. lra. }
    rewrite Rabs_left1 by lra.
    replace ((x - 1) * (x - 1) / x) with (x - 2 + / x) by (field; lra). lra.
  Qed.

  (** The tested iterate: if the inner loop stopped on its test at [pk] (so [pn = nstep pk]) and the outer test
      accepts, then the chemical potentials of the two phases differ by at most

         pold*dV*tol  +  kt (pk-pold)^2/(pk pold)  +  (ev + d)/rho_v  +  (el + d)/rho_l,     d = pold tol (1 + 1/c)

      where [ev], [el] bound the distance of the phase pressures from [pold] (0 and |p_l - p_v| in the first pass,
      second order in the previous step afterwards) and [c] is a lower bound of |f'(pk)|/dV
      (c = 1 whenever pk <= pold; f' = dV + kt (1/pk - 1/pold)). *)
  Theorem pure_t_accept (v l : sv) (pold pk ev el c : R) :
    consistent kt ares dares v -> consistent kt ares dares l ->
    0 < kt -> 0 < pold -> 0 < pk -> 0 < tol -> 0 < c -> 0 < dv v l ->
    let dV := dv v l in let dA := da v l in
    let pn := nstep dV dA pold pk in
    Rabs (fobj dV dA pold pk) < ntol dV pold ->           (* inner test passed at pk *)
    c * dV <= Rabs (dfobj dV pold pk) ->
    pt_accept pn pold ->                                  (* outer test passed *)
    Rabs (P kt dares (s_rho v) - pold) <= ev ->
    Rabs (P kt dares (s_rho l) - pold) <= el ->
    let d := pold * tol * (1 + / c) in
    Rabs (pk - pold) <= d /\
    Rabs (P kt dares (s_rho v) - P kt dares (s_rho l)) <= ev + el /\
    Rabs (MU kt ares dares (s_rho v) - MU kt ares dares (s_rho l))
      <= pold * dV * tol + kt * ((pk - pold) * (pk - pold) / (pk * pold))
         + (ev + d) / s_rho v + (el + d) / s_rho l.
  Proof.
    intros [Hrv [Hpv Hav]] [Hrl [Hpl Hal]] Hkt Hp Hk Htol Hc HdV dV dA pn Hf Hdf Hacc Hev Hel d.
    assert (Hdf0 : dfobj dV pold pk <> 0).
    { intros E. rewrite E, Rabs_R0 in Hdf. assert (0 < c * dV) by (apply Rmult_lt_0_compat; [exact Hc|exact HdV]). lra. }
    (* |pn - pk| = |f/df| <= pold tol / c *)
    assert (Hstep : Rabs (pn - pk) <= pold * tol / c).
    { unfold pn, nstep. replace (pk - fobj dV dA pold pk / dfobj dV pold pk - pk) with (- (fobj dV dA pold pk / dfobj dV pold pk)) by ring.
      rewrite Rabs_Ropp. unfold Rdiv at 1. rewrite Rabs_mult, Rabs_inv.
      assert (0 < Rabs (dfobj dV pold pk)) by (apply Rabs_pos_lt; exact Hdf0).
      apply Rmult_le_reg_r with (Rabs (dfobj dV pold pk)); [assumption|].
      rewrite Rmult_assoc, Rinv_l by lra. rewrite Rmult_1_r.
      unfold ntol in Hf.
      apply Rle_trans with (pold * dV * tol); [lra|].
      apply Rle_trans with (pold * tol / c * (c * dV)); [right; field; lra|].
      apply Rmult_le_compat_l; [|exact Hdf]. apply Rlt_le. apply Rdiv_lt_0_compat; nra. }
    assert (Hd : Rabs (pk - pold) <= d).
    { replace (pk - pold) with ((pn - pold) - (pn - pk)) by ring.
      eapply Rle_trans; [apply Rabs_triang|]. rewrite Rabs_Ropp. unfold pt_accept in Hacc.
      unfold d. replace (pold * tol * (1 + / c)) with (pold * tol + pold * tol / c) by (field; lra). lra. }
    split; [exact Hd|]. split.
    { replace (P kt dares (s_rho v) - P kt dares (s_rho l)) with ((P kt dares (s_rho v) - pold) - (P kt dares (s_rho l) - pold)) by ring.
      eapply Rle_trans; [apply Rabs_triang|]. rewrite Rabs_Ropp. lra. }
    (* the exact identity *)
    rewrite (MU_diff kt ares dares (s_rho v) (s_rho l) Hrv Hrl).
    set (Pv := P kt dares (s_rho v)) in *. set (Pl := P kt dares (s_rho l)) in *.
    set (phi := ln (pk / pold) + 1 - pk / pold).
    assert (Eid : ares (s_rho v) - ares (s_rho l) + kt * ln (s_rho v / s_rho l) + Pv / s_rho v - Pl / s_rho l
                  = fobj dV dA pold pk - phi * kt + (Pv - pk) / s_rho v - (Pl - pk) / s_rho l).
    { unfold fobj, phi, dV, dA, dv, da. rewrite Hav, Hal. field. lra. }
    rewrite Eid.
    assert (Hphi' : Rabs (phi * kt) <= kt * ((pk - pold) * (pk - pold) / (pk * pold))).
    { assert (Hx : 0 < pk / pold) by (apply Rdiv_lt_0_compat; lra).
      pose proof (phi_bound (pk / pold) Hx) as Hb. fold phi in Hb.
      rewrite Rabs_mult, (Rabs_pos_eq kt) by lra.
      replace (kt * ((pk - pold) * (pk - pold) / (pk * pold)))
        with (((pk / pold - 1) * (pk / pold - 1) / (pk / pold)) * kt) by (field; lra).
      apply Rmult_le_compat_r; [lra|exact Hb]. }
    assert (Hpv' : Rabs ((Pv - pk) / s_rho v) <= (ev + d) / s_rho v).
    { unfold Rdiv. rewrite Rabs_mult, (Rabs_pos_eq (/ s_rho v)) by (left; apply Rinv_0_lt_compat; lra).
      apply Rmult_le_compat_r; [left; apply Rinv_0_lt_compat; lra|].
      replace (Pv - pk) with ((Pv - pold) - (pk - pold)) by ring.
      eapply Rle_trans; [apply Rabs_triang|]. rewrite Rabs_Ropp. lra. }
    assert (Hpl' : Rabs ((Pl - pk) / s_rho l) <= (el + d) / s_rho l).
    { unfold Rdiv. rewrite Rabs_mult, (Rabs_pos_eq (/ s_rho l)) by (left; apply Rinv_0_lt_compat; lra).
      apply Rmult_le_compat_r; [left; apply Rinv_0_lt_compat; lra|].
      replace (Pl - pk) with ((Pl - pold) - (pk - pold)) by ring.
      eapply Rle_trans; [apply Rabs_triang|]. rewrite Rabs_Ropp. lra. }
    unfold ntol in Hf. fold dV.
    replace (fobj dV dA pold pk - phi * kt + (Pv - pk) / s_rho v - (Pl - pk) / s_rho l)
      with (fobj dV dA pold pk + (- (phi * kt)) + (Pv - pk) / s_rho v + (- ((Pl - pk) / s_rho l))) by ring.
    eapply Rle_trans; [apply Rabs_triang|]. eapply Rle_trans; [apply Rplus_le_compat_r; apply Rabs_triang|].
    eapply Rle_trans; [apply Rplus_le_compat_r; apply Rplus_le_compat_r; apply Rabs_triang|].
    rewrite !Rabs_Ropp. lra.
  Qed.

  (** The returned iterate: both densities receive the Newton step towards [pn], so the *linearised* pressures of the
      returned phases are both [pn] ... *)
  Lemma newton_rho_linear (s : sv) (pn : R) : s_prho s <> 0 ->
    s_p s + s_prho s * (newton_rho s pn - s_rho s) = pn.
  Proof. intros H. unfold newton_rho. field. exact H. Qed.
End PureT.

(** ... and the true pressures differ from it by the Newton remainder: for a function [g] whose derivative [dg]
    is [L]-Lipschitz around [x],  |g(x + h) - g x - dg x * h| <= L h^2. *)
Lemma newton_remainder (g dg : R -> R) (x h L : R) :
  0 <= L ->
  (forall y, Rmin x (x + h) <= y <= Rmax x (x + h) -> derivable_pt_lim g y (dg y)) ->
  (forall y, Rmin x (x + h) <= y <= Rmax x (x + h) -> Rabs (dg y - dg x) <= L * Rabs (y - x)) ->
  Rabs (g (x + h) - g x - dg x * h) <= L * (h * h).
Proof.
  intros HL0 Hd HL.
  set (k := fun y => g y - g x - dg x * (y - x)).
  set (dk := fun y => dg y - dg x).
  assert (Hk : forall y, Rmin x (x + h) <= y <= Rmax x (x + h) -> derivable_pt_lim k y (dk y)).
  { intros y Hy. unfold k, dk.
    replace (dg y - dg x) with (dg y - 0 - dg x * (1 - 0)) by ring.
    apply derivable_pt_lim_minus; [apply derivable_pt_lim_minus; [apply Hd; exact Hy|apply derivable_pt_lim_const]|].
    apply derivable_pt_lim_scal. apply derivable_pt_lim_minus; [apply derivable_pt_lim_id|apply derivable_pt_lim_const]. }
  replace (g (x + h) - g x - dg x * h) with (k (x + h) - k x) by (unfold k; ring).
  destruct (Rtotal_order h 0) as [Hh|[->|Hh]].
  - rewrite Rmin_right, Rmax_left in * by lra.
    destruct (MVT_cor2 k dk (x + h) x ltac:(lra) Hk) as [cpt [E Hc]].
    replace (k (x + h) - k x) with (- (k x - k (x + h))) by ring. rewrite Rabs_Ropp, E, Rabs_mult.
    replace (x - (x + h)) with (- h) by ring. rewrite Rabs_Ropp.
    assert (Hb : Rabs (dk cpt) <= L * Rabs (cpt - x)) by (unfold dk; apply HL; lra).
    rewrite (Rabs_left h) by lra. rewrite (Rabs_left1 (cpt - x)) in Hb by lra.
    assert (Hb' : Rabs (dk cpt) <= L * (- h)) by (apply Rle_trans with (1 := Hb); apply Rmult_le_compat_l; lra).
    replace (L * (h * h)) with ((L * - h) * - h) by ring. apply Rmult_le_compat_r; lra.
  - rewrite Rplus_0_r. replace (k x - k x) with 0 by ring. rewrite Rabs_R0. nra.
  - rewrite Rmin_left, Rmax_right in * by lra.
    destruct (MVT_cor2 k dk x (x + h) ltac:(lra) Hk) as [cpt [E Hc]].
    rewrite E, Rabs_mult. replace (x + h - x) with h by ring.
    assert (Hb : Rabs (dk cpt) <= L * Rabs (cpt - x)) by (unfold dk; apply HL; lra).
    rewrite (Rabs_pos_eq h) by lra. rewrite (Rabs_pos_eq (cpt - x)) in Hb by lra.
    assert (Hb' : Rabs (dk cpt) <= L * h) by (apply Rle_trans with (1 := Hb); apply Rmult_le_compat_l; lra).
    replace (L * (h * h)) with ((L * h) * h) by ring. apply Rmult_le_compat_r; lra.
Qed.

Definition seg (a b y : R) : Prop := Rmin a b <= y <= Rmax a b.

(** The returned iterate of an accepted pass of [iterate_pure_t]: the pressures of the two returned phases differ by at
    most   Lv ((pold tol + ev)/|dp/drho_v|)^2 + Ll ((pold tol + el)/|dp/drho_l|)^2
    ([Lv], [Ll]: Lipschitz constants of dp/drho between the old and the new density; [ev], [el] as above). *)
Theorem pure_t_returned_pressure (Pf dP : R -> R) (v l : sv) (pn pold tol ev el Lv Ll : R) :
  0 <= Lv -> 0 <= Ll -> 0 < pold -> 0 < tol ->
  s_p v = Pf (s_rho v) -> s_p l = Pf (s_rho l) ->
  s_prho v = dP (s_rho v) -> s_prho l = dP (s_rho l) -> s_prho v <> 0 -> s_prho l <> 0 ->
  let rv' := newton_rho v pn in let rl' := newton_rho l pn in
  (forall y, seg (s_rho v) rv' y -> derivable_pt_lim Pf y (dP y) /\ Rabs (dP y - dP (s_rho v)) <= Lv * Rabs (y - s_rho v)) ->
  (forall y, seg (s_rho l) rl' y -> derivable_pt_lim Pf y (dP y) /\ Rabs (dP y - dP (s_rho l)) <= Ll * Rabs (y - s_rho l)) ->
  pt_accept tol pn pold ->
  Rabs (s_p v - pold) <= ev -> Rabs (s_p l - pold) <= el ->
  Rabs (Pf rv' - pn) <= Lv * (((pold * tol + ev) / Rabs (s_prho v)) * ((pold * tol + ev) / Rabs (s_prho v))) /\
  Rabs (Pf rl' - pn) <= Ll * (((pold * tol + el) / Rabs (s_prho l)) * ((pold * tol + el) / Rabs (s_prho l))) /\
  Rabs (Pf rv' - Pf rl') <= Lv * (((pold * tol + ev) / Rabs (s_prho v)) * ((pold * tol + ev) / Rabs (s_prho v)))
                            + Ll * (((pold * tol + el) / Rabs (s_prho l)) * ((pold * tol + el) / Rabs (s_prho l))).
Proof.
  intros HLv HLl Hp Htol Epv Epl Edv Edl Hnv Hnl rv' rl' Hsv Hsl Hacc Hev Hel.
  assert (one : forall (s : sv) (e L : R), 0 <= L -> s_p s = Pf (s_rho s) -> s_prho s = dP (s_rho s) -> s_prho s <> 0 ->
            (forall y, seg (s_rho s) (newton_rho s pn) y -> derivable_pt_lim Pf y (dP y) /\ Rabs (dP y - dP (s_rho s)) <= L * Rabs (y - s_rho s)) ->
            Rabs (s_p s - pold) <= e ->
            Rabs (Pf (newton_rho s pn) - pn) <= L * (((pold * tol + e) / Rabs (s_prho s)) * ((pold * tol + e) / Rabs (s_prho s)))).
  { intros s e L HL Ep Ed Hn Hs He.
    set (h := (pn - s_p s) / s_prho s).
    assert (Er : newton_rho s pn = s_rho s + h) by reflexivity.
    rewrite Er in *.
    pose proof (newton_remainder Pf dP (s_rho s) h L HL (fun y Hy => proj1 (Hs y Hy)) (fun y Hy => proj2 (Hs y Hy))) as Hrem.
    replace (Pf (s_rho s + h) - pn) with (Pf (s_rho s + h) - Pf (s_rho s) - dP (s_rho s) * h)
      by (rewrite <- Ep, <- Ed; unfold h; field; exact Hn).
    eapply Rle_trans; [exact Hrem|]. apply Rmult_le_compat_l; [exact HL|].
    assert (Hh : Rabs h <= (pold * tol + e) / Rabs (s_prho s)).
    { unfold h, Rdiv. rewrite Rabs_mult, Rabs_inv. apply Rmult_le_compat_r; [left; apply Rinv_0_lt_compat; apply Rabs_pos_lt; exact Hn|].
      replace (pn - s_p s) with ((pn - pold) - (s_p s - pold)) by ring.
      eapply Rle_trans; [apply Rabs_triang|]. rewrite Rabs_Ropp. unfold pt_accept in Hacc. lra. }
    replace (h * h) with (Rabs h * Rabs h) by (unfold Rabs; destruct (Rcase_abs h); ring).
    pose proof (Rabs_pos h). apply Rmult_le_compat; lra. }
  pose proof (one v ev Lv HLv Epv Edv Hnv Hsv Hev) as Bv.
  pose proof (one l el Ll HLl Epl Edl Hnl Hsl Hel) as Bl.
  split; [exact Bv|]. split; [exact Bl|].
  replace (Pf rv' - Pf rl') with ((Pf rv' - pn) - (Pf rl' - pn)) by ring.
  eapply Rle_trans; [apply Rabs_triang|]. rewrite Rabs_Ropp. unfold rv', rl'. lra.
Qed.

(** * 4. The step of [pure_p] *)
Record svp := mkSvp { q_rho : R; q_p : R; q_prho : R; q_pt : R; q_sres : R; q_ares : R }.

Section PureP.
  Variables T pspec tol : R.

  Definition vmol (s : svp) : R := 1 / q_rho s.
  (** [ln_rho = (v_l / v_v).ln()] *)
  Definition ln_rho (v l : svp) : R := ln (vmol l / vmol v).
  Definition pp_num (v l : svp) : R := pspec * (vmol v - vmol l) + (q_ares v - q_ares l + T * ln_rho v l).
  Definition pp_den (v l : svp) : R := q_sres v - q_sres l - ln_rho v l.
  Definition pp_dT (v l : svp) : R := pp_num v l / pp_den v l.
  Definition pp_tnew (v l : svp) : R := T + pp_dT v l.
  Definition pp_rho (s : svp) (dT : R) : R := q_rho s + (pspec - q_p s - q_pt s * dT) / q_prho s.
  (** [rho_l < 0 || rho_v < 0 || |delta_t| > 1 K]  -> density iteration instead of the Newton steps *)
  Definition pp_fallback (v l : svp) : Prop :=
    pp_rho l (pp_dT v l) < 0 \/ pp_rho v (pp_dT v l) < 0 \/ Rabs (pp_dT v l) > 1.
  (** [res < vle.vapor().temperature * tol] (the vapor already carries the new temperature) *)
  Definition pp_accept (v l : svp) : Prop := Rabs (pp_dT v l) < pp_tnew v l * tol.

  Variables ares dares : R -> R.
  Definition consistent_p (s : svp) : Prop :=
    0 < q_rho s /\ q_p s = P T dares (q_rho s) /\ q_ares s = ares (q_rho s).

  (** the numerator is the difference of the molar Gibbs energies a + p_spec v of the two phases *)
  Lemma pp_num_gibbs v l : consistent_p v -> consistent_p l ->
    pp_num v l = (atot T ares (q_rho v) + pspec * vmol v) - (atot T ares (q_rho l) + pspec * vmol l).
  Proof.
    intros [Hv [_ Eav]] [Hl [_ Eal]]. unfold pp_num, ln_rho, vmol, atot. rewrite Eav, Eal.
    assert (E : ln (1 / q_rho l / (1 / q_rho v)) = ln (q_rho v) - ln (q_rho l)).
    { replace (1 / q_rho l / (1 / q_rho v)) with (q_rho v * / q_rho l) by (field; lra).
      rewrite ln_mult; [|lra|apply Rinv_0_lt_compat; lra]. rewrite ln_Rinv by lra. ring. }
    rewrite E. ring.
  Qed.

  Lemma pp_mu_diff v l : consistent_p v -> consistent_p l ->
    MU T ares dares (q_rho v) - MU T ares dares (q_rho l)
    = pp_num v l + (q_p v - pspec) / q_rho v - (q_p l - pspec) / q_rho l.
  Proof.
    intros Cv Cl. rewrite (pp_num_gibbs v l Cv Cl). destruct Cv as [Hv [Epv _]], Cl as [Hl [Epl _]].
    rewrite (MU_gibbs T ares dares _ Hv), (MU_gibbs T ares dares _ Hl), Epv, Epl. unfold vmol. field. lra.
  Qed.

  Theorem pure_p_fixed_point (v l : svp) :
    consistent_p v -> consistent_p l -> q_prho v <> 0 -> q_prho l <> 0 -> pp_den v l <> 0 ->
    pp_dT v l = 0 ->                                   (* the temperature is reproduced *)
    pp_rho v (pp_dT v l) = q_rho v -> pp_rho l (pp_dT v l) = q_rho l ->   (* both densities are reproduced *)
    P T dares (q_rho v) = pspec /\ P T dares (q_rho l) = pspec /\
    MU T ares dares (q_rho v) = MU T ares dares (q_rho l).
  Proof.
    intros Cv Cl Hnv Hnl Hden E0 Ev El.
    assert (Hnum : pp_num v l = 0).
    { unfold pp_dT in E0. unfold Rdiv in E0. apply Rmult_integral in E0. destruct E0 as [E0|E0]; [exact E0|].
      exfalso. apply (Rinv_neq_0_compat _ Hden). exact E0. }
    assert (one : forall s, q_prho s <> 0 -> pp_rho s 0 = q_rho s -> q_p s = pspec).
    { intros s Hn E. unfold pp_rho in E. assert ((pspec - q_p s - q_pt s * 0) / q_prho s = 0) as H0 by lra.
      unfold Rdiv in H0. apply Rmult_integral in H0. destruct H0 as [H0|H0]; [lra|].
      exfalso. apply (Rinv_neq_0_compat _ Hn). exact H0. }
    rewrite E0 in Ev, El. pose proof (one v Hnv Ev) as Epv. pose proof (one l Hnl El) as Epl.
    pose proof (pp_mu_diff v l Cv Cl) as Hmu. destruct Cv as [Hv [Ecv _]], Cl as [Hl [Ecl _]].
    rewrite <- Ecv, <- Ecl. split; [exact Epv|]. split; [exact Epl|].
    rewrite Hnum, Epv, Epl in Hmu. unfold Rdiv in Hmu. lra.
  Qed.

  (** acceptance: |dT| < T_new tol bounds the Gibbs-energy mismatch at the specified pressure by tol T_new |ds|, and the
      chemical potentials of the tested iterate by that plus the pressure offsets ev/rho_v + el/rho_l *)
  Theorem pure_p_accept (v l : svp) (ev el : R) :
    consistent_p v -> consistent_p l -> pp_den v l <> 0 ->
    pp_accept v l ->
    Rabs (q_p v - pspec) <= ev -> Rabs (q_p l - pspec) <= el ->
    Rabs (pp_num v l) < tol * pp_tnew v l * Rabs (pp_den v l) /\
    Rabs (MU T ares dares (q_rho v) - MU T ares dares (q_rho l))
      <= tol * pp_tnew v l * Rabs (pp_den v l) + ev / q_rho v + el / q_rho l.
  Proof.
    intros Cv Cl Hden Hacc Hev Hel.
    assert (Hn : Rabs (pp_num v l) < tol * pp_tnew v l * Rabs (pp_den v l)).
    { unfold pp_accept in Hacc. unfold pp_dT at 1 in Hacc. unfold Rdiv in Hacc. rewrite Rabs_mult, Rabs_inv in Hacc.
      assert (0 < Rabs (pp_den v l)) as Hpos by (apply Rabs_pos_lt; exact Hden).
      apply Rmult_lt_compat_r with (r := Rabs (pp_den v l)) in Hacc; [|exact Hpos].
      rewrite Rmult_assoc, Rinv_l in Hacc by lra. lra. }
    split; [exact Hn|].
    rewrite (pp_mu_diff v l Cv Cl). destruct Cv as [Hv _], Cl as [Hl _].
    replace (pp_num v l + (q_p v - pspec) / q_rho v - (q_p l - pspec) / q_rho l)
      with (pp_num v l + (q_p v - pspec) / q_rho v + - ((q_p l - pspec) / q_rho l)) by ring.
    eapply Rle_trans; [apply Rabs_triang|]. eapply Rle_trans; [apply Rplus_le_compat_r; apply Rabs_triang|].
    rewrite Rabs_Ropp. unfold Rdiv. rewrite !Rabs_mult.
    rewrite (Rabs_pos_eq (/ q_rho v)) by (left; apply Rinv_0_lt_compat; lra).
    rewrite (Rabs_pos_eq (/ q_rho l)) by (left; apply Rinv_0_lt_compat; lra).
    assert (0 < / q_rho v) by (apply Rinv_0_lt_compat; lra). assert (0 < / q_rho l) by (apply Rinv_0_lt_compat; lra).
    assert (Rabs (q_p v - pspec) * / q_rho v <= ev * / q_rho v) by (apply Rmult_le_compat_r; lra).
    assert (Rabs (q_p l - pspec) * / q_rho l <= el * / q_rho l) by (apply Rmult_le_compat_r; lra).
    lra.
  Qed.

  (** the Newton steps of the densities aim at the specified pressure at the new temperature (linearised) *)
  Lemma pp_rho_linear (s : svp) (dT : R) : q_prho s <> 0 ->
    q_p s + q_prho s * (pp_rho s dT - q_rho s) + q_pt s * dT = pspec.
  Proof. intros H. unfold pp_rho. field. exact H. Qed.
End PureP.

(** * 5. Non-vacuity: a van der Waals fluid  ares rho = -ln(1 - b rho) - a rho / kt ... in reduced form
       ares = - kt ln (1 - rho) - 3 rho   (b = 1, a = 3): the hypotheses of the theorems are satisfiable. *)
Definition vdw_ares (kt r : R) : R := - kt * ln (1 - r) - 3 * r.
Definition vdw_dares (kt r : R) : R := kt / (1 - r) - 3.

Lemma vdw_derivable kt r : 0 < r < 1 -> derivable_pt_lim (vdw_ares kt) r (vdw_dares kt r).
Proof.
  intros Hr. unfold vdw_ares, vdw_dares.
  replace (kt / (1 - r) - 3) with (- kt * (/ (1 - r) * (0 - 1)) - 3 * 1) by (field; lra).
  apply derivable_pt_lim_minus.
  - apply derivable_pt_lim_scal.
    apply (derivable_pt_lim_comp (fun x => 1 - x) ln).
    + apply derivable_pt_lim_minus; [apply derivable_pt_lim_const|apply derivable_pt_lim_id].
    + apply derivable_pt_lim_ln. lra.
  - apply derivable_pt_lim_scal. apply derivable_pt_lim_id.
Qed.

Example vdw_pressure kt r : 0 < r < 1 -> P kt (vdw_dares kt) r = kt * r / (1 - r) - 3 * r * r.
Proof. intros Hr. unfold P, datot, vdw_dares. field. lra. Qed.

(** A fluid with an explicit coexistence:  ares rho = - a rho + b rho^2  with  a = 14 ln 2 - 9, b = 3 ln 2 - 2  at kt = 1
    has P 1 = P 2 = 6 - 8 ln 2 and MU 1 = MU 2; the pass of [iterate_pure_t] started there reproduces it
    (all hypotheses of [pure_t_fixed_point] hold together). *)
Definition ex_a : R := 14 * ln 2 - 9.
Definition ex_b : R := 3 * ln 2 - 2.
Definition ex_ares (r : R) : R := - ex_a * r + ex_b * (r * r).
Definition ex_dares (r : R) : R := - ex_a + 2 * ex_b * r.
Definition ex_p : R := 6 - 8 * ln 2.
Definition ex_v : sv := mkSv 1 ex_p (1 + 2 * ex_dares 1 + 2 * ex_b) (ex_ares 1).
Definition ex_l : sv := mkSv 2 ex_p (1 + 4 * ex_dares 2 + 8 * ex_b) (ex_ares 2).

Lemma ex_dares_ok r : derivable_pt_lim ex_ares r (ex_dares r).
Proof.
  unfold ex_ares, ex_dares.
  replace (- ex_a + 2 * ex_b * r) with (- ex_a * 1 + ex_b * (1 * r + r * 1)) by ring.
  apply derivable_pt_lim_plus; apply derivable_pt_lim_scal; [apply derivable_pt_lim_id|].
  apply (derivable_pt_lim_mult (fun x => x) (fun x => x)); apply derivable_pt_lim_id.
Qed.

Example ex_fixed_point_hypotheses (tol : R) : 0 < tol ->
  consistent 1 ex_ares ex_dares ex_v /\ consistent 1 ex_ares ex_dares ex_l /\ 0 < ex_p /\
  s_prho ex_v <> 0 /\ s_prho ex_l <> 0 /\
  pt_pnew 1 tol ex_v ex_l ex_p = ex_p /\
  newton_rho ex_v ex_p = s_rho ex_v /\ newton_rho ex_l ex_p = s_rho ex_l /\
  fobj 1 (dv ex_v ex_l) (da 1 ex_v ex_l) ex_p ex_p = 0.
Proof.
  intros Htol.
  assert (Hp : 0 < ex_p) by (unfold ex_p; interval).
  assert (Edv : dv ex_v ex_l = 1 / 2) by (unfold dv; cbn; field).
  assert (Eda : da 1 ex_v ex_l = 4 * ln 2 - 3).
  { unfold da. cbn. unfold ex_ares, ex_a, ex_b. replace (1 / 2) with (/ 2) by field. rewrite ln_Rinv by lra. ring. }
  assert (Ef : fobj 1 (dv ex_v ex_l) (da 1 ex_v ex_l) ex_p ex_p = 0).
  { unfold fobj. rewrite Edv, Eda. replace (ex_p / ex_p) with 1 by (field; lra). rewrite ln_1. unfold ex_p. field. }
  assert (Eest : p_est 1 ex_v ex_l = ex_p).
  { unfold p_est. assert (E0 : p_est0 1 ex_v ex_l = ex_p) by (unfold p_est0; rewrite Edv, Eda; unfold ex_p; field).
    rewrite E0. destruct (Rlt_dec ex_p 0); [lra|reflexivity]. }
  repeat split.
  - cbn. lra.
  - cbn. unfold P, datot, ex_dares, ex_p, ex_a, ex_b. field.
  - cbn. lra.
  - cbn. unfold P, datot, ex_dares, ex_p, ex_a, ex_b. field.
  - exact Hp.
  - cbn. unfold ex_dares, ex_a, ex_b. interval.
  - cbn. unfold ex_dares, ex_a, ex_b. interval.
  - unfold pt_pnew. rewrite Eest. rewrite inner_break.
    + unfold nstep. rewrite Ef. unfold Rdiv. ring.
    + rewrite Ef, Rabs_R0. unfold ntol. rewrite Edv. nra.
  - unfold newton_rho. cbn. unfold Rdiv. ring.
  - unfold newton_rho. cbn. unfold Rdiv. ring.
  - exact Ef.
Qed.

(** * 6. Evaluation tactics of the generated correspondence goals (coq/gen/C04/p{t,p}_*.v) *)
Ltac c04_unfold :=
  unfold pt_accept, newton_rho, p_est0, p_est_ig, nstep, ntol, fobj, dfobj, da, dv,
         pp_accept, pp_fallback, pp_tnew, pp_rho, pp_dT, pp_num, pp_den, ln_rho, vmol, dy_R;
  cbn [s_rho s_p s_prho s_ares q_rho q_p q_prho q_pt q_sres q_ares fst snd].
Ltac c04_eval := c04_unfold; interval with (i_prec 100).
Ltac c04_eval_x x := c04_unfold; interval with (i_prec 100, i_autodiff x).
Ltac c04p_eval := c04_unfold; interval with (i_prec 100).
