(** C19 — Henry coefficient, ideal-gas enthalpy of adsorption and the ideal-gas closed forms of the adsorption
    derivatives (feos-dft/src/adsorption/pore.rs:141-193, profile/properties.rs:297-419), over R, any grid size.

    Reduced units of the code: lengths in Angstrom, energies in k_B K, amounts in particles; then R T = T, the stored
    external potential is V_j = U_j / T, and
      henry_coefficients                 = (sum_j w_j g_j) / T,      g_j = exp(-V_j) * (bond integrals)_j
      ideal_gas_enthalpy_of_adsorption   = T * (h - T h') / h,       h = sum_j w_j g_j(T)  (h' by a dual number)
    ([integrate_reduced_segments] keeps, per component, the LAST segment of the component). *)
From Coq Require Import Reals Lra Lia.
From Coquelicot Require Import Coquelicot.
From FeosVerif Require Import GibbsC19.
Open Scope R_scope.

Definition wsum (n : nat) (w x : nat -> R) : R := sumn n (fun j => w j * x j).

(** spherical molecules (no bonds) *)
Definition henry_sph (n : nat) (w V : nat -> R) (T : R) : R := sumn n (fun j => w j * exp (- V j)) / T.
Definition qst_sph (n : nat) (w V : nat -> R) (T : R) : R :=
  T * (1 - sumn n (fun j => w j * (exp (- V j) * V j)) / sumn n (fun j => w j * exp (- V j))).
(** general: g = Boltzmann factor x bond integrals of the segment kept, dg = its temperature derivative *)
Definition henry_gen (n : nat) (w g : nat -> R) (T : R) : R := wsum n w g / T.
Definition qst_gen (n : nat) (w g dg : nat -> R) (T : R) : R := T * (wsum n w g - T * wsum n w dg) / wsum n w g.

(** ideal gas (F = 0) in an external potential: rho_j = rho_b exp(-V_j) *)
Definition ig_N (n : nat) (w : nat -> R) (rb : R) (V : nat -> R) : R := sumn n (fun j => w j * (rb * exp (- V j))).
Definition ig_omega n w rb V (T : R) : R := - (T * ig_N n w rb V).
Definition ig_dn_dmu n w rb V (T : R) : R := ig_N n w rb V / T.
Definition ig_dn_dp n w rb V (T : R) : R := ig_N n w rb V / (rb * T).
Definition ig_dn_dt n w rb V (T : R) : R := sumn n (fun j => w j * (rb * exp (- V j) * (V j - 1))) / T.

Lemma ig_N_scal n w rb V : ig_N n w rb V = rb * sumn n (fun j => w j * exp (- V j)).
Proof. unfold ig_N. rewrite <- sumn_scal. apply sumn_ext. intros; ring. Qed.

(** ** Henry coefficient *)

(** exact for the ideal gas: N / p = K_H at every pressure *)
Theorem ideal_gas_N_over_p n w rb V T : rb <> 0 -> T <> 0 ->
  ig_N n w rb V / (rb * T) = henry_sph n w V T.
Proof. intros Hr HT. rewrite ig_N_scal. unfold henry_sph. field. split; assumption. Qed.

(** real fluid, spherical molecules: a solution of the Euler-Lagrange equation is rho_j = rho_b exp(-V_j - c_j) with
    c_j = dF/drho_j - dF/drho_b (excess over the bulk); with |c_j| <= delta and compressibility factor
    z = p / (rho_b T) within [1 - eps, 1 + eps], the adsorbed amount per pressure is within the stated factors of K_H.
    Both delta and eps vanish with the pressure, which is the limit N / p -> K_H. *)
Theorem henry_sandwich n (w V c : nat -> R) (rb T z delta eps : R) :
  (forall j, (j < n)%nat -> 0 <= w j) -> 0 < rb -> 0 < T -> eps < 1 ->
  (forall j, (j < n)%nat -> Rabs (c j) <= delta) -> Rabs (z - 1) <= eps ->
  let N := sumn n (fun j => w j * (rb * exp (- V j - c j))) in
  let p := rb * T * z in
  henry_sph n w V T * (exp (- delta) / (1 + eps)) <= N / p <= henry_sph n w V T * (exp delta / (1 - eps)).
Proof.
  intros Hw Hrb HT He Hc Hz N p.
  set (S := sumn n (fun j => w j * exp (- V j))).
  assert (HS : 0 <= S).
  { unfold S. replace 0 with (sumn n (fun _ => 0)) by (apply sumn_zero; auto).
    apply sumn_le. intros j Hj. apply Rmult_le_pos; [apply Hw; exact Hj|left; apply exp_pos]. }
  assert (Hzb : 1 - eps <= z <= 1 + eps).
  { apply Rabs_le_between in Hz. lra. }
  assert (Hzpos : 0 < z) by lra.
  assert (Heps : 0 <= eps) by (pose proof (Rabs_pos (z - 1)); lra).
  set (Q := sumn n (fun j => w j * (exp (- V j) * exp (- c j)))).
  assert (HN : N / p = Q / (T * z)).
  { unfold N, p, Q.
    replace (sumn n (fun j => w j * (rb * exp (- V j - c j)))) with (rb * sumn n (fun j => w j * (exp (- V j) * exp (- c j)))).
    - field. repeat split; lra.
    - rewrite <- sumn_scal. apply sumn_ext. intros j _. unfold Rminus. rewrite exp_plus. ring. }
  assert (HQu : Q <= exp delta * S).
  { unfold Q, S. rewrite <- sumn_scal. apply sumn_le. intros j Hj.
    assert (exp (- c j) <= exp delta).
    { destruct (Rle_lt_dec (- c j) delta) as [L|L]; [destruct L as [L|L]; [left; apply exp_increasing; exact L|rewrite L; lra]|].
      pose proof (Hc j Hj) as B. apply Rabs_le_between in B. lra. }
    pose proof (Hw j Hj). pose proof (exp_pos (- V j)).
    replace (w j * (exp (- V j) * exp (- c j))) with ((w j * exp (- V j)) * exp (- c j)) by ring.
    replace (exp delta * (w j * exp (- V j))) with ((w j * exp (- V j)) * exp delta) by ring.
    apply Rmult_le_compat_l; [apply Rmult_le_pos; lra|assumption]. }
  assert (HQl : exp (- delta) * S <= Q).
  { unfold Q, S. rewrite <- sumn_scal. apply sumn_le. intros j Hj.
    assert (exp (- delta) <= exp (- c j)).
    { destruct (Rle_lt_dec (- delta) (- c j)) as [L|L]; [destruct L as [L|L]; [left; apply exp_increasing; exact L|rewrite L; lra]|].
      pose proof (Hc j Hj) as B. apply Rabs_le_between in B. lra. }
    pose proof (Hw j Hj). pose proof (exp_pos (- V j)).
    replace (w j * (exp (- V j) * exp (- c j))) with ((w j * exp (- V j)) * exp (- c j)) by ring.
    replace (exp (- delta) * (w j * exp (- V j))) with ((w j * exp (- V j)) * exp (- delta)) by ring.
    apply Rmult_le_compat_l; [apply Rmult_le_pos; lra|assumption]. }
  assert (HQ0 : 0 <= Q).
  { eapply Rle_trans; [|exact HQl]. apply Rmult_le_pos; [left; apply exp_pos|exact HS]. }
  rewrite HN. unfold henry_sph. fold S.
  assert (Hiz1 : / z <= / (1 - eps)) by (apply Rinv_le_contravar; lra).
  assert (Hiz2 : / (1 + eps) <= / z) by (apply Rinv_le_contravar; lra).
  assert (HiT : 0 < / T) by (apply Rinv_0_lt_compat; exact HT).
  assert (Hizp : 0 < / z) by (apply Rinv_0_lt_compat; exact Hzpos).
  assert (Hi1 : 0 < / (1 + eps)) by (apply Rinv_0_lt_compat; lra).
  pose proof (exp_pos delta) as Ed. pose proof (exp_pos (- delta)) as Emd.
  split.
  - replace (S / T * (exp (- delta) / (1 + eps))) with ((exp (- delta) * S) * / T * / (1 + eps)) by (field; split; lra).
    replace (Q / (T * z)) with (Q * / T * / z) by (field; split; lra).
    apply Rle_trans with (Q * / T * / (1 + eps)).
    + apply Rmult_le_compat_r; [lra|]. apply Rmult_le_compat_r; [lra|exact HQl].
    + apply Rmult_le_compat_l; [apply Rmult_le_pos; lra|exact Hiz2].
  - replace (S / T * (exp delta / (1 - eps))) with ((exp delta * S) * / T * / (1 - eps)) by (field; split; lra).
    replace (Q / (T * z)) with (Q * / T * / z) by (field; split; lra).
    apply Rle_trans with (Q * / T * / (1 - eps)).
    + apply Rmult_le_compat_l; [apply Rmult_le_pos; lra|exact Hiz1].
    + assert (0 < / (1 - eps)) by (apply Rinv_0_lt_compat; lra).
      apply Rmult_le_compat_r; [lra|]. apply Rmult_le_compat_r; [lra|exact HQu].
Qed.

(** ** ideal-gas enthalpy of adsorption *)

(** the dual-number evaluation: h(T) = sum_j w_j g_j(T) has derivative sum_j w_j g_j'(T) *)
Theorem henry_integral_derivative n (w : nat -> R) (g : nat -> R -> R) (dg : nat -> R) T :
  (forall j, (j < n)%nat -> is_derive (g j) T (dg j)) ->
  is_derive (fun s => wsum n w (fun j => g j s)) T (wsum n w dg).
Proof.
  intros Hg. unfold wsum. apply (is_derive_sumn n (fun j s => w j * g j s)). intros j Hj.
  pose proof (Hg j Hj) as G. auto_derive.
  - eexists; exact G.
  - assert (E1 : Derive (fun x : R => g j x) T = dg j) by (apply is_derive_unique; exact G). rewrite E1. ring.
Qed.

(** the returned value is the isosteric heat in the Henry regime (van 't Hoff): q = - T^2 d ln K_H / dT with
    K_H(T) = h(T) / T *)
Theorem qst_is_vant_hoff n (w : nat -> R) (g : nat -> R -> R) (dg : nat -> R) T :
  (forall j, (j < n)%nat -> is_derive (g j) T (dg j)) -> 0 < T -> 0 < wsum n w (fun j => g j T) ->
  is_derive (fun s => ln (henry_gen n w (fun j => g j s) s)) T
            (- qst_gen n w (fun j => g j T) dg T / (T * T)).
Proof.
  intros Hg HT Hh. pose proof (henry_integral_derivative n w g dg T Hg) as D.
  unfold henry_gen, qst_gen.
  set (h := fun s => wsum n w (fun j => g j s)) in *.
  assert (Hh' : 0 < h T) by exact Hh.
  assert (E : is_derive (fun s => ln (h s / s)) T (- (T * (h T - T * wsum n w dg) / h T) / (T * T))).
  { auto_derive.
    - split; [eexists; exact D|]. split; [lra|]. split; auto.
      apply Rmult_lt_0_compat; [assumption|apply Rinv_0_lt_compat; assumption].
    - assert (E1 : Derive (fun x : R => h x) T = wsum n w dg) by (apply is_derive_unique; exact D).
      rewrite E1. field. split; lra. }
  exact E.
Qed.

(** spherical molecules: g_j(T) = exp(-U_j / T); in terms of the stored V_j = U_j / T the code's value is [qst_sph] *)
Theorem boltzmann_T_derivative (U T : R) : T <> 0 ->
  is_derive (fun s => exp (- (U / s))) T (exp (- (U / T)) * (U / T) / T).
Proof. intros HT. auto_derive; [assumption|]. unfold Rdiv. field. exact HT. Qed.

Theorem qst_sph_is_code n (w U : nat -> R) T : T <> 0 -> sumn n (fun j => w j * exp (- (U j / T))) <> 0 ->
  qst_gen n w (fun j => exp (- (U j / T))) (fun j => exp (- (U j / T)) * (U j / T) / T) T
  = qst_sph n w (fun j => U j / T) T.
Proof.
  intros HT HA. unfold qst_gen, qst_sph, wsum.
  assert (EB : sumn n (fun j => w j * (exp (- (U j / T)) * (U j / T) / T))
               = sumn n (fun j => w j * (exp (- (U j / T)) * (U j / T))) * / T).
  { rewrite <- sumn_scal_r. apply sumn_ext. intros; unfold Rdiv; ring. }
  rewrite EB.
  set (A := sumn n (fun j => w j * exp (- (U j / T)))) in *.
  set (B := sumn n (fun j => w j * (exp (- (U j / T)) * (U j / T)))).
  field. split; assumption.
Qed.

(** ** closed forms of the adsorption derivatives for the ideal gas *)

(** d N / d mu at constant T (mu in energy units, de Broglie wavelength absorbed): rho_b = exp(mu / T) *)
Theorem ig_dN_dmu n w V T mu : T <> 0 ->
  is_derive (fun s => ig_N n w (exp (s / T)) V) mu (ig_dn_dmu n w (exp (mu / T)) V T).
Proof.
  intros HT. unfold ig_dn_dmu.
  eapply is_derive_ext; [intros s; symmetry; apply ig_N_scal|].
  rewrite ig_N_scal. auto_derive; [auto|]. unfold Rdiv. field. exact HT.
Qed.

(** d N / d p at constant T: rho_b = p / T *)
Theorem ig_dN_dp n w V T p : T <> 0 -> p <> 0 ->
  is_derive (fun s => ig_N n w (s / T) V) p (ig_dn_dp n w (p / T) V T).
Proof.
  intros HT Hp. unfold ig_dn_dp.
  eapply is_derive_ext; [intros s; symmetry; apply ig_N_scal|].
  rewrite ig_N_scal. auto_derive; [auto|]. unfold Rdiv. field. split; assumption.
Qed.

(** d N / d T at constant p: rho_b = p / T, V_j = U_j / T *)
Theorem ig_dN_dT n w U T p : T <> 0 ->
  is_derive (fun s => ig_N n w (p / s) (fun j => U j / s)) T (ig_dn_dt n w (p / T) (fun j => U j / T) T).
Proof.
  intros HT. unfold ig_N, ig_dn_dt.
  replace (sumn n (fun j => w j * (p / T * exp (- (U j / T)) * (U j / T - 1))) / T)
    with (sumn n (fun j => w j * (p / T * exp (- (U j / T)) * (U j / T - 1)) / T)).
  - apply (is_derive_sumn n (fun j s => w j * (p / s * exp (- (U j / s))))). intros j _.
    auto_derive; [auto|]. unfold Rdiv. field. exact HT.
  - unfold Rdiv. rewrite <- sumn_scal_r. apply sumn_ext. intros; ring.
Qed.

(** the enthalpy of adsorption from the implicit derivatives, - T (dN/dT) / (dN/dmu), is the ideal-gas one *)
Theorem ig_enthalpy_of_adsorption n w rb V T : rb <> 0 -> T <> 0 -> sumn n (fun j => w j * exp (- V j)) <> 0 ->
  - T * ig_dn_dt n w rb V T / ig_dn_dmu n w rb V T = qst_sph n w V T.
Proof.
  intros Hr HT HS. unfold ig_dn_dt, ig_dn_dmu, qst_sph. rewrite ig_N_scal.
  replace (sumn n (fun j => w j * (rb * exp (- V j) * (V j - 1))))
    with (rb * (sumn n (fun j => w j * (exp (- V j) * V j)) - sumn n (fun j => w j * exp (- V j)))).
  - field. repeat split; assumption.
  - rewrite <- sumn_minus, <- sumn_scal. apply sumn_ext. intros; ring.
Qed.

(** the grand potential the code integrates (phi - rho (dF/drho + m), times T) for F = 0, m = 1 is - T N *)
Theorem ig_omega_is_code n w rb V T (rho : nat -> R -> R) t :
  (forall j, (j < n)%nat -> rho j t = rb * exp (- V j)) ->
  T * Omega_code n w (fun _ => 1) (fun _ => 0) (fun _ _ => 0) rho t = ig_omega n w rb V T.
Proof.
  intros E. unfold Omega_code, ig_omega, ig_N.
  replace (sumn n (fun i => w i * (rho i t * (0 + 1)))) with (sumn n (fun j => w j * (rb * exp (- V j)))).
  - ring.
  - apply sumn_ext. intros j Hj. rewrite (E j Hj). ring.
Qed.
