(** * Virial: the second virial coefficient as the low-density limit of (Z - 1)/rho.

    For g(rho) = beta A^res(T, V = 1, N = rho x) the compressibility factor of the homogeneous
    fluid satisfies  (Z - 1)/rho = (rho g'(rho) - g(rho)) / rho^2  (A is first-order homogeneous:
    A(V, N) = V g(N/V), hence  -dA/dV = rho g' - g).  If g(0) = g'(0) = 0 and g' is derivable at 0
    with derivative c = g''(0), this quotient tends to c/2 — the value the virial functions return. *)
From Coq Require Import Reals Lra Lia.
Local Open Scope R_scope.

Section Limit.
Variables (g g' : R -> R) (c d0 : R).
Hypothesis Hd0 : 0 < d0.
Hypothesis Hg : forall x, Rabs x < d0 -> derivable_pt_lim g x (g' x).
Hypothesis Hg' : derivable_pt_lim g' 0 c.
Hypothesis Hg0 : g 0 = 0.
Hypothesis Hg'0 : g' 0 = 0.

Let h (x : R) := g x - c * x ^ 2 / 2.
Let h' (x : R) := g' x - c * x.

Lemma h_derive x : Rabs x < d0 -> derivable_pt_lim h x (h' x).
Proof.
  intros Hx. unfold h, h'.
  apply derivable_pt_lim_minus; [now apply Hg|].
  replace (c * x) with (c * (INR 2 * x ^ 1) / 2) by (simpl; field).
  unfold Rdiv. apply (derivable_pt_lim_scal_right (fun y => c * y ^ 2)).
  apply derivable_pt_lim_scal. apply derivable_pt_lim_pow.
Qed.

(** remainder of g' at 0 *)
Lemma g'_small e : 0 < e -> exists delta, 0 < delta /\ forall x, x <> 0 -> Rabs x < delta -> Rabs (g' x - c * x) <= e * Rabs x.
Proof.
  intros He. destruct (Hg' e He) as [delta Hdelta]. exists delta. split; [apply cond_pos|].
  intros x Hx Hxd. specialize (Hdelta x Hx Hxd).
  rewrite Rplus_0_l, Hg'0, Rminus_0_r in Hdelta.
  replace (g' x - c * x) with ((g' x / x - c) * x) by (field; exact Hx).
  rewrite Rabs_mult. apply Rmult_le_compat_r; [apply Rabs_pos|lra].
Qed.

Lemma h_small e : 0 < e -> exists delta, 0 < delta /\ delta <= d0 /\
  forall x, x <> 0 -> Rabs x < delta -> Rabs (h x) <= e * x ^ 2 /\ Rabs (g' x - c * x) <= e * Rabs x.
Proof.
  intros He. destruct (g'_small e He) as (d1 & Hd1 & H1).
  exists (Rmin d1 d0). split; [apply Rmin_pos; assumption|]. split; [apply Rmin_r|].
  intros x Hx Hxd.
  assert (Hxd1 : Rabs x < d1) by (eapply Rlt_le_trans; [exact Hxd|apply Rmin_l]).
  assert (Hxd0 : Rabs x < d0) by (eapply Rlt_le_trans; [exact Hxd|apply Rmin_r]).
  split; [|now apply H1].
  assert (Hh0 : h 0 = 0) by (unfold h; rewrite Hg0; simpl; field).
  destruct (Rtotal_order x 0) as [Hneg|[Hz|Hpos]]; [|contradiction|].
  - (* x < 0 : mean value theorem on [x, 0] *)
    destruct (MVT_cor2 h h' x 0 Hneg) as (xi & Hxi & Hxi1).
    { intros y [Hy1 Hy2]. apply h_derive. rewrite (Rabs_left1 y Hy2). rewrite (Rabs_left x Hneg) in Hxd0. lra. }
    rewrite Hh0 in Hxi.
    assert (Hxi0 : xi <> 0) by lra.
    assert (Hxid : Rabs xi < d1) by (rewrite Rabs_left by lra; rewrite Rabs_left in Hxd1 by lra; lra).
    pose proof (H1 xi Hxi0 Hxid) as Hb. unfold h' in Hxi. fold (h' xi) in Hxi.
    replace (h x) with (- (h' xi * (0 - x))) by lra.
    rewrite Rabs_Ropp, Rabs_mult. unfold h'.
    rewrite (Rabs_right (0 - x)) by lra.
    rewrite (Rabs_left xi) in Hb by lra.
    apply Rle_trans with (e * - xi * (0 - x)).
    + apply Rmult_le_compat_r; [lra|]. lra.
    + replace (e * x ^ 2) with (e * - x * (0 - x)) by (simpl; ring).
      apply Rmult_le_compat_r; [lra|]. apply Rmult_le_compat_l; lra.
  - (* x > 0 : mean value theorem on [0, x] *)
    destruct (MVT_cor2 h h' 0 x Hpos) as (xi & Hxi & Hxi1).
    { intros y [Hy1 Hy2]. apply h_derive. rewrite (Rabs_right y) by lra. rewrite (Rabs_right x) in Hxd0 by lra. lra. }
    rewrite Hh0 in Hxi.
    assert (Hxi0 : xi <> 0) by lra.
    assert (Hxid : Rabs xi < d1) by (rewrite Rabs_right by lra; rewrite Rabs_right in Hxd1 by lra; lra).
    pose proof (H1 xi Hxi0 Hxid) as Hb.
    replace (h x) with (h' xi * (x - 0)) by lra.
    rewrite Rabs_mult. unfold h'.
    rewrite (Rabs_right (x - 0)) by lra.
    rewrite (Rabs_right xi) in Hb by lra.
    apply Rle_trans with (e * xi * (x - 0)).
    + apply Rmult_le_compat_r; [lra|]. lra.
    + replace (e * x ^ 2) with (e * x * (x - 0)) by (simpl; ring).
      apply Rmult_le_compat_r; [lra|]. apply Rmult_le_compat_l; lra.
Qed.

(** (Z - 1)/rho = (rho g'(rho) - g(rho))/rho^2  tends to  g''(0)/2 *)
Theorem virial_limit : forall eps, 0 < eps -> exists delta, 0 < delta /\
  forall rho, rho <> 0 -> Rabs rho < delta ->
    Rabs ((rho * g' rho - g rho) / rho ^ 2 - c / 2) < eps.
Proof.
  intros eps Heps.
  destruct (h_small (eps / 3) ltac:(lra)) as (delta & Hdelta & _ & H).
  exists delta. split; [exact Hdelta|]. intros rho Hrho Hrd.
  destruct (H rho Hrho Hrd) as [Hh Hr].
  assert (Hr2 : 0 < rho ^ 2) by (simpl; rewrite Rmult_1_r; destruct (Rtotal_order rho 0) as [Hn|[Hz|Hp]]; [nra|contradiction|nra]).
  replace ((rho * g' rho - g rho) / rho ^ 2 - c / 2)
    with ((g' rho - c * rho) / rho - h rho / rho ^ 2) by (unfold h; field; exact Hrho).
  eapply Rle_lt_trans; [apply Rabs_triang|]. rewrite Rabs_Ropp.
  unfold Rdiv. rewrite !Rabs_mult, !Rabs_inv.
  rewrite (Rabs_right (rho ^ 2)) by lra.
  assert (A1 : Rabs (g' rho - c * rho) * / Rabs rho <= eps / 3).
  { apply Rmult_le_reg_r with (Rabs rho); [now apply Rabs_pos_lt|].
    rewrite Rmult_assoc, Rinv_l, Rmult_1_r by (now apply Rabs_no_R0). exact Hr. }
  assert (A2 : Rabs (h rho) * / rho ^ 2 <= eps / 3).
  { apply Rmult_le_reg_r with (rho ^ 2); [exact Hr2|].
    rewrite Rmult_assoc, Rinv_l, Rmult_1_r by lra. exact Hh. }
  lra.
Qed.

End Limit.
