(** * Virial: the second virial coefficient as the low-density limit of (Z - 1)/rho.

    For g(rho) = beta A^res(T, V = 1, N = rho x) the compressibility factor of the homogeneous
    fluid satisfies  (Z - 1)/rho = (rho g'(rho) - g(rho)) / rho^2  (A is first-order homogeneous:
    A(V, N) = V g(N/V), hence  -dA/dV = rho g' - g).  If g(0) = g'(0) = 0 and g' is derivable at 0
    with derivative c = g''(0), this quotient tends to c/2 — the value the virial functions return. *)
From Coq Require Import Reals Lra Lia.
Local Open Scope R_scope.

Section Limit.
Variables (g g' : R -> R) (c d0 : R).
Hypothesis Hd0 : 0 < d0.
Hypothesis Hg : forall x, Rabs x < d0 -> derivable_pt_lim g x (g' x).
Hypothesis Hg' : derivable_pt_lim g' 0 c.
Hypothesis Hg0 : g 0 = 0.
Hypothesis Hg'0 : g' 0 = 0.

Let h (x : R) := g x - c * x ^ 2 / 2.
Let h' (x : R) := g' x - c * x.

Lemma h_derive x : Rabs x < d0 -> derivable_pt_lim h x (h' x).
Proof.
  intros Hx. unfold h, h'.
  apply derivable_pt_lim_minus; [now apply Hg|].
  replace (c * x) with (c * (INR 2 * x ^ 1) / 2) by (simpl; field).
  unfold Rdiv. apply (derivable_pt_lim_scal_right (fun y => c * y ^ 2)).
  apply derivable_pt_lim_scal. apply derivable_pt_lim_pow.
Qed.

(** remainder of g' at 0 *)
Lemma g'_small e : 0 < e -> exists delta, 0 < delta /\ forall x, x <> 0 -> Rabs x < delta -> Rabs (g' x - c * x) <= e * Rabs x.
Proof.
  intros He. destruct (Hg' e He) as [delta Hdelta]. exists delta. split; [apply cond_pos|].
  intros x Hx Hxd. specialize (Hdelta x Hx Hxd).
  rewrite Rplus_0_l, Hg'0, Rminus_0_r in Hdelta.
  replace (g' x - c * x) with ((g' x / x - c) * x) by (field; exact Hx).
  rewrite Rabs_mult. apply Rmult_le_compat_r; [apply Rabs_pos|lra].
Qed.

Lemma h_small e : 0 < e -> exists delta, 0 < delta /\ delta <= d0 /\
  forall x, x <> 0 -> Rabs x < delta -> Rabs (h x) <= e * x ^ 2 /\ Rabs (g' x - c * x) <= e * Rabs x.
Proof.
  intros He. destruct (g'_small e He) as (d1 & Hd1 & H1).
  exists (Rmin d1 d0). split; [apply Rmin_pos; assumption|]. split; [apply Rmin_r|].
  intros x Hx Hxd.
  assert (Hxd1 : Rabs x < d1) by (eapply Rlt_le_trans; [exact Hxd|apply Rmin_l]).
  assert (Hxd0 : Rabs x < d0) by (eapply Rlt_le_trans; [exact Hxd|apply Rmin_r]).
  split; [|now apply H1].
  assert (Hh0 : h 0 = 0) by (unfold h; rewrite Hg0; simpl; field).
  destruct (Rtotal_order x 0) as [Hneg|[Hz|Hpos]]; [|contradiction|].
  - (* x < 0 : mean value theorem on [x, 0] *)
    destruct (MVT_cor2 h h' x 0 Hneg) as (xi & Hxi & Hxi1).
    { intros y [Hy1 Hy2]. apply h_derive. rewrite (Rabs_left1 y Hy2). rewrite (Rabs_left x Hneg) in Hxd0. lra. }
    rewrite Hh0 in Hxi.
    assert (Hxi0 : xi <> 0) by lra.
    assert (Hxid : Rabs xi < d1) by (rewrite Rabs_left by lra; rewrite Rabs_left in Hxd1 by lra; lra).
    pose proof (H1 xi Hxi0 Hxid) as Hb. unfold h' in Hxi. fold (h' xi) in Hxi.
    replace (h x) with (- (h' xi * (0 - x))) by lra.
    rewrite Rabs_Ropp, Rabs_mult. unfold h'.
    rewrite (Rabs_right (0 - x)) by lra.
    rewrite (Rabs_left xi) in Hb by lra.
    apply Rle_trans with (e * - xi * (0 - x)).
    + apply Rmult_le_compat_r; [lra|]. lra.
    + replace (e * x ^ 2) with (e * - x * (0 - x)) by (simpl; ring).
      apply Rmult_le_compat_r; [lra|]. apply Rmult_le_compat_l; lra.
  - (* x > 0 : mean value theorem on [0, x] *)
    destruct (MVT_cor2 h h' 0 x Hpos) as (xi & Hxi & Hxi1).
    { intros y [Hy1 Hy2]. apply h_derive. rewrite (Rabs_right y) by lra. rewrite (Rabs_right x) in Hxd0 by lra. lra. }
    rewrite Hh0 in Hxi.
    assert (Hxi0 : xi <> 0) by lra.
    assert (Hxid : Rabs xi < d1) by (rewrite Rabs_right by lra; rewrite Rabs_right in Hxd1 by lra; lra).
    pose proof (H1 xi Hxi0 Hxid) as Hb.
    replace (h x) with (h' xi * (x - 0)) by lra.
    rewrite Rabs_mult. unfold h'.
    rewrite (Rabs_right (x - 0)) by lra.
    rewrite (Rabs_right xi) in Hb by lra.
    apply Rle_trans with (e * xi * (x - 0)).
    + apply Rmult_le_compat_r; [lra|]. lra.
    + replace (e * x ^ 2) with (e * x * (x - 0)) by (simpl; ring).
      apply Rmult_le_compat_r; [lra|]. apply Rmult_le_compat_l; lra.
Qed.

(** (Z - 1)/rho = (rho g'(rho) - g(rho))/rho^2  tends to  g''(0)/2 *)
Theorem virial_limit : forall eps, 0 < eps -> exists delta, 0 < delta /\
  forall rho, rho <> 0 -> Rabs rho < delta ->
    Rabs ((rho * g' rho - g rho) / rho ^ 2 - c / 2) < eps.
Proof.
  intros eps Heps.
  destruct (h_small (eps / 3) ltac:(lra)) as (delta & Hdelta & _ & H).
  exists delta. split; [exact Hdelta|]. intros rho Hrho Hrd.
  destruct (H rho Hrho Hrd) as [Hh Hr].
  assert (Hr2 : 0 < rho ^ 2) by (simpl; rewrite Rmult_1_r; destruct (Rtotal_order rho 0) as [Hn|[Hz|Hp]]; [nra|contradiction|nra]).
  replace ((rho * g' rho - g rho) / rho ^ 2 - c / 2)
    with ((g' rho - c * rho) / rho - h rho / rho ^ 2) by (unfold h; field; exact Hrho).
  eapply Rle_lt_trans; [apply Rabs_triang|]. rewrite Rabs_Ropp.
  unfold Rdiv. rewrite !Rabs_mult, !Rabs_inv.
  rewrite (Rabs_right (rho ^ 2)) by lra.
  assert (A1 : Rabs (g' rho - c * rho) * / Rabs rho <= eps / 3).
  { apply Rmult_le_reg_r with (Rabs rho); [now apply Rabs_pos_lt|].
    rewrite Rmult_assoc, Rinv_l, Rmult_1_r by (now apply Rabs_no_R0). exact Hr. }
  assert (A2 : Rabs (h rho) * / rho ^ 2 <= eps / 3).
  { apply Rmult_le_reg_r with (rho ^ 2); [exact Hr2|].
    rewrite Rmult_assoc, Rinv_l, Rmult_1_r by lra. exact Hh. }
  lra.
Qed.

End Limit.

(** a function vanishing at 0 whose derivative is O(e |x|^m) near 0 is O(e |x|^(m+1)) *)
Lemma mvt_small (F f : R -> R) (d e : R) (m : nat) :
  (forall x, Rabs x < d -> derivable_pt_lim F x (f x)) -> F 0 = 0 ->
  (forall x, x <> 0 -> Rabs x < d -> Rabs (f x) <= e * Rabs x ^ m) ->
  forall x, x <> 0 -> Rabs x < d -> Rabs (F x) <= e * Rabs x ^ S m.
Proof.
  intros HF H0 Hf x Hx Hxd.
  assert (He : 0 <= e).
  { specialize (Hf x Hx Hxd). pose proof (Rabs_pos (f x)) as P.
    assert (Q : 0 < Rabs x ^ m) by (apply pow_lt; now apply Rabs_pos_lt).
    destruct (Rle_or_lt 0 e) as [|Hn]; [assumption|]. exfalso. nra. }
  assert (K : forall xi, xi <> 0 -> Rabs xi <= Rabs x -> Rabs (f xi) <= e * Rabs x ^ m).
  { intros xi Hxi Hle. eapply Rle_trans; [apply Hf; [exact Hxi|lra]|].
    apply Rmult_le_compat_l; [exact He|]. apply pow_incr. split; [apply Rabs_pos|exact Hle]. }
  destruct (Rtotal_order x 0) as [Hneg|[Hz|Hpos]]; [|contradiction|].
  - destruct (MVT_cor2 F f x 0 Hneg) as (xi & Hxi & Hxi1).
    { intros y [Hy1 Hy2]. apply HF. rewrite (Rabs_left1 y Hy2). rewrite (Rabs_left x Hneg) in Hxd. lra. }
    rewrite H0 in Hxi.
    assert (Hb : Rabs (f xi) <= e * Rabs x ^ m).
    { apply K; [lra|]. rewrite (Rabs_left xi) by lra. rewrite (Rabs_left x) by lra. lra. }
    replace (F x) with (- (f xi * (0 - x))) by lra.
    rewrite Rabs_Ropp, Rabs_mult. rewrite (Rabs_right (0 - x)) by lra.
    rewrite (Rabs_left x Hneg) in *. cbn [pow].
    replace (e * (- x * (- x) ^ m)) with (e * (- x) ^ m * (0 - x)) by ring.
    apply Rmult_le_compat_r; lra.
  - destruct (MVT_cor2 F f 0 x Hpos) as (xi & Hxi & Hxi1).
    { intros y [Hy1 Hy2]. apply HF. rewrite (Rabs_right y) by lra. rewrite (Rabs_right x) in Hxd by lra. lra. }
    rewrite H0 in Hxi.
    assert (Hb : Rabs (f xi) <= e * Rabs x ^ m).
    { apply K; [lra|]. rewrite (Rabs_right xi) by lra. rewrite (Rabs_right x) by lra. lra. }
    replace (F x) with (f xi * (x - 0)) by lra.
    rewrite Rabs_mult. rewrite (Rabs_right (x - 0)) by lra.
    rewrite (Rabs_right x) in * by lra. cbn [pow].
    replace (e * (x * x ^ m)) with (e * x ^ m * (x - 0)) by ring.
    apply Rmult_le_compat_r; lra.
Qed.

Section Limit3.
Variables (g g1 g2 : R -> R) (k d0 : R).
Hypothesis Hd0 : 0 < d0.
Hypothesis Hg : forall x, Rabs x < d0 -> derivable_pt_lim g x (g1 x).
Hypothesis Hg1 : forall x, Rabs x < d0 -> derivable_pt_lim g1 x (g2 x).
Hypothesis Hg2 : derivable_pt_lim g2 0 k.
Hypothesis Hg0 : g 0 = 0.
Hypothesis Hg10 : g1 0 = 0.
Let c := g2 0.

Let r2 (x : R) := g2 x - c - k * x.
Let r1 (x : R) := g1 x - c * x - k * x ^ 2 / 2.
Let r0 (x : R) := g x - c * x ^ 2 / 2 - k * x ^ 3 / 6.

Lemma r1_derive x : Rabs x < d0 -> derivable_pt_lim r1 x (r2 x).
Proof.
  intros Hx. unfold r1, r2.
  replace (g2 x - c - k * x) with (g2 x - c * 1 - k * (INR 2 * x ^ 1) / 2) by (simpl; field).
  apply derivable_pt_lim_minus; [apply derivable_pt_lim_minus; [now apply Hg1|]|].
  - apply derivable_pt_lim_scal. apply derivable_pt_lim_id.
  - unfold Rdiv. apply (derivable_pt_lim_scal_right (fun y => k * y ^ 2)).
    apply derivable_pt_lim_scal. apply derivable_pt_lim_pow.
Qed.

Lemma r0_derive x : Rabs x < d0 -> derivable_pt_lim r0 x (r1 x).
Proof.
  intros Hx. unfold r0, r1.
  replace (g1 x - c * x - k * x ^ 2 / 2) with (g1 x - c * (INR 2 * x ^ 1) / 2 - k * (INR 3 * x ^ 2) / 6) by (simpl; field).
  apply derivable_pt_lim_minus; [apply derivable_pt_lim_minus; [now apply Hg|]|].
  - unfold Rdiv. apply (derivable_pt_lim_scal_right (fun y => c * y ^ 2)).
    apply derivable_pt_lim_scal. apply derivable_pt_lim_pow.
  - unfold Rdiv. apply (derivable_pt_lim_scal_right (fun y => k * y ^ 3)).
    apply derivable_pt_lim_scal. apply derivable_pt_lim_pow.
Qed.

Lemma r2_small e : 0 < e -> exists delta, 0 < delta /\ delta <= d0 /\
  forall x, x <> 0 -> Rabs x < delta -> Rabs (r2 x) <= e * Rabs x ^ 1.
Proof.
  intros He. destruct (Hg2 e He) as [delta Hdelta].
  exists (Rmin delta d0). split; [apply Rmin_pos; [apply cond_pos|exact Hd0]|]. split; [apply Rmin_r|].
  intros x Hx Hxd. assert (Hxd' : Rabs x < delta) by (eapply Rlt_le_trans; [exact Hxd|apply Rmin_l]).
  specialize (Hdelta x Hx Hxd'). rewrite Rplus_0_l in Hdelta. fold c in Hdelta.
  unfold r2. replace (g2 x - c - k * x) with (((g2 x - c) / x - k) * x) by (field; exact Hx).
  rewrite Rabs_mult, pow_1. apply Rmult_le_compat_r; [apply Rabs_pos|lra].
Qed.

(** with B = g''(0)/2 the limit of (Z-1)/rho:  ((Z-1)/rho - B)/rho  tends to  g'''(0)/3 *)
Theorem virial_limit3 : forall eps, 0 < eps -> exists delta, 0 < delta /\
  forall rho, rho <> 0 -> Rabs rho < delta ->
    Rabs (((rho * g1 rho - g rho) / rho ^ 2 - c / 2) / rho - k / 3) < eps.
Proof.
  intros eps Heps.
  destruct (r2_small (eps / 3) ltac:(lra)) as (delta & Hdelta & Hdd & H2).
  exists delta. split; [exact Hdelta|]. intros rho Hrho Hrd.
  assert (Hr1 : forall x, x <> 0 -> Rabs x < delta -> Rabs (r1 x) <= eps / 3 * Rabs x ^ 2).
  { apply (mvt_small r1 r2 delta (eps / 3) 1).
    - intros x Hx. apply r1_derive. lra.
    - unfold r1. rewrite Hg10. simpl. field.
    - exact H2. }
  assert (Hr0 : forall x, x <> 0 -> Rabs x < delta -> Rabs (r0 x) <= eps / 3 * Rabs x ^ 3).
  { apply (mvt_small r0 r1 delta (eps / 3) 2).
    - intros x Hx. apply r0_derive. lra.
    - unfold r0. rewrite Hg0. simpl. field.
    - exact Hr1. }
  specialize (Hr1 rho Hrho Hrd). specialize (Hr0 rho Hrho Hrd).
  assert (Ha : 0 < Rabs rho) by (now apply Rabs_pos_lt).
  replace (((rho * g1 rho - g rho) / rho ^ 2 - c / 2) / rho - k / 3)
    with (r1 rho / rho ^ 2 - r0 rho / rho ^ 3) by (unfold r1, r0; field; exact Hrho).
  eapply Rle_lt_trans; [apply Rabs_triang|]. rewrite Rabs_Ropp.
  unfold Rdiv. rewrite !Rabs_mult, !Rabs_inv, <- !RPow_abs.
  assert (A1 : Rabs (r1 rho) * / Rabs rho ^ 2 <= eps / 3).
  { apply Rmult_le_reg_r with (Rabs rho ^ 2); [now apply pow_lt|].
    rewrite Rmult_assoc, Rinv_l, Rmult_1_r by (apply pow_nonzero; lra). exact Hr1. }
  assert (A2 : Rabs (r0 rho) * / Rabs rho ^ 3 <= eps / 3).
  { apply Rmult_le_reg_r with (Rabs rho ^ 3); [now apply pow_lt|].
    rewrite Rmult_assoc, Rinv_l, Rmult_1_r by (apply pow_nonzero; lra). exact Hr0. }
  lra.
Qed.
End Limit3.
