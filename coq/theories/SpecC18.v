(** C18 — the particle-number specifications of a DFT profile and the part of the Euler-Lagrange equation that
    feeds them (feos-dft/src/profile/mod.rs: [DFTSpecifications::calculate_bulk_density] and
    [euler_lagrange_equation], lines "calculate bond integrals" .. "calculate the norm of the residual"),
    over R with finite sums.

    Abstracted: the functional derivative, the convolver and the bond integrals — they enter only through
        e i g = exp(-(dF/drho_i(g) - dF/drho_b,i + V_i(g)) / m_i) * bonds_i(g)
    which is an ARBITRARY function here (it depends on rho and rho_b in the code; every theorem below is
    stated for a fixed evaluation of the equation, i.e. for the e of the profile at hand).
    Modelled exactly as coded (S segments, G grid points, w = integration weights x functional determinant):
        rho_projected i g = e i g * rho_b i
        z i               = sum_g w g * e i g                        (integrated BEFORE rho_b is multiplied in)
        target            = calculate_bulk_density spec rho_b z
        res_bulk i        = target i - rho_b i
        res_norm          = sqrt (sum_ig (rho - rho_projected)^2 + sum_i res_bulk^2) / sqrt (S*G + S)
    and, for the record, the order/sign the code had before the repair ([z_after], [res_bulk_old]). *)
From Coq Require Import Reals Lra Lia List Psatz.
Import ListNotations.
Open Scope R_scope.

(** ** finite sums *)
Fixpoint sumf (f : nat -> R) (n : nat) : R :=
  match n with O => 0 | S k => sumf f k + f k end.

Lemma sumf_ext f g n : (forall k, (k < n)%nat -> f k = g k) -> sumf f n = sumf g n.
Proof.
  induction n as [|n IH]; intros H; simpl; [reflexivity|].
  rewrite IH by (intros; apply H; lia). rewrite H by lia. reflexivity.
Qed.

Lemma sumf_scal c f n : sumf (fun k => c * f k) n = c * sumf f n.
Proof. induction n as [|n IH]; simpl; [ring|rewrite IH; ring]. Qed.

Lemma sumf_scal_r c f n : sumf (fun k => f k * c) n = sumf f n * c.
Proof. induction n as [|n IH]; simpl; [ring|rewrite IH; ring]. Qed.

Lemma sumf_plus f g n : sumf (fun k => f k + g k) n = sumf f n + sumf g n.
Proof. induction n as [|n IH]; simpl; [ring|rewrite IH; ring]. Qed.

Lemma sumf_minus f g n : sumf (fun k => f k - g k) n = sumf f n - sumf g n.
Proof. induction n as [|n IH]; simpl; [ring|rewrite IH; ring]. Qed.

Lemma sumf_zero n : sumf (fun _ => 0) n = 0.
Proof. induction n as [|n IH]; simpl; [reflexivity|rewrite IH; ring]. Qed.

Lemma sumf_nonneg f n : (forall k, (k < n)%nat -> 0 <= f k) -> 0 <= sumf f n.
Proof.
  induction n as [|n IH]; intros H; simpl; [lra|].
  assert (0 <= sumf f n) by (apply IH; intros; apply H; lia). assert (0 <= f n) by (apply H; lia). lra.
Qed.

Lemma sumf_term_le f n k : (forall j, (j < n)%nat -> 0 <= f j) -> (k < n)%nat -> f k <= sumf f n.
Proof.
  induction n as [|n IH]; intros H Hk; [lia|]. simpl.
  assert (0 <= sumf f n) by (apply sumf_nonneg; intros; apply H; lia).
  assert (0 <= f n) by (apply H; lia).
  destruct (Nat.eq_dec k n) as [->|Hne]; [lra|].
  assert (f k <= sumf f n) by (apply IH; [intros; apply H; lia|lia]). lra.
Qed.

Lemma sumf_zero_terms f n : (forall j, (j < n)%nat -> 0 <= f j) -> sumf f n = 0 -> forall k, (k < n)%nat -> f k = 0.
Proof.
  intros H H0 k Hk. assert (f k <= sumf f n) by (now apply sumf_term_le). assert (0 <= f k) by (now apply H). lra.
Qed.

Lemma sumf_abs_le f n : Rabs (sumf f n) <= sumf (fun k => Rabs (f k)) n.
Proof.
  induction n as [|n IH]; simpl; [rewrite Rabs_R0; lra|].
  eapply Rle_trans; [apply Rabs_triang|]. lra.
Qed.

Lemma sumf_le f g n : (forall k, (k < n)%nat -> f k <= g k) -> sumf f n <= sumf g n.
Proof.
  induction n as [|n IH]; intros H; simpl; [lra|].
  assert (sumf f n <= sumf g n) by (apply IH; intros; apply H; lia). assert (f n <= g n) by (apply H; lia). lra.
Qed.

(** ** the specifications *)
Inductive spec :=
| ChemicalPotential
| Moles (N : nat -> R)            (* per segment, as [moles_from_profile] produces it *)
| TotalMoles (Ntot : R).

(** [DFTSpecifications::calculate_bulk_density] (S = number of segments) *)
Definition calc_bulk (S : nat) (sp : spec) (rhob z : nat -> R) : nat -> R :=
  match sp with
  | ChemicalPotential => rhob
  | Moles N => fun i => N i / z i
  | TotalMoles Nt => fun i => rhob i * Nt / sumf (fun j => rhob j * z j) S
  end.

Section EL.
  Variables (S G : nat).
  Variable w : nat -> R.
  Variable e : nat -> nat -> R.
  Variable rho : nat -> nat -> R.
  Variable rhob : nat -> R.
  Variable sp : spec.

  Definition integ (f : nat -> R) : R := sumf (fun g => w g * f g) G.
  Definition rho_proj (i g : nat) : R := e i g * rhob i.
  (** current code: z is integrated before the bulk density is multiplied in *)
  Definition z_before (i : nat) : R := integ (e i).
  Definition res_bulk (i : nat) : R := calc_bulk S sp rhob z_before i - rhob i.
  (** the code before the repair: z of rho_projected, opposite sign *)
  Definition z_after (i : nat) : R := integ (rho_proj i).
  Definition res_bulk_old (i : nat) : R := rhob i - calc_bulk S sp rhob z_after i.

  Definition diff (i g : nat) : R := rho i g - rho_proj i g.
  Definition sumsq : R :=
    sumf (fun i => sumf (fun g => diff i g * diff i g) G) S + sumf (fun i => res_bulk i * res_bulk i) S.
  Definition res_norm : R := sqrt sumsq / sqrt (INR (S * G + S)).

  (** number of particles of segment i in the profile ([integrate_reduced_comp], [moles()]) *)
  Definition moles (i : nat) : R := integ (rho i).

  (** the solver's stopping test in the limit tol -> 0 *)
  Definition stationary : Prop :=
    (forall i g, (i < S)%nat -> (g < G)%nat -> diff i g = 0) /\ (forall i, (i < S)%nat -> res_bulk i = 0).
  Definition stationary_old : Prop :=
    (forall i g, (i < S)%nat -> (g < G)%nat -> diff i g = 0) /\ (forall i, (i < S)%nat -> res_bulk_old i = 0).

  (** the specification is met by the profile *)
  Definition spec_met : Prop :=
    match sp with
    | ChemicalPotential => True
    | Moles N => forall i, (i < S)%nat -> moles i = N i
    | TotalMoles Nt => sumf moles S = Nt
    end.

  (** the denominators of [calculate_bulk_density] are non-zero *)
  Definition nondegenerate : Prop :=
    match sp with
    | ChemicalPotential => True
    | Moles _ => forall i, (i < S)%nat -> z_before i <> 0
    | TotalMoles _ => sumf (fun j => rhob j * z_before j) S <> 0
    end.

  (** *** the residual norm *)

  Lemma sumsq_nonneg : 0 <= sumsq.
  Proof.
    unfold sumsq. apply Rplus_le_le_0_compat.
    - apply sumf_nonneg; intros. apply sumf_nonneg; intros. nra.
    - apply sumf_nonneg; intros. nra.
  Qed.

  Lemma size_pos : (0 < S)%nat -> 0 < sqrt (INR (S * G + S)).
  Proof. intros H. apply sqrt_lt_R0. apply lt_0_INR. lia. Qed.

  Lemma sumsq_zero_iff : sumsq = 0 <-> stationary.
  Proof.
    unfold sumsq, stationary. split.
    - intros H.
      assert (A : 0 <= sumf (fun i => sumf (fun g => diff i g * diff i g) G) S)
        by (apply sumf_nonneg; intros; apply sumf_nonneg; intros; nra).
      assert (B : 0 <= sumf (fun i => res_bulk i * res_bulk i) S) by (apply sumf_nonneg; intros; nra).
      assert (A0 : sumf (fun i => sumf (fun g => diff i g * diff i g) G) S = 0) by lra.
      assert (B0 : sumf (fun i => res_bulk i * res_bulk i) S = 0) by lra.
      split.
      + intros i g Hi Hg.
        assert (Hi0 : sumf (fun g => diff i g * diff i g) G = 0).
        { apply (sumf_zero_terms (fun i => sumf (fun g => diff i g * diff i g) G) S); auto.
          intros; apply sumf_nonneg; intros; nra. }
        assert (Hg0 : diff i g * diff i g = 0).
        { apply (sumf_zero_terms (fun g => diff i g * diff i g) G); auto. intros; nra. }
        nra.
      + intros i Hi.
        assert (H0 : res_bulk i * res_bulk i = 0).
        { apply (sumf_zero_terms (fun i => res_bulk i * res_bulk i) S); auto. intros; nra. }
        nra.
    - intros [Hd Hb].
      rewrite (sumf_ext _ (fun _ => 0)).
      + rewrite (sumf_ext (fun i => res_bulk i * res_bulk i) (fun _ => 0)).
        * rewrite !sumf_zero. ring.
        * intros i Hi. rewrite Hb by assumption. ring.
      + intros i Hi. rewrite (sumf_ext _ (fun _ => 0)); [apply sumf_zero|].
        intros g Hg. rewrite Hd by assumption. ring.
  Qed.

  (** the norm vanishes exactly at a stationary point (of density AND bulk densities) *)
  Theorem norm_zero_iff : (0 < S)%nat -> (res_norm = 0 <-> stationary).
  Proof.
    intros HS. rewrite <- sumsq_zero_iff. unfold res_norm. pose proof (size_pos HS) as Hn. pose proof sumsq_nonneg as Hq.
    split.
    - intros H. assert (H1 : sqrt sumsq = 0).
      { unfold Rdiv in H. apply Rmult_integral in H. destruct H as [H|H]; [assumption|].
        exfalso. apply (Rinv_neq_0_compat (sqrt (INR (S * G + S)))); [lra|assumption]. }
      now apply sqrt_eq_0.
    - intros H. rewrite H, sqrt_0. unfold Rdiv. ring.
  Qed.

  Lemma norm_nonneg : (0 < S)%nat -> 0 <= res_norm.
  Proof.
    intros HS. unfold res_norm. pose proof (size_pos HS). apply Rmult_le_pos; [apply sqrt_pos|].
    left. now apply Rinv_0_lt_compat.
  Qed.

  Lemma sqrt_sumsq_eq : (0 < S)%nat -> sqrt sumsq = res_norm * sqrt (INR (S * G + S)).
  Proof. intros HS. unfold res_norm. pose proof (size_pos HS). field. lra. Qed.

  Lemma sq_le_abs_le_sqrt x y : 0 <= y -> x * x <= y -> Rabs x <= sqrt y.
  Proof.
    intros Hy H. rewrite <- sqrt_Rsqr_abs. apply sqrt_le_1_alt. unfold Rsqr. assumption.
  Qed.

  (** RMS below tol: every single entry of (rho - rho_projected) and of res_bulk is bounded by tol * sqrt(size) *)
  Theorem norm_bounds_entries tol : (0 < S)%nat -> res_norm < tol ->
    (forall i g, (i < S)%nat -> (g < G)%nat -> Rabs (diff i g) < tol * sqrt (INR (S * G + S))) /\
    (forall i, (i < S)%nat -> Rabs (res_bulk i) < tol * sqrt (INR (S * G + S))).
  Proof.
    intros HS Hlt. pose proof (size_pos HS) as Hn. pose proof sumsq_nonneg as Hq.
    assert (Hs : sqrt sumsq < tol * sqrt (INR (S * G + S))).
    { rewrite sqrt_sumsq_eq by assumption. apply Rmult_lt_compat_r; assumption. }
    assert (A : 0 <= sumf (fun i => sumf (fun g => diff i g * diff i g) G) S)
      by (apply sumf_nonneg; intros; apply sumf_nonneg; intros; nra).
    assert (B : 0 <= sumf (fun i => res_bulk i * res_bulk i) S) by (apply sumf_nonneg; intros; nra).
    split.
    - intros i g Hi Hg. eapply Rle_lt_trans; [|exact Hs]. apply sq_le_abs_le_sqrt; [assumption|].
      unfold sumsq.
      assert (diff i g * diff i g <= sumf (fun g => diff i g * diff i g) G).
      { apply (sumf_term_le (fun g => diff i g * diff i g)); [intros; nra|assumption]. }
      assert (sumf (fun g => diff i g * diff i g) G <= sumf (fun i => sumf (fun g => diff i g * diff i g) G) S).
      { apply (sumf_term_le (fun i => sumf (fun g => diff i g * diff i g) G)); [|assumption].
        intros; apply sumf_nonneg; intros; nra. }
      lra.
    - intros i Hi. eapply Rle_lt_trans; [|exact Hs]. apply sq_le_abs_le_sqrt; [assumption|].
      unfold sumsq.
      assert (res_bulk i * res_bulk i <= sumf (fun i => res_bulk i * res_bulk i) S).
      { apply (sumf_term_le (fun i => res_bulk i * res_bulk i)); [intros; nra|assumption]. }
      lra.
  Qed.

  (** *** particle numbers *)

  Lemma moles_split i : moles i = integ (diff i) + rhob i * z_before i.
  Proof.
    unfold moles, integ, z_before, integ, diff, rho_proj.
    rewrite <- sumf_scal, <- sumf_plus. apply sumf_ext. intros; ring.
  Qed.

  (** exact balance for a per-segment particle number, at ANY profile (not only at a stationary one) *)
  Theorem moles_balance N i : sp = Moles N -> z_before i <> 0 ->
    moles i - N i = integ (diff i) - res_bulk i * z_before i.
  Proof.
    intros Hsp Hz. rewrite moles_split. unfold res_bulk. rewrite Hsp. simpl. field. assumption.
  Qed.

  (** exact balance for the total particle number *)
  Theorem total_moles_balance Nt i : sp = TotalMoles Nt ->
    sumf (fun j => rhob j * z_before j) S <> 0 -> rhob i <> 0 ->
    sumf moles S - Nt =
      sumf (fun j => integ (diff j)) S - res_bulk i / rhob i * sumf (fun j => rhob j * z_before j) S.
  Proof.
    intros Hsp HD Hr. rewrite (sumf_ext moles (fun j => integ (diff j) + rhob j * z_before j)) by (intros; apply moles_split).
    rewrite sumf_plus. unfold res_bulk. rewrite Hsp. simpl. field. split; assumption.
  Qed.

  (** THE PROPERTY (specification algebra): a stationary point of the coded equations contains the specified
      number of particles — per segment for [Moles], in total for [TotalMoles]. *)
  Theorem spec_fixed_point : nondegenerate -> stationary -> spec_met.
  Proof.
    intros Hnd [Hd Hb]. unfold spec_met, nondegenerate in *. destruct sp as [|N|Nt] eqn:Hsp; [exact I| |].
    - intros i Hi. pose proof (moles_balance N i Hsp (Hnd i Hi)) as H.
      rewrite (Hb i Hi) in H.
      assert (Hz : integ (diff i) = 0).
      { unfold integ. rewrite (sumf_ext _ (fun _ => 0)); [apply sumf_zero|]. intros g Hg. rewrite Hd by assumption. ring. }
      rewrite Hz in H. lra.
    - (* some bulk density is non-zero because the denominator is *)
      assert (Hex : exists i, (i < S)%nat /\ rhob i <> 0).
      { clear -Hnd. induction S as [|n IH]; simpl in Hnd; [exfalso; apply Hnd; reflexivity|].
        destruct (Req_dec (rhob n) 0) as [H0|H0].
        - rewrite H0 in Hnd. assert (Hn : sumf (fun j => rhob j * z_before j) n <> 0) by (intros Hc; apply Hnd; rewrite Hc; ring).
          destruct (IH Hn) as (i & Hi & Hr). exists i. split; [lia|assumption].
        - exists n. split; [lia|assumption]. }
      destruct Hex as (i & Hi & Hr).
      pose proof (total_moles_balance Nt i Hsp Hnd Hr) as H. rewrite (Hb i Hi) in H.
      assert (Hz : sumf (fun j => integ (diff j)) S = 0).
      { rewrite (sumf_ext _ (fun _ => 0)); [apply sumf_zero|]. intros j Hj. unfold integ.
        rewrite (sumf_ext _ (fun _ => 0)); [apply sumf_zero|]. intros g Hg. rewrite Hd by assumption. ring. }
      rewrite Hz in H. unfold Rdiv in H. lra.
  Qed.

  (** quantitative version for [Moles]: how far the particle number can be off at an accepted (not exactly
      stationary) profile, in terms of the quantities [residual()] returns *)
  Theorem moles_error_bound N i : sp = Moles N -> z_before i <> 0 ->
    Rabs (moles i - N i) <= sumf (fun g => Rabs (w g) * Rabs (diff i g)) G + Rabs (res_bulk i) * Rabs (z_before i).
  Proof.
    intros Hsp Hz. rewrite (moles_balance N i Hsp Hz). unfold Rminus.
    eapply Rle_trans; [apply Rabs_triang|]. rewrite Rabs_Ropp, Rabs_mult.
    apply Rplus_le_compat_r. unfold integ. eapply Rle_trans; [apply sumf_abs_le|].
    apply Req_le. apply sumf_ext. intros; apply Rabs_mult.
  Qed.

  (** *** the default specification *)
  Theorem chemical_potential_res_bulk_zero : sp = ChemicalPotential -> forall i, res_bulk i = 0.
  Proof. intros H i. unfold res_bulk. rewrite H. simpl. ring. Qed.

  (** *** the code before the repair: its stationary points contain N_i / rho_b,i particles *)
  Theorem spec_fixed_point_old_characterisation N :
    sp = Moles N -> (forall i, (i < S)%nat -> z_after i <> 0) -> stationary_old ->
    forall i, (i < S)%nat -> rhob i * moles i = N i.
  Proof.
    intros Hsp Hz [Hd Hb] i Hi.
    assert (Hm : moles i = z_after i).
    { unfold moles, z_after, integ. apply sumf_ext. intros g Hg. specialize (Hd i g Hi Hg). unfold diff in Hd.
      replace (rho i g) with (rho_proj i g) by lra. reflexivity. }
    specialize (Hb i Hi). unfold res_bulk_old in Hb. rewrite Hsp in Hb. simpl in Hb.
    rewrite Hm. specialize (Hz i Hi).
    assert (rhob i = N i / z_after i) by lra. rewrite H at 1. field. assumption.
  Qed.
End EL.

(** the full statement fails for the order the code had before the repair: one grid point, one segment *)
Theorem spec_fixed_point_old_refuted :
  exists (w : nat -> R) (e rho : nat -> nat -> R) (rhob N : nat -> R),
    stationary_old 1 1 w e rho rhob (Moles N) /\ (forall i, (i < 1)%nat -> z_after 1 w e rhob i <> 0) /\
    moles 1 w rho 0 <> N 0%nat.
Proof.
  exists (fun _ => 1), (fun _ _ => 1), (fun _ _ => 2), (fun _ => 2), (fun _ => 4).
  unfold stationary_old, diff, res_bulk_old, rho_proj, z_after, moles, integ, calc_bulk. simpl.
  repeat split; intros; try lra; unfold rho_proj.
  - replace (0 + 1 * (1 * 2)) with 2 by ring. lra.
  - lra.
Qed.

(** non-vacuity of [spec_fixed_point]: a stationary, non-degenerate one-point profile with N = 4 *)
Example spec_fixed_point_inhabited :
  let w := fun _ : nat => 1 in let e := fun _ _ : nat => 2 in let rhob := fun _ : nat => 2 in
  let rho := fun _ _ : nat => 4 in let N := fun _ : nat => 4 in
  nondegenerate 1 1 w e rhob (Moles N) /\ stationary 1 1 w e rho rhob (Moles N) /\ moles 1 w rho 0 = 4.
Proof.
  unfold nondegenerate, stationary, diff, res_bulk, rho_proj, z_before, moles, integ, calc_bulk. simpl.
  repeat split; intros; try lra.
Qed.

Example spec_fixed_point_total_inhabited :
  let w := fun _ : nat => 1 in let e := fun _ _ : nat => 2 in let rhob := fun _ : nat => 1 in
  let rho := fun _ _ : nat => 2 in
  nondegenerate 2 1 w e rhob (TotalMoles 4) /\ stationary 2 1 w e rho rhob (TotalMoles 4) /\
  sumf (moles 1 w rho) 2 = 4.
Proof.
  unfold nondegenerate, stationary, diff, res_bulk, rho_proj, z_before, moles, integ, calc_bulk. simpl.
  repeat split; intros; try lra.
Qed.

(** ** the bulk-density updates of the stages *)

(** Picard, [log = false]: rho_b += alpha * res_bulk.  With the Boltzmann factor frozen (one evaluation) the
    target t = N / z does not depend on rho_b and the coded update is a contraction towards it ... *)
Theorem picard_bulk_update_contracts t rb alpha :
  0 < alpha <= 1 -> Rabs ((rb + alpha * (t - rb)) - t) = (1 - alpha) * Rabs (rb - t).
Proof.
  intros Ha. replace (rb + alpha * (t - rb) - t) with ((1 - alpha) * (rb - t)) by ring.
  rewrite Rabs_mult, (Rabs_right (1 - alpha)) by lra. reflexivity.
Qed.

(** ... whereas with the sign the code had before the repair (res_bulk = rho_b - target) every step moves
    the bulk density AWAY from its target *)
Theorem picard_bulk_update_old_sign_repels t rb alpha :
  0 < alpha -> Rabs ((rb + alpha * (rb - t)) - t) = (1 + alpha) * Rabs (rb - t).
Proof.
  intros Ha. replace (rb + alpha * (rb - t) - t) with ((1 + alpha) * (rb - t)) by ring.
  rewrite Rabs_mult, (Rabs_right (1 + alpha)) by lra. reflexivity.
Qed.

(** with the default specification the bulk densities are never changed by any stage:
    Picard (both variants), Anderson mixing (coefficients sum to one; both variants), Newton ([abs] only) *)
Theorem bulk_unchanged_picard rb alpha : rb + alpha * 0 = rb.
Proof. ring. Qed.

Theorem bulk_unchanged_picard_log rb alpha : rb * exp (0 * alpha) = rb.
Proof. rewrite Rmult_0_l, exp_0. ring. Qed.

Theorem bulk_unchanged_anderson (a : nat -> R) (m : nat) rb beta :
  sumf a m = 1 -> 0 <= rb -> Rabs (sumf (fun k => a k * (rb + beta * 0)) m) = rb.
Proof.
  intros Ha Hr. rewrite sumf_scal_r, Ha. replace (1 * (rb + beta * 0)) with rb by ring. now apply Rabs_right, Rle_ge.
Qed.

Theorem bulk_unchanged_anderson_log (a : nat -> R) (m : nat) rb beta :
  sumf a m = 1 -> 0 < rb -> exp (sumf (fun k => a k * (ln rb + beta * 0)) m) = rb.
Proof.
  intros Ha Hr. rewrite sumf_scal_r, Ha. replace (1 * (ln rb + beta * 0)) with (ln rb) by ring. now apply exp_ln.
Qed.

Theorem bulk_unchanged_newton rb : 0 <= rb -> Rabs rb = rb.
Proof. intros H. now apply Rabs_right, Rle_ge. Qed.

Theorem bulk_unchanged_all :
  (forall (S G : nat) (w : nat -> R) (e : nat -> nat -> R) (rhob : nat -> R) i,
     res_bulk S G w e rhob ChemicalPotential i = 0) /\
  (forall rb alpha, rb + alpha * 0 = rb) /\
  (forall rb alpha, rb * exp (0 * alpha) = rb) /\
  (forall (a : nat -> R) m rb beta, sumf a m = 1 -> 0 <= rb -> Rabs (sumf (fun k => a k * (rb + beta * 0)) m) = rb) /\
  (forall (a : nat -> R) m rb beta, sumf a m = 1 -> 0 < rb -> exp (sumf (fun k => a k * (ln rb + beta * 0)) m) = rb) /\
  (forall rb, 0 <= rb -> Rabs rb = rb).
Proof.
  exact (conj (fun S G w e rhob => chemical_potential_res_bulk_zero S G w e rhob ChemicalPotential eq_refl)
        (conj bulk_unchanged_picard (conj bulk_unchanged_picard_log
        (conj bulk_unchanged_anderson (conj bulk_unchanged_anderson_log bulk_unchanged_newton))))).
Qed.

(** ** specifications taken from a profile ([DFTSpecifications::moles_from_profile] / [total_moles_from_profile],
    used by [PlanarInterface::from_tanh / from_pdgt (.., fix_equimolar_surface = true)]): the particle numbers of
    the profile they are computed from — the INITIAL profile when the entry points are used as documented *)
Definition moles_from_profile (G : nat) (w : nat -> R) (rho0 : nat -> nat -> R) : spec := Moles (moles G w rho0).
Definition total_moles_from_profile (S G : nat) (w : nat -> R) (rho0 : nat -> nat -> R) : spec :=
  TotalMoles (sumf (moles G w rho0) S).

(** a stationary point reached with such a specification contains the particle numbers of the initial profile,
    whatever the iteration did in between (this is what "fix the equimolar surface" means) *)
Theorem moles_from_profile_preserved S G w e rho rhob rho0 :
  nondegenerate S G w e rhob (moles_from_profile G w rho0) ->
  stationary S G w e rho rhob (moles_from_profile G w rho0) ->
  forall i, (i < S)%nat -> moles G w rho i = moles G w rho0 i.
Proof. intros Hn Hs. exact (spec_fixed_point S G w e rho rhob _ Hn Hs). Qed.

Theorem total_moles_from_profile_preserved S G w e rho rhob rho0 :
  nondegenerate S G w e rhob (total_moles_from_profile S G w rho0) ->
  stationary S G w e rho rhob (total_moles_from_profile S G w rho0) ->
  sumf (moles G w rho) S = sumf (moles G w rho0) S.
Proof. intros Hn Hs. exact (spec_fixed_point S G w e rho rhob _ Hn Hs). Qed.

(** a specification taken from a profile is met by that profile *)
Theorem from_profile_met_initially S G w rho0 :
  spec_met S G w rho0 (moles_from_profile G w rho0) /\ spec_met S G w rho0 (total_moles_from_profile S G w rho0).
Proof. split; simpl; auto. Qed.

(** ** reading and writing back the bulk state in [DFTProfile::solve] (segments vs components)

    [solve] reads the bulk densities per SEGMENT, rho_b s = partial_density (component_index s), hands them to the
    solver and afterwards rebuilds the bulk state by
        for (s, r) in bulk_density.enumerate() { moles.set(component_index[s], r * V) }      (V = 1)
    [ci] = component_index (S segments, C components). *)
Definition gather (ci : nat -> nat) (pd : nat -> R) : nat -> R := fun s => pd (ci s).

Fixpoint write_back (ci : nat -> nat) (rb : nat -> R) (S : nat) (m0 : nat -> R) : nat -> R :=
  match S with
  | O => m0
  | Datatypes.S k => fun c => if Nat.eqb c (ci k) then rb k else write_back ci rb k m0 c
  end.

(** if the segment densities the solver returns are consistent with component densities [f] (every segment of
    component c carries f c) and every component has a segment, the rebuilt bulk state has exactly the densities f *)
Theorem write_back_gather ci rb f S m0 c :
  (forall s, (s < S)%nat -> rb s = f (ci s)) -> (exists s, (s < S)%nat /\ ci s = c) ->
  write_back ci rb S m0 c = f c.
Proof.
  induction S as [|k IH]; intros Hrb [s [Hs Hc]]; [lia|]. simpl.
  destruct (Nat.eqb c (ci k)) eqn:E.
  - apply Nat.eqb_eq in E. rewrite Hrb by lia. now rewrite E.
  - apply Nat.eqb_neq in E. apply IH.
    + intros s' Hs'. apply Hrb. lia.
    + exists s. split; [|assumption]. destruct (Nat.eq_dec s k) as [->|Hne]; [congruence|lia].
Qed.

(** default specification, end to end: read per segment, no stage changes the segment densities
    ([bulk_unchanged_all]), write back — the bulk state of the profile is unchanged *)
Theorem bulk_roundtrip ci pd S m0 c :
  (exists s, (s < S)%nat /\ ci s = c) -> write_back ci (gather ci pd) S m0 c = pd c.
Proof. intros H. apply write_back_gather; [reflexivity|assumption]. Qed.

(** components without a segment keep their old entry *)
Theorem write_back_untouched ci rb S m0 c :
  (forall s, (s < S)%nat -> ci s <> c) -> write_back ci rb S m0 c = m0 c.
Proof.
  induction S as [|k IH]; intros H; [reflexivity|]. simpl.
  destruct (Nat.eqb c (ci k)) eqn:E.
  - apply Nat.eqb_eq in E. exfalso. apply (H k); [lia|congruence].
  - apply IH. intros s Hs. apply H. lia.
Qed.

(** the component index matters: writing segment i to component i (for i < C) is wrong as soon as a molecule has
    more than one segment — witness: two components with 3 + 4 segments (propane / butane in gc-PC-SAFT) *)
Definition write_back_by_position (rb : nat -> R) (C : nat) (m0 : nat -> R) : nat -> R :=
  fun c => if Nat.ltb c C then rb c else m0 c.

Theorem write_back_by_position_refuted :
  exists (ci : nat -> nat) (pd : nat -> R) (m0 : nat -> R),
    (forall c, (c < 2)%nat -> exists s, (s < 7)%nat /\ ci s = c) /\
    write_back ci (gather ci pd) 7 m0 1%nat = pd 1%nat /\
    write_back_by_position (gather ci pd) 2 m0 1%nat <> pd 1%nat.
Proof.
  exists (fun s => if Nat.ltb s 3 then 0%nat else 1%nat), (fun c => match c with O => 1 | _ => 2 end), (fun _ => 0).
  split; [|split].
  - intros c Hc. destruct c as [|[|c]]; [exists 0%nat|exists 3%nat|lia]; split; simpl; auto; lia.
  - reflexivity.
  - unfold write_back_by_position, gather. simpl. lra.
Qed.
