(** C07 — the start cascade of [State::tp_flash] (feos-core/src/phase_equilibria/tp_flash.rs):

      1. if an initial state is given: move it to the feed's (T, p) ([update_pressure], an error there is propagated by `?`),
         run [tp_flash_] from it and return the result IF IT IS OK;
      2. otherwise / if that failed: [vle_init_stability] (stability analysis of the feed with default options; no candidate ->
         Err(NoPhaseSplit)); run [tp_flash_] from (last candidate, second-to-last candidate or feed); return if ok;
      3. if there was a second candidate: run [tp_flash_] from (last candidate, feed) and return whatever it gives; else the error of 2.

    The clause of the property "feeds inside the two-phase region lead a flash to a phase split rather than to a no-phase-split
    error" needs, besides the stability verdict (TpdC07.v), that a given initial state can only help: a failed attempt from the
    guess must fall through to the stability-analysis start, and a NoPhaseSplit error can only mean that the stability analysis
    found no candidate.  Both are theorems about this model; the model is run against the event trace of the real function. *)
From Coq Require Import List Arith Bool Lia.
Import ListNotations.

Inductive stage : Type := SGuess | SStab1 | SStab2.
(** error kinds: 0 = NoPhaseSplit, others (IterationFailed, NotConverged, TrivialSolution, ...) are only compared *)
Definition err : Type := nat.
Definition no_phase_split : err := 0.
(** outcome of one run of [tp_flash_] *)
Inductive attempt : Type := AOk | AErr (e : err).
Inductive guess_in : Type :=
| GNone                         (* initial_state = None *)
| GUpdateFailed (e : err)       (* update_pressure failed *)
| GAttempt (a : attempt).
Inductive stab_in : Type :=
| StErr (e : err)               (* vle_init_stability failed (NoPhaseSplit when the feed is reported stable) *)
| StOne (a1 : attempt)          (* one candidate *)
| StTwo (a1 a2 : attempt).      (* two candidates: second attempt only if the first failed *)

Definition result : Type := (stage + err)%type.      (* Ok, delivered by that stage | Err *)

Definition from_stability (st : stab_in) : list stage * result :=
  match st with
  | StErr e => ([SStab1], inr e)
  | StOne AOk => ([SStab1], inl SStab1)
  | StOne (AErr e) => ([SStab1], inr e)
  | StTwo AOk _ => ([SStab1], inl SStab1)
  | StTwo (AErr _) AOk => ([SStab1; SStab2], inl SStab2)
  | StTwo (AErr _) (AErr e) => ([SStab1; SStab2], inr e)
  end.

(** stages attempted (in order) and the result *)
Definition cascade (g : guess_in) (st : stab_in) : list stage * result :=
  match g with
  | GNone => from_stability st
  | GUpdateFailed e => ([SGuess], inr e)
  | GAttempt AOk => ([SGuess], inl SGuess)
  | GAttempt (AErr _) => let (v, r) := from_stability st in (SGuess :: v, r)
  end.

Definition is_ok (r : result) : bool := match r with inl _ => true | inr _ => false end.
Definition stab_some_ok (st : stab_in) : bool :=
  match st with
  | StErr _ => false
  | StOne AOk | StTwo AOk _ | StTwo (AErr _) AOk => true
  | _ => false
  end.

(** a failed attempt from the given initial state falls back to exactly what the flash without initial state does *)
Theorem cascade_failed_guess_falls_back e st :
  snd (cascade (GAttempt (AErr e)) st) = snd (cascade GNone st)
  /\ fst (cascade (GAttempt (AErr e)) st) = SGuess :: fst (cascade GNone st).
Proof. unfold cascade. destruct (from_stability st). split; reflexivity. Qed.

(** a given initial state can only help: whenever the flash without initial state succeeds, so does the flash with one
    (unless the initial state cannot even be moved to the feed conditions) *)
Theorem cascade_guess_only_helps a st :
  is_ok (snd (cascade GNone st)) = true -> is_ok (snd (cascade (GAttempt a) st)) = true.
Proof.
  destruct a as [|e]; [reflexivity|]. intros H. destruct (cascade_failed_guess_falls_back e st) as [-> _]. exact H.
Qed.

Theorem cascade_ok_iff g st :
  is_ok (snd (cascade g st)) = true <->
  (g = GAttempt AOk \/ ((forall e, g <> GUpdateFailed e) /\ stab_some_ok st = true)).
Proof.
  destruct g as [|e|[|e]]; cbn.
  - split; [intros H; right; split; [discriminate|]|intros [H|[_ H]]; [discriminate|]];
      destruct st as [e|[|e]|[|e1] [|e2]]; cbn in *; congruence.
  - split; [discriminate|intros [H|[H _]]; [discriminate|exfalso; exact (H e eq_refl)]].
  - split; auto.
  - destruct (from_stability st) as [v r] eqn:E. cbn.
    split; [intros H; right; split; [discriminate|]|intros [H|[_ H]]; [discriminate|]];
      destruct st as [e0|[|e0]|[|e1] [|e2]]; cbn in *; inversion E; subst; cbn in *; congruence.
Qed.

(** [tp_flash_] itself never produces NoPhaseSplit (hypothesis on the attempts); then a NoPhaseSplit result of the flash means
    that the stability analysis delivered no candidate (or the guess could not be moved) — never a verdict of the guess *)
Definition attempt_not_nps (a : attempt) : Prop := a <> AErr no_phase_split.
Definition attempts_not_nps (g : guess_in) (st : stab_in) : Prop :=
  (forall a, g = GAttempt a -> attempt_not_nps a) /\
  match st with StErr _ => True | StOne a => attempt_not_nps a | StTwo a1 a2 => attempt_not_nps a1 /\ attempt_not_nps a2 end.

Theorem no_phase_split_only_from_stability g st :
  attempts_not_nps g st -> snd (cascade g st) = inr no_phase_split ->
  st = StErr no_phase_split \/ g = GUpdateFailed no_phase_split.
Proof.
  intros (Hg & Hs) H. unfold attempt_not_nps, no_phase_split in *.
  destruct g as [|e|[|e]]; cbn in H.
  - destruct st as [e|[|e]|[|e1] [|e2]]; cbn in *; try discriminate; inversion H; subst;
      try tauto; try (destruct Hs; congruence); congruence.
  - inversion H; subst. now right.
  - discriminate.
  - destruct (from_stability st) as [v r] eqn:E. cbn in H. subst r.
    destruct st as [e0|[|e0]|[|e1] [|e2]]; cbn in *; inversion E; subst;
      try tauto; try (destruct Hs; congruence); congruence.
Qed.

(** with the verdict model of TpdC07.v: a feed for which the stability analysis returns a candidate never ends in NoPhaseSplit *)
Corollary unstable_feed_never_no_phase_split g st :
  attempts_not_nps g st -> (forall e, st <> StErr e) -> (forall e, g <> GUpdateFailed e) ->
  snd (cascade g st) <> inr no_phase_split.
Proof.
  intros Ha Hs Hg H. destruct (no_phase_split_only_from_stability g st Ha H) as [E|E]; [exact (Hs _ E)|exact (Hg _ E)].
Qed.

(** runner for the generated correspondence files *)
Definition stage_code (s : stage) : nat := match s with SGuess => 0 | SStab1 => 1 | SStab2 => 2 end.
Definition result_code (r : result) : nat * nat := match r with inl s => (1, stage_code s) | inr e => (0, e) end.
Definition run_cascade (c : guess_in * stab_in) : list nat * (nat * nat) :=
  let (v, r) := cascade (fst c) (snd c) in (map stage_code v, result_code r).

Example cascade_example :
  run_cascade (GAttempt (AErr 1), StTwo (AErr 1) AOk) = ([0; 1; 2], (1, 2)) /\
  run_cascade (GAttempt (AErr 1), StErr 0) = ([0; 1], (0, 0)).
Proof. split; reflexivity. Qed.
