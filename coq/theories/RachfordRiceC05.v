(** C05 — executable model (over Q) of the private functions [rachford_rice] and [update_states] of
    feos-core/src/phase_equilibria/tp_flash.rs, and the theorems about them.

    The model follows the Rust text statement by statement.  Differences, all recorded in notes/C05.md:
    - arithmetic is exact rational arithmetic, except that every term of g and dg, the quotient g/dg and the
      Newton update [beta -= dbeta] go through an arbitrary function [rnd : Q -> Q] (standing for the
      floating-point rounding of those statements; [rnd := fun x => x] is exact arithmetic).  Every theorem
      below holds for EVERY [rnd]; the differential run uses [rnd100] (truncation to 100 binary digits after
      the point) so that the rationals stay small.
    - IEEE division by zero: the existence guard filters NaN (0/0) and lets +inf (z/0, z>0) through; this is
      modelled by [has_inf]/[sinv] on the domain z_i >= 0, K_i >= 0.  A zero denominator inside the iteration
      (which produces NaN in the implementation) makes the model return [RRUndef]. *)
From Coq Require Import QArith Qabs Qround Qminmax List ZArith Lia Lqa Bool.
Import ListNotations.
Open Scope Q_scope.

(** * helpers *)
Definition Qlt_b (a b : Q) : bool := negb (Qle_bool b a).

Lemma Qlt_b_true a b : Qlt_b a b = true <-> a < b.
Proof.
  unfold Qlt_b. rewrite negb_true_iff. split; intro H.
  - apply Qnot_le_lt. intro H1. apply Qle_bool_iff in H1. congruence.
  - destruct (Qle_bool b a) eqn:E; [|reflexivity]. apply Qle_bool_iff in E. exfalso. apply (Qlt_not_le _ _ H E).
Qed.

Lemma Qlt_b_false a b : Qlt_b a b = false <-> b <= a.
Proof.
  unfold Qlt_b. rewrite negb_false_iff. apply Qle_bool_iff.
Qed.

Definition qsum (l : list Q) : Q := fold_right Qplus 0 l.

(** a case is a list of pairs (z_i, K_i) — the Rust code zips the two arrays *)
Definition zk_list := list (Q * Q).

(** * the existence guard
    [(feed * k).sum() > 1.0 && (feed / k).iter().filter(|x| !x.is_nan()).sum::<f64>() > 1.0] *)
Definition szk (zk : zk_list) : Q := qsum (map (fun p => fst p * snd p) zk).
(** some z_i / K_i is +infinity *)
Definition has_inf (zk : zk_list) : bool := existsb (fun p => Qeq_bool (snd p) 0 && Qlt_b 0 (fst p)) zk.
(** the finite terms of sum z_i / K_i  (0/0 = NaN is filtered by the code; K_i = 0 terms are handled by [has_inf]) *)
Definition sinv (zk : zk_list) : Q := qsum (map (fun p => if Qeq_bool (snd p) 0 then 0 else fst p / snd p) zk).
Definition rr_guard (zk : zk_list) : bool := Qlt_b 1 (szk zk) && (has_inf zk || Qlt_b 1 (sinv zk)).

(** * tighter bounds *)
Definition tighten (bb : Q * Q) (p : Q * Q) : Q * Q :=
  let '(bmin, bmax) := bb in
  let '(f, k) := p in
  let bmin' := if Qlt_b 1 k then (let b := (k * f - 1) / (k - 1) in if Qlt_b bmin b then b else bmin) else bmin in
  let bmax' := if Qlt_b k 1 then (let b := (1 - f) / (1 - k) in if Qlt_b b bmax then b else bmax) else bmax in
  (bmin', bmax').
Definition bounds0 (zk : zk_list) : Q * Q := fold_left tighten zk (0, 1).

(** * the objective function and its derivative *)
Definition den (beta k : Q) : Q := 1 - beta + beta * k.
Definition gfun (rnd : Q -> Q) (zk : zk_list) (beta : Q) : Q :=
  qsum (map (fun p => rnd (fst p * (snd p - 1) / den beta (snd p))) zk).
Definition dgfun (rnd : Q -> Q) (zk : zk_list) (beta : Q) : Q :=
  - qsum (map (fun p => let fr := rnd ((snd p - 1) / den beta (snd p)) in rnd (fst p * fr * fr)) zk).
(** no division by zero when g, dg and the Newton step are evaluated at beta *)
Definition g_defined_at (zk : zk_list) (beta : Q) : bool :=
  forallb (fun p => negb (Qeq_bool (den beta (snd p)) 0)) zk.
Definition defined_at (rnd : Q -> Q) (zk : zk_list) (beta : Q) : bool :=
  g_defined_at zk beta && negb (Qeq_bool (dgfun rnd zk beta) 0).

Definition abs_tol : Q := 1 # 1000000.
Definition max_iter : nat := 10.

Inductive rr_res := RRErr | RROk (beta : Q) | RRUndef.

Definition rr_init (bb : Q * Q) (b0 : option Q) : Q :=
  let '(bmin, bmax) := bb in
  let mid := (1 # 2) * (bmin + bmax) in
  match b0 with
  | Some b => if Qlt_b bmin b && Qlt_b b bmax then b else mid
  | None => mid
  end.

(** bracket update  [if g > 0.0 { beta_min = beta } else { beta_max = beta }] *)
Definition upd (rnd : Q -> Q) (zk : zk_list) (bmin bmax beta : Q) : Q * Q :=
  if Qlt_b 0 (gfun rnd zk beta) then (beta, bmax) else (bmin, beta).

(** one pass of the loop body; [true] = the tolerance test succeeded *)
Definition rr_step (rnd : Q -> Q) (zk : zk_list) (s : Q * Q * Q) : (Q * Q * Q) * bool :=
  let '(bmin, bmax, beta) := s in
  let g := gfun rnd zk beta in
  let dg := dgfun rnd zk beta in
  let '(bmin1, bmax1) := upd rnd zk bmin bmax beta in
  let dbeta := rnd (g / dg) in
  let b1 := rnd (beta - dbeta) in
  let b2 := if Qlt_b b1 bmin1 || Qlt_b bmax1 b1 then (1 # 2) * (bmin1 + bmax1) else b1 in
  ((bmin1, bmax1, b2), Qlt_b (Qabs dbeta) abs_tol).

Fixpoint rr_iter (rnd : Q -> Q) (zk : zk_list) (n : nat) (s : Q * Q * Q) : rr_res :=
  match n with
  | O => RROk (snd s)
  | S n' =>
    if defined_at rnd zk (snd s) then
      let '(s', fin) := rr_step rnd zk s in
      if fin then RROk (snd s') else rr_iter rnd zk n' s'
    else RRUndef
  end.

Definition rr (rnd : Q -> Q) (zk : zk_list) (b0 : option Q) : rr_res :=
  if rr_guard zk then
    let bb := bounds0 zk in
    let beta := rr_init bb b0 in
    if g_defined_at zk beta then
      let '(bmin1, bmax1) := upd rnd zk (fst bb) (snd bb) beta in
      rr_iter rnd zk max_iter (bmin1, bmax1, beta)
    else RRUndef
  else RRErr.

(** * [update_states]: the split of the feed *)
Definition vfrac (beta k : Q) : Q := beta * k / den beta k.
Definition lfrac (beta k : Q) : Q := (1 - beta) / den beta k.
(** per component: (feed amount n_i, K_i) -> (v_i, l_i) *)
Definition split (beta : Q) (nk : list (Q * Q)) : list (Q * Q) :=
  map (fun p => (fst p * vfrac beta (snd p), fst p * lfrac beta (snd p))) nk.

(** [update_states]: Rachford-Rice on the feed mole fractions z (started from the current vapor fraction), then
    the split of the feed amounts n *)
Definition update_split (rnd : Q -> Q) (z n k : list Q) (beta_in : Q) : option (Q * list (Q * Q)) :=
  match rr rnd (combine z k) (Some beta_in) with
  | RROk beta => Some (beta, split beta (combine n k))
  | _ => None
  end.

(* ------------------------------------------------------------------------------------------------ *)
(** * Theorems *)

(** ** the guard *)
Theorem rr_err_iff_guard rnd zk b0 : rr rnd zk b0 = RRErr <-> rr_guard zk = false.
Proof.
  unfold rr. destruct (rr_guard zk) eqn:G; split; intro H; try reflexivity; try discriminate.
  exfalso. destruct (g_defined_at zk _); [|discriminate].
  destruct (upd rnd zk _ _ _) as [a b].
  assert (forall n s, rr_iter rnd zk n s <> RRErr) as Hn.
  { induction n; intros s; cbn [rr_iter]; [discriminate|].
    destruct (defined_at rnd zk (snd s)); [|discriminate].
    destruct (rr_step rnd zk s) as [s' fin]. destruct fin; [discriminate|apply IHn]. }
  exact (Hn _ _ H).
Qed.

Theorem rr_guard_false_iff zk :
  rr_guard zk = false <-> (szk zk <= 1 \/ (has_inf zk = false /\ sinv zk <= 1)).
Proof.
  unfold rr_guard. rewrite andb_false_iff, orb_false_iff, !Qlt_b_false. tauto.
Qed.

(** the error branch is taken exactly when  sum z K <= 1  or  sum z/K <= 1  (the latter in IEEE extended
    arithmetic: no term is +infinity and the finite terms sum to at most one) *)
Theorem rr_exists_guard rnd zk b0 :
  rr rnd zk b0 = RRErr <-> (szk zk <= 1 \/ (has_inf zk = false /\ sinv zk <= 1)).
Proof. rewrite rr_err_iff_guard. apply rr_guard_false_iff. Qed.

(** on strictly positive K the two sums are the textbook ones *)
Lemma has_inf_pos zk : (forall p, In p zk -> 0 < snd p) -> has_inf zk = false.
Proof.
  intros H. unfold has_inf. induction zk as [|p zk IH]; [reflexivity|]. cbn [existsb].
  rewrite IH by (intros q Hq; apply H; right; exact Hq).
  assert (0 < snd p) as Hp by (apply H; left; reflexivity).
  destruct (Qeq_bool (snd p) 0) eqn:E; [|reflexivity].
  apply Qeq_bool_iff in E. rewrite E in Hp. exfalso. apply (Qlt_irrefl 0 Hp).
Qed.

Lemma sinv_pos zk : (forall p, In p zk -> 0 < snd p) -> sinv zk == qsum (map (fun p => fst p / snd p) zk).
Proof.
  intros H. unfold sinv. induction zk as [|p zk IH]; [reflexivity|]. cbn [map qsum fold_right].
  fold (qsum (map (fun p => if Qeq_bool (snd p) 0 then 0 else fst p / snd p) zk)).
  fold (qsum (map (fun p => fst p / snd p) zk)).
  rewrite IH by (intros q Hq; apply H; right; exact Hq).
  assert (0 < snd p) as Hp by (apply H; left; reflexivity).
  destruct (Qeq_bool (snd p) 0) eqn:E; [|reflexivity].
  apply Qeq_bool_iff in E. rewrite E in Hp. exfalso. apply (Qlt_irrefl 0 Hp).
Qed.

Theorem rr_exists_guard_pos rnd zk b0 : (forall p, In p zk -> 0 < snd p) ->
  (rr rnd zk b0 = RRErr <-> (szk zk <= 1 \/ qsum (map (fun p => fst p / snd p) zk) <= 1)).
Proof.
  intros H. rewrite rr_exists_guard, (has_inf_pos zk H), (sinv_pos zk H). tauto.
Qed.

(** ** the bracket *)
Definition inb (L H x : Q) : Prop := L <= x /\ x <= H.
Definition Inv (L H : Q) (s : Q * Q * Q) : Prop :=
  let '(bmin, bmax, beta) := s in inb L H bmin /\ inb L H bmax /\ inb L H beta.

Lemma mid_inb L H a b : inb L H a -> inb L H b -> inb L H ((1 # 2) * (a + b)).
Proof. unfold inb. intros [? ?] [? ?]. split; lra. Qed.

Lemma upd_inv rnd zk L H bmin bmax beta :
  inb L H bmin -> inb L H bmax -> inb L H beta ->
  inb L H (fst (upd rnd zk bmin bmax beta)) /\ inb L H (snd (upd rnd zk bmin bmax beta)).
Proof. intros. unfold upd. destruct (Qlt_b 0 (gfun rnd zk beta)); cbn; auto. Qed.

Lemma rr_step_inv rnd zk L H s : Inv L H s -> Inv L H (fst (rr_step rnd zk s)).
Proof.
  destruct s as [[bmin bmax] beta]. intros (Hmin & Hmax & Hb). unfold rr_step.
  pose proof (upd_inv rnd zk L H bmin bmax beta Hmin Hmax Hb) as [H1 H2].
  destruct (upd rnd zk bmin bmax beta) as [bmin1 bmax1]. cbn [fst snd] in *.
  cbn [Inv fst]. split; [exact H1|]. split; [exact H2|].
  set (b1 := rnd _).
  destruct (Qlt_b b1 bmin1) eqn:E1; cbn [orb].
  - apply mid_inb; assumption.
  - destruct (Qlt_b bmax1 b1) eqn:E2.
    + apply mid_inb; assumption.
    + apply Qlt_b_false in E1. apply Qlt_b_false in E2. destruct H1, H2. split; lra.
Qed.

Lemma rr_iter_inv rnd zk L H : forall n s beta, Inv L H s -> rr_iter rnd zk n s = RROk beta -> inb L H beta.
Proof.
  induction n; intros s beta Hs Hr; cbn [rr_iter] in Hr.
  - destruct s as [[a b] c]. injection Hr as <-. exact (proj2 (proj2 Hs)).
  - destruct (defined_at rnd zk (snd s)); [|discriminate].
    pose proof (rr_step_inv rnd zk L H s Hs) as Hs'.
    destruct (rr_step rnd zk s) as [s' fin]. cbn [fst] in Hs'.
    destruct fin.
    + injection Hr as <-. destruct s' as [[a b] c]. exact (proj2 (proj2 Hs')).
    + exact (IHn s' beta Hs' Hr).
Qed.

Lemma rr_init_inb L H bb b0 : inb L H (fst bb) -> inb L H (snd bb) -> inb L H (rr_init bb b0).
Proof.
  destruct bb as [bmin bmax]. cbn [fst snd]. intros H1 H2. unfold rr_init.
  destruct b0 as [b|]; [|apply mid_inb; assumption].
  destruct (Qlt_b bmin b) eqn:E1; cbn [andb]; [|apply mid_inb; assumption].
  destruct (Qlt_b b bmax) eqn:E2; [|apply mid_inb; assumption].
  apply Qlt_b_true in E1. apply Qlt_b_true in E2. destruct H1, H2. split; lra.
Qed.

(** generic form: whatever interval [L,H] contains the two initial bounds contains the returned beta *)
Theorem rr_bracket_gen rnd zk b0 beta L H :
  inb L H (fst (bounds0 zk)) -> inb L H (snd (bounds0 zk)) -> rr rnd zk b0 = RROk beta -> inb L H beta.
Proof.
  intros H1 H2. unfold rr. destruct (rr_guard zk); [|discriminate].
  destruct (g_defined_at zk _); [|discriminate].
  pose proof (rr_init_inb L H (bounds0 zk) b0 H1 H2) as Hb.
  pose proof (upd_inv rnd zk L H _ _ _ H1 H2 Hb) as [H3 H4].
  destruct (upd rnd zk _ _ _) as [bmin1 bmax1]. cbn [fst snd] in *.
  apply rr_iter_inv. cbn [Inv]. auto.
Qed.

(** the returned beta lies in the bracket spanned by the tightened initial bounds *)
Theorem rr_bracket_tight rnd zk b0 beta :
  rr rnd zk b0 = RROk beta ->
  Qmin (fst (bounds0 zk)) (snd (bounds0 zk)) <= beta <= Qmax (fst (bounds0 zk)) (snd (bounds0 zk)).
Proof.
  apply rr_bracket_gen; unfold inb; split;
    auto using Q.le_min_l, Q.le_min_r, Q.le_max_l, Q.le_max_r.
Qed.

(** the tightened bounds lie in [0,1] when every feed fraction does *)
Lemma tighten_01 bb p : 0 <= fst p <= 1 -> inb 0 1 (fst bb) -> inb 0 1 (snd bb) ->
  inb 0 1 (fst (tighten bb p)) /\ inb 0 1 (snd (tighten bb p)).
Proof.
  destruct bb as [bmin bmax]. destruct p as [f k]. cbn [fst snd]. intros [Hf0 Hf1] Hmin Hmax.
  unfold tighten. split; cbn [fst snd].
  - destruct (Qlt_b 1 k) eqn:Ek; [|exact Hmin].
    destruct (Qlt_b bmin _) eqn:Eb; [|exact Hmin].
    apply Qlt_b_true in Ek. apply Qlt_b_true in Eb. destruct Hmin as [Hm0 Hm1]. split; [lra|].
    apply Qle_shift_div_r; [lra|]. nra.
  - destruct (Qlt_b k 1) eqn:Ek; [|exact Hmax].
    destruct (Qlt_b _ bmax) eqn:Eb; [|exact Hmax].
    apply Qlt_b_true in Ek. apply Qlt_b_true in Eb. destruct Hmax as [Hm0 Hm1]. split; [|lra].
    apply Qle_shift_div_l; [lra|]. lra.
Qed.

Lemma bounds_01_gen zk : (forall p, In p zk -> 0 <= fst p <= 1) ->
  forall bb, inb 0 1 (fst bb) -> inb 0 1 (snd bb) ->
  inb 0 1 (fst (fold_left tighten zk bb)) /\ inb 0 1 (snd (fold_left tighten zk bb)).
Proof.
  induction zk as [|p zk IH]; intros Hz bb H1 H2; cbn [fold_left]; [auto|].
  assert (0 <= fst p <= 1) as Hp by (apply Hz; left; reflexivity).
  destruct (tighten_01 bb p Hp H1 H2) as [H3 H4].
  apply IH; auto. intros q Hq. apply Hz. right. exact Hq.
Qed.

Lemma bounds0_01 zk : (forall p, In p zk -> 0 <= fst p <= 1) ->
  inb 0 1 (fst (bounds0 zk)) /\ inb 0 1 (snd (bounds0 zk)).
Proof. intros Hz. apply bounds_01_gen; auto; cbn; unfold inb; lra. Qed.

(** [rr_bracket]: for all n, K, beta_in and every rounding of the Newton update, the returned vapor
    fraction is a number in [0,1] (loop invariant of all iterations) *)
Theorem rr_bracket rnd zk b0 beta :
  (forall p, In p zk -> 0 <= fst p <= 1) -> rr rnd zk b0 = RROk beta -> 0 <= beta <= 1.
Proof.
  intros Hz Hr. destruct (bounds0_01 zk Hz) as [H1 H2]. exact (rr_bracket_gen rnd zk b0 beta 0 1 H1 H2 Hr).
Qed.

(** ** definedness: the denominators *)
Lemma den_pos beta k : 0 <= beta <= 1 -> 0 <= k -> (beta < 1 \/ 0 < k) -> 0 < den beta k.
Proof. unfold den. intros [H0 H1] Hk [Hb|Hk']; nra. Qed.

(** a non-volatile component (K_i = 0) present in the feed keeps the upper bound below one, hence every
    denominator positive for every beta in the bracket *)
Lemma tighten_snd_le bb p : snd (tighten bb p) <= snd bb.
Proof.
  destruct bb as [bmin bmax]. destruct p as [f k]. unfold tighten. cbn [snd].
  destruct (Qlt_b k 1); [|lra]. destruct (Qlt_b _ bmax) eqn:E; [|lra]. apply Qlt_b_true in E. lra.
Qed.

Lemma fold_tighten_snd_le zk : forall bb, snd (fold_left tighten zk bb) <= snd bb.
Proof.
  induction zk as [|p zk IH]; intros bb; cbn [fold_left]; [lra|].
  eapply Qle_trans; [apply IH|apply tighten_snd_le].
Qed.

Lemma bounds0_nonvolatile zk f : In (f, 0) zk -> snd (bounds0 zk) <= 1 - f.
Proof.
  unfold bounds0. generalize (0, 1). induction zk as [|p zk IH]; intros bb Hin; [destruct Hin|].
  cbn [fold_left]. destruct Hin as [->|Hin]; [|apply IH; exact Hin].
  eapply Qle_trans; [apply fold_tighten_snd_le|].
  destruct bb as [bmin bmax]. unfold tighten. cbn [snd].
  replace (Qlt_b 0 1) with true by reflexivity.
  destruct (Qlt_b ((1 - f) / (1 - 0)) bmax) eqn:E.
  - assert ((1 - f) / (1 - 0) == 1 - f) as -> by field. lra.
  - apply Qlt_b_false in E. assert ((1 - f) / (1 - 0) == 1 - f) as E' by field. lra.
Qed.

(** ** the split of the feed *)
Theorem flash_balance_component beta k n :
  ~ den beta k == 0 -> n * vfrac beta k + n * lfrac beta k == n.
Proof. intros Hd. unfold vfrac, lfrac. unfold den in *. field. exact Hd. Qed.

Theorem flash_nonneg_component beta k n :
  0 <= beta <= 1 -> 0 <= k -> 0 <= n -> 0 < den beta k ->
  0 <= n * vfrac beta k /\ 0 <= n * lfrac beta k.
Proof.
  intros [Hb0 Hb1] Hk Hn Hd. unfold vfrac, lfrac. split; apply Qmult_le_0_compat; try assumption.
  - apply Qle_shift_div_l; [exact Hd|]. nra.
  - apply Qle_shift_div_l; [exact Hd|]. lra.
Qed.

(** [flash_balance]: for every component count, every beta and every K (including K_i = 0) with nonzero
    denominators, vapor plus liquid amount is the feed amount of every component, exactly *)
Theorem flash_balance beta nk :
  (forall p, In p nk -> ~ den beta (snd p) == 0) ->
  Forall2 (fun p vl => fst vl + snd vl == fst p) nk (split beta nk).
Proof.
  unfold split. induction nk as [|p nk IH]; intros H; cbn [map]; constructor.
  - cbn [fst snd]. apply flash_balance_component. apply H. left. reflexivity.
  - apply IH. intros q Hq. apply H. right. exact Hq.
Qed.

Theorem flash_nonneg beta nk :
  0 <= beta <= 1 -> (forall p, In p nk -> 0 <= fst p /\ 0 <= snd p /\ (beta < 1 \/ 0 < snd p)) ->
  Forall (fun vl => 0 <= fst vl /\ 0 <= snd vl) (split beta nk).
Proof.
  intros Hb. unfold split. induction nk as [|p nk IH]; intros H; cbn [map]; constructor.
  - cbn [fst snd]. destruct (H p (or_introl eq_refl)) as (Hn & Hk & Hc).
    apply flash_nonneg_component; auto. apply den_pos; auto.
  - apply IH. intros q Hq. apply H. right. exact Hq.
Qed.

(** the total vapor fraction of the split is sum v / sum feed — balance of the totals *)
Lemma qsum_split_total beta nk :
  (forall p, In p nk -> ~ den beta (snd p) == 0) ->
  qsum (map fst (split beta nk)) + qsum (map snd (split beta nk)) == qsum (map fst nk).
Proof.
  unfold split. induction nk as [|p nk IH]; intros H; cbn [map qsum fold_right]; [lra|].
  fold (qsum (map fst (map (fun p => (fst p * vfrac beta (snd p), fst p * lfrac beta (snd p))) nk))).
  fold (qsum (map snd (map (fun p => (fst p * vfrac beta (snd p), fst p * lfrac beta (snd p))) nk))).
  fold (qsum (map fst nk)).
  cbn [fst snd].
  pose proof (flash_balance_component beta (snd p) (fst p) (H p (or_introl eq_refl))) as Hc.
  assert (forall q, In q nk -> ~ den beta (snd q) == 0) as H' by (intros q Hq; apply H; right; exact Hq).
  specialize (IH H'). lra.
Qed.

(** [update_states] as a whole: whatever K and start value, a successful update returns amounts that add up to
    the feed, with a vapor fraction in [0,1], and non-negative amounts *)
Theorem update_split_balance rnd z n k beta_in beta vl :
  (forall x, In x z -> 0 <= x <= 1) ->
  update_split rnd z n k beta_in = Some (beta, vl) ->
  0 <= beta <= 1 /\
  ((forall p, In p (combine n k) -> ~ den beta (snd p) == 0) ->
   Forall2 (fun p q => fst q + snd q == fst p) (combine n k) vl).
Proof.
  intros Hz. unfold update_split. destruct (rr rnd (combine z k) (Some beta_in)) as [|b|] eqn:E; try discriminate.
  intros H. injection H as <- <-. split.
  - apply (rr_bracket rnd (combine z k) (Some beta_in) b); [|exact E].
    intros p Hp. apply Hz. destruct p as [a c]. apply in_combine_l in Hp. exact Hp.
  - apply flash_balance.
Qed.

(* ------------------------------------------------------------------------------------------------ *)
(** * execution for the differential run *)
Definition dyQ (me : Z * Z) : Q := Qred (inject_Z (fst me) * Qpower 2 (snd me)).
Definition rnd100 (x : Q) : Q := Qfloor (x * Qpower 2 100) # (2 ^ 100).
Definition scale70 (x : Q) : Z := Qfloor (x * Qpower 2 70).

Definition rr_case := (((list (Z * Z) * list (Z * Z)) * option (Z * Z)) * option (Z * Z))%type.
(** (kind, floor(beta 2^70), floor(|Newton step of the model at the implementation's beta| 2^70))
    with kind 0 = error branch, 1 = Ok, 2 = undefined (division by zero).  The third component lets the comparator
    recognise a returned value that differs from the model's only through a round-off-induced branch flip: it is
    then still a point where the routine's own stopping test [|dbeta| < 1e-6] holds. *)
Definition run_rr_case (c : rr_case) : Z * Z * Z :=
  let '(((z, k), b0), bi) := c in
  let zk := combine (map dyQ z) (map dyQ k) in
  let stp := match bi with
             | Some b => let bq := dyQ b in
                         if defined_at rnd100 zk bq then scale70 (Qabs (gfun rnd100 zk bq / dgfun rnd100 zk bq)) else (-1)%Z
             | None => (-1)%Z
             end in
  match rr rnd100 zk (option_map dyQ b0) with
  | RRErr => (0, 0, stp)%Z
  | RROk b => (1, scale70 b, stp)%Z
  | RRUndef => (2, 0, stp)%Z
  end.

Definition split_case := (((list (Z * Z) * list (Z * Z)) * list (Z * Z)) * (Z * Z))%type.
(** amounts are printed relative to the total feed, scaled by 2^70 *)
Definition run_split_case (c : split_case) : Z * Z * list (Z * Z) :=
  let '(((z, n), k), b) := c in
  let nq := map dyQ n in
  let tot := qsum nq in
  match update_split rnd100 (map dyQ z) nq (map dyQ k) (dyQ b) with
  | Some (beta, vl) => (1, scale70 beta, map (fun p => (scale70 (fst p / tot), scale70 (snd p / tot))) vl)%Z
  | None => (0, 0, [])%Z
  end.

(** * non-vacuity *)
Example rr_example_ok :
  exists b, rr (fun x => x) [((1 # 2), 2); ((1 # 2), (1 # 3))] None = RROk b /\ 0 <= b <= 1.
Proof. eexists. split; [vm_compute; reflexivity|]. split; vm_compute; discriminate. Qed.

Example rr_example_err : rr (fun x => x) [((1 # 2), 2); ((1 # 2), 3)] None = RRErr.
Proof. vm_compute. reflexivity. Qed.

Example rr_example_nonvolatile :
  exists b, rr rnd100 [((1 # 4), 0); ((3 # 4), 3)] (Some (1 # 2)) = RROk b /\ b <= 3 # 4.
Proof. eexists. split; [vm_compute; reflexivity|]. vm_compute. discriminate. Qed.

Example split_example :
  split (1 # 2) [(2, 0); (3, 4)] = [(2 * vfrac (1 # 2) 0, 2 * lfrac (1 # 2) 0); (3 * vfrac (1 # 2) 4, 3 * lfrac (1 # 2) 4)].
Proof. reflexivity. Qed.
