(** C17, part 2 (route H): executable model of the message-passing order of [bond_integrals]
    (feos-dft/src/functional.rs; the same loop drives [delta_bond_integrals] in solver.rs).

    The code turns the undirected bond graph into a directed graph: edge ids [0..m-1] are the bonds as listed
    ([a -> b]), then for every node (ascending) and every outgoing bond of that node (petgraph lists the
    outgoing edges of a node newest first = descending id) the reversed edge is appended.  The main loop repeats, until
    all edges carry a value: scan the nodes in ascending order and the outgoing edges of each node newest first; take the
    first edge [node -> target] without a value all of whose dependencies — the edges [target -> x] with [x <> node] —
    already have one; convolve; if no such edge exists: [panic!("Cycle in molecular structure detected!")].

    [run] returns the order in which the directed edges were computed, or [None] where the code panics. *)
From Coq Require Import List Arith Lia Bool.
Import ListNotations.

Definition IE := (nat * (nat * nat))%type.            (* (id, (source, target)) *)
Definition eid (e : IE) := fst e.
Definition esrc (e : IE) := fst (snd e).
Definition etgt (e : IE) := snd (snd e).

Definition index (es : list (nat * nat)) : list IE := combine (seq 0 (length es)) es.
(** petgraph's [edges(v)] of a directed graph: outgoing edges, newest first *)
Definition out_edges (es : list (nat * nat)) (v : nat) : list IE :=
  rev (filter (fun e => esrc e =? v) (index es)).
(** the directed graph [bond_integrals] builds from the bonds *)
Definition directed (n : nat) (bs : list (nat * nat)) : list (nat * nat) :=
  bs ++ flat_map (fun v => map (fun e => (etgt e, esrc e)) (out_edges bs v)) (seq 0 n).

Definition mem (x : nat) (l : list nat) : bool := existsb (Nat.eqb x) l.
Definition deps (es : list (nat * nat)) (e : IE) : list IE :=
  filter (fun e' => negb (etgt e' =? esrc e)) (out_edges es (etgt e)).
Definition ready (es : list (nat * nat)) (done : list nat) (e : IE) : bool :=
  negb (mem (eid e) done) && forallb (fun e' => mem (eid e') done) (deps es e).
Definition scan (es : list (nat * nat)) (n : nat) : list IE := flat_map (out_edges es) (seq 0 n).
Definition find_ready es n done : option IE := find (ready es done) (scan es n).

Fixpoint run (fuel : nat) (es : list (nat * nat)) (n : nat) (done : list nat) : option (list nat) :=
  if length es <=? length done then Some done else
  match fuel with
  | O => None
  | S f => match find_ready es n done with
           | Some e => run f es n (done ++ [eid e])
           | None => None                      (* the code's panic *)
           end
  end.

Definition run_graph (n : nat) (bs : list (nat * nat)) : option (list nat) :=
  let es := directed n bs in run (length es) es n [].

(** what the correspondence check prints: for every computed edge (in order) its endpoints and the edges it used *)
Definition describe (es : list (nat * nat)) (id : nat) : (nat * nat) * list (nat * nat) :=
  let st := nth id es (0, 0) in
  (st, map (fun e => (esrc e, etgt e)) (deps es (id, st))).
Definition run_described (n : nat) (bs : list (nat * nat)) : option (list ((nat * nat) * list (nat * nat))) :=
  let es := directed n bs in option_map (map (describe es)) (run (length es) es n []).

(* ------------------------------------------------------------------------------------------------------------ *)
Lemma mem_In x l : mem x l = true <-> In x l.
Proof.
  unfold mem. rewrite existsb_exists. split.
  - intros [y [Hy He]]. apply Nat.eqb_eq in He. subst. exact Hy.
  - intros H. exists x. split; [exact H | apply Nat.eqb_refl].
Qed.

Lemma combine_seq_In (es : list (nat * nat)) : forall a i st,
  In (i, st) (combine (seq a (length es)) es) <-> (a <= i < a + length es /\ nth (i - a) es (0, 0) = st).
Proof.
  induction es as [|x es IH]; intros a i st; simpl.
  - split; [intros [] | intros [H _]; lia].
  - rewrite IH. split.
    + intros [H | [H1 H2]].
      * inversion H; subst i st. split; [lia|]. rewrite Nat.sub_diag. reflexivity.
      * split; [lia|]. replace (i - a) with (S (i - S a)) by lia. exact H2.
    + intros [H1 H2]. destruct (Nat.eq_dec i a) as [E | E].
      * left. subst i. rewrite Nat.sub_diag in H2. simpl in H2. subst st. reflexivity.
      * right. split; [lia|]. replace (i - a) with (S (i - S a)) in H2 by lia. exact H2.
Qed.

Lemma index_In es e : In e (index es) <-> (eid e < length es /\ nth (eid e) es (0, 0) = snd e).
Proof.
  unfold index, eid. destruct e as [i st]. simpl. rewrite combine_seq_In, Nat.sub_0_r. simpl. split; intros [H1 H2]; split; auto; lia.
Qed.

Lemma out_edges_In es v e : In e (out_edges es v) <-> (In e (index es) /\ esrc e = v).
Proof.
  unfold out_edges. rewrite <- in_rev, filter_In, Nat.eqb_eq. reflexivity.
Qed.

Lemma scan_In es n e : In e (scan es n) <-> (In e (index es) /\ esrc e < n).
Proof.
  unfold scan. rewrite in_flat_map. split.
  - intros [v [Hv He]]. apply in_seq in Hv. apply out_edges_In in He. destruct He as [He Hs]. split; [exact He | lia].
  - intros [He Hs]. exists (esrc e). split; [apply in_seq; lia | apply out_edges_In; auto].
Qed.

Lemma deps_In es e e' : In e' (deps es e) -> In e' (index es) /\ esrc e' = etgt e /\ etgt e' <> esrc e.
Proof.
  unfold deps. rewrite filter_In, out_edges_In, negb_true_iff, Nat.eqb_neq. tauto.
Qed.

(** invariant of the loop *)
Definition Inv (es : list (nat * nat)) (done : list nat) : Prop :=
  NoDup done /\ (forall i, In i done -> i < length es) /\
  (* every computed edge was computed after all its dependencies *)
  (forall pre i post, done = pre ++ i :: post ->
     forall e', In e' (deps es (i, nth i es (0, 0))) -> In (eid e') pre).

Lemma find_ready_spec es n done e : find_ready es n done = Some e ->
  In e (index es) /\ ~ In (eid e) done /\ forall e', In e' (deps es e) -> In (eid e') done.
Proof.
  unfold find_ready. intros H. apply find_some in H. destruct H as [Hin Hr].
  apply scan_In in Hin. unfold ready in Hr. apply andb_prop in Hr. destruct Hr as [Hn Hd].
  split; [tauto|]. split.
  - intros Hc. apply mem_In in Hc. rewrite Hc in Hn. discriminate.
  - intros e' He'. rewrite forallb_forall in Hd. apply mem_In, Hd, He'.
Qed.

Lemma Inv_step es n done e : Inv es done -> find_ready es n done = Some e -> Inv es (done ++ [eid e]).
Proof.
  intros [Hnd [Hlt Hord]] Hf. apply find_ready_spec in Hf. destruct Hf as [Hin [Hnew Hdeps]].
  apply index_In in Hin. destruct Hin as [Hk Hnth].
  split; [|split].
  - apply NoDup_rev in Hnd. rewrite <- (rev_involutive (done ++ [eid e])). apply NoDup_rev.
    rewrite rev_app_distr. simpl. constructor; [rewrite <- in_rev; exact Hnew | exact Hnd].
  - intros i Hi. apply in_app_or in Hi. destruct Hi as [Hi | [Hi | []]]; [apply Hlt, Hi | subst; exact Hk].
  - intros pre i post Heq e' He'.
    induction post as [|p post' _] using rev_ind.
    + (* i is the new edge *)
      apply app_inj_tail in Heq. destruct Heq as [Hpre Hi]. subst pre i.
      apply Hdeps. destruct e as [i [s t]]. simpl in *. rewrite Hnth in He'. exact He'.
    + assert (Heq' : done ++ [eid e] = (pre ++ i :: post') ++ [p]) by (rewrite Heq, <- app_assoc; reflexivity).
      apply app_inj_tail in Heq'. destruct Heq' as [Hd _].
      apply (Hord pre i post' Hd e' He').
Qed.

Lemma run_Inv fuel : forall es n done res, Inv es done -> run fuel es n done = Some res ->
  Inv es res /\ length es <= length res.
Proof.
  induction fuel as [|f IH]; intros es n done res HI Hr; simpl in Hr.
  - destruct (length es <=? length done) eqn:E; [|discriminate]. inversion Hr; subst. apply Nat.leb_le in E. auto.
  - destruct (length es <=? length done) eqn:E.
    + inversion Hr; subst. apply Nat.leb_le in E. auto.
    + destruct (find_ready es n done) as [e|] eqn:Hf; [|discriminate].
      eapply IH; [eapply Inv_step; eauto | exact Hr].
Qed.

Lemma Inv_nil es : Inv es [].
Proof.
  split; [constructor | split; [intros i []|]].
  intros pre i post H. destruct pre; discriminate.
Qed.

(** every directed edge is computed exactly once, each after the edges it depends on *)
Theorem run_each_edge_once es n res : run (length es) es n [] = Some res ->
  NoDup res /\ (forall i, In i res <-> i < length es) /\ length res = length es /\
  (forall pre i post, res = pre ++ i :: post ->
     forall e', In e' (deps es (i, nth i es (0, 0))) -> In (eid e') pre).
Proof.
  intros H. apply run_Inv in H; [|apply Inv_nil]. destruct H as [[Hnd [Hlt Hord]] Hlen].
  assert (Hincl : incl res (seq 0 (length es))) by (intros i Hi; apply in_seq; specialize (Hlt i Hi); lia).
  assert (Hle : length res <= length es).
  { pose proof (NoDup_incl_length Hnd Hincl) as Hl. rewrite seq_length in Hl. exact Hl. }
  split; [exact Hnd|]. split; [|split; [lia | exact Hord]].
  intros i; split; [apply Hlt|]. intros Hi.
  assert (Hincl' : incl (seq 0 (length es)) res).
  { apply NoDup_length_incl; [exact Hnd | rewrite seq_length; lia | exact Hincl]. }
  apply Hincl', in_seq. lia.
Qed.

(** --- termination on every ranked (= acyclic) graph ---------------------------------------------------------- *)
Definition wf_graph (es : list (nat * nat)) (n : nat) : Prop := forall s t, In (s, t) es -> s < n.
Definition ranked (es : list (nat * nat)) (h : nat -> nat) : Prop :=
  forall e e', In e (index es) -> In e' (deps es e) -> h (eid e') < h (eid e).

Lemma ready_found es n done e : wf_graph es n -> In e (index es) -> ready es done e = true ->
  exists e0, find_ready es n done = Some e0.
Proof.
  intros Hwf He Hready. unfold find_ready.
  destruct (find (ready es done) (scan es n)) as [e0|] eqn:F; [eauto|].
  exfalso. assert (Hin : In e (scan es n)).
  { apply scan_In. split; [exact He|]. apply index_In in He. destruct He as [Hk Hn].
    destruct e as [i [s t]]. simpl in *. apply (Hwf s t). rewrite <- Hn. apply nth_In, Hk. }
  pose proof (find_none _ _ F e Hin) as Hf. rewrite Hready in Hf. discriminate.
Qed.

Lemma exists_ready es n done h : wf_graph es n -> ranked es h ->
  forall r e, In e (index es) -> ~ In (eid e) done -> h (eid e) <= r ->
  exists e0, find_ready es n done = Some e0.
Proof.
  intros Hwf Hrk. induction r as [|r IH]; intros e He Hnd Hr.
  - (* rank 0: no undone dependency can exist *)
    assert (Hready : ready es done e = true).
    { unfold ready. apply andb_true_intro. split.
      - apply negb_true_iff. destruct (mem (eid e) done) eqn:M; [apply mem_In in M; tauto | reflexivity].
      - apply forallb_forall. intros e' He'. specialize (Hrk e e' He He'). lia. }
    exact (ready_found es n done e Hwf He Hready).
  - destruct (forallb (fun e' => mem (eid e') done) (deps es e)) eqn:Fd.
    + assert (Hready : ready es done e = true).
      { unfold ready. apply andb_true_intro. split; [|exact Fd].
        apply negb_true_iff. destruct (mem (eid e) done) eqn:M; [apply mem_In in M; tauto | reflexivity]. }
      exact (ready_found es n done e Hwf He Hready).
    + (* an undone dependency of smaller rank *)
      assert (Hex : exists e', In e' (deps es e) /\ mem (eid e') done = false).
      { clear -Fd. induction (deps es e) as [|x l IHl]; simpl in Fd; [discriminate|].
        apply andb_false_iff in Fd. destruct Fd as [Fx | Fl].
        - exists x. split; [left; reflexivity | exact Fx].
        - destruct (IHl Fl) as [e' [H1 H2]]. exists e'. split; [right; exact H1 | exact H2]. }
      destruct Hex as [e' [He' Hm]].
      apply (IH e').
      * apply deps_In in He'. tauto.
      * intros Hc. apply mem_In in Hc. rewrite Hc in Hm. discriminate.
      * specialize (Hrk e e' He He'). lia.
Qed.

Lemma undone_exists es done : NoDup done -> (forall i, In i done -> i < length es) -> length done < length es ->
  exists e, In e (index es) /\ ~ In (eid e) done.
Proof.
  intros Hnd Hlt Hlen.
  destruct (forallb (fun i => mem i done) (seq 0 (length es))) eqn:Fa.
  - exfalso. rewrite forallb_forall in Fa.
    assert (Hincl : incl (seq 0 (length es)) done) by (intros i Hi; apply mem_In, Fa, Hi).
    pose proof (NoDup_incl_length (seq_NoDup (length es) 0) Hincl) as Hl. rewrite seq_length in Hl. lia.
  - assert (Hex : exists i, In i (seq 0 (length es)) /\ mem i done = false).
    { clear -Fa. induction (seq 0 (length es)) as [|x l IHl]; simpl in Fa; [discriminate|].
      apply andb_false_iff in Fa. destruct Fa as [Fx | Fl].
      - exists x. split; [left; reflexivity | exact Fx].
      - destruct (IHl Fl) as [i [H1 H2]]. exists i. split; [right; exact H1 | exact H2]. }
    destruct Hex as [i [Hi Hm]]. apply in_seq in Hi.
    exists (i, nth i es (0, 0)). split.
    + apply index_In. simpl. split; [lia | reflexivity].
    + simpl. intros Hc. apply mem_In in Hc. rewrite Hc in Hm. discriminate.
Qed.

Lemma run_terminates_aux h : forall fuel es n done, wf_graph es n -> ranked es h -> Inv es done ->
  length es <= length done + fuel -> exists res, run fuel es n done = Some res.
Proof.
  induction fuel as [|f IH]; intros es n done Hwf Hrk HI Hlen; simpl.
  - destruct (length es <=? length done) eqn:E; [eauto|]. apply Nat.leb_gt in E. lia.
  - destruct (length es <=? length done) eqn:E; [eauto|]. apply Nat.leb_gt in E.
    destruct HI as [Hnd [Hlt Hord]].
    destruct (undone_exists es done Hnd Hlt E) as [e [He Hne]].
    destruct (exists_ready es n done h Hwf Hrk (h (eid e)) e He Hne (le_n _)) as [e0 Hf].
    rewrite Hf. apply IH; [exact Hwf | exact Hrk | eapply Inv_step; [repeat split; eauto | exact Hf] |].
    rewrite app_length. simpl. lia.
Qed.

(** on every graph whose dependency relation admits a rank function (every tree: the height of the subtree behind the
    edge) the loop finishes without reaching the panic *)
Theorem run_terminates es n h : wf_graph es n -> ranked es h -> exists res, run (length es) es n [] = Some res.
Proof.
  intros Hwf Hrk. apply (run_terminates_aux h); [exact Hwf | exact Hrk | apply Inv_nil | simpl; lia].
Qed.

(** --- a cycle is never resolved: the loop reaches the panic ------------------------------------------------------ *)
Definition closed_set (es : list (nat * nat)) (S : list nat) : Prop :=
  forall i, In i S -> i < length es /\ exists e', In e' (deps es (i, nth i es (0, 0))) /\ In (eid e') S.

Lemma run_avoids fuel : forall es n done S res, closed_set es S ->
  (forall i, In i S -> ~ In i done) -> run fuel es n done = Some res -> forall i, In i S -> ~ In i res.
Proof.
  induction fuel as [|f IH]; intros es n done S res HS Hav Hr; simpl in Hr.
  - destruct (length es <=? length done); [inversion Hr; subst; exact Hav | discriminate].
  - destruct (length es <=? length done); [inversion Hr; subst; exact Hav|].
    destruct (find_ready es n done) as [e|] eqn:Hf; [|discriminate].
    apply (IH es n (done ++ [eid e]) S res HS); [|exact Hr].
    intros i Hi Hc. apply in_app_or in Hc. destruct Hc as [Hc | [Hc | []]]; [exact (Hav i Hi Hc)|].
    subst i. apply find_ready_spec in Hf. destruct Hf as [Hin [_ Hdeps]].
    destruct (HS _ Hi) as [_ [e' [He' HeS]]].
    apply index_In in Hin. destruct Hin as [_ Hn]. destruct e as [k [s t]]. simpl in *. rewrite Hn in He'.
    exact (Hav _ HeS (Hdeps e' He')).
Qed.

Theorem run_cycle_panics es n S i0 : closed_set es S -> In i0 S -> run (length es) es n [] = None.
Proof.
  intros HS Hi. destruct (run (length es) es n []) as [res|] eqn:Hr; [|reflexivity].
  exfalso. pose proof (run_avoids _ es n [] S res HS (fun _ _ (H : In _ []) => H) Hr i0 Hi) as Hnot.
  apply run_each_edge_once in Hr. destruct Hr as [_ [Hall _]]. apply Hnot, Hall. apply (HS i0 Hi).
Qed.

(** executable checkers for the hypotheses (used on concrete graphs by [vm_compute]) *)
Definition ranked_b (es : list (nat * nat)) (h : list nat) : bool :=
  forallb (fun e => forallb (fun e' => nth (eid e') h 0 <? nth (eid e) h 0) (deps es e)) (index es).
Definition wf_graph_b (es : list (nat * nat)) (n : nat) : bool := forallb (fun st => fst st <? n) es.
Definition closed_set_b (es : list (nat * nat)) (S : list nat) : bool :=
  forallb (fun i => (i <? length es) && existsb (fun e' => mem (eid e') S) (deps es (i, nth i es (0, 0)))) S.

Lemma ranked_b_sound es h : ranked_b es h = true -> ranked es (fun i => nth i h 0).
Proof.
  unfold ranked_b, ranked. intros H e e' He He'. rewrite forallb_forall in H. specialize (H e He).
  rewrite forallb_forall in H. apply Nat.ltb_lt, H, He'.
Qed.
Lemma wf_graph_b_sound es n : wf_graph_b es n = true -> wf_graph es n.
Proof.
  unfold wf_graph_b, wf_graph. intros H s t Hin. rewrite forallb_forall in H. apply Nat.ltb_lt. exact (H (s, t) Hin).
Qed.
Lemma closed_set_b_sound es S : closed_set_b es S = true -> closed_set es S.
Proof.
  unfold closed_set_b, closed_set. intros H i Hi. rewrite forallb_forall in H. specialize (H i Hi).
  apply andb_prop in H. destruct H as [H1 H2]. split; [apply Nat.ltb_lt, H1|].
  apply existsb_exists in H2. destruct H2 as [e' [He' Hm]]. exists e'. split; [exact He' | apply mem_In, Hm].
Qed.

(** non-vacuity: propane CH3-CH2-CH3 (a path), isobutane (a star), cyclopropane (a cycle) *)
Example path3 : run_graph 3 [(0, 1); (1, 2)] = Some [2; 1; 0; 3].
Proof. vm_compute. reflexivity. Qed.
Example star4 : exists res, run_graph 4 [(0, 1); (0, 2); (0, 3)] = Some res.
Proof. vm_compute. eexists. reflexivity. Qed.
Example star4_ranked : ranked_b (directed 4 [(0, 1); (0, 2); (0, 3)]) [0; 0; 0; 1; 1; 1] = true.
Proof. vm_compute. reflexivity. Qed.
Example ring3_panics : run_graph 3 [(0, 1); (1, 2); (2, 0)] = None.
Proof. vm_compute. reflexivity. Qed.
Example ring3_closed : closed_set_b (directed 3 [(0, 1); (1, 2); (2, 0)]) [0; 1; 2] = true.
Proof. vm_compute. reflexivity. Qed.

(** helpers for the per-graph obligations of the generated files: a rank candidate (heights by fixed-point iteration) and
    the set of edges left without a value when the loop stops *)
Definition rank_step (es : list (nat * nat)) (h : list nat) : list nat :=
  map (fun e => fold_right Nat.max 0 (map (fun e' => S (nth (eid e') h 0)) (deps es e))) (index es).
Fixpoint iterate {A} (k : nat) (f : A -> A) (x : A) : A := match k with O => x | S k' => iterate k' f (f x) end.
Definition rank_guess (es : list (nat * nat)) : list nat := iterate (length es) (rank_step es) (repeat 0 (length es)).

Fixpoint run_state (fuel : nat) (es : list (nat * nat)) (n : nat) (done : list nat) : list nat :=
  if length es <=? length done then done else
  match fuel with
  | O => done
  | S f => match find_ready es n done with Some e => run_state f es n (done ++ [eid e]) | None => done end
  end.
Definition undone (es : list (nat * nat)) (done : list nat) : list nat :=
  filter (fun i => negb (mem i done)) (seq 0 (length es)).
Definition stuck_set (n : nat) (bs : list (nat * nat)) : list nat :=
  let es := directed n bs in undone es (run_state (length es) es n []).

Theorem tree_terminates n bs :
  wf_graph_b (directed n bs) n = true -> ranked_b (directed n bs) (rank_guess (directed n bs)) = true ->
  exists res, run_graph n bs = Some res.
Proof.
  intros Hw Hr. unfold run_graph. eapply run_terminates; [apply wf_graph_b_sound, Hw | apply ranked_b_sound, Hr].
Qed.

Theorem cycle_panics n bs i0 :
  closed_set_b (directed n bs) (stuck_set n bs) = true -> In i0 (stuck_set n bs) -> run_graph n bs = None.
Proof.
  intros Hc Hi. unfold run_graph. eapply run_cycle_panics; [apply closed_set_b_sound, Hc | exact Hi].
Qed.

Example hexane_like : exists res, run_graph 6 [(0, 1); (1, 2); (2, 3); (3, 4); (4, 5)] = Some res.
Proof. apply tree_terminates; vm_compute; reflexivity. Qed.
Example ring_with_tail : run_graph 4 [(0, 1); (1, 2); (2, 0); (2, 3)] = None.
Proof. apply (cycle_panics _ _ 0); vm_compute; [reflexivity | tauto]. Qed.
