From Coq Require Import Reals Lra Lia Psatz Nsatz.
From Coquelicot Require Import Coquelicot.
From Interval Require Import Tactic.
Open Scope R_scope.

(** * The Peng-Robinson cubic at fixed temperature (reduced units, R = 1; [a] already contains alpha(T)) *)
Definition pr_D (b v : R) : R := v * v + 2 * b * v - b * b.
Definition pr_p (T a b v : R) : R := T / (v - b) - a / pr_D b v.
Definition pr_dp (T a b v : R) : R := - T / ((v - b) * (v - b)) + a * (2 * v + 2 * b) / (pr_D b v * pr_D b v).
Definition pr_d2p (T a b v : R) : R :=
  2 * T / ((v - b) * (v - b) * (v - b)) + 2 * a / (pr_D b v * pr_D b v)
  - 2 * a * (2 * v + 2 * b) * (2 * v + 2 * b) / (pr_D b v * pr_D b v * pr_D b v).

Lemma pr_dp_correct T a b v : v - b <> 0 -> pr_D b v <> 0 -> is_derive (pr_p T a b) v (pr_dp T a b v).
Proof.
  intros H1 H2. unfold pr_p, pr_dp, pr_D in *. auto_derive.
  - repeat split; assumption.
  - field. split; assumption.
Qed.

Lemma pr_d2p_correct T a b v : v - b <> 0 -> pr_D b v <> 0 -> is_derive (pr_dp T a b) v (pr_d2p T a b v).
Proof.
  intros H1 H2. unfold pr_dp, pr_d2p, pr_D in *. auto_derive.
  - repeat split; try assumption; apply Rmult_integral_contrapositive_currified; assumption.
  - field. split; assumption.
Qed.

(** * The exact constants: triple root of  Z^3 - (1-B) Z^2 + (A - 3B^2 - 2B) Z - (AB - B^2 - B^3) *)
Definition pr_crit_consts (A B Z : R) : Prop :=
  0 < B /\ 3 * Z = 1 - B /\ 3 * (Z * Z) = A - 3 * (B * B) - 2 * B /\ Z * Z * Z = A * B - B * B - B * B * B.

Definition pr_h (B : R) : R := 64 * (B * B * B) + 6 * (B * B) + 12 * B - 1.

Lemma pr_consts_h A B Z : pr_crit_consts A B Z -> pr_h B = 0.
Proof. intros (HB & H1 & H2 & H3). unfold pr_h. nsatz. Qed.

Lemma pr_h_bounds B : 0 < B -> pr_h B = 0 -> 0.0777960739038 < B < 0.0777960739039.
Proof.
  intros HB H. unfold pr_h in H. split.
  - apply Rnot_le_lt. intros Hle.
    assert (64 * (B * B * B) + 6 * (B * B) + 12 * B <= 64 * (0.0777960739038 * 0.0777960739038 * 0.0777960739038) + 6 * (0.0777960739038 * 0.0777960739038) + 12 * 0.0777960739038).
    { assert (B * B <= 0.0777960739038 * 0.0777960739038) by nra.
      assert (B * B * B <= 0.0777960739038 * 0.0777960739038 * 0.0777960739038) by nra. lra. }
    lra.
  - apply Rnot_le_lt. intros Hle.
    assert (64 * (0.0777960739039 * 0.0777960739039 * 0.0777960739039) + 6 * (0.0777960739039 * 0.0777960739039) + 12 * 0.0777960739039 <= 64 * (B * B * B) + 6 * (B * B) + 12 * B).
    { assert (0.0777960739039 * 0.0777960739039 <= B * B) by nra.
      assert (0.0777960739039 * 0.0777960739039 * 0.0777960739039 <= B * B * B) by nra. lra. }
    lra.
Qed.

Lemma pr_h_root : { B : R | 0 <= B <= 1 /\ pr_h B = 0 }.
Proof.
  apply (IVT_cor pr_h 0 1).
  - unfold pr_h. reg.
  - lra.
  - unfold pr_h. lra.
Qed.

Definition OmegaB : R := proj1_sig pr_h_root.
Definition Zcrit : R := (1 - OmegaB) / 3.
Definition OmegaA : R := 3 * (Zcrit * Zcrit) + 3 * (OmegaB * OmegaB) + 2 * OmegaB.

Lemma OmegaB_bounds : 0.0777960739038 < OmegaB < 0.0777960739039.
Proof.
  unfold OmegaB. destruct pr_h_root as [B [[H0 H1] Hh]]. cbn.
  apply pr_h_bounds; [|exact Hh]. destruct H0 as [H0|H0]; [exact H0|]. exfalso. rewrite <- H0 in Hh. unfold pr_h in Hh. lra.
Qed.

Lemma pr_consts_exist : pr_crit_consts OmegaA OmegaB Zcrit.
Proof.
  pose proof OmegaB_bounds as Hb.
  assert (Hh : pr_h OmegaB = 0) by exact (proj2 (proj2_sig pr_h_root)).
  unfold pr_crit_consts, OmegaA, Zcrit. unfold pr_h in Hh. repeat split; try lra; try field; try nsatz.
Qed.

Lemma OmegaA_bounds : 0.457235528921 < OmegaA < 0.457235528922.
Proof. pose proof OmegaB_bounds. unfold OmegaA, Zcrit. split; interval with (i_prec 80). Qed.

(** * (T, P) is the critical point of the cubic whose parameters are built from it with the exact constants *)
Theorem pr_critical_point_exact A B Z T P :
  pr_crit_consts A B Z -> 0 < T -> 0 < P ->
  let a := A * (T * T) / P in
  let b := B * T / P in
  let v := Z * T / P in
  pr_p T a b v = P /\ is_derive (pr_p T a b) v 0 /\ is_derive (pr_dp T a b) v 0.
Proof.
  intros Hc HT HP a b v.
  pose proof (pr_h_bounds B (proj1 Hc) (pr_consts_h _ _ _ Hc)) as HB.
  destruct Hc as (HB0 & H1 & H2 & H3).
  assert (HZ : 0.3 < Z < 0.31) by lra.
  assert (Hvb : v - b = (Z - B) * (T / P)) by (unfold v, b; field; lra).
  assert (HTP : 0 < T / P) by (apply Rdiv_lt_0_compat; assumption).
  assert (Hvb0 : v - b <> 0) by (rewrite Hvb; apply Rmult_integral_contrapositive_currified; lra).
  assert (HD : pr_D b v = (Z * Z + 2 * B * Z - B * B) * (T / P * (T / P))) by (unfold pr_D, v, b; field; lra).
  assert (HD0 : pr_D b v <> 0).
  { rewrite HD. apply Rmult_integral_contrapositive_currified; [nra|]. apply Rmult_integral_contrapositive_currified; lra. }
  assert (HZB : Z - B <> 0) by lra.
  assert (HQ : Z * Z + 2 * B * Z - B * B <> 0) by nra.
  assert (EA : A = 3 * (Z * Z) + 3 * (B * B) + 2 * B) by lra.
  assert (EZ : Z = (1 - B) / 3) by lra.
  assert (Eh : 64 * (B * B * B) + 6 * (B * B) + 12 * B - 1 = 0) by (clear - H1 H2 H3; nsatz).
  split; [|split].
  - unfold pr_p. rewrite Hvb, HD. unfold a.
    apply Rminus_diag_uniq.
    replace (T / ((Z - B) * (T / P)) - A * (T * T) / P / ((Z * Z + 2 * B * Z - B * B) * (T / P * (T / P))) - P)
      with (P * ((Z * Z + 2 * B * Z - B * B) - A * (Z - B) - (Z - B) * (Z * Z + 2 * B * Z - B * B)) / ((Z - B) * (Z * Z + 2 * B * Z - B * B)))
      by (field; repeat split; lra).
    replace ((Z * Z + 2 * B * Z - B * B) - A * (Z - B) - (Z - B) * (Z * Z + 2 * B * Z - B * B)) with 0; [unfold Rdiv; ring|].
    clear - H1 H2 H3. nsatz.
  - assert (E : pr_dp T a b v = 0); [|rewrite <- E; now apply pr_dp_correct].
    unfold pr_dp. rewrite Hvb, HD. unfold a, v, b.
    replace (- T / ((Z - B) * (T / P) * ((Z - B) * (T / P))) +
             A * (T * T) / P * (2 * (Z * T / P) + 2 * (B * T / P)) /
             ((Z * Z + 2 * B * Z - B * B) * (T / P * (T / P)) * ((Z * Z + 2 * B * Z - B * B) * (T / P * (T / P)))))
      with (P * P / T * (A * (2 * Z + 2 * B) * ((Z - B) * (Z - B)) - (Z * Z + 2 * B * Z - B * B) * (Z * Z + 2 * B * Z - B * B))
            / ((Z - B) * (Z - B) * ((Z * Z + 2 * B * Z - B * B) * (Z * Z + 2 * B * Z - B * B))))
      by (field; repeat split; lra).
    replace (A * (2 * Z + 2 * B) * ((Z - B) * (Z - B)) - (Z * Z + 2 * B * Z - B * B) * (Z * Z + 2 * B * Z - B * B)) with 0;
      [unfold Rdiv; ring|].
    clear - H1 H2 H3. nsatz.
  - assert (E : pr_d2p T a b v = 0); [|rewrite <- E; now apply pr_d2p_correct].
    unfold pr_d2p. rewrite Hvb, HD. unfold a, v, b.
    set (Q := Z * Z + 2 * B * Z - B * B) in *.
    replace (2 * T / ((Z - B) * (T / P) * ((Z - B) * (T / P)) * ((Z - B) * (T / P))) +
             2 * (A * (T * T) / P) / (Q * (T / P * (T / P)) * (Q * (T / P * (T / P)))) -
             2 * (A * (T * T) / P) * (2 * (Z * T / P) + 2 * (B * T / P)) * (2 * (Z * T / P) + 2 * (B * T / P)) /
             (Q * (T / P * (T / P)) * (Q * (T / P * (T / P))) * (Q * (T / P * (T / P)))))
      with (2 * (P * P * P) / (T * T) *
            (Q * Q * Q + A * Q * ((Z - B) * (Z - B) * (Z - B)) - A * (2 * Z + 2 * B) * (2 * Z + 2 * B) * ((Z - B) * (Z - B) * (Z - B)))
            / ((Z - B) * (Z - B) * (Z - B) * (Q * Q * Q)))
      by (field; repeat split; lra).
    replace (Q * Q * Q + A * Q * ((Z - B) * (Z - B) * (Z - B)) - A * (2 * Z + 2 * B) * (2 * Z + 2 * B) * ((Z - B) * (Z - B) * (Z - B))) with 0;
      [unfold Rdiv; ring|].
    unfold Q. clear - H1 H2 H3. nsatz.
Qed.

(** * The coded parameters: a = oa Tc^2/pc, b = ob Tc/pc (oa = 0.45724, ob = 0.07780 in cubic.rs),
      alpha(T) = (1 + kappa (1 - sqrt (T/Tc)))^2.  Closed form of the critical point of that cubic. *)
Definition pr_gamma (oa ob : R) : R := OmegaA / OmegaB * (ob / oa).
Definition pr_Tr (oa ob kappa : R) : R :=
  (1 + kappa) / (kappa + sqrt (pr_gamma oa ob)) * ((1 + kappa) / (kappa + sqrt (pr_gamma oa ob))).
Definition pr_pr (oa ob kappa : R) : R := OmegaB / ob * pr_Tr oa ob kappa.
Definition pr_alpha (kappa Tc T : R) : R :=
  (1 + kappa * (1 - sqrt (T / Tc))) * (1 + kappa * (1 - sqrt (T / Tc))).

Theorem pr_coded_critical_point oa ob kappa Tc pc :
  0 < oa -> 0 < ob -> 0 <= kappa -> 0 < Tc -> 0 < pc ->
  let T := pr_Tr oa ob kappa * Tc in
  let P := pr_pr oa ob kappa * pc in
  let a := oa * (Tc * Tc) / pc * pr_alpha kappa Tc T in
  let b := ob * Tc / pc in
  let v := Zcrit * T / P in
  0 < T /\ 0 < P /\ pr_p T a b v = P /\ is_derive (pr_p T a b) v 0 /\ is_derive (pr_dp T a b) v 0.
Proof.
  intros Hoa Hob Hk HTc Hpc T P a b v.
  pose proof OmegaA_bounds as HA. pose proof OmegaB_bounds as HB.
  assert (Hg : 0 < pr_gamma oa ob).
  { unfold pr_gamma. apply Rmult_lt_0_compat; apply Rdiv_lt_0_compat; lra. }
  pose proof (sqrt_lt_R0 _ Hg) as Hsg. pose proof (sqrt_sqrt _ (Rlt_le _ _ Hg)) as Hss.
  set (g := sqrt (pr_gamma oa ob)) in *.
  set (s := (1 + kappa) / (kappa + g)).
  assert (Hs : 0 < s) by (unfold s; apply Rdiv_lt_0_compat; lra).
  assert (HTr : pr_Tr oa ob kappa = s * s) by reflexivity.
  assert (HT : 0 < T) by (unfold T; rewrite HTr; apply Rmult_lt_0_compat; nra).
  assert (HP : 0 < P).
  { unfold P, pr_pr. rewrite HTr. apply Rmult_lt_0_compat; [|lra].
    apply Rmult_lt_0_compat; [apply Rdiv_lt_0_compat; lra|nra]. }
  assert (Hsq : sqrt (T / Tc) = s).
  { unfold T. rewrite HTr. replace (s * s * Tc / Tc) with (s * s) by (field; lra). apply sqrt_square. lra. }
  assert (Hlin : 1 + kappa * (1 - s) = g * s) by (unfold s; field; lra).
  assert (Hal : pr_alpha kappa Tc T = pr_gamma oa ob * (s * s)).
  { unfold pr_alpha. rewrite Hsq, Hlin, <- Hss. ring. }
  assert (Ea : a = OmegaA * (T * T) / P).
  { unfold a. rewrite Hal. unfold P, T, pr_pr, pr_gamma. rewrite HTr. field. repeat split; lra. }
  assert (Eb : b = OmegaB * T / P).
  { unfold b, P, T, pr_pr. rewrite HTr. field. repeat split; lra. }
  split; [exact HT|]. split; [exact HP|].
  rewrite Ea, Eb. exact (pr_critical_point_exact _ _ _ T P pr_consts_exist HT HP).
Qed.

(** the constants 0.45724 / 0.07780 of cubic.rs are rounded: the critical point of the coded cubic deviates from
    the (Tc, pc) of the record by less than 5e-5 / 1e-4 (relative) for every kappa >= 0 *)
Theorem pr_rounded_deviation kappa : 0 <= kappa <= 100 ->
  Rabs (pr_Tr 0.45724 0.07780 kappa - 1) <= 5e-5 /\ Rabs (pr_pr 0.45724 0.07780 kappa - 1) <= 1e-4.
Proof.
  intros Hk. pose proof OmegaA_bounds as HA. pose proof OmegaB_bounds as HB.
  assert (Hg : 1.00002 <= sqrt (pr_gamma 0.45724 0.07780) <= 1.000021)
    by (unfold pr_gamma; split; interval with (i_prec 60)).
  unfold pr_pr, pr_Tr. set (g := sqrt (pr_gamma 0.45724 0.07780)) in *.
  replace ((1 + kappa) / (kappa + g)) with (1 - (g - 1) / (kappa + g)) by (field; lra).
  split; interval with (i_prec 60).
Qed.

(** ... and is not (Tc, pc) itself *)
Theorem pr_rounded_not_exact kappa : 0 <= kappa <= 100 -> pr_pr 0.45724 0.07780 kappa < 1 - 5e-5.
Proof.
  intros Hk. pose proof OmegaA_bounds as HA. pose proof OmegaB_bounds as HB.
  assert (Hg : 1.00002 <= sqrt (pr_gamma 0.45724 0.07780) <= 1.000021)
    by (unfold pr_gamma; split; interval with (i_prec 60)).
  unfold pr_pr, pr_Tr. set (g := sqrt (pr_gamma 0.45724 0.07780)) in *.
  replace ((1 + kappa) / (kappa + g)) with (1 - (g - 1) / (kappa + g)) by (field; lra).
  interval with (i_prec 60).
Qed.

Ltac pr_interval :=
  let HA := fresh in let HB := fresh in
  pose proof OmegaA_bounds as HA; pose proof OmegaB_bounds as HB;
  unfold pr_pr, pr_Tr, pr_gamma; split; interval with (i_prec 100).
