(** C14 — executable model of the group-contribution part of feos' parameter construction:
    [ChemicalRecord::{segment_count, bond_count}], [SegmentCount::segment_map], [PureRecord::from_segments] with the
    PC-SAFT combining rules ([FromSegments<usize> for PcSaftRecord]), the count-weighted k_ij average
    ([FromSegmentsBinary for PcSaftBinaryRecord] inside [Parameter::from_segments]) and the segment-pair lookup of the
    heterosegmented gc-PC-SAFT.  Exact rational arithmetic ([Q], equality [==]); sigma is represented by sigma^3. *)
From Coq Require Import List NArith ZArith QArith Bool Arith Lia Permutation Setoid Morphisms.
From FeosVerif Require Import ParamLookup.
Import ListNotations.
Open Scope Q_scope.

(* ------------------------------------------------------------------------------------------------ *)
(** * Count maps (HashMap<K, count>): association lists, keys in first-occurrence order *)

Section Count.
Variable K : Type.
Variable keqb : K -> K -> bool.
Hypothesis keqb_spec : forall a b, keqb a b = true <-> a = b.

Fixpoint cinsert (k : K) (m : list (K * nat)) : list (K * nat) :=
  match m with
  | [] => [(k, 1%nat)]
  | (k', n) :: r => if keqb k' k then (k', S n) :: r else (k', n) :: cinsert k r
  end.

(** [for si in &self.segments { *counts.entry(si).or_insert(0) += 1 }] *)
Definition count_list (l : list K) : list (K * nat) := fold_left (fun m k => cinsert k m) l [].

Fixpoint cget (k : K) (m : list (K * nat)) : nat :=
  match m with [] => 0%nat | (k', n) :: r => if keqb k' k then n else cget k r end.

Definition qn (n : nat) : Q := inject_Z (Z.of_nat n).

(** sum over the entries of a count map of  count * f(key) *)
Fixpoint csum (f : K -> Q) (m : list (K * nat)) : Q :=
  match m with [] => 0 | (k, n) :: r => qn n * f k + csum f r end.

Fixpoint lsum (l : list Q) : Q := match l with [] => 0 | x :: r => x + lsum r end.

Lemma qn_S : forall n, qn (S n) == qn n + 1.
Proof. intro n. unfold qn. rewrite Nat2Z.inj_succ, <- Z.add_1_r, inject_Z_plus. reflexivity. Qed.

Lemma csum_cinsert : forall f k m, csum f (cinsert k m) == f k + csum f m.
Proof.
  intros f k m. induction m as [|[k' n] r IH]; simpl.
  - unfold qn. simpl. ring.
  - destruct (keqb k' k) eqn:E; simpl.
    + apply keqb_spec in E. subst. rewrite qn_S. ring.
    + rewrite IH. ring.
Qed.

Lemma csum_fold : forall f l m, csum f (fold_left (fun m k => cinsert k m) l m) == lsum (map f l) + csum f m.
Proof.
  intros f l. induction l as [|k l IH]; intro m; simpl.
  - ring.
  - rewrite IH, csum_cinsert. ring.
Qed.

(** the count-weighted sum over the map is the plain sum over the segment list *)
Theorem csum_count_list : forall f l, csum f (count_list l) == lsum (map f l).
Proof. intros f l. unfold count_list. rewrite csum_fold. simpl. ring. Qed.

Lemma lsum_perm : forall l l', Permutation l l' -> lsum l == lsum l'.
Proof.
  intros l l' H. induction H; simpl.
  - reflexivity.
  - now rewrite IHPermutation.
  - ring.
  - now rewrite IHPermutation1.
Qed.

(** the iteration order of the map (HashMap order is arbitrary) does not matter *)
Theorem csum_perm : forall f m m', Permutation m m' -> csum f m == csum f m'.
Proof.
  intros f m m' H. induction H as [| [k n] | [k n] [k' n'] |]; simpl.
  - reflexivity.
  - now rewrite IHPermutation.
  - ring.
  - now rewrite IHPermutation1.
Qed.

(** the order of the segments does not matter *)
Theorem csum_count_perm : forall f l l', Permutation l l' -> csum f (count_list l) == csum f (count_list l').
Proof.
  intros f l l' H. rewrite !csum_count_list. apply lsum_perm. now apply Permutation_map.
Qed.

Lemma csum_ext : forall f g m, (forall k, f k == g k) -> csum f m == csum g m.
Proof. intros f g m H. induction m as [|[k n] r IH]; simpl; [reflexivity | now rewrite H, IH]. Qed.

(** counts *)
Lemma cget_cinsert : forall k k' m, cget k (cinsert k' m) = if keqb k' k then S (cget k m) else cget k m.
Proof.
  intros k k' m. induction m as [|[k0 n] r IH]; simpl.
  - destruct (keqb k' k); reflexivity.
  - destruct (keqb k0 k') eqn:E; simpl.
    + apply keqb_spec in E. subst k0. destruct (keqb k' k); reflexivity.
    + rewrite IH. destruct (keqb k0 k) eqn:E2; [|reflexivity].
      apply keqb_spec in E2. subst k0. destruct (keqb k' k) eqn:E3; [|reflexivity].
      apply keqb_spec in E3. subst k'. rewrite (proj2 (keqb_spec k k) eq_refl) in E. discriminate.
Qed.

Fixpoint occ (k : K) (l : list K) : nat :=
  match l with [] => 0%nat | x :: r => if keqb x k then S (occ k r) else occ k r end.

Lemma cget_fold : forall k l m, cget k (fold_left (fun m k => cinsert k m) l m) = (occ k l + cget k m)%nat.
Proof.
  intros k l. induction l as [|x l IH]; intro m; simpl; [reflexivity|].
  rewrite IH, cget_cinsert. destruct (keqb x k); lia.
Qed.

(** the count stored for a key is its number of occurrences *)
Theorem cget_count_list : forall k l, cget k (count_list l) = occ k l.
Proof. intros k l. unfold count_list. rewrite cget_fold. simpl. lia. Qed.

Lemma occ_perm : forall k l l', Permutation l l' -> occ k l = occ k l'.
Proof.
  intros k l l' H. induction H; simpl; try congruence.
  - now rewrite IHPermutation.
  - destruct (keqb x k), (keqb y k); reflexivity.
Qed.

Theorem count_perm : forall k l l', Permutation l l' -> cget k (count_list l) = cget k (count_list l').
Proof. intros. rewrite !cget_count_list. now apply occ_perm. Qed.

(** keys of the map: exactly the distinct elements, each once *)
Lemma cinsert_keys : forall k m, map fst (cinsert k m) = if existsb (fun x => keqb x k) (map fst m) then map fst m else map fst m ++ [k].
Proof.
  intros k m. induction m as [|[k' n] r IH]; simpl; [reflexivity|].
  destruct (keqb k' k) eqn:E; simpl; [reflexivity|]. rewrite IH. now destruct (existsb _ _).
Qed.

Lemma cinsert_In : forall k k' m, In k (map fst (cinsert k' m)) <-> k = k' \/ In k (map fst m).
Proof.
  intros k k' m. rewrite cinsert_keys. destruct (existsb _ _) eqn:E.
  - apply existsb_exists in E. destruct E as [x [Hx Hk]]. apply keqb_spec in Hk. subst. split; [auto | intros [->|H]; auto].
  - rewrite in_app_iff. simpl. split; [intros [H|[H|[]]]; auto | intros [H|H]; auto].
Qed.

Lemma count_fold_In : forall k l m, In k (map fst (fold_left (fun m k => cinsert k m) l m)) <-> In k l \/ In k (map fst m).
Proof.
  intros k l. induction l as [|x l IH]; intro m; simpl; [tauto|].
  rewrite IH, cinsert_In. split; [intros [H|[H|H]]; auto | intros [[H|H]|H]; auto].
Qed.

Theorem count_list_keys : forall k l, In k (map fst (count_list l)) <-> In k l.
Proof. intros k l. unfold count_list. rewrite count_fold_In. simpl. tauto. Qed.

End Count.

Arguments cinsert {K} keqb k m.
Arguments count_list {K} keqb l.
Arguments cget {K} keqb k m.
Arguments csum {K} f m.
Arguments occ {K} keqb k l.

Lemma Neqb_spec : forall a b : N, N.eqb a b = true <-> a = b.
Proof. intros; apply N.eqb_eq. Qed.

Definition pair_eqb (a b : N * N) : bool := N.eqb (fst a) (fst b) && N.eqb (snd a) (snd b).
Lemma pair_eqb_spec : forall a b, pair_eqb a b = true <-> a = b.
Proof.
  intros [a1 a2] [b1 b2]. unfold pair_eqb. simpl. rewrite andb_true_iff, !N.eqb_eq.
  split; [intros [-> ->]; reflexivity | intro H; inversion H; auto].
Qed.

(* ------------------------------------------------------------------------------------------------ *)
(** * [ChemicalRecord]: segment_count, bond_count *)

Definition segment_count (segs : list N) : list (N * nat) := count_list N.eqb segs.

(** [if s1 > s2 { [s2, s1] } else { [s1, s2] }] — the interning of segment names is order preserving *)
Definition sort2 (a b : N) : N * N := if N.ltb b a then (b, a) else (a, b).

Lemma sort2_sym : forall a b, sort2 a b = sort2 b a.
Proof.
  intros a b. unfold sort2. destruct (N.ltb b a) eqn:E1; destruct (N.ltb a b) eqn:E2; try reflexivity.
  - apply N.ltb_lt in E1, E2. lia.
  - apply N.ltb_ge in E1, E2. assert (a = b) by lia. now subst.
Qed.

Definition bond_keys (segs : list N) (bonds : list (nat * nat)) : list (N * N) :=
  map (fun b => sort2 (nth (fst b) segs 0%N) (nth (snd b) segs 0%N)) bonds.

Definition bond_count (segs : list N) (bonds : list (nat * nat)) : list ((N * N) * nat) :=
  count_list pair_eqb (bond_keys segs bonds).

(** [ChemicalRecord::new] without bonds: a linear chain *)
Definition default_bonds (n : nat) : list (nat * nat) := map (fun i => (i, S i)) (seq 0 (n - 1)).

(** counts do not depend on the order of the segments ... *)
Theorem segment_count_perm : forall segs segs' k, Permutation segs segs' ->
  cget N.eqb k (segment_count segs) = cget N.eqb k (segment_count segs').
Proof. intros. now apply (count_perm N N.eqb Neqb_spec). Qed.

Theorem segment_count_occ : forall segs k, cget N.eqb k (segment_count segs) = occ N.eqb k segs.
Proof. intros. apply (cget_count_list N N.eqb Neqb_spec). Qed.

(** ... bond counts do not depend on the order of the bond list, ... *)
Theorem bond_count_perm : forall segs bonds bonds' k, Permutation bonds bonds' ->
  cget pair_eqb k (bond_count segs bonds) = cget pair_eqb k (bond_count segs bonds').
Proof.
  intros. apply (count_perm (N*N) pair_eqb pair_eqb_spec). unfold bond_keys. now apply Permutation_map.
Qed.

(** ... nor on the direction in which a bond is written, ... *)
Definition swap_bond (b : nat * nat) : nat * nat := (snd b, fst b).

Theorem bond_keys_direction : forall segs bonds bonds',
  Forall2 (fun b b' => b' = b \/ b' = swap_bond b) bonds bonds' -> bond_keys segs bonds' = bond_keys segs bonds.
Proof.
  intros segs bonds bonds' H. induction H as [|b b' l l' Hb _ IH]; simpl; [reflexivity|].
  rewrite IH. f_equal. destruct Hb as [->| ->]; [reflexivity|]. simpl. apply sort2_sym.
Qed.

(** ... nor on the numbering of the segments: renumber the segments by any map [f] that keeps the segment kinds *)
Theorem bond_keys_relabel : forall segs segs' (f : nat -> nat) bonds,
  (forall b, In b bonds -> nth (f (fst b)) segs' 0%N = nth (fst b) segs 0%N /\ nth (f (snd b)) segs' 0%N = nth (snd b) segs 0%N) ->
  bond_keys segs' (map (fun b => (f (fst b), f (snd b))) bonds) = bond_keys segs bonds.
Proof.
  intros segs segs' f bonds H. unfold bond_keys. rewrite map_map. apply map_ext_in. intros b Hb. simpl.
  destruct (H b Hb) as [-> ->]. reflexivity.
Qed.

Theorem bond_count_total : forall segs bonds k,
  cget pair_eqb k (bond_count segs bonds) = occ pair_eqb k (bond_keys segs bonds).
Proof. intros. apply (cget_count_list (N*N) pair_eqb pair_eqb_spec). Qed.

(* ------------------------------------------------------------------------------------------------ *)
(** * Segment records and [SegmentCount::segment_map] *)

Record seg := mkSeg {
  s_mw : Q; s_m : Q; s_sigma : Q; s_eps : Q;
  s_polar : bool   (* q.is_some() || mu.is_some() || association_record.is_some_and(na+nb+nc > 0) *)
}.

(** [segment_records.iter().map(|r| (r.identifier.clone(), r.clone())).collect::<HashMap>()]: last one wins *)
Definition seg_get (id : N) (srecs : list (N * seg)) : option seg :=
  option_map snd (find (fun r => N.eqb (fst r) id) (rev srecs)).

Definition segment_map (segs : list N) (srecs : list (N * seg)) : result (list (seg * nat)) :=
  let cnt := segment_count segs in
  match filter (fun kn => is_none (seg_get (fst kn) srecs)) cnt with
  | [] => match all_some (map (fun kn => option_map (fun s => (s, snd kn)) (seg_get (fst kn) srecs)) cnt) with
          | Some l => Ok l | None => Err EPanic end
  | missing => Err (EMissing (map fst missing))
  end.

(* ------------------------------------------------------------------------------------------------ *)
(** * [PureRecord::from_segments] + [FromSegments<usize> for PcSaftRecord] *)

Record combined := mkC { c_mw : Q; c_m : Q; c_sigma3 : Q; c_eps : Q }.

Definition ceq (a b : combined) : Prop :=
  c_mw a == c_mw b /\ c_m a == c_m b /\ c_sigma3 a == c_sigma3 b /\ c_eps a == c_eps b.

Lemma ceq_sym : forall a b, ceq a b -> ceq b a.
Proof. intros a b [H1 [H2 [H3 H4]]]. repeat split; now symmetry. Qed.
Lemma ceq_trans : forall a b c, ceq a b -> ceq b c -> ceq a c.
Proof. intros a b c [H1 [H2 [H3 H4]]] [I1 [I2 [I3 I4]]]. repeat split; eapply Qeq_trans; eassumption. Qed.

Fixpoint esum (f : seg -> Q) (l : list (seg * nat)) : Q :=
  match l with [] => 0 | (s, n) :: r => qn n * f s + esum f r end.

Fixpoint polar_count (l : list (seg * nat)) : nat :=
  match l with [] => 0%nat | (s, n) :: r => ((if s_polar s then n else 0) + polar_count r)%nat end.

Definition f_mw (s : seg) := s_mw s.
Definition f_m (s : seg) := s_m s.
Definition f_s3 (s : seg) := s_m s * (s_sigma s * s_sigma s * s_sigma s).
Definition f_eps (s : seg) := s_m s * s_eps s.

Definition combine (ents : list (seg * nat)) : result combined :=
  if (1 <? polar_count ents)%nat then Err EIncompat else
  let m := esum f_m ents in
  Ok (mkC (esum f_mw ents) m (esum f_s3 ents / m) (esum f_eps ents / m)).

(** one component of [Parameter::from_segments] *)
Definition from_segments_one (segs : list N) (srecs : list (N * seg)) : result combined :=
  match segment_map segs srecs with Ok ents => combine ents | Err e => Err e end.

(** the documented combining rules, written over the plain list of segments of the molecule *)
Definition seg_of (srecs : list (N * seg)) (id : N) : seg :=
  match seg_get id srecs with Some s => s | None => mkSeg 0 0 0 0 false end.

Definition raw_sum (f : seg -> Q) (srecs : list (N * seg)) (segs : list N) : Q :=
  lsum (map (fun id => f (seg_of srecs id)) segs).

Definition combine_spec (segs : list N) (srecs : list (N * seg)) : combined :=
  let m := raw_sum f_m srecs segs in
  mkC (raw_sum f_mw srecs segs) m (raw_sum f_s3 srecs segs / m) (raw_sum f_eps srecs segs / m).

Lemma segment_map_ok : forall segs srecs ents, segment_map segs srecs = Ok ents ->
  ents = map (fun kn => (seg_of srecs (fst kn), snd kn)) (segment_count segs).
Proof.
  intros segs srecs ents H. unfold segment_map in H.
  destruct (filter _ _) eqn:Ef; [|discriminate].
  destruct (all_some _) as [l|] eqn:Ea; [|discriminate]. inversion H; subst l. clear H.
  apply all_some_spec in Ea.
  pose proof (filter_nil_all _ _ Ef) as Hall.
  revert ents Ea Hall. generalize (segment_count segs). intro cnt.
  induction cnt as [|[k n] r IH]; intros [|e ents] Ea Hall; simpl in *; try discriminate; [reflexivity|].
  inversion Ea. f_equal.
  - unfold seg_of. destruct (seg_get k srecs); simpl in *; [congruence | discriminate].
  - apply IH; auto.
Qed.

Lemma esum_csum : forall f srecs cnt,
  esum f (map (fun kn => (seg_of srecs (fst kn), snd kn)) cnt) == csum (fun id => f (seg_of srecs id)) cnt.
Proof. intros f srecs cnt. induction cnt as [|[k n] r IH]; simpl; [reflexivity | now rewrite IH]. Qed.

Lemma esum_raw : forall f srecs segs,
  esum f (map (fun kn => (seg_of srecs (fst kn), snd kn)) (segment_count segs)) == raw_sum f srecs segs.
Proof.
  intros. rewrite esum_csum. unfold segment_count, raw_sum.
  apply (csum_count_list N N.eqb Neqb_spec (fun id => f (seg_of srecs id))).
Qed.

(** the record built from the count map is the documented rule applied to the segment list:
    M = sum mw_a,  m = sum m_a,  sigma^3 = sum m_a sigma_a^3 / m,  epsilon = sum m_a eps_a / m *)
Theorem from_segments_rules : forall segs srecs c, from_segments_one segs srecs = Ok c ->
  ceq c (combine_spec segs srecs).
Proof.
  intros segs srecs c H. unfold from_segments_one in H.
  destruct (segment_map segs srecs) as [ents|] eqn:E; [|discriminate].
  apply segment_map_ok in E. subst ents. unfold combine in H.
  destruct (_ <? _)%nat; [discriminate|]. inversion H; subst c. clear H.
  unfold ceq, combine_spec. simpl. rewrite !esum_raw. repeat split; reflexivity.
Qed.

Lemma raw_sum_perm : forall f srecs segs segs', Permutation segs segs' -> raw_sum f srecs segs == raw_sum f srecs segs'.
Proof. intros. unfold raw_sum. apply lsum_perm. now apply Permutation_map. Qed.

Theorem combine_spec_perm : forall segs segs' srecs, Permutation segs segs' ->
  ceq (combine_spec segs srecs) (combine_spec segs' srecs).
Proof.
  intros segs segs' srecs H. unfold ceq, combine_spec. simpl.
  rewrite !(raw_sum_perm _ srecs segs segs' H). repeat split; reflexivity.
Qed.

(** success / error kind does not depend on the segment order either *)
Lemma polar_count_occ : forall srecs cnt,
  qn (polar_count (map (fun kn => (seg_of srecs (fst kn), snd kn)) cnt)) ==
  csum (fun id => if s_polar (seg_of srecs id) then 1 else 0) cnt.
Proof.
  intros srecs cnt. induction cnt as [|[k n] r IH]; simpl; [reflexivity|].
  unfold qn in *. rewrite Nat2Z.inj_add, inject_Z_plus, IH. destruct (s_polar (seg_of srecs k)); simpl; ring.
Qed.

Definition missing_of (segs : list N) (srecs : list (N * seg)) : list N :=
  map fst (filter (fun kn => is_none (seg_get (fst kn) srecs)) (segment_count segs)).

Lemma missing_of_In : forall segs srecs k, In k (missing_of segs srecs) <-> In k segs /\ seg_get k srecs = None.
Proof.
  intros segs srecs k. unfold missing_of. rewrite in_map_iff. split.
  - intros [[k' n] [<- H]]. apply filter_In in H. destruct H as [H1 H2]. simpl in *. split.
    + apply (count_list_keys N N.eqb Neqb_spec). apply in_map_iff. exists (k', n). auto.
    + now destruct (seg_get k' srecs).
  - intros [H1 H2]. apply (count_list_keys N N.eqb Neqb_spec) in H1. apply in_map_iff in H1.
    destruct H1 as [[k' n] [<- H1]]. exists (k', n). split; [reflexivity|]. apply filter_In. split; [assumption|].
    simpl in *. now rewrite H2.
Qed.

Lemma qn_inj : forall a b, qn a == qn b -> a = b.
Proof. intros a b H. unfold qn in H. apply Nat2Z.inj. now apply inject_Z_injective. Qed.

Definition ents_of (segs : list N) (srecs : list (N * seg)) : list (seg * nat) :=
  map (fun kn => (seg_of srecs (fst kn), snd kn)) (segment_count segs).

Lemma from_segments_one_closed : forall segs srecs,
  from_segments_one segs srecs =
  match missing_of segs srecs with [] => combine (ents_of segs srecs) | l => Err (EMissing l) end.
Proof.
  intros segs srecs. unfold from_segments_one, segment_map, missing_of, ents_of.
  destruct (filter _ _) eqn:Ef; [|reflexivity]. simpl.
  pose proof (filter_nil_all _ _ Ef) as Hall. clear Ef.
  replace (all_some _) with (Some (map (fun kn => (seg_of srecs (fst kn), snd kn)) (segment_count segs))); [reflexivity|].
  symmetry. revert Hall. generalize (segment_count segs). intro cnt.
  induction cnt as [|[k n] r IH]; intro Hall; simpl; [reflexivity|].
  pose proof (Hall (k, n) (or_introl eq_refl)) as Hk. simpl in Hk. unfold seg_of.
  destruct (seg_get k srecs); [|discriminate]. simpl. rewrite IH; [reflexivity|]. intros x Hx. apply Hall. now right.
Qed.

Definition polar_raw (srecs : list (N * seg)) (segs : list N) : Q :=
  lsum (map (fun id => if s_polar (seg_of srecs id) then 1 else 0) segs).

Lemma polar_count_raw : forall segs srecs, qn (polar_count (ents_of segs srecs)) == polar_raw srecs segs.
Proof.
  intros. unfold ents_of. rewrite polar_count_occ. unfold segment_count, polar_raw.
  apply (csum_count_list N N.eqb Neqb_spec (fun id => if s_polar (seg_of srecs id) then 1 else 0)).
Qed.

Lemma polar_count_perm : forall segs segs' srecs, Permutation segs segs' ->
  polar_count (ents_of segs srecs) = polar_count (ents_of segs' srecs).
Proof.
  intros segs segs' srecs H. apply qn_inj. rewrite !polar_count_raw. unfold polar_raw. apply lsum_perm.
  now apply Permutation_map.
Qed.

(** the whole outcome is invariant under any reordering of the segments of the molecule: same error kind (same set of
    missing segments), or records that agree in exact arithmetic *)
Definition outcome_eq (r r' : result combined) : Prop :=
  match r, r' with
  | Ok c, Ok c' => ceq c c'
  | Err (EMissing l), Err (EMissing l') => forall k, In k l <-> In k l'
  | Err e, Err e' => e = e'
  | _, _ => False
  end.

Theorem segments_perm_invariant : forall segs segs' srecs, Permutation segs segs' ->
  outcome_eq (from_segments_one segs srecs) (from_segments_one segs' srecs).
Proof.
  intros segs segs' srecs Hp.
  assert (Hmiss : forall k, In k (missing_of segs srecs) <-> In k (missing_of segs' srecs)).
  { intro k. rewrite !missing_of_In. split; intros [H1 H2]; (split; [|assumption]).
    - eapply Permutation_in; eassumption.
    - eapply Permutation_in; [apply Permutation_sym|]; eassumption. }
  pose proof (from_segments_rules segs srecs) as R1. pose proof (from_segments_rules segs' srecs) as R2.
  rewrite !from_segments_one_closed in *.
  destruct (missing_of segs srecs) as [|x l] eqn:E1; destruct (missing_of segs' srecs) as [|x' l'] eqn:E2.
  - unfold combine in *. rewrite (polar_count_perm segs segs' srecs Hp) in *.
    destruct (1 <? polar_count (ents_of segs' srecs))%nat; [simpl; reflexivity|]. simpl.
    eapply ceq_trans; [apply (R1 _ eq_refl)|]. eapply ceq_trans; [apply (combine_spec_perm segs segs' srecs Hp)|].
    apply ceq_sym. apply (R2 _ eq_refl).
  - exfalso. apply (proj2 (Hmiss x')). now left.
  - exfalso. apply (proj1 (Hmiss x)). now left.
  - simpl. exact Hmiss.
Qed.

(* ------------------------------------------------------------------------------------------------ *)
(** * k_ij of two molecules: count-weighted average of the segment-segment k_ab
      ([Parameter::from_segments] + [FromSegmentsBinary for PcSaftBinaryRecord]) *)

Definition to_brec (r : N * N * Q) : brec Q := mkB (idc (fst (fst r))) (idc (snd (fst r))) (snd r).

(** [binary_map.get(&(id1,id2)).or_else(|| binary_map.get(&(id2,id1))).unwrap_or_default()] on segment names *)
Definition seg_k (bin : list (N * N * Q)) (a b : N) : Q := blookup 0 Cas (map to_brec bin) a b.

Definition kij_entries (ci cj : list (N * nat)) (bin : list (N * N * Q)) : list (Q * nat * nat) :=
  flat_map (fun a => map (fun b => (seg_k bin (fst a) (fst b), snd a, snd b)) cj) ci.

Definition kij_step (acc : Q * Q) (e : Q * nat * nat) : Q * Q :=
  let nab := qn (snd (fst e)) * qn (snd e) in (fst acc + fst (fst e) * nab, snd acc + nab).

Definition kij_avg (ents : list (Q * nat * nat)) : Q :=
  let r := fold_left kij_step ents (0, 0) in fst r / snd r.

Definition kij (si sj : list N) (bin : list (N * N * Q)) : Q :=
  kij_avg (kij_entries (segment_count si) (segment_count sj) bin).

Definition pair_sum (f : N -> N -> Q) (si sj : list N) : Q := lsum (map (fun a => lsum (map (f a) sj)) si).

Fixpoint wsum (ents : list (Q * nat * nat)) : Q :=
  match ents with [] => 0 | e :: r => fst (fst e) * (qn (snd (fst e)) * qn (snd e)) + wsum r end.
Fixpoint nsum (ents : list (Q * nat * nat)) : Q :=
  match ents with [] => 0 | e :: r => qn (snd (fst e)) * qn (snd e) + nsum r end.

Lemma kij_fold_sums : forall ents acc,
  fst (fold_left kij_step ents acc) == fst acc + wsum ents /\ snd (fold_left kij_step ents acc) == snd acc + nsum ents.
Proof.
  induction ents as [|e r IH]; intro acc; simpl.
  - split; ring.
  - destruct (IH (kij_step acc e)) as [H1 H2]. rewrite H1, H2. unfold kij_step. simpl. split; ring.
Qed.

Lemma wsum_app : forall a b, wsum (a ++ b) == wsum a + wsum b.
Proof. induction a as [|e a IH]; intro b; simpl; [ring | rewrite IH; ring]. Qed.
Lemma nsum_app : forall a b, nsum (a ++ b) == nsum a + nsum b.
Proof. induction a as [|e a IH]; intro b; simpl; [ring | rewrite IH; ring]. Qed.

Lemma wsum_entries : forall bin ci cj,
  wsum (kij_entries ci cj bin) == csum (fun a => csum (fun b => seg_k bin a b) cj) ci.
Proof.
  intros bin ci cj. induction ci as [|[a n] r IH]; simpl; [reflexivity|].
  rewrite wsum_app, IH. apply Qplus_inj_r. clear IH.
  induction cj as [|[b n'] r' IH']; simpl; [ring|]. rewrite IH'. ring.
Qed.

Lemma nsum_entries : forall bin ci cj,
  nsum (kij_entries ci cj bin) == csum (fun _ => csum (fun _ => 1) cj) ci.
Proof.
  intros bin ci cj. induction ci as [|[a n] r IH]; simpl; [reflexivity|].
  rewrite nsum_app, IH. apply Qplus_inj_r. clear IH.
  induction cj as [|[b n'] r' IH']; simpl; [ring|]. rewrite IH'. ring.
Qed.

Lemma lsum_ext : forall T (f g : T -> Q) l, (forall x, f x == g x) -> lsum (map f l) == lsum (map g l).
Proof. intros T f g l H. induction l; simpl; [reflexivity | now rewrite H, IHl]. Qed.

Lemma lsum_const : forall T (l : list T) c, lsum (map (fun _ => c) l) == qn (length l) * c.
Proof.
  intros T l c. induction l; simpl length; simpl map; simpl lsum.
  - unfold qn. simpl. ring.
  - rewrite IHl, qn_S. ring.
Qed.

Lemma kij_num : forall bin si sj,
  wsum (kij_entries (segment_count si) (segment_count sj) bin) == pair_sum (seg_k bin) si sj.
Proof.
  intros. rewrite wsum_entries. unfold segment_count, pair_sum.
  rewrite (csum_count_list N N.eqb Neqb_spec). apply lsum_ext. intro a.
  apply (csum_count_list N N.eqb Neqb_spec).
Qed.

Lemma kij_den : forall bin si sj,
  nsum (kij_entries (segment_count si) (segment_count sj) bin) == qn (length si) * qn (length sj).
Proof.
  intros. rewrite nsum_entries. unfold segment_count.
  rewrite (csum_count_list N N.eqb Neqb_spec). rewrite lsum_const.
  rewrite (csum_count_list N N.eqb Neqb_spec (fun _ => 1)). rewrite lsum_const. ring.
Qed.

(** the documented rule:  k_ij = ( sum over segments a of i, b of j  of k_ab ) / (n_i n_j) *)
Theorem kij_rule : forall bin si sj,
  kij si sj bin == pair_sum (seg_k bin) si sj / (qn (length si) * qn (length sj)).
Proof.
  intros. unfold kij, kij_avg.
  destruct (kij_fold_sums (kij_entries (segment_count si) (segment_count sj) bin) (0, 0)) as [H1 H2].
  simpl fst in *. simpl snd in *. rewrite H1, H2, kij_num, kij_den, !Qplus_0_l. reflexivity.
Qed.

Lemma qn_len_nz : forall T (l : list T), l <> [] -> ~ qn (length l) == 0.
Proof.
  intros T l Hl. destruct l; [congruence|]. intro H. unfold qn, Qeq in H. simpl in H. lia.
Qed.

(** the weights of the average are the products of the segment counts, and they sum to n_i n_j *)
Theorem kij_avg_weights : forall bin si sj, si <> [] -> sj <> [] ->
  kij si sj bin * (qn (length si) * qn (length sj)) ==
  csum (fun a => csum (fun b => seg_k bin a b) (segment_count sj)) (segment_count si).
Proof.
  intros bin si sj Hi Hj. rewrite kij_rule, <- wsum_entries, kij_num.
  field. split; now apply qn_len_nz.
Qed.

Lemma pair_sum_perm : forall f si si' sj sj', Permutation si si' -> Permutation sj sj' ->
  pair_sum f si sj == pair_sum f si' sj'.
Proof.
  intros f si si' sj sj' Hi Hj. unfold pair_sum.
  rewrite (lsum_ext _ _ (fun a => lsum (map (f a) sj')) si).
  - apply lsum_perm. now apply Permutation_map.
  - intro a. apply lsum_perm. now apply Permutation_map.
Qed.

Theorem kij_perm : forall bin si si' sj sj', Permutation si si' -> Permutation sj sj' ->
  kij si sj bin == kij si' sj' bin.
Proof.
  intros. rewrite !kij_rule. rewrite (pair_sum_perm _ si si' sj sj') by assumption.
  rewrite (Permutation_length H), (Permutation_length H0). reflexivity.
Qed.

Lemma pair_sum_swap : forall f si sj, pair_sum f si sj == pair_sum (fun a b => f b a) sj si.
Proof.
  intros f si sj. unfold pair_sum. induction si as [|a si IH]; simpl.
  - induction sj; simpl; [reflexivity | rewrite <- IHsj; ring].
  - rewrite IH. clear IH. induction sj as [|b sj IH]; simpl; [ring|].
    rewrite <- IH. ring.
Qed.

(** k_ij = k_ji when the segment-segment file is consistent (then [seg_k] is symmetric, [binary_lookup_sym]) *)
Theorem kij_sym : forall bin si sj, pair_consistent Cas (map to_brec bin) -> kij si sj bin == kij sj si bin.
Proof.
  intros bin si sj Hc. rewrite !kij_rule, pair_sum_swap.
  unfold pair_sum. rewrite (lsum_ext _ _ (fun a => lsum (map (seg_k bin a) si)) sj).
  - rewrite (Qmult_comm (qn (length si))). reflexivity.
  - intro a. apply lsum_ext. intro b. unfold seg_k. rewrite (binary_lookup_sym 0 b a Hc). reflexivity.
Qed.

(** an average: if every segment pair has the same k, the molecules get that k *)
Theorem kij_const : forall bin si sj c, si <> [] -> sj <> [] -> (forall a b, seg_k bin a b == c) -> kij si sj bin == c.
Proof.
  intros bin si sj c Hi Hj Hc. rewrite kij_rule. unfold pair_sum.
  rewrite (lsum_ext _ _ (fun _ => qn (length sj) * c) si).
  - rewrite lsum_const. field. split; now apply qn_len_nz.
  - intro a. rewrite (lsum_ext _ _ (fun _ => c) sj) by (intro; apply Hc). apply lsum_const.
Qed.

(* ------------------------------------------------------------------------------------------------ *)
(** * heterosegmented gc-PC-SAFT: segment-pair lookup ([GcPcSaftEosParameters::from_segments]) *)

(** both orientations of every record are inserted, in file order; the last insert wins *)
Definition hetero_k (bin : list (N * N * Q)) (a b : N) : Q :=
  match find (fun r => (N.eqb (fst (fst r)) a && N.eqb (snd (fst r)) b) || (N.eqb (fst (fst r)) b && N.eqb (snd (fst r)) a)) (rev bin) with
  | Some r => snd r
  | None => 0
  end.

Lemma find_ext' : forall T (f g : T -> bool) l, (forall x, f x = g x) -> find f l = find g l.
Proof. intros T f g l H. induction l; simpl; [reflexivity | rewrite H, IHl; reflexivity]. Qed.

Theorem hetero_k_sym : forall bin a b, hetero_k bin a b = hetero_k bin b a.
Proof.
  intros. unfold hetero_k. rewrite (find_ext' _ _ (fun r => (N.eqb (fst (fst r)) b && N.eqb (snd (fst r)) a) || (N.eqb (fst (fst r)) a && N.eqb (snd (fst r)) b))).
  - reflexivity.
  - intro r. apply orb_comm.
Qed.

Lemma ukey_to_brec : forall r a b,
  ukey Cas a b (to_brec r) <-> (fst (fst r) = a /\ snd (fst r) = b) \/ (fst (fst r) = b /\ snd (fst r) = a).
Proof.
  intros [[x y] k] a b. unfold ukey, bkey, to_brec. simpl.
  split; intros [H|H]; [inversion H; auto | inversion H; auto | destruct H as [-> ->]; auto | destruct H as [-> ->]; auto].
Qed.

(** on a consistent file it coincides with the lookup of the homosegmented path *)
Theorem hetero_k_blookup : forall bin a b, pair_consistent Cas (map to_brec bin) -> hetero_k bin a b = seg_k bin a b.
Proof.
  intros bin a b Hc. unfold seg_k.
  destruct (blookup_cases 0 Cas (map to_brec bin) a b) as [[br [H1 [H2 H3]]]|[H1 H2]].
  - rewrite H3. unfold hetero_k. destruct (find _ _) as [r|] eqn:E.
    + apply find_some in E. destruct E as [E1 E2]. apply in_rev in E1.
      change (snd r) with (b_val (to_brec r)). apply (Hc (to_brec r) br a b); auto.
      * now apply in_map.
      * apply ukey_to_brec. rewrite orb_true_iff, !andb_true_iff, !N.eqb_eq in E2. exact E2.
    + exfalso. apply in_map_iff in H1. destruct H1 as [r [<- Hr]].
      apply in_rev in Hr. pose proof (find_none _ _ E r Hr) as Hn. apply ukey_to_brec in H2.
      rewrite orb_false_iff, !andb_false_iff, !N.eqb_neq in Hn. tauto.
  - rewrite H2. unfold hetero_k. destruct (find _ _) as [r|] eqn:E; [|reflexivity].
    exfalso. apply find_some in E. destruct E as [E1 E2]. apply in_rev in E1.
    apply (H1 (to_brec r)); [now apply in_map|].
    apply ukey_to_brec. rewrite orb_true_iff, !andb_true_iff, !N.eqb_eq in E2. exact E2.
Qed.

(* ------------------------------------------------------------------------------------------------ *)
(** * heterosegmented gc-PC-SAFT: dipole moment of a molecule ([GcPcSaftEosParameters::from_segments])
      mu^2 = sum over the segment kinds of  count * mu_kind^2  (kinds without a dipole contribute nothing);
      the molecule is dipolar iff that sum is positive, and then m, sigma^3, epsilon of the molecule follow the same
      rules as in the homosegmented case ([raw_sum f_m], [f_s3], [f_eps]). *)

(** dipole moment of a segment kind; the segment records are collected into a map (last record wins); no record or a
    record without [mu]: 0 *)
Definition mu_get (mus : list (N * Q)) (id : N) : Q :=
  match find (fun r => N.eqb (fst r) id) (rev mus) with Some r => snd r | None => 0 end.

Definition mu_sq (mus : list (N * Q)) (id : N) : Q := mu_get mus id * mu_get mus id.

(** as the code computes it: over the count map *)
Definition hetero_mu2 (mus : list (N * Q)) (segs : list N) : Q := csum (mu_sq mus) (segment_count segs).

(** the documented rule: every segment of the molecule contributes its mu^2 *)
Theorem hetero_mu2_rule : forall mus segs, hetero_mu2 mus segs == lsum (map (mu_sq mus) segs).
Proof. intros. unfold hetero_mu2, segment_count. apply (csum_count_list N N.eqb Neqb_spec). Qed.

Theorem hetero_mu2_perm : forall mus segs segs', Permutation segs segs' -> hetero_mu2 mus segs == hetero_mu2 mus segs'.
Proof. intros. rewrite !hetero_mu2_rule. apply lsum_perm. now apply Permutation_map. Qed.

Lemma lsum_app : forall a b, lsum (a ++ b) == lsum a + lsum b.
Proof. induction a as [|x a IH]; intro b; simpl; [ring | rewrite IH; ring]. Qed.

(** additive over the parts of a molecule ... *)
Theorem hetero_mu2_app : forall mus s1 s2, hetero_mu2 mus (s1 ++ s2) == hetero_mu2 mus s1 + hetero_mu2 mus s2.
Proof. intros. rewrite !hetero_mu2_rule, map_app. apply lsum_app. Qed.

(** ... in particular a dipolar group that occurs n times contributes n times its mu^2 *)
Theorem hetero_mu2_repeat : forall mus id n, hetero_mu2 mus (repeat id n) == qn n * mu_sq mus id.
Proof.
  intros. rewrite hetero_mu2_rule. induction n as [|n IH]; simpl repeat; simpl map; simpl lsum.
  - unfold qn. simpl. ring.
  - rewrite IH, qn_S. ring.
Qed.

Theorem hetero_mu2_cons : forall mus id segs, hetero_mu2 mus (id :: segs) == mu_sq mus id + hetero_mu2 mus segs.
Proof. intros. rewrite !hetero_mu2_rule. reflexivity. Qed.

(* ------------------------------------------------------------------------------------------------ *)
(** * Non-vacuity *)

Example ex_segment_count : segment_count [3; 5; 3; 3; 7]%N = [(3%N, 3%nat); (5%N, 1%nat); (7%N, 1%nat)].
Proof. reflexivity. Qed.

Example ex_bond_count : bond_count [3; 5; 3]%N (default_bonds 3) = [((3, 5)%N, 2%nat)].
Proof. reflexivity. Qed.

Example ex_combine :
  let srecs := [(1%N, mkSeg 15 (1#2) 4 200 false); (2%N, mkSeg 14 (1#4) 3 100 false)] in
  match from_segments_one [1; 2; 2; 1]%N srecs with
  | Ok c => c_mw c == 58 /\ c_m c == 3#2 /\ c_sigma3 c == (155 # 2) / (3#2) /\ c_eps c == 250 / (3#2)
  | Err _ => False end.
Proof. vm_compute. repeat split. Qed.

Example ex_missing_segment : from_segments_one [1; 9]%N [(1%N, mkSeg 15 1 4 200 false)] = Err (EMissing [9%N]).
Proof. reflexivity. Qed.

Example ex_two_polar : from_segments_one [1; 1]%N [(1%N, mkSeg 15 1 4 200 true)] = Err EIncompat.
Proof. reflexivity. Qed.

Example ex_hetero_mu2_twice : hetero_mu2 [(5%N, 3#2)] [1; 5; 2; 5; 1]%N == 9#2.
Proof. vm_compute. reflexivity. Qed.

Example ex_kij : kij [1; 1; 2]%N [3]%N [(3, 1, 1#4)%N] == 1#6.
Proof. vm_compute. reflexivity. Qed.
