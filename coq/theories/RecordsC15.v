(** C15 — well-formedness of the shipped parameter collections.

    Data model of the JSON files under parameters/ (regenerated on every run by tools/json2coq_c15.py into
    coq/gen/C15/), boolean checkers that are evaluated on the complete data by [vm_compute], and the generic
    lifting theorems that turn a successful evaluation into statements over [Forall] / [NoDup] / [In].

    Numbers are the decimal literals of the files, kept exactly: [(m, e)] stands for m * 10^e. *)
From Coq Require Import List String ZArith QArith Qabs Bool Lia.
Import ListNotations.
Open Scope string_scope.

(* ------------------------------------------------------------------------------------------- *)
(** * decimal literals and rational comparisons *)

Definition dec := (Z * Z)%type.

Definition dec_Q (d : dec) : Q :=
  let (m, e) := d in
  if (0 <=? e)%Z then inject_Z (m * 10 ^ e) else Qmake m (Z.to_pos (10 ^ (- e))).

Definition Qltb (x y : Q) : bool := negb (Qle_bool y x).

Lemma Qltb_true : forall x y, Qltb x y = true -> (x < y)%Q.
Proof.
  intros x y H. unfold Qltb in H. apply negb_true_iff in H.
  apply Qnot_le_lt. intro L. apply Qle_bool_iff in L. congruence.
Qed.

Lemma Qle_bool_true : forall x y, Qle_bool x y = true -> (x <= y)%Q.
Proof. intros x y H. now apply Qle_bool_iff. Qed.

Definition posb (d : dec) : bool := Qltb 0 (dec_Q d).
Definition nonnegb (d : dec) : bool := Qle_bool 0 (dec_Q d).

Lemma posb_sound : forall d, posb d = true -> (0 < dec_Q d)%Q.
Proof. intros d. apply Qltb_true. Qed.

Lemma nonnegb_sound : forall d, nonnegb d = true -> (0 <= dec_Q d)%Q.
Proof. intros d. apply Qle_bool_true. Qed.

(** sign of a literal is the sign of its mantissa (sanity lemma: the checker looks at the value, and the value has
    the sign one reads off the file) *)
Lemma dec_Q_pos_iff_mantissa : forall m e, (0 < dec_Q (m, e))%Q <-> (0 < m)%Z.
Proof.
  intros m e. unfold dec_Q. destruct (0 <=? e)%Z eqn:E.
  - apply Z.leb_le in E. unfold Qlt, inject_Z; simpl. rewrite !Z.mul_1_r.
    assert (0 < 10 ^ e)%Z by (apply Z.pow_pos_nonneg; lia). nia.
  - unfold Qlt; simpl. rewrite Z.mul_1_r. lia.
Qed.

(* ------------------------------------------------------------------------------------------- *)
(** * generic list checkers *)

Section Generic.
  Variable A : Type.

  (** all pairs (earlier, later) are unrelated by [r] *)
  Fixpoint all_distinctb (r : A -> A -> bool) (l : list A) : bool :=
    match l with
    | [] => true
    | x :: t => forallb (fun y => negb (r x y)) t && all_distinctb r t
    end.

  Lemma all_distinctb_sound : forall r l,
      all_distinctb r l = true -> ForallOrdPairs (fun x y => r x y = false) l.
  Proof.
    intros r l. induction l as [|x t IH]; simpl; intro H.
    - constructor.
    - apply andb_true_iff in H. destruct H as [H1 H2]. constructor.
      + apply Forall_forall. intros y Hy. rewrite forallb_forall in H1.
        specialize (H1 y Hy). now apply negb_true_iff in H1.
      + now apply IH.
  Qed.

  Lemma all_distinctb_complete : forall r l,
      ForallOrdPairs (fun x y => r x y = false) l -> all_distinctb r l = true.
  Proof.
    intros r l H. induction H as [|x t Hx Ht IH]; simpl; auto.
    apply andb_true_iff. split; auto. apply forallb_forall. intros y Hy.
    rewrite Forall_forall in Hx. rewrite (Hx y Hy). reflexivity.
  Qed.

  Lemma ordpairs_NoDup : forall (r : A -> A -> bool) l,
      (forall x, r x x = true) -> ForallOrdPairs (fun x y => r x y = false) l -> NoDup l.
  Proof.
    intros r l Hr H. induction H as [|x t Hx Ht IH].
    - constructor.
    - constructor; auto. intro Hin. rewrite Forall_forall in Hx. specialize (Hx x Hin).
      rewrite Hr in Hx. discriminate.
  Qed.

  Lemma forallb_Forall : forall (f : A -> bool) l, forallb f l = true -> Forall (fun x => f x = true) l.
  Proof. intros f l H. apply Forall_forall. now apply forallb_forall. Qed.
End Generic.
Arguments all_distinctb {A}.

Definition memb (s : string) (l : list string) : bool := existsb (String.eqb s) l.

Lemma memb_In : forall s l, memb s l = true -> In s l.
Proof.
  intros s l H. unfold memb in H. apply existsb_exists in H. destruct H as [x [Hx E]].
  apply String.eqb_eq in E. now subst.
Qed.

Lemma In_memb : forall s l, In s l -> memb s l = true.
Proof.
  intros s l H. unfold memb. apply existsb_exists. exists s. split; auto. apply String.eqb_refl.
Qed.

Definition nodupb (l : list string) : bool := all_distinctb String.eqb l.

Lemma nodupb_NoDup : forall l, nodupb l = true -> NoDup l.
Proof.
  intros l H. apply (ordpairs_NoDup _ String.eqb); [apply String.eqb_refl|].
  now apply all_distinctb_sound.
Qed.

Lemma NoDup_nodupb : forall l, NoDup l -> nodupb l = true.
Proof.
  intros l H. apply all_distinctb_complete. induction H as [|x t Hx Ht IH]; constructor; auto.
  apply Forall_forall. intros y Hy. apply String.eqb_neq. intro; subst. contradiction.
Qed.

(** look-up semantics of [PureRecord::from_json]: the FIRST record whose identifier equals the query is returned *)
Section Lookup.
  Variable R : Type.
  Variable key : R -> option string.

  Fixpoint lookup (q : string) (l : list R) : option R :=
    match l with
    | [] => None
    | r :: t => match key r with
                | Some k => if String.eqb k q then Some r else lookup q t
                | None => lookup q t
                end
    end.

  Definition keys (l : list R) : list string :=
    flat_map (fun r => match key r with Some k => [k] | None => [] end) l.

  (** in a duplicate-free collection every record is the one its own identifier retrieves *)
  Lemma lookup_own : forall l, NoDup (keys l) ->
      forall r k, In r l -> key r = Some k -> lookup k l = Some r.
  Proof.
    induction l as [|a t IH]; intros ND r k Hin Hk; [inversion Hin|].
    simpl. unfold keys in ND. simpl in ND. destruct Hin as [->|Hin].
    - rewrite Hk. now rewrite String.eqb_refl.
    - destruct (key a) as [ka|] eqn:Ka.
      + simpl in ND. inversion ND as [|? ? Hnot ND']; subst.
        destruct (String.eqb ka k) eqn:E.
        * apply String.eqb_eq in E. subst ka. exfalso. apply Hnot.
          apply in_flat_map. exists r. split; auto. rewrite Hk. now left.
        * now apply IH.
      + simpl in ND. now apply IH.
  Qed.
End Lookup.
Arguments lookup {R}.
Arguments keys {R}.

(* ------------------------------------------------------------------------------------------- *)
(** * records *)

Record ident := mk_ident {
  i_cas : option string; i_name : option string; i_iupac : option string;
  i_smiles : option string; i_inchi : option string; i_formula : option string }.

(** numeric leaves of "model_record", flattened: path (e.g. "viscosity.2") -> literal *)
Definition fields := list (string * dec).

Fixpoint field (k : string) (fs : fields) : option dec :=
  match fs with
  | [] => None
  | (k', v) :: t => if String.eqb k' k then Some v else field k t
  end.

Record pure_rec := mk_pure { p_id : ident; p_mw : option dec; p_fields : fields }.
Record seg_rec := mk_seg { s_id : string; s_mw : option dec; s_fields : fields }.
Record bin_rec := mk_bin { b_id1 : ident; b_id2 : ident; b_fields : fields }.
Record binseg_rec := mk_binseg { bs_id1 : string; bs_id2 : string; bs_val : dec }.
Record chem_rec := mk_chem { c_id : ident; c_segments : list string; c_bonds : option (list (N * N)) }.

Definition p_name (r : pure_rec) : option string := i_name (p_id r).
Definition c_name (r : chem_rec) : option string := i_name (c_id r).

(** value of a field as a rational, [None] when the file does not state it *)
Definition fieldQ (k : string) (fs : fields) : option Q := option_map dec_Q (field k fs).

Definition opt_posb (o : option dec) : bool := match o with Some d => posb d | None => false end.
(** optional field: absent or satisfying [f] *)
Definition opt_allb (f : dec -> bool) (o : option dec) : bool := match o with Some d => f d | None => true end.

Definition pos_field (k : string) (fs : fields) : Prop := exists d, field k fs = Some d /\ (0 < dec_Q d)%Q.
Definition nonneg_if_present (k : string) (fs : fields) : Prop := forall d, field k fs = Some d -> (0 <= dec_Q d)%Q.

Lemma opt_posb_field : forall k fs, opt_posb (field k fs) = true -> pos_field k fs.
Proof.
  intros k fs H. unfold pos_field. destruct (field k fs) as [d|]; simpl in H; [|discriminate].
  exists d. split; auto. now apply posb_sound.
Qed.

Lemma opt_nonneg_field : forall k fs, opt_allb nonnegb (field k fs) = true -> nonneg_if_present k fs.
Proof.
  intros k fs H d E. rewrite E in H. simpl in H. now apply nonnegb_sound.
Qed.

(** scalar fields of the SAFT-type records that must not be negative when present (charge [z] may be) *)
Definition nonneg_keys : list string :=
  ["mu"; "q"; "kappa_ab"; "epsilon_k_ab"; "rc_ab"; "na"; "nb"; "nc"; "lr"; "la"; "psi_dft"].

(** ** pure records of the SAFT family (PC-SAFT, ePC-SAFT, SAFT-VR Mie, SAFT-VRQ Mie) *)
Definition saft_okb (r : pure_rec) : bool :=
  match p_name r with Some _ => true | None => false end
  && opt_posb (p_mw r)
  && opt_posb (field "m" (p_fields r)) && opt_posb (field "sigma" (p_fields r))
  && opt_posb (field "epsilon_k" (p_fields r))
  && forallb (fun k => opt_allb nonnegb (field k (p_fields r))) nonneg_keys.

Definition saft_ok (r : pure_rec) : Prop :=
  (exists n, p_name r = Some n)
  /\ (exists w, p_mw r = Some w /\ (0 < dec_Q w)%Q)
  /\ pos_field "m" (p_fields r) /\ pos_field "sigma" (p_fields r) /\ pos_field "epsilon_k" (p_fields r)
  /\ Forall (fun k => nonneg_if_present k (p_fields r)) nonneg_keys.

Lemma saft_okb_sound : forall r, saft_okb r = true -> saft_ok r.
Proof.
  intros r H. unfold saft_okb in H. repeat (apply andb_true_iff in H; destruct H as [H ?]).
  unfold saft_ok. repeat split.
  - destruct (p_name r) as [n|]; [now exists n|discriminate].
  - destruct (p_mw r) as [w|]; simpl in *; [|discriminate]. exists w. split; auto. now apply posb_sound.
  - now apply opt_posb_field.
  - now apply opt_posb_field.
  - now apply opt_posb_field.
  - apply Forall_forall. intros k Hk. rewrite forallb_forall in H0. apply opt_nonneg_field. now apply H0.
Qed.

(** Mie records: exponents present with 0 < la < lr *)
Definition mie_okb (r : pure_rec) : bool :=
  saft_okb r &&
  match fieldQ "la" (p_fields r), fieldQ "lr" (p_fields r) with
  | Some la, Some lr => Qltb 0 la && Qltb la lr
  | _, _ => false
  end.

Definition mie_ok (r : pure_rec) : Prop :=
  saft_ok r /\ exists la lr, fieldQ "la" (p_fields r) = Some la /\ fieldQ "lr" (p_fields r) = Some lr
                             /\ (0 < la)%Q /\ (la < lr)%Q.

Lemma mie_okb_sound : forall r, mie_okb r = true -> mie_ok r.
Proof.
  intros r H. unfold mie_okb in H. apply andb_true_iff in H. destruct H as [H1 H2].
  split; [now apply saft_okb_sound|].
  destruct (fieldQ "la" (p_fields r)) as [la|]; [|discriminate].
  destruct (fieldQ "lr" (p_fields r)) as [lr|]; [|discriminate].
  apply andb_true_iff in H2. destruct H2 as [A B].
  exists la, lr. repeat split; auto using Qltb_true.
Qed.

(** SAFT-VRQ Mie: additionally m = 1 (the model has no chain term; [from_records] rejects anything else) and
    Feynman-Hibbs order in {0,1,2} *)
Definition vrq_okb (r : pure_rec) : bool :=
  mie_okb r &&
  match fieldQ "m" (p_fields r), fieldQ "fh" (p_fields r) with
  | Some m, Some fh => Qeq_bool m 1 && (Qeq_bool fh 0 || Qeq_bool fh 1 || Qeq_bool fh 2)
  | _, _ => false
  end.

Definition vrq_ok (r : pure_rec) : Prop :=
  mie_ok r /\ exists m fh, fieldQ "m" (p_fields r) = Some m /\ fieldQ "fh" (p_fields r) = Some fh
                           /\ (m == 1)%Q /\ ((fh == 0)%Q \/ (fh == 1)%Q \/ (fh == 2)%Q).

Lemma vrq_okb_sound : forall r, vrq_okb r = true -> vrq_ok r.
Proof.
  intros r H. unfold vrq_okb in H. apply andb_true_iff in H. destruct H as [H1 H2].
  split; [now apply mie_okb_sound|].
  destruct (fieldQ "m" (p_fields r)) as [m|]; [|discriminate].
  destruct (fieldQ "fh" (p_fields r)) as [fh|]; [|discriminate].
  apply andb_true_iff in H2. destruct H2 as [A B]. exists m, fh. repeat split; auto.
  - now apply Qeq_bool_iff.
  - apply orb_true_iff in B. destruct B as [B|B]; [apply orb_true_iff in B; destruct B as [B|B]|].
    + left. now apply Qeq_bool_iff.
    + right; left. now apply Qeq_bool_iff.
    + right; right. now apply Qeq_bool_iff.
Qed.

(** ideal-gas pure records (DIPPR): a name, at least one coefficient; a molar weight is optional (unused by the
    model) but must be positive when stated *)
Definition ideal_okb (r : pure_rec) : bool :=
  match p_name r with Some _ => true | None => false end
  && opt_allb posb (p_mw r)
  && negb (match p_fields r with [] => true | _ => false end).

Definition ideal_ok (r : pure_rec) : Prop :=
  (exists n, p_name r = Some n) /\ (forall w, p_mw r = Some w -> (0 < dec_Q w)%Q) /\ p_fields r <> [].

Lemma ideal_okb_sound : forall r, ideal_okb r = true -> ideal_ok r.
Proof.
  intros r H. unfold ideal_okb in H. repeat (apply andb_true_iff in H; destruct H as [H ?]).
  repeat split.
  - destruct (p_name r) as [n|]; [now exists n|discriminate].
  - intros w E. rewrite E in H1. simpl in H1. now apply posb_sound.
  - destruct (p_fields r); [discriminate|congruence].
Qed.

(** ** a pure collection: every record ok + names duplicate free (name is the identifier kind used for look-up) *)
Definition names (l : list pure_rec) : list string := keys p_name l.

Definition collection_okb (okb : pure_rec -> bool) (l : list pure_rec) : bool :=
  forallb okb l && nodupb (names l).

Theorem collection_okb_sound : forall okb (ok : pure_rec -> Prop),
    (forall r, okb r = true -> ok r) ->
    forall l, collection_okb okb l = true ->
              Forall ok l /\ NoDup (names l)
              /\ (forall r k, In r l -> p_name r = Some k -> lookup p_name k l = Some r).
Proof.
  intros okb ok S l H. unfold collection_okb in H. apply andb_true_iff in H. destruct H as [H1 H2].
  assert (ND : NoDup (names l)) by now apply nodupb_NoDup.
  repeat split; auto.
  - apply Forall_forall. intros r Hr. apply S. rewrite forallb_forall in H1. now apply H1.
  - intros r k. now apply lookup_own.
Qed.

(** a duplicated name makes the later record unreachable (what the checker protects against) *)
Lemma duplicate_shadows : forall (r1 r2 : pure_rec) k l1 l2 l3,
    p_name r1 = Some k -> p_name r2 = Some k -> ~ In k (names l1) ->
    lookup p_name k (l1 ++ r1 :: l2 ++ r2 :: l3) = Some r1.
Proof.
  intros r1 r2 k l1 l2 l3 K1 K2. induction l1 as [|a t IH]; intro N; simpl.
  - rewrite K1. now rewrite String.eqb_refl.
  - unfold names, keys in N. simpl in N. destruct (p_name a) as [ka|] eqn:Ka.
    + simpl in N. destruct (String.eqb ka k) eqn:E.
      * apply String.eqb_eq in E. subst. exfalso. apply N. now left.
      * apply IH. intro. apply N. now right.
    + apply IH. exact N.
Qed.

(** ** segment tables *)
Definition seg_ids (l : list seg_rec) : list string := map s_id l.

(** SAFT segment: positive molar weight; m, sigma, epsilon_k positive unless the segment is one of the listed
    exceptions (recorded finding: the published >C< group has non-positive contributions) *)
Definition seg_posb (r : seg_rec) : bool :=
  opt_posb (field "m" (s_fields r)) && opt_posb (field "sigma" (s_fields r)) && opt_posb (field "epsilon_k" (s_fields r)).

Definition seg_okb (exc : list string) (r : seg_rec) : bool :=
  opt_posb (s_mw r) && (memb (s_id r) exc || seg_posb r)
  && match field "m" (s_fields r), field "sigma" (s_fields r), field "epsilon_k" (s_fields r) with
     | Some _, Some _, Some _ => true | _, _, _ => false end.

Definition seg_pos (r : seg_rec) : Prop :=
  pos_field "m" (s_fields r) /\ pos_field "sigma" (s_fields r) /\ pos_field "epsilon_k" (s_fields r).

Definition seg_ok (exc : list string) (r : seg_rec) : Prop :=
  (exists w, s_mw r = Some w /\ (0 < dec_Q w)%Q) /\ (In (s_id r) exc \/ seg_pos r).

Lemma seg_okb_sound : forall exc r, seg_okb exc r = true -> seg_ok exc r.
Proof.
  intros exc r H. unfold seg_okb in H. repeat (apply andb_true_iff in H; destruct H as [H ?]).
  split.
  - destruct (s_mw r) as [w|]; simpl in *; [|discriminate]. exists w. split; auto. now apply posb_sound.
  - apply orb_true_iff in H1. destruct H1 as [E|P]; [left; now apply memb_In|right].
    unfold seg_posb in P. repeat (apply andb_true_iff in P; destruct P as [P ?]).
    repeat split; now apply opt_posb_field.
Qed.

(** ideal-gas (Joback) segment: positive molar weight and the five coefficients present *)
Definition jobackseg_okb (r : seg_rec) : bool :=
  opt_posb (s_mw r)
  && forallb (fun k => match field k (s_fields r) with Some _ => true | None => false end) ["a"; "b"; "c"; "d"; "e"].

Definition jobackseg_ok (r : seg_rec) : Prop :=
  (exists w, s_mw r = Some w /\ (0 < dec_Q w)%Q)
  /\ Forall (fun k => exists d, field k (s_fields r) = Some d) ["a"; "b"; "c"; "d"; "e"].

Lemma jobackseg_okb_sound : forall r, jobackseg_okb r = true -> jobackseg_ok r.
Proof.
  intros r H. unfold jobackseg_okb in H. apply andb_true_iff in H. destruct H as [H1 H2]. split.
  - destruct (s_mw r) as [w|]; simpl in *; [|discriminate]. exists w. split; auto. now apply posb_sound.
  - apply Forall_forall. intros k Hk. rewrite forallb_forall in H2. specialize (H2 k Hk).
    destruct (field k (s_fields r)) as [d|]; [now exists d|discriminate].
Qed.

Definition table_okb (okb : seg_rec -> bool) (l : list seg_rec) : bool := forallb okb l && nodupb (seg_ids l).

Theorem table_okb_sound : forall okb (ok : seg_rec -> Prop),
    (forall r, okb r = true -> ok r) ->
    forall l, table_okb okb l = true -> Forall ok l /\ NoDup (seg_ids l).
Proof.
  intros okb ok S l H. unfold table_okb in H. apply andb_true_iff in H. destruct H as [H1 H2]. split.
  - apply Forall_forall. intros r Hr. apply S. rewrite forallb_forall in H1. now apply H1.
  - now apply nodupb_NoDup.
Qed.

(** ** binary files *)
Definition b_names (b : bin_rec) : option (string * string) :=
  match i_name (b_id1 b), i_name (b_id2 b) with Some x, Some y => Some (x, y) | _, _ => None end.

(** the same unordered pair (the look-up tries both orientations) *)
Definition same_pairb (p q : string * string) : bool :=
  (String.eqb (fst p) (fst q) && String.eqb (snd p) (snd q))
  || (String.eqb (fst p) (snd q) && String.eqb (snd p) (fst q)).

Definition same_pair (p q : string * string) : Prop :=
  (fst p = fst q /\ snd p = snd q) \/ (fst p = snd q /\ snd p = fst q).

Lemma same_pairb_false : forall p q, same_pairb p q = false -> ~ same_pair p q.
Proof.
  intros p q H [[A B]|[A B]]; unfold same_pairb in H; rewrite A, B in H;
    rewrite !String.eqb_refl in H; simpl in H; try discriminate.
  now rewrite orb_true_r in H.
Qed.

Definition bin_pairs (l : list bin_rec) : list (string * string) :=
  flat_map (fun b => match b_names b with Some p => [p] | None => [] end) l.

Definition bin_refs_okb (coll : list string) (l : list bin_rec) : bool :=
  forallb (fun b => match b_names b with Some (x, y) => memb x coll && memb y coll | None => false end) l.

Definition bin_refs_ok (coll : list string) (l : list bin_rec) : Prop :=
  Forall (fun b => exists x y, i_name (b_id1 b) = Some x /\ i_name (b_id2 b) = Some y /\ In x coll /\ In y coll) l.

Theorem bin_refs_okb_sound : forall coll l, bin_refs_okb coll l = true -> bin_refs_ok coll l.
Proof.
  intros coll l H. apply Forall_forall. intros b Hb. unfold bin_refs_okb in H. rewrite forallb_forall in H.
  specialize (H b Hb). unfold b_names in H.
  destruct (i_name (b_id1 b)) as [x|]; [|discriminate]. destruct (i_name (b_id2 b)) as [y|]; [|discriminate].
  apply andb_true_iff in H. destruct H as [A B]. exists x, y. repeat split; auto using memb_In.
Qed.

Definition pairs_distinctb (l : list (string * string)) : bool := all_distinctb same_pairb l.

Theorem pairs_distinctb_sound : forall l,
    pairs_distinctb l = true -> ForallOrdPairs (fun p q => ~ same_pair p q) l.
Proof.
  intros l H. apply all_distinctb_sound in H.
  induction H as [|x t Hx Ht IH]; constructor; auto.
  eapply Forall_impl; [|exact Hx]. intros q Hq. now apply same_pairb_false.
Qed.

Definition binseg_pairs (l : list binseg_rec) : list (string * string) := map (fun b => (bs_id1 b, bs_id2 b)) l.

Definition binseg_refs_okb (ids : list string) (l : list binseg_rec) : bool :=
  forallb (fun b => memb (bs_id1 b) ids && memb (bs_id2 b) ids) l.

Theorem binseg_refs_okb_sound : forall ids l,
    binseg_refs_okb ids l = true -> Forall (fun b => In (bs_id1 b) ids /\ In (bs_id2 b) ids) l.
Proof.
  intros ids l H. apply Forall_forall. intros b Hb. unfold binseg_refs_okb in H. rewrite forallb_forall in H.
  specialize (H b Hb). apply andb_true_iff in H. destruct H. split; now apply memb_In.
Qed.

(* ------------------------------------------------------------------------------------------- *)
(** * group contribution: assembling a substance from a segment table *)

Fixpoint find_seg (id : string) (l : list seg_rec) : option seg_rec :=
  match l with
  | [] => None
  | r :: t => if String.eqb (s_id r) id then Some r else find_seg id t
  end.

Lemma find_seg_In : forall id l r, find_seg id l = Some r -> In r l /\ s_id r = id.
Proof.
  induction l as [|a t IH]; simpl; intros r H; [discriminate|].
  destruct (String.eqb (s_id a) id) eqn:E.
  - inversion H; subst. apply String.eqb_eq in E. auto.
  - destruct (IH r H). auto.
Qed.

Lemma In_find_seg : forall id l, In id (seg_ids l) -> exists r, find_seg id l = Some r.
Proof.
  induction l as [|a t IH]; simpl; intros H; [contradiction|].
  destruct (String.eqb (s_id a) id) eqn:E; [eauto|].
  destruct H as [H|H]; [subst; rewrite String.eqb_refl in E; discriminate|auto].
Qed.

(** structural well-formedness of a chemical record w.r.t. a table: what [ChemicalRecord::new],
    [segment_map] and [bond_count] need in order not to fail: a non-empty segment list (the default bond list is
    built from [segments.len() - 1]), every segment in the table, every bond index inside the segment list *)
Definition bonds_okb (n : N) (o : option (list (N * N))) : bool :=
  match o with
  | None => true
  | Some bs => forallb (fun b => (fst b <? n)%N && (snd b <? n)%N) bs
  end.

Definition chem_okb (ids : list string) (c : chem_rec) : bool :=
  match c_name c with Some _ => true | None => false end
  && negb (match c_segments c with [] => true | _ => false end)
  && forallb (fun s => memb s ids) (c_segments c)
  && bonds_okb (N.of_nat (List.length (c_segments c))) (c_bonds c).

Definition chem_ok (ids : list string) (c : chem_rec) : Prop :=
  (exists n, c_name c = Some n) /\ c_segments c <> [] /\ Forall (fun s => In s ids) (c_segments c)
  /\ (forall bs, c_bonds c = Some bs ->
        Forall (fun b => (fst b < N.of_nat (List.length (c_segments c)))%N /\ (snd b < N.of_nat (List.length (c_segments c)))%N) bs).

Lemma chem_okb_sound : forall ids c, chem_okb ids c = true -> chem_ok ids c.
Proof.
  intros ids c H. unfold chem_okb in H. repeat (apply andb_true_iff in H; destruct H as [H ?]).
  repeat split.
  - destruct (c_name c) as [n|]; [now exists n|discriminate].
  - destruct (c_segments c); [discriminate|congruence].
  - apply Forall_forall. intros s Hs. rewrite forallb_forall in H1. apply memb_In. now apply H1.
  - intros bs E. rewrite E in H0. simpl in H0. apply Forall_forall. intros b Hb. rewrite forallb_forall in H0.
    specialize (H0 b Hb). apply andb_true_iff in H0. destruct H0 as [A B].
    split; now apply N.ltb_lt.
Qed.

(** homosegmented PC-SAFT ([FromSegments for PcSaftRecord]), in exact arithmetic.  A segment occurring n times
    is simply visited n times.  Result: (m, m*sigma^3-sum, m*epsilon-sum, molar weight, number of polar or
    associating segments). *)
Definition QO := option Q.
Definition is_polar (r : seg_rec) : bool :=
  match field "q" (s_fields r), field "mu" (s_fields r) with
  | None, None =>
      let g k := match fieldQ k (s_fields r) with Some x => x | None => 0 end in
      Qltb 0 (g "na" + g "nb" + g "nc")
  | _, _ => true
  end.

Record homo := mk_homo { h_m : Q; h_s3 : Q; h_e : Q; h_mw : Q; h_polar : nat }.

Definition homo_add (acc : homo) (r : seg_rec) : option homo :=
  match fieldQ "m" (s_fields r), fieldQ "sigma" (s_fields r), fieldQ "epsilon_k" (s_fields r), s_mw r with
  | Some m, Some s, Some e, Some w =>
      Some (mk_homo (h_m acc + m) (h_s3 acc + m * (s * s * s)) (h_e acc + m * e) (h_mw acc + dec_Q w)
                    (h_polar acc + (if is_polar r then 1 else 0)))
  | _, _, _, _ => None
  end.

Fixpoint assemble_from (table : list seg_rec) (segs : list string) (acc : homo) : option homo :=
  match segs with
  | [] => Some acc
  | s :: t => match find_seg s table with
              | Some r => match homo_add acc r with Some acc' => assemble_from table t acc' | None => None end
              | None => None
              end
  end.

Definition assemble (table : list seg_rec) (c : chem_rec) : option homo :=
  assemble_from table (c_segments c) (mk_homo 0 0 0 0 0).

(** the assembled substance is physically usable: m > 0, sigma^3 = s3/m > 0, epsilon = e/m > 0, molar weight > 0,
    at most one polar/associating segment (otherwise [from_segments] returns an error) *)
Definition homo_usableb (h : homo) : bool :=
  Qltb 0 (h_m h) && Qltb 0 (h_s3 h) && Qltb 0 (h_e h) && Qltb 0 (h_mw h) && (h_polar h <=? 1)%nat.

Definition homo_usable (h : homo) : Prop :=
  (0 < h_m h)%Q /\ (0 < h_s3 h / h_m h)%Q /\ (0 < h_e h / h_m h)%Q /\ (0 < h_mw h)%Q /\ (h_polar h <= 1)%nat.

Lemma Qdiv_pos : forall a b : Q, (0 < a)%Q -> (0 < b)%Q -> (0 < a / b)%Q.
Proof.
  intros a b Ha Hb. unfold Qdiv. apply Qmult_lt_0_compat; auto. now apply Qinv_lt_0_compat.
Qed.

Lemma homo_usableb_sound : forall h, homo_usableb h = true -> homo_usable h.
Proof.
  intros h H. unfold homo_usableb in H. repeat (apply andb_true_iff in H; destruct H as [H ?]).
  apply Qltb_true in H, H3, H2, H1. apply Nat.leb_le in H0.
  repeat split; auto using Qdiv_pos.
Qed.

Definition gc_okb (table : list seg_rec) (c : chem_rec) : bool :=
  chem_okb (seg_ids table) c &&
  match assemble table c with Some h => homo_usableb h | None => false end.

Definition gc_ok (table : list seg_rec) (c : chem_rec) : Prop :=
  chem_ok (seg_ids table) c /\ exists h, assemble table c = Some h /\ homo_usable h.

Theorem gc_okb_sound : forall table c, gc_okb table c = true -> gc_ok table c.
Proof.
  intros table c H. unfold gc_okb in H. apply andb_true_iff in H. destruct H as [H1 H2].
  split; [now apply chem_okb_sound|].
  destruct (assemble table c) as [h|]; [|discriminate]. exists h. split; auto. now apply homo_usableb_sound.
Qed.

(** every segment found: the assembly only fails when a segment is missing or incomplete *)
Lemma assemble_missing : forall table segs acc s,
    In s segs -> ~ In s (seg_ids table) -> assemble_from table segs acc = None.
Proof.
  intros table segs. induction segs as [|a t IH]; intros acc s Hin Hn; [inversion Hin|].
  simpl. destruct (find_seg a table) as [r|] eqn:F; auto.
  destruct Hin as [->|Hin].
  - exfalso. apply Hn. apply find_seg_In in F. destruct F as [F1 F2]. rewrite <- F2. now apply in_map.
  - destruct (homo_add acc r); auto. now apply (IH _ s).
Qed.

Theorem gc_all_sound : forall table chems,
    forallb (gc_okb table) chems = true -> Forall (gc_ok table) chems.
Proof.
  intros table chems H. apply Forall_forall. intros c Hc. apply gc_okb_sound.
  rewrite forallb_forall in H. now apply H.
Qed.

(** heterosegmented tables / Joback: structural assembly only *)
Theorem chem_all_sound : forall ids chems,
    forallb (chem_okb ids) chems = true -> Forall (chem_ok ids) chems.
Proof.
  intros ids chems H. apply Forall_forall. intros c Hc. apply chem_okb_sound.
  rewrite forallb_forall in H. now apply H.
Qed.

Definition chem_names (l : list chem_rec) : list string := keys c_name l.

(** SMARTS table: every group is a segment of the table *)
Theorem groups_sound : forall ids groups,
    forallb (fun g => memb g ids) groups = true -> Forall (fun g => In g ids) groups.
Proof.
  intros ids groups H. apply Forall_forall. intros g Hg. apply memb_In. rewrite forallb_forall in H. now apply H.
Qed.

(* ------------------------------------------------------------------------------------------- *)
(** * non-vacuity *)

Definition ex_id (n : string) := mk_ident None (Some n) None None None None.
Definition ex_rec (n : string) (m : Z) :=
  mk_pure (ex_id n) (Some (16043, -3)%Z) [("m", (m, -4)%Z); ("sigma", (37039, -4)%Z); ("epsilon_k", (15003, -2)%Z)].

Example ex_collection_ok : collection_okb saft_okb [ex_rec "methane" 10000; ex_rec "ethane" 16069] = true.
Proof. vm_compute. reflexivity. Qed.

Example ex_duplicate_rejected : collection_okb saft_okb [ex_rec "methane" 10000; ex_rec "methane" 16069] = false.
Proof. vm_compute. reflexivity. Qed.

Example ex_negative_rejected : collection_okb saft_okb [ex_rec "methane" (-10000)] = false.
Proof. vm_compute. reflexivity. Qed.

Example ex_dangling_rejected :
  bin_refs_okb (names [ex_rec "methane" 10000]) [mk_bin (ex_id "methane") (ex_id "ethane") []] = false.
Proof. vm_compute. reflexivity. Qed.

Example ex_dec : (dec_Q (16043, -3)%Z == 16043 # 1000)%Q.
Proof. vm_compute. reflexivity. Qed.

Definition ex_table :=
  [mk_seg "CH3" (Some (15035, -3)%Z) [("m", (77247, -5)%Z); ("sigma", (36937, -4)%Z); ("epsilon_k", (18198, -2)%Z)];
   mk_seg ">C<" (Some (12011, -3)%Z) [("m", (-66997, -5)%Z); ("sigma", (-17878, -4)%Z); ("epsilon_k", (10768, -2)%Z)]].

Example ex_gc_ok : gc_okb ex_table (mk_chem (ex_id "neopentane") ["CH3"; "CH3"; ">C<"; "CH3"; "CH3"] None) = true.
Proof. vm_compute. reflexivity. Qed.

Example ex_gc_missing : gc_okb ex_table (mk_chem (ex_id "propane") ["CH3"; "CH2"; "CH3"] None) = false.
Proof. vm_compute. reflexivity. Qed.

(* ------------------------------------------------------------------------------------------- *)
(** * the statements instantiated by the generated files (one per record type) *)

Definition collection_ok (ok : pure_rec -> Prop) (l : list pure_rec) : Prop :=
  Forall ok l /\ NoDup (names l)
  /\ (forall r k, In r l -> p_name r = Some k -> lookup p_name k l = Some r).

Lemma saft_collection_sound : forall l, collection_okb saft_okb l = true -> collection_ok saft_ok l.
Proof. exact (collection_okb_sound _ _ saft_okb_sound). Qed.

Lemma mie_collection_sound : forall l, collection_okb mie_okb l = true -> collection_ok mie_ok l.
Proof. exact (collection_okb_sound _ _ mie_okb_sound). Qed.

Lemma vrq_collection_sound : forall l, collection_okb vrq_okb l = true -> collection_ok vrq_ok l.
Proof. exact (collection_okb_sound _ _ vrq_okb_sound). Qed.

Lemma ideal_collection_sound : forall l, collection_okb ideal_okb l = true -> collection_ok ideal_ok l.
Proof. exact (collection_okb_sound _ _ ideal_okb_sound). Qed.

Lemma segment_table_sound : forall exc l,
    table_okb (seg_okb exc) l = true -> Forall (seg_ok exc) l /\ NoDup (seg_ids l).
Proof. intros exc. exact (table_okb_sound _ _ (seg_okb_sound exc)). Qed.

Lemma joback_table_sound : forall l,
    table_okb jobackseg_okb l = true -> Forall jobackseg_ok l /\ NoDup (seg_ids l).
Proof. exact (table_okb_sound _ _ jobackseg_okb_sound). Qed.

(** with an empty exception list the statement is the full-strength one *)
Lemma segment_table_full_strength : forall l,
    table_okb (seg_okb []) l = true ->
    Forall (fun r => (exists w, s_mw r = Some w /\ (0 < dec_Q w)%Q) /\ seg_pos r) l /\ NoDup (seg_ids l).
Proof.
  intros l H. destruct (segment_table_sound [] l H) as [F N]. split; auto.
  eapply Forall_impl; [|exact F]. intros r [W [E|P]]; [inversion E|auto].
Qed.

(** a saft_ok record has positive m, sigma, epsilon_k and molar weight as rationals read off the file *)
Lemma saft_ok_positive : forall r, saft_ok r ->
    exists m s e w, fieldQ "m" (p_fields r) = Some m /\ fieldQ "sigma" (p_fields r) = Some s
                    /\ fieldQ "epsilon_k" (p_fields r) = Some e /\ option_map dec_Q (p_mw r) = Some w
                    /\ (0 < m)%Q /\ (0 < s)%Q /\ (0 < e)%Q /\ (0 < w)%Q.
Proof.
  intros r [_ [[w [Ew Pw]] [[m [Em Pm]] [[s [Es Ps]] [[e [Ee Pe]] _]]]]].
  exists (dec_Q m), (dec_Q s), (dec_Q e), (dec_Q w). unfold fieldQ. rewrite Em, Es, Ee, Ew. simpl.
  repeat split; auto.
Qed.

Lemma nodupb_iff : forall l : list string, nodupb l = true <-> NoDup l.
Proof. intro l. split; [apply nodupb_NoDup | apply NoDup_nodupb]. Qed.

(* ------------------------------------------------------------------------------------------- *)
(** * every identifier kind (look-up may use any [IdentifierOption]) *)

Inductive kind := Kcas | Kname | Kiupac | Ksmiles | Kinchi | Kformula.

Definition get_kind (k : kind) (i : ident) : option string :=
  match k with
  | Kcas => i_cas i | Kname => i_name i | Kiupac => i_iupac i
  | Ksmiles => i_smiles i | Kinchi => i_inchi i | Kformula => i_formula i
  end.

Definition all_kinds : list kind := [Kcas; Kname; Kiupac; Ksmiles; Kinchi; Kformula].

Lemma all_kinds_complete : forall k, In k all_kinds.
Proof. destruct k; simpl; auto 10. Qed.

(** the identifier [b] (of a binary record) agrees with the identifier [p] (of a pure record): every kind [b]
    states is stated by [p] with the same value *)
Definition agreesb (b p : ident) : bool :=
  forallb (fun k => match get_kind k b with
                    | None => true
                    | Some x => match get_kind k p with Some y => String.eqb x y | None => false end
                    end) all_kinds.

Definition agrees (b p : ident) : Prop := forall k x, get_kind k b = Some x -> get_kind k p = Some x.

Lemma agreesb_sound : forall b p, agreesb b p = true -> agrees b p.
Proof.
  intros b p H k x E. unfold agreesb in H. rewrite forallb_forall in H.
  specialize (H k (all_kinds_complete k)). rewrite E in H.
  destruct (get_kind k p) as [y|]; [|discriminate]. apply String.eqb_eq in H. now subst.
Qed.

Lemma agrees_agreesb : forall b p, agrees b p -> agreesb b p = true.
Proof.
  intros b p H. unfold agreesb. apply forallb_forall. intros k _.
  destruct (get_kind k b) as [x|] eqn:E; auto. rewrite (H k x E). apply String.eqb_refl.
Qed.

(** a binary identifier resolves in a collection: it has a name and some record of the collection agrees with it
    on every kind it states (so it cannot name one substance and carry the CAS number of another) *)
Definition id_resolvesb (ids : list ident) (b : ident) : bool :=
  match i_name b with Some _ => existsb (agreesb b) ids | None => false end.

Definition id_resolves (ids : list ident) (b : ident) : Prop :=
  (exists n, i_name b = Some n) /\ exists p, In p ids /\ agrees b p.

Lemma id_resolvesb_sound : forall ids b, id_resolvesb ids b = true -> id_resolves ids b.
Proof.
  intros ids b H. unfold id_resolvesb in H. destruct (i_name b) as [n|] eqn:E; [|discriminate].
  split; [now exists n|]. apply existsb_exists in H. destruct H as [p [Hp A]].
  exists p. split; auto. now apply agreesb_sound.
Qed.

Definition bin_ids_okb (ids : list ident) (l : list bin_rec) : bool :=
  forallb (fun r => id_resolvesb ids (b_id1 r) && id_resolvesb ids (b_id2 r)) l.

Definition bin_ids_ok (ids : list ident) (l : list bin_rec) : Prop :=
  Forall (fun r => id_resolves ids (b_id1 r) /\ id_resolves ids (b_id2 r)) l.

Theorem bin_ids_okb_sound : forall ids l, bin_ids_okb ids l = true -> bin_ids_ok ids l.
Proof.
  intros ids l H. apply Forall_forall. intros r Hr. unfold bin_ids_okb in H. rewrite forallb_forall in H.
  specialize (H r Hr). apply andb_true_iff in H. destruct H. split; now apply id_resolvesb_sound.
Qed.

(** if a kind is duplicate free in the collection, look-up by that kind of what the binary identifier states
    returns a record that agrees with the whole binary identifier *)
Theorem resolves_lookup : forall (ids : list ident) k,
    NoDup (keys (get_kind k) ids) ->
    forall b, id_resolves ids b -> forall x, get_kind k b = Some x ->
    exists p, lookup (get_kind k) x ids = Some p /\ agrees b p.
Proof.
  intros ids k ND b [_ [p [Hp A]]] x E. exists p. split; auto.
  apply lookup_own; auto.
Qed.

Definition kind_nodupb (k : kind) (ids : list ident) : bool := nodupb (keys (get_kind k) ids).

Theorem bin_lookup_any_kind : forall ids l k,
    bin_ids_okb ids l = true -> kind_nodupb k ids = true ->
    Forall (fun r => forall b, b = b_id1 r \/ b = b_id2 r -> forall x, get_kind k b = Some x ->
                     exists p, lookup (get_kind k) x ids = Some p /\ agrees b p) l.
Proof.
  intros ids l k H N. apply bin_ids_okb_sound in H. apply nodupb_NoDup in N.
  eapply Forall_impl; [|exact H]. intros r [R1 R2] b [->| ->] x E; eapply resolves_lookup; eauto.
Qed.

(** ** per-kind uniqueness in a pure collection, with recorded exceptions (values known to repeat) *)
Definition pure_ids (l : list pure_rec) : list ident := map p_id l.

Definition kind_uniqb (k : kind) (exc : list string) (ids : list ident) : bool :=
  nodupb (filter (fun v => negb (memb v exc)) (keys (get_kind k) ids)).

Theorem kind_uniqb_sound : forall k exc ids,
    kind_uniqb k exc ids = true -> NoDup (filter (fun v => negb (memb v exc)) (keys (get_kind k) ids)).
Proof. intros k exc ids. apply nodupb_NoDup. Qed.

Lemma filter_no_exceptions : forall l : list string, filter (fun v => negb (memb v [])) l = l.
Proof. induction l as [|a t IH]; [reflexivity|]. cbn [filter]. unfold memb at 1. cbn [existsb negb]. now rewrite IH. Qed.

(** full strength (no exception): every record is the one look-up by kind [k] returns for its own identifier *)
Theorem kind_uniqb_lookup : forall k ids,
    kind_uniqb k [] ids = true ->
    NoDup (keys (get_kind k) ids)
    /\ forall p x, In p ids -> get_kind k p = Some x -> lookup (get_kind k) x ids = Some p.
Proof.
  intros k ids H. apply kind_uniqb_sound in H. rewrite filter_no_exceptions in H. split; auto.
  intros p x. now apply lookup_own.
Qed.

Definition ex_b := mk_ident (Some "110-83-8") (Some "cyclohexane") None (Some "C1CCCCC1") None None.
Definition ex_p := mk_ident (Some "110-82-7") (Some "cyclohexane") (Some "cyclohexane") (Some "C1CCCCC1") None (Some "C6H12").

Example ex_wrong_cas_rejected : id_resolvesb [ex_p] ex_b = false.
Proof. vm_compute. reflexivity. Qed.

Example ex_partial_id_accepted : id_resolvesb [ex_p] (mk_ident None (Some "cyclohexane") None (Some "C1CCCCC1") None None) = true.
Proof. vm_compute. reflexivity. Qed.
