theories/ProgSem.vo theories/ProgSem.glob theories/ProgSem.v.beautified theories/ProgSem.required_vo: theories/ProgSem.v 
theories/ProgSem.vio: theories/ProgSem.v 
theories/ProgSem.vos theories/ProgSem.vok theories/ProgSem.required_vos: theories/ProgSem.v 
theories/Homog.vo theories/Homog.glob theories/Homog.v.beautified theories/Homog.required_vo: theories/Homog.v theories/ProgSem.vo
theories/Homog.vio: theories/Homog.v theories/ProgSem.vio
theories/Homog.vos theories/Homog.vok theories/Homog.required_vos: theories/Homog.v theories/ProgSem.vos
