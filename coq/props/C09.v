(** C09 — results are invariant under relabelling, padding, splitting and taking subsets.
    Property theorems only. *)
From Coq Require Import Reals List ZArith.
From Interval Require Import Real.Xreal Interval.Interval Eval.Prog Eval.Tree Eval.Eval.
From FeosVerif Require Import ProgSem ParamLookup.

(** A sub-model extracted with [subset] and a model built directly from the same records with the
    same options whose regenerated programs are syntactically identical denote the same function:
    equal Helmholtz energy (and hence every derivative property) for every state. *)
Theorem C09_identical_programs_agree : forall A B : list term,
  prog_eqb A B = true -> forall env, eval_ext A env = eval_ext B env.
Proof. intros A B H env. now rewrite (prog_eqb_eq A B H). Qed.
Print Assumptions C09_identical_programs_agree.

(** Index logic of [Parameter::subset] (model shared with C14): entry [a] of the subset is entry
    [idx_a] of the original pure records, and entry [(a,b)] of the sliced binary matrix is entry
    [(idx_a, idx_b)] — for every index list (any order, repetitions allowed). *)
Theorem C09_subset_lookup : forall (T B : Type) (dT : T) (dB : B) l m idx a b, (a < length idx)%nat -> (b < length idx)%nat ->
  nth a (subset_pure dT l idx) dT = nth (nth a idx 0%nat) l dT /\
  mat_get dB (subset_mat dB m idx) a b = mat_get dB m (nth a idx 0%nat) (nth b idx 0%nat).
Proof. exact subset_lookup. Qed.
Print Assumptions C09_subset_lookup.

(** The verified evaluator encloses the exact value of a program at dyadic inputs: enclosures of the two
    sides of an invariance case that do not intersect prove that the invariance fails at that state. *)
Theorem C09_enclosure_sound : forall prec P inp k,
  contains (I.convert (nth k (evalI prec P inp) I.nai)) (out_ext P (inputs_R inp) k).
Proof. exact evalI_correct. Qed.
Print Assumptions C09_enclosure_sound.
