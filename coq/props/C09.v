(** C09 — results are invariant under relabelling, padding, splitting and taking subsets.
    Property theorems only. *)
From Coq Require Import Reals List ZArith Permutation.
From Interval Require Import Real.Xreal Interval.Interval Eval.Prog Eval.Tree Eval.Eval.
From FeosVerif Require Import ProgSem ProgSemBig ParamLookup Canon CanonDeriv AD HenryIdxC09.

(** A sub-model extracted with [subset] and a model built directly from the same records with the
    same options whose regenerated programs are syntactically identical denote the same function:
    equal Helmholtz energy (and hence every derivative property) for every state. *)
Theorem C09_identical_programs_agree : forall A B : list term,
  prog_eqb A B = true -> forall env, eval_ext A env = eval_ext B env.
Proof. intros A B H env. now rewrite (prog_eqb_eq A B H). Qed.
Print Assumptions C09_identical_programs_agree.

(** Index logic of [Parameter::subset] (model shared with C14): entry [a] of the subset is entry
    [idx_a] of the original pure records, and entry [(a,b)] of the sliced binary matrix is entry
    [(idx_a, idx_b)] — for every index list (any order, repetitions allowed). *)
Theorem C09_subset_lookup : forall (T B : Type) (dT : T) (dB : B) l m idx a b, (a < length idx)%nat -> (b < length idx)%nat ->
  nth a (subset_pure dT l idx) dT = nth (nth a idx 0%nat) l dT /\
  mat_get dB (subset_mat dB m idx) a b = mat_get dB m (nth a idx 0%nat) (nth b idx 0%nat).
Proof. exact subset_lookup. Qed.
Print Assumptions C09_subset_lookup.

(** The verified evaluator encloses the exact value of a program at dyadic inputs: enclosures of the two
    sides of an invariance case that do not intersect prove that the invariance fails at that state. *)
Theorem C09_enclosure_sound : forall prec P inp k,
  contains (IB.convert (nth k (evalIB prec P inp) IB.nai)) (out_ext P (inputs_R inp) k).
Proof. exact evalIB_correct. Qed.
Print Assumptions C09_enclosure_sound.

(** Relabelling and zero-mole padding, for ALL states.  Both regenerated programs read selections [piA], [piB] of one
    shared environment (the state variables — permuted, or with the padded mole number flagged as literally zero — and
    the distinct constant values).  If the verified canonicaliser of [Canon.v] (associativity and commutativity of + and *,
    x - y = x + (-y), x / y = x * /y, x^2 = x * x, 0 * x = 0, 0 + x = x, -0 = 0, sharing) assigns the same identifier to
    the two outputs, they are equal for every value of the shared environment: every state, every value of the non-zero
    constants — in the total real semantics, hence (second theorem) wherever both are defined. *)
Theorem C09_canonical_programs_agree : forall A B zs piA piB oa ob (env : list R),
  canon_eqb A B zs piA piB oa ob = true ->
  length env = length zs ->
  (forall j, (j < length zs)%nat -> nth j zs false = true -> nth j env 0%R = 0%R) ->
  nth oa (eval_real A (sel 0%R piA env)) 0%R = nth ob (eval_real B (sel 0%R piB env)) 0%R.
Proof. exact canon_sound. Qed.
Print Assumptions C09_canonical_programs_agree.

Theorem C09_canonical_programs_agree_where_defined : forall A B zs piA piB oa ob (env : list R),
  canon_eqb A B zs piA piB oa ob = true ->
  length env = length zs ->
  (forall j, (j < length zs)%nat -> nth j zs false = true -> nth j env 0%R = 0%R) ->
  wf A (sel 0%R piA env) oa -> wf B (sel 0%R piB env) ob ->
  out_ext A (sel 0%R piA env) oa = out_ext B (sel 0%R piB env) ob.
Proof. exact canon_sound_ext. Qed.
Print Assumptions C09_canonical_programs_agree_where_defined.

(** ... and so are their directional derivatives: along every straight line [a + t e] of the shared environment that keeps the
    zero-flagged inputs at zero, the derivative programs of AD.v ([tan_outs], the objects of C01_directional_derivative) of the two
    members return the same number whenever both return a number — entropy, pressure and chemical potentials of a relabelled or
    padded model are those of the original one, for every state (a derivative program that returns a number certifies that the
    program is defined on a neighbourhood, where the two functions coincide by the previous theorem). *)
Theorem C09_canonical_derivatives_agree : forall A B zs piA piB oa ob,
  canon_eqb A B zs piA piB oa ob = true ->
  forall a e : list R, length a = length zs -> length e = length zs ->
  (forall j, (j < length zs)%nat -> nth j zs false = true -> nth j a 0%R = 0%R) ->
  (forall j, (j < length zs)%nat -> nth j zs false = true -> nth j e 0%R = 0%R) ->
  wscoped A (length piA) = true -> wscoped B (length piB) = true ->
  (oa < length A + length piA)%nat -> (ob < length B + length piB)%nat ->
  forall r da db : R,
  nth 0 (eval_ext (tan_outs A (length piA) (oa :: nil)) (map Xreal (line_pt (sel 0%R piA a) (sel 0%R piA e) r ++ sel 0%R piA e))) Xnan = Xreal da ->
  nth 0 (eval_ext (tan_outs B (length piB) (ob :: nil)) (map Xreal (line_pt (sel 0%R piB a) (sel 0%R piB e) r ++ sel 0%R piB e))) Xnan = Xreal db ->
  da = db.
Proof. exact canon_tangent_agree. Qed.
Print Assumptions C09_canonical_derivatives_agree.

(** The index bookkeeping of [State::henrys_law_constant] (HenryIdxC09.v; tied to the code on every run by the correspondence check of
    checks/c09.py: the plan evaluated from these definitions for every zero pattern is replayed on the public API and must reproduce the
    returned Henry constants).  With every component carrying a label, and a bubble-point oracle that returns [yv l] for the solvent
    component labelled l in whatever order the solvent is listed, the full-length vapour composition built by the write-back loop is the
    order-free [map] below; the solvent sub-model is built from the solvents in listing order; the returned constants are those of the
    solutes in listing order.  Hence reordering the components reorders the results and changes nothing else. *)
Theorem C09_henry_writeback_by_label : forall (A : Type) (isz : A -> bool) (L : Type) (yv : L -> A) (cs : list (L * A)),
  scatter (map snd cs) (solvent_idx isz (map snd cs)) (map (fun c => yv (fst c)) (solvents isz cs))
  = map (fun c => if is_solute isz c then snd c else yv (fst c)) cs.
Proof. exact @writeback_by_label. Qed.
Print Assumptions C09_henry_writeback_by_label.

Theorem C09_henry_solvent_submodel_by_label : forall (A : Type) (isz : A -> bool) (L : Type) (d : L * A) (cs : list (L * A)),
  map (fun j => fst (nth j cs d)) (solvent_idx isz (map snd cs)) = map fst (solvents isz cs).
Proof. exact @solvent_labels_by_label. Qed.
Print Assumptions C09_henry_solvent_submodel_by_label.

Theorem C09_henry_results_by_label : forall (A : Type) (isz : A -> bool) (L B : Type) (hv : L -> B) (cs : list (L * A)),
  select_solutes isz (map (fun c => hv (fst c)) cs) (map snd cs) = map (fun c => hv (fst c)) (filter (is_solute isz) cs).
Proof. exact @select_by_label. Qed.
Print Assumptions C09_henry_results_by_label.

Theorem C09_henry_writeback_relabelling : forall (A : Type) (isz : A -> bool) (L : Type) (yv : L -> A) (cs cs' : list (L * A)),
  Permutation cs cs' ->
  Permutation
    (combine (map fst cs) (scatter (map snd cs) (solvent_idx isz (map snd cs)) (map (fun c => yv (fst c)) (solvents isz cs))))
    (combine (map fst cs') (scatter (map snd cs') (solvent_idx isz (map snd cs')) (map (fun c => yv (fst c)) (solvents isz cs')))).
Proof. exact @writeback_permutation. Qed.
Print Assumptions C09_henry_writeback_relabelling.
