(** C08 — independent implementations of the same model agree.  Property theorems only. *)
From Coq Require Import Reals List ZArith.
From Interval Require Import Real.Xreal Interval.Interval Eval.Prog Eval.Tree Eval.Eval.
From FeosVerif Require Import ProgSem ProgSemBig AssocC08 Canon CanonDeriv AD PRTextbookC08.
From Coquelicot Require Import Coquelicot.
Local Open Scope R_scope.

(** Two code paths whose regenerated programs are syntactically identical denote the same function:
    equal outputs for every environment (every state and every value of the constants). *)
Theorem C08_identical_programs_agree : forall A B : list term,
  prog_eqb A B = true -> forall env, eval_ext A env = eval_ext B env.
Proof. intros A B H env. now rewrite (prog_eqb_eq A B H). Qed.
Print Assumptions C08_identical_programs_agree.

(** The verified evaluator encloses the exact value of a program at dyadic inputs, so enclosures of
    the two members of a pair that do not intersect prove that the members differ at that state. *)
Theorem C08_enclosure_sound : forall prec P inp k,
  contains (IB.convert (nth k (evalIB prec P inp) IB.nai)) (out_ext P (inputs_R inp) k).
Proof. exact evalIB_correct. Qed.
Print Assumptions C08_enclosure_sound.

(** Closed-form association (sites A and B on one component, strength D, site densities ra, rb — the
    expressions of [helmholtz_energy_ab_analytic]) solves the site-balance equations
    1/X_A = 1 + rho_B D X_B, 1/X_B = 1 + rho_A D X_A that the iterative solver solves ... *)
Theorem C08_association_ab_closed_form_is_root : forall D ra rb, 0 <= D -> 0 <= ra -> 0 <= rb ->
  xa_ab D ra rb * (1 + rb * D * xb_ab D ra rb) = 1 /\ xb_ab D ra rb * (1 + ra * D * xa_ab D ra rb) = 1.
Proof. exact ab_closed_form_is_root. Qed.
Print Assumptions C08_association_ab_closed_form_is_root.

(** ... and is a pair of fractions in (0,1]. *)
Theorem C08_association_ab_closed_form_in_unit_interval : forall D ra rb, 0 <= D -> 0 <= ra -> 0 <= rb ->
  0 < xa_ab D ra rb <= 1 /\ 0 < xb_ab D ra rb <= 1.
Proof. exact ab_closed_form_in_unit_interval. Qed.
Print Assumptions C08_association_ab_closed_form_in_unit_interval.

(** Self-associating sites C ([helmholtz_energy_cc_analytic]): root of 1/X = 1 + rho D X, in (0,1], and the
    only positive root. *)
Theorem C08_association_cc_closed_form_is_root : forall D rc, 0 <= D -> 0 <= rc ->
  xc_cc D rc * (1 + rc * D * xc_cc D rc) = 1.
Proof. exact cc_closed_form_is_root. Qed.
Print Assumptions C08_association_cc_closed_form_is_root.

Theorem C08_association_cc_closed_form_in_unit_interval : forall D rc, 0 <= D -> 0 <= rc -> 0 < xc_cc D rc <= 1.
Proof. exact cc_closed_form_in_unit_interval. Qed.
Print Assumptions C08_association_cc_closed_form_in_unit_interval.

Theorem C08_association_cc_root_unique : forall D rc, 0 <= D -> 0 <= rc ->
  forall x, 0 < x -> x * (1 + rc * D * x) = 1 -> x = xc_cc D rc.
Proof. exact cc_root_unique. Qed.
Print Assumptions C08_association_cc_root_unique.

(** Two code paths whose regenerated programs the verified canonicaliser of [Canon.v] identifies (associativity and
    commutativity of + and *, x - y = x + (-y), x / y = x * /y, x^2 = x * x, 0 * x = 0, 0 + x = x, -0 = 0, sharing;
    constants identified by value) compute the same output for EVERY value of the shared environment: every state and
    every value of the non-zero constants (total real semantics; second theorem: equal wherever both are defined). *)
Theorem C08_canonical_programs_agree : forall A B zs piA piB oa ob (env : list R),
  canon_eqb A B zs piA piB oa ob = true ->
  length env = length zs ->
  (forall j, (j < length zs)%nat -> nth j zs false = true -> nth j env 0 = 0) ->
  nth oa (eval_real A (sel 0 piA env)) 0 = nth ob (eval_real B (sel 0 piB env)) 0.
Proof. exact canon_sound. Qed.
Print Assumptions C08_canonical_programs_agree.

Theorem C08_canonical_programs_agree_where_defined : forall A B zs piA piB oa ob (env : list R),
  canon_eqb A B zs piA piB oa ob = true ->
  length env = length zs ->
  (forall j, (j < length zs)%nat -> nth j zs false = true -> nth j env 0 = 0) ->
  wf A (sel 0 piA env) oa -> wf B (sel 0 piB env) ob ->
  out_ext A (sel 0 piA env) oa = out_ext B (sel 0 piB env) ob.
Proof. exact canon_sound_ext. Qed.
Print Assumptions C08_canonical_programs_agree_where_defined.

(** Peng-Robinson: the residual Helmholtz energy coded in feos-core/src/cubic.rs ([pr_A]: beta A^res for n molecules in volume v,
    a = ak_mix, b) differentiates to the textbook pressure  n T/(v - n b) - n^2 a/(v^2 + 2 n b v - n^2 b^2)  (k_B = 1) minus the ideal
    part, for EVERY state with v > n b > 0; second form: what the State layer reports as total pressure, - T dA/dV + n T/v. *)
Theorem C08_peng_robinson_pressure_textbook : forall T ak b n v, 0 < T -> 0 < b -> 0 < n -> n * b < v ->
  is_derive (pr_A T ak b n) v (- (pr_p_textbook T ak b n v - n * T / v) / T).
Proof. exact pr_pressure_textbook. Qed.
Print Assumptions C08_peng_robinson_pressure_textbook.

Theorem C08_peng_robinson_total_pressure : forall T ak b n v d, 0 < T -> 0 < b -> 0 < n -> n * b < v ->
  is_derive (pr_A T ak b n) v d -> - T * d + n * T / v = pr_p_textbook T ak b n v.
Proof. exact pr_total_pressure_textbook. Qed.
Print Assumptions C08_peng_robinson_total_pressure.

(** ... and so are their directional derivatives: along every straight line [a + t e] of the shared environment that keeps the
    zero-flagged inputs at zero, the derivative programs of AD.v ([tan_outs], the objects of C01_directional_derivative) of the two
    members return the same number whenever both return a number — entropy, pressure and chemical potentials of a relabelled or
    padded model are those of the original one, for every state (a derivative program that returns a number certifies that the
    program is defined on a neighbourhood, where the two functions coincide by the previous theorem). *)
Theorem C08_canonical_derivatives_agree : forall A B zs piA piB oa ob,
  canon_eqb A B zs piA piB oa ob = true ->
  forall a e : list R, length a = length zs -> length e = length zs ->
  (forall j, (j < length zs)%nat -> nth j zs false = true -> nth j a 0 = 0) ->
  (forall j, (j < length zs)%nat -> nth j zs false = true -> nth j e 0 = 0) ->
  wscoped A (length piA) = true -> wscoped B (length piB) = true ->
  (oa < length A + length piA)%nat -> (ob < length B + length piB)%nat ->
  forall r da db : R,
  nth 0 (eval_ext (tan_outs A (length piA) (oa :: nil)) (map Xreal (line_pt (sel 0 piA a) (sel 0 piA e) r ++ sel 0 piA e))) Xnan = Xreal da ->
  nth 0 (eval_ext (tan_outs B (length piB) (ob :: nil)) (map Xreal (line_pt (sel 0 piB a) (sel 0 piB e) r ++ sel 0 piB e))) Xnan = Xreal db ->
  da = db.
Proof. exact canon_tangent_agree. Qed.
Print Assumptions C08_canonical_derivatives_agree.
