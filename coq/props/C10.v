(** C10 — total = ideal gas + residual; ideal-gas limits; ideal-gas models.
    Property theorems only: each is closed by [exact <library lemma>] and followed by [Print Assumptions].
    Models: StateSelC10 (contribution selector of state/{properties,residual_properties}.rs),
    IdealGasHelmC10 (IdealGas::ideal_gas_helmholtz_energy), JobackC10, DipprC10 (ln_lambda3 of the two shipped
    ideal-gas models).  The models are tied to /repo on every run by [interval] goals generated into
    coq/gen/C10 (model evaluated inside Coq vs. the implementation's f64 results). *)
From Coq Require Import Reals List.
From Coquelicot Require Import Coquelicot.
From FeosVerif Require Import IdealGasHelmC10 JobackC10 DipprC10 StateSelC10.
Import ListNotations.
Open Scope R_scope.

(** ** 1. Total = IdealGas + Residual for every getter that takes a [Contributions] selector
    (all derivative orders the code dispatches: Zeroth, First, Second, SecondMixed, Third; arbitrary jets). *)
Theorem C10_total_is_sum : forall (RG : R) (s : state) (ig res : jet) (g : getter),
  st_T s <> 0 -> st_V s <> 0 -> total_moles s <> 0 -> RG <> 0 ->
  value RG s ig res g Total = value RG s ig res g IdealGas + value RG s ig res g Residual.
Proof. exact total_is_sum. Qed.
Print Assumptions C10_total_is_sum.

(** all getters but the isobaric heat capacity: no side condition at all *)
Theorem C10_total_is_sum_linear : forall (RG : R) (s : state) (ig res : jet) (g : getter),
  is_cp g = false ->
  value RG s ig res g Total = value RG s ig res g IdealGas + value RG s ig res g Residual.
Proof. exact total_is_sum_linear. Qed.
Print Assumptions C10_total_is_sum_linear.

Theorem C10_derivative_dispatch_is_sum : forall (ig res : jet) (d : pderiv),
  get_or_compute_derivative ig res d Total =
  get_or_compute_derivative ig res d IdealGas + get_or_compute_derivative ig res d Residual.
Proof. exact gcd_total. Qed.
Print Assumptions C10_derivative_dispatch_is_sum.

(** ** 2. ideal-gas pressure: -dA^ig/dV = (sum N_i) T / V for all T, all V > 0, all N_i >= 0 (incl. the
    rho_i = 0 guard), and it is the hard-coded ideal part of [State::pressure] (reduced units, RGAS = 1) *)
Theorem C10_ideal_pressure : forall (T V : R) (cs : list icomp), 0 < V -> nonneg cs ->
  is_derive (fun v => A_ig T v cs) V (- p_ig T V cs).
Proof. exact ideal_pressure. Qed.
Print Assumptions C10_ideal_pressure.

Theorem C10_hardcoded_ideal_parts : forall (T V : R) (cs : list icomp) (MW : R) (res : jet) (i : nat),
  let s := state_of T V cs MW in
  pressure 1 s res IdealGas = p_ig T V cs /\
  dp_dv 1 s res IdealGas = - (Ntot cs / V) * T / V /\
  dp_dt 1 s res IdealGas = Ntot cs / V /\
  dp_dni 1 s res i IdealGas = T / V /\
  d2p_dv2 1 s res IdealGas = 2 * (Ntot cs / V) * T / (V * V) /\
  dmu_dni 1 s res i i IdealGas = T / nth i (map ic_n cs) 0.
Proof. exact hardcoded_ideal_parts. Qed.
Print Assumptions C10_hardcoded_ideal_parts.

(** the other hard-coded ideal parts are the derivatives of the ideal pressure / chemical potential *)
Theorem C10_ideal_dp_dv : forall (T V : R) (cs : list icomp), 0 < V ->
  is_derive (fun v => p_ig T v cs) V (- (Ntot cs / V) * T / V).
Proof. exact ideal_dp_dv. Qed.
Print Assumptions C10_ideal_dp_dv.

Theorem C10_ideal_dp_dt : forall (T V : R) (cs : list icomp),
  is_derive (fun t => p_ig t V cs) T (Ntot cs / V).
Proof. exact ideal_dp_dt. Qed.
Print Assumptions C10_ideal_dp_dt.

Theorem C10_ideal_d2p_dv2 : forall (T V : R) (cs : list icomp), 0 < V ->
  is_derive (fun v => - (Ntot cs / v) * T / v) V (2 * (Ntot cs / V) * T / (V * V)).
Proof. exact ideal_d2p_dv2. Qed.
Print Assumptions C10_ideal_d2p_dv2.

Theorem C10_ideal_dp_dni : forall (T V : R) (pre : list icomp) (c : icomp) (post : list icomp) (N : R),
  is_derive (fun n => p_ig T V (pre ++ with_n c n :: post)) N (T / V).
Proof. exact ideal_dp_dni. Qed.
Print Assumptions C10_ideal_dp_dni.

Theorem C10_ideal_chemical_potential : forall (T V : R) (pre : list icomp) (c : icomp) (post : list icomp) (N : R),
  0 < V -> 0 < N ->
  is_derive (fun n => A_ig T V (pre ++ with_n c n :: post)) N (mu_ig T V c N).
Proof. exact ideal_chemical_potential. Qed.
Print Assumptions C10_ideal_chemical_potential.

Theorem C10_ideal_dmu_dni : forall (T V : R) (c : icomp) (N : R), 0 < V -> 0 < N ->
  is_derive (fun n => mu_ig T V c n) N (T / N).
Proof. exact ideal_dmu_dni. Qed.
Print Assumptions C10_ideal_dmu_dni.

(** ** 3. residual quantities vanish at zero density — PARTIAL: conditional on the virial form of the residual
    model (a^res differentiable at rho = 0 with continuous derivative and a^res(0) = 0); that the shipped residual
    models have this form is supported by the scaling search on the real code, not proved here. *)
Theorem C10_residual_zero_density_partial : forall (a a' : R -> R),
  (forall r, is_derive a r (a' r)) -> continuous a' 0 -> a 0 = 0 ->
  is_lim a 0 0 /\ is_lim (fun r => r * a' r) 0 0 /\ is_lim (fun r => a r / r) 0 (a' 0).
Proof. exact residual_zero_density. Qed.
Print Assumptions C10_residual_zero_density_partial.

(** ** 4. heat capacity from the Helmholtz energy, for any twice differentiable ln Lambda^3 *)
Theorem C10_entropy_from_helmholtz : forall (T V : R) (cs : list icomp), 0 < T -> all_ok cs ->
  is_derive (fun t => A_ig t V cs) T (dA_dT T V cs).
Proof. exact ideal_dA_dT. Qed.
Print Assumptions C10_entropy_from_helmholtz.

Theorem C10_second_T_derivative : forall (T V : R) (cs : list icomp), 0 < T -> all_ok cs ->
  is_derive (fun t => dA_dT t V cs) T (d2A_dT2 T cs).
Proof. exact ideal_d2A_dT2. Qed.
Print Assumptions C10_second_T_derivative.

(** c_p (the code's formula T/N (dS/dT - (dp/dT)^2/(dp/dV)) on the ideal jet) = c_v + R, and both are
    mole-fraction averages of the pure-component values *)
Theorem C10_cp_is_cv_plus_R : forall (T V : R) (cs : list icomp), 0 < T -> 0 < V -> Ntot cs <> 0 ->
  cp_mix T V cs = cv_mix T cs + 1.
Proof. exact cp_is_cv_plus_R. Qed.
Print Assumptions C10_cp_is_cv_plus_R.

Theorem C10_cp_mole_fraction_average : forall (T V : R) (cs : list icomp), 0 < T -> 0 < V -> Ntot cs <> 0 ->
  cp_mix T V cs = sumf (fun c => ic_n c / Ntot cs * cp_pure c T) cs.
Proof. exact cp_mole_fraction_average. Qed.
Print Assumptions C10_cp_mole_fraction_average.

Theorem C10_cv_mole_fraction_average : forall (T : R) (cs : list icomp), Ntot cs <> 0 ->
  cv_mix T cs = sumf (fun c => ic_n c / Ntot cs * cv_pure c T) cs.
Proof. exact cv_mole_fraction_average. Qed.
Print Assumptions C10_cv_mole_fraction_average.

(** ln Lambda^3 = (H - H0 - T (S - S0)) / (R T) + ln T + const with H' = c_p, S' = c_p / T  gives  c_p / R *)
Theorem C10_cp_from_integrals : forall (H S cp : R -> R) (Rg H0 S0 k : R), Rg <> 0 ->
  (forall t, 0 < t -> is_derive H t (cp t)) -> (forall t, 0 < t -> is_derive S t (cp t / t)) ->
  forall t, 0 < t ->
  is_derive (lamI H S Rg H0 S0 k) t (lamI1 H Rg H0 t) /\
  is_derive (lamI1 H Rg H0) t (lamI2 H cp Rg H0 t) /\
  1 - t * (2 * lamI1 H Rg H0 t + t * lamI2 H cp Rg H0 t) = cp t / Rg.
Proof. exact cp_from_integrals. Qed.
Print Assumptions C10_cp_from_integrals.

(** ** 5. ideal mixing: mu_i(mixture) - mu_i(pure, same T, V, total particle number) = T ln x_i *)
Theorem C10_ideal_mixing : forall (T V : R) (pre : list icomp) (c : icomp) (post : list icomp) (N mu_mix mu_pure : R),
  0 < V -> 0 < N -> 0 < Ntot (pre ++ with_n c N :: post) ->
  is_derive (fun n => A_ig T V (pre ++ with_n c n :: post)) N mu_mix ->
  is_derive (fun n => A_ig T V [with_n c n]) (Ntot (pre ++ with_n c N :: post)) mu_pure ->
  mu_mix - mu_pure = T * ln (N / Ntot (pre ++ with_n c N :: post)).
Proof. exact ideal_mixing. Qed.
Print Assumptions C10_ideal_mixing.

(** ** 6. Joback: the heat capacity from the Helmholtz energy is the polynomial, at every T > 0, all coefficients *)
Theorem C10_joback_lambda_derivatives : forall (a b c d e t : R), 0 < t ->
  is_derive (joback_lam a b c d e) t (joback_lam1 a b c d e t) /\
  is_derive (joback_lam1 a b c d e) t (joback_lam2 a b c d e t).
Proof. exact joback_lam_derivs. Qed.
Print Assumptions C10_joback_lambda_derivatives.

Theorem C10_joback_cp : forall (n a b c d e T : R), 0 < T ->
  cp_pure (joback_comp n a b c d e) T = joback_cp a b c d e T / J_RGAS.
Proof. exact joback_cp_identity. Qed.
Print Assumptions C10_joback_cp.

Theorem C10_joback_mixture : forall (T V : R) (recs : list jrec), 0 < T -> 0 < V -> Ntot (map joback_of recs) <> 0 ->
  let cs := map joback_of recs in
  is_derive (fun t => A_ig t V cs) T (dA_dT T V cs) /\
  is_derive (fun t => dA_dT t V cs) T (d2A_dT2 T cs) /\
  cp_mix T V cs = joback_mix_cp T recs.
Proof. exact joback_mixture_cp. Qed.
Print Assumptions C10_joback_mixture.

Theorem C10_joback_reference_state : forall (n a b c d e V N : R), 0 < V -> 0 < N ->
  N / V = J_P0 * J_A3 / (J_KB * J_T0) ->
  mu_ig J_T0 V (joback_comp n a b c d e) N = 0.
Proof. exact joback_reference_state. Qed.
Print Assumptions C10_joback_reference_state.

Theorem C10_joback_codata_ratio : Rabs (Q_RGAS / J_RGAS - 1) <= 3.5e-7.
Proof. exact joback_codata_ratio. Qed.
Print Assumptions C10_joback_codata_ratio.

(** ** 7. DIPPR 100 (any number of coefficients) / 107 / 127 *)
Theorem C10_dippr100_enthalpy_integral : forall (coefs : list R) (t : R),
  is_derive (d100_H coefs) t (d100_cp coefs t).
Proof. exact d100_H_deriv. Qed.
Print Assumptions C10_dippr100_enthalpy_integral.

Theorem C10_dippr100_entropy_integral : forall (coefs : list R) (t : R), 0 < t ->
  is_derive (d100_S coefs) t (d100_cp coefs t / t).
Proof. exact d100_S_deriv. Qed.
Print Assumptions C10_dippr100_entropy_integral.

Theorem C10_dippr_enthalpy_integral : forall (r : dippr_record) (t : R), dippr_wf r -> 0 < t ->
  is_derive (dippr_H r) t (dippr_cp r t).
Proof. exact dippr_H_deriv. Qed.
Print Assumptions C10_dippr_enthalpy_integral.

Theorem C10_dippr_entropy_integral : forall (r : dippr_record) (t : R), dippr_wf r -> 0 < t ->
  is_derive (dippr_S r) t (dippr_cp r t / t).
Proof. exact dippr_S_deriv. Qed.
Print Assumptions C10_dippr_entropy_integral.

Theorem C10_dippr_lambda_derivatives : forall (r : dippr_record) (t : R), dippr_wf r -> 0 < t ->
  is_derive (dippr_lam r) t (dippr_lam1 r t) /\ is_derive (dippr_lam1 r) t (dippr_lam2 r t).
Proof. exact dippr_lam_derivs. Qed.
Print Assumptions C10_dippr_lambda_derivatives.

Theorem C10_dippr_cp : forall (n : R) (r : dippr_record) (T : R), 0 < T ->
  cp_pure (dippr_comp n r) T = dippr_cp r T / D_RGAS.
Proof. exact dippr_cp_identity. Qed.
Print Assumptions C10_dippr_cp.

Theorem C10_dippr_mixture : forall (T V : R) (recs : list (R * dippr_record)),
  0 < T -> 0 < V -> Ntot (map dippr_of recs) <> 0 -> (forall nr, In nr recs -> dippr_wf (snd nr)) ->
  let cs := map dippr_of recs in
  is_derive (fun t => A_ig t V cs) T (dA_dT T V cs) /\
  is_derive (fun t => dA_dT t V cs) T (d2A_dT2 T cs) /\
  cp_mix T V cs = dippr_mix_cp T recs.
Proof. exact dippr_mixture_cp. Qed.
Print Assumptions C10_dippr_mixture.

Theorem C10_dippr_reference_state : forall (n : R) (r : dippr_record) (V N : R), 0 < V -> 0 < N ->
  N / V = / D_T0 -> mu_ig D_T0 V (dippr_comp n r) N = 0.
Proof. exact dippr_reference_state. Qed.
Print Assumptions C10_dippr_reference_state.

(** ** 8. DFT profiles: the local ideal-gas Helmholtz energy density added for Contributions::Total *)
Theorem C10_dft_ideal_is_bulk : forall (T : R) (cs : list icomp), positive cs -> dft_ideal_density T cs = A_ig T 1 cs.
Proof. exact dft_ideal_is_bulk. Qed.
Print Assumptions C10_dft_ideal_is_bulk.

Theorem C10_dft_ideal_entropy_density : forall (T : R) (cs : list icomp), 0 < T -> all_ok cs -> positive cs ->
  is_derive (fun t => dft_ideal_density t cs) T (dA_dT T 1 cs).
Proof. exact dft_ideal_entropy_density. Qed.
Print Assumptions C10_dft_ideal_entropy_density.

Theorem C10_A_ig_extensive : forall (T V k : R) (cs : list icomp), 0 < V -> 0 < k -> nonneg cs ->
  A_ig T (k * V) (map (scale_n k) cs) = k * A_ig T V cs.
Proof. exact A_ig_extensive. Qed.
Print Assumptions C10_A_ig_extensive.

(** the per-component form differs from a form with one logarithm of the total density by the ideal entropy of mixing *)
Theorem C10_dft_ideal_mixing_term : forall (T : R) (cs : list icomp), positive cs -> 0 < Ntot cs ->
  dft_ideal_density T cs
  - (sumf (fun c => ic_lam c T * ic_n c) cs + Ntot cs * (ln (Ntot cs) - 1)) * T
  = T * sumf (fun c => ic_n c * ln (ic_n c / Ntot cs)) cs.
Proof. exact dft_ideal_mixing_term. Qed.
Print Assumptions C10_dft_ideal_mixing_term.
