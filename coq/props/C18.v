(** C18 — a solved density profile is a stationary point and meets its specification.
    Property theorems only: each is closed by [exact <library lemma>] and followed by [Print Assumptions].
    Models: coq/theories/DftSolveC18.v (control flow of DFTSolver / call_solver, feos-dft/src/solver.rs),
            coq/theories/SpecC18.v (DFTSpecifications + the part of euler_lagrange_equation feeding them and the
            residual norm, feos-dft/src/profile/mod.rs), coq/theories/SpecEvalC18.v (evaluation wrappers).
    The tie to /repo's current source is regenerated on every run into coq/gen/C18/. *)
From Coq Require Import Reals List Bool QArith ZArith.
From FeosVerif Require Import DftSolveC18 SpecC18 SpecEvalC18.
Import ListNotations.

(** * A. flag logic of the solver (all state types, residual functions, update rules, stage lists) *)

(** a stage reports convergence only from the branch [res_norm < tol], and the state it returns is the one
    that was evaluated there; this happens before the iteration limit *)
Theorem C18_stage_converged_only_below_tol :
  forall (X : Type) (eval : X -> option (Q * X)) (step : stage -> list X -> X -> option X) st x k x',
  run_stage eval step st x = Some (true, k, x') ->
  exists xpre r, eval xpre = Some (r, x') /\ (r < s_tol st)%Q /\ (k < s_max_iter st)%nat.
Proof. exact stage_converged_only_below_tol. Qed.
Print Assumptions C18_stage_converged_only_below_tol.

Theorem C18_stage_not_converged_uses_all_iterations :
  forall (X : Type) (eval : X -> option (Q * X)) (step : stage -> list X -> X -> option X) st x k x',
  run_stage eval step st x = Some (false, k, x') -> k = s_max_iter st.
Proof. exact stage_not_converged_uses_all_iterations. Qed.
Print Assumptions C18_stage_not_converged_uses_all_iterations.

(** [solve] returns Ok iff no stage failed and (the chain's flag is true or [debug] is set) ... *)
Theorem C18_solve_ok_iff :
  forall (X : Type) (eval : X -> option (Q * X)) (step : stage -> list X -> X -> option X) stages debug x x' c it,
  call_solver eval step stages debug x = Ok x' c it <->
  exists outs, call_stages eval step stages x false 0 [] = Some (c, it, x', outs) /\ (c = true \/ debug = true).
Proof. exact solve_ok_iff. Qed.
Print Assumptions C18_solve_ok_iff.

(** ... and the chain's flag is the flag of its LAST stage *)
Theorem C18_solve_flag_is_last_stage :
  forall (X : Type) (eval : X -> option (Q * X)) (step : stage -> list X -> X -> option X) stages debug x x' c it,
  call_solver eval step stages debug x = Ok x' c it -> stages <> [] ->
  exists st xin k, last stages st = st /\ In st stages /\ run_stage eval step st xin = Some (c, k, x').
Proof. exact solve_flag_is_last_stage. Qed.
Print Assumptions C18_solve_flag_is_last_stage.

(** the property, flag logic: success without debug = the returned state was evaluated with a residual norm
    strictly below the tolerance of the last stage *)
Theorem C18_solve_ok_stationary :
  forall (X : Type) (eval : X -> option (Q * X)) (step : stage -> list X -> X -> option X) stages x x' c it,
  call_solver eval step stages false x = Ok x' c it ->
  c = true /\ exists st xpre r, In st stages /\ last stages st = st /\ eval xpre = Some (r, x') /\ (r < s_tol st)%Q.
Proof. exact solve_ok_stationary. Qed.
Print Assumptions C18_solve_ok_stationary.

(** the implementation's instance (evaluating appends to the log and leaves the profile alone): the residual
    norm OF THE RETURNED PROFILE is below the tolerance of the last stage, and it is the last log entry *)
Theorem C18_solve_ok_profile_stationary :
  forall (P : Type) (el : P -> option Q) (upd : stage -> list P -> P -> option P) stages p0 p' log' c it,
  call_solver (eval_log P el) (step_log P upd) stages false (p0, []) = Ok (p', log') c it ->
  exists st r, In st stages /\ last stages st = st /\ el p' = Some r /\ (r < s_tol st)%Q /\ exists l, log' = l ++ [r].
Proof. exact solve_ok_profile_stationary. Qed.
Print Assumptions C18_solve_ok_profile_stationary.

Theorem C18_solve_not_converged_is_err :
  forall (X : Type) (eval : X -> option (Q * X)) (step : stage -> list X -> X -> option X) stages x it x' outs,
  call_stages eval step stages x false 0 [] = Some (false, it, x', outs) ->
  call_solver eval step stages false x = ErrNotConverged.
Proof. exact solve_not_converged_is_err. Qed.
Print Assumptions C18_solve_not_converged_is_err.

Theorem C18_solve_early_convergence_does_not_count :
  forall (X : Type) (eval : X -> option (Q * X)) (step : stage -> list X -> X -> option X) st1 st2 x x1 k1 x2 k2,
  run_stage eval step st1 x = Some (true, k1, x1) -> run_stage eval step st2 x1 = Some (false, k2, x2) ->
  call_solver eval step [st1; st2] false x = ErrNotConverged.
Proof. exact solve_early_convergence_does_not_count. Qed.
Print Assumptions C18_solve_early_convergence_does_not_count.

Theorem C18_solve_empty_is_err :
  forall (X : Type) (eval : X -> option (Q * X)) (step : stage -> list X -> X -> option X) x,
  call_solver eval step [] false x = ErrNotConverged.
Proof. exact solve_empty_is_err. Qed.
Print Assumptions C18_solve_empty_is_err.

(** with [debug] the only error left is a failure inside a stage: Ok then says nothing about stationarity
    (witness: [debug_ok_not_stationary] in DftSolveC18) *)
Theorem C18_solve_debug_never_not_converged :
  forall (X : Type) (eval : X -> option (Q * X)) (step : stage -> list X -> X -> option X) stages x,
  call_solver eval step stages true x <> ErrNotConverged.
Proof. exact solve_debug_never_not_converged. Qed.
Print Assumptions C18_solve_debug_never_not_converged.

(** a predicate established by every update and preserved by evaluation (non-negativity of the density: every
    algorithm ends its update with abs / exp) holds for the returned profile if it holds for the initial one *)
Theorem C18_solve_preserves_invariant :
  forall (X : Type) (eval : X -> option (Q * X)) (step : stage -> list X -> X -> option X) (Inv : X -> Prop),
  (forall x r x1, eval x = Some (r, x1) -> Inv x -> Inv x1) ->
  (forall st hist x x', step st hist x = Some x' -> Inv x') ->
  forall stages debug x x' c it, Inv x -> call_solver eval step stages debug x = Ok x' c it -> Inv x'.
Proof. exact solve_preserves_invariant. Qed.
Print Assumptions C18_solve_preserves_invariant.

(** the wrappers (PoreProfile / PlanarInterface :: solve_inplace): after ANY history of calls and field updates that
    ends with a successful solve_inplace, the reported observables are those of the profile the wrapper holds *)
Theorem C18_history_observables_belong_to_profile :
  forall (P : Type) (obs1 obs2 : P -> Q) (solve : P -> option P) (acts : list (action P)) (w w' : wrapper P),
  run P obs1 obs2 solve (acts ++ [ASolve P]) w = Some w' ->
  w_obs1 P w' = Some (obs1 (w_profile P w')) /\ w_obs2 P w' = Some (obs2 (w_profile P w')).
Proof. exact history_observables_belong_to_profile. Qed.
Print Assumptions C18_history_observables_belong_to_profile.

(** the replay used by the correspondence check is the model itself run on the observed residual stream *)
Theorem C18_replay_ok_is_call_solver :
  forall stages debug stream c it outs left,
  replay stages debug stream = ROk c it outs left ->
  exists rest, call_solver eval_stream step_stream stages debug stream = Ok rest c it /\ length rest = left.
Proof. exact replay_ok_is_call_solver. Qed.
Print Assumptions C18_replay_ok_is_call_solver.

Theorem C18_replay_err_is_call_solver :
  forall stages debug stream outs left,
  replay stages debug stream = RErrNotConverged outs left ->
  call_solver eval_stream step_stream stages debug stream = ErrNotConverged.
Proof. exact replay_err_is_call_solver. Qed.
Print Assumptions C18_replay_err_is_call_solver.

(** * B. residual norm and specifications (all grid sizes, weights, Boltzmann factors, densities) *)
Open Scope R_scope.

(** the residual norm (RMS over density AND bulk-density residuals, as coded) vanishes exactly at a
    stationary point *)
Theorem C18_norm_zero_iff :
  forall (S G : nat) (w : nat -> R) (e rho : nat -> nat -> R) (rhob : nat -> R) (sp : spec),
  (0 < S)%nat -> (res_norm S G w e rho rhob sp = 0 <-> stationary S G w e rho rhob sp).
Proof. exact norm_zero_iff. Qed.
Print Assumptions C18_norm_zero_iff.

(** an accepted profile (norm < tol): every entry of rho - rho_projected and of the bulk residual is below
    tol * sqrt(number of unknowns) *)
Theorem C18_norm_bounds_entries :
  forall (S G : nat) (w : nat -> R) (e rho : nat -> nat -> R) (rhob : nat -> R) (sp : spec) (tol : R),
  (0 < S)%nat -> res_norm S G w e rho rhob sp < tol ->
  (forall i g, (i < S)%nat -> (g < G)%nat -> Rabs (diff e rho rhob i g) < tol * sqrt (INR (S * G + S))) /\
  (forall i, (i < S)%nat -> Rabs (res_bulk S G w e rhob sp i) < tol * sqrt (INR (S * G + S))).
Proof. exact norm_bounds_entries. Qed.
Print Assumptions C18_norm_bounds_entries.

(** the property, specification algebra: a stationary point of the coded equations contains the specified
    number of particles (per segment for Moles, in total for TotalMoles) *)
Theorem C18_spec_fixed_point :
  forall (S G : nat) (w : nat -> R) (e rho : nat -> nat -> R) (rhob : nat -> R) (sp : spec),
  nondegenerate S G w e rhob sp -> stationary S G w e rho rhob sp -> spec_met S G w rho sp.
Proof. exact spec_fixed_point. Qed.
Print Assumptions C18_spec_fixed_point.

(** exact particle balance at ANY profile, in the quantities [residual()] returns *)
Theorem C18_moles_balance :
  forall (S G : nat) (w : nat -> R) (e rho : nat -> nat -> R) (rhob : nat -> R) (sp : spec) N i,
  sp = Moles N -> z_before G w e i <> 0 ->
  moles G w rho i - N i = integ G w (diff e rho rhob i) - res_bulk S G w e rhob sp i * z_before G w e i.
Proof. exact moles_balance. Qed.
Print Assumptions C18_moles_balance.

Theorem C18_total_moles_balance :
  forall (S G : nat) (w : nat -> R) (e rho : nat -> nat -> R) (rhob : nat -> R) (sp : spec) Nt i,
  sp = TotalMoles Nt -> sumf (fun j => rhob j * z_before G w e j) S <> 0 -> rhob i <> 0 ->
  sumf (moles G w rho) S - Nt =
    sumf (fun j => integ G w (diff e rho rhob j)) S
    - res_bulk S G w e rhob sp i / rhob i * sumf (fun j => rhob j * z_before G w e j) S.
Proof. exact total_moles_balance. Qed.
Print Assumptions C18_total_moles_balance.

Theorem C18_moles_error_bound :
  forall (S G : nat) (w : nat -> R) (e rho : nat -> nat -> R) (rhob : nat -> R) (sp : spec) N i,
  sp = Moles N -> z_before G w e i <> 0 ->
  Rabs (moles G w rho i - N i) <=
    sumf (fun g => Rabs (w g) * Rabs (diff e rho rhob i g)) G + Rabs (res_bulk S G w e rhob sp i) * Rabs (z_before G w e i).
Proof. exact moles_error_bound. Qed.
Print Assumptions C18_moles_error_bound.

(** the order / sign the code had before the repair (fix commit in /repo): the full statement is refuted by a
    one-point witness; its stationary points contain N_i / rho_b,i particles *)
Theorem C18_spec_fixed_point_old_refuted :
  exists (w : nat -> R) (e rho : nat -> nat -> R) (rhob N : nat -> R),
    stationary_old 1 1 w e rho rhob (Moles N) /\ (forall i, (i < 1)%nat -> z_after 1 w e rhob i <> 0) /\
    moles 1 w rho 0 <> N 0%nat.
Proof. exact spec_fixed_point_old_refuted. Qed.
Print Assumptions C18_spec_fixed_point_old_refuted.

Theorem C18_spec_fixed_point_old_characterisation :
  forall (S G : nat) (w : nat -> R) (e rho : nat -> nat -> R) (rhob : nat -> R) (sp : spec) N,
  sp = Moles N -> (forall i, (i < S)%nat -> z_after G w e rhob i <> 0) -> stationary_old S G w e rho rhob sp ->
  forall i, (i < S)%nat -> rhob i * moles G w rho i = N i.
Proof. exact spec_fixed_point_old_characterisation. Qed.
Print Assumptions C18_spec_fixed_point_old_characterisation.

(** default specification: the bulk residual is identically zero and no stage changes the bulk densities *)
Theorem C18_bulk_unchanged :
  (forall (S G : nat) (w : nat -> R) (e : nat -> nat -> R) (rhob : nat -> R) i,
     res_bulk S G w e rhob ChemicalPotential i = 0) /\
  (forall rb alpha, rb + alpha * 0 = rb) /\
  (forall rb alpha, rb * exp (0 * alpha) = rb) /\
  (forall (a : nat -> R) m rb beta, sumf a m = 1 -> 0 <= rb -> Rabs (sumf (fun k => a k * (rb + beta * 0)) m) = rb) /\
  (forall (a : nat -> R) m rb beta, sumf a m = 1 -> 0 < rb -> exp (sumf (fun k => a k * (ln rb + beta * 0)) m) = rb) /\
  (forall rb, 0 <= rb -> Rabs rb = rb).
Proof. exact bulk_unchanged_all. Qed.
Print Assumptions C18_bulk_unchanged.

(** the bulk state is read per segment and written back through the component index: if the segment densities are
    consistent with component densities f, the rebuilt state is f; in particular (default specification, no stage
    changes the segment densities) the bulk state of the profile is unchanged — for any number of segments per
    component *)
Theorem C18_write_back_gather :
  forall (ci : nat -> nat) (rb f : nat -> R) (S : nat) (m0 : nat -> R) (c : nat),
  (forall s, (s < S)%nat -> rb s = f (ci s)) -> (exists s, (s < S)%nat /\ ci s = c) ->
  write_back ci rb S m0 c = f c.
Proof. exact write_back_gather. Qed.
Print Assumptions C18_write_back_gather.

Theorem C18_bulk_roundtrip :
  forall (ci : nat -> nat) (pd : nat -> R) (S : nat) (m0 : nat -> R) (c : nat),
  (exists s, (s < S)%nat /\ ci s = c) -> write_back ci (gather ci pd) S m0 c = pd c.
Proof. exact bulk_roundtrip. Qed.
Print Assumptions C18_bulk_roundtrip.

(** writing segment i to component i instead is refuted for 3 + 4 segments in 2 components *)
Theorem C18_write_back_by_position_refuted :
  exists (ci : nat -> nat) (pd : nat -> R) (m0 : nat -> R),
    (forall c, (c < 2)%nat -> exists s, (s < 7)%nat /\ ci s = c) /\
    write_back ci (gather ci pd) 7 m0 1%nat = pd 1%nat /\
    write_back_by_position (gather ci pd) 2 m0 1%nat <> pd 1%nat.
Proof. exact write_back_by_position_refuted. Qed.
Print Assumptions C18_write_back_by_position_refuted.

(** specifications taken from the (initial) profile: a stationary point contains the particle numbers of THAT
    profile (fix_equimolar_surface, moles_from_profile) *)
Theorem C18_moles_from_profile_preserved :
  forall (S G : nat) (w : nat -> R) (e rho : nat -> nat -> R) (rhob : nat -> R) (rho0 : nat -> nat -> R),
  nondegenerate S G w e rhob (moles_from_profile G w rho0) ->
  stationary S G w e rho rhob (moles_from_profile G w rho0) ->
  forall i, (i < S)%nat -> moles G w rho i = moles G w rho0 i.
Proof. exact moles_from_profile_preserved. Qed.
Print Assumptions C18_moles_from_profile_preserved.

Theorem C18_total_moles_from_profile_preserved :
  forall (S G : nat) (w : nat -> R) (e rho : nat -> nat -> R) (rhob : nat -> R) (rho0 : nat -> nat -> R),
  nondegenerate S G w e rhob (total_moles_from_profile S G w rho0) ->
  stationary S G w e rho rhob (total_moles_from_profile S G w rho0) ->
  sumf (moles G w rho) S = sumf (moles G w rho0) S.
Proof. exact total_moles_from_profile_preserved. Qed.
Print Assumptions C18_total_moles_from_profile_preserved.

(** direction of the bulk-density update of the Picard stage (frozen Boltzmann factor): the coded update
    contracts towards the target; with the sign the code had before the repair it moved away from it *)
Theorem C18_picard_bulk_update_contracts :
  forall t rb alpha, 0 < alpha <= 1 -> Rabs ((rb + alpha * (t - rb)) - t) = (1 - alpha) * Rabs (rb - t).
Proof. exact picard_bulk_update_contracts. Qed.
Print Assumptions C18_picard_bulk_update_contracts.

Theorem C18_picard_bulk_update_old_sign_repels :
  forall t rb alpha, 0 < alpha -> Rabs ((rb + alpha * (rb - t)) - t) = (1 + alpha) * Rabs (rb - t).
Proof. exact picard_bulk_update_old_sign_repels. Qed.
Print Assumptions C18_picard_bulk_update_old_sign_repels.

(** the norm the correspondence goals evaluate is the model's norm *)
Theorem C18_res_norm_z_eq :
  forall S G w e rho rhob sp, res_norm_z S G w e rho rhob sp = res_norm S G w e rho rhob sp.
Proof. exact res_norm_z_eq. Qed.
Print Assumptions C18_res_norm_z_eq.
