(** C14 — parameter construction is order-independent and faithful to its records.
    Property theorems only: each is closed by [exact <library lemma>] and followed by [Print Assumptions].
    Models: FeosVerif.ParamLookup (from_json / from_multiple_json / binary matrix / new_binary / subset),
    FeosVerif.Segments (segment & bond counts, PC-SAFT combining rules, k_ij average, gc segment-pair lookup),
    FeosVerif.ParamSerde (serde shape).  The models are tied to /repo on every run by checks/c14.py. *)
From Coq Require Import List NArith ZArith QArith Bool Permutation.
From FeosVerif Require Import ParamLookup Segments ParamSerde C14Run.
Import ListNotations.

(* ------------------------------------------------------------------ loading pure records *)

(** The loop of [PureRecord::from_json] computes: duplicate query -> error; else for every query, in query order,
    the first file record whose selected identifier equals it; any query without such a record -> error. *)
Theorem C14_from_json_closed_form : forall (A : Type) o q (f : file (prec A)),
  from_json_one o q f = from_json_spec o q f.
Proof. exact from_json_one_spec. Qed.
Print Assumptions C14_from_json_closed_form.

(** Components come back in the order the user requested, for every file (hence every file order). *)
Theorem C14_from_json_order : forall (A : Type) o q (f : file (prec A)) rs,
  from_json_one o q f = Ok rs -> map (pkey o) rs = map Some q.
Proof. exact from_json_order. Qed.
Print Assumptions C14_from_json_order.

(** Permuting a file (whose selected identifiers are unique) changes nothing at all. *)
Theorem C14_from_json_file_perm : forall (A : Type) o q (recs recs' : list (prec A)),
  keys_unique o recs -> Permutation recs recs' ->
  from_json_one o q (FRecords recs) = from_json_one o q (FRecords recs').
Proof. exact from_json_file_perm. Qed.
Print Assumptions C14_from_json_file_perm.

(** Success exactly when the query is duplicate free and every queried name occurs in the file. *)
Theorem C14_from_json_success_iff : forall (A : Type) o q (recs : list (prec A)),
  (exists rs, from_json_one o q (FRecords recs) = Ok rs) <->
  NoDup q /\ forall k, In k q -> exists r, In r recs /\ pkey o r = Some k.
Proof. exact from_json_success_iff. Qed.
Print Assumptions C14_from_json_success_iff.

Theorem C14_dup_rejected_one : forall (A : Type) o q (f : file (prec A)), ~ NoDup q -> from_json_one o q f = Err EDup.
Proof. exact dup_rejected_one. Qed.
Print Assumptions C14_dup_rejected_one.

Theorem C14_missing_rejected : forall (A : Type) o q (recs : list (prec A)) k, NoDup q -> In k q ->
  (forall r, In r recs -> pkey o r <> Some k) ->
  exists l, from_json_one o q (FRecords recs) = Err (EMissing l) /\ In k l /\
            (forall k', In k' l <-> In k' q /\ forall r, In r recs -> pkey o r <> Some k').
Proof. exact missing_rejected_one. Qed.
Print Assumptions C14_missing_rejected.

(** Only the identifier kind the user selected is consulted (the other five fields and nothing else of the
    identifier influence which payloads are returned). *)
Theorem C14_identifier_kind : forall (A : Type) o q (recs recs' : list (prec A)),
  Forall2 (same_under o) recs recs' ->
  res_map (@p_val A) (from_json_one o q (FRecords recs)) = res_map (@p_val A) (from_json_one o q (FRecords recs')).
Proof. exact identifier_kind. Qed.
Print Assumptions C14_identifier_kind.

(** from_multiple_json: order = concatenated queries; duplicates across files rejected; one input = from_json;
    independent of the order of every file; no unwrap can fail. *)
Theorem C14_from_multiple_order : forall (A : Type) o (inp : list (list N * file (prec A))) rs,
  from_multiple o inp = Ok rs -> map (pkey o) rs = map Some (concat (map fst inp)).
Proof. exact from_multiple_order. Qed.
Print Assumptions C14_from_multiple_order.

Theorem C14_dup_rejected : forall (A : Type) o (inp : list (list N * file (prec A))),
  ~ NoDup (concat (map fst inp)) -> from_multiple o inp = Err EDup.
Proof. exact dup_rejected. Qed.
Print Assumptions C14_dup_rejected.

Theorem C14_from_multiple_single : forall (A : Type) o q (f : file (prec A)), from_multiple o [(q, f)] = from_json_one o q f.
Proof. exact from_multiple_single. Qed.
Print Assumptions C14_from_multiple_single.

Theorem C14_from_multiple_file_perm : forall (A : Type) o (inp inp' : list (list N * file (prec A))),
  Forall2 (fun a b => fst a = fst b /\
             ((snd a = snd b) \/ exists r r', snd a = FRecords r /\ snd b = FRecords r' /\ keys_unique o r /\ Permutation r r'))
          inp inp' ->
  from_multiple o inp = from_multiple o inp'.
Proof. exact from_multiple_file_perm. Qed.
Print Assumptions C14_from_multiple_file_perm.

Theorem C14_load_never_panics : forall (A B : Type) (d : B) o (inp : list (list N * file (prec A))) bf,
  from_json_full d o inp bf <> Err EPanic.
Proof. exact from_json_full_no_panic. Qed.
Print Assumptions C14_load_never_panics.

(* ------------------------------------------------------------------ binary records *)

(** A stored record is found whichever way round it is stored and whichever way round it is asked for. *)
Theorem C14_binary_found : forall (B : Type) (d : B) o (bin : list (brec B)) b x y,
  pair_consistent o bin -> In b bin -> ukey o x y b ->
  blookup d o bin x y = b_val b /\ blookup d o bin y x = b_val b.
Proof. exact binary_found. Qed.
Print Assumptions C14_binary_found.

Theorem C14_binary_lookup_sym : forall (B : Type) (d : B) o (bin : list (brec B)) x y,
  pair_consistent o bin -> blookup d o bin x y = blookup d o bin y x.
Proof. exact binary_lookup_sym. Qed.
Print Assumptions C14_binary_lookup_sym.

(** The documented default when no record exists for the pair. *)
Theorem C14_binary_default : forall (B : Type) (d : B) o (bin : list (brec B)) x y,
  (forall b, In b bin -> ~ ukey o x y b) -> blookup d o bin x y = d.
Proof. exact binary_default. Qed.
Print Assumptions C14_binary_default.

(** Storing any records of a (consistent) binary file the other way round, or permuting the file, changes no entry. *)
Theorem C14_binary_orientation_irrelevant : forall (B : Type) (d : B) o (bin bin' : list (brec B)) x y,
  pair_consistent o bin -> reoriented bin bin' -> blookup d o bin x y = blookup d o bin' x y.
Proof. exact binary_orientation_irrelevant. Qed.
Print Assumptions C14_binary_orientation_irrelevant.

Theorem C14_binary_file_perm : forall (B : Type) (d : B) o (bin bin' : list (brec B)) x y,
  pair_consistent o bin -> Permutation bin bin' -> blookup d o bin x y = blookup d o bin' x y.
Proof. exact binary_file_perm. Qed.
Print Assumptions C14_binary_file_perm.

(** A complete successful load: components in query order and matrix entry (i,j) = lookup of the i-th and j-th name. *)
Theorem C14_from_json_full_ok : forall (A B : Type) (d : B) o (inp : list (list N * file (prec A))) bf recs m,
  from_json_full d o inp bf = Ok (recs, m) ->
  let q := concat (map fst inp) in
  map (pkey o) recs = map Some q /\
  match m with
  | None => bf = None \/ bf = Some (FRecords [])
  | Some mat => exists bin, bf = Some (FRecords bin) /\ bin <> [] /\
                  mat = map (fun x => map (fun y => blookup d o bin x y) q) q
  end.
Proof. exact from_json_full_ok. Qed.
Print Assumptions C14_from_json_full_ok.

(** Binary association records: [from_records] hands the symmetric matrix of binary records to the association
    parameters; every site pair A_i-B_j ends up with the cross-association value of the record of the pair (i,j) (or keeps
    the combining rule when the record has none) — the same for A_i-B_j and A_j-B_i, and whatever the order of the components. *)
Theorem C14_assoc_override_matrix : forall (V : Type) hasA hasB n (m : nat -> nat -> option V) i j, (forall i j, m i j = m j i) ->
  (i < n)%nat -> (j < n)%nat -> hasA i = true -> hasB j = true ->
  ov_get (overrides_of hasA hasB (matrix_recs n m)) i j = m i j.
Proof. exact assoc_override_matrix. Qed.
Print Assumptions C14_assoc_override_matrix.

Theorem C14_assoc_override_sym : forall (V : Type) hasA hasB n (m : nat -> nat -> option V) i j, (forall i j, m i j = m j i) ->
  (i < n)%nat -> (j < n)%nat -> hasA i = true -> hasB j = true -> hasA j = true -> hasB i = true ->
  ov_get (overrides_of hasA hasB (matrix_recs n m)) i j = ov_get (overrides_of hasA hasB (matrix_recs n m)) j i.
Proof. exact assoc_override_sym. Qed.
Print Assumptions C14_assoc_override_sym.

Theorem C14_assoc_override_relabel : forall (V : Type) hasA hasB n (m : nat -> nat -> option V) (p q : nat -> nat) i j,
  (forall i j, m i j = m j i) -> (forall k, (k < n)%nat -> (p k < n)%nat) -> (forall k, q (p k) = k) ->
  (i < n)%nat -> (j < n)%nat -> hasA i = true -> hasB j = true ->
  ov_get (overrides_of (fun k => hasA (q k)) (fun k => hasB (q k)) (matrix_recs n (fun a b => m (q a) (q b)))) (p i) (p j)
  = ov_get (overrides_of hasA hasB (matrix_recs n m)) i j.
Proof. exact assoc_override_relabel. Qed.
Print Assumptions C14_assoc_override_relabel.

(* ------------------------------------------------------------------ new_binary, subset *)

Theorem C14_new_binary : forall (B : Type) (d b : B) i j, (i < 2)%nat -> (j < 2)%nat ->
  mat_get d [[d; b]; [b; d]] i j = if Nat.eqb i j then d else b.
Proof. exact new_binary_sym. Qed.
Print Assumptions C14_new_binary.

Theorem C14_subset_lookup : forall (T B : Type) (dT : T) (dB : B) l m idx a b, (a < length idx)%nat -> (b < length idx)%nat ->
  nth a (subset_pure dT l idx) dT = nth (nth a idx 0%nat) l dT /\
  mat_get dB (subset_mat dB m idx) a b = mat_get dB m (nth a idx 0%nat) (nth b idx 0%nat).
Proof. exact subset_lookup. Qed.
Print Assumptions C14_subset_lookup.

Theorem C14_subset_id : forall (T B : Type) (dT : T) (dB : B) l m, square (length l) m ->
  subset dT dB (l, Some m) (seq 0 (length l)) = (l, Some m) /\ subset dT dB (l, None) (seq 0 (length l)) = (l, None).
Proof. exact subset_id. Qed.
Print Assumptions C14_subset_id.

Theorem C14_subset_compose : forall (T B : Type) (dT : T) (dB : B) p idx1 idx2,
  Forall (fun i => (i < length idx1)%nat) idx2 ->
  subset dT dB (subset dT dB p idx1) idx2 = subset dT dB p (map (fun i => nth i idx1 0%nat) idx2).
Proof. exact subset_compose. Qed.
Print Assumptions C14_subset_compose.

(* ------------------------------------------------------------------ group contribution *)

(** Segment counts are the numbers of occurrences and do not depend on the order of the segments. *)
Theorem C14_segment_count : forall segs k, cget N.eqb k (segment_count segs) = occ N.eqb k segs.
Proof. exact segment_count_occ. Qed.
Print Assumptions C14_segment_count.

Theorem C14_segment_count_perm : forall segs segs' k, Permutation segs segs' ->
  cget N.eqb k (segment_count segs) = cget N.eqb k (segment_count segs').
Proof. exact segment_count_perm. Qed.
Print Assumptions C14_segment_count_perm.

(** Bond counts: independent of the order of the bond list, of the direction a bond is written in, and of the
    numbering of the segments. *)
Theorem C14_bond_count_perm : forall segs bonds bonds' k, Permutation bonds bonds' ->
  cget pair_eqb k (bond_count segs bonds) = cget pair_eqb k (bond_count segs bonds').
Proof. exact bond_count_perm. Qed.
Print Assumptions C14_bond_count_perm.

Theorem C14_bond_direction : forall segs bonds bonds',
  Forall2 (fun b b' => b' = b \/ b' = swap_bond b) bonds bonds' -> bond_keys segs bonds' = bond_keys segs bonds.
Proof. exact bond_keys_direction. Qed.
Print Assumptions C14_bond_direction.

Theorem C14_bond_relabel : forall segs segs' (f : nat -> nat) bonds,
  (forall b, In b bonds -> nth (f (fst b)) segs' 0%N = nth (fst b) segs 0%N /\ nth (f (snd b)) segs' 0%N = nth (snd b) segs 0%N) ->
  bond_keys segs' (map (fun b => (f (fst b), f (snd b))) bonds) = bond_keys segs bonds.
Proof. exact bond_keys_relabel. Qed.
Print Assumptions C14_bond_relabel.

(** The homosegmented PC-SAFT record is the documented combining rule applied to the list of segments
    (M = sum M_a, m = sum m_a, sigma^3 = sum m_a sigma_a^3 / m, epsilon = sum m_a eps_a / m), in exact arithmetic ... *)
Theorem C14_from_segments_rules : forall segs srecs c, from_segments_one segs srecs = Ok c -> ceq c (combine_spec segs srecs).
Proof. exact from_segments_rules. Qed.
Print Assumptions C14_from_segments_rules.

(** ... and the whole outcome (record, or error kind with the same missing segments) is independent of the order
    of the segments. *)
Theorem C14_segments_perm_invariant : forall segs segs' srecs, Permutation segs segs' ->
  outcome_eq (from_segments_one segs srecs) (from_segments_one segs' srecs).
Proof. exact segments_perm_invariant. Qed.
Print Assumptions C14_segments_perm_invariant.

(** The sums do not depend on the iteration order of the count map either (HashMap order is arbitrary). *)
Theorem C14_map_order_irrelevant : forall (f : N -> Q) m m', Permutation m m' -> csum f m == csum f m'.
Proof. exact (csum_perm N). Qed.
Print Assumptions C14_map_order_irrelevant.

(** k_ij of two molecules is the average of the segment-segment k_ab over all pairs of segments: weights n_a n_b. *)
Theorem C14_kij_rule : forall bin si sj,
  kij si sj bin == pair_sum (seg_k bin) si sj / (qn (length si) * qn (length sj)).
Proof. exact kij_rule. Qed.
Print Assumptions C14_kij_rule.

Theorem C14_kij_avg_weights : forall bin si sj, si <> [] -> sj <> [] ->
  kij si sj bin * (qn (length si) * qn (length sj)) ==
  csum (fun a => csum (fun b => seg_k bin a b) (segment_count sj)) (segment_count si).
Proof. exact kij_avg_weights. Qed.
Print Assumptions C14_kij_avg_weights.

Theorem C14_kij_perm : forall bin si si' sj sj', Permutation si si' -> Permutation sj sj' -> kij si sj bin == kij si' sj' bin.
Proof. exact kij_perm. Qed.
Print Assumptions C14_kij_perm.

Theorem C14_kij_sym : forall bin si sj, pair_consistent Cas (map to_brec bin) -> kij si sj bin == kij sj si bin.
Proof. exact kij_sym. Qed.
Print Assumptions C14_kij_sym.

Theorem C14_kij_const : forall bin si sj c, si <> [] -> sj <> [] -> (forall a b, seg_k bin a b == c) -> kij si sj bin == c.
Proof. exact kij_const. Qed.
Print Assumptions C14_kij_const.

(** Heterosegmented gc-PC-SAFT: the segment-pair parameter is symmetric and equals the either-orientation lookup. *)
Theorem C14_hetero_k_sym : forall bin a b, hetero_k bin a b = hetero_k bin b a.
Proof. exact hetero_k_sym. Qed.
Print Assumptions C14_hetero_k_sym.

Theorem C14_hetero_k_lookup : forall bin a b, pair_consistent Cas (map to_brec bin) -> hetero_k bin a b = seg_k bin a b.
Proof. exact hetero_k_blookup. Qed.
Print Assumptions C14_hetero_k_lookup.

(** Heterosegmented gc-PC-SAFT: the squared dipole moment of a molecule is the sum of mu^2 over ALL its segments
    (count-weighted over the kinds), independent of the segment order, additive over parts of the molecule; a dipolar
    group that occurs n times contributes n times. *)
Theorem C14_hetero_mu2_rule : forall mus segs, hetero_mu2 mus segs == lsum (map (mu_sq mus) segs).
Proof. exact hetero_mu2_rule. Qed.
Print Assumptions C14_hetero_mu2_rule.

Theorem C14_hetero_mu2_perm : forall mus segs segs', Permutation segs segs' -> hetero_mu2 mus segs == hetero_mu2 mus segs'.
Proof. exact hetero_mu2_perm. Qed.
Print Assumptions C14_hetero_mu2_perm.

Theorem C14_hetero_mu2_additive : forall mus s1 s2, hetero_mu2 mus (s1 ++ s2) == hetero_mu2 mus s1 + hetero_mu2 mus s2.
Proof. exact hetero_mu2_app. Qed.
Print Assumptions C14_hetero_mu2_additive.

Theorem C14_hetero_mu2_repeat : forall mus id n, hetero_mu2 mus (repeat id n) == qn n * mu_sq mus id.
Proof. exact hetero_mu2_repeat. Qed.
Print Assumptions C14_hetero_mu2_repeat.

(* ------------------------------------------------------------------ serde round trip (shape model) *)

Theorem C14_serde_identifier : forall i, parse_ident (print_ident i) = Some i.
Proof. exact ident_roundtrip. Qed.
Print Assumptions C14_serde_identifier.

(** Reading back a written PcSaftRecord gives the record, except that an absent association record comes back as the
    all-default one ([norm_pcsaft]); the serialised form and the association sites (behaviour) are unchanged. *)
Theorem C14_serde_pcsaft : forall r, pcsaft_ok r -> parse_pcsaft (print_pcsaft r) = Some (norm_pcsaft r).
Proof. exact pcsaft_roundtrip. Qed.
Print Assumptions C14_serde_pcsaft.

Theorem C14_serde_pcsaft_stable : forall r r', pcsaft_ok r -> parse_pcsaft (print_pcsaft r) = Some r' ->
  print_pcsaft r' = print_pcsaft r.
Proof. exact pcsaft_reserialise. Qed.
Print Assumptions C14_serde_pcsaft_stable.

Theorem C14_serde_pcsaft_behaviour : forall r, sites (norm_pcsaft r) = sites r.
Proof. exact pcsaft_sites_norm. Qed.
Print Assumptions C14_serde_pcsaft_behaviour.

Theorem C14_serde_pcsaft_identity : forall r, pcsaft_ok r -> r_assoc r <> None -> parse_pcsaft (print_pcsaft r) = Some r.
Proof. exact pcsaft_roundtrip_id. Qed.
Print Assumptions C14_serde_pcsaft_identity.

Theorem C14_serde_binary : forall b, binary_ok b -> parse_binary (print_binary b) = Some (norm_binary b).
Proof. exact binary_roundtrip. Qed.
Print Assumptions C14_serde_binary.

Theorem C14_serde_binary_behaviour : forall b, overrides (norm_binary b) = overrides b /\ print_binary (norm_binary b) = print_binary b.
Proof. exact (fun b => conj (binary_overrides_norm b) (binary_print_norm b)). Qed.
Print Assumptions C14_serde_binary_behaviour.

(** ePC-SAFT binary record: the coefficient vector of k_ij(T) survives the round trip unchanged, whatever the value of
    the constant term. *)
Theorem C14_serde_epcsaft_binary : forall b, ebinary_ok b -> parse_ebinary (print_ebinary b) = Some (norm_ebinary b).
Proof. exact ebinary_roundtrip. Qed.
Print Assumptions C14_serde_epcsaft_binary.

Theorem C14_serde_epcsaft_kij_preserved : forall b b', ebinary_ok b -> parse_ebinary (print_ebinary b) = Some b' -> eb_kij b' = eb_kij b.
Proof. exact ebinary_kij_preserved. Qed.
Print Assumptions C14_serde_epcsaft_kij_preserved.

Theorem C14_serde_pure_record : forall p, pcsaft_ok (pu_model p) ->
  parse_pure (print_pure p) = Some (mkSPure (pu_id p) (pu_mw p) (norm_pcsaft (pu_model p))).
Proof. exact pure_roundtrip. Qed.
Print Assumptions C14_serde_pure_record.

Theorem C14_serde_binary_record : forall b, binary_ok (br_model b) ->
  parse_brec (print_brec b) = Some (mkSBR (br_id1 b) (br_id2 b) (norm_binary (br_model b))).
Proof. exact brec_roundtrip. Qed.
Print Assumptions C14_serde_binary_record.

Theorem C14_serde_chemical_record : forall c, parse_chem (print_chem c) = Some c.
Proof. exact chem_roundtrip. Qed.
Print Assumptions C14_serde_chemical_record.
