(** C06 — critical points and spinodals satisfy their defining conditions.
    Property theorems only: each is closed by [exact <library lemma>] and followed by [Print Assumptions].
    Models: coq/theories/CritC06.v (the objective functions of feos-core/src/state/critical_point.rs read as exact
    real formulas; abstract equation of state) and coq/theories/PengRobinsonC06.v (the cubic of feos-core/src/cubic.rs).

    One component.  [Ar V N] is the reduced residual Helmholtz energy at fixed T; hypotheses: first-order homogeneity in
    (V, N) (property C02), three derivatives of the density function [fres Ar = Ar 1] on an open set [Dom] of positive
    densities.  [q11], [c3] are the two entries of [critical_point_objective] as coded, [dp_dv], [d2p_dv2] the volume
    derivatives of p = -dA/dV with A = T (A^res + N (ln (N/V) - 1)). *)
From Coq Require Import Reals.
From Coquelicot Require Import Coquelicot.
From FeosVerif Require Import CritC06 PengRobinsonC06.
Open Scope R_scope.

(** The objective of the pure critical-point solver vanishes exactly where dp/dV = d2p/dV2 = 0. *)
Theorem C06_crit_pure_equiv :
  forall T : R, 0 < T ->
  forall (Ar : R -> R -> R) (Dom : R -> Prop),
  open Dom -> (forall rho, Dom rho -> 0 < rho) ->
  (forall lam V N, 0 < lam -> 0 < V -> Dom (N / V) -> Ar (lam * V) (lam * N) = lam * Ar V N) ->
  (forall rho k, Dom rho -> (1 <= k <= 3)%nat -> ex_derive_n (fres Ar) k rho) ->
  forall V N, 0 < V -> Dom (N / V) ->
  (q11 Ar V N = 0 /\ c3 Ar V N = 0 <-> dp_dv T Ar V N = 0 /\ d2p_dv2 T Ar V N = 0).
Proof. exact crit_pure_equiv. Qed.
Print Assumptions C06_crit_pure_equiv.

(** The objective of the spinodal solver (one component) vanishes exactly where dp/dV = 0. *)
Theorem C06_spinodal_pure_equiv :
  forall T : R, 0 < T ->
  forall (Ar : R -> R -> R) (Dom : R -> Prop),
  open Dom -> (forall rho, Dom rho -> 0 < rho) ->
  (forall lam V N, 0 < lam -> 0 < V -> Dom (N / V) -> Ar (lam * V) (lam * N) = lam * Ar V N) ->
  (forall rho k, Dom rho -> (1 <= k <= 3)%nat -> ex_derive_n (fres Ar) k rho) ->
  forall V N, 0 < V -> Dom (N / V) -> (q11 Ar V N = 0 <-> dp_dv T Ar V N = 0).
Proof. exact spinodal_pure_equiv. Qed.
Print Assumptions C06_spinodal_pure_equiv.

(** Quantitative form: the objective entries are the volume derivatives of the pressure, rescaled. *)
Theorem C06_dp_dv_q11 :
  forall T : R,
  forall (Ar : R -> R -> R) (Dom : R -> Prop),
  open Dom -> (forall rho, Dom rho -> 0 < rho) ->
  (forall lam V N, 0 < lam -> 0 < V -> Dom (N / V) -> Ar (lam * V) (lam * N) = lam * Ar V N) ->
  (forall rho k, Dom rho -> (1 <= k <= 3)%nat -> ex_derive_n (fres Ar) k rho) ->
  forall V N, 0 < V -> Dom (N / V) -> dp_dv T Ar V N = - T * (N / V) / V * q11 Ar V N.
Proof. exact dp_dv_q11. Qed.
Print Assumptions C06_dp_dv_q11.

Theorem C06_d2p_dv2_c3 :
  forall T : R,
  forall (Ar : R -> R -> R) (Dom : R -> Prop),
  open Dom -> (forall rho, Dom rho -> 0 < rho) ->
  (forall lam V N, 0 < lam -> 0 < V -> Dom (N / V) -> Ar (lam * V) (lam * N) = lam * Ar V N) ->
  (forall rho k, Dom rho -> (1 <= k <= 3)%nat -> ex_derive_n (fres Ar) k rho) ->
  forall V N, 0 < V -> Dom (N / V) ->
  d2p_dv2 T Ar V N = T * (N / V) / (V * V) * (3 * q11 Ar V N + sqrt N * c3 Ar V N).
Proof. exact d2p_dv2_c3. Qed.
Print Assumptions C06_d2p_dv2_c3.

(** The formulas the correspondence check evaluates ([q11_of_dpdv], [c3_of_d2pdv2] on dp_dv / d2p_dv2 of the
    State API) are the objective entries. *)
Theorem C06_q11_tie :
  forall T : R, 0 < T ->
  forall (Ar : R -> R -> R) (Dom : R -> Prop),
  open Dom -> (forall rho, Dom rho -> 0 < rho) ->
  (forall lam V N, 0 < lam -> 0 < V -> Dom (N / V) -> Ar (lam * V) (lam * N) = lam * Ar V N) ->
  (forall rho k, Dom rho -> (1 <= k <= 3)%nat -> ex_derive_n (fres Ar) k rho) ->
  forall V N, 0 < V -> Dom (N / V) -> q11 Ar V N = q11_of_dpdv T V N (dp_dv T Ar V N).
Proof. exact q11_tie. Qed.
Print Assumptions C06_q11_tie.

Theorem C06_c3_tie :
  forall T : R, 0 < T ->
  forall (Ar : R -> R -> R) (Dom : R -> Prop),
  open Dom -> (forall rho, Dom rho -> 0 < rho) ->
  (forall lam V N, 0 < lam -> 0 < V -> Dom (N / V) -> Ar (lam * V) (lam * N) = lam * Ar V N) ->
  (forall rho k, Dom rho -> (1 <= k <= 3)%nat -> ex_derive_n (fres Ar) k rho) ->
  forall V N, 0 < V -> Dom (N / V) ->
  c3 Ar V N = c3_of_d2pdv2 T V N (dp_dv T Ar V N) (d2p_dv2 T Ar V N).
Proof. exact c3_tie. Qed.
Print Assumptions C06_c3_tie.

(** Non-vacuity: an equation of state satisfying all hypotheses with a critical point at positive pressure. *)
Theorem C06_crit_pure_example :
  q11 ArEx 1 1 = 0 /\ c3 ArEx 1 1 = 0 /\ dp_dv 1 ArEx 1 1 = 0 /\ d2p_dv2 1 ArEx 1 1 = 0 /\ 0 < press 1 ArEx 1 1.
Proof. exact crit_pure_example. Qed.
Print Assumptions C06_crit_pure_example.

(** Two components.  [eig2] (one Jacobi rotation + sort, as in num_dual's [smallest_ev]) returns the smallest eigenvalue
    of Q = [[a,b],[b,c]] and a unit eigenvector of it. *)
Theorem C06_eig2_correct : forall a b c : R,
  let '(l, (u1, u2)) := eig2 a b c in
  a * u1 + b * u2 = l * u1 /\ b * u1 + c * u2 = l * u2 /\ u1 * u1 + u2 * u2 = 1 /\
  forall w1 w2, l * (w1 * w1 + w2 * w2) <= quad a b c w1 w2.
Proof. exact eig2_correct. Qed.
Print Assumptions C06_eig2_correct.

(** The ideal-gas part of the third directional derivative, as coded ([moles * (ln partial_density - 1)]). *)
Theorem C06_ig_third : forall V N w : R, 0 < V -> 0 < N ->
  Derive_n (fun s => (N + s * w) * (ln ((N + s * w) / V) - 1)) 3 0 = - (w * w * w / (N * N)).
Proof. exact ig_third. Qed.
Print Assumptions C06_ig_third.

(** (T)-variant: the objective evaluated at the partial densities (V = 1) decides criticality of every state with
    these densities — under the scaling that first-order homogeneity (C02) gives the derivative data, the first entry is
    invariant and the second is divided by sqrt lam. *)
Theorem C06_crit_obj_scale : forall (lam N1 N2 : R) (J : jet2), 0 < lam -> 0 < N1 -> 0 < N2 ->
  crit_obj (lam * N1) (lam * N2) (scale_jet lam J) = (fst (crit_obj N1 N2 J), snd (crit_obj N1 N2 J) / sqrt lam).
Proof. exact crit_obj_scale. Qed.
Print Assumptions C06_crit_obj_scale.

(** (p)-variant: the additional entry [(dAres/dV - (rho1 + rho2)) * T + p_spec] is p_spec - p, with p = -dA/dV at V = 1
    of A = T (A^res + sum_i rho_i (ln (rho_i / V) - 1)). *)
Theorem C06_crit_obj_p_third : forall (T rho1 rho2 pspec dAdV : R) (AresV : R -> R),
  0 < rho1 -> 0 < rho2 -> is_derive AresV 1 dAdV ->
  forall J : jet2, snd (crit_obj_p pspec T rho1 rho2 J dAdV) = pspec - p_state T rho1 rho2 AresV.
Proof. exact crit_obj_p_third. Qed.
Print Assumptions C06_crit_obj_p_third.

(** The Newton loops of critical_point.rs return a state only when the norm of the objective at the iterate the last
    step started from is below the tolerance; the returned unknowns are that iterate plus one limited Newton step. *)
Theorem C06_newton_loop_accept : forall (X : Type) (advance : X -> option X) (resnorm : X -> R) (tol : R) fuel x0 y,
  newton_loop X advance resnorm tol fuel x0 = Some y -> exists x, resnorm x < tol /\ advance x = Some y.
Proof. exact newton_loop_accept. Qed.
Print Assumptions C06_newton_loop_accept.

Theorem C06_hkm_accept : forall obj delta maxdens tol fuel x0 y,
  hkm obj delta maxdens tol fuel x0 = Some y ->
  exists x d, Rabs (fst (obj x)) < tol /\ Rabs (snd (obj x)) < tol /\ delta x = Some d /\
              y = hkm_apply maxdens x (hkm_limit (fst x) maxdens d).
Proof. exact hkm_accept. Qed.
Print Assumptions C06_hkm_accept.

Theorem C06_hkm_limit_bound : forall t maxdens d, 0 < t -> 0 < maxdens ->
  Rabs (fst (hkm_limit t maxdens d)) <= 0.25 * t /\ Rabs (snd (hkm_limit t maxdens d)) <= 0.03 * maxdens.
Proof. exact hkm_limit_bound. Qed.
Print Assumptions C06_hkm_limit_bound.

(** Peng-Robinson.  With the exact constants (triple root of the cubic in Z) the critical point of the cubic built
    from (T, P) is (T, P). *)
Theorem C06_pr_critical_point_exact : forall A B Z T P : R,
  pr_crit_consts A B Z -> 0 < T -> 0 < P ->
  let a := A * (T * T) / P in
  let b := B * T / P in
  let v := Z * T / P in
  pr_p T a b v = P /\ is_derive (pr_p T a b) v 0 /\ is_derive (pr_dp T a b) v 0.
Proof. exact pr_critical_point_exact. Qed.
Print Assumptions C06_pr_critical_point_exact.

Theorem C06_pr_consts_exist : pr_crit_consts OmegaA OmegaB Zcrit.
Proof. exact pr_consts_exist. Qed.
Print Assumptions C06_pr_consts_exist.

(** The cubic as coded (a = oa Tc^2/pc, b = ob Tc/pc, alpha(T) = (1 + kappa (1 - sqrt (T/Tc)))^2) has its critical
    point at (pr_Tr * Tc, pr_pr * pc) ... *)
Theorem C06_pr_coded_critical_point : forall oa ob kappa Tc pc : R,
  0 < oa -> 0 < ob -> 0 <= kappa -> 0 < Tc -> 0 < pc ->
  let T := pr_Tr oa ob kappa * Tc in
  let P := pr_pr oa ob kappa * pc in
  let a := oa * (Tc * Tc) / pc * pr_alpha kappa Tc T in
  let b := ob * Tc / pc in
  let v := Zcrit * T / P in
  0 < T /\ 0 < P /\ pr_p T a b v = P /\ is_derive (pr_p T a b) v 0 /\ is_derive (pr_dp T a b) v 0.
Proof. exact pr_coded_critical_point. Qed.
Print Assumptions C06_pr_coded_critical_point.

(** ... which, for the rounded constants 0.45724 / 0.07780 of cubic.rs, is within 5e-5 / 1e-4 of (Tc, pc) but not
    (Tc, pc) itself: the clause "coincides with (Tc, pc)" holds to 1e-4, not exactly. *)
Theorem C06_pr_rounded_deviation : forall kappa : R, 0 <= kappa <= 100 ->
  Rabs (pr_Tr 0.45724 0.07780 kappa - 1) <= 5e-5 /\ Rabs (pr_pr 0.45724 0.07780 kappa - 1) <= 1e-4.
Proof. exact pr_rounded_deviation. Qed.
Print Assumptions C06_pr_rounded_deviation.

Theorem C06_pr_rounded_not_exact_refuted : forall kappa : R, 0 <= kappa <= 100 ->
  pr_pr 0.45724 0.07780 kappa < 1 - 5e-5.
Proof. exact pr_rounded_not_exact. Qed.
Print Assumptions C06_pr_rounded_not_exact_refuted.
