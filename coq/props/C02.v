(** C02 — extensivity.  Property theorems only: each is closed by [exact <library lemma>] and
    followed by [Print Assumptions].  The per-program obligations (the boolean degree checks) are
    regenerated from /repo on every run into coq/gen/C02/*.v and instantiate these theorems. *)
From Coq Require Import Reals List ZArith.
From Interval Require Import Eval.Prog Eval.Tree Real.Xreal Eval.Eval.
From FeosVerif Require Import ProgSem Homog AD Euler.
Import ListNotations.

(** Every output of a traced program whose degree check succeeds is homogeneous of degree [j] in
    (V, N) at fixed T — for all states, all scale factors, all values of the non-zero constants. *)
Theorem C02_program_homogeneous : forall P ncomp cz nouts j,
  outputs_deg P ncomp cz nouts j = true ->
  forall lam T V N consts k, (0 < lam)%R -> length N = ncomp -> consts_ok cz consts -> (k < nouts)%nat ->
  out_ext P (thermo_env T (lam * V) (map (Rmult lam) N) consts) k =
    match out_ext P (thermo_env T V N consts) k with
    | Xnan => Xnan | Xreal r => Xreal (powerRZ lam j * r) end.
Proof. exact program_homogeneous. Qed.
Print Assumptions C02_program_homogeneous.

(** Every value the code observed through [.re()] while being traced has a definite degree, hence its
    sign, zero-ness and definedness are invariant under the scaling ... *)
Theorem C02_observed_signs_scale_invariant : forall P ncomp cz ev,
  events_sign_ok P ncomp cz ev = true ->
  forall lam T V N consts k, (0 < lam)%R -> length N = ncomp -> consts_ok cz consts -> In k ev ->
  Xcmp (out_ext P (thermo_env T (lam * V) (map (Rmult lam) N) consts) k) (Xreal 0) =
  Xcmp (out_ext P (thermo_env T V N consts) k) (Xreal 0).
Proof. exact events_sign_invariant. Qed.
Print Assumptions C02_observed_signs_scale_invariant.

(** ... values of degree 0 are themselves invariant ... *)
Theorem C02_branches_scale_invariant : forall P ncomp cz ev,
  events_deg0 P ncomp cz ev = true ->
  forall lam T V N consts k, (0 < lam)%R -> length N = ncomp -> consts_ok cz consts -> In k ev ->
  out_ext P (thermo_env T (lam * V) (map (Rmult lam) N) consts) k = out_ext P (thermo_env T V N consts) k.
Proof. exact events_invariant. Qed.
Print Assumptions C02_branches_scale_invariant.

(** ... and every comparison between two traced values has the same outcome at every scale factor. *)
Theorem C02_comparisons_scale_invariant : forall P ncomp cz ev,
  events_cmp_ok P ncomp cz ev = true ->
  forall lam T V N consts a b, (0 < lam)%R -> length N = ncomp -> consts_ok cz consts -> In (a, b) ev ->
  Xcmp (out_ext P (thermo_env T (lam * V) (map (Rmult lam) N) consts) a)
       (out_ext P (thermo_env T (lam * V) (map (Rmult lam) N) consts) b) =
  Xcmp (out_ext P (thermo_env T V N consts) a) (out_ext P (thermo_env T V N consts) b).
Proof. exact events_cmp_invariant. Qed.
Print Assumptions C02_comparisons_scale_invariant.

(** The constant table read from the trace satisfies the side condition on constants. *)
Theorem C02_zero_flags_ok : forall consts, consts_ok (zero_flags consts) (inputs_R consts).
Proof. exact zero_flags_ok. Qed.
Print Assumptions C02_zero_flags_ok.

(** Euler's relation A = V dA/dV + sum_i N_i dA/dN_i for every program that passes the degree check:
    the derivative program of C01 ([tan_outs]), seeded with the direction (0, V, N_1..N_n, 0...), returns
    the value of the program itself — for every state and all values of the constants; [dv] is, by
    C01_directional_derivative, the directional derivative -p V + sum_i mu_i N_i of output [k]. *)
Theorem C02_euler_relation : forall P ncomp cz nouts T V N consts k y dv,
  outputs_deg P ncomp cz nouts 1%Z = true ->
  length N = ncomp -> consts_ok cz consts -> (k < nouts)%nat ->
  let n := length (thermo_env T V N consts) in
  wscoped P n = true -> (k < length P + n)%nat ->
  out_ext P (thermo_env T V N consts) k = Xreal y ->
  nth 0 (eval_ext (tan_outs P n [k]) (map Xreal (thermo_env T V N consts ++ euler_dir V N consts))) Xnan = Xreal dv ->
  dv = y.
Proof. exact euler_relation. Qed.
Print Assumptions C02_euler_relation.

(** Euler's relation for any degree [j]: V df/dV + sum_i N_i df/dN_i = j f.  Instantiated (per regenerated program, by the
    degree check on the DERIVATIVE program [tan_outs P n [0]] seeded with a unit direction) it gives, for all states:
    pressure and chemical potentials are homogeneous of degree 0 and the entropy of degree 1 ([C02_program_homogeneous] on the
    derivative program: intensive properties do not depend on the amount of substance), and the Gibbs-Duhem type identities
    V dp/dV + sum_i N_i dp/dN_i = 0 and V dmu_k/dV + sum_i N_i dmu_k/dN_i = 0 (this theorem with j = 0). *)
Theorem C02_euler_relation_any_degree : forall P ncomp cz nouts (j : Z) T V N consts k y dv,
  outputs_deg P ncomp cz nouts j = true ->
  length N = ncomp -> consts_ok cz consts -> (k < nouts)%nat ->
  let n := length (thermo_env T V N consts) in
  wscoped P n = true -> (k < length P + n)%nat ->
  out_ext P (thermo_env T V N consts) k = Xreal y ->
  nth 0 (eval_ext (tan_outs P n [k]) (map Xreal (thermo_env T V N consts ++ euler_dir V N consts))) Xnan = Xreal dv ->
  dv = (IZR j * y)%R.
Proof. exact euler_relation_deg. Qed.
Print Assumptions C02_euler_relation_any_degree.
