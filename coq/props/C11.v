(** C11 — results do not depend on the evaluation history or on the thread schedule.
    Property theorems only; the models and proofs are in theories/Cache.v and theories/ParPure.v.
    [V] is the (abstract) type of values; [O] is what the closures handed to the cache compute
    (the dual-number tuples of the equation of state at this state); [consistent O J] says that all
    tuples are projections of one jet [J].  The recorded histories of the real [State] are replayed with
    the same definitions ([replay], [replay1]) in coq/gen/C11/*.v on every run. *)
From Coq Require Import List Arith ZArith.
Import ListNotations.
From FeosVerif Require Import Cache ParPure.

(** For every history of property evaluations on one state, every response is the jet's value at the
    request (the cache refines the stateless jet). *)
Theorem C11_cache_refines_jet : forall (V : Type) (O : oracle V) (J : pd -> V), consistent V O J ->
  forall h : list pd, snd (run1 V O fresh h) = map (fun r => J (ckey r)) h.
Proof. exact cache_refines_jet. Qed.
Print Assumptions C11_cache_refines_jet.

(** The property text: the value returned for [r] after ANY sequence [h] of evaluations equals the value
    a fresh state returns for [r]; indeed every response of the history does. *)
Theorem C11_history_independent : forall (V : Type) (O : oracle V), (exists J, consistent V O J) ->
  forall (h : list pd) (r : pd),
    last (snd (run1 V O fresh (h ++ [r]))) (fresh_response V O r) = fresh_response V O r
    /\ nth (length h) (snd (run1 V O fresh (h ++ [r]))) (fresh_response V O r) = fresh_response V O r
    /\ snd (run1 V O fresh (h ++ [r])) = map (fresh_response V O) (h ++ [r]).
Proof. exact history_independent. Qed.
Print Assumptions C11_history_independent.

(** At the level of the public API: what a getter (an array-valued one issues one request per component)
    reads after ANY sequence of other getters is what it reads on a fresh state. *)
Theorem C11_getters_history_independent : forall (V : Type) (O : oracle V), (exists J, consistent V O J) ->
  forall (nc : nat) (gs : list getter) (g : getter), getter_after V O nc gs g = getter_after V O nc [] g.
Proof. exact getters_history_independent. Qed.
Print Assumptions C11_getters_history_independent.

(** Pure evaluators of the public API (the [*_contributions] functions, ideal-gas-only evaluations) never reach the
    cache: an API-level history with them is the history without them (tied to the code by the snapshot comparison of the
    replayed histories and by the "cache untouched" check of the API sweep). *)
Theorem C11_pure_evaluators_invisible : forall (nc : nat) (h : list gop),
  flat_map (expand nc) (filter (fun o => negb (is_pure o)) h) = flat_map (expand nc) h.
Proof. exact pure_evaluators_invisible. Qed.
Print Assumptions C11_pure_evaluators_invisible.

(** The same on a pool of states with [State::clone]: whatever was evaluated before on the state or on
    the state it was cloned from, every getter returns the jet's value. *)
Theorem C11_pool_refines_jet : forall (V : Type) (O : oracle V) (J : pd -> V), consistent V O J ->
  forall h : list op, Forall2 (expected V J) h (snd (run V O [fresh] h)).
Proof. exact pool_refines_jet. Qed.
Print Assumptions C11_pool_refines_jet.

(** [State::clone] copies the cache: the clone answers every request exactly as the original would
    (any oracle), ... *)
Theorem C11_clone_preserves : forall (V : Type) (O : oracle V) (p : list (cache V)) (s : nat) (c : cache V),
  nth_error p s = Some c ->
  fst (step V O p (Clone s)) = p ++ [c] /\
  nth_error (fst (step V O p (Clone s))) (length p) = Some c /\
  forall r, step V O (p ++ [c]) (Req (length p) r) =
            (p ++ [snd (request V O c r)], Some (fst (request V O c r))).
Proof. exact clone_preserves. Qed.
Print Assumptions C11_clone_preserves.

(** ... and evaluating on one state never changes another state of the pool. *)
Theorem C11_request_isolated : forall (V : Type) (O : oracle V) (p : list (cache V)) (s : nat) (r : pd) (j : nat),
  j <> s -> nth_error (fst (step V O p (Req s r))) j = nth_error p j.
Proof. exact request_isolated. Qed.
Print Assumptions C11_request_isolated.

(** Mixed second derivatives: both argument orders are stored under one key; after one was requested the
    other is a hit with the same value and an unchanged map — for ANY oracle. *)
Theorem C11_mixed_key_canonical : forall (V : Type) (O : oracle V) (c : cache V) (a b : deriv),
  let '(v, c1) := request V O c (SecondMixed a b) in
  fst (request V O c1 (SecondMixed b a)) = v /\ cmap V (snd (request V O c1 (SecondMixed b a))) = cmap V c1.
Proof. exact mixed_key_canonical. Qed.
Print Assumptions C11_mixed_key_canonical.

Theorem C11_same_key_hits : forall (V : Type) (O : oracle V) (c : cache V) (r r' : pd), ckey r' = ckey r ->
  let '(v, c1) := request V O c r in
  request V O c1 r' = (v, mkCache (cmap V c1) (S (hits V c1)) (misses V c1)).
Proof. exact same_key_hits. Qed.
Print Assumptions C11_same_key_hits.

Theorem C11_mixed_key_symmetric : forall a b, ckey (SecondMixed a b) = ckey (SecondMixed b a).
Proof. exact mixed_key_symmetric. Qed.
Print Assumptions C11_mixed_key_symmetric.

(** hit + miss counts every request; the keys of the map stay canonical and unique. *)
Theorem C11_counters_total : forall (V : Type) (O : oracle V) (h : list pd) (c : cache V),
  hits V (fst (run1 V O c h)) + misses V (fst (run1 V O c h)) = hits V c + misses V c + length h.
Proof. exact counters_total. Qed.
Print Assumptions C11_counters_total.

Theorem C11_keys_canonical : forall (V : Type) (O : oracle V) (h : list pd) (c : cache V),
  keys_ok V (cmap V c) = true -> keys_ok V (cmap V (fst (run1 V O c h))) = true.
Proof. exact run1_keys_ok. Qed.
Print Assumptions C11_keys_canonical.

(** Thread schedules at the granularity of one locked operation: for ANY interleaving [s] of the
    threads' request lists [ts] on a shared state, every thread observes exactly the values a fresh
    state returns. *)
Theorem C11_interleave_any : forall (V : Type) (O : oracle V), (exists J, consistent V O J) ->
  forall (ts : list (list pd)) (s : list (nat * pd)), is_interleaving ts s ->
  forall i, thread_view V O i s = map (fresh_response V O) (nth i ts []).
Proof. exact interleave_any. Qed.
Print Assumptions C11_interleave_any.

Theorem C11_shuffle_any : forall (V : Type) (O : oracle V), (exists J, consistent V O J) ->
  forall (ts : list (list pd)) (s : list (nat * pd)), shuffle ts s ->
  forall i, thread_view V O i s = map (fresh_response V O) (nth i ts []).
Proof. exact shuffle_any. Qed.
Print Assumptions C11_shuffle_any.

(** The consistency hypothesis cannot be dropped: a by-product that differs from what the direct
    computation gives makes the value depend on the history (for any oracle). *)
Theorem C11_byproduct_first_of_second_observable : forall (V : Type) (O : oracle V) (d : deriv),
  snd (fst (o2 V O d)) <> snd (o1 V O d) ->
  nth 1 (snd (run1 V O fresh [Second d; First d])) (o0 V O) <> fresh_response V O (First d).
Proof. exact byproduct_first_of_second_observable. Qed.
Print Assumptions C11_byproduct_first_of_second_observable.

Theorem C11_byproduct_eps2_of_mixed_observable : forall (V : Type) (O : oracle V) (a b : deriv),
  snd (fst (oh V O a b)) <> snd (o1 V O b) ->
  nth 1 (snd (run1 V O fresh [SecondMixed a b; First b])) (o0 V O) <> fresh_response V O (First b).
Proof. exact byproduct_eps2_of_mixed_observable. Qed.
Print Assumptions C11_byproduct_eps2_of_mixed_observable.

(** [PhaseDiagram::par_pure] returns the same states in the same order as [PhaseDiagram::pure] for every
    chunk size >= 1 and every number of temperatures, the critical point last — given a point solver
    whose result does not depend on the initial guess (that is property C12). *)
Theorem C11_par_pure_order : forall (T St : Type) (solve : T -> option St -> option St),
  guess_independent T St solve ->
  forall (k : nat) (ts : list T) (crit : St), 1 <= k -> par_pure T St solve k ts crit = pure T St solve ts crit.
Proof. exact par_pure_order. Qed.
Print Assumptions C11_par_pure_order.

(** the point solver is option-valued: temperatures where it FAILS are skipped by both variants, and the
    result is exactly the solutions of the temperatures that have one, in grid order, then the critical point *)
Theorem C11_par_pure_skips_failures : forall (T St : Type) (solve : T -> option St -> option St),
  guess_independent T St solve ->
  forall (k : nat) (ts : list T) (crit : St), 1 <= k ->
  par_pure T St solve k ts crit =
  flat_map (fun t => match solve t None with Some s => [s] | None => [] end) ts ++ [crit].
Proof. exact par_pure_skips_failures. Qed.
Print Assumptions C11_par_pure_skips_failures.

(** the entry points as functions of the caller's arguments: the critical point (hence the temperature grid and
    the last state) is computed with the default options in BOTH variants; for every caller option [o] they return
    the same [Ok]/[Err] and the same states *)
Theorem C11_par_pure_api_order : forall (Opt T St : Type) (default : Opt) (cp : Opt -> option St) (grid : St -> list T)
  (solve : Opt -> T -> option St -> option St) (o : Opt), guess_independent T St (solve o) ->
  forall k, 1 <= k -> par_pure_api Opt T St default cp grid solve o k = pure_api Opt T St default cp grid solve o.
Proof. exact par_pure_api_order. Qed.
Print Assumptions C11_par_pure_api_order.

Theorem C11_api_same_critical_state : forall (Opt T St : Type) (default : Opt) (cp : Opt -> option St) (grid : St -> list T)
  (solve : Opt -> T -> option St -> option St) (o : Opt) (k : nat) (d : St),
  match pure_api Opt T St default cp grid solve o, par_pure_api Opt T St default cp grid solve o k with
  | Some a, Some b => last a d = last b d
  | None, None => True
  | _, _ => False
  end.
Proof. exact api_same_critical_state. Qed.
Print Assumptions C11_api_same_critical_state.

(** with a single chunk no hypothesis on the solver is needed *)
Theorem C11_par_pure_single_chunk : forall (T St : Type) (solve : T -> option St -> option St)
  (k : nat) (ts : list T) (crit : St), 1 <= k -> length ts <= k ->
  par_pure T St solve k ts crit = pure T St solve ts crit.
Proof. exact par_pure_single_chunk. Qed.
Print Assumptions C11_par_pure_single_chunk.

Theorem C11_critical_point_last : forall (T St : Type) (solve : T -> option St -> option St)
  (k : nat) (ts : list T) (crit d : St),
  last (par_pure T St solve k ts crit) d = crit /\ last (pure T St solve ts crit) d = crit.
Proof. exact critical_point_last. Qed.
Print Assumptions C11_critical_point_last.

Theorem C11_chunks_partition : forall (T : Type) (k : nat) (l : list T), 1 <= k ->
  concat (chunks T k l) = l /\ Forall (fun c => 1 <= length c <= k) (chunks T k l).
Proof. exact chunks_partition. Qed.
Print Assumptions C11_chunks_partition.
