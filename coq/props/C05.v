(** C05 — mixture equilibrium results: balances, bracket, stopping tests, specification.
    Property theorems only: each is closed by [exact <library lemma>] and followed by [Print Assumptions].
    Models: coq/theories/RachfordRiceC05.v (over Q, executable, mirrors [rachford_rice]/[update_states] of
    tp_flash.rs) and coq/theories/BubbleDewC05.v (over R: residual vectors of bubble_dew.rs / tp_flash.rs; over Q:
    the state machine of the specified phase).  [rnd] is an arbitrary rounding function applied where the
    implementation rounds; [rnd := fun x => x] is exact arithmetic. *)
From Coq Require Import Reals QArith Qminmax List.
From FeosVerif Require Import RachfordRiceC05 BubbleDewC05.
Import ListNotations.
Open Scope Q_scope.

(** A flash split conserves the feed of every component exactly — all component counts, all beta, all K
    (K_i = 0 for non-volatile components included), as long as no denominator 1 - beta + beta K_i vanishes. *)
Theorem C05_flash_balance : forall (beta : Q) (nk : list (Q * Q)),
  (forall p, In p nk -> ~ den beta (snd p) == 0) ->
  Forall2 (fun p vl => fst vl + snd vl == fst p) nk (split beta nk).
Proof. exact flash_balance. Qed.
Print Assumptions C05_flash_balance.

(** ... and both amounts are non-negative when beta is in [0,1], K_i >= 0 (beta < 1 or K_i > 0). *)
Theorem C05_flash_nonneg : forall (beta : Q) (nk : list (Q * Q)),
  0 <= beta <= 1 -> (forall p, In p nk -> 0 <= fst p /\ 0 <= snd p /\ (beta < 1 \/ 0 < snd p)) ->
  Forall (fun vl => 0 <= fst vl /\ 0 <= snd vl) (split beta nk).
Proof. exact flash_nonneg. Qed.
Print Assumptions C05_flash_nonneg.

(** The vapor fraction returned by [rachford_rice] lies in [0,1]: invariant of all iterations, for every
    component count, every K, every start value and every rounding of the arithmetic. *)
Theorem C05_rr_bracket : forall (rnd : Q -> Q) (zk : list (Q * Q)) (b0 : option Q) (beta : Q),
  (forall p, In p zk -> 0 <= fst p <= 1) -> rr rnd zk b0 = RROk beta -> 0 <= beta <= 1.
Proof. exact rr_bracket. Qed.
Print Assumptions C05_rr_bracket.

(** ... more precisely in the bracket spanned by the tightened initial bounds. *)
Theorem C05_rr_bracket_tight : forall (rnd : Q -> Q) (zk : list (Q * Q)) (b0 : option Q) (beta : Q),
  rr rnd zk b0 = RROk beta ->
  Qmin (fst (bounds0 zk)) (snd (bounds0 zk)) <= beta <= Qmax (fst (bounds0 zk)) (snd (bounds0 zk)).
Proof. exact rr_bracket_tight. Qed.
Print Assumptions C05_rr_bracket_tight.

(** The error branch of [rachford_rice] is taken exactly when  sum z_i K_i <= 1  or  sum z_i / K_i <= 1
    (IEEE reading of the second sum: no term z_i / 0 = +infinity and the finite terms sum to at most 1). *)
Theorem C05_rr_exists_guard : forall (rnd : Q -> Q) (zk : list (Q * Q)) (b0 : option Q),
  rr rnd zk b0 = RRErr <-> (szk zk <= 1 \/ (has_inf zk = false /\ sinv zk <= 1)).
Proof. exact rr_exists_guard. Qed.
Print Assumptions C05_rr_exists_guard.

Theorem C05_rr_exists_guard_pos : forall (rnd : Q -> Q) (zk : list (Q * Q)) (b0 : option Q),
  (forall p, In p zk -> 0 < snd p) ->
  (rr rnd zk b0 = RRErr <-> (szk zk <= 1 \/ qsum (map (fun p => fst p / snd p) zk) <= 1)).
Proof. exact rr_exists_guard_pos. Qed.
Print Assumptions C05_rr_exists_guard_pos.

(** A component with K_i = 0 and feed fraction f caps the bracket at 1 - f (so beta < 1 and every denominator
    is positive when that component is present). *)
Theorem C05_rr_nonvolatile_cap : forall (zk : list (Q * Q)) (f : Q), In (f, 0) zk -> snd (bounds0 zk) <= 1 - f.
Proof. exact bounds0_nonvolatile. Qed.
Print Assumptions C05_rr_nonvolatile_cap.

(** [update_states] as a whole. *)
Theorem C05_update_split_balance : forall (rnd : Q -> Q) (z n k : list Q) (beta_in beta : Q) (vl : list (Q * Q)),
  (forall x, In x z -> 0 <= x <= 1) ->
  update_split rnd z n k beta_in = Some (beta, vl) ->
  0 <= beta <= 1 /\
  ((forall p, In p (combine n k) -> ~ den beta (snd p) == 0) ->
   Forall2 (fun p q => fst q + snd q == fst p) (combine n k) vl).
Proof. exact update_split_balance. Qed.
Print Assumptions C05_update_split_balance.

Open Scope R_scope.

(** Bubble/dew Newton iteration, temperature specified: an iterate whose residual norm is below tol has
    |ln f_i^1 - ln f_i^2| < tol / (RT) for every component and |p_1 - p_2| < tol (reduced units). *)
Theorem C05_newton_res_bound_T : forall T mu1 mu2 rho1 rho2 p1 p2 tol, 0 < T ->
  Forall (fun q => 0 < fst (snd q) /\ 0 < snd (snd q)) (comp_data mu1 mu2 rho1 rho2) ->
  newton_err_T T mu1 mu2 rho1 rho2 p1 p2 < tol ->
  isofugacity_within T (tol / T) (comp_data mu1 mu2 rho1 rho2) /\ Rabs (p1 - p2) < tol.
Proof. exact newton_res_bound_T. Qed.
Print Assumptions C05_newton_res_bound_T.

(** ... pressure specified: additionally both phase pressures are the specified pressure within tol. *)
Theorem C05_newton_res_bound_p : forall T mu1 mu2 rho1 rho2 p1 p2 p tol, 0 < T ->
  Forall (fun q => 0 < fst (snd q) /\ 0 < snd (snd q)) (comp_data mu1 mu2 rho1 rho2) ->
  newton_err_p T mu1 mu2 rho1 rho2 p1 p2 p < tol ->
  isofugacity_within T (tol / T) (comp_data mu1 mu2 rho1 rho2) /\
  Rabs (p1 - p) < tol /\ Rabs (p2 - p) < tol /\ Rabs (p1 - p2) < 2 * tol.
Proof. exact newton_res_bound_p. Qed.
Print Assumptions C05_newton_res_bound_p.

(** Heteroazeotrope (three phases), temperature specified: the returned phases are the ones whose residual norm
    passed the test, hence equal fugacities liquid/vapor within tol/(RT) and equal pressures within tol. *)
Theorem C05_hetero_res_bound_T : forall T mu1 mu2 muv rho1 rho2 rhov p1 p2 pv tol, 0 < T ->
  Forall (fun q => 0 < fst (snd q) /\ 0 < snd (snd q)) (comp_data mu1 muv rho1 rhov) ->
  Forall (fun q => 0 < fst (snd q) /\ 0 < snd (snd q)) (comp_data mu2 muv rho2 rhov) ->
  hetero_err_T T mu1 mu2 muv rho1 rho2 rhov p1 p2 pv < tol ->
  isofugacity_within T (tol / T) (comp_data mu1 muv rho1 rhov) /\
  isofugacity_within T (tol / T) (comp_data mu2 muv rho2 rhov) /\
  Rabs (p1 - pv) < tol /\ Rabs (p2 - pv) < tol /\ Rabs (p1 - p2) < 2 * tol.
Proof. exact hetero_res_bound_T. Qed.
Print Assumptions C05_hetero_res_bound_T.

(** ... pressure specified. *)
Theorem C05_hetero_res_bound_p : forall T mu1 mu2 muv rho1 rho2 rhov p1 p2 pv p tol, 0 < T ->
  Forall (fun q => 0 < fst (snd q) /\ 0 < snd (snd q)) (comp_data mu1 muv rho1 rhov) ->
  Forall (fun q => 0 < fst (snd q) /\ 0 < snd (snd q)) (comp_data mu2 muv rho2 rhov) ->
  hetero_err_p T mu1 mu2 muv rho1 rho2 rhov p1 p2 pv p < tol ->
  isofugacity_within T (tol / T) (comp_data mu1 muv rho1 rhov) /\
  isofugacity_within T (tol / T) (comp_data mu2 muv rho2 rhov) /\
  Rabs (p1 - p) < tol /\ Rabs (p2 - p) < tol /\ Rabs (pv - p) < tol.
Proof. exact hetero_res_bound_p. Qed.
Print Assumptions C05_hetero_res_bound_p.

(** Pressure-specified heteroazeotrope: after at least one Newton update (or from a common start temperature) the
    three phases share one temperature, whatever the start temperatures and steps. *)
Theorem C05_hetero_p_common_temperature : forall (s : het_temps) (dts : list R),
  (dts <> [] \/ het_common s) -> het_common (fold_left het_step_p dts s).
Proof. exact hetero_p_common_temperature. Qed.
Print Assumptions C05_hetero_p_common_temperature.

(** Tp flash: the state accepted by the successive substitution has every fugacity mismatch below tol. *)
Theorem C05_flash_res_bound : forall p lnphi_l lnphi_v x y tol, 0 < p ->
  Forall (fun q => 0 < fst (snd q) /\ 0 < snd (snd q)) (comp_data lnphi_l lnphi_v x y) ->
  flash_res_norm lnphi_l lnphi_v x y < tol ->
  Forall (fun q => Rabs (lnf_phi p (fst (snd q)) (fst (fst q)) - lnf_phi p (snd (snd q)) (snd (fst q))) < tol)
         (comp_data lnphi_l lnphi_v x y).
Proof. exact flash_res_bound. Qed.
Print Assumptions C05_flash_res_bound.

(** Outer loop of the bubble/dew iteration. *)
Theorem C05_adjust_x2_bound : forall p lnphi1 lnphi2 x1 x2 tol, 0 < p -> tol < 1 ->
  Forall (fun q => 0 < fst (snd q) /\ 0 < snd (snd q)) (comp_data lnphi1 lnphi2 x1 x2) ->
  adjust_x2_err lnphi1 lnphi2 x1 x2 < tol ->
  Forall (fun q => let d := lnf_phi p (fst (snd q)) (fst (fst q)) - lnf_phi p (snd (snd q)) (snd (fst q)) in
                   ln (1 - tol) < d < ln (1 + tol))
         (comp_data lnphi1 lnphi2 x1 x2).
Proof. exact adjust_x2_bound. Qed.
Print Assumptions C05_adjust_x2_bound.

(** Phases for which [is_trivial_solution] is false are not copies of each other. *)
Theorem C05_nontrivial_distinct : forall rr delta, 0 < delta -> Forall (fun q => fst q <> 0) rr ->
  ~ (max_dev rr < delta) -> exists q, In q rr /\ snd q <> fst q.
Proof. exact nontrivial_distinct. Qed.
Print Assumptions C05_nontrivial_distinct.

Open Scope Q_scope.
(** The specified phase keeps the specified composition in every reachable iterate of the outer loop. *)
Theorem C05_spec_phase_invariant : forall (spec : list Q) (evs : list bd_event), ~ qsum spec == 0 ->
  leq (snd (bd_run spec evs)) (qnormalize spec).
Proof. exact spec_phase_invariant. Qed.
Print Assumptions C05_spec_phase_invariant.

Theorem C05_spec_phase_invariant_unit : forall (spec : list Q) (evs : list bd_event), qsum spec == 1 ->
  leq (snd (bd_run spec evs)) spec.
Proof. exact spec_phase_invariant_unit. Qed.
Print Assumptions C05_spec_phase_invariant_unit.

(** A bubble/dew point is only returned from an outer iteration after which the two phases were not a trivial
    solution (the test runs after every iteration, whatever the size of the error). *)
Theorem C05_bd_outer_nontrivial : forall (tol : Q) (steps : list (Q * bool)) (s : Q * bool),
  bd_outer tol steps = BdConverged s -> In s steps /\ snd s = false /\ fst s < tol.
Proof. exact bd_outer_nontrivial. Qed.
Print Assumptions C05_bd_outer_nontrivial.

Theorem C05_bd_outer_all_nontrivial : forall (tol : Q) (steps : list (Q * bool)) (s : Q * bool),
  bd_outer tol steps = BdConverged s ->
  exists pre post, steps = pre ++ s :: post /\ Forall (fun q => snd q = false) pre.
Proof. exact bd_outer_all_nontrivial. Qed.
Print Assumptions C05_bd_outer_all_nontrivial.

(** The specified phase is returned as liquid() by a bubble point and as vapor() by a dew point, whatever the
    densities of the two phases. *)
Theorem C05_bd_result_spec_slot : forall (A : Type) (bubble : bool) (state1 state2 : A),
  (bubble = true -> snd (bd_result bubble state1 state2) = state1) /\
  (bubble = false -> fst (bd_result bubble state1 state2) = state1).
Proof. exact @bd_result_spec_slot. Qed.
Print Assumptions C05_bd_result_spec_slot.
