(** C07 — stability verdicts are sound and separate one-phase from two-phase feeds.
    Property theorems only; proofs are in theories/TpdC07.v and theories/TpdDerivC07.v.

    Decided by proof (all component counts, all amounts, all fugacity-coefficient functions):
      - the algebra that makes a returned trial phase a witness of instability: the value the code accepts on is the
        modified tangent-plane distance [tm]; tm < 0 forces tpd < 0 of the normalised composition; exact at stationarity;
        an explicit bound for the frozen-ln-phi value the code actually tests;
      - the acceptance / deduplication logic of [stability_analysis] and the control skeleton of [minimize_tpd];
      - gradient and Hessian of [stability_newton_step] as derivatives of tm;
      - converged equilibrium phases lie on the tangent plane within the solver tolerance (not accepted as candidates).
    NOT decided by proof (partial; support search in checks/c07.py): completeness of the verdict — that the N+1 starts
    of the minimisation find a negative minimum whenever one exists, and that the minimisation converges. *)
From Coq Require Import Reals List ZArith QArith.
From Coquelicot Require Import Coquelicot.
From FeosVerif Require Import TpdC07 TpdDerivC07 FlashCascadeC07.
Import ListNotations.

(** at a fixed point of  W_i <- exp (d_i - P_i)  the objective is  1 - sum W  (`tpd = 1.0 - y.sum()`) *)
Theorem C07_tm_stationary : forall l : list comp, stationary l -> tm l = (1 - total l)%R.
Proof. exact tm_stationary. Qed.
Print Assumptions C07_tm_stationary.

(** ... there the tangent-plane distance of the composition W / sum W is  - ln (sum W) ... *)
Theorem C07_tpd_at_stationary : forall l : list comp, stationary l -> l <> [] -> tpd (normalized l) = (- ln (total l))%R.
Proof. exact tpd_at_stationary. Qed.
Print Assumptions C07_tpd_at_stationary.

(** ... hence the sign the code tests is the sign of the tangent-plane distance *)
Theorem C07_tm_tpd_sign : forall l : list comp, stationary l -> l <> [] -> (tm l < 0 <-> tpd (normalized l) < 0)%R.
Proof. exact tm_tpd_sign. Qed.
Print Assumptions C07_tm_tpd_sign.

(** the code's direct-substitution value is the objective at the new amounts with the previous fugacity coefficients *)
Theorem C07_ss_tpd_is_tm : forall d p : list R, length d = length p -> ss_tpd d p = tm_of (ss_map d p) p d.
Proof. exact ss_tpd_is_tm. Qed.
Print Assumptions C07_ss_tpd_is_tm.

(** without stationarity, for the same fugacity coefficients: tm < 0 implies tpd < 0, with  tpd <= - ln (1 - tm) *)
Theorem C07_tm_neg_tpd_neg : forall l : list comp, positive l -> l <> [] -> (tm l < 0)%R -> (tpd (normalized l) < 0)%R.
Proof. exact tm_neg_tpd_neg. Qed.
Print Assumptions C07_tm_neg_tpd_neg.

Theorem C07_tm_neg_tpd_bound : forall l : list comp, positive l -> l <> [] -> (tm l < 1)%R -> (tpd (normalized l) <= - ln (1 - tm l))%R.
Proof. exact tm_neg_tpd_bound. Qed.
Print Assumptions C07_tm_neg_tpd_bound.

(** "recomputed independently from fugacity coefficients": the value of the returned state with its own ln phi
    exceeds the bound by at most the drift of ln phi between the last two iterates
    (partial: the sign is guaranteed only when that drift is below ln (1 + 1e-8); the check measures it) *)
Theorem C07_accept_recomputed_bound_partial : forall (delta : R) (lo lr : list comp),
  drift delta lo lr -> positive lo -> lo <> [] -> (tm lo < 1)%R -> (tpd (normalized lr) <= - ln (1 - tm lo) + delta)%R.
Proof. exact accept_recomputed_bound. Qed.
Print Assumptions C07_accept_recomputed_bound_partial.

Theorem C07_accept_sound_small_drift : forall (theta delta : R) (lo lr : list comp),
  drift delta lo lr -> positive lo -> lo <> [] -> (0 < theta)%R -> (tm lo < - theta)%R -> (delta < ln (1 + theta))%R ->
  (tpd (normalized lr) < 0)%R.
Proof. exact accept_sound_small_drift. Qed.
Print Assumptions C07_accept_sound_small_drift.

(** first-order bound in the substitution error the code tests (ln phi L-Lipschitz in the 1-norm) *)
Theorem C07_ss_accept_bound : forall (lnphi : list R -> list R) (L : R),
  (forall u v, Forall2 (fun a b => (Rabs (b - a) <= L * norm1_diff v u)%R) (lnphi u) (lnphi v)) ->
  forall (Y d u v : list R) (err : R),
  length Y = length (lnphi u) -> length d = length Y ->
  positive (with_lnphi Y d (lnphi u)) -> Y <> [] -> lnphi u <> [] ->
  (tm (with_lnphi Y d (lnphi u)) < 1)%R -> (0 <= L)%R -> (norm1_diff v u <= err)%R ->
  (tpd (normalized (with_lnphi Y d (lnphi v))) <= - ln (1 - tm (with_lnphi Y d (lnphi u))) + L * err)%R.
Proof. exact ss_accept_bound. Qed.
Print Assumptions C07_ss_accept_bound.

(** converged equilibrium phases: fugacity mismatch below eps < 1e-8 keeps the coexisting phase above ZERO_TPD *)
Theorem C07_equilibrium_phase_not_accepted : forall (eps : R) (l : list comp),
  List.Forall (fun c => (0 <= cw c)%R /\ (Rabs (gent c) <= eps)%R) l -> total l = 1%R -> (eps < 1e-8)%R -> (- 1e-8 < tpd l)%R.
Proof. exact equilibrium_phase_not_accepted. Qed.
Print Assumptions C07_equilibrium_phase_not_accepted.

(** acceptance and deduplication of [stability_analysis] (newest-first list of accepted candidates) *)
Theorem C07_accept_dedup : forall (ts : list trial_res) (res : list cand),
  stab_rev [] 0 ts = Some res ->
  well_formed res
  /\ List.Forall (fun a => admissible ts (fst a) (snd a)) res
  /\ (forall k t rho, nth_error ts k = Some (TDone (Some t) rho) -> (t < zero_tpd)%Q ->
        In (k, rho) res \/ exists a, In a res /\ (fst a < k)%nat /\ is_trivial (snd a) rho = true)
  /\ ~ In TFail ts.
Proof. exact accept_dedup. Qed.
Print Assumptions C07_accept_dedup.

Theorem C07_stable_verdict_iff : forall ts : list trial_res,
  stab_rev [] 0 ts = Some [] <->
  (~ In TFail ts /\ forall k t rho, nth_error ts k = Some (TDone (Some t) rho) -> ~ (t < zero_tpd)%Q).
Proof. exact stable_verdict_iff. Qed.
Print Assumptions C07_stable_verdict_iff.

(** what `Ok((Some(tpd), i))` of [minimize_tpd] implies *)
Theorem C07_minimize_ok_implies : forall (tol : Q) (max_iter : nat) (tr : list iter_data) (t : Q) (n : nat) (ks : list bool),
  (0 < tol)%Q -> minimize_ctrl tol max_iter tr = (OConverged t n, ks) ->
  (1 <= n <= max_iter)%nat /\ length ks = n /\
  exists err stol_n, nth_error tr (n - 1) = Some (err, t, false) /\ (err < stol_n)%Q /\ (stol_n <= tol * 1000)%Q /\
    (forall j, (j < n - 1)%nat -> exists e' t', nth_error tr j = Some (e', t', false)).
Proof. exact minimize_ok_implies. Qed.
Print Assumptions C07_minimize_ok_implies.

(** gradient and Hessian of the Newton step *)
Theorem C07_tm_partial : forall (n : nat) (phi : nat -> (nat -> R) -> R) (d : nat -> R) (dphi : nat -> nat -> R) (W : nat -> R),
  (forall i j, (i <= n)%nat -> (j <= n)%nat -> is_derive (fun t => phi i (upd W j t)) (W j) (dphi i j)) ->
  (forall j, (j <= n)%nat -> sum_n (fun i => (W i * dphi i j)%R) n = 0%R) ->
  (forall i, (i <= n)%nat -> (0 < W i)%R) ->
  forall j, (j <= n)%nat -> is_derive (fun t => tmN n phi d (upd W j t)) (W j) (g phi d W j).
Proof. exact tm_partial. Qed.
Print Assumptions C07_tm_partial.

Theorem C07_newton_gradient : forall (n : nat) (phi : nat -> (nat -> R) -> R) (d : nat -> R) (dphi : nat -> nat -> R) (W : nat -> R),
  (forall i j, (i <= n)%nat -> (j <= n)%nat -> is_derive (fun t => phi i (upd W j t)) (W j) (dphi i j)) ->
  (forall j, (j <= n)%nat -> sum_n (fun i => (W i * dphi i j)%R) n = 0%R) ->
  (forall i, (i <= n)%nat -> (0 < W i)%R) ->
  forall j a, (j <= n)%nat -> (0 < a)%R -> W j = (a ^ 2 / 4)%R ->
  is_derive (fun a' => tmN n phi d (upd W j (a' ^ 2 / 4)%R)) a (sqrt (W j) * g phi d W j)%R.
Proof. exact newton_gradient. Qed.
Print Assumptions C07_newton_gradient.

Theorem C07_newton_grad_hess : forall (n : nat) (phi : nat -> (nat -> R) -> R) (d : nat -> R) (dphi : nat -> nat -> R) (W : nat -> R),
  (forall i j, (i <= n)%nat -> (j <= n)%nat -> is_derive (fun t => phi i (upd W j t)) (W j) (dphi i j)) ->
  (forall i, (i <= n)%nat -> (0 < W i)%R) ->
  forall i j a, (i <= n)%nat -> (j <= n)%nat -> (0 < a)%R -> W j = (a ^ 2 / 4)%R ->
  is_derive (fun a' => (sqrt (upd W j (a' ^ 2 / 4)%R i) * g phi d (upd W j (a' ^ 2 / 4)%R) i)%R) a (hess_true phi d dphi W i j).
Proof. exact newton_hessian. Qed.
Print Assumptions C07_newton_grad_hess.

(** the Hessian as coded has g_i on the diagonal where the second derivative has g_i / 2; equal at stationary points *)
Theorem C07_hess_code_vs_true : forall (phi : nat -> (nat -> R) -> R) (d : nat -> R) (dphi : nat -> nat -> R) (W : nat -> R) (i j : nat),
  hess_code phi d dphi W 1 i j = (hess_true phi d dphi W i j + (if Nat.eqb i j then g phi d W j / 2 else 0))%R.
Proof. exact hess_code_vs_true. Qed.
Print Assumptions C07_hess_code_vs_true.

(** start cascade of [tp_flash]: a failed attempt from a given initial state falls back to the stability-analysis start ... *)
Theorem C07_cascade_failed_guess_falls_back : forall (e : err) (st : stab_in),
  snd (cascade (GAttempt (AErr e)) st) = snd (cascade GNone st)
  /\ fst (cascade (GAttempt (AErr e)) st) = SGuess :: fst (cascade GNone st).
Proof. exact cascade_failed_guess_falls_back. Qed.
Print Assumptions C07_cascade_failed_guess_falls_back.

(** ... so an initial state can only help *)
Theorem C07_cascade_guess_only_helps : forall (a : attempt) (st : stab_in),
  is_ok (snd (cascade GNone st)) = true -> is_ok (snd (cascade (GAttempt a) st)) = true.
Proof. exact cascade_guess_only_helps. Qed.
Print Assumptions C07_cascade_guess_only_helps.

(** "a phase split rather than a no-phase-split error": NoPhaseSplit only when the stability analysis delivered no candidate *)
Theorem C07_no_phase_split_only_from_stability : forall (g : guess_in) (st : stab_in),
  attempts_not_nps g st -> snd (cascade g st) = inr no_phase_split ->
  st = StErr no_phase_split \/ g = GUpdateFailed no_phase_split.
Proof. exact no_phase_split_only_from_stability. Qed.
Print Assumptions C07_no_phase_split_only_from_stability.

Theorem C07_unstable_feed_never_no_phase_split : forall (g : guess_in) (st : stab_in),
  attempts_not_nps g st -> (forall e, st <> StErr e) -> (forall e, g <> GUpdateFailed e) ->
  snd (cascade g st) <> inr no_phase_split.
Proof. exact unstable_feed_never_no_phase_split. Qed.
Print Assumptions C07_unstable_feed_never_no_phase_split.

(** trial phases of [define_trial_state]: the nearly pure (liquid-like) trial compositions are normalised; the vapour-like trial
    is one substitution step from an ideal gas *)
Theorem C07_trial_liquid_normalized : forall (z : list R) (k : nat),
  (k < length z)%nat -> (rsum z - nth k z 0 <> 0)%R -> rsum (trial_liquid z k) = 1%R.
Proof. exact trial_liquid_normalized. Qed.
Print Assumptions C07_trial_liquid_normalized.

Theorem C07_trial_vapor_is_substitution : forall z pz : list R,
  List.Forall (fun v => (0 < v)%R) z -> length pz = length z ->
  trial_vapor_amounts z pz = ss_map (dvec z pz) (map (fun _ => 0%R) z).
Proof. exact trial_vapor_is_substitution. Qed.
Print Assumptions C07_trial_vapor_is_substitution.
