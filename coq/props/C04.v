(** C04 — pure-component phase equilibria satisfy the equilibrium conditions.
    Property theorems only: each is closed by [exact <library lemma>] and followed by [Print Assumptions].
    Models: coq/theories/PureVleC04.v (over R: the loop bodies of [iterate_pure_t] and [pure_p] of
    feos-core/src/phase_equilibria/vle_pure.rs on the numbers they read from their two states, for an ARBITRARY smooth
    residual molar Helmholtz energy [ares] with derivative [dares] at the fixed temperature; reduced units, RGAS = 1)
    and coq/theories/PureDiagramC04.v (over Q, executable: [from_states], the start cascade of [pure_t], the assembly of
    [PhaseDiagram::pure]).

    Not decided here (partial, support search on the real code): that the floating-point iteration reaches its
    acceptance test for every shipped record and temperature, that T- and p-solves are mutually inverse (local
    uniqueness of the root) and that pressure and densities are monotone along the diagram (physics of the model). *)
From Coq Require Import Reals QArith List.
From FeosVerif Require Import PureVleC04 PureDiagramC04.
Import ListNotations.

Open Scope R_scope.

(** Thermodynamic reading of the quantities: MU is the density derivative of the Helmholtz energy density rho*atot,
    P its Legendre transform, and MU = atot + P/rho (molar Gibbs energy). *)
Theorem C04_mu_is_df_drho : forall (kt : R) (ares dares : R -> R),
  (forall r, 0 < r -> derivable_pt_lim ares r (dares r)) ->
  forall r, 0 < r -> derivable_pt_lim (fun x => x * atot kt ares x) r (MU kt ares dares r).
Proof. exact MU_is_df_drho. Qed.
Print Assumptions C04_mu_is_df_drho.

Theorem C04_pressure_legendre : forall (kt : R) (ares dares : R -> R) (r : R),
  P kt dares r = r * MU kt ares dares r - r * atot kt ares r.
Proof. exact P_legendre. Qed.
Print Assumptions C04_pressure_legendre.

(** T specified.  A pass of [iterate_pure_t] that reproduces its pressure and both densities with zero inner residual
    sits at an equilibrium: both phase pressures equal the pressure estimate and the chemical potentials are equal —
    for every model [ares], every temperature, every tolerance. *)
Theorem C04_pure_t_fixed_point : forall (kt tol : R) (ares dares : R -> R) (v l : sv) (pold : R),
  consistent kt ares dares v -> consistent kt ares dares l ->
  0 < pold -> s_prho v <> 0 -> s_prho l <> 0 ->
  let pn := pt_pnew kt tol v l pold in
  pn = pold -> newton_rho v pn = s_rho v -> newton_rho l pn = s_rho l ->
  fobj kt (dv v l) (da kt v l) pold pn = 0 ->
  P kt dares (s_rho v) = pold /\ P kt dares (s_rho l) = pold /\
  MU kt ares dares (s_rho v) = MU kt ares dares (s_rho l).
Proof. exact pure_t_fixed_point. Qed.
Print Assumptions C04_pure_t_fixed_point.

(** What the two tests of an accepted pass give for the iterate they were evaluated on (constants explicit):
    with d = pold tol (1 + 1/c),
      |p_v - p_l| <= ev + el
      |mu_v - mu_l| <= pold dV tol + kt (pk - pold)^2/(pk pold) + (ev + d)/rho_v + (el + d)/rho_l . *)
Theorem C04_pure_t_accept : forall (kt tol : R) (ares dares : R -> R) (v l : sv) (pold pk ev el c : R),
  consistent kt ares dares v -> consistent kt ares dares l ->
  0 < kt -> 0 < pold -> 0 < pk -> 0 < tol -> 0 < c -> 0 < dv v l ->
  let dV := dv v l in let dA := da kt v l in
  let pn := nstep kt dV dA pold pk in
  Rabs (fobj kt dV dA pold pk) < ntol tol dV pold ->
  c * dV <= Rabs (dfobj kt dV pold pk) ->
  pt_accept tol pn pold ->
  Rabs (P kt dares (s_rho v) - pold) <= ev ->
  Rabs (P kt dares (s_rho l) - pold) <= el ->
  let d := pold * tol * (1 + / c) in
  Rabs (pk - pold) <= d /\
  Rabs (P kt dares (s_rho v) - P kt dares (s_rho l)) <= ev + el /\
  Rabs (MU kt ares dares (s_rho v) - MU kt ares dares (s_rho l))
    <= pold * dV * tol + kt * ((pk - pold) * (pk - pold) / (pk * pold)) + (ev + d) / s_rho v + (el + d) / s_rho l.
Proof. exact pure_t_accept. Qed.
Print Assumptions C04_pure_t_accept.

(** The inner loop either stopped on its residual test or used its whole budget (so the hypothesis of the previous
    theorem is exactly "the inner loop did not run out of iterations"). *)
Theorem C04_inner_cases : forall (kt tol dV dA pold : R) (n : nat) (p : R),
  (exists pk, inner kt tol dV dA pold n p = nstep kt dV dA pold pk /\ Rabs (fobj kt dV dA pold pk) < ntol tol dV pold)
  \/ inner kt tol dV dA pold n p = Nat.iter n (nstep kt dV dA pold) p.
Proof. exact inner_cases. Qed.
Print Assumptions C04_inner_cases.

(** The RETURNED states of an accepted pass (densities after the Newton steps): their linearised pressures are both the
    new pressure estimate, and their true pressures differ from it — hence from each other — by at most
    L ((pold tol + e)/|dp/drho|)^2 per phase, L a Lipschitz constant of dp/drho between old and new density. *)
Theorem C04_newton_rho_linear : forall (s : sv) (pn : R), s_prho s <> 0 ->
  s_p s + s_prho s * (newton_rho s pn - s_rho s) = pn.
Proof. exact newton_rho_linear. Qed.
Print Assumptions C04_newton_rho_linear.

Theorem C04_pure_t_returned_pressure : forall (Pf dP : R -> R) (v l : sv) (pn pold tol ev el Lv Ll : R),
  0 <= Lv -> 0 <= Ll -> 0 < pold -> 0 < tol ->
  s_p v = Pf (s_rho v) -> s_p l = Pf (s_rho l) ->
  s_prho v = dP (s_rho v) -> s_prho l = dP (s_rho l) -> s_prho v <> 0 -> s_prho l <> 0 ->
  let rv' := newton_rho v pn in let rl' := newton_rho l pn in
  (forall y, seg (s_rho v) rv' y -> derivable_pt_lim Pf y (dP y) /\ Rabs (dP y - dP (s_rho v)) <= Lv * Rabs (y - s_rho v)) ->
  (forall y, seg (s_rho l) rl' y -> derivable_pt_lim Pf y (dP y) /\ Rabs (dP y - dP (s_rho l)) <= Ll * Rabs (y - s_rho l)) ->
  pt_accept tol pn pold ->
  Rabs (s_p v - pold) <= ev -> Rabs (s_p l - pold) <= el ->
  Rabs (Pf rv' - pn) <= Lv * (((pold * tol + ev) / Rabs (s_prho v)) * ((pold * tol + ev) / Rabs (s_prho v))) /\
  Rabs (Pf rl' - pn) <= Ll * (((pold * tol + el) / Rabs (s_prho l)) * ((pold * tol + el) / Rabs (s_prho l))) /\
  Rabs (Pf rv' - Pf rl') <= Lv * (((pold * tol + ev) / Rabs (s_prho v)) * ((pold * tol + ev) / Rabs (s_prho v)))
                            + Ll * (((pold * tol + el) / Rabs (s_prho l)) * ((pold * tol + el) / Rabs (s_prho l))).
Proof. exact pure_t_returned_pressure. Qed.
Print Assumptions C04_pure_t_returned_pressure.

(** p specified.  Fixed point of a pass of [pure_p]: both phases at the specified pressure, equal chemical potentials. *)
Theorem C04_pure_p_fixed_point : forall (T pspec : R) (ares dares : R -> R) (v l : svp),
  consistent_p T ares dares v -> consistent_p T ares dares l -> q_prho v <> 0 -> q_prho l <> 0 -> pp_den v l <> 0 ->
  pp_dT T pspec v l = 0 ->
  pp_rho pspec v (pp_dT T pspec v l) = q_rho v -> pp_rho pspec l (pp_dT T pspec v l) = q_rho l ->
  P T dares (q_rho v) = pspec /\ P T dares (q_rho l) = pspec /\
  MU T ares dares (q_rho v) = MU T ares dares (q_rho l).
Proof. exact pure_p_fixed_point. Qed.
Print Assumptions C04_pure_p_fixed_point.

(** Acceptance |dT| < T_new tol: the Gibbs energies at the specified pressure differ by less than tol T_new |ds|,
    the chemical potentials by at most that plus ev/rho_v + el/rho_l. *)
Theorem C04_pure_p_accept : forall (T pspec tol : R) (ares dares : R -> R) (v l : svp) (ev el : R),
  consistent_p T ares dares v -> consistent_p T ares dares l -> pp_den v l <> 0 ->
  pp_accept T pspec tol v l ->
  Rabs (q_p v - pspec) <= ev -> Rabs (q_p l - pspec) <= el ->
  Rabs (pp_num T pspec v l) < tol * pp_tnew T pspec v l * Rabs (pp_den v l) /\
  Rabs (MU T ares dares (q_rho v) - MU T ares dares (q_rho l))
    <= tol * pp_tnew T pspec v l * Rabs (pp_den v l) + ev / q_rho v + el / q_rho l.
Proof. exact pure_p_accept. Qed.
Print Assumptions C04_pure_p_accept.

Theorem C04_pure_p_rho_linear : forall (pspec : R) (s : svp) (dT : R), q_prho s <> 0 ->
  q_p s + q_prho s * (pp_rho pspec s dT - q_rho s) + q_pt s * dT = pspec.
Proof. exact pp_rho_linear. Qed.
Print Assumptions C04_pure_p_rho_linear.

(** The hypotheses of the fixed-point theorem are satisfiable together (explicit two-phase fluid). *)
Theorem C04_fixed_point_nonvacuous : forall tol : R, 0 < tol ->
  consistent 1 ex_ares ex_dares ex_v /\ consistent 1 ex_ares ex_dares ex_l /\ 0 < ex_p /\
  s_prho ex_v <> 0 /\ s_prho ex_l <> 0 /\
  pt_pnew 1 tol ex_v ex_l ex_p = ex_p /\
  newton_rho ex_v ex_p = s_rho ex_v /\ newton_rho ex_l ex_p = s_rho ex_l /\
  fobj 1 (dv ex_v ex_l) (da 1 ex_v ex_l) ex_p ex_p = 0.
Proof. exact ex_fixed_point_hypotheses. Qed.
Print Assumptions C04_fixed_point_nonvacuous.

Open Scope Q_scope.

(** [from_states]: the vapor (first phase) is never denser than the liquid; strictly less dense unless the densities coincide. *)
Theorem C04_from_states_ordered : forall (A : Type) (rho : A -> Q) (s1 s2 : A),
  rho (fst (from_states rho s1 s2)) <= rho (snd (from_states rho s1 s2)).
Proof. exact @from_states_ordered. Qed.
Print Assumptions C04_from_states_ordered.

Theorem C04_from_states_strict : forall (A : Type) (rho : A -> Q) (s1 s2 : A), ~ rho s1 == rho s2 ->
  rho (fst (from_states rho s1 s2)) < rho (snd (from_states rho s1 s2)).
Proof. exact @from_states_strict. Qed.
Print Assumptions C04_from_states_strict.

(** The start cascade of [pure_t] returns the first successful attempt of [given; ideal gas; spinodal], and fails
    (with the error of the spinodal attempt) only when all fail. *)
Theorem C04_cascade_first_ok : forall (S E : Type) (given : option (res S E)) (ig sp : res S E),
  pure_t_cascade given ig sp = first_ok (attempts given ig sp) sp.
Proof. exact @cascade_first_ok. Qed.
Print Assumptions C04_cascade_first_ok.

Theorem C04_cascade_ok_iff : forall (S E : Type) (given : option (res S E)) (ig sp : res S E),
  is_ok (pure_t_cascade given ig sp) = true <-> exists r, In r (attempts given ig sp) /\ is_ok r = true.
Proof. exact @cascade_ok_iff. Qed.
Print Assumptions C04_cascade_ok_iff.

(** [PhaseDiagram::pure], all npoints: the critical point is the last state; at most npoints states; exactly npoints
    states with temperatures linspace ++ [T_c] when every solve succeeds; failed points are dropped without
    reordering; the temperatures are strictly increasing up to T_c. *)
Theorem C04_diagram_last : forall (A : Type) (solve : Q -> option A -> option A) (tmin tc : Q) (n : nat) (crit : A),
  last (diagram solve tmin tc n crit) crit = crit /\ exists l, diagram solve tmin tc n crit = l ++ [crit].
Proof. exact @diagram_last. Qed.
Print Assumptions C04_diagram_last.

Theorem C04_diagram_length_le : forall (A : Type) (solve : Q -> option A -> option A) (tmin tc : Q) (n : nat) (crit : A),
  (2 <= n)%nat -> (length (diagram solve tmin tc n crit) <= n)%nat.
Proof. exact @diagram_length_le. Qed.
Print Assumptions C04_diagram_length_le.

Theorem C04_diagram_all : forall (A : Type) (solve : Q -> option A -> option A) (temp : A -> Q) (tmin tc : Q) (n : nat) (crit : A),
  (2 <= n)%nat -> (forall t p, exists x, solve t p = Some x /\ temp x = t) ->
  length (diagram solve tmin tc n crit) = n /\
  map temp (diagram solve tmin tc n crit) = diagram_temps tmin tc n ++ [temp crit].
Proof. exact @diagram_all. Qed.
Print Assumptions C04_diagram_all.

Theorem C04_diagram_subseq : forall (A : Type) (solve : Q -> option A -> option A) (temp : A -> Q) (prev : option A) (ts : list Q),
  (forall t p x, solve t p = Some x -> temp x = t) -> subseq (map temp (solve_loop solve prev ts)) ts.
Proof. exact @solve_loop_subseq. Qed.
Print Assumptions C04_diagram_subseq.

Theorem C04_diagram_temps_strict : forall (tmin tc : Q) (n i j : nat), tmin < tc -> (3 <= n)%nat -> (i < j)%nat -> (j < n)%nat ->
  nth i (diagram_temps tmin tc n ++ [tc]) 0 < nth j (diagram_temps tmin tc n ++ [tc]) 0.
Proof. exact diagram_temps_strict. Qed.
Print Assumptions C04_diagram_temps_strict.

(** [PhaseDiagram::pure] fails exactly when the critical point — computed with the DEFAULT solver options — fails; neither
    that nor the closing state depends on the VLE solver or its options. *)
Theorem C04_diagram_res_ok_iff : forall (A : Type) (solve : Q -> option A -> option A) (tmin : Q) (n : nat) (temp : A -> Q) (crit : option A),
  diagram_res solve tmin n temp crit <> None <-> crit <> None.
Proof. exact @diagram_res_ok_iff. Qed.
Print Assumptions C04_diagram_res_ok_iff.

Theorem C04_diagram_res_last_indep : forall (A : Type) (solve1 solve2 : Q -> option A -> option A) (tmin : Q) (n : nat) (temp : A -> Q) (c : A) (l1 l2 : list A),
  diagram_res solve1 tmin n temp (Some c) = Some l1 -> diagram_res solve2 tmin n temp (Some c) = Some l2 ->
  last l1 c = c /\ last l2 c = c.
Proof. exact @diagram_res_last_indep. Qed.
Print Assumptions C04_diagram_res_last_indep.

(** The per-component helpers (vapor_pressure, boiling_temperature, vle_pure_comps): one entry per component, entry i is the
    pure solver's result on the sub-model of component i. *)
Theorem C04_per_component_nth : forall (M R : Type) (subset : nat -> M) (solve : M -> option R) (n i : nat), (i < n)%nat ->
  length (per_component subset solve n) = n /\ nth i (per_component subset solve n) None = solve (subset i).
Proof. exact @per_component_spec. Qed.
Print Assumptions C04_per_component_nth.
