(** C16 — a uniform fluid is an exact solution of the discretised DFT in every geometry.
    Property theorems only: each is closed by [exact <library lemma>] and followed by [Print Assumptions].
    Models: theories/AxisC16.v (axes, grids, volume, integration), theories/UniformELC16.v (Euler-Lagrange
    map at a uniform profile), theories/AxisEvalC16.v (evaluation forms used by the per-run correspondence
    goals in coq/gen/C16).  [H_conv] (convolution of constants) is a hypothesis: numerical, labelled partial. *)
From Coq Require Import Reals List ZArith.
From FeosVerif Require Import AxisC16 AxisEvalC16 UniformELC16.
Import ListNotations.
Open Scope R_scope.

(** ** Part 1 — the reported system volume is the integral of one with the grid's own weights *)

(** sums of the integration weights, for every number of grid points and every length *)
Theorem C16_weights_cartesian_sum : forall n len off, (1 <= n)%nat ->
  axis_weight_sum (new_cartesian n len off) = len + off.
Proof. exact weights_cartesian_sum. Qed.
Print Assumptions C16_weights_cartesian_sum.

Theorem C16_weights_spherical_sum : forall n l, (1 <= n)%nat ->
  axis_weight_sum (new_spherical n l) = 4 * PI / 3 * l ^ 3.
Proof. exact weights_spherical_sum. Qed.
Print Assumptions C16_weights_spherical_sum.

(** logarithmic polar grid: for every alpha and every k0 (so independently of the fixed-point iteration) *)
Theorem C16_weights_polar_sum_any_alpha : forall n l a k0, (2 <= n)%nat ->
  rsum (polar_weight n l a k0) n = PI * l ^ 2.
Proof. exact weights_polar_sum_gen. Qed.
Print Assumptions C16_weights_polar_sum_any_alpha.

Theorem C16_weights_polar_sum : forall n l, (2 <= n)%nat ->
  axis_weight_sum (new_polar n l) = PI * l ^ 2.
Proof. exact weights_polar_sum. Qed.
Print Assumptions C16_weights_polar_sum.

(** [Axis::volume] = sum of the weights, per geometry (Cartesian: up to the potential offset, which
    [volume] excludes by design and which is 0 on every axis without walls) *)
Theorem C16_volume_eq_sum_weights_cartesian : forall n len off, (1 <= n)%nat ->
  axis_weight_sum (new_cartesian n len off) = axis_volume (new_cartesian n len off) + off.
Proof. exact volume_eq_sum_weights_cartesian. Qed.
Print Assumptions C16_volume_eq_sum_weights_cartesian.

Theorem C16_volume_eq_sum_weights_spherical : forall n l, (1 <= n)%nat ->
  axis_volume (new_spherical n l) = axis_weight_sum (new_spherical n l).
Proof. exact volume_eq_sum_weights_spherical. Qed.
Print Assumptions C16_volume_eq_sum_weights_spherical.

(** for the repaired prefactor (feos-dft/src/geometry.rs: [Geometry::Cylindrical => PI]) *)
Theorem C16_volume_eq_sum_weights_polar : forall n l, (2 <= n)%nat ->
  axis_volume (new_polar n l) = axis_weight_sum (new_polar n l).
Proof. exact volume_eq_sum_weights_polar. Qed.
Print Assumptions C16_volume_eq_sum_weights_polar.

(** the prefactor [4.0 * PI] of the unrepaired code is refuted (the finding; repaired by a fix: commit) *)
Theorem C16_volume_polar_old_refuted :
  exists n l, (2 <= n)%nat /\ 0 < l /\ axis_volume_old (new_polar n l) <> axis_weight_sum (new_polar n l).
Proof. exact volume_polar_old_refuted. Qed.
Print Assumptions C16_volume_polar_old_refuted.

(** every grid type (Cartesian 1-3D, periodical 2-3D, spherical, polar, cylindrical) assembled from the
    library's axis constructors: [DFTProfile::volume] = [DFTProfile::integrate] of the constant one *)
Theorem C16_volume_is_integral_of_one : forall g, constructed_grid g ->
  grid_volume g = integrate g (fun _ => 1).
Proof. exact constructed_grid_volume. Qed.
Print Assumptions C16_volume_is_integral_of_one.

Theorem C16_integral_of_constant : forall g c,
  integrate g (fun _ => c) = c * (functional_determinant g * weight_product (axes g)).
Proof. exact integrate_const. Qed.
Print Assumptions C16_integral_of_constant.

(** grid points lie strictly inside their cells (edges/grid consistency) *)
Theorem C16_grid_in_cell_cartesian : forall n len off k, (1 <= n)%nat -> (k < n)%nat -> 0 < len + off ->
  ax_edges (new_cartesian n len off) k < ax_grid (new_cartesian n len off) k < ax_edges (new_cartesian n len off) (S k).
Proof. exact cartesian_grid_in_cell. Qed.
Print Assumptions C16_grid_in_cell_cartesian.

Theorem C16_grid_in_cell_spherical : forall n l k, (1 <= n)%nat -> (k < n)%nat -> 0 < l ->
  ax_edges (new_spherical n l) k < ax_grid (new_spherical n l) k < ax_edges (new_spherical n l) (S k).
Proof. exact spherical_grid_in_cell. Qed.
Print Assumptions C16_grid_in_cell_spherical.

Theorem C16_grid_in_cell_polar : forall n l a k, (k < n)%nat -> 0 < l -> 0 < a ->
  ax_edges (new_polar_with n l a) k < ax_grid (new_polar_with n l a) k < ax_edges (new_polar_with n l a) (S k).
Proof. exact polar_grid_in_cell. Qed.
Print Assumptions C16_grid_in_cell_polar.

(** ** Part 2 — the uniform profile under [H_conv] *)

(** projected density = bulk density *)
Theorem C16_uniform_projected_density :
  forall (rho_b m : nat -> R) (WD : field -> nat -> idx -> R) (dphi : (nat -> R) -> nat -> R)
    (BACK : (nat -> idx -> R) -> field) (BOND : field -> field) (Vext : field) (wd_b : nat -> R)
    (back_b : (nat -> R) -> nat -> R),
  (forall (f f' : nat -> R) (a : nat), (forall a' : nat, f a' = f' a') -> dphi f a = dphi f' a) ->
  (* H_conv *)
  (forall (a : nat) (i : idx), WD (uniform rho_b) a i = wd_b a) ->
  (forall pd pd' : nat -> idx -> R,
     (forall (a : nat) (i : idx), pd a i = pd' a i) -> forall (s : nat) (i : idx), BACK pd s i = BACK pd' s i) ->
  (forall (s : nat) (i : idx), BACK (fun (a : nat) (_ : idx) => dphi wd_b a) s i = back_b (dphi wd_b) s) ->
  (forall e : field, (forall (s : nat) (i : idx), e s i = 1) -> forall (s : nat) (i : idx), BOND e s i = 1) ->
  (* no external potential *)
  (forall (s : nat) (i : idx), Vext s i = 0) ->
  (forall s : nat, m s <> 0) ->
  forall (s : nat) (i : idx),
  rho_projected rho_b m WD dphi BACK BOND Vext wd_b back_b (uniform rho_b) s i = rho_b s.
Proof. exact uniform_projected. Qed.
Print Assumptions C16_uniform_projected_density.

(** zero Euler-Lagrange residual (both the plain and the logarithmic variant) and zero residual norm *)
Theorem C16_uniform_residual_zero :
  forall (rho_b m : nat -> R) (WD : field -> nat -> idx -> R) (dphi : (nat -> R) -> nat -> R)
    (BACK : (nat -> idx -> R) -> field) (BOND : field -> field) (Vext : field) (wd_b : nat -> R)
    (back_b : (nat -> R) -> nat -> R),
  (forall (f f' : nat -> R) (a : nat), (forall a' : nat, f a' = f' a') -> dphi f a = dphi f' a) ->
  (forall (a : nat) (i : idx), WD (uniform rho_b) a i = wd_b a) ->
  (forall pd pd' : nat -> idx -> R,
     (forall (a : nat) (i : idx), pd a i = pd' a i) -> forall (s : nat) (i : idx), BACK pd s i = BACK pd' s i) ->
  (forall (s : nat) (i : idx), BACK (fun (a : nat) (_ : idx) => dphi wd_b a) s i = back_b (dphi wd_b) s) ->
  (forall e : field, (forall (s : nat) (i : idx), e s i = 1) -> forall (s : nat) (i : idx), BOND e s i = 1) ->
  (forall (s : nat) (i : idx), Vext s i = 0) ->
  (forall s : nat, m s <> 0) ->
  forall (s : nat) (i : idx), residual rho_b m WD dphi BACK BOND Vext wd_b back_b (uniform rho_b) s i = 0.
Proof. exact uniform_residual. Qed.
Print Assumptions C16_uniform_residual_zero.

Theorem C16_uniform_residual_log_zero :
  forall (rho_b m : nat -> R) (WD : field -> nat -> idx -> R) (dphi : (nat -> R) -> nat -> R)
    (BACK : (nat -> idx -> R) -> field) (BOND : field -> field) (Vext : field) (wd_b : nat -> R)
    (back_b : (nat -> R) -> nat -> R),
  (forall (f f' : nat -> R) (a : nat), (forall a' : nat, f a' = f' a') -> dphi f a = dphi f' a) ->
  (forall (a : nat) (i : idx), WD (uniform rho_b) a i = wd_b a) ->
  (forall pd pd' : nat -> idx -> R,
     (forall (a : nat) (i : idx), pd a i = pd' a i) -> forall (s : nat) (i : idx), BACK pd s i = BACK pd' s i) ->
  (forall (s : nat) (i : idx), BACK (fun (a : nat) (_ : idx) => dphi wd_b a) s i = back_b (dphi wd_b) s) ->
  (forall e : field, (forall (s : nat) (i : idx), e s i = 1) -> forall (s : nat) (i : idx), BOND e s i = 1) ->
  (forall (s : nat) (i : idx), Vext s i = 0) ->
  (forall s : nat, m s <> 0) ->
  forall (s : nat) (i : idx), residual_log rho_b m WD dphi BACK BOND Vext wd_b back_b (uniform rho_b) s i = 0.
Proof. exact uniform_residual_log. Qed.
Print Assumptions C16_uniform_residual_log_zero.

(** residual norm, for every specification whose bulk-density residual vanishes (the three cases below) *)
Theorem C16_uniform_residual_norm_zero :
  forall (g : grid) (S : nat) (rho_b m : nat -> R) (WD : field -> nat -> idx -> R)
    (dphi : (nat -> R) -> nat -> R) (BACK : (nat -> idx -> R) -> field) (BOND : field -> field)
    (Vext : field) (wd_b : nat -> R) (back_b : (nat -> R) -> nat -> R),
  (forall (f f' : nat -> R) (a : nat), (forall a' : nat, f a' = f' a') -> dphi f a = dphi f' a) ->
  (forall (a : nat) (i : idx), WD (uniform rho_b) a i = wd_b a) ->
  (forall pd pd' : nat -> idx -> R,
     (forall (a : nat) (i : idx), pd a i = pd' a i) -> forall (s : nat) (i : idx), BACK pd s i = BACK pd' s i) ->
  (forall (s : nat) (i : idx), BACK (fun (a : nat) (_ : idx) => dphi wd_b a) s i = back_b (dphi wd_b) s) ->
  (forall e : field, (forall (s : nat) (i : idx), e s i = 1) -> forall (s : nat) (i : idx), BOND e s i = 1) ->
  (forall (s : nat) (i : idx), Vext s i = 0) ->
  (forall s : nat, m s <> 0) ->
  forall spec : specification,
  (forall s : nat, (s < S)%nat ->
     res_bulk g S rho_b m WD dphi BACK BOND Vext wd_b back_b spec (uniform rho_b) s = 0) ->
  res_norm g S rho_b m WD dphi BACK BOND Vext wd_b back_b spec (uniform rho_b) = 0.
Proof. exact uniform_res_norm. Qed.
Print Assumptions C16_uniform_residual_norm_zero.

Theorem C16_uniform_residual_norm_zero_chemical_potential :
  forall (g : grid) (S : nat) (rho_b m : nat -> R) (WD : field -> nat -> idx -> R)
    (dphi : (nat -> R) -> nat -> R) (BACK : (nat -> idx -> R) -> field) (BOND : field -> field)
    (Vext : field) (wd_b : nat -> R) (back_b : (nat -> R) -> nat -> R),
  (forall (f f' : nat -> R) (a : nat), (forall a' : nat, f a' = f' a') -> dphi f a = dphi f' a) ->
  (forall (a : nat) (i : idx), WD (uniform rho_b) a i = wd_b a) ->
  (forall pd pd' : nat -> idx -> R,
     (forall (a : nat) (i : idx), pd a i = pd' a i) -> forall (s : nat) (i : idx), BACK pd s i = BACK pd' s i) ->
  (forall (s : nat) (i : idx), BACK (fun (a : nat) (_ : idx) => dphi wd_b a) s i = back_b (dphi wd_b) s) ->
  (forall e : field, (forall (s : nat) (i : idx), e s i = 1) -> forall (s : nat) (i : idx), BOND e s i = 1) ->
  (forall (s : nat) (i : idx), Vext s i = 0) ->
  (forall s : nat, m s <> 0) ->
  res_norm g S rho_b m WD dphi BACK BOND Vext wd_b back_b ChemicalPotential (uniform rho_b) = 0.
Proof. exact uniform_res_norm_chempot. Qed.
Print Assumptions C16_uniform_residual_norm_zero_chemical_potential.

(** the normalisation integrals [z] of the particle-number specifications ([integrate_reduced] of the
    Boltzmann factor, with the weights of every axis AND the functional determinant) are the integral of one *)
Theorem C16_uniform_normalisation_integral :
  forall (g : grid) (rho_b m : nat -> R) (WD : field -> nat -> idx -> R)
    (dphi : (nat -> R) -> nat -> R) (BACK : (nat -> idx -> R) -> field) (BOND : field -> field)
    (Vext : field) (wd_b : nat -> R) (back_b : (nat -> R) -> nat -> R),
  (forall (f f' : nat -> R) (a : nat), (forall a' : nat, f a' = f' a') -> dphi f a = dphi f' a) ->
  (forall (a : nat) (i : idx), WD (uniform rho_b) a i = wd_b a) ->
  (forall pd pd' : nat -> idx -> R,
     (forall (a : nat) (i : idx), pd a i = pd' a i) -> forall (s : nat) (i : idx), BACK pd s i = BACK pd' s i) ->
  (forall (s : nat) (i : idx), BACK (fun (a : nat) (_ : idx) => dphi wd_b a) s i = back_b (dphi wd_b) s) ->
  (forall e : field, (forall (s : nat) (i : idx), e s i = 1) -> forall (s : nat) (i : idx), BOND e s i = 1) ->
  (forall (s : nat) (i : idx), Vext s i = 0) ->
  (forall s : nat, m s <> 0) ->
  forall s : nat,
  z_norm g m WD dphi BACK BOND Vext wd_b back_b (uniform rho_b) s = integrate g (fun _ => 1).
Proof. exact uniform_z_norm. Qed.
Print Assumptions C16_uniform_normalisation_integral.

(** specified particle numbers N_s = rho_s * V ([DFTSpecifications::Moles]) resp. N = rho * V ([TotalMoles]):
    the bulk-density residual of the uniform profile is rho_s (V - W) / W, i.e. the uniform fluid stays a
    solution exactly when the specified amount is rho times the integral of one (= rho * volume(), Part 1) *)
Theorem C16_uniform_res_bulk_moles :
  forall (g : grid) (S : nat) (rho_b m : nat -> R) (WD : field -> nat -> idx -> R)
    (dphi : (nat -> R) -> nat -> R) (BACK : (nat -> idx -> R) -> field) (BOND : field -> field)
    (Vext : field) (wd_b : nat -> R) (back_b : (nat -> R) -> nat -> R),
  (forall (f f' : nat -> R) (a : nat), (forall a' : nat, f a' = f' a') -> dphi f a = dphi f' a) ->
  (forall (a : nat) (i : idx), WD (uniform rho_b) a i = wd_b a) ->
  (forall pd pd' : nat -> idx -> R,
     (forall (a : nat) (i : idx), pd a i = pd' a i) -> forall (s : nat) (i : idx), BACK pd s i = BACK pd' s i) ->
  (forall (s : nat) (i : idx), BACK (fun (a : nat) (_ : idx) => dphi wd_b a) s i = back_b (dphi wd_b) s) ->
  (forall e : field, (forall (s : nat) (i : idx), e s i = 1) -> forall (s : nat) (i : idx), BOND e s i = 1) ->
  (forall (s : nat) (i : idx), Vext s i = 0) ->
  (forall s : nat, m s <> 0) ->
  forall (V : R) (s : nat),
  integrate g (fun _ => 1) <> 0 ->
  res_bulk g S rho_b m WD dphi BACK BOND Vext wd_b back_b (Moles (fun s' : nat => rho_b s' * V)) (uniform rho_b) s =
  rho_b s * (V - integrate g (fun _ => 1)) / integrate g (fun _ => 1).
Proof. exact uniform_res_bulk_moles_eq. Qed.
Print Assumptions C16_uniform_res_bulk_moles.

Theorem C16_uniform_res_bulk_total_moles :
  forall (g : grid) (S : nat) (rho_b m : nat -> R) (WD : field -> nat -> idx -> R)
    (dphi : (nat -> R) -> nat -> R) (BACK : (nat -> idx -> R) -> field) (BOND : field -> field)
    (Vext : field) (wd_b : nat -> R) (back_b : (nat -> R) -> nat -> R),
  (forall (f f' : nat -> R) (a : nat), (forall a' : nat, f a' = f' a') -> dphi f a = dphi f' a) ->
  (forall (a : nat) (i : idx), WD (uniform rho_b) a i = wd_b a) ->
  (forall pd pd' : nat -> idx -> R,
     (forall (a : nat) (i : idx), pd a i = pd' a i) -> forall (s : nat) (i : idx), BACK pd s i = BACK pd' s i) ->
  (forall (s : nat) (i : idx), BACK (fun (a : nat) (_ : idx) => dphi wd_b a) s i = back_b (dphi wd_b) s) ->
  (forall e : field, (forall (s : nat) (i : idx), e s i = 1) -> forall (s : nat) (i : idx), BOND e s i = 1) ->
  (forall (s : nat) (i : idx), Vext s i = 0) ->
  (forall s : nat, m s <> 0) ->
  forall (V : R) (s : nat),
  integrate g (fun _ => 1) <> 0 ->
  rsum rho_b S <> 0 ->
  res_bulk g S rho_b m WD dphi BACK BOND Vext wd_b back_b (TotalMoles (rsum rho_b S * V)) (uniform rho_b) s =
  rho_b s * (V - integrate g (fun _ => 1)) / integrate g (fun _ => 1).
Proof. exact uniform_res_bulk_total_moles_eq. Qed.
Print Assumptions C16_uniform_res_bulk_total_moles.

(** grand potential density = -p.  The Euler relation of the bulk model is the hypothesis named after C02;
    homosegmented functionals (spherical / chain-length parameter m, ideal chain term) ... *)
Theorem C16_uniform_grand_potential_density :
  forall (S : nat) (rho_b m : nat -> R) (nbonds : nat -> nat) (T : R) (WD : field -> nat -> idx -> R)
    (phi : (nat -> R) -> R) (dphi : (nat -> R) -> nat -> R) (BACK : (nat -> idx -> R) -> field)
    (wd_b : nat -> R) (back_b : (nat -> R) -> nat -> R),
  (forall f f' : nat -> R, (forall a : nat, f a = f' a) -> phi f = phi f') ->
  (forall (f f' : nat -> R) (a : nat), (forall a' : nat, f a' = f' a') -> dphi f a = dphi f' a) ->
  (forall (a : nat) (i : idx), WD (uniform rho_b) a i = wd_b a) ->
  (forall pd pd' : nat -> idx -> R,
     (forall (a : nat) (i : idx), pd a i = pd' a i) -> forall (s : nat) (i : idx), BACK pd s i = BACK pd' s i) ->
  (forall (s : nat) (i : idx), BACK (fun (a : nat) (_ : idx) => dphi wd_b a) s i = back_b (dphi wd_b) s) ->
  (forall s : nat, nbonds s = 0%nat) ->
  forall p : R,
  (* H_euler_C02 *)
  p = T * (rsum rho_b S + rsum (fun s : nat => rho_b s * mu_res rho_b m dphi wd_b back_b s) S
           - f_res S rho_b m phi wd_b) ->
  forall i : idx, omega S m nbonds T WD phi dphi BACK (uniform rho_b) i = - p.
Proof. exact uniform_omega_is_minus_p. Qed.
Print Assumptions C16_uniform_grand_potential_density.

(** ... and heterosegmented ones (gc-PC-SAFT: m = 1, molecules are trees of bonded segments) *)
Theorem C16_uniform_grand_potential_density_hetero :
  forall (S : nat) (rho_b m : nat -> R) (nbonds : nat -> nat) (T : R) (WD : field -> nat -> idx -> R)
    (phi : (nat -> R) -> R) (dphi : (nat -> R) -> nat -> R) (BACK : (nat -> idx -> R) -> field)
    (wd_b : nat -> R) (back_b : (nat -> R) -> nat -> R),
  (forall f f' : nat -> R, (forall a : nat, f a = f' a) -> phi f = phi f') ->
  (forall (f f' : nat -> R) (a : nat), (forall a' : nat, f a' = f' a') -> dphi f a = dphi f' a) ->
  (forall (a : nat) (i : idx), WD (uniform rho_b) a i = wd_b a) ->
  (forall pd pd' : nat -> idx -> R,
     (forall (a : nat) (i : idx), pd a i = pd' a i) -> forall (s : nat) (i : idx), BACK pd s i = BACK pd' s i) ->
  (forall (s : nat) (i : idx), BACK (fun (a : nat) (_ : idx) => dphi wd_b a) s i = back_b (dphi wd_b) s) ->
  (forall s : nat, m s = 1) ->
  forall p rho_mol : R,
  rsum (fun s : nat => rho_b s * (1 - / 2 * INR (nbonds s))) S = rho_mol ->
  p = T * (rho_mol + rsum (fun s : nat => rho_b s * dfdrho_bulk dphi wd_b back_b s) S - phi_bulk phi wd_b) ->
  forall i : idx, omega S m nbonds T WD phi dphi BACK (uniform rho_b) i = - p.
Proof. exact uniform_omega_is_minus_p_hetero. Qed.
Print Assumptions C16_uniform_grand_potential_density_hetero.

(** adsorbed amount of every component = rho_i * integral of one, for ANY segment -> component map
    ([component_index]; [integrate_segments] gives component c the integral of its last segment), and the
    total adsorbed amount *)
Theorem C16_uniform_moles_per_component :
  forall (g : grid) (S : nat) (rho_b : nat -> R) (C : nat) (comp : nat -> nat) (rho_c : nat -> R),
  (forall s : nat, (s < S)%nat -> rho_b s = rho_c (comp s)) ->
  (forall c : nat, (c < C)%nat -> exists s : nat, (s < S)%nat /\ comp s = c) ->
  forall c : nat, (c < C)%nat -> moles g S comp (uniform rho_b) c = rho_c c * W g.
Proof. exact uniform_moles. Qed.
Print Assumptions C16_uniform_moles_per_component.

Theorem C16_uniform_total_moles :
  forall (g : grid) (S : nat) (rho_b : nat -> R) (C : nat) (comp : nat -> nat) (rho_c : nat -> R),
  (forall s : nat, (s < S)%nat -> rho_b s = rho_c (comp s)) ->
  (forall c : nat, (c < C)%nat -> exists s : nat, (s < S)%nat /\ comp s = c) ->
  total_moles g S C comp (uniform rho_b) = rsum rho_c C * W g.
Proof. exact uniform_total_moles. Qed.
Print Assumptions C16_uniform_total_moles.

(** the aggregation loop of [integrate_segments]: a component receives the value shared by its segments *)
Theorem C16_aggregate_spec : forall (comp : nat -> nat) (vals : nat -> R) (S c : nat) (v : R),
  (exists s : nat, (s < S)%nat /\ comp s = c) ->
  (forall s : nat, (s < S)%nat -> comp s = c -> vals s = v) -> aggregate comp vals S c = v.
Proof. exact aggregate_spec. Qed.
Print Assumptions C16_aggregate_spec.

(** Omega = -p * integral of one *)
Theorem C16_uniform_grand_potential :
  forall (g : grid) (S : nat) (rho_b m : nat -> R) (nbonds : nat -> nat) (T : R) (WD : field -> nat -> idx -> R)
    (phi : (nat -> R) -> R) (dphi : (nat -> R) -> nat -> R) (BACK : (nat -> idx -> R) -> field)
    (wd_b : nat -> R) (back_b : (nat -> R) -> nat -> R),
  (forall f f' : nat -> R, (forall a : nat, f a = f' a) -> phi f = phi f') ->
  (forall (f f' : nat -> R) (a : nat), (forall a' : nat, f a' = f' a') -> dphi f a = dphi f' a) ->
  (forall (a : nat) (i : idx), WD (uniform rho_b) a i = wd_b a) ->
  (forall pd pd' : nat -> idx -> R,
     (forall (a : nat) (i : idx), pd a i = pd' a i) -> forall (s : nat) (i : idx), BACK pd s i = BACK pd' s i) ->
  (forall (s : nat) (i : idx), BACK (fun (a : nat) (_ : idx) => dphi wd_b a) s i = back_b (dphi wd_b) s) ->
  forall p : R,
  omega_bulk S rho_b m nbonds T phi dphi wd_b back_b = - p ->
  grand_potential g S m nbonds T WD phi dphi BACK (uniform rho_b) = - p * W g.
Proof. exact uniform_grand_potential_pV. Qed.
Print Assumptions C16_uniform_grand_potential.

(** the excess grand potential (interfacial tension, solvation free energy) Omega + p V vanishes iff
    the reported volume V is the integral of one; same for the excess adsorption N - rho V *)
Theorem C16_excess_grand_potential_zero_iff :
  forall (g : grid) (S : nat) (rho_b m : nat -> R) (nbonds : nat -> nat) (T : R) (WD : field -> nat -> idx -> R)
    (phi : (nat -> R) -> R) (dphi : (nat -> R) -> nat -> R) (BACK : (nat -> idx -> R) -> field)
    (wd_b : nat -> R) (back_b : (nat -> R) -> nat -> R),
  (forall f f' : nat -> R, (forall a : nat, f a = f' a) -> phi f = phi f') ->
  (forall (f f' : nat -> R) (a : nat), (forall a' : nat, f a' = f' a') -> dphi f a = dphi f' a) ->
  (forall (a : nat) (i : idx), WD (uniform rho_b) a i = wd_b a) ->
  (forall pd pd' : nat -> idx -> R,
     (forall (a : nat) (i : idx), pd a i = pd' a i) -> forall (s : nat) (i : idx), BACK pd s i = BACK pd' s i) ->
  (forall (s : nat) (i : idx), BACK (fun (a : nat) (_ : idx) => dphi wd_b a) s i = back_b (dphi wd_b) s) ->
  forall p : R,
  omega_bulk S rho_b m nbonds T phi dphi wd_b back_b = - p ->
  forall V : R, p <> 0 ->
  excess_grand_potential g S rho_b m nbonds T WD phi dphi BACK p V = 0 <-> V = W g.
Proof. exact excess_grand_potential_zero_iff. Qed.
Print Assumptions C16_excess_grand_potential_zero_iff.

Theorem C16_excess_moles_zero_iff :
  forall (g : grid) (S : nat) (rho_b : nat -> R) (C : nat) (comp : nat -> nat) (rho_c : nat -> R),
  (forall s : nat, (s < S)%nat -> rho_b s = rho_c (comp s)) ->
  (forall c : nat, (c < C)%nat -> exists s : nat, (s < S)%nat /\ comp s = c) ->
  forall V : R, rho_total C rho_c <> 0 -> excess_moles g S rho_b C comp rho_c V = 0 <-> V = W g.
Proof. exact excess_moles_zero_iff. Qed.
Print Assumptions C16_excess_moles_zero_iff.

(** with the volume the (repaired) library reports, on every constructed grid, all excess quantities vanish *)
Theorem C16_uniform_excess_zero :
  forall (g : grid) (S : nat) (rho_b m : nat -> R) (nbonds : nat -> nat) (T : R) (C : nat)
    (comp : nat -> nat) (rho_c : nat -> R),
  (forall s : nat, (s < S)%nat -> rho_b s = rho_c (comp s)) ->
  (forall c : nat, (c < C)%nat -> exists s : nat, (s < S)%nat /\ comp s = c) ->
  forall (WD : field -> nat -> idx -> R) (phi : (nat -> R) -> R) (dphi : (nat -> R) -> nat -> R)
    (BACK : (nat -> idx -> R) -> field) (wd_b : nat -> R) (back_b : (nat -> R) -> nat -> R),
  (forall f f' : nat -> R, (forall a : nat, f a = f' a) -> phi f = phi f') ->
  (forall (f f' : nat -> R) (a : nat), (forall a' : nat, f a' = f' a') -> dphi f a = dphi f' a) ->
  (forall (a : nat) (i : idx), WD (uniform rho_b) a i = wd_b a) ->
  (forall pd pd' : nat -> idx -> R,
     (forall (a : nat) (i : idx), pd a i = pd' a i) -> forall (s : nat) (i : idx), BACK pd s i = BACK pd' s i) ->
  (forall (s : nat) (i : idx), BACK (fun (a : nat) (_ : idx) => dphi wd_b a) s i = back_b (dphi wd_b) s) ->
  forall p : R,
  omega_bulk S rho_b m nbonds T phi dphi wd_b back_b = - p ->
  constructed_grid g ->
  excess_grand_potential g S rho_b m nbonds T WD phi dphi BACK p (grid_volume g) = 0 /\
  excess_moles g S rho_b C comp rho_c (grid_volume g) = 0.
Proof. exact uniform_excess_zero. Qed.
Print Assumptions C16_uniform_excess_zero.

(** the offset of the unrepaired code for a cylindrical pore: Omega + p V_old = 3 p (pi l^2) *)
Theorem C16_polar_old_excess_3pV : forall n l p Omega, (2 <= n)%nat ->
  let g := PolarG (new_polar n l) in
  Omega = - p * integrate g (fun _ => 1) ->
  Omega + p * grid_volume_old g = 3 * p * (PI * l ^ 2).
Proof. exact polar_old_excess_3pV. Qed.
Print Assumptions C16_polar_old_excess_3pV.

(** ** Part 3 — the evaluation forms used by the regenerated correspondence goals are the model *)
Theorem C16_eval_forms_are_the_model :
  (forall n len off k, ax_grid (new_cartesian n len off) k = cart_grid_Z (Z.of_nat n) len off (Z.of_nat k)) /\
  (forall n len off k, ax_edges (new_cartesian n len off) k = cart_edge_Z (Z.of_nat n) len off (Z.of_nat k)) /\
  (forall n len off k, ax_weights (new_cartesian n len off) k = cart_weight_Z (Z.of_nat n) len off) /\
  (forall n len off, axis_volume (new_cartesian n len off) = cart_volume_Z (Z.of_nat n) len off) /\
  (forall n l k, ax_grid (new_spherical n l) k = sph_grid_Z (Z.of_nat n) l (Z.of_nat k)) /\
  (forall n l k, ax_edges (new_spherical n l) k = sph_edge_Z (Z.of_nat n) l (Z.of_nat k)) /\
  (forall n l k, ax_weights (new_spherical n l) k = sph_weight_Z (Z.of_nat n) l (Z.of_nat k)) /\
  (forall n l, axis_volume (new_spherical n l) = sph_volume_Z (Z.of_nat n) l) /\
  (forall n, (1 <= n)%nat -> polar_alpha n = polar_alpha_Z (Z.of_nat n)) /\
  (forall n l a k, (1 <= n)%nat -> ax_grid (new_polar_with n l a) k = polar_grid_Z (Z.of_nat n) l a (Z.of_nat k)) /\
  (forall n l a, ax_edges (new_polar_with n l a) 0 = 0) /\
  (forall n l a k, (1 <= k)%nat -> (k <= n)%nat ->
     ax_edges (new_polar_with n l a) k = polar_edge_Z (Z.of_nat n) l a (Z.of_nat k)) /\
  (forall n l a, ax_weights (new_polar_with n l a) 0 = polar_w0_Z (Z.of_nat n) l a) /\
  (forall n l a, ax_weights (new_polar_with n l a) 1 = polar_w1_Z (Z.of_nat n) l a) /\
  (forall n l a k, (2 <= k)%nat -> ax_weights (new_polar_with n l a) k = polar_wk_Z (Z.of_nat n) l a (Z.of_nat k)) /\
  (forall n l a, (1 <= n)%nat -> axis_volume (new_polar_with n l a) = polar_volume_Z (Z.of_nat n) l a).
Proof. exact eval_forms_are_the_model. Qed.
Print Assumptions C16_eval_forms_are_the_model.
