(** C03 — a constructed state reproduces its specification, or construction fails.
    Property theorems only: each is closed by [exact <library lemma>] and followed by [Print Assumptions].
    Models: theories/StateNewC03.v (State::new / new_full / StateBuilder), theories/DensityIterC03.v
    (density_iteration, new_npt root selection, newton wrapper).  The models are tied to /repo on every run by the
    correspondence check of checks/c03.py (all presence patterns x value classes; branch traces on a mock oracle). *)
From Coq Require Import QArith Qabs List Bool ZArith.
From FeosVerif Require Import StateNewC03 DensityIterC03.
Import ListNotations.
Open Scope Q_scope.

(** new_echo: whenever the non-iterative (NVT) path returns a state, (T,V,N) satisfies every given input exactly in
    field arithmetic: T, V literally; sum N = n; N_i = given N_i; sum N = rho V; N_i = rho_i V;
    N_i / sum N = x_i / sum x (mole fractions are normalised); reference amount when nothing extensive is given;
    and T, V, N_i are finite and not sign-negative, with one amount per component. *)
Theorem C03_new_echo : forall comps i T V N, (1 <= comps)%nat -> new_full comps i = Nvt T V N ->
  (forall t, iT i = Some t -> T = t) /\
  (forall v, iV i = Some v -> V = v) /\
  (valid T = true /\ valid V = true /\ forallb valid N = true /\ length N = comps) /\
  (forall n, iN i = Some n -> qsum (map fq N) == fq n) /\
  (forall m, iM i = Some m -> Forall2 (fun Ni mi => fq Ni == fq mi) N m) /\
  (forall d, iRho i = Some d -> is_finite d = true -> qsum (map fq N) == fq d * fq V) /\
  (forall pd, iPd i = Some pd -> Forall2 (fun Ni ri => fq Ni == fq ri * fq V) N pd) /\
  (forall x, iX i = Some x -> Forall2 (fun Ni xi => fq Ni * fq (vsum x) == fq xi * qsum (map fq N)) N x /\ ~ fq (vsum x) == 0) /\
  (iV i = None -> iN i = None -> iM i = None -> qsum (map fq N) == n_ref).
Proof. exact new_echo. Qed.
Print Assumptions C03_new_echo.

(** the same for [State::new] (residual-only models): it returns exactly the NVT states of [new_full] *)
Theorem C03_new_res_echo : forall comps i T V N, new_res comps i = Nvt T V N -> new_full comps i = Nvt T V N.
Proof. exact new_res_is_new_full_on_nvt. Qed.
Print Assumptions C03_new_res_echo.

(** new_decides: for each of the 2^11 presence patterns and 1, 2, 3 components, the outcome class (state on which
    path / which error) on well-formed values is the documented hierarchy [spec_class]. *)
Theorem C03_new_decides : forall comps p, (comps = 1 \/ comps = 2 \/ comps = 3)%nat ->
  class_of (new_full comps (inst comps p)) = spec_class (comps =? 1)%nat comps p.
Proof. exact new_decides. Qed.
Print Assumptions C03_new_decides.

Theorem C03_new_res_decides : forall comps p, (comps = 1 \/ comps = 2)%nat ->
  class_of (new_res comps (inst comps p)) =
  match spec_class (comps =? 1)%nat comps p with CNph | CNps | CNth | CNts | CNvu => CErr EMissingInput | c => c end.
Proof. exact new_res_decides. Qed.
Print Assumptions C03_new_res_decides.

(** over-determined input sets (two sources for density, amount or composition) are an error for all values *)
Theorem C03_overdetermined_rejected : forall comps i,
  (oand (iRho i) (iPd i) = true \/ oand (iM i) (iN i) = true \/
   (oand (rho_of i) (n0_of i) && is_some (iV i) = true) \/ oand (iPd i) (iM i) = true \/
   (is_some (x_of i) && is_some (iX i) = true)) ->
  exists e, new_full comps i = Err e /\ new_res comps i = Err e /\
            (e = EBothDensity \/ e = EBothMoles \/ e = EDensityOver \/ e = ECompOver).
Proof. exact overdetermined_rejected. Qed.
Print Assumptions C03_overdetermined_rejected.

(** under-determined: neither T nor p (and not both V and u) is an error for all values *)
Theorem C03_underdetermined_rejected : forall comps i, iT i = None -> iP i = None -> (iU i = None \/ iV i = None) ->
  exists e, new_full comps i = Err e.
Proof. exact underdetermined_rejected. Qed.
Print Assumptions C03_underdetermined_rejected.

(** reject_bad: a given T or V that is NaN, +-inf, negative or -0.0 never yields a state on the NVT path ... *)
Theorem C03_reject_bad_TV : forall comps i,
  (forall t, iT i = Some t -> valid t = false -> forall T V N, new_full comps i <> Nvt T V N) /\
  (forall v, iV i = Some v -> valid v = false -> forall T V N, new_full comps i <> Nvt T V N).
Proof. exact reject_bad_TV. Qed.
Print Assumptions C03_reject_bad_TV.

(** ... nor do given mole numbers containing a non-finite or negative entry ... *)
Theorem C03_reject_bad_moles : forall comps i m, (1 <= comps)%nat -> iM i = Some m ->
  (exists mi, In mi m /\ (is_finite mi = false \/ fq mi < 0)) -> forall T V N, new_full comps i <> Nvt T V N.
Proof. exact reject_bad_moles. Qed.
Print Assumptions C03_reject_bad_moles.

(** ... and (by enumeration of all patterns) one NaN / +inf / -inf / -0.0 / negative value in T, V, n or N_1 of any
    well-formed input set is rejected; a vector of the wrong length reaching new_nvt is IncompatibleComponents. *)
Theorem C03_reject_bad_enum : forall comps p b, (comps = 1 \/ comps = 2)%nat -> In b bad_values ->
  (pT p = true -> not_nvt (new_full comps (set_T (inst comps p) b)) = true) /\
  (pV p = true -> not_nvt (new_full comps (set_V (inst comps p) b)) = true) /\
  (pN p = true -> not_nvt (new_full comps (set_N (inst comps p) b)) = true) /\
  (pM p = true -> not_nvt (new_full comps (set_M0 (inst comps p) b)) = true).
Proof. exact reject_bad_enum. Qed.
Print Assumptions C03_reject_bad_enum.

Theorem C03_reject_length : forall comps t v n, length n <> comps -> new_nvt comps t v n = Err (EIncompat comps (length n)).
Proof. exact reject_length. Qed.
Print Assumptions C03_reject_length.

(** density_iteration_post: Ok rho ==> the last Newton step was taken where dp/drho is not negative and passed
    |p - p_target| < max(abstol, rho reltol) — for every oracle, target, initial density and rounding. *)
Theorem C03_density_iteration_post : forall oracle maxd ptarget rnd rho0 r tr,
  density_iteration oracle maxd ptarget rnd true rho0 = (DOk r, tr) -> passed_test oracle ptarget r.
Proof. exact density_iteration_post. Qed.
Print Assumptions C03_density_iteration_post.

(** the code before the repair (fall-through to Ok after maxiter iterations) violates that statement: witness *)
Theorem C03_density_iteration_prefix_refuted :
  exists oracle maxd ptarget rho0 r, fst (density_iteration oracle maxd ptarget (fun q => q) false rho0) = DOk r /\
    (forall rho p dp d2p, oracle rho = (p, dp, d2p) -> 1 <= Qabs (p - ptarget)) /\ ~ passed_test oracle ptarget r.
Proof. exact density_iteration_prefix_refuted. Qed.
Print Assumptions C03_density_iteration_prefix_refuted.

(** npt_stable_root: no hint, both roots found ==> the returned root has the lower residual Gibbs energy;
    with a hint the iteration starts from the documented density; every returned root passed the stopping test *)
Theorem C03_npt_stable_root : forall di gibbs maxd p T l v, di maxd = DOk l -> di (p / T) = DOk v -> p < maxd * T ->
  exists r, new_npt di gibbs maxd p T HNone = DOk r /\ (r = l \/ r = v) /\ gibbs r <= gibbs l /\ gibbs r <= gibbs v.
Proof. exact npt_stable_root. Qed.
Print Assumptions C03_npt_stable_root.

Theorem C03_npt_hint_start : forall di gibbs maxd p T,
  new_npt di gibbs maxd p T HVapor = di (p / T) /\ new_npt di gibbs maxd p T HLiquid = di maxd /\
  forall r, new_npt di gibbs maxd p T (HInit r) = di r.
Proof. exact npt_hint_start. Qed.
Print Assumptions C03_npt_hint_start.

Theorem C03_npt_post : forall oracle maxd ptarget rnd gibbs T h r,
  new_npt (fun r0 => fst (density_iteration oracle maxd ptarget rnd true r0)) gibbs maxd ptarget T h = DOk r ->
  passed_test oracle ptarget r.
Proof. exact npt_post. Qed.
Print Assumptions C03_npt_post.

(** newton_post: the wrapper of (p,h), (p,s), (T,h), (T,s), (V,u) returns Ok st only for a state st built at a point x
    whose Newton step passed |dx| <= atol + rtol |x|, hence |f(x)| <= |f'(x)| (atol + rtol |x|) *)
Theorem C03_newton_post : forall St f atol fuel x0 st, newton St f atol fuel x0 = Some st ->
  exists x fx dfx, f x = Some (fx, dfx, st) /\ Qabs (fx / dfx) <= atol + rtol * Qabs x /\
    (~ dfx == 0 -> Qabs fx <= Qabs dfx * (atol + rtol * Qabs x)).
Proof. exact newton_post. Qed.
Print Assumptions C03_newton_post.

(** the wrapper as it is run against the implementation (explicit rounding of the iterate, recorded evaluation points): Ok st only
    for a state built at a point whose Newton step passed the test; without such a point — e.g. 50 non-converged iterations —
    the result is an error, never the state of the last iterate; with the identity rounding it is [newton]. *)
Theorem C03_newton_r_post : forall St f atol rnd fuel x0 tr st,
  fst (newton_r St f atol rnd fuel x0 tr) = Some st -> exists x, step_accepted St f atol rnd x st.
Proof. exact newton_r_post. Qed.
Print Assumptions C03_newton_r_post.

Theorem C03_newton_never_ok_without_accepted_step : forall St f atol rnd fuel x0 tr,
  (forall x st, ~ step_accepted St f atol rnd x st) -> fst (newton_r St f atol rnd fuel x0 tr) = None.
Proof. exact newton_r_never_ok_without_accepted_step. Qed.
Print Assumptions C03_newton_never_ok_without_accepted_step.

Theorem C03_newton_r_is_newton : forall St f atol fuel x0 tr,
  fst (newton_r St f atol (fun q => q) fuel x0 tr) = newton St f atol fuel x0.
Proof. exact newton_r_id. Qed.
Print Assumptions C03_newton_r_is_newton.
