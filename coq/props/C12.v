(** C12 — converged equilibria do not depend on the initial guess or on the continuation order.
    Property theorems only; models and proofs are in theories/ContinuationC12.v.

    The numerical content of the property is the hypothesis "any two ACCEPTED results at the same point are
    equal" ([H_unique] on a point solver, [H_unique_att] on the attempts it is built from).  It is not decided by
    proof (notes/C12.md: partial, support search).  Everything else — cascades, continuation bookkeeping, grids,
    assembly, for all point lists / failure patterns / directions — is proved. *)
From Coq Require Import List Arith Bool QArith Permutation.
Import ListNotations.
From FeosVerif Require Import ContinuationC12.
Local Close Scope Q_scope.

(** * start cascades *)

(** H_cascade is a theorem about pure_t: a failing guess falls back to the guess-free start *)
Theorem C12_pure_t_cascade : forall (P G R : Type) (att_g : P -> G -> attempt R) (att_0 : P -> stage -> attempt R) p g,
  pure_t att_g att_0 p (Some g) = match att_g p g with AOk r => Some r | _ => pure_t att_g att_0 p None end.
Proof. exact pure_t_cascade. Qed.
Print Assumptions C12_pure_t_cascade.

Theorem C12_pure_t_H_cascade : forall (P G R : Type) (att_g : P -> G -> attempt R) (att_0 : P -> stage -> attempt R) p g,
  pure_t att_g att_0 p (Some g) = None -> pure_t att_g att_0 p None = None.
Proof. exact pure_t_H_cascade. Qed.
Print Assumptions C12_pure_t_H_cascade.

(** with uniqueness of accepted results, pure_t with ANY guess returns the stand-alone result wherever the
    stand-alone calculation converges *)
Theorem C12_pure_t_guess_independent : forall (P G R : Type) (att_g : P -> G -> attempt R) (att_0 : P -> stage -> attempt R),
  H_unique_att att_g att_0 ->
  forall p g r0, pure_t att_g att_0 p None = Some r0 -> pure_t att_g att_0 p (Some g) = Some r0.
Proof. exact pure_t_guess_independent. Qed.
Print Assumptions C12_pure_t_guess_independent.

(** acceptance is a property of the attempt, not of the cascade: every solver inherits uniqueness *)
Theorem C12_solvers_unique : forall (P G R : Type) (att_g : P -> G -> attempt R) (att_0 : P -> stage -> attempt R),
  H_unique_att att_g att_0 ->
  (forall p g1 g2 r1 r2, pure_t att_g att_0 p g1 = Some r1 -> pure_t att_g att_0 p g2 = Some r2 -> r1 = r2) /\
  (forall p g1 g2 r1 r2, tp_flash att_g att_0 p g1 = Some r1 -> tp_flash att_g att_0 p g2 = Some r2 -> r1 = r2) /\
  (forall p g1 g2 r1 r2, bd_t att_g att_0 p g1 = Some r1 -> bd_t att_g att_0 p g2 = Some r2 -> r1 = r2).
Proof.
  exact (fun P G R att_g att_0 HU =>
           conj (pure_t_unique HU) (conj (tp_flash_unique HU) (bd_t_unique HU))).
Qed.
Print Assumptions C12_solvers_unique.

(** tp_flash: the cascade holds when update_pressure of the guess succeeds ... *)
Theorem C12_tp_flash_cascade_if_prepared : forall (P G R : Type) (att_g : P -> G -> attempt R) (att_0 : P -> stage -> attempt R) p g,
  att_g p g <> AInitFail ->
  tp_flash att_g att_0 p (Some g) = match att_g p g with AOk r => Some r | _ => tp_flash att_g att_0 p None end.
Proof. exact tp_flash_cascade_if_prepared. Qed.
Print Assumptions C12_tp_flash_cascade_if_prepared.

(** ... and fails as stated in full: the faithful model refutes it when update_pressure fails *)
Theorem C12_tp_flash_cascade_refuted :
  exists (att_g : nat -> nat -> attempt nat) (att_0 : nat -> stage -> attempt nat) p g r,
    tp_flash att_g att_0 p (Some g) = None /\ tp_flash att_g att_0 p None = Some r.
Proof. exact tp_flash_cascade_refuted. Qed.
Print Assumptions C12_tp_flash_cascade_refuted.

(** bubble/dew point: a given pressure (temperature) is used alone — no fallback, by construction of the API *)
Theorem C12_bd_given_no_fallback : forall (P G R : Type) (att_g : P -> G -> attempt R) (att_0 : P -> stage -> attempt R) p g,
  bd_t att_g att_0 p (Some g) = match att_g p g with AOk r => Some r | _ => None end.
Proof. exact bd_t_given. Qed.
Print Assumptions C12_bd_given_no_fallback.

Theorem C12_bd_cascade_refuted :
  exists (att_g : nat -> nat -> attempt nat) (att_0 : nat -> stage -> attempt nat) p g r,
    bd_t att_g att_0 p (Some g) = None /\ bd_t att_g att_0 p None = Some r.
Proof. exact bd_t_cascade_refuted. Qed.
Print Assumptions C12_bd_cascade_refuted.

(** * continuation loops: for every point list, failure pattern, reset value *)

(** every state of a diagram equals the stand-alone result at its point (needs uniqueness only) *)
Theorem C12_diagram_sound : forall (P G R : Type) (solve : P -> option G -> option R) (ng : R -> G) (reset : option G),
  H_unique solve ->
  forall ps p r, In (p, r) (presults (run solve ng reset ps)) -> forall r0, solve p None = Some r0 -> r = r0.
Proof. exact diagram_sound. Qed.
Print Assumptions C12_diagram_sound.

(** every point whose stand-alone calculation converges is in the diagram (needs the cascade only) *)
Theorem C12_diagram_complete : forall (P G R : Type) (solve : P -> option G -> option R) (ng : R -> G) (reset : option G),
  H_cascade solve ->
  forall ps p r0, In p ps -> solve p None = Some r0 -> exists r, In (p, r) (presults (run solve ng reset ps)).
Proof. exact diagram_complete. Qed.
Print Assumptions C12_diagram_complete.

(** the diagram IS the list of stand-alone results, for every number of points and every failure pattern *)
Theorem C12_diagram_eq_standalone : forall (P G R : Type) (solve : P -> option G -> option R) (ng : R -> G) (reset : option G),
  H_unique solve -> H_cascade solve -> forall ps, H_standalone solve ps ->
  diagram solve ng reset ps = fmap_opt (fun p => solve p None) ps.
Proof. exact diagram_eq_standalone. Qed.
Print Assumptions C12_diagram_eq_standalone.

(** direction of traversal *)
Theorem C12_diagram_rev : forall (P G R : Type) (solve : P -> option G -> option R) (ng : R -> G) (reset : option G),
  H_unique solve -> H_cascade solve -> forall ps, H_standalone solve ps ->
  diagram solve ng reset (rev ps) = rev (diagram solve ng reset ps).
Proof. exact diagram_rev. Qed.
Print Assumptions C12_diagram_rev.

(** number of points: a point that lies on two grids has the same result in both diagrams, and is present in both
    when its stand-alone calculation converges *)
Theorem C12_diagram_npoints : forall (P G R : Type) (solve : P -> option G -> option R) (ng : R -> G) (reset : option G),
  H_unique solve ->
  forall ps1 ps2 p r1 r2,
    In (p, r1) (presults (run solve ng reset ps1)) -> In (p, r2) (presults (run solve ng reset ps2)) -> r1 = r2.
Proof. exact diagram_npoints_sound. Qed.
Print Assumptions C12_diagram_npoints.

Theorem C12_diagram_npoints_present : forall (P G R : Type) (solve : P -> option G -> option R) (ng : R -> G) (reset : option G),
  H_cascade solve ->
  forall ps1 ps2 p r0, In p ps1 -> In p ps2 -> solve p None = Some r0 ->
    (exists r1, In (p, r1) (presults (run solve ng reset ps1))) /\ (exists r2, In (p, r2) (presults (run solve ng reset ps2))).
Proof. exact diagram_npoints_present. Qed.
Print Assumptions C12_diagram_npoints_present.

(** failures at earlier points: the part of a diagram after any prefix is the diagram of the remaining points *)
Theorem C12_diagram_earlier_points_irrelevant : forall (P G R : Type) (solve : P -> option G -> option R) (ng : R -> G) (reset : option G),
  H_unique solve -> H_cascade solve -> forall a b, H_standalone solve (a ++ b) ->
  diagram solve ng reset (a ++ b) = diagram solve ng reset a ++ diagram solve ng reset b.
Proof. exact diagram_app. Qed.
Print Assumptions C12_diagram_earlier_points_irrelevant.

(** the bookkeeping itself: a guess is the reset (initial) value or is built from the CONVERGED result of the
    point named by its origin — never from a failed point *)
Theorem C12_guess_origin : forall (P G R : Type) (solve : P -> option G -> option R) (ng : R -> G) (reset : option G) ps e,
  In e (run solve ng reset ps) ->
  match e_origin e with
  | None => e_guess e = reset
  | Some j => exists ej r, nth_error (run solve ng reset ps) j = Some ej /\ e_res ej = Some r /\ e_guess e = Some (ng r)
  end.
Proof. exact run_guess_origin. Qed.
Print Assumptions C12_guess_origin.

(** the origins are a function of the failure pattern alone: the previous point if it converged, else reset *)
Theorem C12_run_shape : forall (P G R : Type) (solve : P -> option G -> option R) (ng : R -> G) (reset : option G) ps,
  shape (run solve ng reset ps) = exp_shape 0 None (map snd (shape (run solve ng reset ps))).
Proof. exact run_shape. Qed.
Print Assumptions C12_run_shape.

(** the loop is in the class checked on the recorded runs of the implementation, and the class means what it says *)
Theorem C12_run_in_class : forall (P G R : Type) (solve : P -> option G -> option R) (ng : R -> G) (reset : option G) ps,
  class_okb 0 0 (shape (run solve ng reset ps)) = true.
Proof. exact run_in_class. Qed.
Print Assumptions C12_run_in_class.

Theorem C12_class_ok_spec : forall sh, class_okb 0 0 sh = true ->
  forall k j ok, nth_error sh k = Some (Some j, ok) ->
  j < k /\ forall i, j <= i < k -> exists o, nth_error sh i = Some (o, true).
Proof. exact class_ok_spec. Qed.
Print Assumptions C12_class_ok_spec.

(** * the feos drivers (instances; the cascade of pure_t is proved, not assumed) *)

Theorem C12_pure_diagram_sound : forall (P G R : Type) (att_g : P -> G -> attempt R) (att_0 : P -> stage -> attempt R) (ng : R -> G),
  H_unique_att att_g att_0 ->
  forall ps p r, In (p, r) (presults (run (pure_t att_g att_0) ng None ps)) ->
  forall r0, pure_t att_g att_0 p None = Some r0 -> r = r0.
Proof. exact pure_diagram_sound. Qed.
Print Assumptions C12_pure_diagram_sound.

Theorem C12_pure_diagram_complete : forall (P G R : Type) (att_g : P -> G -> attempt R) (att_0 : P -> stage -> attempt R) (ng : R -> G),
  forall ps p r0, In p ps -> pure_t att_g att_0 p None = Some r0 ->
  exists r, In (p, r) (presults (run (pure_t att_g att_0) ng None ps)).
Proof. exact pure_diagram_complete. Qed.
Print Assumptions C12_pure_diagram_complete.

Theorem C12_pure_diagram_eq_standalone : forall (P G R : Type) (att_g : P -> G -> attempt R) (att_0 : P -> stage -> attempt R) (ng : R -> G),
  H_unique_att att_g att_0 ->
  forall ps crit, H_standalone (pure_t att_g att_0) ps ->
  pure_diagram att_g att_0 ng ps crit = fmap_opt (fun p => pure_t att_g att_0 p None) ps ++ [crit].
Proof. exact pure_diagram_eq_standalone. Qed.
Print Assumptions C12_pure_diagram_eq_standalone.

Theorem C12_lle_diagram_sound : forall (P G R : Type) (att_g : P -> G -> attempt R) (att_0 : P -> stage -> attempt R) (ng : R -> G),
  H_unique_att att_g att_0 ->
  forall ps p r, In (p, r) (presults (run (tp_flash att_g att_0) ng None ps)) ->
  forall r0, tp_flash att_g att_0 p None = Some r0 -> r = r0.
Proof. exact lle_diagram_sound. Qed.
Print Assumptions C12_lle_diagram_sound.

(** partial: completeness of the flash continuation needs that update_pressure of a supplied state never fails *)
Theorem C12_lle_diagram_complete_partial : forall (P G R : Type) (att_g : P -> G -> attempt R) (att_0 : P -> stage -> attempt R) (ng : R -> G),
  (forall p g, att_g p g <> AInitFail) ->
  forall ps p r0, In p ps -> tp_flash att_g att_0 p None = Some r0 ->
  exists r, In (p, r) (presults (run (tp_flash att_g att_0) ng None ps)).
Proof. exact lle_diagram_complete. Qed.
Print Assumptions C12_lle_diagram_complete_partial.

(** iterate_vle (reset = Some (tp_0, None)) and bubble_point_line / dew_point_line (reset = None) *)
Theorem C12_line_sound : forall (P G R : Type) (att_g : P -> G -> attempt R) (att_0 : P -> stage -> attempt R) (ng : R -> G),
  H_unique_att att_g att_0 ->
  forall reset ps p r, In (p, r) (presults (run (bd_t att_g att_0) ng reset ps)) ->
  forall r0, bd_t att_g att_0 p None = Some r0 -> r = r0.
Proof. exact line_sound. Qed.
Print Assumptions C12_line_sound.

(** * dew_point_line, pressure stage: the faithful model of the original loop panics after a failed point (finding,
      repaired by a fix: commit); the repaired loop returns the same states whenever the original did not panic *)
Theorem C12_dew_line_pressure_stage_refuted :
  exists (solve_given : nat -> nat -> option nat),
    p_stage (fun r => r) solve_given (Some 0) [1; 2; 3] = None /\ p_stage (fun r => r) solve_given (Some 0) [1; 2] = Some [1].
Proof. exact p_stage_refuted. Qed.
Print Assumptions C12_dew_line_pressure_stage_refuted.

Theorem C12_dew_line_pressure_stage_fixed : forall (P G R : Type) (ng : R -> G) (solve_given : P -> G -> option R) ps g l,
  p_stage ng solve_given (Some g) ps = Some l -> fmap_opt (fun e => snd e) (p_stage_fixed ng solve_given g ps) = l.
Proof. exact p_stage_fixed_agrees. Qed.
Print Assumptions C12_dew_line_pressure_stage_fixed.

Theorem C12_dew_line_pressure_stage_prefix : forall (P G R : Type) (ng : R -> G) (solve_given : P -> G -> option R) ps g l e,
  p_stage_fixed ng solve_given g ps = l ++ [e] -> Forall (fun x => snd x <> None) l.
Proof. exact p_stage_fixed_prefix. Qed.
Print Assumptions C12_dew_line_pressure_stage_prefix.

(** * grids and assembly *)

(** the temperatures of PhaseDiagram::pure with n points are the first n-1 points of the uniform n-grid on [T_min, T_c] *)
Theorem C12_pure_grid_point : forall tmin tc n i, (3 <= n)%nat ->
  (lin tmin (tmin + (tc - tmin) * (inject_Z (Z.of_nat (n - 2)) / inject_Z (Z.of_nat (n - 1)))) (n - 1) i == lin tmin tc n i)%Q.
Proof. exact pure_grid_point. Qed.
Print Assumptions C12_pure_grid_point.

(** a grid with k(n-1)+1 points contains the grid with n points: these are the shared points the check compares *)
Theorem C12_grid_refine : forall a b n k i, (2 <= n)%nat -> (1 <= k)%nat ->
  (lin a b (k * (n - 1) + 1) (k * i) == lin a b n i)%Q.
Proof. exact lin_refine. Qed.
Print Assumptions C12_grid_refine.

(** reversing a branch when a binary diagram is assembled loses nothing *)
Theorem C12_binary_assembly : forall (R : Type) (v0 v1 : R) (i s1 s2 : list R) (b : bool),
  Permutation (binary_vle_states b v0 v1 i) (v0 :: i ++ [v1]) /\
  binary_vle_states false v0 v1 i = v1 :: rev i ++ [v0] /\
  length (binary_vle_states b v0 v1 i) = 2 + length i /\
  Permutation (vlle_states s1 s2) (s1 ++ s2).
Proof.
  exact (fun R v0 v1 i s1 s2 b =>
           conj (binary_vle_perm b v0 v1 i) (conj (binary_vle_rev v0 v1 i) (conj (binary_vle_length b v0 v1 i) (vlle_perm s1 s2)))).
Qed.
Print Assumptions C12_binary_assembly.

(** * the acceptance test is part of the attempt — on the guessed path as on the guess-free one *)

(** every result of pure_t / tp_flash / bubble-dew built from filtered attempts passed the acceptance test
    (caller's tolerance, non-trivial, ...), with or without a guess *)
Theorem C12_accepted_only : forall (P G R : Type) (accept : P -> R -> bool)
    (raw_g : P -> G -> attempt R) (raw_0 : P -> stage -> attempt R) p g r,
  (pure_t (fatt_g accept raw_g) (fatt_0 accept raw_0) p g = Some r -> accept p r = true) /\
  (tp_flash (fatt_g accept raw_g) (fatt_0 accept raw_0) p g = Some r -> accept p r = true) /\
  (bd_t (fatt_g accept raw_g) (fatt_0 accept raw_0) p g = Some r -> accept p r = true).
Proof. exact accepted_only. Qed.
Print Assumptions C12_accepted_only.

(** State::critical_point: supplied initial temperature (no fallback) or trial temperatures; every result accepted *)
Theorem C12_critical_point_accepted : forall (P G R : Type) (accept : P -> R -> bool)
    (raw_g : P -> G -> attempt R) (raw_0 : P -> stage -> attempt R) p g r,
  crit accept raw_g raw_0 p g = Some r -> accept p r = true.
Proof. exact crit_accepted. Qed.
Print Assumptions C12_critical_point_accepted.

Theorem C12_critical_point_unique : forall (P G R : Type) (accept : P -> R -> bool)
    (raw_g : P -> G -> attempt R) (raw_0 : P -> stage -> attempt R),
  H_unique_att (fatt_g accept raw_g) (fatt_0 accept raw_0) ->
  forall p g1 g2 r1 r2, crit accept raw_g raw_0 p g1 = Some r1 -> crit accept raw_g raw_0 p g2 = Some r2 -> r1 = r2.
Proof. exact crit_unique. Qed.
Print Assumptions C12_critical_point_unique.

Theorem C12_critical_point_trials : forall (P G R : Type) (accept : P -> R -> bool)
    (raw_g : P -> G -> attempt R) (raw_0 : P -> stage -> attempt R) p,
  crit accept raw_g raw_0 p None =
    match fatt_0 accept raw_0 p SIdeal with
    | AOk r => Some r
    | _ => match fatt_0 accept raw_0 p SSpin with
           | AOk r => Some r
           | _ => match fatt_0 accept raw_0 p SStab1 with AOk r => Some r | _ => None end
           end
    end.
Proof. exact crit_none. Qed.
Print Assumptions C12_critical_point_trials.

(** a filter applied by the retry loop only is not enough: the guessed path bypasses it (witness) *)
Theorem C12_filter_outside_attempt_refuted :
  exists (accept : nat -> nat -> bool) (raw_g : nat -> nat -> attempt nat) p t r,
    snd (cascade [(SGiven, true, raw_g p t)]) = Some r /\ accept p r = false
    /\ crit accept raw_g (fun _ _ => AIterFail) p (Some t) = None.
Proof. exact filter_outside_attempt_refuted. Qed.
Print Assumptions C12_filter_outside_attempt_refuted.

(** * the specification survives the guess: every state of a diagram passed the acceptance test AT ITS OWN point
      (temperature, pressure, feed / specified composition), not at the point its guess came from *)
Theorem C12_diagram_accepted : forall (P G R : Type) (accept : P -> R -> bool)
    (solve : P -> option G -> option R) (ng : R -> G) (reset : option G),
  (forall p g r, solve p g = Some r -> accept p r = true) ->
  forall ps p r, In (p, r) (presults (run solve ng reset ps)) -> accept p r = true.
Proof. exact diagram_accepted. Qed.
Print Assumptions C12_diagram_accepted.

Theorem C12_flash_continuation_accepted : forall (P G R : Type) (accept : P -> R -> bool)
    (raw_g : P -> G -> attempt R) (raw_0 : P -> stage -> attempt R) (ng : R -> G) ps p r,
  In (p, r) (presults (run (tp_flash (fatt_g accept raw_g) (fatt_0 accept raw_0)) ng None ps)) -> accept p r = true.
Proof. exact lle_diagram_accepted. Qed.
Print Assumptions C12_flash_continuation_accepted.

(** with the test inside the attempt, a guessed branch that stays at the guess's point is rejected and the
    stability-based start supplies the result at the requested point (witness) *)
Theorem C12_guess_point_leak_refuted :
  exists (accept : nat -> nat -> bool) (raw_g : nat -> nat -> attempt nat) (raw_0 : nat -> stage -> attempt nat) p g,
    raw_g p g = AOk g /\ accept p g = false /\
    tp_flash (fatt_g accept raw_g) (fatt_0 accept raw_0) p (Some g) = Some p.
Proof. exact guess_point_leak_refuted. Qed.
Print Assumptions C12_guess_point_leak_refuted.
