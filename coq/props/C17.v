(** C17 — the functional derivative is the derivative of the discretised functional.
    Property theorems only. *)
From Coq Require Import Reals List ZArith.
From Interval Require Import Real.Xreal Real.Xreal_derive Eval.Prog Eval.Tree Eval.Eval.
From FeosVerif Require Import ProgSem AD.

(** Part 1.  [P] is the program of one contribution's Helmholtz energy density phi(T, n_alpha) at a grid point,
    regenerated from /repo on every run by tracing the real generic [helmholtz_energy_density]; the derivative
    program [tan_outs P n ks] evaluated on (point ++ direction) is the derivative of phi along that line —
    for every program, point, direction; instantiated with unit directions it is the partial derivative
    d phi / d n_alpha ([first_partial_derivatives]), applied to the derivative program itself it is
    d2 phi / d n_alpha d n_beta ([second_partial_derivatives]). *)
Theorem C17_partial_derivative : forall P n ks (a e : list R) (r : R),
  length a = n -> length e = n -> wscoped P n = true ->
  (forall k, In k ks -> k < length P + n) ->
  forall j, j < length ks ->
    Xderive_pt (fun t => nth (nth j ks 0) (eval_ext P (map (fun f : XF => f t) (lineF a e))) Xnan) (Xreal r)
               (nth (length ks - 1 - j) (eval_ext (tan_outs P n ks) (map Xreal (line_pt a e r ++ e))) Xnan).
Proof. exact tan_line. Qed.
Print Assumptions C17_partial_derivative.

(** Part 2.  The assembled functional derivative is the gradient of the discretised functional
    F rho = sum_k w_k sum_c phi_c((W_c rho)(., k))  (model of [HelmholtzEnergyFunctional::functional_derivative], see
    theories/FuncDerivC17.v) — for every grid size G, number of density degrees of freedom J, number of contributions C,
    numbers of weighted densities A c, all weights, all linear W, all B, all line-differentiable phi, all profiles rho:
    whenever the weighted-density convolution and the back-convolution are adjoint against the perturbation delta with
    respect to the integration weights.  ([is_derive] = Coquelicot's Fréchet derivative on R.) *)
From Coquelicot Require Import Coquelicot.
From FeosVerif Require Import FuncDerivC17 BondGraphC17.
Local Open Scope R_scope.

Theorem C17_gradient_of_discretised_functional :
  forall (G J C : nat) (A : nat -> nat) (w wj : nat -> R) (W : nat -> (nat -> R) -> nat -> nat -> R)
         (B : nat -> (nat -> nat -> R) -> nat -> R) (phi : nat -> (nat -> R) -> R) (dphi : nat -> (nat -> R) -> nat -> R),
    (forall c rho delta t a k, W c (fun j => rho j + t * delta j) a k = W c rho a k + t * W c delta a k) ->
    (forall c n n', (forall a, (a < A c)%nat -> n a = n' a) -> phi c n = phi c n') ->
    (forall c n m, (c < C)%nat ->
       is_derive (fun t => phi c (fun a => n a + t * m a)) 0 (sumn (A c) (fun a => dphi c n a * m a))) ->
    forall rho delta : nat -> R,
      adjoint_on G J C A w wj W B delta ->
      is_derive (fun t => F G C w W phi (fun j => rho j + t * delta j)) 0
                (sumn J (fun j => wj j * delta j * grad C W B dphi rho j)).
Proof. exact gradient_along. Qed.
Print Assumptions C17_gradient_of_discretised_functional.

(** [adjoint_on] spelled out (so that the statement above can be read without the library):
    sum_k w_k sum_a ps(a,k) (W_c delta)(a,k) = sum_j wj_j delta_j (B_c ps)_j  for every contribution and profile ps *)
Theorem C17_adjoint_on_unfold : forall G J C A w wj W B delta,
  adjoint_on G J C A w wj W B delta <->
  (forall c (ps : nat -> nat -> R), (c < C)%nat ->
     sumn G (fun k => w k * sumn (A c) (fun a => ps a k * W c delta a k)) = sumn J (fun j => wj j * delta j * B c ps j)).
Proof. exact adjoint_on_unfold. Qed.
Print Assumptions C17_adjoint_on_unfold.

(** The operator of the Newton solver / implicit derivatives, B (d2phi/dn dn (W delta))
    ([second_partial_derivatives] + [delta_functional_derivative]), is the derivative of the functional derivative
    along the perturbation — no adjointness needed. *)
Theorem C17_second_variation :
  forall (G C : nat) (A : nat -> nat) (W : nat -> (nat -> R) -> nat -> nat -> R)
         (B : nat -> (nat -> nat -> R) -> nat -> R) (dphi : nat -> (nat -> R) -> nat -> R),
    (forall c rho delta t a k, W c (fun j => rho j + t * delta j) a k = W c rho a k + t * W c delta a k) ->
    forall (d2phi : nat -> (nat -> R) -> nat -> nat -> R) (Bm : nat -> nat -> nat -> nat -> R),
    (forall c ps j, B c ps j = sumn (A c) (fun a => sumn G (fun k => Bm c j a k * ps a k))) ->
    (forall c n n' a, (forall b, (b < A c)%nat -> n b = n' b) -> dphi c n a = dphi c n' a) ->
    (forall c n m a, (c < C)%nat -> (a < A c)%nat ->
       is_derive (fun t => dphi c (fun b => n b + t * m b) a) 0 (sumn (A c) (fun b => d2phi c n a b * m b))) ->
    forall (rho delta : nat -> R) (j : nat),
      is_derive (fun t => grad C W B dphi (fun i => rho i + t * delta i) j) 0 (delta_grad C A W B d2phi rho delta j).
Proof. exact second_variation. Qed.
Print Assumptions C17_second_variation.

(** Adjointness follows from the entry-wise identity  w_k W[(a,k),j] = wj_j B[j,(a,k)]  on the support of the
    perturbation (what the harness checks entry by entry on the real Cartesian convolvers). *)
Theorem C17_adjoint_of_matrix_identity :
  forall (G J C : nat) (A : nat -> nat) (w wj : nat -> R) (Wm Bm : nat -> nat -> nat -> nat -> R) (delta : nat -> R),
    (forall c a k j, (c < C)%nat -> (a < A c)%nat -> (k < G)%nat -> (j < J)%nat -> delta j <> 0 ->
       w k * Wm c a k j = wj j * Bm c j a k) ->
    adjoint_on G J C A w wj (Wmat J Wm) (Bmat G A Bm) delta.
Proof. exact adjoint_of_matrix_identity. Qed.
Print Assumptions C17_adjoint_of_matrix_identity.

(** Part 3.  Bond integrals of chain molecules: the message-passing loop of [bond_integrals] / [delta_bond_integrals]
    (model [run], theories/BondGraphC17.v).  Whenever it finishes, every directed bond was computed exactly once and only
    after all the bonds it depends on; it finishes on every graph whose dependency relation admits a rank function
    (every tree); on a graph with a dependency cycle it ends in the branch where the code panics. *)
Theorem C17_bond_each_edge_once : forall (es : list (nat * nat)) (n : nat) (res : list nat),
  run (length es) es n nil = Some res ->
  NoDup res /\ (forall i, In i res <-> (i < length es)%nat) /\ length res = length es /\
  (forall pre i post, res = pre ++ i :: post ->
     forall e' : IE, In e' (deps es (i, nth i es (0%nat, 0%nat))) -> In (eid e') pre).
Proof. exact run_each_edge_once. Qed.
Print Assumptions C17_bond_each_edge_once.

Theorem C17_bond_terminates : forall (es : list (nat * nat)) (n : nat) (h : nat -> nat),
  wf_graph es n -> ranked es h -> exists res, run (length es) es n nil = Some res.
Proof. exact run_terminates. Qed.
Print Assumptions C17_bond_terminates.

Theorem C17_bond_cycle_reaches_panic : forall (es : list (nat * nat)) (n : nat) (S : list nat) (i0 : nat),
  closed_set es S -> In i0 S -> run (length es) es n nil = None.
Proof. exact run_cycle_panics. Qed.
Print Assumptions C17_bond_cycle_reaches_panic.

(** executable forms used for the graphs of every run (gen/C17/bonds.v) *)
Theorem C17_bond_tree_terminates : forall (n : nat) (bs : list (nat * nat)),
  wf_graph_b (directed n bs) n = true -> ranked_b (directed n bs) (rank_guess (directed n bs)) = true ->
  exists res, run_graph n bs = Some res.
Proof. exact tree_terminates. Qed.
Print Assumptions C17_bond_tree_terminates.

Theorem C17_bond_cycle_panics : forall (n : nat) (bs : list (nat * nat)) (i0 : nat),
  closed_set_b (directed n bs) (stuck_set n bs) = true -> In i0 (stuck_set n bs) -> run_graph n bs = None.
Proof. exact cycle_panics. Qed.
Print Assumptions C17_bond_cycle_panics.
