(** C17 — the functional derivative is the derivative of the discretised functional.
    Property theorems only. *)
From Coq Require Import Reals List ZArith.
From Interval Require Import Real.Xreal Real.Xreal_derive Eval.Prog Eval.Tree Eval.Eval.
From FeosVerif Require Import ProgSem AD.

(** Part 1.  [P] is the program of one contribution's Helmholtz energy density phi(T, n_alpha) at a grid point,
    regenerated from /repo on every run by tracing the real generic [helmholtz_energy_density]; the derivative
    program [tan_outs P n ks] evaluated on (point ++ direction) is the derivative of phi along that line —
    for every program, point, direction; instantiated with unit directions it is the partial derivative
    d phi / d n_alpha ([first_partial_derivatives]), applied to the derivative program itself it is
    d2 phi / d n_alpha d n_beta ([second_partial_derivatives]). *)
Theorem C17_partial_derivative : forall P n ks (a e : list R) (r : R),
  length a = n -> length e = n -> wscoped P n = true ->
  (forall k, In k ks -> k < length P + n) ->
  forall j, j < length ks ->
    Xderive_pt (fun t => nth (nth j ks 0) (eval_ext P (map (fun f : XF => f t) (lineF a e))) Xnan) (Xreal r)
               (nth (length ks - 1 - j) (eval_ext (tan_outs P n ks) (map Xreal (line_pt a e r ++ e))) Xnan).
Proof. exact tan_line. Qed.
Print Assumptions C17_partial_derivative.
