(** C13 — virial coefficients equal the low-density limit of the compressibility factor.
    Property theorems only. *)
From Coq Require Import Reals List ZArith.
From Interval Require Import Real.Xreal Real.Xreal_derive Eval.Prog Eval.Tree Eval.Eval.
From FeosVerif Require Import ProgSem AD Virial.
Local Open Scope R_scope.

(** For every function g (the reduced residual Helmholtz energy density along rho at fixed T and
    composition: A(V,N) = V g(N/V), so (Z-1)/rho = (rho g' - g)/rho^2) that vanishes with its first
    derivative at rho = 0 and whose derivative is derivable at 0 with derivative c: the quotient
    tends to c/2 — the number the second-virial-coefficient function returns (half the second
    density derivative at rho = 0).  Two-sided limit, epsilon-delta form. *)
Theorem C13_second_virial_is_limit : forall (g g' : R -> R) (c d0 : R),
  0 < d0 ->
  (forall x, Rabs x < d0 -> derivable_pt_lim g x (g' x)) ->
  derivable_pt_lim g' 0 c -> g 0 = 0 -> g' 0 = 0 ->
  forall eps, 0 < eps -> exists delta, 0 < delta /\
    forall rho, rho <> 0 -> Rabs rho < delta ->
      Rabs ((rho * g' rho - g rho) / rho ^ 2 - c / 2) < eps.
Proof. exact virial_limit. Qed.
Print Assumptions C13_second_virial_is_limit.

(** The derivative hypotheses are supplied, for the regenerated program of g, by the AD theorem:
    when a derivative program yields a real number, the program's function is derivable there
    with exactly that derivative (every order by iteration). *)
Theorem C13_density_derivative : forall P n ks a e r j d,
  length a = n -> length e = n -> wscoped P n = true ->
  (forall k, In k ks -> (k < length P + n)%nat) -> (j < length ks)%nat ->
  nth (length ks - 1 - j) (eval_ext (tan_outs P n ks) (map Xreal (line_pt a e r ++ e))) Xnan = Xreal d ->
  forall v, derivable_pt_lim
    (fun t => match nth (nth j ks 0%nat) (eval_ext P (map Xreal (line_pt a e t))) Xnan with Xreal y => y | Xnan => v end) r d.
Proof. exact tan_line_real. Qed.
Print Assumptions C13_density_derivative.
