(** C13 — virial coefficients equal the low-density limit of the compressibility factor.
    Property theorems only. *)
From Coq Require Import Reals List ZArith.
From Interval Require Import Real.Xreal Real.Xreal_derive Eval.Prog Eval.Tree Eval.Eval.
From FeosVerif Require Import ProgSem ProgSemBig AD Virial VirialProg VirialProg3 BoxBig VirialBox VirialBox3.
Import ListNotations.
Local Open Scope R_scope.

(** For every function g (the reduced residual Helmholtz energy density along rho at fixed T and
    composition: A(V,N) = V g(N/V), so (Z-1)/rho = (rho g' - g)/rho^2) that vanishes with its first
    derivative at rho = 0 and whose derivative is derivable at 0 with derivative c: the quotient
    tends to c/2 — the number the second-virial-coefficient function returns (half the second
    density derivative at rho = 0).  Two-sided limit, epsilon-delta form. *)
Theorem C13_second_virial_is_limit : forall (g g' : R -> R) (c d0 : R),
  0 < d0 ->
  (forall x, Rabs x < d0 -> derivable_pt_lim g x (g' x)) ->
  derivable_pt_lim g' 0 c -> g 0 = 0 -> g' 0 = 0 ->
  forall eps, 0 < eps -> exists delta, 0 < delta /\
    forall rho, rho <> 0 -> Rabs rho < delta ->
      Rabs ((rho * g' rho - g rho) / rho ^ 2 - c / 2) < eps.
Proof. exact virial_limit. Qed.
Print Assumptions C13_second_virial_is_limit.

(** The derivative hypotheses are supplied, for the regenerated program of g, by the AD theorem:
    when a derivative program yields a real number, the program's function is derivable there
    with exactly that derivative (every order by iteration). *)
Theorem C13_density_derivative : forall P n ks a e r j d,
  length a = n -> length e = n -> wscoped P n = true ->
  (forall k, In k ks -> (k < length P + n)%nat) -> (j < length ks)%nat ->
  nth (length ks - 1 - j) (eval_ext (tan_outs P n ks) (map Xreal (line_pt a e r ++ e))) Xnan = Xreal d ->
  forall v, derivable_pt_lim
    (fun t => match nth (nth j ks 0%nat) (eval_ext P (map Xreal (line_pt a e t))) Xnan with Xreal y => y | Xnan => v end) r d.
Proof. exact tan_line_real. Qed.
Print Assumptions C13_density_derivative.

(** The limit statement for a regenerated program, from obligations that are all decided by computation:
    [virial_obligations P T eps cs prec] checks that P and its first-derivative program are well scoped, that the
    first-derivative program is defined on the whole density box [-eps, eps] (one verified interval evaluation over
    the box), that the second-derivative program is defined at rho = 0 and that g(0) = g'(0) = 0.  Then
    (rho g'(rho) - g(rho))/rho^2 — i.e. (Z-1)/rho of the function the program denotes at temperature T and the
    traced composition — tends to half the second density derivative at rho = 0, the value
    [second_virial_coefficient] returns (tied numerically by the enclosure comparison). *)
Theorem C13_second_virial_limit_of_program : forall (P : list term) (T eps : Z * Z) (cs : list (Z * Z)) (prec : Z),
  virial_obligations P T eps cs prec = true ->
  let n := (2 + length cs)%nat in
  let a := inputs_R (T :: (0, 0)%Z :: cs) in let e := inputs_R (unitZ n 1) in
  forall x, 0 < x -> exists delta, 0 < delta /\
    forall rho, rho <> 0 -> Rabs rho < delta ->
      Rabs ((rho * vp_g1 P n a e rho - vp_g P a e rho) / rho ^ 2 - vp_c P n a e / 2) < x.
Proof. exact virial_from_obligations. Qed.
Print Assumptions C13_second_virial_limit_of_program.

(** Third virial coefficient.  For g, g1 = g', g2 = g'' on a neighbourhood of 0 with g(0) = g'(0) = 0 and g2 derivable at 0
    with derivative k: with B = g''(0)/2 (the limit of (Z-1)/rho above), the difference quotient ((Z-1)/rho - B)/rho — the
    density derivative of (Z-1)/rho at zero density — tends to k/3, the number the third-virial-coefficient function returns
    (a third of the third density derivative of g at rho = 0). *)
Theorem C13_third_virial_is_limit : forall (g g1 g2 : R -> R) (k d0 : R), 0 < d0 ->
  (forall x, Rabs x < d0 -> derivable_pt_lim g x (g1 x)) ->
  (forall x, Rabs x < d0 -> derivable_pt_lim g1 x (g2 x)) ->
  derivable_pt_lim g2 0 k -> g 0 = 0 -> g1 0 = 0 ->
  forall eps, 0 < eps -> exists delta, 0 < delta /\
    forall rho, rho <> 0 -> Rabs rho < delta ->
      Rabs (((rho * g1 rho - g rho) / rho ^ 2 - g2 0 / 2) / rho - k / 3) < eps.
Proof. exact virial_limit3. Qed.
Print Assumptions C13_third_virial_is_limit.

(** ... instantiated on a regenerated zero-density program by computation: if [virial_obligations3] evaluates to true
    (scopedness of P, D1, D2; interval evaluations of the first AND second derivative programs over the density box
    [-eps, eps]; the third derivative program defined at rho = 0; g(0) = g'(0) = 0), the limit holds for the function the
    program denotes. *)
Theorem C13_third_virial_limit_of_program : forall (P : list term) (T eps : Z * Z) (cs : list (Z * Z)) (prec : Z),
  virial_obligations3 P T eps cs prec = true ->
  let n := (2 + length cs)%nat in
  let a := inputs_R (T :: (0, 0)%Z :: cs) in let e := inputs_R (unitZ n 1) in
  forall x, 0 < x -> exists delta, 0 < delta /\
    forall rho, rho <> 0 -> Rabs rho < delta ->
      Rabs (((rho * vp_g1 P n a e rho - vp_g P a e rho) / rho ^ 2 - vp_g2 P n a e 0 / 2) / rho - vp_k P n a e / 3) < x.
Proof. exact virial3_from_obligations. Qed.
Print Assumptions C13_third_virial_limit_of_program.
