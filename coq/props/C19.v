(** C19 — DFT results obey the Gibbs adsorption relation and their reported derivatives: property theorems.
    Models and proofs: theories/GibbsC19.v, HenryC19.v (non-vacuity examples: EvalC19.v).  All statements hold for any
    number n of unknowns (segments x grid points), any weights, any smooth discretised functional given through
    (F, D, H); the multivariate chain rule is a hypothesis along the family at hand (that the code's D, H are the
    gradient / Jacobian is C17's adjointness statement).  Numerical convergence of the re-solved profiles and of GMRES
    is NOT decided here (labelled partial; see notes/C19.md). *)
From Coq Require Import Reals.
From Coquelicot Require Import Coquelicot.
From FeosVerif Require Import GibbsC19 HenryC19.
Open Scope R_scope.

(** Gibbs adsorption: along a differentiable family of stationary points of the discretised grand potential, dOmega = - sum_i w_i rho_i dmu_i (any n, weights, segment lengths, potential and functional; D the gradient of F along the family) *)
Theorem C19_gibbs_adsorption :
    forall (n : nat) (w m V : nat -> R) (F : (nat -> R) -> R) (D : (nat -> R) -> nat -> R)
    (rho drho mu dmu : nat -> R -> R),
    (forall (i : nat) (t : R_AbsRing), (i < n)%nat -> is_derive (rho i) t (drho i t)) ->
    (forall (i : nat) (t : R), (i < n)%nat -> 0 < rho i t) ->
    (forall (i : nat) (t : R_AbsRing), (i < n)%nat -> is_derive (mu i) t (dmu i t)) ->
    (forall t : R_AbsRing,
    is_derive (fun s : R_AbsRing => F (prof rho s)) t (sumn n (fun i : nat => w i * D (prof rho t) i * drho i t))) ->
    forall t : R,
    EL n m V D rho mu t ->
    is_derive (Omega n w m V F rho mu) t (- sumn n (fun i : nat => w i * rho i t * dmu i t)).
Proof. exact @gibbs_adsorption. Qed.
Print Assumptions C19_gibbs_adsorption.

(** at a stationary point, what grand_potential_density integrates (phi - rho (dF/drho + m)) is the grand potential *)
Theorem C19_omega_code_is_omega :
    forall (n : nat) (w m V : nat -> R) (F : (nat -> R) -> R) (D : (nat -> R) -> nat -> R)
    (rho mu : nat -> R -> R) (t : R),
    EL n m V D rho mu t -> Omega_code n w m F D rho t = Omega n w m V F rho mu t.
Proof. exact @omega_code_is_omega. Qed.
Print Assumptions C19_omega_code_is_omega.

(** hence the value the code reports has derivative -N along a family of solutions *)
Theorem C19_gibbs_adsorption_code :
    forall (n : nat) (w m V : nat -> R) (F : (nat -> R) -> R) (D : (nat -> R) -> nat -> R)
    (rho drho mu dmu : nat -> R -> R),
    (forall (i : nat) (t : R_AbsRing), (i < n)%nat -> is_derive (rho i) t (drho i t)) ->
    (forall (i : nat) (t : R), (i < n)%nat -> 0 < rho i t) ->
    (forall (i : nat) (t : R_AbsRing), (i < n)%nat -> is_derive (mu i) t (dmu i t)) ->
    (forall t : R_AbsRing,
    is_derive (fun s : R_AbsRing => F (prof rho s)) t (sumn n (fun i : nat => w i * D (prof rho t) i * drho i t))) ->
    forall t : R_AbsRing,
    (forall s : R, EL n m V D rho mu s) ->
    is_derive (Omega_code n w m F D rho) t (- sumn n (fun i : nat => w i * rho i t * dmu i t)).
Proof. exact @gibbs_adsorption_code. Qed.
Print Assumptions C19_gibbs_adsorption_code.

(** the tangent of a family of Euler-Lagrange solutions solves the linear system of density_derivative with right-hand side rho (db - dV - partial_t D) *)
Theorem C19_linearised_EL :
    forall (n : nat) (m : nat -> R) (Dt dtD : R -> (nat -> R) -> nat -> R)
    (H : R -> (nat -> R) -> (nat -> R) -> nat -> R) (rho drho V dV b db : nat -> R -> R),
    (forall (i : nat) (t : R_AbsRing), (i < n)%nat -> is_derive (rho i) t (drho i t)) ->
    (forall (i : nat) (t : R), (i < n)%nat -> 0 < rho i t) ->
    (forall (i : nat) (t : R_AbsRing), (i < n)%nat -> is_derive (V i) t (dV i t)) ->
    (forall (i : nat) (t : R_AbsRing), (i < n)%nat -> is_derive (b i) t (db i t)) ->
    (forall (i : nat) (t : R_AbsRing),
    (i < n)%nat ->
    is_derive (fun s : R_AbsRing => Dt s (profL rho s) i) t
    (dtD t (profL rho t) i + H t (profL rho t) (dprofL drho t) i)) ->
    (forall t : R, ELt n m Dt rho V b t) ->
    forall (t : R) (i : nat),
    (i < n)%nat ->
    lin_op (m i) (rho i t) (H t (profL rho t) (dprofL drho t) i) (drho i t) =
    rho i t * (db i t - dV i t - dtD t (profL rho t) i).
Proof. exact @linearised_EL. Qed.
Print Assumptions C19_linearised_EL.

(** drho_dmu: right-hand side rho * delta_ik *)
Theorem C19_linearised_EL_mu :
    forall (n : nat) (m : nat -> R) (Dt dtD : R -> (nat -> R) -> nat -> R)
    (H : R -> (nat -> R) -> (nat -> R) -> nat -> R) (rho drho V dV b db : nat -> R -> R),
    (forall (i : nat) (t : R_AbsRing), (i < n)%nat -> is_derive (rho i) t (drho i t)) ->
    (forall (i : nat) (t : R), (i < n)%nat -> 0 < rho i t) ->
    (forall (i : nat) (t : R_AbsRing), (i < n)%nat -> is_derive (V i) t (dV i t)) ->
    (forall (i : nat) (t : R_AbsRing), (i < n)%nat -> is_derive (b i) t (db i t)) ->
    (forall (i : nat) (t : R_AbsRing),
    (i < n)%nat ->
    is_derive (fun s : R_AbsRing => Dt s (profL rho s) i) t
    (dtD t (profL rho t) i + H t (profL rho t) (dprofL drho t) i)) ->
    forall delta : nat -> R,
    (forall t : R, ELt n m Dt rho V b t) ->
    (forall (t : R) (r : nat -> R) (i : nat), dtD t r i = 0) ->
    (forall (i : nat) (t : R), dV i t = 0) ->
    (forall (i : nat) (t : R), db i t = delta i) ->
    forall (t : R) (i : nat),
    (i < n)%nat ->
    lin_op (m i) (rho i t) (H t (profL rho t) (dprofL drho t) i) (drho i t) = rhs_mu (rho i t) (delta i).
Proof. exact @linearised_EL_mu. Qed.
Print Assumptions C19_linearised_EL_mu.

(** drho_dp: right-hand side rho * v (solution divided by T), Gibbs-Duhem d b = v/T dp *)
Theorem C19_linearised_EL_p :
    forall (n : nat) (m : nat -> R) (Dt dtD : R -> (nat -> R) -> nat -> R)
    (H : R -> (nat -> R) -> (nat -> R) -> nat -> R) (rho drho V dV b db : nat -> R -> R),
    (forall (i : nat) (t : R_AbsRing), (i < n)%nat -> is_derive (rho i) t (drho i t)) ->
    (forall (i : nat) (t : R), (i < n)%nat -> 0 < rho i t) ->
    (forall (i : nat) (t : R_AbsRing), (i < n)%nat -> is_derive (V i) t (dV i t)) ->
    (forall (i : nat) (t : R_AbsRing), (i < n)%nat -> is_derive (b i) t (db i t)) ->
    (forall (i : nat) (t : R_AbsRing),
    (i < n)%nat ->
    is_derive (fun s : R_AbsRing => Dt s (profL rho s) i) t
    (dtD t (profL rho t) i + H t (profL rho t) (dprofL drho t) i)) ->
    (forall (t : R) (r x : nat -> R) (c : R) (i : nat), H t r (fun k : nat => c * x k) i = c * H t r x i) ->
    forall (T : R) (v : nat -> R),
    (forall t : R, ELt n m Dt rho V b t) ->
    (forall (t : R) (r : nat -> R) (i : nat), dtD t r i = 0) ->
    (forall (i : nat) (t : R), dV i t = 0) ->
    (forall (i : nat) (t : R), db i t = v i / T) ->
    T <> 0 ->
    forall (t : R) (i : nat),
    (i < n)%nat ->
    lin_op (m i) (rho i t) (H t (profL rho t) (fun k : nat => T * drho k t) i) (T * drho i t) =
    rhs_p (rho i t) (v i).
Proof. exact @linearised_EL_p. Qed.
Print Assumptions C19_linearised_EL_p.

(** if the linear operator is injective, what GMRES returns (any solution) is the tangent *)
Theorem C19_linear_solution_unique :
    forall (n : nat) (m : nat -> R) (H : R -> (nat -> R) -> (nat -> R) -> nat -> R) (rho : nat -> R -> R),
    (forall (t : R) (r x y : nat -> R) (i : nat), H t r (fun k : nat => x k - y k) i = H t r x i - H t r y i) ->
    forall (t : R) (rhs x y : nat -> R),
    (forall z : nat -> R,
    (forall i : nat, (i < n)%nat -> lin_op (m i) (rho i t) (H t (profL rho t) z i) (z i) = 0) ->
    forall i : nat, (i < n)%nat -> z i = 0) ->
    (forall i : nat, (i < n)%nat -> lin_op (m i) (rho i t) (H t (profL rho t) x i) (x i) = rhs i) ->
    (forall i : nat, (i < n)%nat -> lin_op (m i) (rho i t) (H t (profL rho t) y i) (y i) = rhs i) ->
    forall i : nat, (i < n)%nat -> x i = y i.
Proof. exact @linear_solution_unique. Qed.
Print Assumptions C19_linear_solution_unique.

(** dN/dt is the weighted sum of the tangent (dn_dmu, dn_dp, dn_dt) *)
Theorem C19_dN_is_weighted_sum :
    forall (n : nat) (rho drho : nat -> R -> R),
    (forall (i : nat) (t : R_AbsRing), (i < n)%nat -> is_derive (rho i) t (drho i t)) ->
    forall (w sel : nat -> R) (t : R_AbsRing),
    is_derive (fun s : R_AbsRing => sumn n (fun i : nat => sel i * (w i * rho i s))) t
    (sumn n (fun i : nat => sel i * (w i * drho i t))).
Proof. exact @dN_is_weighted_sum. Qed.
Print Assumptions C19_dN_is_weighted_sum.

(** drho_dt: the right-hand side the code assembles equals rho (db - dV - partial_T D) with d b = partial_T Db - v (dp/dT)/T, dV = -V/T *)
Theorem C19_code_rhs_t_correct :
    forall m rho rhob T D V Db dtD dtDb vpT : R,
    m <> 0 ->
    T <> 0 ->
    let G := (D + V - Db) / m in
    let dG := (dtD - V / T - dtDb) / m in
    ln (rho / rhob) = - G -> code_rhs_t m rho rhob T (G + T * dG) vpT = rho * (dtDb - vpT / T - - V / T - dtD).
Proof. exact @code_rhs_t_correct. Qed.
Print Assumptions C19_code_rhs_t_correct.

(** Gibbs-Duhem for the bulk: along an isotherm dmu/dp = 1/rho *)
Theorem C19_dmu_dp_is_molar_volume :
    forall (f mu dmu rb : R -> R) (drb p0 s : R),
    (forall r : R_AbsRing, is_derive f r (mu r)) ->
    (forall r : R_AbsRing, is_derive mu r (dmu r)) ->
    is_derive rb s drb ->
    (forall s' : R, rb s' * mu (rb s') - f (rb s') = p0 + s') ->
    rb s <> 0 -> is_derive (fun s' : R_AbsRing => mu (rb s')) s (1 / rb s).
Proof. exact @dmu_dp_is_molar_volume. Qed.
Print Assumptions C19_dmu_dp_is_molar_volume.

(** ideal gas: N/p equals the Henry coefficient at every pressure *)
Theorem C19_ideal_gas_N_over_p :
    forall (n : nat) (w : nat -> R) (rb : R) (V : nat -> R) (T : R),
    rb <> 0 -> T <> 0 -> ig_N n w rb V / (rb * T) = henry_sph n w V T.
Proof. exact @ideal_gas_N_over_p. Qed.
Print Assumptions C19_ideal_gas_N_over_p.

(** real fluid: N/p is within exp(+-delta)/(1 -+ eps) of the Henry coefficient (delta: excess functional derivative, eps: deviation of the compressibility factor; both vanish with p) *)
Theorem C19_henry_sandwich :
    forall (n : nat) (w V c : nat -> R) (rb T z delta eps : R),
    (forall j : nat, (j < n)%nat -> 0 <= w j) ->
    0 < rb ->
    0 < T ->
    eps < 1 ->
    (forall j : nat, (j < n)%nat -> Rabs (c j) <= delta) ->
    Rabs (z - 1) <= eps ->
    let N := sumn n (fun j : nat => w j * (rb * exp (- V j - c j))) in
    let p := rb * T * z in
    henry_sph n w V T * (exp (- delta) / (1 + eps)) <= N / p <= henry_sph n w V T * (exp delta / (1 - eps)).
Proof. exact @henry_sandwich. Qed.
Print Assumptions C19_henry_sandwich.

(** the dual-number derivative of the Henry integral *)
Theorem C19_henry_integral_derivative :
    forall (n : nat) (w : nat -> R) (g : nat -> R -> R) (dg : nat -> R) (T : R_AbsRing),
    (forall j : nat, (j < n)%nat -> is_derive (g j) T (dg j)) ->
    is_derive (fun s : R_AbsRing => wsum n w (fun j : nat => g j s)) T (wsum n w dg).
Proof. exact @henry_integral_derivative. Qed.
Print Assumptions C19_henry_integral_derivative.

(** ideal_gas_enthalpy_of_adsorption = - T^2 d ln K_H / dT *)
Theorem C19_qst_is_vant_hoff :
    forall (n : nat) (w : nat -> R) (g : nat -> R -> R) (dg : nat -> R) (T : R_AbsRing),
    (forall j : nat, (j < n)%nat -> is_derive (g j) T (dg j)) ->
    0 < T ->
    0 < wsum n w (fun j : nat => g j T) ->
    is_derive (fun s : R_AbsRing => ln (henry_gen n w (fun j : nat => g j s) s)) T
    (- qst_gen n w (fun j : nat => g j T) dg T / (T * T)).
Proof. exact @qst_is_vant_hoff. Qed.
Print Assumptions C19_qst_is_vant_hoff.

(** temperature derivative of the Boltzmann factor exp(-U/T) *)
Theorem C19_boltzmann_T_derivative :
    forall U T : R, T <> 0 -> is_derive (fun s : R_AbsRing => exp (- (U / s))) T (exp (- (U / T)) * (U / T) / T).
Proof. exact @boltzmann_T_derivative. Qed.
Print Assumptions C19_boltzmann_T_derivative.

(** spherical molecules: the code's value in terms of the stored potential V = U/T *)
Theorem C19_qst_sph_is_code :
    forall (n : nat) (w U : nat -> R) (T : R),
    T <> 0 ->
    sumn n (fun j : nat => w j * exp (- (U j / T))) <> 0 ->
    qst_gen n w (fun j : nat => exp (- (U j / T))) (fun j : nat => exp (- (U j / T)) * (U j / T) / T) T =
    qst_sph n w (fun j : nat => U j / T) T.
Proof. exact @qst_sph_is_code. Qed.
Print Assumptions C19_qst_sph_is_code.

(** ideal gas: dN/dmu = N/T *)
Theorem C19_ig_dN_dmu :
    forall (n : nat) (w V : nat -> R) (T : R) (mu : R_AbsRing),
    T <> 0 -> is_derive (fun s : R_AbsRing => ig_N n w (exp (s / T)) V) mu (ig_dn_dmu n w (exp (mu / T)) V T).
Proof. exact @ig_dN_dmu. Qed.
Print Assumptions C19_ig_dN_dmu.

(** ideal gas: dN/dp = N/p *)
Theorem C19_ig_dN_dp :
    forall (n : nat) (w V : nat -> R) (T p : R),
    T <> 0 -> p <> 0 -> is_derive (fun s : R_AbsRing => ig_N n w (s / T) V) p (ig_dn_dp n w (p / T) V T).
Proof. exact @ig_dN_dp. Qed.
Print Assumptions C19_ig_dN_dp.

(** ideal gas: dN/dT at constant p = sum w rho (V - 1)/T *)
Theorem C19_ig_dN_dT :
    forall (n : nat) (w U : nat -> R) (T p : R),
    T <> 0 ->
    is_derive (fun s : R_AbsRing => ig_N n w (p / s) (fun j : nat => U j / s)) T
    (ig_dn_dt n w (p / T) (fun j : nat => U j / T) T).
Proof. exact @ig_dN_dT. Qed.
Print Assumptions C19_ig_dN_dT.

(** ideal gas: -T (dN/dT)/(dN/dmu) is the ideal-gas enthalpy of adsorption *)
Theorem C19_ig_enthalpy_of_adsorption :
    forall (n : nat) (w : nat -> R) (rb : R) (V : nat -> R) (T : R),
    rb <> 0 ->
    T <> 0 ->
    sumn n (fun j : nat => w j * exp (- V j)) <> 0 ->
    - T * ig_dn_dt n w rb V T / ig_dn_dmu n w rb V T = qst_sph n w V T.
Proof. exact @ig_enthalpy_of_adsorption. Qed.
Print Assumptions C19_ig_enthalpy_of_adsorption.

(** ideal gas: the grand potential the code integrates is -T N *)
Theorem C19_ig_omega_is_code :
    forall (n : nat) (w : nat -> R) (rb : R) (V : nat -> R) (T : R) (rho : nat -> R -> R) (t : R),
    (forall j : nat, (j < n)%nat -> rho j t = rb * exp (- V j)) ->
    T * Omega_code n w (fun _ : nat => 1) (fun _ : nat -> R => 0) (fun (_ : nat -> R) (_ : nat) => 0) rho t =
    ig_omega n w rb V T.
Proof. exact @ig_omega_is_code. Qed.
Print Assumptions C19_ig_omega_is_code.

(** ** cached fields of PoreProfile (theories/PoreCacheC19.v): any profile type, any solver behaviour, any call sequence *)
From Coq Require Import List.
From FeosVerif Require Import PoreCacheC19.
Import ListNotations.

(** after ANY sequence of solve_inplace (Ok or Err) / update_bulk / specification changes on one PoreProfile object, a stored grand potential / interfacial tension is the one recomputed from the current profile and bulk state *)
Theorem C19_cache_fresh_always :
    forall (X B S Val : Type) (omega_of gamma_of : X -> Val) (set_bulk : B -> X -> X) (set_spec : S -> X -> X),
    (forall (s : S) (x : X), omega_of (set_spec s x) = omega_of x /\ gamma_of (set_spec s x) = gamma_of x) ->
    forall (ops : list (op X B S)) (p : pore X Val),
    fresh X Val omega_of gamma_of p ->
    fresh X Val omega_of gamma_of (run X B S Val omega_of gamma_of set_bulk set_spec p ops).
Proof. exact @cache_fresh_always. Qed.
Print Assumptions C19_cache_fresh_always.

(** in particular for every object obtained from initialize *)
Theorem C19_cache_fresh_from_initialize :
    forall (X B S Val : Type) (omega_of gamma_of : X -> Val) (set_bulk : B -> X -> X) (set_spec : S -> X -> X),
    (forall (s : S) (x : X), omega_of (set_spec s x) = omega_of x /\ gamma_of (set_spec s x) = gamma_of x) ->
    forall (x : X) (ops : list (op X B S)),
    fresh X Val omega_of gamma_of (run X B S Val omega_of gamma_of set_bulk set_spec (initialize X Val x) ops).
Proof. exact @cache_fresh_from_initialize. Qed.
Print Assumptions C19_cache_fresh_from_initialize.

(** and for every intermediate state of the sequence (the drivers read them) *)
Theorem C19_trace_fresh :
    forall (X B S Val : Type) (omega_of gamma_of : X -> Val) (set_bulk : B -> X -> X) (set_spec : S -> X -> X),
    (forall (s : S) (x : X), omega_of (set_spec s x) = omega_of x /\ gamma_of (set_spec s x) = gamma_of x) ->
    forall (ops : list (op X B S)) (p : pore X Val),
    fresh X Val omega_of gamma_of p ->
    Forall (fresh X Val omega_of gamma_of) (trace X B S Val omega_of gamma_of set_bulk set_spec p ops).
Proof. exact @trace_fresh. Qed.
Print Assumptions C19_trace_fresh.

(** a successful solve stores both values of the profile it returned *)
Theorem C19_solve_ok_stores :
    forall (X B S Val : Type) (omega_of gamma_of : X -> Val) (set_bulk : B -> X -> X) 
    (set_spec : S -> X -> X) (ops : list (op X B S)) (p : pore X Val) (x : X),
    let q := run X B S Val omega_of gamma_of set_bulk set_spec p (ops ++ Solve X B S (Some x) :: nil) in
    prof X Val q = x /\ om X Val q = Some (omega_of x) /\ ga X Val q = Some (gamma_of x).
Proof. exact @solve_ok_stores. Qed.
Print Assumptions C19_solve_ok_stores.

(** update_bulk leaves nothing stored *)
Theorem C19_update_bulk_clears :
    forall (X B S Val : Type) (omega_of gamma_of : X -> Val) (set_bulk : B -> X -> X) 
    (set_spec : S -> X -> X) (ops : list (op X B S)) (p : pore X Val) (b : B),
    let q := run X B S Val omega_of gamma_of set_bulk set_spec p (ops ++ UpdateBulk X B S b :: nil) in
    om X Val q = None /\ ga X Val q = None.
Proof. exact @update_bulk_clears. Qed.
Print Assumptions C19_update_bulk_clears.

(** a failed solve changes nothing *)
Theorem C19_solve_err_unchanged :
    forall (X B S Val : Type) (omega_of gamma_of : X -> Val) (set_bulk : B -> X -> X) 
    (set_spec : S -> X -> X) (ops : list (op X B S)) (p : pore X Val),
    run X B S Val omega_of gamma_of set_bulk set_spec p (ops ++ Solve X B S None :: nil) =
    run X B S Val omega_of gamma_of set_bulk set_spec p ops.
Proof. exact @solve_err_unchanged. Qed.
Print Assumptions C19_solve_err_unchanged.
