(** C15 — every shipped parameter record loads and yields a physically usable model.

    The property is a statement over a finite, completely enumerated domain (the records of the files under
    parameters/).  Its proof has two layers:
      (1) the theorems below, proved once for ALL collections: whenever the boolean checker evaluates to [true] on a
          collection, the collection has the properties of the statement (positivity of m, sigma, epsilon_k, molar
          weight; no duplicate look-up identifier, so that every record is the one its name retrieves; binary
          records refer to existing substances / segments; every group-contribution substance assembles to
          positive parameters);
      (2) coq/gen/C15/*.v, regenerated from /repo/parameters on every run, which close
          [checker shipped_data = true] by [vm_compute] and instantiate (1) on the shipped data.
    Not decided here (labelled partial in notes/C15.md): that the critical-point and saturation solvers converge for
    the model of each record. *)
From Coq Require Import List String ZArith QArith.
From FeosVerif Require Import RecordsC15 IdealGasC15.
Import ListNotations.
Open Scope string_scope.

(** PC-SAFT and ePC-SAFT pure files *)
Theorem C15_saft_collection : forall l : list pure_rec,
    collection_okb saft_okb l = true ->
    Forall saft_ok l /\ NoDup (names l)
    /\ (forall r k, In r l -> p_name r = Some k -> lookup p_name k l = Some r).
Proof. exact saft_collection_sound. Qed.
Print Assumptions C15_saft_collection.

(** what [saft_ok] gives for the four quantities the property names *)
Theorem C15_saft_record_positive : forall r, saft_ok r ->
    exists m s e w, fieldQ "m" (p_fields r) = Some m /\ fieldQ "sigma" (p_fields r) = Some s
                    /\ fieldQ "epsilon_k" (p_fields r) = Some e /\ option_map dec_Q (p_mw r) = Some w
                    /\ (0 < m)%Q /\ (0 < s)%Q /\ (0 < e)%Q /\ (0 < w)%Q.
Proof. exact saft_ok_positive. Qed.
Print Assumptions C15_saft_record_positive.

(** SAFT-VR Mie pure files (additionally 0 < la < lr) *)
Theorem C15_mie_collection : forall l : list pure_rec,
    collection_okb mie_okb l = true -> collection_ok mie_ok l.
Proof. exact mie_collection_sound. Qed.
Print Assumptions C15_mie_collection.

(** SAFT-VRQ Mie pure files (additionally m = 1 and Feynman-Hibbs order in {0,1,2}) *)
Theorem C15_vrq_collection : forall l : list pure_rec,
    collection_okb vrq_okb l = true -> collection_ok vrq_ok l.
Proof. exact vrq_collection_sound. Qed.
Print Assumptions C15_vrq_collection.

(** ideal-gas pure files (DIPPR) *)
Theorem C15_ideal_collection : forall l : list pure_rec,
    collection_okb ideal_okb l = true -> collection_ok ideal_ok l.
Proof. exact ideal_collection_sound. Qed.
Print Assumptions C15_ideal_collection.

(** why duplicates matter: look-up returns the first record of a name, a later one is unreachable *)
Theorem C15_duplicate_shadows : forall (r1 r2 : pure_rec) k l1 l2 l3,
    p_name r1 = Some k -> p_name r2 = Some k -> ~ In k (names l1) ->
    lookup p_name k (l1 ++ r1 :: l2 ++ r2 :: l3) = Some r1.
Proof. exact duplicate_shadows. Qed.
Print Assumptions C15_duplicate_shadows.

(** the duplicate checker is exact (it rejects a list iff the list has a duplicate) *)
Theorem C15_nodup_checker_exact : forall l : list string, nodupb l = true <-> NoDup l.
Proof. exact nodupb_iff. Qed.
Print Assumptions C15_nodup_checker_exact.

(** segment tables, full strength (no exception) and with recorded exceptions *)
Theorem C15_segment_table : forall l : list seg_rec,
    table_okb (seg_okb []) l = true ->
    Forall (fun r => (exists w, s_mw r = Some w /\ (0 < dec_Q w)%Q) /\ seg_pos r) l /\ NoDup (seg_ids l).
Proof. exact segment_table_full_strength. Qed.
Print Assumptions C15_segment_table.

Theorem C15_segment_table_except : forall exc (l : list seg_rec),
    table_okb (seg_okb exc) l = true -> Forall (seg_ok exc) l /\ NoDup (seg_ids l).
Proof. exact segment_table_sound. Qed.
Print Assumptions C15_segment_table_except.

Theorem C15_joback_table : forall l : list seg_rec,
    table_okb jobackseg_okb l = true -> Forall jobackseg_ok l /\ NoDup (seg_ids l).
Proof. exact joback_table_sound. Qed.
Print Assumptions C15_joback_table.

(** binary files: every referenced substance exists in the accompanying collection; no unordered pair twice *)
Theorem C15_binary_refs : forall coll (l : list bin_rec),
    bin_refs_okb coll l = true ->
    Forall (fun b => exists x y, i_name (b_id1 b) = Some x /\ i_name (b_id2 b) = Some y /\ In x coll /\ In y coll) l.
Proof. exact bin_refs_okb_sound. Qed.
Print Assumptions C15_binary_refs.

Theorem C15_binary_pairs_distinct : forall l : list (string * string),
    pairs_distinctb l = true -> ForallOrdPairs (fun p q => ~ same_pair p q) l.
Proof. exact pairs_distinctb_sound. Qed.
Print Assumptions C15_binary_pairs_distinct.

Theorem C15_segment_binary_refs : forall ids (l : list binseg_rec),
    binseg_refs_okb ids l = true -> Forall (fun b => In (bs_id1 b) ids /\ In (bs_id2 b) ids) l.
Proof. exact binseg_refs_okb_sound. Qed.
Print Assumptions C15_segment_binary_refs.

(** group contribution: every substance assembles (all segments present, bonds inside the molecule, at most one
    polar/associating segment) to m > 0, sigma^3 > 0, epsilon > 0, molar weight > 0 — in exact arithmetic *)
Theorem C15_gc_assembly : forall table chems,
    forallb (gc_okb table) chems = true ->
    Forall (fun c => chem_ok (seg_ids table) c /\ exists h, assemble table c = Some h /\ homo_usable h) chems.
Proof. exact gc_all_sound. Qed.
Print Assumptions C15_gc_assembly.

Theorem C15_gc_structural : forall ids chems,
    forallb (chem_okb ids) chems = true -> Forall (chem_ok ids) chems.
Proof. exact chem_all_sound. Qed.
Print Assumptions C15_gc_structural.

(** a segment missing from the table makes the assembly fail (the checker cannot pass vacuously) *)
Theorem C15_gc_missing_segment_fails : forall table segs acc s,
    In s segs -> ~ In s (seg_ids table) -> assemble_from table segs acc = None.
Proof. exact assemble_missing. Qed.
Print Assumptions C15_gc_missing_segment_fails.

(** the sign of a literal m * 10^e is the sign of m: "positive" means what one reads in the file *)
Theorem C15_literal_positive_iff : forall m e, (0 < dec_Q (m, e))%Q <-> (0 < m)%Z.
Proof. exact dec_Q_pos_iff_mantissa. Qed.
Print Assumptions C15_literal_positive_iff.

(** every identifier kind: a binary identifier has a name and some record of the accompanying collection agrees
    with it on EVERY kind it states (name, CAS, IUPAC name, SMILES, InChI, formula) *)
Theorem C15_binary_ids : forall ids (l : list bin_rec),
    bin_ids_okb ids l = true ->
    Forall (fun r => id_resolves ids (b_id1 r) /\ id_resolves ids (b_id2 r)) l.
Proof. exact bin_ids_okb_sound. Qed.
Print Assumptions C15_binary_ids.

(** ... hence look-up by ANY kind that is duplicate free in the collection finds a record agreeing with the whole
    binary identifier *)
Theorem C15_binary_lookup_any_kind : forall ids (l : list bin_rec) k,
    bin_ids_okb ids l = true -> kind_nodupb k ids = true ->
    Forall (fun r => forall b, b = b_id1 r \/ b = b_id2 r -> forall x, get_kind k b = Some x ->
                     exists p, lookup (get_kind k) x ids = Some p /\ agrees b p) l.
Proof. exact bin_lookup_any_kind. Qed.
Print Assumptions C15_binary_lookup_any_kind.

(** per-kind uniqueness in a pure collection: full strength, and with recorded exceptions *)
Theorem C15_kind_unique : forall k (ids : list ident),
    kind_uniqb k [] ids = true ->
    NoDup (keys (get_kind k) ids)
    /\ forall p x, In p ids -> get_kind k p = Some x -> lookup (get_kind k) x ids = Some p.
Proof. exact kind_uniqb_lookup. Qed.
Print Assumptions C15_kind_unique.

Theorem C15_kind_unique_except : forall k exc (ids : list ident),
    kind_uniqb k exc ids = true -> NoDup (filter (fun v => negb (memb v exc)) (keys (get_kind k) ids)).
Proof. exact kind_uniqb_sound. Qed.
Print Assumptions C15_kind_unique_except.

(** ideal-gas records.  DIPPR equation 100: a name, at least one coefficient, heat capacity positive on the grid *)
Theorem C15_dippr_collection : forall grid (l : list pure_rec),
    collection_okb (dippr_okb grid) l = true ->
    Forall (fun r => ideal_ok r /\ dippr_coefs r <> [] /\ Forall (fun t => 0 < cp (dippr_coefs r) t)%Q grid) l
    /\ NoDup (names l)
    /\ (forall r k, In r l -> p_name r = Some k -> lookup p_name k l = Some r).
Proof. exact dippr_collection_sound. Qed.
Print Assumptions C15_dippr_collection.

(** the exact thermal de Broglie wavelength of a polynomial heat capacity is total in the number of coefficients:
    for a single coefficient (constant heat capacity) it is the textbook expression *)
Theorem C15_ideal_gas_constant_cp : forall R t0 c t, ~ (t == 0)%Q -> ~ (R == 0)%Q ->
    (ig_rat R t0 [c] t == c * (t - t0) / (t * R))%Q /\ (ig_log R [c] == - c / R)%Q /\ (cp [c] t == c)%Q.
Proof. exact ideal_gas_constant_cp. Qed.
Print Assumptions C15_ideal_gas_constant_cp.

Theorem C15_ideal_gas_reference : forall R t0 cs, ~ (t0 == 0)%Q -> ~ (R == 0)%Q -> (ig_rat R t0 cs t0 == 0)%Q.
Proof. exact ig_rat_ref. Qed.
Print Assumptions C15_ideal_gas_reference.

(** Joback: every gc substance assembles to five coefficients with a heat capacity positive on the grid *)
Theorem C15_joback_assembly : forall grid table chems,
    forallb (joback_gc_okb grid table) chems = true ->
    Forall (fun c => chem_ok (seg_ids table) c /\
              exists cs, joback_coefs table c = Some cs /\ List.length cs = 5%nat /\ Forall (fun t => 0 < cp cs t)%Q grid) chems.
Proof. exact joback_gc_all_sound. Qed.
Print Assumptions C15_joback_assembly.

(** the normalising evaluators whose values are compared with the implementation denote the same numbers *)
Theorem C15_ideal_gas_evaluator : forall R t0 cs t,
    (ig_ratR R t0 cs t == ig_rat R t0 cs t)%Q /\ (cpR cs t == cp cs t)%Q.
Proof. exact ideal_gas_evaluator. Qed.
Print Assumptions C15_ideal_gas_evaluator.
