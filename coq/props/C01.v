(** C01 — state properties are exact derivatives of the model's Helmholtz energy.
    Property theorems only.  The programs [P] are regenerated from /repo on every run by tracing the
    real generic code (coq/gen/C01/*.v); the derivative programs are [tan_outs P n ks], iterated for
    orders 2 and 3, and each instance of the theorem below states "this reported quantity is the
    derivative of the next-lower-order quantity", the form in which C01 is phrased. *)
From Coq Require Import Reals List ZArith.
From Interval Require Import Real.Xreal Real.Xreal_derive Eval.Prog Eval.Tree Eval.Eval.
From FeosVerif Require Import ProgSem AD.

(** Along every straight line [a + t e] through every point, at every parameter [r]: output
    [length ks - 1 - j] of the derivative program, evaluated on [(a + r e) ++ e], is the derivative
    with respect to [t] of output [ks_j] of [P] — in Interval's sense [Xderive_pt]: either the
    derivative program is undefined there ([Xnan]) or the original output is a real-valued function
    derivable at [r] in a neighbourhood with exactly that derivative.  No bound on program size, no
    restriction on the state, the direction or the values of the constants. *)
Theorem C01_directional_derivative : forall P n ks (a e : list R) (r : R),
  length a = n -> length e = n -> wscoped P n = true ->
  (forall k, In k ks -> k < length P + n) ->
  forall j, j < length ks ->
    Xderive_pt (fun t => nth (nth j ks 0) (eval_ext P (map (fun f : XF => f t) (lineF a e))) Xnan) (Xreal r)
               (nth (length ks - 1 - j) (eval_ext (tan_outs P n ks) (map Xreal (line_pt a e r ++ e))) Xnan).
Proof. exact tan_line. Qed.
Print Assumptions C01_directional_derivative.

(** The same in terms of ordinary real functions: when the derivative program yields the real
    number [d], the real function [t |-> P(a + t e)] has derivative [d] at [r]. *)
Theorem C01_directional_derivative_real : forall P n ks a e r j d,
  length a = n -> length e = n -> wscoped P n = true ->
  (forall k, In k ks -> k < length P + n) -> j < length ks ->
  nth (length ks - 1 - j) (eval_ext (tan_outs P n ks) (map Xreal (line_pt a e r ++ e))) Xnan = Xreal d ->
  forall v, derivable_pt_lim
    (fun t => match nth (nth j ks 0) (eval_ext P (map Xreal (line_pt a e t))) Xnan with Xreal y => y | Xnan => v end) r d.
Proof. exact tan_line_real. Qed.
Print Assumptions C01_directional_derivative_real.

(** The transformation preserves values: next to each derivative the transformed program still
    computes the original quantity (position form; [getb] reads a value list from its end). *)
Theorem C01_transformation_sound : forall P n (xs : list XF) (dx : list ExtendedR) t0,
  length xs = n -> length dx = n -> wscoped P n = true ->
  (forall j, j < n -> Xderive_pt (nth j xs dflt) t0 (nth j dx Xnan)) ->
  let '(Q, mf) := tan_prog P n in
  let tv := eval_ext Q (map (fun f : XF => f t0) xs ++ dx) in
  forall k, k < length P + n ->
    fst (nth k mf (0, 0)) < length tv /\ snd (nth k mf (0, 0)) < length tv /\
    getb tv (fst (nth k mf (0, 0))) = nth k (eval_ext P (map (fun f : XF => f t0) xs)) Xnan /\
    Xderive_pt (fun t => nth k (eval_ext P (map (fun f : XF => f t) xs)) Xnan) t0 (getb tv (snd (nth k mf (0, 0)))).
Proof. exact tan_prog_sound. Qed.
Print Assumptions C01_transformation_sound.

(** ** Caloric properties of the State layer (properties.rs).
    The Jacobian rule: for functions f, g, h of (T, V) (fixed composition) and any curve on which g is constant and which is
    parametrised by h, d f / d h along the curve is (f_T g_V - f_V g_T)/(h_T g_V - h_V g_T). *)
From Coquelicot Require Import Coquelicot.
From FeosVerif Require Import CaloricC01.
Local Open Scope R_scope.
Theorem C01_jacobian_rule : forall (f g h : R -> R -> R) (Tc Vc : R -> R) (s0 fT fV gT gV hT hV dT dV : R),
  differentiable_pt_lim f (Tc s0) (Vc s0) fT fV -> differentiable_pt_lim g (Tc s0) (Vc s0) gT gV ->
  differentiable_pt_lim h (Tc s0) (Vc s0) hT hV -> derivable_pt_lim Tc s0 dT -> derivable_pt_lim Vc s0 dV ->
  forall delta, 0 < delta ->
  (forall s, Rabs (s - s0) < delta -> g (Tc s) (Vc s) = g (Tc s0) (Vc s0)) ->
  (forall s, Rabs (s - s0) < delta -> h (Tc s) (Vc s) = s) ->
  hT * gV - hV * gT <> 0 ->
  derivable_pt_lim (fun s => f (Tc s) (Vc s)) s0 ((fT * gV - fV * gT) / (hT * gV - hV * gT)).
Proof. exact jacobian_rule. Qed.
Print Assumptions C01_jacobian_rule.

(** The expressions the getters evaluate (m_*, in terms of T, V, n and the second derivatives att, atv, avv of the total Helmholtz
    energy — the objects of C01_directional_derivative) ARE those Jacobian quotients with p = -A_V, S = -A_T, U = A + T S,
    H = U + p V:  c_p = T (dS/dT)_p / n,  Joule-Thomson = (dT/dp)_H,  kappa_S = -(dV/dp)_S / V,  kappa_H = -(dV/dp)_H / V,
    alpha = (dV/dT)_p / V,  Grueneisen = V (dp/dU)_V,  and rho_mass w^2 = 1/kappa_S = -V (dp/dV)_S. *)
Theorem C01_caloric_getters_are_jacobians : forall T V n att atv avv, 0 < T -> 0 < V -> 0 < n ->
  p_V avv <> 0 -> S_T att <> 0 -> S_T att - p_T atv ^ 2 / p_V avv <> 0 ->
  m_cp T n att atv avv = T * ((S_T att * p_V avv - S_V atv * p_T atv) / (1 * p_V avv - 0 * p_T atv)) / n /\
  m_joule_thomson T V n att atv avv = (1 * H_V T V atv avv - 0 * H_T T V att atv) / (p_T atv * H_V T V atv avv - p_V avv * H_T T V att atv) /\
  m_isentropic_compressibility T V n att atv avv = - (1 / V) * ((0 * S_V atv - 1 * S_T att) / (p_T atv * S_V atv - p_V avv * S_T att)) /\
  m_isenthalpic_compressibility T V n att atv avv = - (1 / V) * ((0 * H_V T V atv avv - 1 * H_T T V att atv) / (p_T atv * H_V T V atv avv - p_V avv * H_T T V att atv)) /\
  m_thermal_expansivity V atv avv = (1 / V) * ((0 * p_V avv - 1 * p_T atv) / (1 * p_V avv - 0 * p_T atv)) /\
  m_grueneisen T V n att atv = V * ((p_T atv * 1 - p_V avv * 0) / (C_v T att * 1 - U_V T atv * 0)) /\
  1 / m_isentropic_compressibility T V n att atv avv = - V * ((p_T atv * S_V atv - p_V avv * S_T att) / (0 * S_V atv - 1 * S_T att)).
Proof. exact caloric_getters_are_jacobians. Qed.
Print Assumptions C01_caloric_getters_are_jacobians.
