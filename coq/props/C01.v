(** C01 — state properties are exact derivatives of the model's Helmholtz energy.
    Property theorems only.  The programs [P] are regenerated from /repo on every run by tracing the
    real generic code (coq/gen/C01/*.v); the derivative programs are [tan_outs P n ks], iterated for
    orders 2 and 3, and each instance of the theorem below states "this reported quantity is the
    derivative of the next-lower-order quantity", the form in which C01 is phrased. *)
From Coq Require Import Reals List ZArith.
From Interval Require Import Real.Xreal Real.Xreal_derive Eval.Prog Eval.Tree Eval.Eval.
From FeosVerif Require Import ProgSem AD.

(** Along every straight line [a + t e] through every point, at every parameter [r]: output
    [length ks - 1 - j] of the derivative program, evaluated on [(a + r e) ++ e], is the derivative
    with respect to [t] of output [ks_j] of [P] — in Interval's sense [Xderive_pt]: either the
    derivative program is undefined there ([Xnan]) or the original output is a real-valued function
    derivable at [r] in a neighbourhood with exactly that derivative.  No bound on program size, no
    restriction on the state, the direction or the values of the constants. *)
Theorem C01_directional_derivative : forall P n ks (a e : list R) (r : R),
  length a = n -> length e = n -> wscoped P n = true ->
  (forall k, In k ks -> k < length P + n) ->
  forall j, j < length ks ->
    Xderive_pt (fun t => nth (nth j ks 0) (eval_ext P (map (fun f : XF => f t) (lineF a e))) Xnan) (Xreal r)
               (nth (length ks - 1 - j) (eval_ext (tan_outs P n ks) (map Xreal (line_pt a e r ++ e))) Xnan).
Proof. exact tan_line. Qed.
Print Assumptions C01_directional_derivative.

(** The same in terms of ordinary real functions: when the derivative program yields the real
    number [d], the real function [t |-> P(a + t e)] has derivative [d] at [r]. *)
Theorem C01_directional_derivative_real : forall P n ks a e r j d,
  length a = n -> length e = n -> wscoped P n = true ->
  (forall k, In k ks -> k < length P + n) -> j < length ks ->
  nth (length ks - 1 - j) (eval_ext (tan_outs P n ks) (map Xreal (line_pt a e r ++ e))) Xnan = Xreal d ->
  forall v, derivable_pt_lim
    (fun t => match nth (nth j ks 0) (eval_ext P (map Xreal (line_pt a e t))) Xnan with Xreal y => y | Xnan => v end) r d.
Proof. exact tan_line_real. Qed.
Print Assumptions C01_directional_derivative_real.

(** The transformation preserves values: next to each derivative the transformed program still
    computes the original quantity (position form; [getb] reads a value list from its end). *)
Theorem C01_transformation_sound : forall P n (xs : list XF) (dx : list ExtendedR) t0,
  length xs = n -> length dx = n -> wscoped P n = true ->
  (forall j, j < n -> Xderive_pt (nth j xs dflt) t0 (nth j dx Xnan)) ->
  let '(Q, mf) := tan_prog P n in
  let tv := eval_ext Q (map (fun f : XF => f t0) xs ++ dx) in
  forall k, k < length P + n ->
    fst (nth k mf (0, 0)) < length tv /\ snd (nth k mf (0, 0)) < length tv /\
    getb tv (fst (nth k mf (0, 0))) = nth k (eval_ext P (map (fun f : XF => f t0) xs)) Xnan /\
    Xderive_pt (fun t => nth k (eval_ext P (map (fun f : XF => f t) xs)) Xnan) t0 (getb tv (snd (nth k mf (0, 0)))).
Proof. exact tan_prog_sound. Qed.
Print Assumptions C01_transformation_sound.
